(** The framework invariant and totality: under [Inv], with validated
    machines and a clock whose duration addition does not overflow,
    [transition] (hence every function built on it) returns [Ok], preserves
    [Inv], never exhausts its fuel, and the potential
    [nsteps + number of unset zeroed-once flags] grows by at most one per
    top-level transition. *)
From MB Require Import Model.Framework Model.Validate.
From MB Require Import Proofs.Tactics Proofs.ListFacts Proofs.FrameworkStructure.
Open Scope N_scope.

(** ** what validation gives us *)
Definition targets_ok (m : machine) : Prop :=
  forall st v t p, In st (states m) -> In (Some v) (strans st) -> In (t, p) v ->
    target_ok (N.of_nat (length (states m))) t = true.

Definition machines_ok (c : cfg) : Prop := forall m, In m (machines c) -> targets_ok m.

Lemma validate_vector_targets : forall n v seen sum t p,
  validate_vector n v seen sum = true -> In (t, p) v -> target_ok n t = true.
Proof.
  induction v as [|[t0 p0] v IH]; intros seen sum t p H Hin; [inversion Hin|].
  cbn [validate_vector] in H. split_andb.
  destruct Hin as [Heq|Hin]; [inversion Heq; subst; assumption|eapply IH; eauto].
Qed.

Lemma validate_machine_targets : forall m, validate_machine m = true -> targets_ok m.
Proof.
  unfold validate_machine, targets_ok; intros m H st v t p Hst Hv Ht. cbv zeta in H.
  split_andb.
  match goal with Hf : forallb (validate_state _) _ = true |- _ =>
    rewrite forallb_forall in Hf; specialize (Hf st Hst); unfold validate_state in Hf end.
  split_andb.
  match goal with Hf : forallb _ (strans st) = true |- _ =>
    rewrite forallb_forall in Hf; specialize (Hf (Some v) Hv); cbn in Hf end.
  eapply validate_vector_targets; eauto.
Qed.

Lemma valid_cfg_machines_ok : forall c, valid_cfg c = true -> machines_ok c.
Proof.
  unfold valid_cfg, machines_ok; intros c H m Hm.
  split_andb.
  match goal with Hf : forallb validate_machine _ = true |- _ =>
    rewrite forallb_forall in Hf; apply validate_machine_targets; auto end.
Qed.

Definition clock_total (k : clock) : Prop := forall a b, exists v, c_add k a b = Ok v.

Lemma vclock_total : clock_total vclock.
Proof. intros a b; cbn; eauto. Qed.

(** ** the invariant *)
Definition cur_ok (m : machine) (r : mrt) : Prop :=
  cur r = STATE_END \/ cur r < N.of_nat (length (states m)).

Record Inv (c : cfg) (s : fstate) : Prop := mkInv {
  inv_rts : length (rts s) = length (machines c);
  inv_slots : length (slots s) = length (machines c);
  inv_cur : forall i r m, nth_error (rts s) i = Some r -> nth_error (machines c) i = Some m ->
                          cur_ok m r;
  inv_sig : forall x, sigp s = Some (SigAllExcept x) -> (x < length (machines c))%nat
}.

Lemma Inv_same : forall c s s',
  Inv c s -> rts s' = rts s -> length (slots s') = length (slots s) -> sigp s' = sigp s -> Inv c s'.
Proof.
  intros c s s' [H1 H2 H3 H4] Hr Hs Hg. constructor; rewrite ?Hr, ?Hs, ?Hg; auto.
Qed.

Lemma Inv_set_sigp : forall c s g,
  Inv c s -> (forall x, g = Some (SigAllExcept x) -> (x < length (machines c))%nat) ->
  Inv c (set_sigp s g).
Proof. intros c s g [H1 H2 H3 H4] Hg. constructor; cbn; auto. Qed.

Lemma Inv_set_rt : forall c s mi r m,
  Inv c s -> nth_error (machines c) mi = Some m -> cur_ok m r -> Inv c (set_rt s mi r).
Proof.
  intros c s mi r m [H1 H2 H3 H4] Hm Hc. constructor; cbn.
  - rewrite upd_length; auto.
  - auto.
  - intros i r' m' Hr' Hm'. rewrite nth_error_upd in Hr'.
    destruct (Nat.eqb_spec mi i) as [->|Hn].
    + destruct (i <? length (rts s))%nat; inversion Hr'; subst.
      assert (m' = m) by congruence. subst. exact Hc.
    + eauto.
  - auto.
Qed.

Lemma Inv_set_slot : forall c s mi a, Inv c s -> Inv c (set_slot s mi a).
Proof. intros; eapply Inv_same; eauto; cbn; rewrite ?upd_length; auto. Qed.

(** unset zeroed-once flags of a machine *)
Definition zc (s : fstate) (mi : nat) : N :=
  match nth_error (rts s) mi with Some r => zc_rt r | None => 0 end.

Lemma zc_same : forall s s' mi, rts s' = rts s -> zc s' mi = zc s mi.
Proof. unfold zc; intros s s' mi H; rewrite H; auto. Qed.

Lemma zc_set_rt : forall s mi r, (mi < length (rts s))%nat -> zc (set_rt s mi r) mi = zc_rt r.
Proof. unfold zc; intros; cbn. rewrite nth_error_upd_eq; auto. Qed.

Lemma pick_trans_In : forall v sum r t, pick_trans v sum r = Some t -> exists p, In (t, p) v.
Proof.
  induction v as [|[t0 p0] v IH]; intros sum r t H; cbn [pick_trans] in H; [discriminate|].
  destruct (flt32 _ _).
  - inversion H; subst; eexists; left; eauto.
  - apply IH in H. destruct H as [p Hp]. exists p; right; auto.
Qed.

Lemma sample_state_target : forall tp p st ev t p' m,
  targets_ok m -> In st (states m) ->
  sample_state tp p st ev = (Some t, p') -> target_ok (N.of_nat (length (states m))) t = true.
Proof.
  unfold sample_state; intros tp p st ev t p' m Hm Hst H.
  destruct (nth_error (strans st) (event_idx ev)) as [[v|]|] eqn:E; inversion H.
  match goal with Hp : pick_trans _ _ _ = Some t |- _ => apply pick_trans_In in Hp; destruct Hp as [pr Hp] end.
  eapply Hm; eauto. eapply nth_error_In; eauto.
Qed.

Section Total.
  Variable c : cfg.
  Variable tp : tape.
  Hypothesis Hms : machines_ok c.
  Hypothesis Hclk : clock_total (clk c).

  Lemma below_limit_blocking_total : forall s r m rp, exists b, below_limit_blocking c s r m rp = Ok b.
  Proof.
    intros s r m rp. unfold below_limit_blocking.
    destruct (rp && bactive s); [eauto|].
    assert (H1 : exists v, (if bactive s then c_add (clk c) (bdur r) (c_since (clk c) (now s) (bstart s)) else Ok (bdur r)) = Ok v)
      by (destruct (bactive s); [apply Hclk|eauto]).
    destruct H1 as [v1 ->]. cbn [bind].
    assert (H2 : exists v, (if bactive s then c_add (clk c) (gblk s) (c_since (clk c) (now s) (bstart s)) else Ok (gblk s)) = Ok v)
      by (destruct (bactive s); [apply Hclk|eauto]).
    destruct H2 as [v2 ->]. cbn [bind].
    destruct (_ <? _); [eauto|]. destruct (_ && _); [eauto|]. destruct (_ && _); eauto.
  Qed.

  Lemma below_action_limits_total : forall s r m,
    cur r < N.of_nat (length (states m)) -> exists b, below_action_limits c s r m = Ok b.
  Proof.
    intros s r m H. unfold below_action_limits.
    destruct (getN_lt (states m) (cur r) H) as [st ->]. cbn [bind].
    destruct (saction st) as [[t|b rp t l|b rp t d l|rp d l]|]; eauto.
    apply below_limit_blocking_total.
  Qed.

  Lemma schedule_action_total : forall s mi m stidx,
    Inv c s -> nth_error (machines c) mi = Some m -> stidx < N.of_nat (length (states m)) ->
    exists s', schedule_action c tp s mi stidx = Ok s' /\ Inv c s' /\ rts s' = rts s /\ nsteps s' = nsteps s.
  Proof.
    intros s mi m stidx HI Hm Hst. unfold schedule_action.
    unfold get at 1. rewrite Hm. cbn [bind].
    destruct (getN_lt (states m) stidx Hst) as [st ->]. cbn [bind].
    assert (Hmi : (mi < length (machines c))%nat) by (apply nth_error_Some; congruence).
    destruct (get_lt (slots (add_log s (LOG_SCHED, N.of_nat mi, stidx))) mi) as [sl ->];
      [cbn; rewrite (inv_slots _ _ HI); exact Hmi|]. cbn [bind].
    destruct (saction st) as [[t|b rp t l|b rp t d l|rp d l]|].
    - eexists; split; [reflexivity|]. split; [apply Inv_set_slot; eapply Inv_same; eauto|auto].
    - destruct (sample_day_clamped tp _ t) as [v p].
      eexists; split; [reflexivity|]. split; [apply Inv_set_slot; eapply Inv_same; eauto|auto].
    - destruct (sample_day_clamped tp _ t) as [v p]. destruct (sample_day_clamped tp p d) as [v2 p2].
      eexists; split; [reflexivity|]. split; [apply Inv_set_slot; eapply Inv_same; eauto|auto].
    - destruct (sample_day_clamped tp _ d) as [v p].
      eexists; split; [reflexivity|]. split; [apply Inv_set_slot; eapply Inv_same; eauto|auto].
    - eexists; split; [reflexivity|]. split; [apply Inv_set_slot; eapply Inv_same; eauto|auto].
  Qed.

  (** the result of [transition] we need *)
  Definition trans_post (s : fstate) (mi : nat) (s' : fstate) : Prop :=
    Inv c s' /\ nsteps s' + zc s' mi <= nsteps s + 1 + zc s mi /\ zc s' mi <= zc s mi
    /\ nsteps s <= nsteps s'.

  Lemma update_counter_total :
    forall (trans : fstate -> nat -> event -> outcome (fstate * bool)) s mi m r,
    Inv c s -> nth_error (machines c) mi = Some m -> nth_error (rts s) mi = Some r ->
    cur r < N.of_nat (length (states m)) ->
    (forall s1, Inv c s1 -> zc s1 mi < zc s mi ->
       exists s2 b, trans s1 mi CounterZero = Ok (s2, b) /\ trans_post s1 mi s2) ->
    exists s' al ch, update_counter trans c tp s mi = Ok (s', al, ch) /\
      Inv c s' /\ nsteps s' + zc s' mi <= nsteps s + zc s mi /\ zc s' mi <= zc s mi
      /\ nsteps s <= nsteps s'.
  Proof.
    intros trans s mi m r HI Hm Hr Hcur Htr. unfold update_counter.
    unfold get at 1. rewrite Hm. cbn [bind]. unfold get at 1. rewrite Hr. cbn [bind].
    destruct (getN_lt (states m) (cur r) Hcur) as [st ->]. cbn [bind].
    assert (Hmi : (mi < length (rts s))%nat) by (apply nth_error_Some; congruence).
    (* counter A *)
    set (XA := match sctr_a st with
               | Some cn => _
               | None => (r, pos s, false)
               end).
    assert (HA : cur (fst (fst XA)) = cur r /\ zb (fst (fst XA)) = zb r /\
                 (if snd XA then za r = false /\ za (fst (fst XA)) = true
                  else za (fst (fst XA)) = za r)).
    { subst XA. destruct (sctr_a st) as [cn|]; [|cbn; auto].
      destruct (if ccopy cn then (cb r, pos s) else sample_value tp (pos s) cn) as [chg p].
      destruct (negb (ca r =? 0) && (apply_op (cop cn) (ca r) chg =? 0) && negb (za r)) eqn:Ez; cbn; auto.
      apply andb_prop in Ez. destruct Ez as [_ Ez]. destruct (za r); [discriminate|auto]. }
    destruct XA as [[rA pA] zA]. cbn [fst snd] in HA. destruct HA as (HAc & HAb & HAz).
    set (XB := match sctr_b st with
               | Some cn => _
               | None => (rA, pA, false)
               end).
    assert (HB : cur (fst (fst XB)) = cur rA /\ za (fst (fst XB)) = za rA /\
                 (if snd XB then zb rA = false /\ zb (fst (fst XB)) = true
                  else zb (fst (fst XB)) = zb rA)).
    { subst XB. destruct (sctr_b st) as [cn|]; [|cbn; auto].
      destruct (if ccopy cn then (ca r, pA) else sample_value tp pA cn) as [chg p].
      destruct (negb (cb r =? 0) && (apply_op (cop cn) (cb rA) chg =? 0) && negb (zb rA)) eqn:Ez; cbn; auto.
      apply andb_prop in Ez. destruct Ez as [_ Ez]. destruct (zb rA); [discriminate|auto]. }
    destruct XB as [[rB pB] zB]. cbn [fst snd] in HB. destruct HB as (HBc & HBa & HBz).
    set (s1 := set_pos (set_rt s mi rB) pB).
    assert (HI1 : Inv c s1).
    { subst s1. eapply Inv_same; [eapply (Inv_set_rt c s mi rB m); eauto|reflexivity|reflexivity|reflexivity].
      right. rewrite HBc, HAc. exact Hcur. }
    assert (Hz1 : zc s1 mi = zc_rt rB) by (subst s1; unfold zc; cbn; rewrite nth_error_upd_eq; auto).
    assert (Hz0 : zc s mi = zc_rt r) by (unfold zc; rewrite Hr; auto).
    destruct (zA || zB) eqn:Ezz.
    - (* a counter was zeroed: at least one flag was newly set *)
      assert (Hlt : zc_rt rB < zc_rt r).
      { unfold zc_rt. rewrite HBa.
        destruct zA, zB; cbn in Ezz; try discriminate;
          repeat match goal with H : _ /\ _ |- _ => destruct H end;
          repeat match goal with H : za _ = _ |- _ => rewrite H in * end;
          repeat match goal with H : zb _ = _ |- _ => rewrite H in * end;
          try (destruct (za r)); try (destruct (zb r)); try (destruct (zb rA)); cbn; lia. }
      set (s2 := add_log s1 (LOG_CZERO, N.of_nat mi, 0)).
      destruct (Htr s2) as (s3 & chg & Ht & HI3 & Hp3 & Hz3 & Hn3).
      { eapply Inv_same; eauto. }
      { subst s2. rewrite (zc_same s1 (add_log s1 _)) by reflexivity. rewrite Hz1, Hz0. exact Hlt. }
      rewrite Ht. cbn [bind].
      destruct (get_lt (slots s3) mi) as [sl ->];
        [rewrite (inv_slots _ _ HI3), <- (inv_rts _ _ HI); exact Hmi|]. cbn [bind].
      do 3 eexists. split; [reflexivity|]. split; [exact HI3|].
      assert (Hs2 : zc s2 mi = zc_rt rB) by (subst s2; rewrite <- Hz1; apply zc_same; reflexivity).
      assert (Hn2 : nsteps s2 = nsteps s) by reflexivity.
      rewrite Hs2, Hn2 in *. rewrite Hz0. lia.
    - assert (zA = false /\ zB = false) by (destruct zA, zB; cbn in Ezz; auto; discriminate).
      destruct H as [-> ->].
      do 3 eexists. split; [reflexivity|]. split; [exact HI1|].
      assert (zc_rt rB = zc_rt r) by (unfold zc_rt; rewrite HBa, HBz, HAz, HAb; reflexivity).
      rewrite Hz1, Hz0, H. subst s1. cbn. lia.
  Qed.

  Lemma transition_total : forall fuel s mi ev,
    Inv c s -> (mi < length (machines c))%nat -> (N.to_nat (zc s mi) < fuel)%nat ->
    exists s' b, transition fuel c tp s mi ev = Ok (s', b) /\ trans_post s mi s'.
  Proof.
    induction fuel as [|fuel IH]; intros s mi ev HI Hmi Hf; [lia|].
    cbn [transition].
    set (s0 := add_step (add_log s (LOG_TRANS, N.of_nat mi, N.of_nat (event_idx ev)))).
    assert (HI0 : Inv c s0) by (eapply Inv_same; eauto).
    assert (Hz0 : zc s0 mi = zc s mi) by (apply zc_same; reflexivity).
    assert (Hn0 : nsteps s0 = nsteps s + 1) by reflexivity.
    assert (Hlen : (mi < length (rts s0))%nat) by (rewrite (inv_rts _ _ HI0); exact Hmi).
    destruct (get_lt (rts s0) mi Hlen) as [r Hr]. rewrite Hr. cbn [bind]. apply get_ok in Hr.
    destruct (nth_error (machines c) mi) as [m|] eqn:Hm; [|apply nth_error_None in Hm; lia].
    assert (Hmok : targets_ok m) by (apply Hms; eapply nth_error_In; eauto).
    destruct (N.eqb_spec (cur r) STATE_END) as [Hend|Hnend].
    { do 2 eexists. split; [reflexivity|]. unfold trans_post. split; [exact HI0|]. rewrite Hz0, Hn0. lia. }
    unfold get at 1. rewrite Hm. cbn [bind].
    assert (Hcur : cur r < N.of_nat (length (states m))).
    { destruct (inv_cur _ _ HI0 mi r m Hr Hm); [contradiction|assumption]. }
    destruct (getN_lt (states m) (cur r) Hcur) as [st Hst]. rewrite Hst. cbn [bind].
    apply getN_ok in Hst.
    destruct (sample_state tp (pos s0) st ev) as [[ns|] p] eqn:Es.
    2:{ do 2 eexists. split; [reflexivity|]. unfold trans_post.
        rewrite (zc_same s0 (set_pos s0 p)) by reflexivity. rewrite Hz0. cbn [nsteps set_pos].
        rewrite Hn0. split; [eapply Inv_same; eauto|lia]. }
    assert (Hns : target_ok (N.of_nat (length (states m))) ns = true).
    { eapply sample_state_target; eauto. eapply nthN_In; eauto. }
    set (s1 := add_log (set_pos s0 p) (LOG_NEXT, N.of_nat mi, ns)).
    assert (HI1 : Inv c s1) by (eapply Inv_same; eauto).
    assert (Hz1 : zc s1 mi = zc s mi) by (rewrite <- Hz0; apply zc_same; reflexivity).
    assert (Hn1 : nsteps s1 = nsteps s + 1) by reflexivity.
    assert (Hr1 : nth_error (rts s1) mi = Some r) by exact Hr.
    destruct (N.eqb_spec ns STATE_END) as [He|Hne].
    { do 2 eexists. split; [reflexivity|]. unfold trans_post.
      split; [eapply Inv_set_rt; eauto; left; reflexivity|].
      rewrite zc_set_rt by exact Hlen.
      assert (zc_rt (rt_set_cur r STATE_END (lim r)) = zc s mi)
        by (rewrite <- Hz1; unfold zc; rewrite Hr1; reflexivity).
      rewrite H. cbn [nsteps set_rt set_rts]. rewrite Hn1. lia. }
    destruct (N.eqb_spec ns STATE_SIGNAL) as [Hsg|Hnsg].
    { do 2 eexists. split; [reflexivity|]. unfold trans_post.
      split.
      { apply Inv_set_sigp; [eapply Inv_same; eauto|].
        intros x Hx. unfold sig_join in Hx.
        destruct (sigp s1) as [[|y]|]; [inversion Hx| |inversion Hx; subst; exact Hmi].
        destruct (Nat.eqb y mi); inversion Hx; subst; exact Hmi. }
      rewrite (zc_same s1) by reflexivity. rewrite Hz1. cbn [nsteps set_sigp add_log]. rewrite Hn1. lia. }
    assert (Hnsl : ns < N.of_nat (length (states m))).
    { unfold target_ok in Hns. apply orb_prop in Hns. destruct Hns as [Hns|Hns].
      - apply orb_prop in Hns. destruct Hns as [Hns|Hns].
        + apply N.ltb_lt; exact Hns.
        + apply N.eqb_eq in Hns; contradiction.
      - apply N.eqb_eq in Hns; contradiction. }
    (* state change (samples the limit) *)
    assert (H2 : exists s2 r2,
      (if negb (cur r =? ns)
       then nst <- getN (states m) ns ;;
            (let '(l, p0) := match saction nst with
                              | Some a => sample_limit tp (pos s1) a
                              | None => (STATE_LIMIT_MAX, pos s1)
                              end in
             Ok (set_pos (set_rt (add_log s1 (LOG_CHANGE, N.of_nat mi, ns)) mi (rt_set_cur r ns l)) p0))
       else Ok s1) = Ok s2 /\ Inv c s2 /\ nth_error (rts s2) mi = Some r2 /\ cur r2 = ns
       /\ zc s2 mi = zc s mi /\ nsteps s2 = nsteps s + 1).
    { destruct (N.eqb_spec (cur r) ns) as [Heq|Hneq]; cbn [negb].
      - exists s1, r. split; [reflexivity|]. split; [exact HI1|]. split; [exact Hr1|].
        split; [exact Heq|]. split; [exact Hz1|exact Hn1].
      - destruct (getN_lt (states m) ns Hnsl) as [nst ->]. cbn [bind].
        destruct (match saction nst with Some a => sample_limit tp (pos s1) a | None => (STATE_LIMIT_MAX, pos s1) end) as [l q].
        eexists; exists (rt_set_cur r ns l). split; [reflexivity|].
        split; [eapply Inv_same; [eapply (Inv_set_rt c (add_log s1 (LOG_CHANGE, N.of_nat mi, ns)) mi (rt_set_cur r ns l) m);
                                    [eapply Inv_same; [exact HI1|reflexivity|reflexivity|reflexivity]|exact Hm|right; cbn; exact Hnsl]
                                  |reflexivity|reflexivity|reflexivity]|].
        split; [cbn; apply nth_error_upd_eq; exact Hlen|]. split; [reflexivity|].
        split; [|reflexivity].
        rewrite (zc_same (set_rt (add_log s1 (LOG_CHANGE, N.of_nat mi, ns)) mi (rt_set_cur r ns l))) by reflexivity.
        rewrite zc_set_rt by exact Hlen. rewrite <- Hz1. unfold zc. rewrite Hr1. reflexivity. }
    destruct H2 as (s2 & r2 & -> & HI2 & Hr2 & Hc2 & Hz2 & Hn2). cbn [bind].
    unfold get at 1. rewrite Hr2. cbn [bind].
    destruct (below_action_limits_total s2 r2 m) as [below ->]; [rewrite Hc2; exact Hnsl|]. cbn [bind].
    destruct (update_counter_total (transition fuel c tp) s2 mi m r2 HI2 Hm Hr2) as
        (s3 & allow & chg & -> & HI3 & Hp3 & Hz3 & Hn3).
    { rewrite Hc2; exact Hnsl. }
    { intros sx HIx Hzx. destruct (IH sx mi CounterZero HIx Hmi) as (sy & b & Hy & Hpost); [lia|].
      exists sy, b. split; auto. }
    cbn [bind].
    assert (H4 : exists s4, (if allow && below then schedule_action c tp s3 mi ns else Ok s3) = Ok s4
                 /\ Inv c s4 /\ rts s4 = rts s3 /\ nsteps s4 = nsteps s3).
    { destruct (allow && below); [|eauto].
      destruct (schedule_action_total s3 mi m ns HI3 Hm Hnsl) as (s4 & -> & ? & ? & ?). eauto. }
    destruct H4 as (s4 & -> & HI4 & Hr4 & Hn4). cbn [bind].
    destruct (get_lt (rts s4) mi) as [r4 ->]; [rewrite (inv_rts _ _ HI4); exact Hmi|]. cbn [bind].
    do 2 eexists. split; [reflexivity|]. unfold trans_post. split; [exact HI4|].
    rewrite (zc_same s3 s4) by exact Hr4. rewrite Hn4. lia.
  Qed.
End Total.
