(** Totality of whole calls and the step bound: lifts [transition_total]
    through [process_event], the signal round, [trigger_events], [fnew] and
    [run], with the potential  Phi = nsteps + sum of unset zeroed-once flags. *)
From MB Require Import Model.Framework Model.Validate.
From MB Require Import Proofs.Tactics Proofs.ListFacts Proofs.FrameworkStructure Proofs.FrameworkInv.
Open Scope N_scope.

Fixpoint zsum (l : list mrt) : N :=
  match l with [] => 0 | r :: t => zc_rt r + zsum t end.

Definition zcl (l : list mrt) (mi : nat) : N :=
  match nth_error l mi with Some r => zc_rt r | None => 0 end.

Definition Phi (s : fstate) : N := nsteps s + zsum (rts s).

Lemma zsum_frame : forall l l' mi,
  length l' = length l ->
  (forall j, j <> mi -> nth_error l' j = nth_error l j) ->
  zsum l' + zcl l mi = zsum l + zcl l' mi.
Proof.
  induction l as [|r l IH]; intros [|r' l'] mi Hlen Hfr; cbn [length] in Hlen; try discriminate.
  - destruct mi; reflexivity.
  - destruct mi as [|mi].
    + assert (l' = l).
      { apply nth_ext with (d := r) (d' := r); [lia|]. intros n Hn.
        specialize (Hfr (S n) ltac:(lia)). cbn in Hfr.
        rewrite (nth_error_nth' l' r) in Hfr by lia. rewrite (nth_error_nth' l r) in Hfr by lia.
        congruence. }
      subst. unfold zcl. cbn. lia.
    + assert (r' = r) by (specialize (Hfr 0%nat ltac:(lia)); cbn in Hfr; congruence). subst.
      specialize (IH l' mi ltac:(lia)).
      assert (Hfr' : forall j, j <> mi -> nth_error l' j = nth_error l j)
        by (intros j Hj; apply (Hfr (S j)); lia).
      specialize (IH Hfr'). unfold zcl in *. cbn. lia.
Qed.

(** frame: a step of machine [mi] leaves the other machines' runtime alone *)
Definition others_same (mi : nat) (s s' : fstate) : Prop :=
  length (rts s') = length (rts s) /\
  forall j, j <> mi -> nth_error (rts s') j = nth_error (rts s) j.

Lemma others_same_refl : forall mi s, others_same mi s s.
Proof. unfold others_same; auto. Qed.

Lemma others_same_trans : forall mi s1 s2 s3,
  others_same mi s1 s2 -> others_same mi s2 s3 -> others_same mi s1 s3.
Proof.
  unfold others_same; intros mi s1 s2 s3 [L1 H1] [L2 H2]. split; [congruence|].
  intros j Hj. rewrite H2, H1; auto.
Qed.

Lemma others_same_set_rt : forall mi s r, others_same mi s (set_rt s mi r).
Proof.
  unfold others_same; intros; cbn. split; [apply upd_length|].
  intros j Hj. apply nth_error_upd_neq; auto.
Qed.

Ltac os_prim := solve [intros; unfold others_same; cbn; split; auto].

Lemma transition_others : forall c tp fuel s mi ev s' b,
  transition fuel c tp s mi ev = Ok (s', b) -> others_same mi s s'.
Proof.
  intros c tp. apply (transition_R c tp others_same); try os_prim.
  - apply others_same_trans.
  - intros; apply others_same_set_rt.
Qed.

Lemma decrement_limit_others : forall c tp s mi s',
  decrement_limit c tp s mi = Ok s' -> others_same mi s s'.
Proof.
  intros c tp. apply (decrement_limit_R c tp others_same); try os_prim.
  - apply others_same_trans.
  - intros; apply others_same_set_rt.
Qed.

Lemma Phi_step : forall s s' mi k,
  others_same mi s s' ->
  nsteps s' + zc s' mi <= nsteps s + k + zc s mi -> Phi s' <= Phi s + k.
Proof.
  unfold Phi, zc; intros s s' mi k [Hl Hf] H.
  pose proof (zsum_frame (rts s) (rts s') mi Hl Hf) as Hz. unfold zcl in Hz. lia.
Qed.

Ltac done3 := split; [reflexivity|split; [eassumption|try lia]].

Section Total.
  Variable c : cfg.
  Variable tp : tape.
  Hypothesis Hms : machines_ok c.
  Hypothesis Hclk : clock_total (clk c).

  Let n := length (machines c).

  Lemma zc_le2 : forall s mi, zc s mi <= 2.
  Proof.
    unfold zc, zc_rt; intros s mi. destruct (nth_error (rts s) mi) as [r|]; [|lia].
    destruct (za r), (zb r); cbn; lia.
  Qed.

  (** a top-level transition *)
  Lemma transition_top : forall s mi ev,
    Inv c s -> (mi < n)%nat ->
    exists s' b, transition FUEL c tp s mi ev = Ok (s', b) /\ Inv c s' /\ Phi s' <= Phi s + 1
                 /\ nsteps s <= nsteps s'.
  Proof.
    intros s mi ev HI Hmi.
    destruct (transition_total c tp Hms Hclk FUEL s mi ev HI Hmi) as (s' & b & Ht & HI' & Hp & Hz & Hn).
    { pose proof (zc_le2 s mi). unfold FUEL. lia. }
    exists s', b. split; [exact Ht|]. split; [exact HI'|]. split; [|exact Hn].
    eapply Phi_step; [eapply transition_others; eauto|exact Hp].
  Qed.

  Lemma decrement_limit_total : forall s mi r,
    Inv c s -> (mi < n)%nat -> nth_error (rts s) mi = Some r -> cur r <> STATE_END ->
    exists s', decrement_limit c tp s mi = Ok s' /\ Inv c s' /\ Phi s' <= Phi s + 1
               /\ nsteps s <= nsteps s'.
  Proof.
    intros s mi r HI Hmi Hr Hne. unfold decrement_limit.
    unfold get at 1. cbn [rts add_log]. rewrite Hr. cbn [bind].
    set (r1 := if 0 <? lim r then rt_set_lim r (lim r - 1) else r).
    set (s1 := set_rt (add_log s (LOG_DEC, N.of_nat mi, 0)) mi r1).
    destruct (nth_error (machines c) mi) as [m|] eqn:Hm; [|apply nth_error_None in Hm; subst n; lia].
    assert (Hc1 : cur r1 = cur r) by (subst r1; destruct (0 <? lim r); reflexivity).
    assert (Hz1 : zc_rt r1 = zc_rt r) by (subst r1; destruct (0 <? lim r); reflexivity).
    assert (Hcur : cur r < N.of_nat (length (states m))).
    { destruct (inv_cur _ _ HI mi r m Hr Hm); [contradiction|assumption]. }
    assert (HI1 : Inv c s1).
    { subst s1. eapply Inv_set_rt; eauto; [eapply Inv_same; eauto|]. right. rewrite Hc1. exact Hcur. }
    assert (Hlen : (mi < length (rts s))%nat) by (rewrite (inv_rts _ _ HI); exact Hmi).
    assert (HP1 : Phi s1 <= Phi s).
    { apply (N.le_trans _ (Phi s + 0)); [|lia]. eapply (Phi_step s s1 mi 0).
      - subst s1. eapply others_same_trans; [|apply others_same_set_rt]. os_prim.
      - subst s1. rewrite zc_set_rt by exact Hlen. unfold zc. rewrite Hr. cbn [nsteps set_rt set_rts add_log]. lia. }
    unfold get at 1. rewrite Hm. cbn [bind].
    destruct (getN_lt (states m) (cur r1)) as [st ->]; [rewrite Hc1; exact Hcur|]. cbn [bind].
    assert (Hns1 : nsteps s1 = nsteps s) by reflexivity.
    destruct (saction st) as [act|]; [|exists s1; done3].
    destruct ((lim r1 =? 0) && action_has_limit act); [|exists s1; done3].
    set (s2 := add_log (set_slot s1 mi None) (LOG_LIMIT, N.of_nat mi, 0)).
    assert (HI2 : Inv c s2) by (eapply Inv_same; [apply (Inv_set_slot c s1 mi None HI1)|reflexivity|reflexivity|reflexivity]).
    destruct (transition_top s2 mi LimitReached HI2 Hmi) as (s3 & b & -> & HI3 & HP3 & Hn3). cbn [bind].
    exists s3. split; [reflexivity|]. split; [exact HI3|].
    assert (Phi s2 = Phi s1) by reflexivity. assert (nsteps s2 = nsteps s) by reflexivity. lia.
  Qed.

  Lemma trans_dec_total : forall s mi ev dec,
    Inv c s -> (mi < n)%nat ->
    exists s', trans_dec c tp s mi ev dec = Ok s' /\ Inv c s'
               /\ Phi s' <= Phi s + 1 + (if dec then 1 else 0) /\ nsteps s <= nsteps s'.
  Proof.
    intros s mi ev dec HI Hmi. unfold trans_dec.
    destruct (transition_top s mi ev HI Hmi) as (s1 & chg & -> & HI1 & HP1 & Hn1). cbn [bind].
    destruct (get_lt (rts s1) mi) as [r Hr]; [rewrite (inv_rts _ _ HI1); exact Hmi|].
    rewrite Hr. cbn [bind]. apply get_ok in Hr.
    destruct (negb chg && negb (cur r =? STATE_END) && dec) eqn:E.
    - apply andb_prop in E. destruct E as [E Ed]. apply andb_prop in E. destruct E as [_ E].
      rewrite Ed. destruct (N.eqb_spec (cur r) STATE_END) as [|Hne]; [discriminate|].
      destruct (decrement_limit_total s1 mi r HI1 Hmi Hr Hne) as (s2 & -> & HI2 & HP2 & Hn2).
      exists s2. done3.
    - exists s1. split; [reflexivity|split; [eassumption|destruct dec; lia]].
  Qed.

  (** ** the per-event loops *)
  Lemma trans_all_total : forall ev k from s,
    Inv c s -> (from + k <= n)%nat ->
    exists s', trans_all c tp ev k from s = Ok s' /\ Inv c s' /\ Phi s' <= Phi s + N.of_nat k.
  Proof.
    induction k as [|k IH]; intros from s HI Hk; cbn [trans_all].
    - exists s. done3.
    - destruct (transition_top s from ev HI ltac:(lia)) as (s1 & b & -> & HI1 & HP1 & _). cbn [bind].
      destruct (IH (S from) s1 HI1 ltac:(lia)) as (s2 & -> & HI2 & HP2).
      exists s2. done3.
  Qed.

  Lemma Inv_upd_rt_same_cur : forall s mi r r',
    Inv c s -> nth_error (rts s) mi = Some r -> cur r' = cur r -> Inv c (set_rt s mi r').
  Proof.
    intros s mi r r' HI Hr Hc.
    assert (Hmi : (mi < length (machines c))%nat)
      by (rewrite <- (inv_rts _ _ HI); apply nth_error_Some; congruence).
    destruct (nth_error (machines c) mi) as [m|] eqn:Hm; [|apply nth_error_None in Hm; lia].
    eapply Inv_set_rt; eauto. unfold cur_ok. rewrite Hc. eapply inv_cur; eauto.
  Qed.

  Lemma Phi_upd_same_z : forall s mi r r',
    nth_error (rts s) mi = Some r -> zc_rt r' = zc_rt r -> Phi (set_rt s mi r') = Phi s.
  Proof.
    intros s mi r r' Hr Hz.
    assert (Hlen : (mi < length (rts s))%nat) by (apply nth_error_Some; congruence).
    pose proof (Phi_step s (set_rt s mi r') mi 0 (others_same_set_rt mi s r')) as H1.
    pose proof (Phi_step (set_rt s mi r') s mi 0) as H2.
    rewrite zc_set_rt in * by exact Hlen. unfold zc in *. rewrite Hr in *.
    cbn [nsteps set_rt set_rts] in *.
    assert (others_same mi (set_rt s mi r') s).
    { unfold others_same; cbn. split; [symmetry; apply upd_length|].
      intros j Hj. symmetry. apply nth_error_upd_neq; auto. }
    specialize (H1 ltac:(lia)). specialize (H2 H ltac:(lia)). lia.
  Qed.

  Lemma normal_sent_all_total : forall k from s,
    Inv c s -> (from + k <= n)%nat ->
    exists s', normal_sent_all c tp k from s = Ok s' /\ Inv c s' /\ Phi s' <= Phi s + N.of_nat k.
  Proof.
    induction k as [|k IH]; intros from s HI Hk; cbn [normal_sent_all].
    - exists s. done3.
    - destruct (get_lt (rts s) from) as [r Hr]; [rewrite (inv_rts _ _ HI); lia|].
      rewrite Hr. cbn [bind]. apply get_ok in Hr.
      set (s0 := set_rt s from (rt_set_nsent r (nsent r + 1))).
      assert (HI0 : Inv c s0) by (eapply Inv_upd_rt_same_cur; eauto).
      assert (HP0 : Phi s0 = Phi s) by (eapply Phi_upd_same_z; eauto).
      destruct (transition_top s0 from NormalSent HI0 ltac:(lia)) as (s1 & b & -> & HI1 & HP1 & _). cbn [bind].
      destruct (IH (S from) s1 HI1 ltac:(lia)) as (s2 & -> & HI2 & HP2).
      exists s2. done3.
  Qed.

  Lemma blocking_begin_all_total : forall target k from s,
    Inv c s -> (from + k <= n)%nat ->
    exists s', blocking_begin_all c tp target k from s = Ok s' /\ Inv c s'
               /\ Phi s' <= Phi s + N.of_nat k
                    + (if (N.of_nat from <=? target) && (target <? N.of_nat (from + k)) then 1 else 0).
  Proof.
    induction k as [|k IH]; intros from s HI Hk; cbn [blocking_begin_all].
    - exists s. done3.
    - destruct (trans_dec_total s from BlockingBegin (N.of_nat from =? target) HI ltac:(lia))
        as (s1 & -> & HI1 & HP1 & _). cbn [bind].
      destruct (IH (S from) s1 HI1 ltac:(lia)) as (s2 & -> & HI2 & HP2).
      exists s2. split; [reflexivity|]. split; [exact HI2|].
      destruct (N.eqb_spec (N.of_nat from) target) as [He|Hne].
      + replace ((N.of_nat (S from) <=? target) && (target <? N.of_nat (S from + k))) with false in HP2
          by (symmetry; apply andb_false_iff; left; apply N.leb_gt; lia).
        replace ((N.of_nat from <=? target) && (target <? N.of_nat (from + S k))) with true
          by (symmetry; apply andb_true_iff; split; [apply N.leb_le|apply N.ltb_lt]; lia).
        lia.
      + destruct ((N.of_nat (S from) <=? target) && (target <? N.of_nat (S from + k))) eqn:E2.
        * apply andb_prop in E2. destruct E2 as [E2a E2b]. apply N.leb_le in E2a. apply N.ltb_lt in E2b.
          replace ((N.of_nat from <=? target) && (target <? N.of_nat (from + S k))) with true
            by (symmetry; apply andb_true_iff; split; [apply N.leb_le|apply N.ltb_lt]; lia).
          lia.
        * destruct ((N.of_nat from <=? target) && (target <? N.of_nat (from + S k))); lia.
  Qed.

  Lemma blocking_end_all_total : forall blocked k from s,
    Inv c s -> (from + k <= n)%nat ->
    exists s', blocking_end_all c tp blocked k from s = Ok s' /\ Inv c s' /\ Phi s' <= Phi s + N.of_nat k.
  Proof.
    induction k as [|k IH]; intros from s HI Hk; cbn [blocking_end_all].
    - exists s. done3.
    - destruct (get_lt (rts s) from) as [r Hr]; [rewrite (inv_rts _ _ HI); lia|].
      rewrite Hr. cbn [bind]. apply get_ok in Hr.
      assert (H0 : exists s0, (if negb (blocked =? 0)
                               then d <- c_add (clk c) (bdur r) blocked ;; Ok (set_rt s from (rt_set_bdur r d))
                               else Ok s) = Ok s0 /\ Inv c s0 /\ Phi s0 = Phi s).
      { destruct (negb (blocked =? 0)); [|eauto].
        destruct (Hclk (bdur r) blocked) as [d ->]. cbn [bind].
        eexists. split; [reflexivity|]. split; [eapply Inv_upd_rt_same_cur; eauto|eapply Phi_upd_same_z; eauto]. }
      destruct H0 as (s0 & -> & HI0 & HP0). cbn [bind].
      destruct (transition_top s0 from BlockingEnd HI0 ltac:(lia)) as (s1 & b & -> & HI1 & HP1 & _). cbn [bind].
      destruct (IH (S from) s1 HI1 ltac:(lia)) as (s2 & -> & HI2 & HP2).
      exists s2. done3.
  Qed.

  Lemma Inv_global : forall s s',
    Inv c s -> rts s' = rts s -> slots s' = slots s -> sigp s' = sigp s -> Inv c s'.
  Proof. intros s s' HI Hr Hs Hg. eapply Inv_same; eauto. rewrite Hs; auto. Qed.

  (** one reported event costs at most n + 1 machine steps *)
  Lemma process_event_total : forall s e,
    Inv c s ->
    exists s', process_event c tp s e = Ok s' /\ Inv c s' /\ Phi s' <= Phi s + N.of_nat n + 1.
  Proof.
    intros s e HI. unfold process_event.
    assert (Hn : nmach s = n) by (unfold nmach; apply (inv_rts _ _ HI)).
    rewrite Hn.
    destruct e as [ | | | |m| |m| |m|m].
    - destruct (trans_all_total NormalRecv n 0 s HI ltac:(lia)) as (s' & -> & ? & ?). exists s'. done3.
    - destruct (trans_all_total PaddingRecv n 0 s HI ltac:(lia)) as (s' & -> & ? & ?). exists s'. done3.
    - destruct (trans_all_total TunnelRecv n 0 s HI ltac:(lia)) as (s' & -> & ? & ?). exists s'. done3.
    - destruct (normal_sent_all_total n 0 (set_gnorm s (gnorm s + 1))) as (s' & -> & ? & ?);
        [eapply Inv_global; eauto|lia|].
      assert (Phi (set_gnorm s (gnorm s + 1)) = Phi s) by reflexivity. exists s'. done3.
    - destruct (N.leb_spec (N.of_nat n) m) as [Hge|Hlt].
      + exists (set_gpad s (gpad s + 1)). split; [reflexivity|]. split; [eapply Inv_global; eauto|].
        assert (Phi (set_gpad s (gpad s + 1)) = Phi s) by reflexivity. lia.
      + set (s0 := set_gpad s (gpad s + 1)).
        assert (HI0 : Inv c s0) by (eapply Inv_global; eauto).
        assert (Hmi : (N.to_nat m < n)%nat) by lia.
        destruct (get_lt (rts s0) (N.to_nat m)) as [r Hr]; [rewrite (inv_rts _ _ HI0); exact Hmi|].
        rewrite Hr. cbn [bind]. apply get_ok in Hr.
        set (s1 := set_rt s0 (N.to_nat m) (rt_set_psent r (psent r + 1))).
        assert (HI1 : Inv c s1) by (eapply Inv_upd_rt_same_cur; eauto).
        assert (HP1 : Phi s1 = Phi s) by (transitivity (Phi s0); [eapply Phi_upd_same_z; eauto|reflexivity]).
        destruct (trans_dec_total s1 (N.to_nat m) PaddingSent true HI1 Hmi) as (s' & -> & ? & ? & _).
        exists s'. done3.
    - destruct (trans_all_total TunnelSent n 0 s HI ltac:(lia)) as (s' & -> & ? & ?). exists s'. done3.
    - set (s0 := if bactive s then s else set_blocking s (gblk s) (now s) true).
      assert (HI0 : Inv c s0) by (subst s0; destruct (bactive s); [auto|eapply Inv_global; eauto]).
      assert (HP0 : Phi s0 = Phi s) by (subst s0; destruct (bactive s); reflexivity).
      destruct (blocking_begin_all_total m n 0 s0 HI0 ltac:(lia)) as (s' & -> & ? & HP).
      exists s'. split; [reflexivity|]. split; [assumption|].
      destruct ((N.of_nat 0 <=? m) && (m <? N.of_nat (0 + n))); lia.
    - assert (H0 : exists s0 b, (if bactive s
                 then g <- c_add (clk c) (gblk s) (c_since (clk c) (now s) (bstart s)) ;;
                      Ok (set_blocking s g (bstart s) false, c_since (clk c) (now s) (bstart s))
                 else Ok (s, 0)) = Ok (s0, b) /\ Inv c s0 /\ Phi s0 = Phi s).
      { destruct (bactive s); [|eauto].
        destruct (Hclk (gblk s) (c_since (clk c) (now s) (bstart s))) as [g ->]. cbn [bind].
        do 2 eexists. split; [reflexivity|]. split; [eapply Inv_global; eauto|reflexivity]. }
      destruct H0 as (s0 & b & -> & HI0 & HP0). cbn [bind].
      destruct (blocking_end_all_total b n 0 s0 HI0 ltac:(lia)) as (s' & -> & ? & ?).
      exists s'. done3.
    - destruct (N.leb_spec (N.of_nat n) m) as [Hge|Hlt].
      + exists s. done3.
      + destruct (trans_dec_total s (N.to_nat m) TimerBegin true HI ltac:(lia)) as (s' & -> & ? & ? & _).
        exists s'. done3.
    - destruct (N.leb_spec (N.of_nat n) m) as [Hge|Hlt].
      + exists s. done3.
      + destruct (transition_top s (N.to_nat m) TimerEnd HI ltac:(lia)) as (s' & b & -> & ? & ? & _). cbn [bind].
        exists s'. done3.
  Qed.

  Lemma events_total : forall evs s,
    Inv c s ->
    exists s', foldM (process_event c tp) evs s = Ok s' /\ Inv c s'
               /\ Phi s' <= Phi s + N.of_nat (length evs) * (N.of_nat n + 1).
  Proof.
    induction evs as [|e evs IH]; intros s HI; cbn [foldM length].
    - exists s. done3.
    - destruct (process_event_total s e HI) as (s1 & -> & HI1 & HP1). cbn [bind].
      destruct (IH s1 HI1) as (s2 & -> & HI2 & HP2). exists s2. done3.
  Qed.

  (** ** the signal round: at most n deliveries *)
  Lemma signal_all_total : forall excluded k from s,
    Inv c s -> (from + k <= n)%nat ->
    exists s', signal_all c tp excluded k from s = Ok s' /\ Inv c s'
               /\ Phi s' + (match excluded with
                            | Some x => if (Nat.leb from x && Nat.ltb x (from + k))%bool then 1 else 0
                            | None => 0 end)
                  <= Phi s + N.of_nat k.
  Proof.
    induction k as [|k IH]; intros from s HI Hk; cbn [signal_all].
    - exists s. split; [reflexivity|]. split; [exact HI|].
      destruct excluded as [x|]; [|lia].
      replace (Nat.leb from x && Nat.ltb x (from + 0))%bool with false; [lia|].
      symmetry. apply andb_false_iff. destruct (Nat.leb_spec from x); [right; apply Nat.ltb_ge; lia|left; reflexivity].
    - assert (H1 : exists s1,
        (if match excluded with Some x => Nat.eqb x from | None => false end then Ok s
         else '(s0, _) <- transition FUEL c tp (add_log s (LOG_SIGDELIVER, N.of_nat from, 0)) from Signal ;; Ok s0)
        = Ok s1 /\ Inv c s1 /\
        Phi s1 + (match excluded with Some x => if Nat.eqb x from then 1 else 0 | None => 0 end) <= Phi s + 1).
      { destruct (match excluded with Some x => Nat.eqb x from | None => false end) eqn:Ex.
        - exists s. split; [reflexivity|]. split; [exact HI|]. destruct excluded as [x|]; [rewrite Ex; lia|discriminate].
        - destruct (transition_top (add_log s (LOG_SIGDELIVER, N.of_nat from, 0)) from Signal) as (s1 & b & -> & HI1 & HP1 & _);
            [eapply Inv_same; eauto|lia|]. cbn [bind].
          exists s1. split; [reflexivity|]. split; [exact HI1|].
          assert (Phi (add_log s (LOG_SIGDELIVER, N.of_nat from, 0)) = Phi s) by reflexivity.
          destruct excluded as [x|]; [rewrite Ex|]; lia. }
      destruct H1 as (s1 & -> & HI1 & HP1). cbn [bind].
      destruct (IH (S from) s1 HI1 ltac:(lia)) as (s2 & -> & HI2 & HP2).
      exists s2. split; [reflexivity|]. split; [exact HI2|].
      destruct excluded as [x|]; [|lia].
      destruct (Nat.eqb_spec x from) as [->|Hne].
      + replace (Nat.leb (S from) from && Nat.ltb from (S from + k))%bool with false in HP2
          by (symmetry; apply andb_false_iff; left; apply Nat.leb_gt; lia).
        replace (Nat.leb from from && Nat.ltb from (from + S k))%bool with true
          by (symmetry; apply andb_true_iff; split; [apply Nat.leb_le|apply Nat.ltb_lt]; lia).
        lia.
      + destruct (Nat.leb (S from) x && Nat.ltb x (S from + k))%bool eqn:E2.
        * apply andb_prop in E2. destruct E2 as [E2a E2b]. apply Nat.leb_le in E2a. apply Nat.ltb_lt in E2b.
          replace (Nat.leb from x && Nat.ltb x (from + S k))%bool with true
            by (symmetry; apply andb_true_iff; split; [apply Nat.leb_le|apply Nat.ltb_lt]; lia).
          lia.
        * replace (Nat.leb from x && Nat.ltb x (from + S k))%bool with false; [lia|].
          symmetry. apply andb_false_iff. apply andb_false_iff in E2.
          destruct E2 as [E2|E2]; [left; apply Nat.leb_gt in E2; apply Nat.leb_gt; lia
                                  |right; apply Nat.ltb_ge in E2; apply Nat.ltb_ge; lia].
  Qed.

  Lemma signal_round_total : forall s,
    Inv c s ->
    exists s', signal_round c tp s = Ok s' /\ Inv c s' /\ Phi s' <= Phi s + N.of_nat n + 1
               /\ sigp s' = None.
  Proof.
    intros s HI. unfold signal_round.
    destruct (sigp s) as [g|] eqn:Eg;
      [|exists s; split; [reflexivity|split; [exact HI|split; [lia|exact Eg]]]].
    set (s0 := set_sigp s None).
    assert (HI0 : Inv c s0) by (apply Inv_set_sigp; [exact HI|intros; discriminate]).
    assert (Hn : nmach s0 = n) by (unfold nmach; apply (inv_rts _ _ HI0)). rewrite Hn.
    set (excluded := match g with SigAll => None | SigAllExcept x => Some x end).
    destruct (signal_all_total excluded n 0 s0 HI0 ltac:(lia)) as (s1 & -> & HI1 & HP1). cbn [bind].
    assert (HP0 : Phi s0 = Phi s) by reflexivity.
    destruct (sigp s1) as [g1|] eqn:Eg1; [destruct excluded as [x|] eqn:Ex|].
    - (* second round for the excluded machine *)
      destruct (Nat.ltb_spec x n) as [Hx|Hx].
      + destruct (transition_top (add_log (set_sigp s1 None) (LOG_SIGDELIVER, N.of_nat x, 0)) x Signal)
          as (s2 & b & -> & HI2 & HP2 & _);
          [eapply Inv_same; [apply (Inv_set_sigp c s1 None HI1); intros; discriminate|reflexivity|reflexivity|reflexivity]|exact Hx|].
        cbn [bind].
        exists (set_sigp s2 None). split; [reflexivity|].
        split; [apply Inv_set_sigp; [exact HI2|intros; discriminate]|]. split; [|reflexivity].
        assert (Phi (set_sigp s2 None) = Phi s2) by reflexivity.
        assert (Phi (add_log (set_sigp s1 None) (LOG_SIGDELIVER, N.of_nat x, 0)) = Phi s1) by reflexivity.
        replace (Nat.leb 0 x && Nat.ltb x (0 + n))%bool with true in HP1
          by (symmetry; apply andb_true_iff; split; [apply Nat.leb_le|apply Nat.ltb_lt]; lia).
        lia.
      + exfalso. subst excluded. destruct g as [|y]; inversion Ex; subst.
        pose proof (inv_sig _ _ HI x Eg). lia.
    - exists (set_sigp s1 None). split; [reflexivity|].
      split; [apply Inv_set_sigp; [exact HI1|intros; discriminate]|]. split; [|reflexivity].
      assert (Phi (set_sigp s1 None) = Phi s1) by reflexivity. lia.
    - exists (set_sigp s1 None). split; [reflexivity|].
      split; [apply Inv_set_sigp; [exact HI1|intros; discriminate]|]. split; [|reflexivity].
      assert (Phi (set_sigp s1 None) = Phi s1) by reflexivity.
      destruct excluded as [x|]; [destruct (Nat.leb 0 x && Nat.ltb x (0 + n))%bool|]; lia.
  Qed.
  (** ** a whole call *)
  Lemma begin_call_Inv : forall s t, Inv c s -> Inv c (begin_call s t).
  Proof.
    intros s t [H1 H2 H3 H4]. constructor; cbn.
    - rewrite map_length; auto.
    - rewrite map_length; auto.
    - intros i r m Hr Hm. rewrite nth_error_map in Hr.
      destruct (nth_error (rts s) i) as [r0|] eqn:E; inversion Hr; subst.
      unfold cur_ok; cbn. eapply H3; eauto.
    - auto.
  Qed.

  Lemma zsum_cleared : forall l, zsum (map rt_clear_z l) = 2 * N.of_nat (length l).
  Proof. induction l as [|r l IH]; cbn [map zsum length]; [reflexivity|]. rewrite IH. unfold zc_rt, rt_clear_z; cbn [za zb]. lia. Qed.

  Theorem trigger_events_total : forall s evs t,
    Inv c s ->
    exists s' acts, trigger_events c tp s evs t = Ok (s', acts) /\ Inv c s' /\ sigp s' = None /\
      nsteps s' <= (N.of_nat (length evs) + 1) * (N.of_nat n + 1) + 2 * N.of_nat n.
  Proof.
    intros s evs t HI. unfold trigger_events.
    pose proof (begin_call_Inv s t HI) as HI0.
    assert (HP0 : Phi (begin_call s t) = 2 * N.of_nat n).
    { unfold Phi; cbn. rewrite zsum_cleared. rewrite (inv_rts _ _ HI). reflexivity. }
    destruct (events_total evs (begin_call s t) HI0) as (s1 & -> & HI1 & HP1). cbn [bind].
    destruct (signal_round_total s1 HI1) as (s2 & -> & HI2 & HP2 & Hsig). cbn [bind].
    do 2 eexists. split; [reflexivity|]. split; [exact HI2|]. split; [exact Hsig|].
    unfold Phi in HP2 at 1. lia.
  Qed.
End Total.

(** ** Framework::new and whole histories *)
Definition nonempty_ok (c : cfg) : Prop := forall m, In m (machines c) -> states m <> [].

Lemma valid_cfg_nonempty : forall c, valid_cfg c = true -> nonempty_ok c.
Proof.
  unfold valid_cfg, nonempty_ok; intros c H m Hm. split_andb.
  match goal with Hf : forallb validate_machine _ = true |- _ =>
    rewrite forallb_forall in Hf; specialize (Hf m Hm); unfold validate_machine in Hf; cbv zeta in Hf end.
  split_andb. intros E. rewrite E in *. cbn in *. discriminate.
Qed.

Lemma init_rts_total : forall tp ms p,
  (forall m, In m ms -> states m <> []) ->
  exists rs p', init_rts tp p ms = Ok (rs, p') /\ (length rs = length ms)%nat /\
    forall i r, nth_error rs i = Some r -> cur r = 0.
Proof.
  induction ms as [|m ms IH]; intros p Hne; cbn [init_rts].
  - exists [], p. split; [reflexivity|]. split; [reflexivity|]. intros [|i] r H; discriminate H.
  - destruct (states m) as [|st0 sts] eqn:Est; [exfalso; apply (Hne m); [left; reflexivity|exact Est]|].
    unfold get. cbn [nth_error bind].
    destruct (match saction st0 with Some a => sample_limit tp p a | None => (0, p) end) as [l p1].
    destruct (IH p1) as (rs & p2 & -> & Hlen & Hc); [intros; apply Hne; right; assumption|]. cbn [bind].
    do 2 eexists. split; [reflexivity|]. split; [cbn; lia|].
    intros [|i] r H; cbn in H; [inversion H; reflexivity|eauto].
Qed.

Theorem fnew_total : forall c tp t0,
  nonempty_ok c ->
  exists s, fnew c tp t0 = Ok s /\ Inv c s.
Proof.
  intros c tp t0 Hne. unfold fnew.
  destruct (init_rts_total tp (machines c) 0%nat Hne) as (rs & p & -> & Hlen & Hc). cbn [bind].
  eexists. split; [reflexivity|]. constructor; cbn.
  - exact Hlen.
  - apply map_length.
  - intros i r m Hr Hm. right. rewrite (Hc i r Hr).
    assert (states m <> []) by (apply Hne; eapply nth_error_In; eauto).
    destruct (states m); [contradiction|cbn; lia].
  - intros x Hx; discriminate Hx.
Qed.

Theorem run_total : forall c tp h s,
  machines_ok c -> clock_total (clk c) -> Inv c s ->
  exists s' outs, run c tp s h = Ok (s', outs) /\ Inv c s' /\ length outs = length h.
Proof.
  intros c tp h; induction h as [|[evs t] h IH]; intros s Hm Hc HI; cbn [run].
  - exists s, []. auto.
  - destruct (trigger_events_total c tp Hm Hc s evs t HI) as (s1 & acts & -> & HI1 & _). cbn [bind].
    destruct (IH s1 Hm Hc HI1) as (s2 & outs & -> & HI2 & Hl). cbn [bind].
    do 2 eexists. split; [reflexivity|]. split; [exact HI2|cbn; lia].
Qed.
