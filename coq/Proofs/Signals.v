(** C09: signals. Who is signalled is determined by the set of machines that
    transitioned to STATE_SIGNAL (read off the ghost log), and every machine
    receives at most one Signal per call. *)
From MB Require Import Model.Framework.
From MB Require Import Proofs.Tactics Proofs.ListFacts Proofs.FrameworkStructure.
Open Scope N_scope.

Definition log := list (N * N * N).

(** machines that signalled / were delivered a Signal, newest first *)
Definition sigsets (l : log) : list N :=
  flat_map (fun e => if fst (fst e) =? LOG_SIGSET then [snd (fst e)] else []) l.
Definition delivers (l : log) : list N :=
  flat_map (fun e => if fst (fst e) =? LOG_SIGDELIVER then [snd (fst e)] else []) l.

Lemma sigsets_app : forall a b, sigsets (a ++ b) = sigsets a ++ sigsets b.
Proof. intros; apply flat_map_app. Qed.
Lemma delivers_app : forall a b, delivers (a ++ b) = delivers a ++ delivers b.
Proof. intros; apply flat_map_app. Qed.

(** folding the signallers (oldest first) into the pending target *)
Definition join_all (old : option sigtarget) (sets : list N) : option sigtarget :=
  fold_right (fun a acc => Some (sig_join acc (N.to_nat a))) old sets.

Lemma join_all_app : forall old a b, join_all old (a ++ b) = join_all (join_all old b) a.
Proof. intros; unfold join_all; apply fold_right_app. Qed.

(** what [join_all None] computes: nobody / a lone signaller / everybody *)
Lemma join_all_None : forall l,
  match join_all None l with
  | None => l = []
  | Some (SigAllExcept a) => l <> [] /\ Forall (fun x => N.to_nat x = a) l
  | Some SigAll => exists x y, In x l /\ In y l /\ N.to_nat x <> N.to_nat y
  end.
Proof.
  induction l as [|a l IH]; cbn [join_all fold_right]; [reflexivity|].
  fold (join_all None l). destruct (join_all None l) as [[|b]|]; cbn [sig_join].
  - destruct IH as (x & y & Hx & Hy & Hne). exists x, y. cbn; auto.
  - destruct IH as [Hne Hall]. destruct (Nat.eqb_spec b (N.to_nat a)) as [->|Hd].
    + split; [discriminate|]. constructor; auto.
    + destruct l as [|z l]; [contradiction|]. inversion Hall; subst.
      exists z, a. split; [right; left; reflexivity|]. split; [left; reflexivity|]. congruence.
  - subst l. split; [discriminate|]. constructor; auto.
Qed.

(** the log only grows; machine steps deliver no Signal; the pending target
    is the join of the old target with the machines that signalled *)
Definition sig_rel (s s' : fstate) : Prop :=
  exists new, flog s' = new ++ flog s /\ delivers new = [] /\
              sigp s' = join_all (sigp s) (sigsets new).

Lemma sig_rel_refl : forall s, sig_rel s s.
Proof. intros s; exists []; auto. Qed.

Lemma sig_rel_trans : forall s1 s2 s3, sig_rel s1 s2 -> sig_rel s2 s3 -> sig_rel s1 s3.
Proof.
  intros s1 s2 s3 (n1 & L1 & D1 & S1) (n2 & L2 & D2 & S2). exists (n2 ++ n1).
  rewrite L2, L1, app_assoc. split; [reflexivity|]. rewrite delivers_app, D1, D2. split; [reflexivity|].
  rewrite S2, S1, sigsets_app, join_all_app. reflexivity.
Qed.

Lemma sig_rel_same : forall s s', flog s' = flog s -> sigp s' = sigp s -> sig_rel s s'.
Proof. intros s s' L G; exists []; rewrite L, G; auto. Qed.

Lemma sig_rel_log : forall s e,
  fst (fst e) <> LOG_SIGSET -> fst (fst e) <> LOG_SIGDELIVER -> sig_rel s (add_log s e).
Proof.
  intros s e H1 H2. exists [e]. split; [reflexivity|].
  unfold delivers, sigsets; cbn [flat_map app].
  destruct (N.eqb_spec (fst (fst e)) LOG_SIGDELIVER); [contradiction|].
  destruct (N.eqb_spec (fst (fst e)) LOG_SIGSET); [contradiction|]. auto.
Qed.

Lemma sig_rel_sigset : forall mi s,
  sig_rel s (set_sigp (add_log s (LOG_SIGSET, N.of_nat mi, 0)) (Some (sig_join (sigp s) mi))).
Proof.
  intros mi s. exists [(LOG_SIGSET, N.of_nat mi, 0)]. split; [reflexivity|]. split; [reflexivity|].
  cbn. rewrite Nat2N.id. reflexivity.
Qed.

Ltac sr_side := let Hc := fresh in (intro Hc; vm_compute in Hc; discriminate Hc).

Lemma sig_rel_log_then : forall s e s',
  fst (fst e) <> LOG_SIGSET -> fst (fst e) <> LOG_SIGDELIVER ->
  flog s' = flog (add_log s e) -> sigp s' = sigp s -> sig_rel s s'.
Proof.
  intros s e s' H1 H2 L G. eapply sig_rel_trans; [apply (sig_rel_log s e H1 H2)|].
  apply sig_rel_same; [exact L|exact G].
Qed.

Ltac sig_prims :=
  first [ solve [intros; apply sig_rel_same; reflexivity]
        | solve [intros; eapply sig_rel_trans; eassumption]
        | solve [intros; apply sig_rel_log; assumption]
        | solve [intros; apply sig_rel_sigset]
        | solve [intros; match goal with
                 | |- sig_rel ?s (set_pos (set_rt (add_log ?s ?e) _ _) _) =>
                     apply (sig_rel_log_then s e); [sr_side|sr_side|reflexivity|reflexivity]
                 | |- sig_rel ?s (set_rt (add_log ?s ?e) _ _) =>
                     apply (sig_rel_log_then s e); [sr_side|sr_side|reflexivity|reflexivity]
                 | |- sig_rel ?s (add_log _ ?e) =>
                     apply (sig_rel_log_then s e); [sr_side|sr_side|reflexivity|reflexivity]
                 end] ].

Lemma transition_sig_rel : forall c tp fuel s mi ev s' b,
  transition fuel c tp s mi ev = Ok (s', b) -> sig_rel s s'.
Proof. intros c tp. apply (transition_P c tp (fun _ => sig_rel)); sig_prims. Qed.

Lemma decrement_limit_sig_rel : forall c tp s mi s',
  decrement_limit c tp s mi = Ok s' -> sig_rel s s'.
Proof. intros c tp. apply (decrement_limit_P c tp (fun _ => sig_rel)); sig_prims. Qed.

Section Round.
  Variable c : cfg.
  Variable tp : tape.

  (** the events phase: no deliveries, pending = join of the signallers *)
  Lemma events_sig_rel : forall evs s s',
    foldM (process_event c tp) evs s = Ok s' -> sig_rel s s'.
  Proof.
    apply (events_G c tp sig_rel); intros;
      first [ apply sig_rel_same; reflexivity
            | eapply sig_rel_trans; eassumption
            | eapply transition_sig_rel; eassumption
            | eapply decrement_limit_sig_rel; eassumption ].
  Qed.

  (** machines [from, from+k) except the excluded one, in order *)
  Fixpoint targets (excluded : option nat) (k from : nat) : list N :=
    match k with
    | O => []
    | S k' =>
        (if match excluded with Some x => Nat.eqb x from | None => false end then []
         else [N.of_nat from]) ++ targets excluded k' (S from)
    end.

  Lemma signal_all_spec : forall excluded k from s s',
    signal_all c tp excluded k from s = Ok s' ->
    exists new, flog s' = new ++ flog s /\
                rev (delivers new) = targets excluded k from /\
                sigp s' = join_all (sigp s) (sigsets new).
  Proof.
    induction k as [|k IH]; intros from s s' H; cbn [signal_all targets] in *.
    - inversion H; subst. exists []. auto.
    - mbind H as s1 E1. destruct (IH _ _ _ H) as (n2 & L2 & D2 & S2).
      destruct (match excluded with Some x => Nat.eqb x from | None => false end).
      + inversion E1; subst s1. exists n2. cbn [app]. auto.
      + mbind E1 as [s2 b] E2. inversion E1; subst s2.
        destruct (transition_sig_rel _ _ _ _ _ _ _ _ E2) as (n1 & L1 & D1 & S1).
        cbn [flog add_log sigp] in L1, S1.
        exists (n2 ++ n1 ++ [(LOG_SIGDELIVER, N.of_nat from, 0)]).
        rewrite L2, L1. split; [rewrite <- !app_assoc; reflexivity|].
        rewrite !delivers_app, D1. cbn [app]. rewrite rev_app_distr, D2. split; [reflexivity|].
        rewrite S2, S1, !sigsets_app, !join_all_app. cbn. reflexivity.
  Qed.

  (** the signal round, by cases on the pending target *)
  Theorem signal_round_spec : forall s s',
    signal_round c tp s = Ok s' ->
    sigp s' = None /\
    exists new, flog s' = new ++ flog s /\
      match sigp s with
      | None => new = []
      | Some SigAll => rev (delivers new) = targets None (nmach s) 0
      | Some (SigAllExcept a) =>
          exists r1 r2, new = r2 ++ r1 /\
            rev (delivers r1) = targets (Some a) (nmach s) 0 /\
            rev (delivers r2) = (if match join_all None (sigsets r1) with Some _ => true | None => false end
                                 then [N.of_nat a] else [])
      end.
  Proof.
    unfold signal_round; intros s s' H.
    destruct (sigp s) as [g|] eqn:Eg; [|inversion H; subst; split; [exact Eg|exists []; auto]].
    mbind H as s1 E1. mbind H as s2 E2. inversion H; subst. clear H.
    split; [reflexivity|].
    destruct (signal_all_spec _ _ _ _ _ E1) as (n1 & L1 & D1 & S1).
    cbn [flog set_sigp sigp] in L1, S1. cbn [flog set_sigp].
    destruct g as [|a]; cbn [nmach rts set_sigp] in D1.
    - (* everybody: no second round *)
      assert (s2 = s1 \/ exists x, s2 = set_sigp s1 x) as Hs2.
      { destruct (sigp s1); inversion E2; auto. }
      exists n1. assert (flog s2 = flog s1) by (destruct Hs2 as [->|[x ->]]; reflexivity).
      rewrite H, L1. split; [reflexivity|exact D1].
    - destruct (sigp s1) as [g1|] eqn:Eg1.
      + (* answered: the excluded machine is signalled as well *)
        mbind E2 as [s3 b] E3. inversion E2; subst s2.
        destruct (transition_sig_rel _ _ _ _ _ _ _ _ E3) as (n2 & L2 & D2 & S2).
        cbn [flog add_log set_sigp] in L2.
        exists ((n2 ++ [(LOG_SIGDELIVER, N.of_nat a, 0)]) ++ n1). rewrite L2, L1.
        split; [rewrite <- !app_assoc; reflexivity|].
        exists n1, (n2 ++ [(LOG_SIGDELIVER, N.of_nat a, 0)]). split; [reflexivity|]. split; [exact D1|].
        rewrite delivers_app, D2. cbn [app delivers flat_map fst snd rev].
        rewrite <- S1. reflexivity.
      + inversion E2; subst s2. exists n1. rewrite L1. split; [reflexivity|].
        exists n1, []. split; [reflexivity|]. split; [exact D1|]. rewrite <- S1. reflexivity.
  Qed.
End Round.

(** [targets] lists every non-excluded machine of the range exactly once *)
Lemma targets_spec : forall excluded k from x,
  In x (targets excluded k from) <->
  exists j, x = N.of_nat j /\ (from <= j < from + k)%nat /\ excluded <> Some j.
Proof.
  induction k as [|k IH]; intros from x; cbn [targets].
  - split; [intros []|intros (j & _ & Hj & _); lia].
  - rewrite in_app_iff, IH. split.
    + intros [H|(j & -> & Hj & He)].
      * destruct excluded as [e|].
        -- destruct (Nat.eqb_spec e from) as [->|Hne]; [inversion H|].
           destruct H as [<-|[]]. exists from. repeat split; try lia. congruence.
        -- destruct H as [<-|[]]. exists from. repeat split; try lia. discriminate.
      * exists j. repeat split; auto; lia.
    + intros (j & -> & Hj & He). destruct (Nat.eq_dec j from) as [->|Hne].
      * left. destruct excluded as [e|]; [|left; reflexivity].
        destruct (Nat.eqb_spec e from) as [->|Hd]; [congruence|left; reflexivity].
      * right. exists j. repeat split; auto; lia.
Qed.

Lemma targets_NoDup : forall excluded k from, NoDup (targets excluded k from).
Proof.
  induction k as [|k IH]; intros from; cbn [targets]; [constructor|].
  destruct (match excluded with Some x => Nat.eqb x from | None => false end); cbn [app]; [apply IH|].
  constructor; [|apply IH]. rewrite targets_spec. intros (j & Hj & Hr & _).
  apply Nat2N.inj in Hj. lia.
Qed.
