(** C10: the two-run simulation behind non-interference.

    A machine [m] with deterministic sampling that sits at position [i] of a
    configuration [c] in which no machine can signal returns, call by call,
    exactly the actions it returns when it runs alone on the projected history
    (events addressed to [i] renamed to id 0, events addressed to neighbours
    renamed to an unknown id), whatever the neighbours are and whatever the
    two random tapes contain ([solo_equals_combined_full]).

    Tape independence: [sample_state] reads the 23-bit draw
    [tp p mod 2^23], so a vector that picks the same target for every draw
    k < 2^23 (in particular a probability-1 vector: k/2^23 < 1.0) picks it on
    every tape; a constant distribution takes the fast path of [dist_sample]
    and ignores the tape entry it consumes.  (An earlier version of the model
    did not mask the draw; then a tape entry >= 2^23 made a probability-1
    transition fail and the statement needed a hypothesis on the tapes.  That
    counterexample is gone with the masked draw.) *)
From MB Require Import Model.Framework Model.Validate.
From MB Require Import Proofs.SampleState.
From MB Require Import Proofs.Tactics Proofs.ListFacts Proofs.FrameworkStructure Proofs.FrameworkInv
     Proofs.FrameworkTotal Proofs.FrameworkSlots Proofs.FrameworkAcct Proofs.Counters
     Proofs.NonInterference.
Open Scope N_scope.

(** ** deterministic sampling *)

(** the constant fast path of [dist_sample] *)
Definition det_dist (d : dist) : Prop :=
  match dtype d with
  | Uniform lo hi => feq (f64_of_bits lo) (f64_of_bits hi) = true
  | _ => False
  end.

Definition det_odist (o : option dist) : Prop :=
  match o with Some d => det_dist d | None => True end.

Definition det_action (a : action) : Prop :=
  match a with
  | Cancel _ => True
  | SendPadding _ _ t l => det_dist t /\ det_odist l
  | BlockOutgoing _ _ t d l => det_dist t /\ det_dist d /\ det_odist l
  | UpdateTimer _ d l => det_dist d /\ det_odist l
  end.

(** a counter that copies the other counter samples nothing *)
Definition det_counter (cn : counter) : Prop := ccopy cn = true \/ det_odist (cdist cn).

Definition det_ocounter (o : option counter) : Prop :=
  match o with Some cn => det_counter cn | None => True end.

Section Det.
  (** the vector picks the same target (or none) for every 23-bit draw *)
  Definition det_trans (v : list trans) : Prop :=
    forall k k', k < 2 ^ 23 -> k' < 2 ^ 23 ->
      pick_trans v f32_zero (f32_of_k k) = pick_trans v f32_zero (f32_of_k k').

  Record det_state (st : state) : Prop := mk_det_state {
    ds_act : forall a, saction st = Some a -> det_action a;
    ds_ca : det_ocounter (sctr_a st);
    ds_cb : det_ocounter (sctr_b st);
    ds_tr : forall v, In (Some v) (strans st) -> det_trans v
  }.

  Definition det_machine (m : machine) : Prop := forall st, In st (states m) -> det_state st.

  (** *** tape independence of the samplers *)
  Lemma dist_sample_det : forall tp p tp1 p1 d, det_dist d ->
    fst (dist_sample tp p d) = fst (dist_sample tp1 p1 d).
  Proof.
    unfold det_dist, dist_sample; intros tp p tp1 p1 d H.
    destruct (dtype d); try contradiction. rewrite H. reflexivity.
  Qed.

  Lemma dist_sample_clamped_det : forall tp p tp1 p1 d, det_dist d ->
    fst (dist_sample_clamped tp p d) = fst (dist_sample_clamped tp1 p1 d).
  Proof.
    intros tp p tp1 p1 d H. unfold dist_sample_clamped.
    pose proof (dist_sample_det tp p tp1 p1 d H) as E.
    destruct (dist_sample tp p d) as [raw q]. destruct (dist_sample tp1 p1 d) as [raw1 q1].
    cbn [fst] in E. subst raw1. destruct (fgt _ _); reflexivity.
  Qed.

  Lemma sample_day_clamped_det : forall tp p tp1 p1 d, det_dist d ->
    fst (sample_day_clamped tp p d) = fst (sample_day_clamped tp1 p1 d).
  Proof.
    intros tp p tp1 p1 d H. unfold sample_day_clamped.
    pose proof (dist_sample_clamped_det tp p tp1 p1 d H) as E.
    destruct (dist_sample_clamped tp p d) as [v q]. destruct (dist_sample_clamped tp1 p1 d) as [v1 q1].
    cbn [fst] in *. subst v1. reflexivity.
  Qed.

  Lemma sample_limit_det : forall tp p tp1 p1 a, det_action a ->
    fst (sample_limit tp p a) = fst (sample_limit tp1 p1 a).
  Proof.
    intros tp p tp1 p1 a H. unfold sample_limit.
    destruct a as [t|b r t [l|]|b r t d [l|]|r d [l|]]; try reflexivity; cbn in H;
      assert (Hl : det_dist l) by tauto;
      pose proof (dist_sample_clamped_det tp p tp1 p1 l Hl) as E;
      destruct (dist_sample_clamped tp p l) as [v q]; destruct (dist_sample_clamped tp1 p1 l) as [v1 q1];
      cbn [fst] in *; subst v1; reflexivity.
  Qed.

  Lemma ctr_change_det : forall tp p tp1 p1 cn o, det_counter cn ->
    fst (ctr_change tp p cn o) = fst (ctr_change tp1 p1 cn o).
  Proof.
    intros tp p tp1 p1 cn o H. unfold ctr_change. destruct (ccopy cn) eqn:Ec; [reflexivity|].
    destruct H as [H|H]; [congruence|]. unfold sample_value.
    destruct (cdist cn) as [d|]; [|reflexivity]. cbn in H.
    pose proof (dist_sample_clamped_det tp p tp1 p1 d H) as E.
    destruct (dist_sample_clamped tp p d) as [v q]. destruct (dist_sample_clamped tp1 p1 d) as [v1 q1].
    cbn [fst] in *. subst v1. reflexivity.
  Qed.

  Lemma draw_lt : forall (tp : tape) p, tp p mod 8388608 < 2 ^ 23.
  Proof. intros tp p. change (2 ^ 23) with 8388608. apply N.mod_lt. discriminate. Qed.

  Lemma sample_state_det : forall tp p tp1 p1 st ev,
    det_state st ->
    fst (sample_state tp p st ev) = fst (sample_state tp1 p1 st ev).
  Proof.
    intros tp p tp1 p1 st ev Hd. unfold sample_state.
    destruct (nth_error (strans st) (event_idx ev)) as [[v|]|] eqn:E; try reflexivity.
    cbn [fst]. apply (ds_tr st Hd v); [eapply nth_error_In; eauto|apply draw_lt|apply draw_lt].
  Qed.
End Det.

(** ** machines that cannot signal *)
Definition no_signal_machine (m : machine) : Prop :=
  forall st v t p, In st (states m) -> In (Some v) (strans st) -> In (t, p) v -> t <> STATE_SIGNAL.

Definition no_signal (c : cfg) : Prop := forall m, In m (machines c) -> no_signal_machine m.

Lemma sample_state_no_signal : forall m tp p st ev ns p',
  no_signal_machine m -> In st (states m) ->
  sample_state tp p st ev = (Some ns, p') -> ns <> STATE_SIGNAL.
Proof.
  unfold sample_state; intros m tp p st ev ns p' Hm Hst H.
  destruct (nth_error (strans st) (event_idx ev)) as [[v|]|] eqn:E; inversion H.
  match goal with Hp : pick_trans _ _ _ = Some ns |- _ => apply pick_trans_In in Hp; destruct Hp as [pr Hp] end.
  eapply Hm; eauto. eapply nth_error_In; eauto.
Qed.

(** with no signalling machine the pending signal never changes *)
Section NoSignal.
  Variable c : cfg.
  Variable tp : tape.
  Hypothesis Hns : no_signal c.

  Let SR (_ : nat) (s s' : fstate) : Prop := sigp s' = sigp s.

  Lemma transition_sigp : forall fuel s mi ev s' b,
    transition fuel c tp s mi ev = Ok (s', b) -> sigp s' = sigp s.
  Proof.
    induction fuel as [|fuel IH]; intros s mi ev s' b H; [discriminate H|].
    cbn [transition] in H.
    set (s0 := add_step (add_log s (LOG_TRANS, N.of_nat mi, N.of_nat (event_idx ev)))) in H.
    mbind H as r Er.
    destruct (cur r =? STATE_END); [inversion H; subst; reflexivity|].
    mbind H as m Em. apply get_ok in Em. mbind H as st Est. apply getN_ok in Est.
    destruct (sample_state tp (pos s0) st ev) as [nxt p] eqn:Es.
    destruct nxt as [ns|]; [|inversion H; subst; reflexivity].
    destruct (ns =? STATE_END); [inversion H; subst; reflexivity|].
    destruct (N.eqb_spec ns STATE_SIGNAL) as [Hsg|Hnsg].
    { exfalso. eapply (sample_state_no_signal m); eauto.
      - apply Hns. eapply nth_error_In; eauto.
      - eapply nthN_In; eauto. }
    mbind H as s2 E2.
    assert (H2 : sigp s2 = sigp s).
    { destruct (negb (cur r =? ns)); [|inversion E2; subst; reflexivity].
      mbind E2 as nst Enst.
      destruct (match saction nst with Some a => _ | None => _ end) as [l q].
      inversion E2; subst; reflexivity. }
    mbind H as r1 Er1. mbind H as below Ebel. mbind H as [[s3 allow] chg] Euc.
    assert (H3 : sigp s3 = sigp s2).
    { apply (update_counter_P c tp SR) in Euc; [exact Euc| | | |]; unfold SR.
      - intros; congruence.
      - intros; reflexivity.
      - intros; reflexivity.
      - intros sa sb bb Hx. eapply IH; eauto. }
    mbind H as s4 Esch. mbind H as r2 Er2. inversion H; subst.
    assert (H4 : sigp s' = sigp s3).
    { destruct (allow && below); [|inversion Esch; subst; reflexivity].
      apply (schedule_action_P c tp SR) in Esch; [exact Esch| | | |]; unfold SR.
      - intros; congruence.
      - intros; reflexivity.
      - intros; reflexivity.
      - intros; reflexivity. }
    congruence.
  Qed.

  Lemma decrement_limit_sigp : forall s mi s', decrement_limit c tp s mi = Ok s' -> sigp s' = sigp s.
  Proof.
    unfold decrement_limit; intros s mi s' H.
    mbind H as r0 Er0. mbind H as m Em. mbind H as st Est.
    destruct (saction st) as [act|]; [|inversion H; subst; reflexivity].
    destruct (_ && _); [|inversion H; subst; reflexivity].
    mbind H as [s2 b] E2. inversion H; subst.
    apply transition_sigp in E2. exact E2.
  Qed.
End NoSignal.

(** ** the solo configuration, projections and renaming *)
Definition solo_cfg (c : cfg) (m : machine) : cfg :=
  mkcfg [m] (fw_max_padding_frac c) (fw_max_blocking_frac c) (clk c).

Definition proj_hist (i : nat) (h : list (list trigger_event * Z)) : list (list trigger_event * Z) :=
  map (fun '(evs, t) => (map (proj_event i) evs, t)) h.

Definition acts_of (i : nat) (acts : list taction) : list taction :=
  filter (fun a => taction_machine a =? N.of_nat i) acts.

Definition rename_to (i : nat) (a : taction) : taction :=
  match a with
  | TCancel _ t => TCancel (N.of_nat i) t
  | TSendPadding _ t b r => TSendPadding (N.of_nat i) t b r
  | TBlockOutgoing _ t d b r => TBlockOutgoing (N.of_nat i) t d b r
  | TUpdateTimer _ d r => TUpdateTimer (N.of_nat i) d r
  end.

(** everything but the ghost fields (tape position, step counter, log) *)
Definition core (s : fstate) :=
  (now s, fstart s, gnorm s, gpad s, gblk s, bstart s, bactive s, rts s, slots s, sigp s).

(** ** the returned list: slot i of the combined run *)
Lemma filter_collect_none : forall (sl : list (option taction)) (f : nat -> N) v,
  (forall j ta, nth_error sl j = Some (Some ta) -> taction_machine ta = f j) ->
  (forall j, f j <> v) ->
  filter (fun a => taction_machine a =? v) (collect_actions sl) = [].
Proof.
  unfold collect_actions.
  induction sl as [|o sl IH]; intros f v Hf Hv; [reflexivity|].
  cbn [flat_map]. rewrite filter_app.
  rewrite (IH (fun j => f (S j)) v); [|intros j ta Hj; apply (Hf (S j)); exact Hj|intros j; apply Hv].
  rewrite app_nil_r. destruct o as [a|]; [|reflexivity].
  cbn [filter]. rewrite (Hf 0%nat a eq_refl).
  destruct (N.eqb_spec (f 0%nat) v) as [E|E]; [exfalso; eapply Hv; eauto|reflexivity].
Qed.

Lemma filter_collect : forall (sl : list (option taction)) (f : nat -> N) i,
  (forall j ta, nth_error sl j = Some (Some ta) -> taction_machine ta = f j) ->
  (forall j, j <> i -> f j <> f i) ->
  filter (fun a => taction_machine a =? f i) (collect_actions sl) =
  match nth_error sl i with Some (Some a) => [a] | _ => [] end.
Proof.
  induction sl as [|o sl IH]; intros f i Hf Hinj.
  - destruct i; reflexivity.
  - unfold collect_actions. cbn [flat_map]. fold (collect_actions sl). rewrite filter_app.
    destruct i as [|i].
    + cbn [nth_error].
      rewrite (filter_collect_none sl (fun j => f (S j)) (f 0%nat));
        [|intros j ta Hj; apply (Hf (S j)); exact Hj|intros j; apply Hinj; lia].
      rewrite app_nil_r. destruct o as [a|]; [|reflexivity].
      cbn [filter]. rewrite (Hf 0%nat a eq_refl), N.eqb_refl. reflexivity.
    + cbn [nth_error].
      rewrite (IH (fun j => f (S j)) i);
        [|intros j ta Hj; apply (Hf (S j)); exact Hj|intros j Hj; apply Hinj; lia].
      destruct o as [a|]; [|reflexivity].
      cbn [filter]. rewrite (Hf 0%nat a eq_refl).
      destruct (N.eqb_spec (f 0%nat) (f (S i))) as [E|E]; [exfalso; eapply (Hinj 0%nat); eauto|reflexivity].
Qed.

(** ** the initial runtime of machine i *)
Lemma init_rts_nth : forall tp ms p rs p' i m,
  init_rts tp p ms = Ok (rs, p') -> nth_error ms i = Some m ->
  exists st0 q, nth_error (states m) 0 = Some st0 /\
    nth_error rs i =
    Some (mkmrt 0 (match saction st0 with Some a => fst (sample_limit tp q a) | None => 0 end)
                0 0 0 0 0 false false).
Proof.
  induction ms as [|m0 ms IH]; intros p rs p' i m H Hi; [destruct i; discriminate Hi|].
  cbn [init_rts] in H. mbind H as st0 E0. apply get_ok in E0.
  destruct (match saction st0 with Some a => sample_limit tp p a | None => (0, p) end) as [l q] eqn:El.
  mbind H as [rs' p''] Er. inversion H; subst. destruct i as [|i].
  - inversion Hi; subst. exists st0, p. split; [exact E0|]. cbn [nth_error].
    destruct (saction st0); [rewrite El|inversion El]; reflexivity.
  - cbn [nth_error] in Hi |- *. eapply IH; eauto.
Qed.

(** ** the simulation *)
Section Sim.
  Variable c : cfg.
  Variable i : nat.
  Variable m : machine.
  Variable tp tp1 : tape.
  Hypothesis Hm : nth_error (machines c) i = Some m.
  Hypothesis Hdet : det_machine m.
  Hypothesis Hns : no_signal c.

  Let c1 := solo_cfg c m.

  (** combined state [s] and solo state [s1]: machine i's runtime and slot
      (up to the machine id), the shared accounting and the clock coincide, no
      signal is pending; the ghost fields are unrelated *)
  Record Rel (s s1 : fstate) : Prop := mkRel {
    rl_now : now s1 = now s;
    rl_fstart : fstart s1 = fstart s;
    rl_gnorm : gnorm s1 = gnorm s;
    rl_gpad : gpad s1 = gpad s;
    rl_gblk : gblk s1 = gblk s;
    rl_bstart : bstart s1 = bstart s;
    rl_bactive : bactive s1 = bactive s;
    rl_rt : exists r, nth_error (rts s) i = Some r /\ rts s1 = [r];
    rl_slot : exists sl, nth_error (slots s) i = Some (option_map (rename_to i) sl) /\ slots s1 = [sl];
    rl_sig : sigp s = None;
    rl_sig1 : sigp s1 = None
  }.

  Lemma Rel_core : forall s s1 s' s1',
    Rel s s1 -> core s' = core s -> core s1' = core s1 -> Rel s' s1'.
  Proof.
    unfold core; intros s s1 s' s1' [] H H1.
    injection H as E1 E2 E3 E4 E5 E6 E7 E8 E9 E10.
    injection H1 as F1 F2 F3 F4 F5 F6 F7 F8 F9 F10.
    constructor; try congruence.
    - rewrite E8, F8; assumption.
    - rewrite E9, F9; assumption.
  Qed.

  Ltac ghost HR := apply (Rel_core _ _ _ _ HR); reflexivity.

  Lemma Rel_get_rt : forall s s1 r r1,
    Rel s s1 -> get (rts s) i = Ok r -> get (rts s1) 0 = Ok r1 -> r1 = r.
  Proof.
    intros s s1 r r1 HR H H1. destruct (rl_rt _ _ HR) as (r0 & Hr & Hr1).
    apply get_ok in H. apply get_ok in H1. rewrite Hr1 in H1. cbn in H1. congruence.
  Qed.

  Lemma Rel_lt : forall s s1, Rel s s1 -> (i < length (rts s))%nat /\ length (rts s1) = 1%nat.
  Proof.
    intros s s1 HR. destruct (rl_rt _ _ HR) as (r0 & Hr & Hr1). split.
    - apply nth_error_Some. congruence.
    - rewrite Hr1. reflexivity.
  Qed.

  Lemma Rel_set_rt : forall s s1 r', Rel s s1 -> Rel (set_rt s i r') (set_rt s1 0 r').
  Proof.
    intros s s1 r' HR. pose proof (Rel_lt _ _ HR) as [Hlt _]. destruct HR. constructor; cbn; auto.
    destruct rl_rt0 as (r0 & Hr & Hr1). exists r'. split.
    - apply nth_error_upd_eq. exact Hlt.
    - rewrite Hr1. reflexivity.
  Qed.

  Lemma Rel_set_slot : forall s s1 a,
    Rel s s1 -> Rel (set_slot s i (option_map (rename_to i) a)) (set_slot s1 0 a).
  Proof.
    intros s s1 a []. constructor; cbn; auto.
    destruct rl_slot0 as (sl & Hs & Hs1). exists a. split.
    - apply nth_error_upd_eq. apply nth_error_Some. congruence.
    - rewrite Hs1. reflexivity.
  Qed.

  (** the same update of the shared accounting on both sides *)
  Lemma Rel_globals : forall s s1 gn gp gb bs ba gn1 gp1 gb1 bs1 ba1, Rel s s1 ->
    gn1 = gn -> gp1 = gp -> gb1 = gb -> bs1 = bs -> ba1 = ba ->
    Rel (mkfstate (now s) (fstart s) (rts s) (slots s) gn gp gb bs ba (sigp s) (pos s) (nsteps s) (flog s))
        (mkfstate (now s1) (fstart s1) (rts s1) (slots s1) gn1 gp1 gb1 bs1 ba1 (sigp s1) (pos s1) (nsteps s1) (flog s1)).
  Proof. intros s s1 gn gp gb bs ba gn1 gp1 gb1 bs1 ba1 [] -> -> -> -> ->. constructor; cbn; auto. Qed.

  (** anything that leaves machine i's runtime and slot, the accounting and
      the pending signal alone *)
  Lemma Rel_frame : forall s s' s1,
    Rel s s1 ->
    nth_error (rts s') i = nth_error (rts s) i ->
    nth_error (slots s') i = nth_error (slots s) i ->
    (now s', fstart s', gnorm s', gpad s', gblk s', bstart s', bactive s') =
    (now s, fstart s, gnorm s, gpad s, gblk s, bstart s, bactive s) ->
    sigp s' = sigp s -> Rel s' s1.
  Proof.
    intros s s' s1 [] Hr Hs A Hg. injection A as A1 A2 A3 A4 A5 A6 A7. constructor; try congruence.
    - rewrite Hr; assumption.
    - rewrite Hs; assumption.
  Qed.

  Lemma acct_same_globals : forall s s', acct_same s s' ->
    (now s', fstart s', gnorm s', gpad s', gblk s', bstart s', bactive s') =
    (now s, fstart s, gnorm s, gpad s, gblk s, bstart s, bactive s).
  Proof. intros s s' []. congruence. Qed.

  Lemma Rel_set_rt_other : forall s s1 j r',
    Rel s s1 -> j <> i -> Rel (set_rt s j r') s1.
  Proof.
    intros s s1 j r' HR Hj. apply (Rel_frame s); auto.
    cbn. apply nth_error_upd_neq; exact Hj.
  Qed.

  (** *** steps of a neighbour *)
  Lemma transition_other : forall fuel s j ev s' b s1,
    j <> i -> Rel s s1 -> transition fuel c tp s j ev = Ok (s', b) -> Rel s' s1.
  Proof.
    intros fuel s j ev s' b s1 Hj HR H.
    destruct (step_frame _ _ _ _ _ _ _ _ i H) as (A & B & C); [congruence|].
    apply (Rel_frame s); auto; [apply acct_same_globals; exact C|]. eapply transition_sigp; eauto.
  Qed.

  Lemma decrement_other : forall s j s' s1,
    j <> i -> Rel s s1 -> decrement_limit c tp s j = Ok s' -> Rel s' s1.
  Proof.
    intros s j s' s1 Hj HR H.
    destruct (decrement_frame _ _ _ _ _ i H) as (A & B & C); [congruence|].
    apply (Rel_frame s); auto; [apply acct_same_globals; exact C|]. eapply decrement_limit_sigp; eauto.
  Qed.

  Lemma trans_dec_other : forall s j ev dec s' s1,
    j <> i -> Rel s s1 -> trans_dec c tp s j ev dec = Ok s' -> Rel s' s1.
  Proof.
    unfold trans_dec; intros s j ev dec s' s1 Hj HR H.
    mbind H as [sa chg] E. apply (transition_other _ _ _ _ _ _ s1 Hj HR) in E. mbind H as r Er.
    destruct (negb chg && negb (cur r =? STATE_END) && dec).
    - eapply decrement_other; eauto.
    - inversion H; subst; exact E.
  Qed.

  (** *** the limit checks read only what [Rel] equates *)
  Lemma below_solo : forall s s1 r, Rel s s1 ->
    below_action_limits c1 s1 r m = below_action_limits c s r m.
  Proof.
    intros s s1 r []. unfold below_action_limits, below_limit_blocking, below_limit_padding.
    subst c1. unfold solo_cfg. cbn [clk fw_max_padding_frac fw_max_blocking_frac].
    rewrite rl_now0, rl_fstart0, rl_gnorm0, rl_gpad0, rl_gblk0, rl_bstart0, rl_bactive0.
    reflexivity.
  Qed.

  Lemma machine_solo : get (machines c1) 0 = Ok m.
  Proof. reflexivity. Qed.

  Lemma machine_comb : get (machines c) i = Ok m.
  Proof. unfold get. rewrite Hm. reflexivity. Qed.

  (** *** schedule_action *)
  Lemma schedule_action_solo : forall s s1 ns s' s1',
    Rel s s1 ->
    schedule_action c tp s i ns = Ok s' -> schedule_action c1 tp1 s1 0 ns = Ok s1' -> Rel s' s1'.
  Proof.
    unfold schedule_action; intros s s1 ns s' s1' HR H H1.
    rewrite machine_comb in H. rewrite machine_solo in H1. cbn [bind] in H, H1.
    mbind H as st Est. cbn [bind] in H1.
    mbind H as sl Esl. mbind H1 as sl1 Esl1.
    apply getN_ok in Est. apply nthN_In in Est. pose proof (Hdet st Est) as Hst.
    set (sL := add_log s (LOG_SCHED, N.of_nat i, ns)) in *.
    set (sL1 := add_log s1 (LOG_SCHED, N.of_nat 0, ns)) in *.
    assert (HRL : Rel sL sL1) by (ghost HR).
    destruct (saction st) as [[t|b r t l|b r t d l|r d l]|] eqn:Ea.
    - inversion H; inversion H1; subst.
      exact (Rel_set_slot _ _ (Some (TCancel 0 t)) HRL).
    - pose proof (ds_act st Hst _ Ea) as [Hdt _].
      pose proof (sample_day_clamped_det tp (pos sL) tp1 (pos sL1) t Hdt) as Ev.
      destruct (sample_day_clamped tp (pos sL) t) as [v p]. destruct (sample_day_clamped tp1 (pos sL1) t) as [v1 p1].
      cbn [fst] in Ev. subst v1. inversion H; inversion H1; subst.
      assert (HRp : Rel (set_pos sL p) (set_pos sL1 p1)) by (ghost HRL).
      exact (Rel_set_slot _ _ (Some (TSendPadding 0 (c_from_micros (clk c) v) b r)) HRp).
    - pose proof (ds_act st Hst _ Ea) as (Hdt & Hdd & _).
      pose proof (sample_day_clamped_det tp (pos sL) tp1 (pos sL1) t Hdt) as Ev.
      destruct (sample_day_clamped tp (pos sL) t) as [v p]. destruct (sample_day_clamped tp1 (pos sL1) t) as [v1 p1].
      pose proof (sample_day_clamped_det tp p tp1 p1 d Hdd) as Ev2.
      destruct (sample_day_clamped tp p d) as [v2 p2]. destruct (sample_day_clamped tp1 p1 d) as [v12 p12].
      cbn [fst] in Ev, Ev2. subst v1 v12. inversion H; inversion H1; subst.
      assert (HRp : Rel (set_pos sL p2) (set_pos sL1 p12)) by (ghost HRL).
      exact (Rel_set_slot _ _ (Some (TBlockOutgoing 0 (c_from_micros (clk c) v) (c_from_micros (clk c) v2) b r)) HRp).
    - pose proof (ds_act st Hst _ Ea) as [Hdd _].
      pose proof (sample_day_clamped_det tp (pos sL) tp1 (pos sL1) d Hdd) as Ev.
      destruct (sample_day_clamped tp (pos sL) d) as [v p]. destruct (sample_day_clamped tp1 (pos sL1) d) as [v1 p1].
      cbn [fst] in Ev. subst v1. inversion H; inversion H1; subst.
      assert (HRp : Rel (set_pos sL p) (set_pos sL1 p1)) by (ghost HRL).
      exact (Rel_set_slot _ _ (Some (TUpdateTimer 0 (c_from_micros (clk c) v) r)) HRp).
    - inversion H; inversion H1; subst.
      exact (Rel_set_slot _ _ None HRL).
  Qed.

  (** *** update_counter, given the simulation for the nested transition *)
  Lemma slot_none_solo : forall s s1, Rel s s1 ->
    match nth_error (slots s1) 0 with Some None => true | _ => false end =
    match nth_error (slots s) i with Some None => true | _ => false end.
  Proof.
    intros s s1 HR. destruct (rl_slot _ _ HR) as (sl & Hs & Hs1). rewrite Hs, Hs1.
    destruct sl; reflexivity.
  Qed.

  Lemma update_counter_solo :
    forall (tr tr1 : fstate -> nat -> event -> outcome (fstate * bool)) s s1 s' al ch s1' al1 ch1,
    (forall sa sa1 sb b sb1 b1, Rel sa sa1 ->
       tr sa i CounterZero = Ok (sb, b) -> tr1 sa1 0%nat CounterZero = Ok (sb1, b1) ->
       Rel sb sb1 /\ b1 = b) ->
    Rel s s1 ->
    update_counter tr c tp s i = Ok (s', al, ch) ->
    update_counter tr1 c1 tp1 s1 0 = Ok (s1', al1, ch1) ->
    Rel s' s1' /\ al1 = al /\ ch1 = ch.
  Proof.
    intros tr tr1 s s1 s' al ch s1' al1 ch1 Htr HR H H1.
    destruct (rl_rt _ _ HR) as (r & Hr & Hr1).
    assert (Hst : exists st, nthN (states m) (cur r) = Some st).
    { pose proof H as H'. unfold update_counter in H'. rewrite machine_comb in H'. cbn [bind] in H'.
      unfold get at 1 in H'. rewrite Hr in H'. cbn [bind] in H'.
      mbind H' as st Est. apply getN_ok in Est. eauto. }
    destruct Hst as [st Hst].
    assert (Hr1' : nth_error (rts s1) 0 = Some r) by (rewrite Hr1; reflexivity).
    assert (Hm1 : nth_error (machines c1) 0 = Some m) by reflexivity.
    pose proof (update_counter_spec _ _ _ _ _ _ _ _ _ _ _ Hr Hm Hst H) as S.
    pose proof (update_counter_spec _ _ _ _ _ _ _ _ _ _ _ Hr1' Hm1 Hst H1) as S1.
    pose proof (Hdet st (nthN_In _ _ _ Hst)) as Hds.
    destruct (match sctr_a st with Some cn => ctr_change tp (pos s) cn (cb r) | None => (0, pos s) end)
      as [va p1] eqn:EA.
    destruct (match sctr_a st with Some cn => ctr_change tp1 (pos s1) cn (cb r) | None => (0, pos s1) end)
      as [va1 p11] eqn:EA1.
    assert (va1 = va).
    { pose proof (ds_ca st Hds) as Hc. destruct (sctr_a st) as [cn|].
      - pose proof (ctr_change_det tp (pos s) tp1 (pos s1) cn (cb r) Hc) as E.
        rewrite EA, EA1 in E. cbn [fst] in E. congruence.
      - inversion EA; inversion EA1; congruence. }
    subst va1.
    destruct (match sctr_b st with Some cn => ctr_change tp p1 cn (ca r) | None => (0, p1) end)
      as [vb p2] eqn:EB.
    destruct (match sctr_b st with Some cn => ctr_change tp1 p11 cn (ca r) | None => (0, p11) end)
      as [vb1 p12] eqn:EB1.
    assert (vb1 = vb).
    { pose proof (ds_cb st Hds) as Hc. destruct (sctr_b st) as [cn|].
      - pose proof (ctr_change_det tp p1 tp1 p11 cn (ca r) Hc) as E.
        rewrite EB, EB1 in E. cbn [fst] in E. congruence.
      - inversion EB; inversion EB1; congruence. }
    subst vb1. cbv zeta in S, S1.
    set (r1 := mkmrt _ _ _ _ _ _ _ _ _) in S, S1.
    assert (HRa : Rel (set_pos (set_rt s i r1) p2) (set_pos (set_rt s1 0 r1) p12)).
    { apply (Rel_core _ _ _ _ (Rel_set_rt s s1 r1 HR)); reflexivity. }
    clearbody r1.
    destruct (ctr_zeroed (sctr_a st) (ca r) _ (za r) || ctr_zeroed (sctr_b st) (cb r) _ (zb r)).
    - destruct S as (s2 & T & -> & ->). destruct S1 as (s12 & T1 & -> & ->).
      assert (HRb : Rel (add_log (set_pos (set_rt s i r1) p2) (LOG_CZERO, N.of_nat i, 0))
                        (add_log (set_pos (set_rt s1 0 r1) p12) (LOG_CZERO, N.of_nat 0, 0))) by (ghost HRa).
      destruct (Htr _ _ _ _ _ _ HRb T T1) as [HR2 ->].
      split; [exact HR2|]. split; [apply slot_none_solo; exact HR2|reflexivity].
    - destruct S as (-> & -> & ->). destruct S1 as (-> & -> & ->). auto.
  Qed.

  (** *** one machine step: machine i next to its neighbours vs. alone *)
  Lemma transition_solo : forall fuel s s1 ev s' b s1' b1,
    Rel s s1 ->
    transition fuel c tp s i ev = Ok (s', b) ->
    transition fuel c1 tp1 s1 0 ev = Ok (s1', b1) ->
    Rel s' s1' /\ b1 = b.
  Proof.
    induction fuel as [|fuel IH]; intros s s1 ev s' b s1' b1 HR H H1; [discriminate H|].
    cbn [transition] in H, H1.
    set (s0 := add_step (add_log s (LOG_TRANS, N.of_nat i, N.of_nat (event_idx ev)))) in H.
    set (s10 := add_step (add_log s1 (LOG_TRANS, N.of_nat 0, N.of_nat (event_idx ev)))) in H1.
    assert (HR0 : Rel s0 s10) by (ghost HR).
    mbind H as r Er. mbind H1 as r1 Er1.
    assert (r1 = r) by (eapply Rel_get_rt; eauto). subst r1.
    destruct (cur r =? STATE_END).
    { inversion H; inversion H1; subst. split; [exact HR0|reflexivity]. }
    rewrite machine_comb in H. rewrite machine_solo in H1. cbn [bind] in H, H1.
    mbind H as st Est. cbn [bind] in H1.
    apply getN_ok in Est. pose proof (nthN_In _ _ _ Est) as Hin. pose proof (Hdet st Hin) as Hds.
    pose proof (sample_state_det tp (pos s0) tp1 (pos s10) st ev Hds) as Ens.
    destruct (sample_state tp (pos s0) st ev) as [nxt p] eqn:Es.
    destruct (sample_state tp1 (pos s10) st ev) as [nxt1 p1] eqn:Es1.
    cbn [fst] in Ens. subst nxt1.
    assert (HRp : Rel (set_pos s0 p) (set_pos s10 p1)) by (ghost HR0).
    destruct nxt as [ns|].
    2:{ inversion H; inversion H1; subst. split; [exact HRp|reflexivity]. }
    set (sA := add_log (set_pos s0 p) (LOG_NEXT, N.of_nat i, ns)) in H.
    set (sA1 := add_log (set_pos s10 p1) (LOG_NEXT, N.of_nat 0, ns)) in H1.
    assert (HRA : Rel sA sA1) by (ghost HRp).
    destruct (ns =? STATE_END).
    { inversion H; inversion H1; subst. split; [apply Rel_set_rt; exact HRA|reflexivity]. }
    destruct (N.eqb_spec ns STATE_SIGNAL) as [Hsg|Hnsg].
    { exfalso. eapply (sample_state_no_signal m); eauto.
      apply Hns. eapply nth_error_In; eauto. }
    mbind H as s2 E2. mbind H1 as s12 E12.
    assert (HR2 : Rel s2 s12).
    { destruct (negb (cur r =? ns)); [|inversion E2; inversion E12; subst; exact HRA].
      mbind E2 as nst Enst. cbn [bind] in E12.
      apply getN_ok in Enst. pose proof (Hdet nst (nthN_In _ _ _ Enst)) as Hdn.
      destruct (match saction nst with Some a => sample_limit tp (pos sA) a | None => (STATE_LIMIT_MAX, pos sA) end)
        as [l q] eqn:El.
      destruct (match saction nst with Some a => sample_limit tp1 (pos sA1) a | None => (STATE_LIMIT_MAX, pos sA1) end)
        as [l1 q1] eqn:El1.
      assert (l1 = l).
      { destruct (saction nst) as [a|] eqn:Ea.
        - pose proof (sample_limit_det tp (pos sA) tp1 (pos sA1) a (ds_act nst Hdn a Ea)) as E.
          rewrite El, El1 in E. cbn [fst] in E. congruence.
        - inversion El; inversion El1; congruence. }
      subst l1. inversion E2; inversion E12; subst.
      assert (HRl : Rel (add_log sA (LOG_CHANGE, N.of_nat i, ns)) (add_log sA1 (LOG_CHANGE, N.of_nat 0, ns)))
        by (ghost HRA).
      apply (Rel_core _ _ _ _ (Rel_set_rt _ _ (rt_set_cur r ns l) HRl)); reflexivity. }
    mbind H as r2 Er2. mbind H1 as r12 Er12.
    assert (r12 = r2) by (eapply Rel_get_rt; eauto). subst r12.
    rewrite (below_solo _ _ r2 HR2) in H1.
    mbind H as below Ebel. cbn [bind] in H1.
    mbind H as [[s3 allow] chg] Euc. mbind H1 as [[s13 allow1] chg1] Euc1.
    destruct (update_counter_solo _ _ _ _ _ _ _ _ _ _
                (fun sa sa1 sb bb sb1 bb1 => IH sa sa1 CounterZero sb bb sb1 bb1) HR2 Euc Euc1) as (HR3 & -> & ->).
    mbind H as s4 Esch. mbind H1 as s14 Esch1.
    assert (HR4 : Rel s4 s14).
    { destruct (allow && below).
      - eapply schedule_action_solo; eauto.
      - inversion Esch; inversion Esch1; subst; exact HR3. }
    mbind H as r4 Er4. mbind H1 as r14 Er14.
    assert (r14 = r4) by (eapply Rel_get_rt; eauto). subst r14.
    inversion H; inversion H1; subst. split; [exact HR4|reflexivity].
  Qed.

  (** *** decrement_limit and trans_dec *)
  Lemma decrement_limit_solo : forall s s1 s' s1',
    Rel s s1 ->
    decrement_limit c tp s i = Ok s' -> decrement_limit c1 tp1 s1 0 = Ok s1' -> Rel s' s1'.
  Proof.
    unfold decrement_limit; intros s s1 s' s1' HR H H1.
    set (sL := add_log s (LOG_DEC, N.of_nat i, 0)) in H.
    set (sL1 := add_log s1 (LOG_DEC, N.of_nat 0, 0)) in H1.
    assert (HRL : Rel sL sL1) by (ghost HR).
    mbind H as r0 Er0. mbind H1 as r10 Er10.
    assert (r10 = r0) by (eapply Rel_get_rt; eauto). subst r10.
    set (r := if 0 <? lim r0 then rt_set_lim r0 (lim r0 - 1) else r0) in H, H1.
    assert (HRr : Rel (set_rt sL i r) (set_rt sL1 0 r)) by (apply Rel_set_rt; exact HRL).
    rewrite machine_comb in H. rewrite machine_solo in H1. cbn [bind] in H, H1.
    mbind H as st Est. cbn [bind] in H1.
    destruct (saction st) as [act|]; [|inversion H; inversion H1; subst; exact HRr].
    destruct ((lim r =? 0) && action_has_limit act); [|inversion H; inversion H1; subst; exact HRr].
    mbind H as [s2 b] E2. mbind H1 as [s12 b1] E12. inversion H; inversion H1; subst.
    refine (proj1 (transition_solo _ _ _ _ _ _ _ _ _ E2 E12)).
    assert (HRn : Rel (set_slot (set_rt sL i r) i None) (set_slot (set_rt sL1 0 r) 0 None))
      by exact (Rel_set_slot _ _ None HRr).
    ghost HRn.
  Qed.

  Lemma trans_dec_solo : forall s s1 ev dec s' s1',
    Rel s s1 ->
    trans_dec c tp s i ev dec = Ok s' -> trans_dec c1 tp1 s1 0 ev dec = Ok s1' -> Rel s' s1'.
  Proof.
    unfold trans_dec; intros s s1 ev dec s' s1' HR H H1.
    mbind H as [sa chg] E. mbind H1 as [sa1 chg1] E1.
    destruct (transition_solo _ _ _ _ _ _ _ _ HR E E1) as [HRa ->].
    mbind H as r Er. mbind H1 as r1 Er1.
    assert (r1 = r) by (eapply Rel_get_rt; eauto). subst r1.
    destruct (negb chg && negb (cur r =? STATE_END) && dec).
    - eapply decrement_limit_solo; eauto.
    - inversion H; inversion H1; subst; exact HRa.
  Qed.

  (** *** the loops of [process_event]: machines 0..n-1 next to machine 0 alone *)
  Section Loop.
    Variable body : nat -> fstate -> outcome fstate.
    Variable body1 : fstate -> outcome fstate.
    Hypothesis body_other : forall j s s' s1, j <> i -> Rel s s1 -> body j s = Ok s' -> Rel s' s1.
    Hypothesis body_self : forall s s1 s' s1',
      Rel s s1 -> body i s = Ok s' -> body1 s1 = Ok s1' -> Rel s' s1'.

    Fixpoint loop (k from : nat) (s : fstate) : outcome fstate :=
      match k with
      | O => Ok s
      | S k' => s' <- body from s ;; loop k' (S from) s'
      end.

    Lemma loop_solo : forall k from s s',
      loop k from s = Ok s' ->
      (forall s1, ~ (from <= i < from + k)%nat -> Rel s s1 -> Rel s' s1) /\
      (forall s1 s1', (from <= i < from + k)%nat -> Rel s s1 -> body1 s1 = Ok s1' -> Rel s' s1').
    Proof.
      induction k as [|k IH]; intros from s s' H; cbn [loop] in H.
      - inversion H; subst. split; [auto|intros; lia].
      - mbind H as sa E. destruct (IH _ _ _ H) as [IH1 IH2]. split.
        + intros s1 Hn HR. apply IH1; [lia|]. apply (body_other from s); auto. lia.
        + intros s1 s1' Hin HR H1. destruct (Nat.eq_dec from i) as [->|Hne].
          * apply IH1; [lia|]. eapply body_self; eauto.
          * apply (IH2 s1); [lia| |exact H1]. apply (body_other from s); auto.
    Qed.
  End Loop.

  (** the four loops as instances of [loop] *)
  Definition tr_body (cc : cfg) (tt : tape) (ev : event) (j : nat) (s : fstate) : outcome fstate :=
    '(s', _) <- transition FUEL cc tt s j ev ;; Ok s'.
  Definition ns_body (cc : cfg) (tt : tape) (j : nat) (s : fstate) : outcome fstate :=
    r <- get (rts s) j ;;
    '(s', _) <- transition FUEL cc tt (set_rt s j (rt_set_nsent r (nsent r + 1))) j NormalSent ;; Ok s'.
  Definition bb_body (cc : cfg) (tt : tape) (target : N) (j : nat) (s : fstate) : outcome fstate :=
    trans_dec cc tt s j BlockingBegin (N.of_nat j =? target).
  Definition be_body (cc : cfg) (tt : tape) (blocked : N) (j : nat) (s : fstate) : outcome fstate :=
    r <- get (rts s) j ;;
    s <- (if negb (blocked =? 0) then
            d <- c_add (clk cc) (bdur r) blocked ;; Ok (set_rt s j (rt_set_bdur r d))
          else Ok s) ;;
    '(s', _) <- transition FUEL cc tt s j BlockingEnd ;; Ok s'.

  Lemma trans_all_loop : forall cc tt ev k from s,
    trans_all cc tt ev k from s = loop (tr_body cc tt ev) k from s.
  Proof.
    induction k as [|k IH]; intros from s; cbn [trans_all loop]; [reflexivity|].
    unfold tr_body at 1. destruct (transition FUEL cc tt s from ev) as [[sa b]| |]; cbn [bind]; auto.
  Qed.

  Lemma normal_sent_all_loop : forall cc tt k from s,
    normal_sent_all cc tt k from s = loop (ns_body cc tt) k from s.
  Proof.
    induction k as [|k IH]; intros from s; cbn [normal_sent_all loop]; [reflexivity|].
    unfold ns_body at 1. destruct (get (rts s) from) as [r| |]; cbn [bind]; auto.
    destruct (transition FUEL cc tt _ from NormalSent) as [[sa b]| |]; cbn [bind]; auto.
  Qed.

  Lemma blocking_begin_all_loop : forall cc tt target k from s,
    blocking_begin_all cc tt target k from s = loop (bb_body cc tt target) k from s.
  Proof.
    induction k as [|k IH]; intros from s; cbn [blocking_begin_all loop]; [reflexivity|].
    unfold bb_body at 1. destruct (trans_dec cc tt s from BlockingBegin _) as [sa| |]; cbn [bind]; auto.
  Qed.

  Lemma blocking_end_all_loop : forall cc tt blocked k from s,
    blocking_end_all cc tt blocked k from s = loop (be_body cc tt blocked) k from s.
  Proof.
    induction k as [|k IH]; intros from s; cbn [blocking_end_all loop]; [reflexivity|].
    unfold be_body at 1. destruct (get (rts s) from) as [r| |]; cbn [bind]; auto.
    destruct (if negb (blocked =? 0) then _ else _) as [s0| |]; cbn [bind]; auto.
    destruct (transition FUEL cc tt s0 from BlockingEnd) as [[sa b]| |]; cbn [bind]; auto.
  Qed.

  Lemma loop_one : forall body from s s', loop body 1 from s = Ok s' -> body from s = Ok s'.
  Proof. intros body from s s' H. cbn [loop] in H. destruct (body from s) as [sa| |]; cbn [bind] in H; auto; discriminate. Qed.

  Lemma trans_all_solo : forall ev n s s1 s' s1',
    (i < n)%nat -> Rel s s1 ->
    trans_all c tp ev n 0 s = Ok s' -> trans_all c1 tp1 ev 1 0 s1 = Ok s1' -> Rel s' s1'.
  Proof.
    intros ev n s s1 s' s1' Hn HR H H1. rewrite trans_all_loop in H, H1. apply loop_one in H1.
    refine (proj2 (loop_solo (tr_body c tp ev) (tr_body c1 tp1 ev 0) _ _ n 0%nat s s' H) s1 s1' _ HR H1); [| |lia].
    - intros j sa sa' sb Hj HRa Hb. unfold tr_body in Hb. mbind Hb as [sx b] E. inversion Hb; subst.
      eapply transition_other; eauto.
    - intros sa sb sa' sb' HRa Hb Hb1. unfold tr_body in Hb, Hb1.
      mbind Hb as [sx b] E. mbind Hb1 as [sx1 b1] E1. inversion Hb; inversion Hb1; subst.
      exact (proj1 (transition_solo _ _ _ _ _ _ _ _ HRa E E1)).
  Qed.

  Lemma normal_sent_all_solo : forall n s s1 s' s1',
    (i < n)%nat -> Rel s s1 ->
    normal_sent_all c tp n 0 s = Ok s' -> normal_sent_all c1 tp1 1 0 s1 = Ok s1' -> Rel s' s1'.
  Proof.
    intros n s s1 s' s1' Hn HR H H1. rewrite normal_sent_all_loop in H, H1. apply loop_one in H1.
    refine (proj2 (loop_solo (ns_body c tp) (ns_body c1 tp1 0) _ _ n 0%nat s s' H) s1 s1' _ HR H1); [| |lia].
    - intros j sa sa' sb Hj HRa Hb. unfold ns_body in Hb. mbind Hb as r Er. apply get_ok in Er.
      mbind Hb as [sx b] E. inversion Hb; subst.
      eapply transition_other; [exact Hj| |exact E].
      apply Rel_set_rt_other; auto.
    - intros sa sb sa' sb' HRa Hb Hb1. unfold ns_body in Hb, Hb1.
      mbind Hb as r Er. mbind Hb1 as r1 Er1.
      assert (r1 = r) by (eapply Rel_get_rt; eauto). subst r1.
      mbind Hb as [sx b] E. mbind Hb1 as [sx1 b1] E1. inversion Hb; inversion Hb1; subst.
      refine (proj1 (transition_solo _ _ _ _ _ _ _ _ _ E E1)). apply Rel_set_rt. exact HRa.
  Qed.

  Lemma proj_id_self : forall x, (0 =? proj_id i x) = (N.of_nat i =? x).
  Proof.
    intros x. unfold proj_id. rewrite (N.eqb_sym (N.of_nat i) x).
    destruct (x =? N.of_nat i); reflexivity.
  Qed.

  Lemma blocking_begin_all_solo : forall x n s s1 s' s1',
    (i < n)%nat -> Rel s s1 ->
    blocking_begin_all c tp x n 0 s = Ok s' ->
    blocking_begin_all c1 tp1 (proj_id i x) 1 0 s1 = Ok s1' -> Rel s' s1'.
  Proof.
    intros x n s s1 s' s1' Hn HR H H1. rewrite blocking_begin_all_loop in H, H1. apply loop_one in H1.
    refine (proj2 (loop_solo (bb_body c tp x) (bb_body c1 tp1 (proj_id i x) 0) _ _ n 0%nat s s' H) s1 s1' _ HR H1); [| |lia].
    - intros j sa sa' sb Hj HRa Hb. unfold bb_body in Hb. eapply trans_dec_other; eauto.
    - intros sa sb sa' sb' HRa Hb Hb1. unfold bb_body in Hb, Hb1.
      change (N.of_nat 0) with 0 in Hb1. rewrite proj_id_self in Hb1.
      eapply trans_dec_solo; eauto.
  Qed.

  Lemma blocking_end_all_solo : forall blocked n s s1 s' s1',
    (i < n)%nat -> Rel s s1 ->
    blocking_end_all c tp blocked n 0 s = Ok s' ->
    blocking_end_all c1 tp1 blocked 1 0 s1 = Ok s1' -> Rel s' s1'.
  Proof.
    intros blocked n s s1 s' s1' Hn HR H H1. rewrite blocking_end_all_loop in H, H1. apply loop_one in H1.
    refine (proj2 (loop_solo (be_body c tp blocked) (be_body c1 tp1 blocked 0) _ _ n 0%nat s s' H) s1 s1' _ HR H1); [| |lia].
    - intros j sa sa' sb Hj HRa Hb. unfold be_body in Hb. mbind Hb as r Er. apply get_ok in Er.
      mbind Hb as s0 E0. mbind Hb as [sx b] E. inversion Hb; subst.
      eapply transition_other; [exact Hj| |exact E].
      destruct (negb (blocked =? 0)); [|inversion E0; subst; exact HRa].
      mbind E0 as d Ed. inversion E0; subst. apply Rel_set_rt_other; auto.
    - intros sa sb sa' sb' HRa Hb Hb1. unfold be_body in Hb, Hb1.
      change (clk c1) with (clk c) in Hb1.
      mbind Hb as r Er. mbind Hb1 as r1 Er1.
      assert (r1 = r) by (eapply Rel_get_rt; eauto). subst r1.
      mbind Hb as s0 E0. mbind Hb1 as s10 E10.
      assert (HR0 : Rel s0 s10).
      { destruct (negb (blocked =? 0)); [|inversion E0; inversion E10; subst; exact HRa].
        mbind E0 as d Ed. cbn [bind] in E10. inversion E0; inversion E10; subst.
        apply Rel_set_rt. exact HRa. }
      mbind Hb as [sx b] E. mbind Hb1 as [sx1 b1] E1. inversion Hb; inversion Hb1; subst.
      exact (proj1 (transition_solo _ _ _ _ _ _ _ _ HR0 E E1)).
  Qed.

  (** *** one reported event *)
  Ltac globals HR :=
    unfold set_gnorm, set_gpad, set_blocking;
    apply (Rel_globals _ _ _ _ _ _ _ _ _ _ _ _ HR); destruct HR; congruence.

  Lemma proj_id_other : forall x, x <> N.of_nat i -> proj_id i x = FOREIGN.
  Proof. intros x Hx. unfold proj_id. destruct (N.eqb_spec x (N.of_nat i)); [contradiction|reflexivity]. Qed.

  Lemma proj_id_same : proj_id i (N.of_nat i) = 0.
  Proof. unfold proj_id. rewrite N.eqb_refl. reflexivity. Qed.

  Lemma process_event_solo : forall s s1 e s' s1',
    Rel s s1 ->
    process_event c tp s e = Ok s' -> process_event c1 tp1 s1 (proj_event i e) = Ok s1' -> Rel s' s1'.
  Proof.
    intros s s1 e s' s1' HR H H1. pose proof (Rel_lt _ _ HR) as [Hlt Hone].
    unfold process_event, nmach in H, H1. rewrite Hone in H1.
    destruct e as [ | | | |x| |x| |x|x]; cbn [proj_event] in H1.
    - eapply trans_all_solo; eauto.
    - eapply trans_all_solo; eauto.
    - eapply trans_all_solo; eauto.
    - (* NormalSent *)
      eapply normal_sent_all_solo; [exact Hlt| |exact H|exact H1]. globals HR.
    - (* PaddingSent x *)
      assert (HRg : Rel (set_gpad s (gpad s + 1)) (set_gpad s1 (gpad s1 + 1))) by (globals HR).
      destruct (N.eqb_spec x (N.of_nat i)) as [->|Hx].
      + rewrite proj_id_same in H1. cbn [N.of_nat N.leb N.compare] in H1.
        replace (N.of_nat (length (rts s)) <=? N.of_nat i) with false in H
          by (symmetry; apply N.leb_gt; lia).
        rewrite Nat2N.id in H. change (N.to_nat 0) with 0%nat in H1.
        mbind H as r Er. mbind H1 as r1 Er1.
        assert (r1 = r) by (eapply (Rel_get_rt _ _ _ _ HRg); eauto). subst r1.
        eapply trans_dec_solo; [|exact H|exact H1]. apply Rel_set_rt. exact HRg.
      + rewrite (proj_id_other x Hx) in H1. change (N.of_nat 1 <=? FOREIGN) with true in H1.
        inversion H1; subst s1'. clear H1.
        destruct (N.of_nat (length (rts s)) <=? x); [inversion H; subst; exact HRg|].
        mbind H as r Er.
        assert (Hj : N.to_nat x <> i) by (intros Hc; apply Hx; rewrite <- Hc, N2Nat.id; reflexivity).
        eapply trans_dec_other; [exact Hj| |exact H]. apply Rel_set_rt_other; auto.
    - eapply trans_all_solo; eauto.
    - (* BlockingBegin x *)
      eapply blocking_begin_all_solo; [exact Hlt| |exact H|exact H1].
      rewrite (rl_bactive _ _ HR). destruct (bactive s); [exact HR|]. globals HR.
    - (* BlockingEnd *)
      change (clk c1) with (clk c) in H1.
      rewrite (rl_bactive _ _ HR), (rl_now _ _ HR), (rl_bstart _ _ HR), (rl_gblk _ _ HR) in H1.
      mbind H as [s0 blocked] E0. mbind H1 as [s10 blocked1] E10.
      assert (HR0 : Rel s0 s10 /\ blocked1 = blocked).
      { destruct (bactive s).
        - mbind E0 as g Eg. cbn [bind] in E10. inversion E0; inversion E10; subst.
          split; [|reflexivity]. globals HR.
        - inversion E0; inversion E10; subst. split; [exact HR|reflexivity]. }
      destruct HR0 as [HR0 ->].
      assert (Hlen : length (rts s0) = length (rts s)).
      { destruct (bactive s); [|inversion E0; reflexivity].
        mbind E0 as g Eg. inversion E0; subst. reflexivity. }
      eapply blocking_end_all_solo; [exact Hlt|exact HR0|exact H|exact H1].
    - (* TimerBegin x *)
      destruct (N.eqb_spec x (N.of_nat i)) as [->|Hx].
      + rewrite proj_id_same in H1. cbn [N.of_nat N.leb N.compare] in H1.
        replace (N.of_nat (length (rts s)) <=? N.of_nat i) with false in H
          by (symmetry; apply N.leb_gt; lia).
        rewrite Nat2N.id in H. change (N.to_nat 0) with 0%nat in H1.
        eapply trans_dec_solo; eauto.
      + rewrite (proj_id_other x Hx) in H1. change (N.of_nat 1 <=? FOREIGN) with true in H1.
        inversion H1; subst s1'. clear H1.
        destruct (N.of_nat (length (rts s)) <=? x); [inversion H; subst; exact HR|].
        assert (Hj : N.to_nat x <> i) by (intros Hc; apply Hx; rewrite <- Hc, N2Nat.id; reflexivity).
        eapply trans_dec_other; eauto.
    - (* TimerEnd x *)
      destruct (N.eqb_spec x (N.of_nat i)) as [->|Hx].
      + rewrite proj_id_same in H1. cbn [N.of_nat N.leb N.compare] in H1.
        replace (N.of_nat (length (rts s)) <=? N.of_nat i) with false in H
          by (symmetry; apply N.leb_gt; lia).
        rewrite Nat2N.id in H. change (N.to_nat 0) with 0%nat in H1.
        mbind H as [sa b] E. mbind H1 as [sa1 b1] E1. inversion H; inversion H1; subst.
        exact (proj1 (transition_solo _ _ _ _ _ _ _ _ HR E E1)).
      + rewrite (proj_id_other x Hx) in H1. change (N.of_nat 1 <=? FOREIGN) with true in H1.
        inversion H1; subst s1'. clear H1.
        destruct (N.of_nat (length (rts s)) <=? x); [inversion H; subst; exact HR|].
        assert (Hj : N.to_nat x <> i) by (intros Hc; apply Hx; rewrite <- Hc, N2Nat.id; reflexivity).
        mbind H as [sa b] E. inversion H; subst.
        eapply transition_other; eauto.
  Qed.

  Lemma events_solo : forall evs s s1 s' s1',
    Rel s s1 ->
    foldM (process_event c tp) evs s = Ok s' ->
    foldM (process_event c1 tp1) (map (proj_event i) evs) s1 = Ok s1' -> Rel s' s1'.
  Proof.
    induction evs as [|e evs IH]; intros s s1 s' s1' HR H H1; cbn [map foldM] in H, H1.
    - inversion H; inversion H1; subst; exact HR.
    - mbind H as sa E. mbind H1 as sa1 E1. eapply IH; [|exact H|exact H1].
      eapply process_event_solo; eauto.
  Qed.

  (** *** one call *)
  Lemma begin_call_solo : forall s s1 t, Rel s s1 -> Rel (begin_call s t) (begin_call s1 t).
  Proof.
    intros s s1 t []. unfold begin_call. constructor; cbn; auto.
    - destruct rl_rt0 as (r & Hr & Hr1). exists (rt_clear_z r). split.
      + apply map_nth_error. exact Hr.
      + rewrite Hr1. reflexivity.
    - destruct rl_slot0 as (sl & Hs & Hs1). exists None. split.
      + rewrite nth_error_map, Hs. reflexivity.
      + rewrite Hs1. reflexivity.
  Qed.

  Lemma signal_round_solo : forall s s1 s' s1',
    Rel s s1 -> signal_round c tp s = Ok s' -> signal_round c1 tp1 s1 = Ok s1' -> Rel s' s1'.
  Proof.
    unfold signal_round; intros s s1 s' s1' HR H H1.
    rewrite (rl_sig _ _ HR) in H. rewrite (rl_sig1 _ _ HR) in H1.
    inversion H; inversion H1; subst; exact HR.
  Qed.

  Lemma collect_solo : forall s s1, Rel s s1 -> SlotInv c s ->
    acts_of i (collect_actions (slots s)) = map (rename_to i) (collect_actions (slots s1)).
  Proof.
    intros s s1 HR HS. destruct (rl_slot _ _ HR) as (sl & Hs & Hs1).
    unfold acts_of. rewrite (filter_collect (slots s) N.of_nat i).
    - rewrite Hs, Hs1. destruct sl; reflexivity.
    - intros j ta Hj. apply HS in Hj. exact (proj1 Hj).
    - intros j Hj E. apply Nat2N.inj in E. contradiction.
  Qed.

  Lemma trigger_events_solo : forall s s1 evs t s' acts s1' acts1,
    Rel s s1 ->
    trigger_events c tp s evs t = Ok (s', acts) ->
    trigger_events c1 tp1 s1 (map (proj_event i) evs) t = Ok (s1', acts1) ->
    Rel s' s1' /\ acts_of i acts = map (rename_to i) acts1.
  Proof.
    intros s s1 evs t s' acts s1' acts1 HR H H1.
    destruct (trigger_events_SlotInv _ _ _ _ _ _ _ H) as [HS _].
    unfold trigger_events in H, H1.
    mbind H as sa E. mbind H1 as sa1 E1. mbind H as sb Eb. mbind H1 as sb1 Eb1.
    inversion H; inversion H1; subst.
    assert (HRa : Rel sa sa1) by (eapply events_solo; [apply begin_call_solo; exact HR|exact E|exact E1]).
    assert (HRb : Rel s' s1') by (eapply signal_round_solo; eauto).
    split; [exact HRb|apply collect_solo; assumption].
  Qed.

  (** *** the initial states *)
  Lemma fnew_solo : forall t0 s0 s10,
    fnew c tp t0 = Ok s0 -> fnew c1 tp1 t0 = Ok s10 -> Rel s0 s10.
  Proof.
    unfold fnew; intros t0 s0 s10 H H1.
    mbind H as [rs p] E. mbind H1 as [rs1 p1] E1. inversion H; inversion H1; subst.
    destruct (init_rts_nth _ _ _ _ _ _ _ E Hm) as (st0 & q & Hst & Hr).
    change (machines c1) with [m] in *. cbn [init_rts] in E1.
    unfold get in E1. rewrite Hst in E1. cbn [bind] in E1.
    destruct (match saction st0 with Some a => sample_limit tp1 0 a | None => (0, 0%nat) end) as [l1 q1] eqn:El1.
    cbn [bind] in E1. inversion E1; subst.
    assert (Hl : l1 = match saction st0 with Some a => fst (sample_limit tp q a) | None => 0 end).
    { pose proof (Hdet st0 (nth_error_In _ _ Hst)) as Hds.
      destruct (saction st0) as [a|] eqn:Ea; [|inversion El1; reflexivity].
      rewrite (sample_limit_det tp q tp1 0%nat a (ds_act st0 Hds a Ea)), El1. reflexivity. }
    rewrite <- Hl in Hr.
    constructor; cbn; auto.
    - eexists. split; [exact Hr|reflexivity].
    - exists None. split; [|reflexivity]. rewrite nth_error_map, Hm. reflexivity.
  Qed.

  (** *** a whole history *)
  Lemma run_solo : forall h s s1 s' outs s1' outs1,
    Rel s s1 ->
    run c tp s h = Ok (s', outs) -> run c1 tp1 s1 (proj_hist i h) = Ok (s1', outs1) ->
    Rel s' s1' /\ map (acts_of i) outs = map (map (rename_to i)) outs1.
  Proof.
    induction h as [|[evs t] h IH]; intros s s1 s' outs s1' outs1 HR H H1;
      unfold proj_hist in H1; cbn [run map] in H, H1.
    - inversion H; inversion H1; subst. split; [exact HR|reflexivity].
    - fold (proj_hist i h) in H1. mbind H as [sa acts] E. mbind H1 as [sa1 acts1] E1.
      mbind H as [sb rest] Eb. mbind H1 as [sb1 rest1] Eb1.
      inversion H; inversion H1; subst.
      destruct (trigger_events_solo _ _ _ _ _ _ _ _ HR E E1) as [HRa Ha].
      destruct (IH _ _ _ _ _ _ HRa Eb Eb1) as [HRb Hb].
      split; [exact HRb|]. cbn [map]. rewrite Ha, Hb. reflexivity.
  Qed.
End Sim.


(** ** C10, the simulation theorem: semantic hypotheses, every pair of tapes *)
Theorem solo_equals_combined : forall c i m tp tp1 t0 h s0 s outs s10 s1 outs1,
  nth_error (machines c) i = Some m -> det_machine m -> no_signal c ->
  fnew c tp t0 = Ok s0 -> run c tp s0 h = Ok (s, outs) ->
  fnew (solo_cfg c m) tp1 t0 = Ok s10 -> run (solo_cfg c m) tp1 s10 (proj_hist i h) = Ok (s1, outs1) ->
  map (acts_of i) outs = map (map (rename_to i)) outs1.
Proof.
  intros c i m tp tp1 t0 h s0 s outs s10 s1 outs1 Hm Hdet Hns F R F1 R1.
  pose proof (fnew_solo c i m tp tp1 Hm Hdet t0 s0 s10 F F1) as HR0.
  exact (proj2 (run_solo c i m tp tp1 Hm Hdet Hns h s0 s10 s outs s1 outs1 HR0 R R1)).
Qed.

(** the call-by-call form, from any pair of related states *)
Theorem solo_equals_combined_call : forall c i m tp tp1 s s1 evs t s' acts s1' acts1,
  nth_error (machines c) i = Some m -> det_machine m -> no_signal c ->
  Rel i s s1 ->
  trigger_events c tp s evs t = Ok (s', acts) ->
  trigger_events (solo_cfg c m) tp1 s1 (map (proj_event i) evs) t = Ok (s1', acts1) ->
  Rel i s' s1' /\ acts_of i acts = map (rename_to i) acts1.
Proof.
  intros c i m tp tp1 s s1 evs t s' acts s1' acts1 Hm Hdet Hns.
  exact (trigger_events_solo c i m tp tp1 Hm Hdet Hns s s1 evs t s' acts s1' acts1).
Qed.

(** with validated machines both runs exist (C01) and agree *)
Theorem solo_equals_combined_total : forall c i m tp tp1 t0 h,
  nth_error (machines c) i = Some m -> det_machine m -> no_signal c ->
  machines_ok c -> nonempty_ok c -> clock_total (clk c) ->
  exists s0 s outs s10 s1 outs1,
    fnew c tp t0 = Ok s0 /\ run c tp s0 h = Ok (s, outs) /\
    fnew (solo_cfg c m) tp1 t0 = Ok s10 /\
    run (solo_cfg c m) tp1 s10 (proj_hist i h) = Ok (s1, outs1) /\
    map (acts_of i) outs = map (map (rename_to i)) outs1.
Proof.
  intros c i m tp tp1 t0 h Hm Hdet Hns Hok Hne Hclk.
  pose proof (nth_error_In _ _ Hm) as Hin.
  assert (Hok1 : machines_ok (solo_cfg c m)) by (intros m' [<-|[]]; apply Hok; exact Hin).
  assert (Hne1 : nonempty_ok (solo_cfg c m)) by (intros m' [<-|[]]; apply Hne; exact Hin).
  destruct (fnew_total c tp t0 Hne) as (s0 & F & HI).
  destruct (run_total c tp h s0 Hok Hclk HI) as (s & outs & R & _).
  destruct (fnew_total (solo_cfg c m) tp1 t0 Hne1) as (s10 & F1 & HI1).
  destruct (run_total (solo_cfg c m) tp1 (proj_hist i h) s10 Hok1 Hclk HI1) as (s1 & outs1 & R1 & _).
  exists s0, s, outs, s10, s1, outs1.
  split; [exact F|]. split; [exact R|]. split; [exact F1|]. split; [exact R1|].
  exact (solo_equals_combined c i m tp tp1 t0 h s0 s outs s10 s1 outs1 Hm Hdet Hns F R F1 R1).
Qed.

(** ** syntactic sufficient conditions *)
Definition ONE32 : N := 1065353216.   (* 1.0f32 *)

Definition det_dist_b (d : dist) : bool :=
  match dtype d with Uniform lo hi => feq (f64_of_bits lo) (f64_of_bits hi) | _ => false end.
Definition det_odist_b (o : option dist) : bool :=
  match o with Some d => det_dist_b d | None => true end.
Definition det_action_b (a : action) : bool :=
  match a with
  | Cancel _ => true
  | SendPadding _ _ t l => det_dist_b t && det_odist_b l
  | BlockOutgoing _ _ t d l => det_dist_b t && det_dist_b d && det_odist_b l
  | UpdateTimer _ d l => det_dist_b d && det_odist_b l
  end.
Definition det_ocounter_b (o : option counter) : bool :=
  match o with Some cn => ccopy cn || det_odist_b (cdist cn) | None => true end.
(** an empty vector, or a first target with probability 1.0 *)
Definition det_trans_b (v : list trans) : bool :=
  match v with [] => true | (_, p) :: _ => p =? ONE32 end.
Definition det_state_b (st : state) : bool :=
  match saction st with Some a => det_action_b a | None => true end
  && det_ocounter_b (sctr_a st) && det_ocounter_b (sctr_b st)
  && forallb (fun o => match o with Some v => det_trans_b v | None => true end) (strans st).
Definition det_machine_b (m : machine) : bool := forallb det_state_b (states m).

Definition no_signal_b (c : cfg) : bool :=
  forallb (fun m => forallb (fun st => forallb (fun o =>
    match o with
    | Some v => forallb (fun tpr : trans => negb (fst tpr =? STATE_SIGNAL)) v
    | None => true
    end) (strans st)) (states m)) (machines c).

Lemma det_dist_b_sound : forall d, det_dist_b d = true -> det_dist d.
Proof. unfold det_dist_b, det_dist; intros d H. destruct (dtype d); try discriminate; exact H. Qed.

Lemma det_odist_b_sound : forall o, det_odist_b o = true -> det_odist o.
Proof. intros [d|] H; [apply det_dist_b_sound; exact H|exact I]. Qed.

Lemma det_action_b_sound : forall a, det_action_b a = true -> det_action a.
Proof.
  intros [t|b r t l|b r t d l|r d l] H; cbn in H |- *; split_andb;
    auto using det_dist_b_sound, det_odist_b_sound.
Qed.

Lemma det_ocounter_b_sound : forall o, det_ocounter_b o = true -> det_ocounter o.
Proof.
  intros [cn|] H; [|exact I]. cbn in H |- *. unfold det_counter.
  apply orb_prop in H. destruct H as [H|H]; [left; exact H|right; apply det_odist_b_sound; exact H].
Qed.

Lemma det_trans_b_sound : forall v, det_trans_b v = true -> det_trans v.
Proof.
  intros [|[t p] v] H k k' Hk Hk'; [reflexivity|].
  cbn [det_trans_b] in H. apply N.eqb_eq in H. subst p.
  assert (P : forall k0, k0 < 2 ^ 23 ->
            pick_trans ((t, ONE32) :: v) f32_zero (f32_of_k k0) = Some t).
  { intros k0 Hk0. pose proof (prob_one_always t k0 Hk0) as Q.
    cbn [pick_trans] in Q |- *. fold ONE32 in Q.
    destruct (flt32 (f32_of_k k0) (fadd32 f32_zero (f32_of_bits ONE32))); [reflexivity|discriminate Q]. }
  transitivity (Some t); [apply P; exact Hk|symmetry; apply P; exact Hk'].
Qed.

Theorem det_machine_b_sound : forall m, det_machine_b m = true -> det_machine m.
Proof.
  unfold det_machine_b, det_machine; intros m H st Hst.
  rewrite forallb_forall in H. specialize (H st Hst). unfold det_state_b in H. split_andb.
  constructor.
  - intros a Ha. match goal with Hx : match saction st with _ => _ end = true |- _ => rewrite Ha in Hx; apply det_action_b_sound; exact Hx end.
  - apply det_ocounter_b_sound; assumption.
  - apply det_ocounter_b_sound; assumption.
  - intros v Hv. match goal with Hx : forallb _ (strans st) = true |- _ =>
      rewrite forallb_forall in Hx; specialize (Hx (Some v) Hv); cbn in Hx end.
    apply det_trans_b_sound; assumption.
Qed.

Theorem no_signal_b_sound : forall c, no_signal_b c = true -> no_signal c.
Proof.
  unfold no_signal_b, no_signal, no_signal_machine; intros c H m Hm st v t p Hst Hv Ht.
  rewrite forallb_forall in H. specialize (H m Hm).
  rewrite forallb_forall in H. specialize (H st Hst).
  rewrite forallb_forall in H. specialize (H (Some v) Hv). cbn in H.
  rewrite forallb_forall in H. specialize (H (t, p) Ht). cbn [fst] in H.
  destruct (N.eqb_spec t STATE_SIGNAL); [discriminate H|assumption].
Qed.

(** ** C10 for the machines of DESIGN.md (probability-1 vectors, constant
    distributions): arbitrary neighbours, every position, every history, every
    pair of tapes *)
Theorem solo_equals_combined_full : forall c i m tp tp1 t0 h s0 s outs s10 s1 outs1,
  nth_error (machines c) i = Some m -> det_machine_b m = true -> no_signal_b c = true ->
  fnew c tp t0 = Ok s0 -> run c tp s0 h = Ok (s, outs) ->
  fnew (solo_cfg c m) tp1 t0 = Ok s10 -> run (solo_cfg c m) tp1 s10 (proj_hist i h) = Ok (s1, outs1) ->
  map (acts_of i) outs = map (map (rename_to i)) outs1.
Proof.
  intros c i m tp tp1 t0 h s0 s outs s10 s1 outs1 Hm Hd Hn.
  apply (solo_equals_combined c i m tp tp1 t0 h s0 s outs s10 s1 outs1 Hm);
    [apply det_machine_b_sound; exact Hd|apply no_signal_b_sound; exact Hn].
Qed.

(** for a validated configuration on a clock whose additions do not overflow
    both runs exist and agree *)
Theorem solo_equals_combined_full_total : forall c i m tp tp1 t0 h,
  nth_error (machines c) i = Some m -> det_machine_b m = true -> no_signal_b c = true ->
  valid_cfg c = true -> clock_total (clk c) ->
  exists s0 s outs s10 s1 outs1,
    fnew c tp t0 = Ok s0 /\ run c tp s0 h = Ok (s, outs) /\
    fnew (solo_cfg c m) tp1 t0 = Ok s10 /\
    run (solo_cfg c m) tp1 s10 (proj_hist i h) = Ok (s1, outs1) /\
    map (acts_of i) outs = map (map (rename_to i)) outs1.
Proof.
  intros c i m tp tp1 t0 h Hm Hd Hn Hv Hclk.
  apply solo_equals_combined_total; auto.
  - apply det_machine_b_sound; exact Hd.
  - apply no_signal_b_sound; exact Hn.
  - apply valid_cfg_machines_ok; exact Hv.
  - apply valid_cfg_nonempty; exact Hv.
Qed.

(** ** sanity (non-vacuity): a deterministic machine between two randomised
    neighbours (probability-1/2 transitions, Uniform[0,100] timeout), three
    calls, tapes with arbitrary 64-bit entries *)
Definition HALF32 : N := 1056964608.   (* 0.5f32 *)
Definition F100 : N := 4636737291354636288.   (* 100.0f64 *)
Definition dm_state : state :=
  mkstate (Some (SendPadding false false (mkdist (Uniform 0 0) 0 0) None)) None None
          [None; None; None; Some [(0, ONE32)]; None; None; None; None; None; None; None; None; None].
Definition dm_machine : machine := mkmachine 1000 0 0 0 [dm_state].
Definition nb_state : state :=
  mkstate (Some (SendPadding false false (mkdist (Uniform 0 F100) 0 F100) None)) None None
          [None; None; None; Some [(0, HALF32)]; Some [(0, ONE32)]; None; None; None; None; None; None; None; None].
Definition nb_machine : machine := mkmachine 1000 0 0 0 [nb_state].
Definition sn_cfg : cfg := mkcfg [nb_machine; dm_machine; nb_machine] 0 0 vclock.
Definition sn_hist : list (list trigger_event * Z) :=
  [([TENormalSent; TEPaddingSent 1], 5%Z); ([TENormalSent; TEPaddingSent 0; TEBlockingBegin 1], 9%Z);
   ([TETunnelSent; TENormalSent; TEPaddingSent 2; TEBlockingEnd], 12%Z)].
(* f64 bit patterns of moderate values (1.0, 1.44, 1.88, 2.6, ...) whose low 23 bits vary *)
Definition sn_tp : tape :=
  fun p => 4607182418800017408 + N.of_nat p * (1970324836974592 + 4000037).
Definition sn_tp1 : tape := fun p => N.of_nat p * 1234567891234567 + 2 ^ 40.
Definition outs_of (c : cfg) (tp : tape) (h : list (list trigger_event * Z)) : option (list (list taction)) :=
  match fnew c tp 0%Z with
  | Ok s0 => match run c tp s0 h with Ok (_, outs) => Some outs | _ => None end
  | _ => None
  end.

Example sn_hyps : (det_machine_b dm_machine, no_signal_b sn_cfg, valid_cfg sn_cfg) = (true, true, true).
Proof. vm_compute. reflexivity. Qed.

(** the neighbours draw timeouts 1, 40, 72, 22, 100 and miss a probability-1/2
    transition; machine 1 pads in every call *)
Example sn_combined : outs_of sn_cfg sn_tp sn_hist =
  Some [[TSendPadding 0 1 false false; TSendPadding 1 0 false false];
        [TSendPadding 0 40 false false; TSendPadding 1 0 false false; TSendPadding 2 22 false false];
        [TSendPadding 0 72 false false; TSendPadding 1 0 false false; TSendPadding 2 100 false false]].
Proof. vm_compute. reflexivity. Qed.

Example sn_solo : outs_of (solo_cfg sn_cfg dm_machine) sn_tp1 (proj_hist 1 sn_hist) =
  Some [[TSendPadding 0 0 false false]; [TSendPadding 0 0 false false]; [TSendPadding 0 0 false false]].
Proof. vm_compute. reflexivity. Qed.

Print Assumptions solo_equals_combined_full.
Print Assumptions solo_equals_combined_full_total.
