(** C18 converse for ALL runs on parsed traces: the attribution-aware replay.

    [SimTimerLive.v] shows that with the replay [treplay] (any reported TimerEnd of m clears the
    replayed timer) the converse statements fail when a side's blocking is bypassable: a timer can
    fire, another event of that instant be reported first and answered with an UpdateTimer, and the
    TimerEnd reported afterwards belongs to the PREVIOUS timer. Here the replay [treplay'] lets a
    reported TimerEnd at time t clear the replayed timer only if the replayed expiry is t. *)
From Coq Require Import List Arith Lia Permutation ZArith Bool.
From MB Require Import Base.Prelude Model.Framework Model.Sim Proofs.Tactics Proofs.SimHeap.
From MB Require Import Proofs.SimBasics Proofs.SimReach Proofs.SimHistory Proofs.SimTimers.
From MB Require Import Proofs.SimTimerTrace Proofs.SimTimerLive.
From MB Require Proofs.SimBlocking Proofs.SimIdentity Proofs.SimTrace.
Import ListNotations.
Open Scope N_scope.

(** * 1. The attribution-aware replay *)
(** a reported TimerEnd of [m] at instant [t] ends the replayed timer only if its expiry is [t] *)
Definition after_event' (ev : trigger_event) (m : N) (t : Z) (cur : option Z) : option Z :=
  match ev with
  | TETimerEnd m' =>
      if (m' =? m) && (match cur with Some e => (e =? t)%Z | None => false end) then None else cur
  | _ => cur
  end.
Definition trec_step' (X : bool) (m : N) (cur : option Z) (r : hrec) : option Z :=
  if Bool.eqb (se_client (h_ev r)) X then
    timer_after (h_acts r) (se_time (h_ev r)) (N.to_nat m)
      (after_event' (se_ev (h_ev r)) m (se_time (h_ev r)) cur)
  else cur.
Definition trp' (X : bool) (m : N) (L : list hrec) : option Z := fold_left (trec_step' X m) L None.
Definition treplay' (X : bool) (m : N) (H : list hrec) (k : nat) : option Z := trp' X m (firstn k H).

(** on the counterexample runs of SimTimerLive.v the new replay follows the model *)
Example lvA_replay' :
  treplay' true 3 lvA_H 10 = Some 5010000%Z /\ treplay' true 3 lvA_H 11 = Some 9010000%Z /\
  treplay' true 3 lvA_H 13 = Some 9010000%Z /\ treplay' true 3 lvA_H 14 = Some 9010000%Z /\
  treplay' true 3 lvA_H 15 = None /\ treplay' true 3 lvC_H 13 = Some 9010000%Z /\
  treplay' true 3 lvC_H 14 = None.
Proof. repeat split; vm_compute; reflexivity. Qed.

Lemma trp'_snoc : forall X m L r, trp' X m (L ++ [r]) = trec_step' X m (trp' X m L) r.
Proof. intros. unfold trp'. rewrite fold_left_app. reflexivity. Qed.

Lemma treplay'_app : forall X m L L2 k, (k <= length L)%nat -> treplay' X m (L ++ L2) k = treplay' X m L k.
Proof.
  intros X m L L2 k Hk. unfold treplay'. rewrite firstn_app.
  replace (k - length L)%nat with 0%nat by lia. cbn [firstn]. rewrite app_nil_r. reflexivity.
Qed.

Lemma treplay'_full : forall X m L, treplay' X m L (length L) = trp' X m L.
Proof. intros. unfold treplay'. rewrite firstn_all. reflexivity. Qed.

Lemma treplay'_S : forall X m H k r, nth_error H k = Some r ->
  treplay' X m H (S k) = trec_step' X m (treplay' X m H k) r.
Proof. intros X m H k r Hn. unfold treplay'. rewrite (firstn_S_nth _ _ _ Hn). apply trp'_snoc. Qed.

(** * 2. [pick_next] in general: at most one timer fires per call, and only when nothing queued is due *)
Lemma pick_pinned : forall fuel st now next st' ic e,
  SB.sq_inv (m_sq st) -> ih (m_sq st) -> In e (qint (m_sq st) ic) -> (se_time e <= now)%Z ->
  pick_next fuel st now = Ok (Some next, st') ->
  se_time next = now /\
  s_timers (m_c st') = s_timers (m_c st) /\ s_timers (m_s st') = s_timers (m_s st) /\
  (In e (qint (m_sq st') ic) \/ (se_ev next = se_ev e /\ se_client next = ic)).
Proof.
  induction fuel as [|fuel IH]; intros st now next st' ic e Hinv Hih He Ht H; [discriminate H|].
  apply pn_cases in H. destruct H as (b & bic & q & which & qic & Hq & H). cbv zeta in Hq.
  assert (Hz : q = 0).
  { pose proof (peek_queue_zero (m_sq st) (m_c st) (m_s st) (n_cagg (m_net st)) (n_sagg (m_net st))
                  (N.min (N.min (N.min (peek_sched (s_sched (m_c st)) (s_sched (m_s st)) now)
                                       (peek_timers (s_timers (m_c st)) (s_timers (m_s st)) now)) b)
                         (net_peek_agg (m_net st) now)) now ic e Hih He Ht) as Z0.
    rewrite Hq in Z0. exact Z0. }
  subst q. unfold pn_alt in H.
  destruct H as [(Hr & _)|[H|[H|[H|[H|H]]]]].
  - discriminate Hr.
  - eapply IH in H; [exact H|exact Hinv|exact Hih|exact He|exact Ht].
  - destruct H as (Hbq & Hr & c' & s' & net' & -> & Tc & Ts). injection Hr as ->. cbn [se_time m_sq m_c m_s].
    split; [lia|]. split; [exact Tc|]. split; [exact Ts|left; exact He].
  - destruct H as (tmp & sq' & Hp & Hr & ->). injection Hr as ->. cbn [m_sq m_c m_s].
    change (Z.of_N 0) with 0%Z.
    destruct (retime_ev tmp (now + 0)%Z) as (Rev & Rcl & Rt). cbv zeta in Rev, Rcl, Rt.
    pose proof (peek_pop_consistent _ _ _ _ _ _ _ _ _ _ _ _
                  (SimTrace.sq_inv_wf _ Hinv) Hq DMAX_pos Hp) as Hle.
    change (Z.of_N 0) with 0%Z in Hle.
    split; [rewrite Rt; lia|]. split; [reflexivity|]. split; [reflexivity|].
    destruct (pop_keep _ _ _ _ _ _ ic e Hp He) as [Hk | ->]; [left; exact Hk|right].
    rewrite Rev, Rcl. split; [reflexivity|].
    rewrite qint_evq in He. pose proof (proj1 Hinv) as Hwf. rewrite SB.wf_simq_iff in Hwf.
    specialize (Hwf ic). rewrite SB.wf_evq_iff in Hwf. exact (proj1 (Hwf QInternal e He)).
  - destruct H as (Hn & _). exfalso. apply Hn. split; apply N.le_0_l.
  - destruct H as (Hn & _). exfalso. apply Hn. split; apply N.le_0_l.
Qed.

(** the shape of one call: the timers are untouched, or exactly one timer (side [ic], slot [mi]) fired at
    the instant of the returned event, and its TimerEnd is the returned event or is queued *)
Definition pick_shape (st st' : sim) (next : sev) : Prop :=
  (s_timers (m_c st') = s_timers (m_c st) /\ s_timers (m_s st') = s_timers (m_s st)) \/
  (exists ic mi,
     nth_error (s_timers (side_of st ic)) mi = Some (Some (se_time next)) /\
     s_timers (side_of st' ic) = upd (s_timers (side_of st ic)) mi None /\
     s_timers (side_of st' (negb ic)) = s_timers (side_of st (negb ic)) /\
     ((se_ev next = TETimerEnd (N.of_nat mi) /\ se_client next = ic) \/
      exists x, In x (qint (m_sq st') ic) /\ se_ev x = TETimerEnd (N.of_nat mi))).

Lemma pick_shape_from : forall st2 st st' next,
  s_timers (m_c st2) = s_timers (m_c st) -> s_timers (m_s st2) = s_timers (m_s st) ->
  pick_shape st2 st' next -> pick_shape st st' next.
Proof.
  intros st2 st st' next Ec Es [(A & B)|(ic & mi & A & B & C & D)].
  - left. split; congruence.
  - right. exists ic, mi. destruct ic; cbn [side_of negb] in *; rewrite <- ?Ec, <- ?Es; auto.
Qed.

Lemma pick_next_shape : forall fuel st now next st',
  SB.sq_inv (m_sq st) -> ih (m_sq st) ->
  pick_next fuel st now = Ok (Some next, st') -> pick_shape st st' next.
Proof.
  induction fuel as [|fuel IH]; intros st now next st' Hinv Hih H; [discriminate H|].
  apply pn_cases in H. destruct H as (b & bic & q & which & qic & Hq & H). cbv zeta in Hq.
  unfold pn_alt in H.
  destruct H as [(Hr & _)|[H|[H|[H|[H|H]]]]].
  - discriminate Hr.
  - eapply IH in H; [exact H|exact Hinv|exact Hih].
  - destruct H as (_ & _ & c' & s' & net' & -> & Tc & Ts). left. cbn [m_c m_s]. auto.
  - destruct H as (tmp & sq' & _ & _ & ->). left. cbn [m_c m_s]. auto.
  - destruct H as (_ & c' & s' & e & Hd & H).
    apply do_internal_timer_spec in Hd. destruct Hd as (ic & mi & Hd).
    assert (Hx : nth_error (s_timers (side_of st ic)) mi = Some (Some (se_time e)) /\
                 s_timers (if ic then c' else s') = upd (s_timers (side_of st ic)) mi None /\
                 s_timers (if ic then s' else c') = s_timers (side_of st (negb ic)) /\
                 se_ev e = TETimerEnd (N.of_nat mi) /\ se_client e = ic /\
                 se_time e = (now + Z.of_N (peek_timers (s_timers (m_c st)) (s_timers (m_s st)) now))%Z).
    { destruct ic; cbv beta iota zeta in Hd; destruct Hd as (Hn & Ht & Ho & _ & _ & _ & _ & ->);
        cbn [se_time se_ev se_client side_of negb]; rewrite Ho; auto 8. }
    clear Hd. destruct Hx as (Hn & Ht & Ho & Eev & Ecl & Etime).
    assert (Hinv1 : SB.sq_inv (sq_push (m_sq st) e)).
    { apply SB.sq_push_inv; [exact Hinv|rewrite Eev; discriminate]. }
    assert (Hin1 : In e (qint (sq_push (m_sq st) e) ic)).
    { rewrite <- Ecl. apply (fold_push_in [e] (m_sq st) e (or_introl eq_refl)).
      unfold SB.route. rewrite Eev. reflexivity. }
    assert (Hle : (se_time e <= now + Z.of_N (peek_timers (s_timers (m_c st)) (s_timers (m_s st)) now))%Z) by lia.
    destruct (pick_pinned _ (mksim (sq_push (m_sq st) e) c' s' (m_net st) (m_pos st)) _ _ _ ic e
                Hinv1 (ih_push _ e Hih) Hin1 Hle H)
      as (Htn & Tc & Ts & Hk). cbn [m_sq m_c m_s] in Tc, Ts, Hk.
    right. exists ic, mi. rewrite Htn, <- Etime.
    split; [exact Hn|]. split; [destruct ic; cbn [side_of] in *; congruence|].
    split; [destruct ic; cbn [side_of negb] in *; congruence|].
    destruct Hk as [Hk|[Hev Hcl]]; [right; exists e; auto|left; split; congruence].
  - destruct H as (_ & c' & s' & e & Hd & H).
    pose proof (SB.do_scheduled_action_ev _ _ _ _ _ _ Hd) as Hev.
    assert (Hinv2 : SB.sq_inv (sq_push (m_sq st) e)).
    { apply SB.sq_push_inv; [exact Hinv|]. destruct Hev as [[m0 ->]|[m0 ->]]; discriminate. }
    pose proof (IH (mksim (sq_push (m_sq st) e) c' s' (m_net st) (m_pos st)) _ _ _
                   Hinv2 (ih_push _ e Hih) H) as Hs.
    eapply pick_shape_from; [| |exact Hs]; cbn [m_c m_s];
      apply do_scheduled_action_spec in Hd; destruct Hd as (ic & mi & a & Hd); cbv zeta in Hd;
      destruct ic; destruct Hd as (_ & _ & Ho & Ht & _); subst; auto.
Qed.

(** * 3. The relation between the replay and a timer slot *)
(** equal; or the timer has fired (slot cleared) and its TimerEnd is still to be reported at this instant;
    or an earlier TimerEnd of this instant was taken for the end of a zero-duration re-arm that is in fact
    still running *)
Definition R2 (now : Z) (cur s : option Z) : Prop := cur = Some now /\ s = None.
Definition R3 (now : Z) (cur s : option Z) : Prop := cur = None /\ s = Some now.

Lemma timer_step_rel : forall now mi a cur s,
  cur = s \/ R2 now cur s \/ R3 now cur s ->
  timer_step now mi cur a = timer_step now mi s a \/
  (R2 now (timer_step now mi cur a) (timer_step now mi s a) /\ R2 now cur s) \/
  (R3 now (timer_step now mi cur a) (timer_step now mi s a) /\ R3 now cur s).
Proof.
  intros now mi a cur s H. unfold timer_step.
  destruct (Nat.eqb (N.to_nat (taction_machine a)) mi).
  2:{ destruct H as [->|[H|H]]; auto. }
  destruct a as [m tm|m tmo by_ rp|m tmo dur by_ rp|m dur rp].
  - destruct tm; [destruct H as [->|[H|H]]; auto|left; reflexivity|left; reflexivity].
  - destruct H as [->|[H|H]]; auto.
  - destruct H as [->|[H|H]]; auto.
  - destruct H as [->|[[-> ->]|[-> ->]]]; [left; reflexivity| |]; left; unfold timer_sets.
    + rewrite orb_true_r. destruct rp; cbn [orb]; [reflexivity|].
      destruct (Z.ltb_spec now (now + Z.of_N dur)); [reflexivity|]. f_equal. lia.
    + rewrite orb_true_r. destruct rp; cbn [orb]; [reflexivity|].
      destruct (Z.ltb_spec now (now + Z.of_N dur)); [reflexivity|]. f_equal. lia.
Qed.

Lemma timer_after_rel : forall acts now mi cur s,
  cur = s \/ R2 now cur s \/ R3 now cur s ->
  timer_after acts now mi cur = timer_after acts now mi s \/
  (R2 now (timer_after acts now mi cur) (timer_after acts now mi s) /\ R2 now cur s) \/
  (R3 now (timer_after acts now mi cur) (timer_after acts now mi s) /\ R3 now cur s).
Proof.
  induction acts as [|a rest IH]; intros now mi cur s H.
  - unfold timer_after. cbn [fold_left]. destruct H as [H|[H|H]]; auto.
  - rewrite !timer_after_cons.
    destruct (timer_step_rel now mi a cur s H) as [E|[[A B]|[A B]]].
    + left. rewrite E. reflexivity.
    + destruct (IH now mi _ _ (or_intror (or_introl A))) as [E|[[C D]|[C D]]]; auto.
      exfalso. destruct A as [A1 A2], D as [D1 D2]. congruence.
    + destruct (IH now mi _ _ (or_intror (or_intror A))) as [E|[[C D]|[C D]]]; auto.
      exfalso. destruct A as [A1 A2], D as [D1 D2]. congruence.
Qed.

(** the relation across the event of a record (propositional core) *)
Lemma mid_core : forall (cur cur_mid s s1 : option Z) (now T : Z) (isTE Q Q1 ST ST1 : Prop),
  {isTE} + {~ isTE} ->
  (isTE -> cur_mid = match cur with Some e => if (e =? T)%Z then None else cur | None => None end) ->
  (~ isTE -> cur_mid = cur) ->
  cur = s \/ (R2 now cur s /\ Q) \/ (R3 now cur s /\ ST) ->
  s1 = s \/ (s = Some T /\ s1 = None /\ (isTE \/ Q1)) ->
  (Q -> T = now /\ (Q1 \/ isTE)) ->
  (s = Some now -> s1 = s -> T = now) ->
  (ST -> T = now -> ST1) -> (isTE -> ST1) ->
  cur_mid = s1 \/ (R2 T cur_mid s1 /\ Q1) \/ (R3 T cur_mid s1 /\ ST1).
Proof.
  intros cur cur_mid s s1 now T isTE Q Q1 ST ST1 Hdec Hte Hnte HJ Hsh HP1 HP3 Hst Hst2.
  unfold R2, R3 in *.
  destruct Hdec as [Hi|Hi].
  - rewrite (Hte Hi). clear Hte Hnte.
    destruct HJ as [->|[[[-> ->] HQ]|[[-> ->] HST]]].
    + destruct Hsh as [->|(-> & -> & _)].
      * destruct s as [e|]; [|left; reflexivity].
        destruct (Z.eqb_spec e T) as [->|Hne]; [|left; reflexivity].
        right. right. auto.
      * rewrite Z.eqb_refl. left. reflexivity.
    + destruct (HP1 HQ) as [-> _]. rewrite Z.eqb_refl.
      destruct Hsh as [->|(C & _)]; [left; reflexivity|discriminate C].
    + destruct Hsh as [E|(_ & -> & _)]; [|left; reflexivity].
      pose proof (HP3 eq_refl E) as ->. subst s1. right. right. auto.
  - rewrite (Hnte Hi). clear Hte Hnte.
    destruct HJ as [->|[[[-> ->] HQ]|[[-> ->] HST]]].
    + destruct Hsh as [->|(-> & -> & [C|HQ1])]; [left; reflexivity|contradiction|].
      right. left. auto.
    + destruct (HP1 HQ) as [-> [HQ1|C]]; [|contradiction].
      destruct Hsh as [->|(C & _)]; [|discriminate C]. right. left. auto.
    + destruct Hsh as [E|(_ & -> & _)]; [|left; reflexivity].
      pose proof (HP3 eq_refl E) as ->. subst s1. right. right. auto.
Qed.
