(** C18 converse for ALL runs on parsed traces: the attribution-aware replay.

    [SimTimerLive.v] shows that with the replay [treplay] (any reported TimerEnd of m clears the
    replayed timer) the converse statements fail when a side's blocking is bypassable: a timer can
    fire, another event of that instant be reported first and answered with an UpdateTimer, and the
    TimerEnd reported afterwards belongs to the PREVIOUS timer. Here the replay [treplay'] lets a
    reported TimerEnd at time t clear the replayed timer only if the replayed expiry is t. *)
From Coq Require Import List Arith Lia Permutation ZArith Bool.
From MB Require Import Base.Prelude Model.Framework Model.Sim Proofs.Tactics Proofs.SimHeap.
From MB Require Import Proofs.SimBasics Proofs.SimReach Proofs.SimHistory Proofs.SimTimers.
From MB Require Import Proofs.SimTimerTrace Proofs.SimTimerLive.
From MB Require Proofs.SimBlocking Proofs.SimIdentity Proofs.SimTrace.
Import ListNotations.
Open Scope N_scope.

(** * 1. The attribution-aware replay *)
(** a reported TimerEnd of [m] at instant [t] ends the replayed timer only if its expiry is [t] *)
Definition after_event' (ev : trigger_event) (m : N) (t : Z) (cur : option Z) : option Z :=
  match ev with
  | TETimerEnd m' =>
      if (m' =? m) && (match cur with Some e => (e =? t)%Z | None => false end) then None else cur
  | _ => cur
  end.
Definition trec_step' (X : bool) (m : N) (cur : option Z) (r : hrec) : option Z :=
  if Bool.eqb (se_client (h_ev r)) X then
    timer_after (h_acts r) (se_time (h_ev r)) (N.to_nat m)
      (after_event' (se_ev (h_ev r)) m (se_time (h_ev r)) cur)
  else cur.
Definition trp' (X : bool) (m : N) (L : list hrec) : option Z := fold_left (trec_step' X m) L None.
Definition treplay' (X : bool) (m : N) (H : list hrec) (k : nat) : option Z := trp' X m (firstn k H).

(** on the counterexample runs of SimTimerLive.v the new replay follows the model *)
Example lvA_replay' :
  treplay' true 3 lvA_H 10 = Some 5010000%Z /\ treplay' true 3 lvA_H 11 = Some 9010000%Z /\
  treplay' true 3 lvA_H 13 = Some 9010000%Z /\ treplay' true 3 lvA_H 14 = Some 9010000%Z /\
  treplay' true 3 lvA_H 15 = None /\ treplay' true 3 lvC_H 13 = Some 9010000%Z /\
  treplay' true 3 lvC_H 14 = None.
Proof. repeat split; vm_compute; reflexivity. Qed.

Lemma trp'_snoc : forall X m L r, trp' X m (L ++ [r]) = trec_step' X m (trp' X m L) r.
Proof. intros. unfold trp'. rewrite fold_left_app. reflexivity. Qed.

Lemma treplay'_app : forall X m L L2 k, (k <= length L)%nat -> treplay' X m (L ++ L2) k = treplay' X m L k.
Proof.
  intros X m L L2 k Hk. unfold treplay'. rewrite firstn_app.
  replace (k - length L)%nat with 0%nat by lia. cbn [firstn]. rewrite app_nil_r. reflexivity.
Qed.

Lemma treplay'_full : forall X m L, treplay' X m L (length L) = trp' X m L.
Proof. intros. unfold treplay'. rewrite firstn_all. reflexivity. Qed.

Lemma treplay'_S : forall X m H k r, nth_error H k = Some r ->
  treplay' X m H (S k) = trec_step' X m (treplay' X m H k) r.
Proof. intros X m H k r Hn. unfold treplay'. rewrite (firstn_S_nth _ _ _ Hn). apply trp'_snoc. Qed.

(** * 2. [pick_next] in general: at most one timer fires per call, and only when nothing queued is due *)
Lemma pick_pinned : forall fuel st now next st' ic e,
  SB.sq_inv (m_sq st) -> ih (m_sq st) -> In e (qint (m_sq st) ic) -> (se_time e <= now)%Z ->
  pick_next fuel st now = Ok (Some next, st') ->
  se_time next = now /\
  s_timers (m_c st') = s_timers (m_c st) /\ s_timers (m_s st') = s_timers (m_s st) /\
  (In e (qint (m_sq st') ic) \/ (se_ev next = se_ev e /\ se_client next = ic)).
Proof.
  induction fuel as [|fuel IH]; intros st now next st' ic e Hinv Hih He Ht H; [discriminate H|].
  apply pn_cases in H. destruct H as (b & bic & q & which & qic & Hq & H). cbv zeta in Hq.
  assert (Hz : q = 0).
  { pose proof (peek_queue_zero (m_sq st) (m_c st) (m_s st) (n_cagg (m_net st)) (n_sagg (m_net st))
                  (N.min (N.min (N.min (peek_sched (s_sched (m_c st)) (s_sched (m_s st)) now)
                                       (peek_timers (s_timers (m_c st)) (s_timers (m_s st)) now)) b)
                         (net_peek_agg (m_net st) now)) now ic e Hih He Ht) as Z0.
    rewrite Hq in Z0. exact Z0. }
  subst q. unfold pn_alt in H.
  destruct H as [(Hr & _)|[H|[H|[H|[H|H]]]]].
  - discriminate Hr.
  - eapply IH in H; [exact H|exact Hinv|exact Hih|exact He|exact Ht].
  - destruct H as (Hbq & Hr & c' & s' & net' & -> & Tc & Ts). injection Hr as ->. cbn [se_time m_sq m_c m_s].
    split; [lia|]. split; [exact Tc|]. split; [exact Ts|left; exact He].
  - destruct H as (tmp & sq' & Hp & Hr & ->). injection Hr as ->. cbn [m_sq m_c m_s].
    change (Z.of_N 0) with 0%Z.
    destruct (retime_ev tmp (now + 0)%Z) as (Rev & Rcl & Rt). cbv zeta in Rev, Rcl, Rt.
    pose proof (peek_pop_consistent _ _ _ _ _ _ _ _ _ _ _ _
                  (SimTrace.sq_inv_wf _ Hinv) Hq DMAX_pos Hp) as Hle.
    change (Z.of_N 0) with 0%Z in Hle.
    split; [rewrite Rt; lia|]. split; [reflexivity|]. split; [reflexivity|].
    destruct (pop_keep _ _ _ _ _ _ ic e Hp He) as [Hk | ->]; [left; exact Hk|right].
    rewrite Rev, Rcl. split; [reflexivity|].
    rewrite qint_evq in He. pose proof (proj1 Hinv) as Hwf. rewrite SB.wf_simq_iff in Hwf.
    specialize (Hwf ic). rewrite SB.wf_evq_iff in Hwf. exact (proj1 (Hwf QInternal e He)).
  - destruct H as (Hn & _). exfalso. apply Hn. split; apply N.le_0_l.
  - destruct H as (Hn & _). exfalso. apply Hn. split; apply N.le_0_l.
Qed.

(** the shape of one call: the timers are untouched, or exactly one timer (side [ic], slot [mi]) fired at
    the instant of the returned event, and its TimerEnd is the returned event or is queued *)
Definition pick_shape (st st' : sim) (next : sev) : Prop :=
  (s_timers (m_c st') = s_timers (m_c st) /\ s_timers (m_s st') = s_timers (m_s st)) \/
  (exists ic mi,
     nth_error (s_timers (side_of st ic)) mi = Some (Some (se_time next)) /\
     s_timers (side_of st' ic) = upd (s_timers (side_of st ic)) mi None /\
     s_timers (side_of st' (negb ic)) = s_timers (side_of st (negb ic)) /\
     ((se_ev next = TETimerEnd (N.of_nat mi) /\ se_client next = ic) \/
      exists x, In x (qint (m_sq st') ic) /\ se_ev x = TETimerEnd (N.of_nat mi))).

Lemma pick_shape_from : forall st2 st st' next,
  s_timers (m_c st2) = s_timers (m_c st) -> s_timers (m_s st2) = s_timers (m_s st) ->
  pick_shape st2 st' next -> pick_shape st st' next.
Proof.
  intros st2 st st' next Ec Es [(A & B)|(ic & mi & A & B & C & D)].
  - left. split; congruence.
  - right. exists ic, mi. destruct ic; cbn [side_of negb] in *; rewrite <- ?Ec, <- ?Es; auto.
Qed.

Lemma pick_next_shape : forall fuel st now next st',
  SB.sq_inv (m_sq st) -> ih (m_sq st) ->
  pick_next fuel st now = Ok (Some next, st') -> pick_shape st st' next.
Proof.
  induction fuel as [|fuel IH]; intros st now next st' Hinv Hih H; [discriminate H|].
  apply pn_cases in H. destruct H as (b & bic & q & which & qic & Hq & H). cbv zeta in Hq.
  unfold pn_alt in H.
  destruct H as [(Hr & _)|[H|[H|[H|[H|H]]]]].
  - discriminate Hr.
  - eapply IH in H; [exact H|exact Hinv|exact Hih].
  - destruct H as (_ & _ & c' & s' & net' & -> & Tc & Ts). left. cbn [m_c m_s]. auto.
  - destruct H as (tmp & sq' & _ & _ & ->). left. cbn [m_c m_s]. auto.
  - destruct H as (_ & c' & s' & e & Hd & H).
    apply do_internal_timer_spec in Hd. destruct Hd as (ic & mi & Hd).
    assert (Hx : nth_error (s_timers (side_of st ic)) mi = Some (Some (se_time e)) /\
                 s_timers (if ic then c' else s') = upd (s_timers (side_of st ic)) mi None /\
                 s_timers (if ic then s' else c') = s_timers (side_of st (negb ic)) /\
                 se_ev e = TETimerEnd (N.of_nat mi) /\ se_client e = ic /\
                 se_time e = (now + Z.of_N (peek_timers (s_timers (m_c st)) (s_timers (m_s st)) now))%Z).
    { destruct ic; cbv beta iota zeta in Hd; destruct Hd as (Hn & Ht & Ho & _ & _ & _ & _ & ->);
        cbn [se_time se_ev se_client side_of negb]; rewrite Ho; auto 8. }
    clear Hd. destruct Hx as (Hn & Ht & Ho & Eev & Ecl & Etime).
    assert (Hinv1 : SB.sq_inv (sq_push (m_sq st) e)).
    { apply SB.sq_push_inv; [exact Hinv|rewrite Eev; discriminate]. }
    assert (Hin1 : In e (qint (sq_push (m_sq st) e) ic)).
    { rewrite <- Ecl. apply (fold_push_in [e] (m_sq st) e (or_introl eq_refl)).
      unfold SB.route. rewrite Eev. reflexivity. }
    assert (Hle : (se_time e <= now + Z.of_N (peek_timers (s_timers (m_c st)) (s_timers (m_s st)) now))%Z) by lia.
    destruct (pick_pinned _ (mksim (sq_push (m_sq st) e) c' s' (m_net st) (m_pos st)) _ _ _ ic e
                Hinv1 (ih_push _ e Hih) Hin1 Hle H)
      as (Htn & Tc & Ts & Hk). cbn [m_sq m_c m_s] in Tc, Ts, Hk.
    right. exists ic, mi. rewrite Htn, <- Etime.
    split; [exact Hn|]. split; [destruct ic; cbn [side_of] in *; congruence|].
    split; [destruct ic; cbn [side_of negb] in *; congruence|].
    destruct Hk as [Hk|[Hev Hcl]]; [right; exists e; auto|left; split; congruence].
  - destruct H as (_ & c' & s' & e & Hd & H).
    pose proof (SB.do_scheduled_action_ev _ _ _ _ _ _ Hd) as Hev.
    assert (Hinv2 : SB.sq_inv (sq_push (m_sq st) e)).
    { apply SB.sq_push_inv; [exact Hinv|]. destruct Hev as [[m0 ->]|[m0 ->]]; discriminate. }
    pose proof (IH (mksim (sq_push (m_sq st) e) c' s' (m_net st) (m_pos st)) _ _ _
                   Hinv2 (ih_push _ e Hih) H) as Hs.
    eapply pick_shape_from; [| |exact Hs]; cbn [m_c m_s];
      apply do_scheduled_action_spec in Hd; destruct Hd as (ic & mi & a & Hd); cbv zeta in Hd;
      destruct ic; destruct Hd as (_ & _ & Ho & Ht & _); subst; auto.
Qed.

(** * 3. The relation between the replay and a timer slot *)
(** equal; or the timer has fired (slot cleared) and its TimerEnd is still to be reported at this instant;
    or an earlier TimerEnd of this instant was taken for the end of a zero-duration re-arm that is in fact
    still running *)
Definition R2 (now : Z) (cur s : option Z) : Prop := cur = Some now /\ s = None.
Definition R3 (now : Z) (cur s : option Z) : Prop := cur = None /\ s = Some now.

Lemma timer_step_rel : forall now mi a cur s,
  cur = s \/ R2 now cur s \/ R3 now cur s ->
  timer_step now mi cur a = timer_step now mi s a \/
  (R2 now (timer_step now mi cur a) (timer_step now mi s a) /\ R2 now cur s) \/
  (R3 now (timer_step now mi cur a) (timer_step now mi s a) /\ R3 now cur s).
Proof.
  intros now mi a cur s H. unfold timer_step.
  destruct (Nat.eqb (N.to_nat (taction_machine a)) mi).
  2:{ destruct H as [->|[H|H]]; auto. }
  destruct a as [m tm|m tmo by_ rp|m tmo dur by_ rp|m dur rp].
  - destruct tm; [destruct H as [->|[H|H]]; auto|left; reflexivity|left; reflexivity].
  - destruct H as [->|[H|H]]; auto.
  - destruct H as [->|[H|H]]; auto.
  - destruct H as [->|[[-> ->]|[-> ->]]]; [left; reflexivity| |]; left; unfold timer_sets.
    + rewrite orb_true_r. destruct rp; cbn [orb]; [reflexivity|].
      destruct (Z.ltb_spec now (now + Z.of_N dur)); [reflexivity|]. f_equal. lia.
    + rewrite orb_true_r. destruct rp; cbn [orb]; [reflexivity|].
      destruct (Z.ltb_spec now (now + Z.of_N dur)); [reflexivity|]. f_equal. lia.
Qed.

Lemma timer_after_rel : forall acts now mi cur s,
  cur = s \/ R2 now cur s \/ R3 now cur s ->
  timer_after acts now mi cur = timer_after acts now mi s \/
  (R2 now (timer_after acts now mi cur) (timer_after acts now mi s) /\ R2 now cur s) \/
  (R3 now (timer_after acts now mi cur) (timer_after acts now mi s) /\ R3 now cur s).
Proof.
  induction acts as [|a rest IH]; intros now mi cur s H.
  - unfold timer_after. cbn [fold_left]. destruct H as [H|[H|H]]; auto.
  - rewrite !timer_after_cons.
    destruct (timer_step_rel now mi a cur s H) as [E|[[A B]|[A B]]].
    + left. rewrite E. reflexivity.
    + destruct (IH now mi _ _ (or_intror (or_introl A))) as [E|[[C D]|[C D]]]; auto.
      exfalso. destruct A as [A1 A2], D as [D1 D2]. congruence.
    + destruct (IH now mi _ _ (or_intror (or_intror A))) as [E|[[C D]|[C D]]]; auto.
      exfalso. destruct A as [A1 A2], D as [D1 D2]. congruence.
Qed.

(** the relation across the event of a record (propositional core) *)
Lemma mid_core : forall (cur cur_mid s s1 : option Z) (now T : Z) (isTE Q Q1 ST : Prop),
  {isTE} + {~ isTE} ->
  (isTE -> cur_mid = match cur with Some e => if (e =? T)%Z then None else cur | None => None end) ->
  (~ isTE -> cur_mid = cur) ->
  cur = s \/ (R2 now cur s /\ Q) \/ (R3 now cur s /\ ST) ->
  s1 = s \/ (s = Some T /\ s1 = None /\ (isTE \/ Q1)) ->
  (Q -> T = now /\ (Q1 \/ isTE)) ->
  (s = Some now -> s1 = s -> T = now) ->
  cur_mid = s1 \/ (R2 T cur_mid s1 /\ Q1) \/
  (R3 T cur_mid s1 /\ ((ST /\ T = now /\ cur = None) \/ (isTE /\ cur = Some T))).
Proof.
  intros cur cur_mid s s1 now T isTE Q Q1 ST Hdec Hte Hnte HJ Hsh HP1 HP3.
  unfold R2, R3 in *.
  destruct Hdec as [Hi|Hi].
  - rewrite (Hte Hi). clear Hte Hnte.
    destruct HJ as [->|[[[-> ->] HQ]|[[-> ->] HST]]].
    + destruct Hsh as [->|(-> & -> & _)].
      * destruct s as [e|]; [|left; reflexivity].
        destruct (Z.eqb_spec e T) as [->|Hne]; [|left; reflexivity].
        right. right. auto.
      * rewrite Z.eqb_refl. left. reflexivity.
    + destruct (HP1 HQ) as [-> _]. rewrite Z.eqb_refl.
      destruct Hsh as [->|(C & _)]; [left; reflexivity|discriminate C].
    + destruct Hsh as [E|(_ & -> & _)]; [|left; reflexivity].
      pose proof (HP3 eq_refl E) as ->. subst s1. right. right. auto.
  - rewrite (Hnte Hi). clear Hte Hnte.
    destruct HJ as [->|[[[-> ->] HQ]|[[-> ->] HST]]].
    + destruct Hsh as [->|(-> & -> & [C|HQ1])]; [left; reflexivity|contradiction|].
      right. left. auto.
    + destruct (HP1 HQ) as [-> [HQ1|C]]; [|contradiction].
      destruct Hsh as [->|(C & _)]; [|discriminate C]. right. left. auto.
    + destruct Hsh as [E|(_ & -> & _)]; [|left; reflexivity].
      pose proof (HP3 eq_refl E) as ->. subst s1. right. right. auto.
Qed.

(** * 4. The loop invariant *)
Definition te_at (r : hrec) (X : bool) (m : N) (t : Z) : Prop :=
  se_ev (h_ev r) = TETimerEnd m /\ se_client (h_ev r) = X /\ se_time (h_ev r) = t.
(** a TimerEnd of [m] on side [X] at instant [t] among the records before [j] *)
Definition stale_before (L : list hrec) (j : nat) (X : bool) (m : N) (t : Z) : Prop :=
  exists i ri, (i < j)%nat /\ nth_error L i = Some ri /\ te_at ri X m t.
Definition queued_end (sq : simq) (X : bool) (m : N) : Prop :=
  exists e, In e (qint sq X) /\ se_ev e = TETimerEnd m.

Definition JR (L : list hrec) (now : Z) (st : sim) : Prop :=
  forall X m,
    trp' X m L = slotv (s_timers (side_of st X)) m \/
    (R2 now (trp' X m L) (slotv (s_timers (side_of st X)) m) /\ queued_end (m_sq st) X m) \/
    (R3 now (trp' X m L) (slotv (s_timers (side_of st X)) m) /\ stale_before L (length L) X m now).

Lemma stale_before_app : forall L L2 j X m t, (j <= length L)%nat ->
  (stale_before (L ++ L2) j X m t <-> stale_before L j X m t).
Proof.
  intros L L2 j X m t Hj. split; intros (i & ri & Hi & Hn & Ht); exists i, ri; (split; [exact Hi|]);
    (split; [|exact Ht]).
  - rewrite nth_error_app1 in Hn by lia. exact Hn.
  - rewrite nth_error_app1 by lia. exact Hn.
Qed.

Lemma stale_before_mono : forall L j j' X m t, (j <= j')%nat -> stale_before L j X m t -> stale_before L j' X m t.
Proof. intros L j j' X m t Hj (i & ri & Hi & H). exists i, ri. split; [lia|exact H]. Qed.

Lemma after_event'_te : forall m T cur,
  after_event' (TETimerEnd m) m T cur = match cur with Some e => if (e =? T)%Z then None else cur | None => None end.
Proof. intros m T cur. cbn [after_event']. rewrite N.eqb_refl. destruct cur as [e|]; [|reflexivity]. cbn [andb]. reflexivity. Qed.

Lemma after_event'_other : forall ev m T cur, ev <> TETimerEnd m -> after_event' ev m T cur = cur.
Proof.
  intros ev m T cur H. destruct ev; try reflexivity. cbn [after_event'].
  destruct (N.eqb_spec m0 m) as [->|_]; [exfalso; apply H; reflexivity|reflexivity].
Qed.

(** what the shape of a call means for one slot *)
Lemma shape_entry : forall st st1 next X m,
  pick_shape st st1 next ->
  slotv (s_timers (side_of st1 X)) m = slotv (s_timers (side_of st X)) m \/
  (slotv (s_timers (side_of st X)) m = Some (se_time next) /\ slotv (s_timers (side_of st1 X)) m = None /\
   ((se_ev next = TETimerEnd m /\ se_client next = X) \/ queued_end (m_sq st1) X m)).
Proof.
  intros st st1 next X m [(A & B)|(ic & mi & Hn & Hu & Ho & Hq)].
  - left. destruct X; cbn [side_of]; congruence.
  - destruct (bool_dec X ic) as [->|Hne].
    + assert (Hlt : (mi < length (s_timers (side_of st ic)))%nat) by (apply nth_error_Some; congruence).
      rewrite Hu, (slotv_upd _ _ _ _ Hlt).
      destruct (N.eqb_spec (N.of_nat mi) m) as [<-|Hm]; [|left; reflexivity].
      right. split; [apply slotv_some; rewrite Nat2N.id; exact Hn|]. split; [reflexivity|].
      destruct Hq as [Hq|(x & Hx & Hev)]; [left; exact Hq|right; exists x; auto].
    + apply neq_negb in Hne. subst X. left. rewrite Ho. reflexivity.
Qed.

(** the replay of one side/machine across the event of the new record *)
Definition cur_mid (L : list hrec) (next : sev) (X : bool) (m : N) : option Z :=
  if Bool.eqb (se_client next) X then after_event' (se_ev next) m (se_time next) (trp' X m L)
  else trp' X m L.

Lemma pick_mid : forall L fuel st now next st1,
  QOK L now (m_sq st) -> SL L st -> TGE now st -> JR L now st ->
  pick_next fuel st now = Ok (Some next, st1) ->
  QOK L (se_time next) (m_sq st1) /\ SL L st1 /\ (now <= se_time next)%Z /\ TGE (se_time next) st1 /\
  (forall X m,
     cur_mid L next X m = slotv (s_timers (side_of st1 X)) m \/
     (R2 (se_time next) (cur_mid L next X m) (slotv (s_timers (side_of st1 X)) m) /\
      queued_end (m_sq st1) X m) \/
     (R3 (se_time next) (cur_mid L next X m) (slotv (s_timers (side_of st1 X)) m) /\
      ((stale_before L (length L) X m (se_time next) /\ se_time next = now /\ trp' X m L = None) \/
       ((se_ev next = TETimerEnd m /\ se_client next = X) /\ trp' X m L = Some (se_time next))))) /\
  (forall X m e, trp' X m L = Some e -> (se_time next <= e)%Z).
Proof.
  intros L fuel st now next st1 HQ HS Hge HJ H.
  destruct (pick_next_tinv _ _ _ _ _ _ HQ HS H) as (HQ1 & HS1 & _).
  pose proof (pick_next_time _ _ _ _ _ H) as Htime.
  pose proof (pick_next_not_past_wf _ _ _ _ _ (SimTrace.sq_inv_wf _ (proj1 HQ)) H) as Hnp.
  pose proof (pick_next_slots _ _ _ _ _ H) as (_ & _ & Sc & Ss).
  pose proof (pick_next_shape _ _ _ _ _ (proj1 HQ) (proj1 (proj2 HQ)) H) as Hshape.
  assert (Hsub : forall ic mi t, nth_error (s_timers (side_of st1 ic)) mi = Some (Some t) ->
                                 nth_error (s_timers (side_of st ic)) mi = Some (Some t)).
  { intros [|] mi t Hn; cbn [side_of] in *; auto. }
  assert (Hge1 : TGE (se_time next) st1).
  { intros ic mi t Hn. apply Hnp; [eapply in_pending_timer; exact Hn|]. eapply Hge. apply Hsub. exact Hn. }
  (* a queued TimerEnd pins the time and stays queued unless it is the event returned *)
  assert (HP1 : forall X m, queued_end (m_sq st) X m ->
                  se_time next = now /\
                  (queued_end (m_sq st1) X m \/ (se_ev next = TETimerEnd m /\ se_client next = X))).
  { intros X m (e & He & Hev).
    destruct (proj2 (proj2 HQ) X e He) as [_ Hte]. destruct (Hte m Hev) as [Hnow _].
    assert (Hle : (se_time e <= now)%Z) by lia.
    destruct (pick_pinned fuel st now next st1 X e (proj1 HQ) (proj1 (proj2 HQ)) He Hle H) as (Ht & _ & _ & Hk).
    split; [exact Ht|]. destruct Hk as [Hk|[A B]]; [left; exists e; auto|right; split; congruence]. }
  (* a timer due now that is still running pins the time *)
  assert (HP3 : forall X m, slotv (s_timers (side_of st X)) m = Some now ->
                  slotv (s_timers (side_of st1 X)) m = slotv (s_timers (side_of st X)) m -> se_time next = now).
  { intros X m Hs E. rewrite Hs in E. apply slotv_some in E.
    pose proof (Hnp now (in_pending_timer _ _ _ _ E) ltac:(lia)). lia. }
  split; [exact HQ1|]. split; [exact HS1|]. split; [exact Htime|]. split; [exact Hge1|]. split.
  - intros X m. unfold cur_mid.
    assert (Hdec : {se_ev next = TETimerEnd m /\ se_client next = X} + {~ (se_ev next = TETimerEnd m /\ se_client next = X)}).
    { destruct (te_dec (se_ev next) m) as [A|A]; [|right; tauto].
      destruct (bool_dec (se_client next) X) as [B|B]; [left; auto|right; tauto]. }
    assert (Hcore := mid_core (trp' X m L)
              (if Bool.eqb (se_client next) X then after_event' (se_ev next) m (se_time next) (trp' X m L)
               else trp' X m L)
              (slotv (s_timers (side_of st X)) m) (slotv (s_timers (side_of st1 X)) m)
              now (se_time next) (se_ev next = TETimerEnd m /\ se_client next = X)
              (queued_end (m_sq st) X m) (queued_end (m_sq st1) X m) (stale_before L (length L) X m now) Hdec).
    destruct Hcore as [A|[A|[A [(B1 & B2 & B3)|B]]]].
    + intros [A B]. rewrite B, Bool.eqb_reflx, A. apply after_event'_te.
    + intros Hn. destruct (Bool.eqb (se_client next) X) eqn:E; [|reflexivity].
      apply Bool.eqb_prop in E. apply after_event'_other. intros C. apply Hn. auto.
    + exact (HJ X m).
    + destruct (shape_entry st st1 next X m Hshape) as [A|(A & B & [C|C])]; auto.
    + intros Hq. destruct (HP1 X m Hq) as [A [B|B]]; auto.
    + apply HP3.
    + left. exact A.
    + right. left. exact A.
    + right. right. split; [exact A|]. left. rewrite B2. auto.
    + right. right. split; [exact A|]. right. exact B.
  - intros X m e He. destruct (HJ X m) as [E|[[[A B] Hq]|[[A B] _]]].
    + rewrite He in E. symmetry in E.
      destruct (shape_entry st st1 next X m Hshape) as [S1|(S1 & _)].
      * rewrite E in S1. apply slotv_some in S1. apply (Hge1 X _ _ S1).
      * rewrite E in S1. injection S1 as <-. lia.
    + rewrite He in A. injection A as ->. destruct (HP1 X m Hq) as [-> _]. lia.
    + rewrite He in A. discriminate A.
Qed.

(** * 5. TimerBegin obligations *)
(** an UpdateTimer (dur, rp) at instant [t] sets or changes a timer whose replay is [cur]; when the replay
    has no timer running and the duration is zero we ask in addition that no TimerEnd of that machine and
    side was reported at this same instant before ([stale]): see the comment at [timers_live_gen] *)
Definition sets_cond' (rp : bool) (cur : option Z) (stale : Prop) (t : Z) (dur : N) : Prop :=
  rp = true \/ (cur = None /\ (0 < dur \/ ~ stale)) \/ (exists u, cur = Some u /\ (u < t + Z.of_N dur)%Z).

Definition owed' (L : list hrec) (j : nat) (X : bool) (m : N) (t : Z) : Prop :=
  exists rj dur rp, nth_error L j = Some rj /\ se_client (h_ev rj) = X /\ se_time (h_ev rj) = t /\
    In (TUpdateTimer m dur rp) (h_acts rj) /\
    (sets_cond' rp (treplay' X m L j) (stale_before L j X m t) t dur \/
     sets_cond' rp (after_event' (se_ev (h_ev rj)) m t (treplay' X m L j)) (stale_before L (S j) X m t) t dur).

Definition BEG' (L : list hrec) (now : Z) (sq : simq) : Prop :=
  forall j X m t, owed' L j X m t ->
    (exists k, (j < k)%nat /\ begin_at L k X m t) \/
    (t = now /\ exists e, In e (qint sq X) /\ se_ev e = TETimerBegin m).
Definition GoodA' (L : list hrec) : Prop :=
  forall j X m t k' rk', owed' L j X m t -> (j < k')%nat -> nth_error L k' = Some rk' ->
    (t < se_time (h_ev rk'))%Z -> exists k, (j < k < k')%nat /\ begin_at L k X m t.
Definition RecB' (L : list hrec) : Prop :=
  forall i ri, nth_error L i = Some ri ->
    forall X m e, treplay' X m L i = Some e -> (se_time (h_ev ri) <= e)%Z.

Lemma sets_cond'_iff : forall rp cur s1 s2 t dur, (s1 <-> s2) ->
  sets_cond' rp cur s1 t dur -> sets_cond' rp cur s2 t dur.
Proof. intros rp cur s1 s2 t dur E [A|[[A B]|A]]; unfold sets_cond'; [auto| |auto]. right. left. tauto. Qed.

Lemma owed'_app : forall L L2 j X m t, owed' L j X m t -> owed' (L ++ L2) j X m t.
Proof.
  intros L L2 j X m t (rj & dur & rp & Hn & Hc & Ht & Hi & Hs).
  pose proof (nth_lt _ _ _ Hn) as Hlt.
  exists rj, dur, rp. split; [apply nth_app_l; exact Hn|]. split; [exact Hc|]. split; [exact Ht|].
  split; [exact Hi|]. rewrite treplay'_app by lia.
  destruct Hs as [Hs|Hs]; [left|right]; (eapply sets_cond'_iff; [|exact Hs]); symmetry;
    apply stale_before_app; lia.
Qed.

Lemma owed'_snoc_inv : forall L r j X m t, owed' (L ++ [r]) j X m t ->
  owed' L j X m t \/
  (j = length L /\ se_client (h_ev r) = X /\ se_time (h_ev r) = t /\
   exists dur rp, In (TUpdateTimer m dur rp) (h_acts r) /\
     (sets_cond' rp (trp' X m L) (stale_before L (length L) X m t) t dur \/
      sets_cond' rp (after_event' (se_ev (h_ev r)) m t (trp' X m L))
                 (stale_before L (length L) X m t \/ te_at r X m t) t dur)).
Proof.
  intros L r j X m t (rj & dur & rp & Hn & Hc & Ht & Hi & Hs).
  apply nth_snoc in Hn. destruct Hn as [Hn|[-> ->]].
  - left. pose proof (nth_lt _ _ _ Hn) as Hlt. exists rj, dur, rp. rewrite treplay'_app in Hs by lia.
    split; [exact Hn|]. split; [exact Hc|]. split; [exact Ht|]. split; [exact Hi|].
    destruct Hs as [Hs|Hs]; [left|right]; (eapply sets_cond'_iff; [|exact Hs]); apply stale_before_app; lia.
  - right. rewrite treplay'_app, treplay'_full in Hs by lia. split; [reflexivity|].
    split; [exact Hc|]. split; [exact Ht|]. exists dur, rp. split; [exact Hi|].
    destruct Hs as [Hs|Hs]; [left|right]; (eapply sets_cond'_iff; [|exact Hs]).
    + apply stale_before_app. lia.
    + split.
      * intros (i & ri & Hi' & Hn' & Hte). apply nth_snoc in Hn'. destruct Hn' as [Hn'|[-> ->]].
        -- left. exists i, ri. split; [eapply nth_lt; exact Hn'|]. auto.
        -- right. exact Hte.
      * intros [(i & ri & Hi' & Hn' & Hte)|Hte].
        -- exists i, ri. split; [lia|]. split; [apply nth_app_l; exact Hn'|exact Hte].
        -- exists (length L), r. split; [lia|]. split; [|exact Hte].
           rewrite nth_error_app2 by lia. rewrite Nat.sub_diag. reflexivity.
Qed.

Lemma after_event'_cases : forall ev m T cur,
  after_event' ev m T cur = cur \/ (cur = Some T /\ after_event' ev m T cur = None).
Proof.
  intros ev m T cur. destruct ev; try (left; reflexivity). cbn [after_event'].
  destruct (m0 =? m); cbn [andb]; [|left; reflexivity].
  destruct cur as [e|]; [|left; reflexivity].
  destruct (Z.eqb_spec e T) as [->|_]; [right; auto|left; reflexivity].
Qed.

(** under the relation at the middle of a record, the conditions above make the MODEL set the timer *)
Lemma model_sets : forall (cur cm s1 : option Z) (T : Z) (dur : N) (rp : bool) (SBp isTE Q1 : Prop),
  cm = cur \/ (cur = Some T /\ cm = None) ->
  cm = s1 \/ (R2 T cm s1 /\ Q1) \/ (R3 T cm s1 /\ ((SBp /\ cur = None) \/ (isTE /\ cur = Some T))) ->
  sets_cond' rp cur SBp T dur \/ sets_cond' rp cm (SBp \/ isTE) T dur ->
  timer_sets T s1 dur rp = true.
Proof.
  intros cur cm s1 T dur rp SBp isTE Q1 Hcm Hmid Hc. unfold timer_sets, R2, R3 in *.
  destruct rp; [reflexivity|]. cbn [orb].
  assert (Hgoal : s1 = None \/ (exists u, s1 = Some u /\ (u < T + Z.of_N dur)%Z) ->
                  match s1 with Some t0 => (t0 <? T + Z.of_N dur)%Z | None => true end = true).
  { intros [->|(u & -> & Hu)]; [reflexivity|apply Z.ltb_lt; exact Hu]. }
  apply Hgoal. clear Hgoal.
  destruct Hc as [[C|[[C1 C2]|(u & C1 & C2)]]|[C|[[C1 C2]|(u & C1 & C2)]]]; try discriminate C.
  - (* the replay before the record has no timer *)
    assert (cm = None) by (destruct Hcm as [->|[A _]]; congruence). subst cm.
    destruct Hmid as [<-|[[[A _] _]|[[_ ->] [[B1 _]|[_ B]]]]]; [auto|discriminate A| |congruence].
    destruct C2 as [C2|C2]; [|contradiction]. right. exists T. split; [reflexivity|lia].
  - destruct Hcm as [->|[A ->]].
    + destruct Hmid as [<-|[[[_ ->] _]|[[A _] _]]]; [right; eauto|auto|congruence].
    + rewrite C1 in A. injection A as ->.
      destruct Hmid as [<-|[[[A _] _]|[[_ ->] _]]]; [auto|discriminate A|]. right. exists T. split; [reflexivity|lia].
  - destruct Hmid as [<-|[[[A _] _]|[[_ ->] [[B1 _]|[B1 _]]]]]; [auto|congruence| |].
    + destruct C2 as [C2|C2]; [|tauto]. right. exists T. split; [reflexivity|lia].
    + destruct C2 as [C2|C2]; [|tauto]. right. exists T. split; [reflexivity|lia].
  - destruct Hmid as [<-|[[[_ ->] _]|[[A _] _]]]; [right; eauto|auto|congruence].
Qed.

(** ** the network stack keeps every event of the internal heaps *)
Lemma network_stack_keep2 : forall next sq bb net nowt sq' net' act ic e,
  SB.wf_simq sq -> In e (qint sq ic) ->
  sim_network_stack next sq bb net nowt = Ok (sq', net', act) -> In e (qint sq' ic).
Proof.
  intros next sq bb net nowt sq' net' act ic e Hwf He H.
  assert (Hnt : se_ev e <> TETunnelSent).
  { rewrite qint_evq in He. pose proof Hwf as Hw. rewrite SB.wf_simq_iff in Hw. specialize (Hw ic).
    rewrite SB.wf_evq_iff in Hw. destruct (Hw QInternal e He) as [_ [A _]]. exact A. }
  unfold sim_network_stack in H.
  destruct (se_ev next) eqn:Eev; try (injection H as <- _ _; exact He).
  - destruct (se_pad next); injection H as <- _ _; apply qint_push_keep; exact He.
  - injection H as <- _ _. apply qint_push_keep; exact He.
  - destruct (se_replace next); [|injection H as <- _ _; apply qint_push_keep; exact He].
    destruct (sq_peek_blocking sq bb (se_client next)) as [[queued|] which] eqn:Epk;
      [|injection H as <- _ _; apply qint_push_keep; exact He].
    destruct (Bool.eqb (se_client queued) (se_client next) && is_tunnel_sent (se_ev queued)
              && negb (se_pad queued)); [|injection H as <- _ _; apply qint_push_keep; exact He].
    destruct (negb (se_bypass next)); [injection H as <- _ _; exact He|].
    destruct (sq_pop_blocking sq which bb (se_client next)
                (if se_client next then n_cagg net else n_sagg net)) as [[entry sq1]|] eqn:Epop;
      [|discriminate].
    injection H as <- _ _. apply qint_push_keep.
    apply sq_peek_blocking_qid in Epk.
    assert (Hp : exists w d, (w = QBlocking \/ w = QBypassable) /\ sq_pop sq w (se_client next) d = Some (entry, sq1)).
    { unfold sq_pop_blocking in Epop. destruct bb; eauto. }
    destruct Hp as (w & d & Hw & Hp).
    destruct (pop_keep _ _ _ _ _ _ ic e Hp He) as [Hk|Hk]; [exact Hk|]. exfalso. subst entry.
    pose proof (SB.sq_pop_ok _ _ _ _ _ _ Hwf Hp) as [_ Hk].
    destruct Hw as [-> | ->]; destruct Hk as [Hk _]; congruence.
  - destruct (net_sample net nowt (se_client next)) as [[net1 nd] baseline].
    destruct (negb (se_pad next)); injection H as <- _ _; apply qint_push_keep; exact He.
Qed.

(** * 6. One iteration *)
Record GI (L : list hrec) (now : Z) (st : sim) : Prop := mkGI {
  gi_q : QOK L now (m_sq st); gi_sl : SL L st; gi_ge : TGE now st; gi_j : JR L now st;
  gi_b : BEG' L now (m_sq st) }.

Lemma step_hist' : forall L fuel st now next st1 acts,
  GI L now st -> pick_next fuel st now = Ok (Some next, st1) ->
  (GoodA' L -> GoodA' (L ++ [mkhrec next acts])) /\ (RecB' L -> RecB' (L ++ [mkhrec next acts])).
Proof.
  intros L fuel st now next st1 acts [HQ HS Hge HJ HB] Hp.
  destruct (pick_mid _ _ _ _ _ _ HQ HS Hge HJ Hp) as (_ & _ & _ & _ & _ & RB).
  set (r := mkhrec next acts). split.
  - intros HG j X m t k' rk' Ho Hlt Hn Ht.
    apply owed'_snoc_inv in Ho. apply nth_snoc in Hn.
    destruct Ho as [Ho|(Hj & _)]; [|exfalso; destruct Hn as [Hn|[Hk _]]; [apply nth_lt in Hn|]; lia].
    destruct Hn as [Hn|[-> ->]].
    + destruct (HG _ _ _ _ _ _ Ho Hlt Hn Ht) as (k & Hk & Hb). exists k. split; [exact Hk|apply begin_at_app; exact Hb].
    + cbn [r h_ev] in Ht.
      destruct (HB _ _ _ _ Ho) as [(k & Hk & Hb)|(Hnow & e & He & Hev)].
      * exists k. split; [pose proof (begin_at_lt _ _ _ _ _ Hb); lia|apply begin_at_app; exact Hb].
      * exfalso.
        destruct (proj2 (proj2 HQ) X e He) as [Hb _]. destruct (Hb m Hev) as [Hte _].
        assert (Hle : (se_time e <= now)%Z) by lia.
        destruct (pick_pinned _ _ _ _ _ X e (proj1 HQ) (proj1 (proj2 HQ)) He Hle Hp) as [Hpin _]. lia.
  - intros HR i ri Hn. apply nth_snoc in Hn. destruct Hn as [Hn|[-> ->]].
    + pose proof (nth_lt _ _ _ Hn) as Hi. intros X m e He. rewrite treplay'_app in He by lia.
      eapply HR; eauto.
    + cbn [r h_ev]. intros X m e He. rewrite treplay'_app, treplay'_full in He by lia. eapply RB; eauto.
Qed.

Lemma after_event'_none : forall ev m T, after_event' ev m T None = None.
Proof. intros ev m T. destruct ev; try reflexivity. cbn [after_event']. rewrite andb_false_r. reflexivity. Qed.

Lemma step_GI : forall L cc sc tp fuel st now next st1 bb sq2 net2 act sd' sq3 pos3 st3,
  GI L now st -> pick_next fuel st now = Ok (Some next, st1) ->
  sim_network_stack next (m_sq st1) bb (m_net st1) (se_time next) = Ok (sq2, net2, act) ->
  trigger_update (if se_client next then cc else sc) tp (side_of st1 (se_client next)) (m_pos st1)
                 next (se_time next) sq2 (se_client next) = Ok (sd', sq3, pos3) ->
  m_sq st3 = sq3 -> side_of st3 (se_client next) = sd' ->
  side_of st3 (negb (se_client next)) = side_of st1 (negb (se_client next)) ->
  GI (L ++ [mkhrec next (acts_for cc sc tp st1 next)]) (se_time next) st3.
Proof.
  intros L cc sc tp fuel st now next st1 bb sq2 net2 act sd' sq3 pos3 st3 HGI Hp En Htu E3q E3x E3o.
  destruct HGI as [HQ HS Hge HJ HB].
  destruct (pick_mid _ _ _ _ _ _ HQ HS Hge HJ Hp) as (HQ1 & HS1 & Htime & Hge1 & Mid & _).
  pose proof (QOK_network_stack _ _ _ _ _ _ _ _ _ _ HQ1 En) as HQ2.
  pose proof (step_inv L cc sc tp st1 next sq2 sd' sq3 pos3 HQ2 HS1 Htu) as Hsi. cbv zeta in Hsi.
  destruct Hsi as (HQ3 & HSx & HSo).
  destruct (trigger_update_acts _ _ _ _ _ _ _ _ _ _ _ Htu) as (fw' & acts & Et & Ea).
  assert (Hacts : acts_for cc sc tp st1 next = acts).
  { unfold acts_for. unfold side_of in Et. destruct (se_client next); rewrite Et; reflexivity. }
  rewrite Hacts in *.
  pose proof (apply_actions_slotv _ _ _ _ _ _ _ Ea) as Hslot. cbn [side_set_fw s_timers] in Hslot.
  destruct (apply_actions_spec _ _ _ _ _ _ _ Ea) as (_ & Hlen & _ & Htm & Esq3 & _).
  cbn [side_set_fw s_timers] in Hlen, Htm, Esq3.
  (* events of the internal heaps of st1 are still queued at the end *)
  assert (Hkeep : forall ic e, In e (qint (m_sq st1) ic) -> In e (qint (m_sq st3) ic)).
  { intros ic e He. rewrite E3q, Esq3. apply fold_push_keep.
    eapply network_stack_keep2; [exact (proj1 (proj1 HQ1))|exact He|exact En]. }
  set (r := mkhrec next acts).
  assert (Hlast : nth_error (L ++ [r]) (length L) = Some r).
  { rewrite nth_error_app2 by lia. rewrite Nat.sub_diag. reflexivity. }
  constructor.
  - rewrite E3q. exact HQ3.
  - intros ic mi exp Hn. destruct (bool_dec ic (se_client next)) as [->|Hne].
    + rewrite E3x in Hn. apply HSx. exact Hn.
    + apply neq_negb in Hne. subst ic. rewrite E3o in Hn. apply HSo. exact Hn.
  - intros ic mi t Hn. destruct (bool_dec ic (se_client next)) as [->|Hne].
    + rewrite E3x in Hn.
      destruct (nth_error (s_timers (side_of st1 (se_client next))) mi) as [cur|] eqn:Ec.
      * rewrite (Htm _ _ Ec) in Hn. injection Hn as Hn. apply timer_after_cases in Hn.
        destruct Hn as [(dur & rp & _ & ->)|[-> _]]; [lia|]. eapply Hge1; exact Ec.
      * exfalso. apply nth_error_None in Ec. apply nth_lt' in Hn. lia.
    + apply neq_negb in Hne. subst ic. rewrite E3o in Hn. eapply Hge1; exact Hn.
  - (* the relation between the replay and the slots *)
    intros X m. rewrite trp'_snoc. unfold trec_step'. cbn [r h_ev h_acts]. rewrite app_length. cbn [length].
    specialize (Mid X m). unfold cur_mid in Mid.
    assert (Hst : (stale_before L (length L) X m (se_time next) /\ se_time next = now /\ trp' X m L = None) \/
                  ((se_ev next = TETimerEnd m /\ se_client next = X) /\ trp' X m L = Some (se_time next)) ->
                  stale_before (L ++ [r]) (length L + 1) X m (se_time next)).
    { intros [(A & _)|((A & B) & _)].
      - apply (stale_before_mono _ (length L)); [lia|]. apply stale_before_app; [lia|exact A].
      - exists (length L), r. split; [lia|]. split; [exact Hlast|]. split; [exact A|]. split; [exact B|reflexivity]. }
    assert (Hq : queued_end (m_sq st1) X m -> queued_end (m_sq st3) X m).
    { intros (e & He & Hev). exists e. split; [apply Hkeep; exact He|exact Hev]. }
    destruct (bool_dec X (se_client next)) as [->|Hne].
    + rewrite Bool.eqb_reflx in *. rewrite E3x, Hslot.
      set (cm := after_event' (se_ev next) m (se_time next) (trp' (se_client next) m L)) in *.
      set (s1 := slotv (s_timers (side_of st1 (se_client next))) m) in *.
      assert (Hin : cm = s1 \/ R2 (se_time next) cm s1 \/ R3 (se_time next) cm s1) by (destruct Mid as [A|[[A _]|[A _]]]; auto).
      destruct (timer_after_rel acts (se_time next) (N.to_nat m) cm s1 Hin) as [E|[[A B]|[A B]]].
      * left. exact E.
      * right. left. split; [exact A|]. apply Hq.
        destruct B as [B1 B2].
        destruct Mid as [C|[[_ C]|[[C1 C2] _]]]; [exfalso; congruence|exact C|exfalso; congruence].
      * right. right. split; [exact A|]. apply Hst.
        destruct B as [B1 B2].
        destruct Mid as [C|[[[C1 C2] _]|[_ C]]]; [exfalso; congruence|exfalso; congruence|exact C].
    + apply neq_negb in Hne. subst X.
      replace (Bool.eqb (se_client next) (negb (se_client next))) with false in *
        by (destruct (se_client next); reflexivity).
      rewrite E3o.
      destruct Mid as [A|[[A B]|[A B]]]; [left; exact A|right; left; split; [exact A|apply Hq; exact B]|].
      right. right. split; [exact A|apply Hst; exact B].
  - (* TimerBegin obligations *)
    intros j X m t Ho. apply owed'_snoc_inv in Ho.
    destruct Ho as [Ho|(Hj & Hc & Ht & dur & rp & Hin & Hs)].
    + destruct (HB _ _ _ _ Ho) as [(k & Hk & Hb)|(Hnow & e & He & Hev)].
      * left. exists k. split; [exact Hk|apply begin_at_app; exact Hb].
      * destruct (proj2 (proj2 HQ) X e He) as [Hb _]. destruct (Hb m Hev) as [Hte _].
        assert (Hle : (se_time e <= now)%Z) by lia.
        destruct (pick_pinned _ _ _ _ _ X e (proj1 HQ) (proj1 (proj2 HQ)) He Hle Hp) as (Hpin & _ & _ & [Hk|[Hev' Hcl']]).
        -- right. split; [lia|]. exists e. split; [apply Hkeep; exact Hk|exact Hev].
        -- left. exists (length L). destruct Ho as (rj & _ & _ & Hnj & _). split; [eapply nth_lt; exact Hnj|].
           exists r. split; [exact Hlast|]. cbn [r h_ev]. split; [congruence|]. split; [exact Hcl'|lia].
    + right. cbn [r h_ev h_acts] in Hc, Ht, Hin, Hs. subst X. split; [symmetry; exact Ht|].
      exists (mksev (TETimerBegin m) (se_time next) (se_client next) false false false).
      split; [|reflexivity].
      specialize (Mid (se_client next) m). unfold cur_mid in Mid. rewrite Bool.eqb_reflx in Mid.
      rewrite <- Ht in Hs.
      assert (Hts : timer_sets (se_time next) (slotv (s_timers (side_of st1 (se_client next))) m) dur rp = true).
      { eapply (model_sets (trp' (se_client next) m L) _ _ (se_time next) dur rp
                  (stale_before L (length L) (se_client next) m (se_time next))
                  (te_at r (se_client next) m (se_time next))).
        - apply after_event'_cases.
        - destruct Mid as [A|[A|[A [(B1 & _ & B3)|((B1 & B2) & B3)]]]]; [left; exact A|right; left; exact A| |].
          + right. right. split; [exact A|]. left. auto.
          + right. right. split; [exact A|]. right. split; [|exact B3]. split; [exact B1|]. split; [exact B2|reflexivity].
        - exact Hs. }
      pose proof (timer_begins_has acts (se_time next) (se_client next) _ m dur rp Hin Hts) as Hb.
      rewrite E3q, Esq3. exact (fold_push_in _ sq2 _ Hb eq_refl).
Qed.

(** * 7. The loop and the initial state *)
Lemma loop_gen : forall cc sc tp args fuel st now hist iters H,
  GI (rev hist) now st -> GoodA' (rev hist) -> RecB' (rev hist) ->
  sim_loop_h fuel cc sc tp args st now hist iters = Ok H -> GoodA' H /\ RecB' H.
Proof.
  intros cc sc tp args. induction fuel as [|fuel IH]; intros st now hist iters H HGI HG HR Hrun;
    [discriminate Hrun|].
  cbn [sim_loop_h] in Hrun.
  destruct (pick_next (pn_fuel st) st now) as [[nx st1]|k|] eqn:Ep; cbn [bind] in Hrun; try discriminate.
  destruct nx as [next|]; [|injection Hrun as <-; split; assumption].
  destruct (se_time next <? now)%Z; [discriminate|].
  destruct (sim_network_stack next (m_sq st1) _ (m_net st1) (se_time next)) as [[[sq2 net2] act]|k|] eqn:En;
    cbn [bind] in Hrun; try discriminate.
  set (r := mkhrec next (acts_for cc sc tp st1 next)) in *.
  assert (Hstep : exists sd' sq3 pos3 st3,
            trigger_update (if se_client next then cc else sc) tp (side_of st1 (se_client next)) (m_pos st1)
                           next (se_time next) sq2 (se_client next) = Ok (sd', sq3, pos3) /\
            m_sq st3 = sq3 /\ side_of st3 (se_client next) = sd' /\
            side_of st3 (negb (se_client next)) = side_of st1 (negb (se_client next)) /\
            (let hist' := r :: hist in
             (if (0 <? a_max_trace args) && (a_max_trace args <=? N.of_nat (length hist')) then Ok (rev hist')
              else
                let iters' := iters + 1 in
                if (0 <? a_max_iter args) && (a_max_iter args <=? iters') then Ok (rev hist')
                else if negb (a_continue args) && sq_no_normal sq3 then Ok (rev hist')
                else sim_loop_h fuel cc sc tp args st3 (se_time next) hist' iters') = Ok H)).
  { destruct (se_client next) eqn:Ec.
    - destruct (trigger_update cc tp (m_c st1) (m_pos st1) next (se_time next) sq2 true)
        as [[[c' sq'] p']|k|] eqn:Et; cbn [bind] in Hrun; try discriminate.
      exists c', sq', p', (mksim sq' c' (m_s st1) net2 p'). cbn [side_of negb m_sq m_c m_s].
      split; [exact Et|]. split; [reflexivity|]. split; [reflexivity|]. split; [reflexivity|exact Hrun].
    - destruct (trigger_update sc tp (m_s st1) (m_pos st1) next (se_time next) sq2 false)
        as [[[s' sq'] p']|k|] eqn:Et; cbn [bind] in Hrun; try discriminate.
      exists s', sq', p', (mksim sq' (m_c st1) s' net2 p'). cbn [side_of negb m_sq m_c m_s].
      split; [exact Et|]. split; [reflexivity|]. split; [reflexivity|]. split; [reflexivity|exact Hrun]. }
  clear Hrun. destruct Hstep as (sd' & sq3 & pos3 & st3 & Htu & E3q & E3x & E3o & Hrun). cbv zeta in Hrun.
  destruct (step_hist' (rev hist) _ _ _ _ _ (acts_for cc sc tp st1 next) HGI Ep) as [SG SR].
  specialize (SG HG). specialize (SR HR).
  change (rev hist ++ [mkhrec next (acts_for cc sc tp st1 next)]) with (rev (r :: hist)) in SG, SR.
  destruct (_ && _) in Hrun; [injection Hrun as <-; split; assumption|].
  destruct (_ && _) in Hrun; [injection Hrun as <-; split; assumption|].
  destruct (_ && _) in Hrun; [injection Hrun as <-; split; assumption|].
  eapply IH; [|exact SG|exact SR|exact Hrun].
  cbn [rev]. eapply step_GI; [exact HGI|exact Ep|exact En|exact Htu|exact E3q|exact E3x|exact E3o].
Qed.

Lemma init_GI : forall cc sc tp sq delay pps st0 t0,
  sim_init cc sc tp sq delay pps st0 t0 -> SB.sq_inv sq -> start_ok sq -> GI [] t0 st0.
Proof.
  intros cc sc tp sq delay pps st0 t0 Hi Hinv Hs.
  destruct (init_inv _ _ _ _ _ _ _ _ Hi Hinv Hs) as [HQ HS].
  destruct Hi as (cfw & sfw & net & _ & _ & _ & _ & ->).
  assert (Hnone : forall (l : list machine) mi (x : Z), nth_error (map (fun _ => @None Z) l) mi <> Some (Some x)).
  { intros l mi x C. apply nth_error_In in C. apply in_map_iff in C. destruct C as (y & Hy & _). discriminate Hy. }
  constructor; cbn [m_sq].
  - exact HQ.
  - exact HS.
  - intros ic mi t C. exfalso. destruct ic; cbn [side_of m_c m_s new_side s_timers] in C; exact (Hnone _ _ _ C).
  - intros X m. left. cbn [trp' fold_left]. unfold slotv.
    destruct (nth_error (s_timers (side_of _ X)) (N.to_nat m)) as [[x|]|] eqn:E; try reflexivity.
    exfalso. destruct X; cbn [side_of m_c m_s new_side s_timers] in E; exact (Hnone _ _ _ E).
  - intros j X m t (rj & _ & _ & Hn & _). destruct j; discriminate Hn.
Qed.

Theorem run_gen : forall fuel cc sc tp args st0 t0 H sq delay pps,
  sim_init cc sc tp sq delay pps st0 t0 -> SB.sq_inv sq -> start_ok sq ->
  sim_loop_h fuel cc sc tp args st0 t0 [] 0 = Ok H -> GoodA' H /\ RecB' H.
Proof.
  intros fuel cc sc tp args st0 t0 H sq delay pps Hi Hinv Hs Hrun.
  eapply loop_gen; [| | |exact Hrun]; cbn [rev].
  - eapply init_GI; eauto.
  - intros j X m t k' rk' _ _ Hn. destruct k'; discriminate Hn.
  - intros i ri Hn. destruct i; discriminate Hn.
Qed.

(** * 8. (b) from the per-record statement *)
Lemma trec_step'_keep : forall X m e r,
  (se_client (h_ev r) = X ->
   ~ te_at r X m e /\ forall a, In a (h_acts r) -> is_timer_for m a = false) ->
  trec_step' X m (Some e) r = Some e.
Proof.
  intros X m e r H. unfold trec_step'. destruct (Bool.eqb (se_client (h_ev r)) X) eqn:E; [|reflexivity].
  apply Bool.eqb_prop in E. destruct (H E) as [Hne Hun]. rewrite timer_after_untouched by exact Hun.
  destruct (se_ev (h_ev r)) eqn:Eev; try reflexivity. cbn [after_event'].
  destruct (N.eqb_spec m0 m) as [->|_]; [|reflexivity]. cbn [andb].
  destruct (Z.eqb_spec e (se_time (h_ev r))) as [Et|_]; [|reflexivity].
  exfalso. apply Hne. split; [exact Eev|]. split; [exact E|congruence].
Qed.

Lemma live_end' : forall H, RecB' H ->
  forall j m e k' rk' X,
    (j <= length H)%nat -> treplay' X m H j = Some e ->
    (j <= k')%nat -> nth_error H k' = Some rk' -> (e < se_time (h_ev rk'))%Z ->
    (exists k rk, (j <= k < k')%nat /\ nth_error H k = Some rk /\ se_ev (h_ev rk) = TETimerEnd m /\
                  se_client (h_ev rk) = X /\ se_time (h_ev rk) = e) \/
    (exists j' rj' a', (j <= j' < k')%nat /\ nth_error H j' = Some rj' /\ se_client (h_ev rj') = X /\
                  In a' (h_acts rj') /\ is_timer_for m a' = true /\ (se_time (h_ev rj') <= e)%Z).
Proof.
  intros H HR j m e k' rk' X _ Hj Hjk Hk' Hlt.
  assert (Hind : forall d i, i = (j + d)%nat -> (i <= k')%nat ->
            (exists k rk, (j <= k < i)%nat /\ nth_error H k = Some rk /\ se_ev (h_ev rk) = TETimerEnd m /\
                          se_client (h_ev rk) = X /\ se_time (h_ev rk) = e) \/
            (exists j' rj' a', (j <= j' < i)%nat /\ nth_error H j' = Some rj' /\ se_client (h_ev rj') = X /\
                          In a' (h_acts rj') /\ is_timer_for m a' = true /\ (se_time (h_ev rj') <= e)%Z) \/
            treplay' X m H i = Some e).
  { induction d as [|d IH]; intros i Hi Hik.
    - right. right. replace i with j by lia. exact Hj.
    - destruct (IH (j + d)%nat eq_refl ltac:(lia)) as [(k & rk & Hk & Hrest)|[(j' & rj' & a' & Hj' & Hrest)|Hcur]].
      + left. exists k, rk. split; [lia|exact Hrest].
      + right. left. exists j', rj', a'. split; [lia|exact Hrest].
      + subst i. replace (j + S d)%nat with (S (j + d)) by lia.
        assert (Hlen : (j + d < length H)%nat) by (apply nth_lt in Hk'; lia).
        destruct (nth_error H (j + d)) as [ri|] eqn:Eri; [|apply nth_error_None in Eri; lia].
        rewrite (treplay'_S _ _ _ _ _ Eri), Hcur.
        pose proof (HR _ _ Eri) as RB.
        destruct (bool_dec (se_client (h_ev ri)) X) as [Ec|Ec].
        * destruct (te_dec (se_ev (h_ev ri)) m) as [Ete|Ete].
          -- destruct (Z.eq_dec (se_time (h_ev ri)) e) as [Et|Et].
             ++ left. exists (j + d)%nat, ri. split; [lia|]. auto.
             ++ destruct (existsb (is_timer_for m) (h_acts ri)) eqn:Eex.
                ** apply existsb_exists in Eex. destruct Eex as (a' & Ha' & Hf).
                   right. left. exists (j + d)%nat, ri, a'. split; [lia|]. split; [exact Eri|].
                   split; [exact Ec|]. split; [exact Ha'|]. split; [exact Hf|]. eapply RB; exact Hcur.
                ** right. right. apply trec_step'_keep. intros _. split; [|apply existsb_false; exact Eex].
                   intros (_ & _ & C). contradiction.
          -- destruct (existsb (is_timer_for m) (h_acts ri)) eqn:Eex.
             ++ apply existsb_exists in Eex. destruct Eex as (a' & Ha' & Hf).
                right. left. exists (j + d)%nat, ri, a'. split; [lia|]. split; [exact Eri|].
                split; [exact Ec|]. split; [exact Ha'|]. split; [exact Hf|]. eapply RB; exact Hcur.
             ++ right. right. apply trec_step'_keep. intros _. split; [|apply existsb_false; exact Eex].
                intros (C & _). contradiction.
        * right. right. apply trec_step'_keep. intros C. contradiction. }
  destruct (Hind (k' - j)%nat k' ltac:(lia) ltac:(lia)) as [Hw|[Hw|Hcur]]; [left; exact Hw|right; exact Hw|].
  exfalso. specialize (HR _ _ Hk' _ _ _ Hcur). lia.
Qed.

(** * 9. Counting the queued TimerEnd events *)
Definition is_tem (m : N) (e : sev) : bool := match se_ev e with TETimerEnd m' => m' =? m | _ => false end.
Fixpoint tec (m : N) (l : list sev) : nat :=
  match l with [] => 0 | e :: t => (if is_tem m e then 1 else 0) + tec m t end%nat.
Definition qcnt (sq : simq) (X : bool) (m : N) : nat := tec m (qint sq X).

Lemma is_tem_true : forall m e, is_tem m e = true <-> se_ev e = TETimerEnd m.
Proof.
  intros m e. unfold is_tem. destruct (se_ev e); split; intros H; try discriminate H.
  - apply N.eqb_eq in H. subst. reflexivity.
  - injection H as ->. apply N.eqb_refl.
Qed.

Lemma tec_perm : forall m l l', Permutation l l' -> tec m l = tec m l'.
Proof. intros m l l' P. induction P; cbn [tec]; lia. Qed.

Lemma tec_pos : forall m l, (0 < tec m l)%nat <-> exists e, In e l /\ se_ev e = TETimerEnd m.
Proof.
  intros m. induction l as [|a l IH]; cbn [tec].
  - split; [lia|intros (e & [] & _)].
  - destruct (is_tem m a) eqn:Ea.
    + split; [intros _|lia]. exists a. split; [left; reflexivity|apply is_tem_true; exact Ea].
    + rewrite Nat.add_0_l, IH. split; intros (e & He & Hev).
      * exists e. split; [right; exact He|exact Hev].
      * destruct He as [->|He]; [|eauto]. apply is_tem_true in Hev. congruence.
Qed.

Lemma qcnt_pos : forall sq X m, (0 < qcnt sq X m)%nat <-> queued_end sq X m.
Proof. intros. apply tec_pos. Qed.

Definition ind (b : bool) : nat := if b then 1%nat else 0%nat.
(** [x] is the TimerEnd of [m] on side [X] *)
Definition tex (x : sev) (X : bool) (m : N) : bool := is_tem m x && Bool.eqb (se_client x) X.

Lemma qcnt_push : forall sq x X m, SB.route x = QInternal ->
  qcnt (sq_push sq x) X m = (ind (tex x X m) + qcnt sq X m)%nat.
Proof.
  intros sq x X m Hr. unfold qcnt, tex. rewrite !qint_evq. unfold sq_push. rewrite SB.sq_side_set.
  destruct (Bool.eqb (se_client x) X) eqn:E.
  - apply Bool.eqb_prop in E. subst X. rewrite SB.evq_push_heap, Hr. cbn [qid_eqb].
    rewrite (tec_perm m _ _ (heap_push_perm sev sev_le _ x)). cbn [tec]. rewrite andb_true_r.
    destruct (is_tem m x); reflexivity.
  - rewrite andb_false_r. reflexivity.
Qed.

Lemma qcnt_push_other : forall sq x X m, (forall m0, se_ev x <> TETimerEnd m0) ->
  qcnt (sq_push sq x) X m = qcnt sq X m.
Proof.
  intros sq x X m Hx. unfold qcnt. rewrite !qint_evq. unfold sq_push. rewrite SB.sq_side_set.
  destruct (Bool.eqb (se_client x) X) eqn:E; [|reflexivity].
  apply Bool.eqb_prop in E. subst X. rewrite SB.evq_push_heap.
  destruct (qid_eqb QInternal (SB.route x)); [|reflexivity].
  rewrite (tec_perm m _ _ (heap_push_perm sev sev_le _ x)). cbn [tec].
  assert (E : is_tem m x = false).
  { destruct (is_tem m x) eqn:E; [|reflexivity]. apply is_tem_true in E. exfalso. exact (Hx m E). }
  rewrite E. reflexivity.
Qed.

Lemma qcnt_pop : forall sq w qic d tmp sq' X m,
  SB.wf_simq sq -> sq_pop sq w qic d = Some (tmp, sq') ->
  (qcnt sq' X m + ind (tex tmp X m))%nat = qcnt sq X m.
Proof.
  intros sq w qic d tmp sq' X m Hwf H.
  pose proof (SB.sq_pop_ok _ _ _ _ _ _ Hwf H) as [Hcl Hk].
  destruct (sq_pop_evq _ _ _ _ _ _ H) as (q' & Hp & ->).
  destruct (SB.evq_pop_spec _ _ _ _ _ Hp) as (x0 & h & Hpop & _ & Hx & Hq & Hoth).
  unfold qcnt, tex. rewrite !qint_evq, SB.sq_side_set, Hcl.
  destruct (Bool.eqb qic X) eqn:E.
  - apply Bool.eqb_prop in E. subst X. rewrite andb_true_r.
    destruct (SB.qid_eq_dec QInternal w) as [<-|Hne].
    + rewrite Hq. rewrite (tec_perm m _ _ (heap_pop_perm _ _ _ _ _ Hpop)). cbn [tec].
      rewrite (Hx ltac:(discriminate)). destruct (is_tem m x0); cbn [ind]; lia.
    + rewrite (Hoth _ Hne).
      assert (Ef : is_tem m tmp = false).
      { destruct (is_tem m tmp) eqn:Ef; [|reflexivity]. apply is_tem_true in Ef. exfalso.
        destruct w; cbn beta iota in Hk.
        - destruct Hk as [Hk _]. congruence.
        - destruct Hk as [Hk _]. congruence.
        - apply Hne. reflexivity.
        - congruence. }
      rewrite Ef. cbn [ind]. lia.
  - rewrite andb_false_r. cbn [ind]. lia.
Qed.

Lemma tex_retime : forall tmp t X m,
  tex (if (se_time tmp <? t)%Z then set_time tmp t else tmp) X m = tex tmp X m.
Proof. intros tmp t X m. destruct (se_time tmp <? t)%Z; reflexivity. Qed.

Lemma pick_count_due : forall fuel st now next st' ic e,
  SB.sq_inv (m_sq st) -> ih (m_sq st) -> In e (qint (m_sq st) ic) -> (se_time e <= now)%Z ->
  pick_next fuel st now = Ok (Some next, st') ->
  forall X m, (qcnt (m_sq st') X m + ind (tex next X m))%nat = qcnt (m_sq st) X m.
Proof.
  induction fuel as [|fuel IH]; intros st now next st' ic e Hinv Hih He Ht H; [discriminate H|].
  apply pn_cases in H. destruct H as (b & bic & q & which & qic & Hq & H). cbv zeta in Hq.
  assert (Hz : q = 0).
  { pose proof (peek_queue_zero (m_sq st) (m_c st) (m_s st) (n_cagg (m_net st)) (n_sagg (m_net st))
                  (N.min (N.min (N.min (peek_sched (s_sched (m_c st)) (s_sched (m_s st)) now)
                                       (peek_timers (s_timers (m_c st)) (s_timers (m_s st)) now)) b)
                         (net_peek_agg (m_net st) now)) now ic e Hih He Ht) as Z0.
    rewrite Hq in Z0. exact Z0. }
  subst q. unfold pn_alt in H.
  destruct H as [(Hr & _)|[H|[H|[H|[H|H]]]]].
  - discriminate Hr.
  - exact (IH (mksim (m_sq st) (m_c st) (m_s st) (net_pop_agg (m_net st)) (m_pos st)) now next st' ic e
              Hinv Hih He Ht H).
  - destruct H as (_ & Hr & c' & s' & net' & -> & _). injection Hr as ->. intros X m. cbn [m_sq].
    unfold tex, is_tem. cbn [se_ev andb ind]. lia.
  - destruct H as (tmp & sq' & Hp & Hr & ->). injection Hr as ->. intros X m. cbn [m_sq].
    rewrite tex_retime. exact (qcnt_pop _ _ _ _ _ _ X m (proj1 Hinv) Hp).
  - destruct H as (Hn & _). exfalso. apply Hn. split; apply N.le_0_l.
  - destruct H as (Hn & _). exfalso. apply Hn. split; apply N.le_0_l.
Qed.

Definition fired_cnt (st st' : sim) (now : Z) (next : sev) : Prop :=
  (s_timers (m_c st') = s_timers (m_c st) /\ s_timers (m_s st') = s_timers (m_s st) /\
   forall X m, (qcnt (m_sq st') X m + ind (tex next X m))%nat = qcnt (m_sq st) X m) \/
  (exists ic mi,
     nth_error (s_timers (side_of st ic)) mi = Some (Some (se_time next)) /\
     s_timers (side_of st' ic) = upd (s_timers (side_of st ic)) mi None /\
     s_timers (side_of st' (negb ic)) = s_timers (side_of st (negb ic)) /\
     (forall ic' e, In e (qint (m_sq st) ic') -> (now < se_time e)%Z) /\
     forall X m, (qcnt (m_sq st') X m + ind (tex next X m))%nat
                 = (ind (Bool.eqb ic X && N.eqb (N.of_nat mi) m) + qcnt (m_sq st) X m)%nat).

Lemma pick_count : forall fuel st now next st',
  SB.sq_inv (m_sq st) -> ih (m_sq st) ->
  pick_next fuel st now = Ok (Some next, st') -> fired_cnt st st' now next.
Proof.
  induction fuel as [|fuel IH]; intros st now next st' Hinv Hih H; [discriminate H|].
  apply pn_cases in H. destruct H as (b & bic & q & which & qic & Hq & H). cbv zeta in Hq.
  unfold pn_alt in H.
  destruct H as [(Hr & _)|[H|[H|[H|[H|H]]]]].
  - discriminate Hr.
  - eapply IH in H; [exact H|exact Hinv|exact Hih].
  - destruct H as (_ & Hr & c' & s' & net' & -> & Tc & Ts). injection Hr as ->. left. cbn [m_c m_s m_sq].
    split; [exact Tc|]. split; [exact Ts|]. intros X m. unfold tex, is_tem. cbn [se_ev andb ind]. lia.
  - destruct H as (tmp & sq' & Hp & Hr & ->). injection Hr as ->. left. cbn [m_c m_s m_sq].
    split; [reflexivity|]. split; [reflexivity|]. intros X m.
    rewrite tex_retime. exact (qcnt_pop _ _ _ _ _ _ X m (proj1 Hinv) Hp).
  - destruct H as (Hn & c' & s' & e & Hd & H).
    assert (Hnodue : forall ic' e0, In e0 (qint (m_sq st) ic') -> (now < se_time e0)%Z).
    { intros ic' e0 He0. destruct (Z.lt_ge_cases now (se_time e0)) as [Hlt|Hge]; [exact Hlt|]. exfalso.
      pose proof (peek_queue_zero (m_sq st) (m_c st) (m_s st) (n_cagg (m_net st)) (n_sagg (m_net st))
                  (N.min (N.min (N.min (peek_sched (s_sched (m_c st)) (s_sched (m_s st)) now)
                                       (peek_timers (s_timers (m_c st)) (s_timers (m_s st)) now)) b)
                         (net_peek_agg (m_net st) now)) now ic' e0 Hih He0 Hge) as Z0.
      rewrite Hq in Z0. cbn [fst] in Z0. subst q. apply Hn. split; apply N.le_0_l. }
    apply do_internal_timer_spec in Hd. destruct Hd as (ic & mi & Hd).
    assert (Hx : nth_error (s_timers (side_of st ic)) mi = Some (Some (se_time e)) /\
                 s_timers (if ic then c' else s') = upd (s_timers (side_of st ic)) mi None /\
                 s_timers (if ic then s' else c') = s_timers (side_of st (negb ic)) /\
                 se_ev e = TETimerEnd (N.of_nat mi) /\ se_client e = ic /\
                 se_time e = (now + Z.of_N (peek_timers (s_timers (m_c st)) (s_timers (m_s st)) now))%Z).
    { destruct ic; cbv beta iota zeta in Hd; destruct Hd as (Hnn & Ht & Ho & _ & _ & _ & _ & ->);
        cbn [se_time se_ev se_client side_of negb]; rewrite Ho; auto 8. }
    clear Hd. destruct Hx as (Hnn & Ht & Ho & Eev & Ecl & Etime).
    assert (Hroute : SB.route e = QInternal) by (unfold SB.route; rewrite Eev; reflexivity).
    assert (Hinv1 : SB.sq_inv (sq_push (m_sq st) e)).
    { apply SB.sq_push_inv; [exact Hinv|rewrite Eev; discriminate]. }
    assert (Hin1 : In e (qint (sq_push (m_sq st) e) ic)).
    { rewrite <- Ecl. exact (fold_push_in [e] (m_sq st) e (or_introl eq_refl) Hroute). }
    assert (Hle : (se_time e <= now + Z.of_N (peek_timers (s_timers (m_c st)) (s_timers (m_s st)) now))%Z) by lia.
    destruct (pick_pinned _ (mksim (sq_push (m_sq st) e) c' s' (m_net st) (m_pos st)) _ _ _ ic e
                Hinv1 (ih_push _ e Hih) Hin1 Hle H) as (Htn & Tc & Ts & _).
    pose proof (pick_count_due _ (mksim (sq_push (m_sq st) e) c' s' (m_net st) (m_pos st)) _ _ _ ic e
                  Hinv1 (ih_push _ e Hih) Hin1 Hle H) as Hcnt.
    cbn [m_sq m_c m_s] in Tc, Ts, Hcnt.
    right. exists ic, mi. rewrite Htn, <- Etime.
    split; [exact Hnn|]. split; [destruct ic; cbn [side_of] in *; congruence|].
    split; [destruct ic; cbn [side_of negb] in *; congruence|]. split; [exact Hnodue|].
    intros X m. rewrite Hcnt, (qcnt_push _ _ _ _ Hroute). f_equal. unfold tex, is_tem.
    rewrite Eev, Ecl. rewrite andb_comm. reflexivity.
  - destruct H as (_ & c' & s' & e & Hd & H).
    pose proof (SB.do_scheduled_action_ev _ _ _ _ _ _ Hd) as Hev.
    assert (Hne : forall m0, se_ev e <> TETimerEnd m0).
    { intros m0. destruct Hev as [[m1 ->]|[m1 ->]]; discriminate. }
    assert (Hinv2 : SB.sq_inv (sq_push (m_sq st) e)).
    { apply SB.sq_push_inv; [exact Hinv|]. destruct Hev as [[m0 ->]|[m0 ->]]; discriminate. }
    pose proof (IH (mksim (sq_push (m_sq st) e) c' s' (m_net st) (m_pos st)) _ _ _
                   Hinv2 (ih_push _ e Hih) H) as Hs.
    assert (Htim : s_timers c' = s_timers (m_c st) /\ s_timers s' = s_timers (m_s st)).
    { apply do_scheduled_action_spec in Hd. destruct Hd as (ic & mi & a & Hd). cbv zeta in Hd.
      destruct ic; destruct Hd as (_ & _ & Ho & Ht & _); subst; auto. }
    destruct Htim as [Tc Ts]. cbn [m_sq m_c m_s] in Hs.
    destruct Hs as [(A & B & C)|(ic & mi & A & B & C & D & E)].
    + left. cbn [m_c m_s m_sq] in *. split; [congruence|]. split; [congruence|].
      intros X m. rewrite C. apply qcnt_push_other. exact Hne.
    + right. exists ic, mi. cbn [m_sq] in *.
      split; [destruct ic; cbn [side_of m_c m_s] in *; congruence|].
      split; [destruct ic; cbn [side_of m_c m_s] in *; congruence|].
      split; [destruct ic; cbn [side_of negb m_c m_s] in *; congruence|].
      split.
      * intros ic' e0 He0. pose proof (D ic' e0 (qint_push_keep _ e _ _ He0)). lia.
      * intros X m. rewrite E. rewrite (qcnt_push_other _ _ _ _ Hne). reflexivity.
Qed.

(** * 10. Attribution of the reported TimerEnd events *)
Definition is_te (r : hrec) (X : bool) (m : N) : Prop :=
  se_ev (h_ev r) = TETimerEnd m /\ se_client (h_ev r) = X.
(** record [j] carries an UpdateTimer for [m] on side [X] whose expiry is [x] *)
Definition upd_at (L : list hrec) (j : nat) (X : bool) (m : N) (x : Z) : Prop :=
  exists rj dur rp, nth_error L j = Some rj /\ se_client (h_ev rj) = X /\
    In (TUpdateTimer m dur rp) (h_acts rj) /\ x = (se_time (h_ev rj) + Z.of_N dur)%Z.
(** [A] attributes every TimerEnd of (X, m) to an earlier UpdateTimer with that expiry, increasingly *)
Definition ends_ok (L : list hrec) (X : bool) (m : N) (A : nat -> nat) : Prop :=
  (forall k rk, nth_error L k = Some rk -> is_te rk X m ->
     (A k < k)%nat /\ upd_at L (A k) X m (se_time (h_ev rk))) /\
  (forall k1 k2 r1 r2, (k1 < k2)%nat -> nth_error L k1 = Some r1 -> nth_error L k2 = Some r2 ->
     is_te r1 X m -> is_te r2 X m -> (A k1 < A k2)%nat).
Definition above (L : list hrec) (X : bool) (m : N) (A : nat -> nat) (j : nat) : Prop :=
  forall k rk, nth_error L k = Some rk -> is_te rk X m -> (A k < j)%nat.

Lemma upd_at_app : forall L L2 j X m x, upd_at L j X m x -> upd_at (L ++ L2) j X m x.
Proof.
  intros L L2 j X m x (rj & dur & rp & Hn & H). exists rj, dur, rp. split; [apply nth_app_l; exact Hn|exact H].
Qed.

Lemma upd_at_lt : forall L j X m x, upd_at L j X m x -> (j < length L)%nat.
Proof. intros L j X m x (rj & _ & _ & Hn & _). eapply nth_lt; eauto. Qed.

Lemma ends_ok_other : forall L r X m A, ends_ok L X m A -> ~ is_te r X m -> ends_ok (L ++ [r]) X m A.
Proof.
  intros L r X m A [H1 H2] Hr. split.
  - intros k rk Hn Hte. apply nth_snoc in Hn. destruct Hn as [Hn|[_ ->]]; [|contradiction].
    destruct (H1 k rk Hn Hte) as [A1 A2]. split; [exact A1|apply upd_at_app; exact A2].
  - intros k1 k2 r1 r2 Hlt Hn1 Hn2 T1 T2. apply nth_snoc in Hn1. apply nth_snoc in Hn2.
    destruct Hn1 as [Hn1|[_ ->]]; [|contradiction]. destruct Hn2 as [Hn2|[_ ->]]; [|contradiction].
    eapply H2; eauto.
Qed.

Lemma above_other : forall L r X m A j, above L X m A j -> ~ is_te r X m -> above (L ++ [r]) X m A j.
Proof.
  intros L r X m A j H Hr k rk Hn Hte. apply nth_snoc in Hn. destruct Hn as [Hn|[_ ->]]; [|contradiction].
  eapply H; eauto.
Qed.

(** reporting the queued TimerEnd whose origin is [jq] *)
Lemma ends_ok_report : forall L r X m A jq,
  ends_ok L X m A -> is_te r X m -> upd_at L jq X m (se_time (h_ev r)) -> above L X m A jq ->
  let A' := fun k => if Nat.eqb k (length L) then jq else A k in
  ends_ok (L ++ [r]) X m A' /\ above (L ++ [r]) X m A' (S jq) /\
  (forall j, (jq < j)%nat -> above (L ++ [r]) X m A' j).
Proof.
  intros L r X m A jq [H1 H2] Hr Hu Hab A'.
  assert (Hold : forall k rk, nth_error L k = Some rk -> A' k = A k).
  { intros k rk Hn. unfold A'. apply nth_lt in Hn. destruct (Nat.eqb_spec k (length L)); [lia|reflexivity]. }
  assert (Hnew : A' (length L) = jq) by (unfold A'; rewrite Nat.eqb_refl; reflexivity).
  assert (Hab' : forall j, (jq < j)%nat -> above (L ++ [r]) X m A' j).
  { intros j Hj k rk Hn Hte. apply nth_snoc in Hn. destruct Hn as [Hn|[-> ->]].
    - rewrite (Hold _ _ Hn). pose proof (Hab k rk Hn Hte). lia.
    - rewrite Hnew. exact Hj. }
  split; [|split; [apply Hab'; lia|exact Hab']]. split.
  - intros k rk Hn Hte. apply nth_snoc in Hn. destruct Hn as [Hn|[-> ->]].
    + rewrite (Hold _ _ Hn). destruct (H1 k rk Hn Hte) as [A1 A2]. split; [exact A1|apply upd_at_app; exact A2].
    + rewrite Hnew. split; [eapply upd_at_lt; exact Hu|apply upd_at_app; exact Hu].
  - intros k1 k2 r1 r2 Hlt Hn1 Hn2 T1 T2. apply nth_snoc in Hn1. apply nth_snoc in Hn2.
    destruct Hn2 as [Hn2|[-> ->]].
    + destruct Hn1 as [Hn1|[-> _]]; [|apply nth_lt in Hn2; lia].
      rewrite (Hold _ _ Hn1), (Hold _ _ Hn2). eapply H2; eauto.
    + destruct Hn1 as [Hn1|[-> _]]; [|lia]. rewrite (Hold _ _ Hn1), Hnew. eapply Hab; eauto.
Qed.

(** the pending part: the running timer and the queued TimerEnd have origins beyond all attributed ones *)
Definition pend (L : list hrec) (now : Z) (c : nat) (s : option Z) (X : bool) (m : N) (A : nat -> nat) : Prop :=
  (c = 0%nat -> forall x, s = Some x -> exists js, upd_at L js X m x /\ above L X m A js) /\
  (c <> 0%nat -> exists jq, upd_at L jq X m now /\ above L X m A jq /\
                 forall x, s = Some x -> exists js, upd_at L js X m x /\ (jq < js)%nat).

(** the same across [pick_next] and the event of the new record [r] (origins still taken in [L]) *)
Definition pendm (L : list hrec) (r : hrec) (T : Z) (c : nat) (s : option Z) (X : bool) (m : N)
           (A : nat -> nat) : Prop :=
  (c = 0%nat -> forall x, s = Some x -> exists js, upd_at L js X m x /\ above (L ++ [r]) X m A js) /\
  (c <> 0%nat -> exists jq, upd_at L jq X m T /\ above (L ++ [r]) X m A jq /\
                 forall x, s = Some x -> exists js, upd_at L js X m x /\ (jq < js)%nat).

Lemma at_pick : forall L r X m A now T (c0 c1 : nat) (t f : bool) (s s1 : option Z),
  ends_ok L X m A -> pend L now c0 s X m A ->
  (c0 <= 1)%nat -> (c1 + ind t = ind f + c0)%nat ->
  (t = true -> is_te r X m /\ se_time (h_ev r) = T) -> (t = false -> ~ is_te r X m) ->
  (f = false -> s1 = s) -> (f = true -> s = Some T /\ s1 = None /\ c0 = 0%nat) ->
  (c0 <> 0%nat -> T = now) ->
  exists A', ends_ok (L ++ [r]) X m A' /\ pendm L r T c1 s1 X m A'.
Proof.
  intros L r X m A now T c0 c1 t f s s1 HE [P0 P1] Hc0 Hcnt Ht Htf Hf0 Hf1 Hpin.
  destruct t, f; cbn [ind] in Hcnt.
  - (* fired and reported in the same call *)
    destruct (Hf1 eq_refl) as (-> & -> & ->). assert (c1 = 0)%nat by lia. subst c1.
    destruct (Ht eq_refl) as [Hte Htime].
    destruct (P0 eq_refl T eq_refl) as (js & Hu & Hab).
    rewrite <- Htime in Hu.
    destruct (ends_ok_report L r X m A js HE Hte Hu Hab) as (E' & _ & _).
    eexists. split; [exact E'|]. split; [intros _ x C; discriminate C|intros C; contradiction].
  - (* the queued TimerEnd is reported *)
    assert (c0 = 1 /\ c1 = 0)%nat as [-> ->] by lia.
    rewrite (Hf0 eq_refl). destruct (Ht eq_refl) as [Hte Htime].
    destruct (P1 ltac:(lia)) as (jq & Hu & Hab & Hs). rewrite <- (Hpin ltac:(lia)), <- Htime in Hu.
    destruct (ends_ok_report L r X m A jq HE Hte Hu Hab) as (E' & _ & Hab').
    eexists. split; [exact E'|]. split; [|intros C; contradiction].
    intros _ x Hx. destruct (Hs x Hx) as (js & Hujs & Hlt). exists js. split; [exact Hujs|apply Hab'; exact Hlt].
  - (* fired, another event of that instant is returned: the TimerEnd is queued *)
    destruct (Hf1 eq_refl) as (-> & -> & ->). assert (c1 = 1)%nat by lia. subst c1.
    pose proof (Htf eq_refl) as Hnte.
    destruct (P0 eq_refl T eq_refl) as (js & Hu & Hab).
    exists A. split; [apply ends_ok_other; assumption|]. split; [intros C; discriminate C|].
    intros _. exists js. split; [exact Hu|]. split; [apply above_other; assumption|].
    intros x C. discriminate C.
  - (* nothing happens to this timer *)
    assert (c1 = c0) by lia. subst c1. rewrite (Hf0 eq_refl). pose proof (Htf eq_refl) as Hnte.
    exists A. split; [apply ends_ok_other; assumption|]. split.
    + intros C x Hx. destruct (P0 C x Hx) as (js & Hu & Hab). exists js. split; [exact Hu|apply above_other; assumption].
    + intros C. destruct (P1 C) as (jq & Hu & Hab & Hs). rewrite (Hpin C). exists jq.
      split; [exact Hu|]. split; [apply above_other; assumption|exact Hs].
Qed.

Lemma at_acts : forall L r X m A T c s1 s3,
  ends_ok (L ++ [r]) X m A -> pendm L r T c s1 X m A -> se_time (h_ev r) = T ->
  (forall x, s3 = Some x -> s1 = Some x \/
     (se_client (h_ev r) = X /\ exists dur rp, In (TUpdateTimer m dur rp) (h_acts r) /\ x = (T + Z.of_N dur)%Z)) ->
  pend (L ++ [r]) T c s3 X m A.
Proof.
  intros L r X m A T c s1 s3 [H1 _] [P0 P1] Htime Hs3.
  assert (Hlast : nth_error (L ++ [r]) (length L) = Some r).
  { rewrite nth_error_app2 by lia. rewrite Nat.sub_diag. reflexivity. }
  assert (Hnew : forall x, se_client (h_ev r) = X ->
            (exists dur rp, In (TUpdateTimer m dur rp) (h_acts r) /\ x = (T + Z.of_N dur)%Z) ->
            upd_at (L ++ [r]) (length L) X m x /\ above (L ++ [r]) X m A (length L)).
  { intros x Hc (dur & rp & Hin & ->). split.
    - exists r, dur, rp. rewrite Htime. auto.
    - intros k rk Hn Hte. destruct (H1 k rk Hn Hte) as [Hlt _]. apply nth_lt in Hn.
      rewrite app_length in Hn. cbn [length] in Hn. lia. }
  split.
  - intros C x Hx. destruct (Hs3 x Hx) as [Hold|[Hc Hu]].
    + destruct (P0 C x Hold) as (js & Hu & Hab). exists js. split; [apply upd_at_app; exact Hu|exact Hab].
    + exists (length L). apply Hnew; assumption.
  - intros C. destruct (P1 C) as (jq & Hu & Hab & Hs). exists jq. split; [apply upd_at_app; exact Hu|].
    split; [exact Hab|]. intros x Hx. destruct (Hs3 x Hx) as [Hold|[Hc Hu']].
    + destruct (Hs x Hold) as (js & Hujs & Hlt). exists js. split; [apply upd_at_app; exact Hujs|exact Hlt].
    + exists (length L). split; [apply (Hnew x Hc Hu')|eapply upd_at_lt; exact Hu].
Qed.

Lemma fold_push_cnt : forall l sq X m, (forall x, In x l -> forall m0, se_ev x <> TETimerEnd m0) ->
  qcnt (fold_left sq_push l sq) X m = qcnt sq X m.
Proof.
  induction l as [|x l IH]; intros sq X m Hl; cbn [fold_left]; [reflexivity|].
  rewrite IH by (intros y Hy; apply Hl; right; exact Hy).
  apply qcnt_push_other. apply Hl. left. reflexivity.
Qed.

Lemma network_stack_cnt : forall next sq bb net nowt sq' net' act X m,
  SB.wf_simq sq -> sim_network_stack next sq bb net nowt = Ok (sq', net', act) ->
  qcnt sq' X m = qcnt sq X m.
Proof.
  intros next sq bb net nowt sq' net' act X m Hwf H. unfold sim_network_stack in H.
  destruct (se_ev next) eqn:Eev; try (injection H as <- _ _; reflexivity).
  - destruct (se_pad next); injection H as <- _ _; apply qcnt_push_other; intros mm; cbn [se_ev]; discriminate.
  - injection H as <- _ _. apply qcnt_push_other; intros mm; cbn [se_ev]; discriminate.
  - assert (Hplain : forall pd by_ rp,
              qcnt (sq_push sq (mksev TETunnelSent (se_time next) (se_client next) pd by_ rp)) X m = qcnt sq X m).
    { intros pd by_ rp. apply qcnt_push_other; intros mm; cbn [se_ev]; discriminate. }
    destruct (se_replace next); [|injection H as <- _ _; apply Hplain].
    destruct (sq_peek_blocking sq bb (se_client next)) as [[queued|] which] eqn:Epk;
      [|injection H as <- _ _; apply Hplain].
    destruct (Bool.eqb (se_client queued) (se_client next) && is_tunnel_sent (se_ev queued)
              && negb (se_pad queued)); [|injection H as <- _ _; apply Hplain].
    destruct (negb (se_bypass next)); [injection H as <- _ _; reflexivity|].
    destruct (sq_pop_blocking sq which bb (se_client next)
                (if se_client next then n_cagg net else n_sagg net)) as [[entry sq1]|] eqn:Epop;
      [|discriminate].
    injection H as <- _ _.
    apply sq_peek_blocking_qid in Epk.
    assert (Hp : exists w d, (w = QBlocking \/ w = QBypassable) /\ sq_pop sq w (se_client next) d = Some (entry, sq1)).
    { unfold sq_pop_blocking in Epop. destruct bb; eauto. }
    destruct Hp as (w & d & Hw & Hp).
    assert (Hent : se_ev entry = TETunnelSent).
    { pose proof (SB.sq_pop_ok _ _ _ _ _ _ Hwf Hp) as [_ Hk].
      destruct Hw as [-> | ->]; destruct Hk as [Hk _]; exact Hk. }
    rewrite qcnt_push_other by (intros mm; cbn [se_ev]; rewrite Hent; discriminate).
    pose proof (qcnt_pop _ _ _ _ _ _ X m Hwf Hp) as Hc.
    assert (Ht : tex entry X m = false).
    { unfold tex, is_tem. rewrite Hent. reflexivity. }
    rewrite Ht in Hc. cbn [ind] in Hc. lia.
  - destruct (net_sample net nowt (se_client next)) as [[net1 nd] baseline].
    destruct (negb (se_pad next)); injection H as <- _ _; apply qcnt_push_other; intros mm; cbn [se_ev]; discriminate.
Qed.

Definition AT (L : list hrec) (now : Z) (st : sim) : Prop :=
  (forall X m, (qcnt (m_sq st) X m <= 1)%nat) /\
  forall X m, exists A, ends_ok L X m A /\
    pend L now (qcnt (m_sq st) X m) (slotv (s_timers (side_of st X)) m) X m A.

Lemma step_AT : forall L cc sc tp fuel st now next st1 bb sq2 net2 act sd' sq3 pos3 st3,
  QOK L now (m_sq st) -> SL L st -> AT L now st -> pick_next fuel st now = Ok (Some next, st1) ->
  sim_network_stack next (m_sq st1) bb (m_net st1) (se_time next) = Ok (sq2, net2, act) ->
  trigger_update (if se_client next then cc else sc) tp (side_of st1 (se_client next)) (m_pos st1)
                 next (se_time next) sq2 (se_client next) = Ok (sd', sq3, pos3) ->
  m_sq st3 = sq3 -> side_of st3 (se_client next) = sd' ->
  side_of st3 (negb (se_client next)) = side_of st1 (negb (se_client next)) ->
  AT (L ++ [mkhrec next (acts_for cc sc tp st1 next)]) (se_time next) st3.
Proof.
  intros L cc sc tp fuel st now next st1 bb sq2 net2 act sd' sq3 pos3 st3 HQ HS [Hc1 HA] Hp En Htu E3q E3x E3o.
  destruct (pick_next_tinv _ _ _ _ _ _ HQ HS Hp) as (HQ1 & _ & _).
  pose proof (pick_count _ _ _ _ _ (proj1 HQ) (proj1 (proj2 HQ)) Hp) as Hcnt.
  destruct (trigger_update_acts _ _ _ _ _ _ _ _ _ _ _ Htu) as (fw' & acts & Et & Ea).
  assert (Hacts : acts_for cc sc tp st1 next = acts).
  { unfold acts_for. unfold side_of in Et. destruct (se_client next); rewrite Et; reflexivity. }
  rewrite Hacts in *.
  pose proof (apply_actions_slotv _ _ _ _ _ _ _ Ea) as Hslot. cbn [side_set_fw s_timers] in Hslot.
  destruct (apply_actions_spec _ _ _ _ _ _ _ Ea) as (_ & _ & _ & _ & Esq3 & _).
  cbn [side_set_fw s_timers] in Esq3.
  assert (Hq3 : forall X m, qcnt (m_sq st3) X m = qcnt (m_sq st1) X m).
  { intros X m. rewrite E3q, Esq3. rewrite fold_push_cnt.
    - eapply network_stack_cnt; [exact (proj1 (proj1 HQ1))|exact En].
    - intros x Hx m0. apply timer_begins_in in Hx. destruct Hx as (m1 & dur & rp & -> & _). cbn [se_ev]. discriminate. }
  (* a queued TimerEnd pins the time *)
  assert (Hpin : forall X m, qcnt (m_sq st) X m <> 0%nat -> se_time next = now).
  { intros X m Hc. assert (Hq : queued_end (m_sq st) X m) by (apply qcnt_pos; lia).
    destruct Hq as (e & He & Hev).
    destruct (proj2 (proj2 HQ) X e He) as [_ Hte]. destruct (Hte m Hev) as [Hnow _].
    assert (Hle : (se_time e <= now)%Z) by lia.
    destruct (pick_pinned _ _ _ _ _ X e (proj1 HQ) (proj1 (proj2 HQ)) He Hle Hp) as (Ht & _). exact Ht. }
  set (r := mkhrec next acts).
  (* per timer: counts, fired flag, slot *)
  assert (Hper : forall X m, exists f : bool,
            (qcnt (m_sq st1) X m + ind (tex next X m) = ind f + qcnt (m_sq st) X m)%nat /\
            (f = false -> slotv (s_timers (side_of st1 X)) m = slotv (s_timers (side_of st X)) m) /\
            (f = true -> slotv (s_timers (side_of st X)) m = Some (se_time next) /\
                         slotv (s_timers (side_of st1 X)) m = None /\ qcnt (m_sq st) X m = 0%nat)).
  { intros X m. destruct Hcnt as [(Tc & Ts & C)|(ic & mi & Hn & Hu & Ho & Hnd & C)].
    - exists false. split; [cbn [ind]; apply C|]. split; [|discriminate].
      intros _. destruct X; cbn [side_of]; congruence.
    - assert (Hzero : forall X0 m0, qcnt (m_sq st) X0 m0 = 0%nat).
      { intros X0 m0. destruct (qcnt (m_sq st) X0 m0) eqn:E; [reflexivity|]. exfalso.
        assert (Hq : queued_end (m_sq st) X0 m0) by (apply qcnt_pos; lia).
        destruct Hq as (e & He & Hev). destruct (proj2 (proj2 HQ) X0 e He) as [_ Hte].
        destruct (Hte m0 Hev) as [Hnow _]. pose proof (Hnd X0 e He). lia. }
      exists (Bool.eqb ic X && N.eqb (N.of_nat mi) m). split; [apply C|].
      assert (Hlt : (mi < length (s_timers (side_of st ic)))%nat) by (apply nth_error_Some; congruence).
      destruct (Bool.eqb ic X) eqn:EX; cbn [andb].
      + apply Bool.eqb_prop in EX. subst X. rewrite Hu, (slotv_upd _ _ _ _ Hlt).
        destruct (N.eqb_spec (N.of_nat mi) m) as [<-|Hm].
        * split; [discriminate|]. intros _. split; [apply slotv_some; rewrite Nat2N.id; exact Hn|]. auto.
        * split; [reflexivity|discriminate].
      + split; [|discriminate]. intros _.
        assert (X = negb ic) by (destruct X, ic; try discriminate; reflexivity). subst X. rewrite Ho. reflexivity. }
  split.
  - intros X m. rewrite Hq3. destruct (Hper X m) as (f & C & _ & F1). pose proof (Hc1 X m).
    destruct f; cbn [ind] in C; [destruct (F1 eq_refl) as (_ & _ & Z0)|]; lia.
  - intros X m. destruct (HA X m) as (A & HE & HP). destruct (Hper X m) as (f & C & F0 & F1).
    destruct (at_pick L r X m A now (se_time next) (qcnt (m_sq st) X m) (qcnt (m_sq st1) X m)
                (tex next X m) f (slotv (s_timers (side_of st X)) m) (slotv (s_timers (side_of st1 X)) m)
                HE HP (Hc1 X m) C) as (A' & HE' & HP').
    + intros Ht. unfold tex in Ht. apply andb_prop in Ht. destruct Ht as [T1 T2].
      apply is_tem_true in T1. apply Bool.eqb_prop in T2. split; [split; assumption|reflexivity].
    + intros Ht [T1 T2]. unfold tex in Ht. cbn [r h_ev] in T1, T2.
      rewrite (proj2 (is_tem_true m next) T1), T2, Bool.eqb_reflx in Ht. discriminate Ht.
    + exact F0.
    + exact F1.
    + apply Hpin.
    + exists A'. split; [exact HE'|]. rewrite Hq3.
      eapply at_acts; [exact HE'|exact HP'|reflexivity|].
      intros x Hx. cbn [r h_ev h_acts].
      destruct (bool_dec X (se_client next)) as [->|Hne].
      * rewrite E3x, Hslot in Hx. apply timer_after_some in Hx.
        destruct Hx as [(dur & rp & Hin & ->)|Hx]; [right; split; [reflexivity|eauto]|left; exact Hx].
      * apply neq_negb in Hne. subst X. rewrite E3o in Hx. left. exact Hx.
Qed.

Definition EndsAll (H : list hrec) : Prop := forall X m, exists A, ends_ok H X m A.

Lemma loop_at : forall cc sc tp args fuel st now hist iters H,
  GI (rev hist) now st -> AT (rev hist) now st ->
  sim_loop_h fuel cc sc tp args st now hist iters = Ok H -> EndsAll H.
Proof.
  intros cc sc tp args. induction fuel as [|fuel IH]; intros st now hist iters H HGI HAT Hrun;
    [discriminate Hrun|].
  assert (Hnow : EndsAll (rev hist)).
  { intros X m. destruct (proj2 HAT X m) as (A & HE & _). exists A. exact HE. }
  cbn [sim_loop_h] in Hrun.
  destruct (pick_next (pn_fuel st) st now) as [[nx st1]|k|] eqn:Ep; cbn [bind] in Hrun; try discriminate.
  destruct nx as [next|]; [|injection Hrun as <-; exact Hnow].
  destruct (se_time next <? now)%Z; [discriminate|].
  destruct (sim_network_stack next (m_sq st1) _ (m_net st1) (se_time next)) as [[[sq2 net2] act]|k|] eqn:En;
    cbn [bind] in Hrun; try discriminate.
  set (r := mkhrec next (acts_for cc sc tp st1 next)) in *.
  assert (Hstep : exists sd' sq3 pos3 st3,
            trigger_update (if se_client next then cc else sc) tp (side_of st1 (se_client next)) (m_pos st1)
                           next (se_time next) sq2 (se_client next) = Ok (sd', sq3, pos3) /\
            m_sq st3 = sq3 /\ side_of st3 (se_client next) = sd' /\
            side_of st3 (negb (se_client next)) = side_of st1 (negb (se_client next)) /\
            (let hist' := r :: hist in
             (if (0 <? a_max_trace args) && (a_max_trace args <=? N.of_nat (length hist')) then Ok (rev hist')
              else
                let iters' := iters + 1 in
                if (0 <? a_max_iter args) && (a_max_iter args <=? iters') then Ok (rev hist')
                else if negb (a_continue args) && sq_no_normal sq3 then Ok (rev hist')
                else sim_loop_h fuel cc sc tp args st3 (se_time next) hist' iters') = Ok H)).
  { destruct (se_client next) eqn:Ec.
    - destruct (trigger_update cc tp (m_c st1) (m_pos st1) next (se_time next) sq2 true)
        as [[[c' sq'] p']|k|] eqn:Et; cbn [bind] in Hrun; try discriminate.
      exists c', sq', p', (mksim sq' c' (m_s st1) net2 p'). cbn [side_of negb m_sq m_c m_s].
      split; [exact Et|]. split; [reflexivity|]. split; [reflexivity|]. split; [reflexivity|exact Hrun].
    - destruct (trigger_update sc tp (m_s st1) (m_pos st1) next (se_time next) sq2 false)
        as [[[s' sq'] p']|k|] eqn:Et; cbn [bind] in Hrun; try discriminate.
      exists s', sq', p', (mksim sq' (m_c st1) s' net2 p'). cbn [side_of negb m_sq m_c m_s].
      split; [exact Et|]. split; [reflexivity|]. split; [reflexivity|]. split; [reflexivity|exact Hrun]. }
  clear Hrun. destruct Hstep as (sd' & sq3 & pos3 & st3 & Htu & E3q & E3x & E3o & Hrun). cbv zeta in Hrun.
  pose proof (step_GI _ cc sc tp _ _ _ _ _ _ _ _ _ _ _ _ st3 HGI Ep En Htu E3q E3x E3o) as HGI3.
  pose proof (step_AT _ cc sc tp _ _ _ _ _ _ _ _ _ _ _ _ st3 (gi_q _ _ _ HGI) (gi_sl _ _ _ HGI) HAT
                Ep En Htu E3q E3x E3o) as HAT3.
  change (rev hist ++ [mkhrec next (acts_for cc sc tp st1 next)]) with (rev (r :: hist)) in HGI3, HAT3.
  assert (Hfin : EndsAll (rev (r :: hist))).
  { intros X m. destruct (proj2 HAT3 X m) as (A & HE & _). exists A. exact HE. }
  destruct (_ && _) in Hrun; [injection Hrun as <-; exact Hfin|].
  destruct (_ && _) in Hrun; [injection Hrun as <-; exact Hfin|].
  destruct (_ && _) in Hrun; [injection Hrun as <-; exact Hfin|].
  eapply IH; [exact HGI3|exact HAT3|exact Hrun].
Qed.

Lemma init_AT : forall cc sc tp sq delay pps st0 t0,
  sim_init cc sc tp sq delay pps st0 t0 -> start_ok sq -> AT [] t0 st0.
Proof.
  intros cc sc tp sq delay pps st0 t0 (cfw & sfw & net & _ & _ & _ & _ & ->) [_ Hn].
  assert (Hz : forall X m, qcnt sq X m = 0%nat).
  { intros X m. destruct (qcnt sq X m) eqn:E; [reflexivity|]. exfalso.
    assert (Hq : queued_end sq X m) by (apply qcnt_pos; lia). destruct Hq as (e & He & Hev).
    destruct (Hn X e He m) as [_ C]. exact (C Hev). }
  cbn [m_sq]. split; [intros X m; rewrite Hz; lia|].
  intros X m. exists (fun _ => 0%nat). split.
  - split; [intros k rk Hk; destruct k; discriminate Hk|intros k1 k2 r1 r2 _ Hk; destruct k1; discriminate Hk].
  - rewrite Hz. split; [|intros C; contradiction]. intros _ x Hx. exfalso.
    apply slotv_some in Hx. apply nth_error_In in Hx.
    destruct X; cbn [side_of m_c m_s new_side s_timers] in Hx; apply in_map_iff in Hx;
      destruct Hx as (y & Hy & _); discriminate Hy.
Qed.

Theorem run_ends : forall fuel cc sc tp args st0 t0 H sq delay pps,
  sim_init cc sc tp sq delay pps st0 t0 -> SB.sq_inv sq -> start_ok sq ->
  sim_loop_h fuel cc sc tp args st0 t0 [] 0 = Ok H -> EndsAll H.
Proof.
  intros fuel cc sc tp args st0 t0 H sq delay pps Hi Hinv Hs Hrun.
  eapply loop_at; [| |exact Hrun]; cbn [rev].
  - eapply init_GI; eauto.
  - eapply init_AT; eauto.
Qed.

(** * 11. C18, the converse direction, for ALL runs on parsed traces *)
(** (a) whenever an UpdateTimer sets or changes the timer, judged by the attribution-aware replay
        [treplay'], a TimerBegin for that machine is reported on that side at that instant before
        simulated time moves on. One corner is excluded: a zero-duration, non-replacing update at an instant
        t at which the replay has no timer running AND a TimerEnd of that machine and side was already
        reported at t (the replay cannot tell from the history whether that TimerEnd ended a zero-duration
        re-arm of instant t or the timer before it; in the second case the re-arm is still running and the
        update changes nothing). We do not know a run in which the exclusion matters.
    (a+) the same with the timer judged after the event of record j itself ([after_event']).
    (b) if the replay says the timer of m runs with expiry e, then before simulated time moves past e a
        TimerEnd for m is reported exactly at e, unless a timer action for m was returned first, at e or
        earlier. (As in SimTimerLive.v, now without any hypothesis.)
    (c) attribution: for every machine and side there is a map A from the TimerEnd records to EARLIER
        records carrying an UpdateTimer for that machine on that side whose expiry (instant + duration) is
        the instant of the TimerEnd, and A is strictly increasing (so no UpdateTimer accounts for two
        TimerEnd: "at most once"). *)
Definition live_gen (H : list hrec) : Prop :=
  (forall j rj m dur rp k' rk',
     nth_error H j = Some rj -> In (TUpdateTimer m dur rp) (h_acts rj) ->
     let X := se_client (h_ev rj) in let t := se_time (h_ev rj) in
     (rp = true \/
      (treplay' X m H j = None /\ (0 < dur \/ ~ stale_before H j X m t)) \/
      (exists u, treplay' X m H j = Some u /\ (u < t + Z.of_N dur)%Z)) ->
     (j < k')%nat -> nth_error H k' = Some rk' -> (t < se_time (h_ev rk'))%Z ->
     exists k rk, (j < k < k')%nat /\ nth_error H k = Some rk /\ se_ev (h_ev rk) = TETimerBegin m /\
                  se_client (h_ev rk) = X /\ se_time (h_ev rk) = t) /\
  (forall j rj m dur rp k' rk',
     nth_error H j = Some rj -> In (TUpdateTimer m dur rp) (h_acts rj) ->
     let X := se_client (h_ev rj) in let t := se_time (h_ev rj) in
     let cur := after_event' (se_ev (h_ev rj)) m t (treplay' X m H j) in
     (rp = true \/
      (cur = None /\ (0 < dur \/ ~ stale_before H (S j) X m t)) \/
      (exists u, cur = Some u /\ (u < t + Z.of_N dur)%Z)) ->
     (j < k')%nat -> nth_error H k' = Some rk' -> (t < se_time (h_ev rk'))%Z ->
     exists k rk, (j < k < k')%nat /\ nth_error H k = Some rk /\ se_ev (h_ev rk) = TETimerBegin m /\
                  se_client (h_ev rk) = X /\ se_time (h_ev rk) = t) /\
  (forall j m e k' rk' X,
     (j <= length H)%nat -> treplay' X m H j = Some e ->
     (j <= k')%nat -> nth_error H k' = Some rk' -> (e < se_time (h_ev rk'))%Z ->
     (exists k rk, (j <= k < k')%nat /\ nth_error H k = Some rk /\ se_ev (h_ev rk) = TETimerEnd m /\
                   se_client (h_ev rk) = X /\ se_time (h_ev rk) = e) \/
     (exists j' rj' a', (j <= j' < k')%nat /\ nth_error H j' = Some rj' /\ se_client (h_ev rj') = X /\
                   In a' (h_acts rj') /\ is_timer_for m a' = true /\ (se_time (h_ev rj') <= e)%Z)) /\
  (forall X m, exists A : nat -> nat,
     (forall k rk, nth_error H k = Some rk -> se_ev (h_ev rk) = TETimerEnd m -> se_client (h_ev rk) = X ->
        (A k < k)%nat /\
        exists rj dur rp, nth_error H (A k) = Some rj /\ se_client (h_ev rj) = X /\
          In (TUpdateTimer m dur rp) (h_acts rj) /\
          se_time (h_ev rk) = (se_time (h_ev rj) + Z.of_N dur)%Z) /\
     (forall k1 k2 r1 r2, (k1 < k2)%nat -> nth_error H k1 = Some r1 -> nth_error H k2 = Some r2 ->
        se_ev (h_ev r1) = TETimerEnd m -> se_client (h_ev r1) = X ->
        se_ev (h_ev r2) = TETimerEnd m -> se_client (h_ev r2) = X -> (A k1 < A k2)%nat)).

Lemma live_gen_of : forall H, GoodA' H -> RecB' H -> EndsAll H -> live_gen H.
Proof.
  intros H HG HR HE. split; [|split; [|split]].
  - intros j rj m dur rp k' rk' Hn Hin X t Hc Hlt Hk' Ht.
    assert (Ho : owed' H j X m t).
    { exists rj, dur, rp. split; [exact Hn|]. split; [reflexivity|]. split; [reflexivity|].
      split; [exact Hin|]. left. exact Hc. }
    destruct (HG _ _ _ _ _ _ Ho Hlt Hk' Ht) as (k & Hk & rk & Hrest). exists k, rk. auto.
  - intros j rj m dur rp k' rk' Hn Hin X t cur Hc Hlt Hk' Ht.
    assert (Ho : owed' H j X m t).
    { exists rj, dur, rp. split; [exact Hn|]. split; [reflexivity|]. split; [reflexivity|].
      split; [exact Hin|]. right. exact Hc. }
    destruct (HG _ _ _ _ _ _ Ho Hlt Hk' Ht) as (k & Hk & rk & Hrest). exists k, rk. auto.
  - apply live_end'. exact HR.
  - intros X m. destruct (HE X m) as (A & H1 & H2). exists A. split.
    + intros k rk Hn Hev Hcl. destruct (H1 k rk Hn (conj Hev Hcl)) as [Hlt (rj & dur & rp & A1 & A2 & A3 & A4)].
      split; [exact Hlt|]. exists rj, dur, rp. auto.
    + intros k1 k2 r1 r2 Hlt Hn1 Hn2 E1 C1 E2 C2. exact (H2 k1 k2 r1 r2 Hlt Hn1 Hn2 (conj E1 C1) (conj E2 C2)).
Qed.

Theorem timers_live_gen : forall fuel cc sc tp tr delay pps args out,
  full_args args ->
  sim_advanced fuel cc sc tp (parse_trace tr delay) delay pps args = Ok out ->
  exists H : list hrec, out = map h_ev H /\ live_gen H.
Proof.
  intros fuel cc sc tp tr delay pps args out Hf Hrun.
  destruct (sim_advanced_history _ _ _ _ _ _ _ _ _ Hf Hrun) as (st0 & t0 & H & Hi & Hl & ->).
  exists H. split; [reflexivity|].
  destruct (run_gen fuel cc sc tp args st0 t0 H _ delay pps Hi (SB.parse_trace_inv tr delay)
              (parse_trace_start tr delay) Hl) as [HG HR].
  pose proof (run_ends fuel cc sc tp args st0 t0 H _ delay pps Hi (SB.parse_trace_inv tr delay)
                (parse_trace_start tr delay) Hl) as HE.
  apply live_gen_of; assumption.
Qed.

(** (c) for two TimerEnd records: they are the ends of two different earlier updates, in order *)
Corollary live_gen_once : forall H, live_gen H ->
  forall X m k1 k2 r1 r2, (k1 < k2)%nat -> nth_error H k1 = Some r1 -> nth_error H k2 = Some r2 ->
    se_ev (h_ev r1) = TETimerEnd m -> se_client (h_ev r1) = X ->
    se_ev (h_ev r2) = TETimerEnd m -> se_client (h_ev r2) = X ->
    exists j1 j2 rj1 rj2 d1 d2 p1 p2, (j1 < j2)%nat /\ (j1 < k1)%nat /\ (j2 < k2)%nat /\
      nth_error H j1 = Some rj1 /\ nth_error H j2 = Some rj2 /\
      se_client (h_ev rj1) = X /\ se_client (h_ev rj2) = X /\
      In (TUpdateTimer m d1 p1) (h_acts rj1) /\ In (TUpdateTimer m d2 p2) (h_acts rj2) /\
      se_time (h_ev r1) = (se_time (h_ev rj1) + Z.of_N d1)%Z /\
      se_time (h_ev r2) = (se_time (h_ev rj2) + Z.of_N d2)%Z.
Proof.
  intros H (_ & _ & _ & HC) X m k1 k2 r1 r2 Hlt H1 H2 E1 C1 E2 C2.
  destruct (HC X m) as (A & HA & HM).
  destruct (HA k1 r1 H1 E1 C1) as [L1 (rj1 & d1 & p1 & N1 & X1 & I1 & T1)].
  destruct (HA k2 r2 H2 E2 C2) as [L2 (rj2 & d2 & p2 & N2 & X2 & I2 & T2)].
  exists (A k1), (A k2), rj1, rj2, d1, d2, p1, p2.
  split; [exact (HM k1 k2 r1 r2 Hlt H1 H2 E1 C1 E2 C2)|]. auto 12.
Qed.

(** * 12. Non-vacuity: the general statements hold on the counterexample runs of SimTimerLive.v *)
Example lvA_live_gen : live_gen lvA_H /\ live_gen lvC_H.
Proof.
  split.
  - destruct lvA_run as (_ & _ & st0 & t0 & Hi & Hl).
    destruct (run_gen _ _ _ _ _ _ _ _ _ _ _ Hi (SB.parse_trace_inv lv_tr 1000) (parse_trace_start lv_tr 1000) Hl)
      as [HG HR].
    pose proof (run_ends _ _ _ _ _ _ _ _ _ _ _ Hi (SB.parse_trace_inv lv_tr 1000) (parse_trace_start lv_tr 1000) Hl).
    apply live_gen_of; assumption.
  - destruct lvC_run as (_ & _ & st0 & t0 & Hi & Hl).
    destruct (run_gen _ _ _ _ _ _ _ _ _ _ _ Hi (SB.parse_trace_inv lv_tr 1000) (parse_trace_start lv_tr 1000) Hl)
      as [HG HR].
    pose proof (run_ends _ _ _ _ _ _ _ _ _ _ _ Hi (SB.parse_trace_inv lv_tr 1000) (parse_trace_start lv_tr 1000) Hl).
    apply live_gen_of; assumption.
Qed.

(** on run A the new replay follows the model where the old one went wrong: record 10 (the held bypass
    TunnelSent at 5.01 ms) carries UpdateTimer 3 (4 ms): the replay is Some 5.01 ms before and Some 9.01 ms
    after; the stale TimerEnd of record 12 (5.01 ms) leaves it at 9.01 ms; the UpdateTimer 3 (1 ms, no
    replace) of record 13 at 6.01 ms does not reach beyond 9.01 ms, so nothing is owed; record 14 is the
    TimerEnd at 9.01 ms, exactly the replayed expiry. The two TimerEnd (records 12 and 14) are attributed
    to the updates of records 6 (10 us + 5 ms) and 10 (5.01 ms + 4 ms). *)
Example lvA_gen_facts :
  treplay' true 3 lvA_H 10 = Some 5010000%Z /\ treplay' true 3 lvA_H 11 = Some 9010000%Z /\
  treplay' true 3 lvA_H 12 = Some 9010000%Z /\ treplay' true 3 lvA_H 13 = Some 9010000%Z /\
  treplay' true 3 lvA_H 14 = Some 9010000%Z /\ treplay' true 3 lvA_H 15 = None /\
  (exists r6 r10 r12 r14,
     nth_error lvA_H 6 = Some r6 /\ In (TUpdateTimer 3 5000000 false) (h_acts r6) /\ se_time (h_ev r6) = 10000%Z /\
     nth_error lvA_H 10 = Some r10 /\ In (TUpdateTimer 3 4000000 false) (h_acts r10) /\ se_time (h_ev r10) = 5010000%Z /\
     nth_error lvA_H 12 = Some r12 /\ h_ev r12 = mksev (TETimerEnd 3) 5010000 true false false false /\
     nth_error lvA_H 14 = Some r14 /\ h_ev r14 = mksev (TETimerEnd 3) 9010000 true false false false).
Proof.
  repeat (split; [vm_compute; reflexivity|]).
  eexists _, _, _, _. repeat (split; [first [reflexivity | vm_compute; auto]|]). reflexivity.
Qed.

Print Assumptions timers_live_gen.
