(** Framework corollaries.

    1. Dispatch (C06, "the framework acts on the sampled target and on nothing
       else"): [transition_dispatch] unfolds exactly ONE layer of [transition]
       for a live machine into the four cases of the sampled target (none /
       END / SIGNAL / a regular state), the last one as the named continuation
       [trans_regular] (= limit sampling [enter_state], [below_action_limits],
       [update_counter], [schedule_action]). The case corollaries
       [transition_none], [transition_to_end], [transition_to_signal],
       [transition_to_regular], the frame corollaries [transition_none_frame],
       [transition_end_frame], [transition_signal_frame], and
       [transition_ended] (a machine in END is never moved) follow, so later
       proofs never unfold [transition] again. [transition_live] gives the
       converse direction: a successful step is either at END or has a live
       machine to which the dispatch applies.

       NOTE (what the model does, mirroring framework.rs "we don't cancel any
       pending action"): on a transition to STATE_END the machine's slot is
       NOT cleared by [transition]; only [cur] changes. Slots are cleared at
       the start of the next call by [begin_call].

    2. History-level lifts: [run_calls] lists the calls of a run with the
       state before and after each; [signals_every_call] and
       [czero_every_call] state the per-call theorems C09_call and C08_once
       for every call of every history started from [fnew] (also in the
       [nth_error]/[firstn] formulation, [..._nth]). [flog] and [nsteps] are
       reset by [begin_call], so [flog sa] of a call is the log of that call
       only. (END absorbing for whole histories is C04_end_absorbing.)

    3. Non-vacuity examples by [vm_compute]. *)
From MB Require Import Model.Framework.
From MB Require Import Proofs.Tactics Proofs.ListFacts Proofs.FrameworkStructure.
From MB Require Import Proofs.FrameworkInv Proofs.FrameworkSlots Proofs.Signals Proofs.Limits Proofs.Counters.
Open Scope N_scope.

(** * 1. Dispatch *)

(** the state on entry into [transition]: LOG_TRANS entry, one more step *)
Definition trans_enter (s : fstate) (mi : nat) (ev : event) : fstate :=
  add_step (add_log s (LOG_TRANS, N.of_nat mi, N.of_nat (event_idx ev))).

(** ... after the draw of [sample_state] moved the tape position to [p'] *)
Definition trans_drawn (s : fstate) (mi : nat) (ev : event) (p' : nat) : fstate :=
  set_pos (trans_enter s mi ev) p'.

(** ... after logging the sampled target [ns] *)
Definition trans_next (s : fstate) (mi : nat) (ev : event) (p' : nat) (ns : N) : fstate :=
  add_log (trans_drawn s mi ev p') (LOG_NEXT, N.of_nat mi, ns).

(** entering state [ns]: if it differs from the current one, a fresh limit is
    sampled for its action *)
Definition enter_state (tp : tape) (s : fstate) (mi : nat) (r : mrt) (m : machine) (ns : N)
  : outcome fstate :=
  if negb (cur r =? ns) then
    nst <- getN (states m) ns ;;
    let '(l, p) := match saction nst with
                   | Some a => sample_limit tp (pos s) a
                   | None => (STATE_LIMIT_MAX, pos s)
                   end in
    Ok (set_pos (set_rt (add_log s (LOG_CHANGE, N.of_nat mi, ns)) mi (rt_set_cur r ns l)) p)
  else Ok s.

(** the continuation for a regular target [ns]; [r] is the runtime of the
    machine before the step, [fuel] the fuel left for the nested CounterZero
    transitions of [update_counter] *)
Definition trans_regular (fuel : nat) (c : cfg) (tp : tape) (s : fstate) (mi : nat)
           (r : mrt) (m : machine) (ns : N) : outcome (fstate * bool) :=
  s <- enter_state tp s mi r m ns ;;
  r1 <- get (rts s) mi ;;
  below <- below_action_limits c s r1 m ;;
  '(s, allow, changed) <- update_counter (transition fuel c tp) c tp s mi ;;
  s <- (if allow && below then schedule_action c tp s mi ns else Ok s) ;;
  r2 <- get (rts s) mi ;;
  Ok (s, negb ((cur r =? cur r2) && negb changed)).

(** the four cases *)
Definition dispatch (fuel : nat) (c : cfg) (tp : tape) (s : fstate) (mi : nat) (ev : event)
           (r : mrt) (m : machine) (o : option N) (p' : nat) : outcome (fstate * bool) :=
  match o with
  | None => Ok (trans_drawn s mi ev p', false)
  | Some ns =>
      if ns =? STATE_END then
        Ok (set_rt (trans_next s mi ev p' ns) mi (rt_set_cur r STATE_END (lim r)), true)
      else if ns =? STATE_SIGNAL then
        Ok (set_sigp (add_log (trans_next s mi ev p' ns) (LOG_SIGSET, N.of_nat mi, 0))
                     (Some (sig_join (sigp s) mi)), false)
      else trans_regular fuel c tp (trans_next s mi ev p' ns) mi r m ns
  end.

Theorem transition_dispatch : forall fuel c tp s mi ev r m st o p',
  nth_error (rts s) mi = Some r -> cur r <> STATE_END ->
  nth_error (machines c) mi = Some m -> nthN (states m) (cur r) = Some st ->
  sample_state tp (pos s) st ev = (o, p') ->
  transition (S fuel) c tp s mi ev = dispatch fuel c tp s mi ev r m o p'.
Proof.
  intros fuel c tp s mi ev r m st o p' Hr Hne Hm Hst Hs.
  cbn [transition]. unfold get at 1. cbn [rts add_step add_log]. rewrite Hr. cbn [bind].
  apply N.eqb_neq in Hne. rewrite Hne.
  unfold get at 1. rewrite Hm. cbn [bind]. unfold getN at 1. rewrite Hst. cbn [bind].
  cbn [pos add_step add_log]. rewrite Hs.
  unfold dispatch. destruct o as [ns|]; reflexivity.
Qed.

(** ** the cases, one lemma each *)

Lemma transition_none : forall fuel c tp s mi ev r m st p',
  nth_error (rts s) mi = Some r -> cur r <> STATE_END ->
  nth_error (machines c) mi = Some m -> nthN (states m) (cur r) = Some st ->
  sample_state tp (pos s) st ev = (None, p') ->
  transition (S fuel) c tp s mi ev = Ok (trans_drawn s mi ev p', false).
Proof.
  intros fuel c tp s mi ev r m st p' Hr Hne Hm Hst Hs.
  rewrite (transition_dispatch fuel c tp s mi ev r m st None p' Hr Hne Hm Hst Hs). reflexivity.
Qed.

Lemma transition_to_end : forall fuel c tp s mi ev r m st p',
  nth_error (rts s) mi = Some r -> cur r <> STATE_END ->
  nth_error (machines c) mi = Some m -> nthN (states m) (cur r) = Some st ->
  sample_state tp (pos s) st ev = (Some STATE_END, p') ->
  transition (S fuel) c tp s mi ev =
  Ok (set_rt (trans_next s mi ev p' STATE_END) mi (rt_set_cur r STATE_END (lim r)), true).
Proof.
  intros fuel c tp s mi ev r m st p' Hr Hne Hm Hst Hs.
  rewrite (transition_dispatch fuel c tp s mi ev r m st _ p' Hr Hne Hm Hst Hs).
  unfold dispatch. rewrite N.eqb_refl. reflexivity.
Qed.

Lemma signal_not_end : (STATE_SIGNAL =? STATE_END) = false.
Proof. vm_compute. reflexivity. Qed.

Lemma transition_to_signal : forall fuel c tp s mi ev r m st p',
  nth_error (rts s) mi = Some r -> cur r <> STATE_END ->
  nth_error (machines c) mi = Some m -> nthN (states m) (cur r) = Some st ->
  sample_state tp (pos s) st ev = (Some STATE_SIGNAL, p') ->
  transition (S fuel) c tp s mi ev =
  Ok (set_sigp (add_log (trans_next s mi ev p' STATE_SIGNAL) (LOG_SIGSET, N.of_nat mi, 0))
               (Some (sig_join (sigp s) mi)), false).
Proof.
  intros fuel c tp s mi ev r m st p' Hr Hne Hm Hst Hs.
  rewrite (transition_dispatch fuel c tp s mi ev r m st _ p' Hr Hne Hm Hst Hs).
  unfold dispatch. rewrite signal_not_end, N.eqb_refl. reflexivity.
Qed.

Lemma transition_to_regular : forall fuel c tp s mi ev r m st ns p',
  nth_error (rts s) mi = Some r -> cur r <> STATE_END ->
  nth_error (machines c) mi = Some m -> nthN (states m) (cur r) = Some st ->
  sample_state tp (pos s) st ev = (Some ns, p') ->
  ns <> STATE_END -> ns <> STATE_SIGNAL ->
  transition (S fuel) c tp s mi ev = trans_regular fuel c tp (trans_next s mi ev p' ns) mi r m ns.
Proof.
  intros fuel c tp s mi ev r m st ns p' Hr Hne Hm Hst Hs H1 H2.
  rewrite (transition_dispatch fuel c tp s mi ev r m st _ p' Hr Hne Hm Hst Hs).
  unfold dispatch. apply N.eqb_neq in H1, H2. rewrite H1, H2. reflexivity.
Qed.

(** the draw reads at most one tape entry, and exactly one iff the state
    declares a vector for the event *)
Lemma sample_state_pos_cases : forall tp p st ev o p',
  sample_state tp p st ev = (o, p') ->
  (p' = p /\ o = None /\ forall v, nth_error (strans st) (event_idx ev) <> Some (Some v)) \/
  (p' = S p /\ exists v, nth_error (strans st) (event_idx ev) = Some (Some v) /\
                         o = pick_trans v f32_zero (f32_of_k (tp p mod 8388608))).
Proof.
  unfold sample_state; intros tp p st ev o p' H.
  destruct (nth_error (strans st) (event_idx ev)) as [[v|]|].
  - right. inversion H; subst. split; [reflexivity|]. exists v. auto.
  - left. inversion H; subst. repeat split; auto. intros v Hv; discriminate Hv.
  - left. inversion H; subst. repeat split; auto. intros v Hv; discriminate Hv.
Qed.

(** ** frame corollaries *)

(** everything except the tape position, the step counter and the log *)
Definition same_but_pos_log (s s1 : fstate) : Prop :=
  now s1 = now s /\ fstart s1 = fstart s /\ rts s1 = rts s /\ slots s1 = slots s /\
  gnorm s1 = gnorm s /\ gpad s1 = gpad s /\ gblk s1 = gblk s /\ bstart s1 = bstart s /\
  bactive s1 = bactive s /\ sigp s1 = sigp s.

(** no target sampled (no vector, an empty one, or the draw fell into the
    remainder 1 - sum): only [pos], the step counter and the log change *)
Theorem transition_none_frame : forall fuel c tp s mi ev r m st p',
  nth_error (rts s) mi = Some r -> cur r <> STATE_END ->
  nth_error (machines c) mi = Some m -> nthN (states m) (cur r) = Some st ->
  sample_state tp (pos s) st ev = (None, p') ->
  exists s1, transition (S fuel) c tp s mi ev = Ok (s1, false) /\
    same_but_pos_log s s1 /\
    pos s1 = p' /\ (p' = pos s \/ p' = S (pos s)) /\
    nsteps s1 = nsteps s + 1 /\
    flog s1 = (LOG_TRANS, N.of_nat mi, N.of_nat (event_idx ev)) :: flog s.
Proof.
  intros fuel c tp s mi ev r m st p' Hr Hne Hm Hst Hs.
  exists (trans_drawn s mi ev p'). split; [eapply transition_none; eassumption|].
  split; [unfold same_but_pos_log; cbn; repeat split; reflexivity|].
  split; [reflexivity|]. split; [|split; reflexivity].
  destruct (sample_state_pos_cases _ _ _ _ _ _ Hs) as [(-> & _)|(-> & _)]; auto.
Qed.

(** target END: the machine's [cur] becomes END (limit kept), every other
    runtime, ALL slots (the machine's own included: nothing is cancelled),
    the accounting and the pending signal are unchanged *)
Theorem transition_end_frame : forall fuel c tp s mi ev r m st p',
  nth_error (rts s) mi = Some r -> cur r <> STATE_END ->
  nth_error (machines c) mi = Some m -> nthN (states m) (cur r) = Some st ->
  sample_state tp (pos s) st ev = (Some STATE_END, p') ->
  exists s1, transition (S fuel) c tp s mi ev = Ok (s1, true) /\
    rts s1 = upd (rts s) mi (rt_set_cur r STATE_END (lim r)) /\
    nth_error (rts s1) mi = Some (rt_set_cur r STATE_END (lim r)) /\
    (forall j, j <> mi -> nth_error (rts s1) j = nth_error (rts s) j) /\
    slots s1 = slots s /\ sigp s1 = sigp s /\
    now s1 = now s /\ fstart s1 = fstart s /\
    gnorm s1 = gnorm s /\ gpad s1 = gpad s /\ gblk s1 = gblk s /\ bstart s1 = bstart s /\
    bactive s1 = bactive s /\
    pos s1 = p' /\ nsteps s1 = nsteps s + 1 /\
    flog s1 = (LOG_NEXT, N.of_nat mi, STATE_END)
              :: (LOG_TRANS, N.of_nat mi, N.of_nat (event_idx ev)) :: flog s.
Proof.
  intros fuel c tp s mi ev r m st p' Hr Hne Hm Hst Hs.
  eexists. split; [eapply transition_to_end; eassumption|].
  cbn [rts slots sigp now fstart gnorm gpad gblk bstart bactive pos nsteps flog
       set_rt set_rts trans_next trans_drawn trans_enter add_log add_step set_pos].
  split; [reflexivity|]. split.
  { apply nth_error_upd_eq. apply nth_error_Some. congruence. }
  split; [intros j Hj; apply nth_error_upd_neq; congruence|].
  repeat split; reflexivity.
Qed.

(** target SIGNAL: the machine does not move; the pending signal is joined
    with [mi]; runtimes, slots and accounting are unchanged *)
Theorem transition_signal_frame : forall fuel c tp s mi ev r m st p',
  nth_error (rts s) mi = Some r -> cur r <> STATE_END ->
  nth_error (machines c) mi = Some m -> nthN (states m) (cur r) = Some st ->
  sample_state tp (pos s) st ev = (Some STATE_SIGNAL, p') ->
  exists s1, transition (S fuel) c tp s mi ev = Ok (s1, false) /\
    rts s1 = rts s /\ slots s1 = slots s /\
    sigp s1 = Some (sig_join (sigp s) mi) /\
    now s1 = now s /\ fstart s1 = fstart s /\
    gnorm s1 = gnorm s /\ gpad s1 = gpad s /\ gblk s1 = gblk s /\ bstart s1 = bstart s /\
    bactive s1 = bactive s /\
    pos s1 = p' /\ nsteps s1 = nsteps s + 1 /\
    flog s1 = (LOG_SIGSET, N.of_nat mi, 0) :: (LOG_NEXT, N.of_nat mi, STATE_SIGNAL)
              :: (LOG_TRANS, N.of_nat mi, N.of_nat (event_idx ev)) :: flog s.
Proof.
  intros fuel c tp s mi ev r m st p' Hr Hne Hm Hst Hs.
  eexists. split; [eapply transition_to_signal; eassumption|].
  cbn [rts slots sigp now fstart gnorm gpad gblk bstart bactive pos nsteps flog set_sigp
       trans_next trans_drawn trans_enter add_log add_step set_pos].
  repeat split; reflexivity.
Qed.

(** a machine in END is never moved (reuses [transition_at_end]) *)
Theorem transition_ended : forall fuel c tp s mi ev r,
  nth_error (rts s) mi = Some r -> cur r = STATE_END ->
  exists s1, transition (S fuel) c tp s mi ev = Ok (s1, false) /\
    s1 = trans_enter s mi ev /\ same_but_pos_log s s1 /\ pos s1 = pos s /\
    nsteps s1 = nsteps s + 1 /\
    flog s1 = (LOG_TRANS, N.of_nat mi, N.of_nat (event_idx ev)) :: flog s.
Proof.
  intros fuel c tp s mi ev r Hr Hc. exists (trans_enter s mi ev).
  split; [exact (transition_at_end fuel c tp s mi ev r Hr Hc)|].
  split; [reflexivity|]. split; [unfold same_but_pos_log; cbn; repeat split; reflexivity|].
  repeat split; reflexivity.
Qed.

(** converse: a step that returns normally was either on an ended machine or
    on a live one, to which the dispatch applies *)
Theorem transition_live : forall fuel c tp s mi ev s' b,
  transition (S fuel) c tp s mi ev = Ok (s', b) ->
  exists r, nth_error (rts s) mi = Some r /\
    ((cur r = STATE_END /\ s' = trans_enter s mi ev /\ b = false) \/
     (cur r <> STATE_END /\
      exists m st o p', nth_error (machines c) mi = Some m /\ nthN (states m) (cur r) = Some st /\
        sample_state tp (pos s) st ev = (o, p') /\
        dispatch fuel c tp s mi ev r m o p' = Ok (s', b))).
Proof.
  intros fuel c tp s mi ev s' b H.
  destruct (nth_error (rts s) mi) as [r|] eqn:Hr.
  2:{ cbn [transition] in H. unfold get at 1 in H. cbn [rts add_step add_log] in H.
      rewrite Hr in H. discriminate H. }
  exists r. split; [reflexivity|].
  destruct (N.eqb_spec (cur r) STATE_END) as [He|Hne].
  - left. rewrite (transition_at_end fuel c tp s mi ev r Hr He) in H. inversion H; subst. auto.
  - right. split; [exact Hne|].
    destruct (nth_error (machines c) mi) as [m|] eqn:Hm.
    2:{ cbn [transition] in H. unfold get at 1 in H. cbn [rts add_step add_log] in H.
        rewrite Hr in H. cbn [bind] in H. apply N.eqb_neq in Hne. rewrite Hne in H.
        unfold get at 1 in H. rewrite Hm in H. discriminate H. }
    destruct (nthN (states m) (cur r)) as [st|] eqn:Hst.
    2:{ cbn [transition] in H. unfold get at 1 in H. cbn [rts add_step add_log] in H.
        rewrite Hr in H. cbn [bind] in H. apply N.eqb_neq in Hne. rewrite Hne in H.
        unfold get at 1 in H. rewrite Hm in H. cbn [bind] in H.
        unfold getN at 1 in H. rewrite Hst in H. discriminate H. }
    destruct (sample_state tp (pos s) st ev) as [o p'] eqn:Hs.
    exists m, st, o, p'. split; [reflexivity|]. split; [exact Hst|]. split; [exact Hs|].
    rewrite <- (transition_dispatch fuel c tp s mi ev r m st o p' Hr Hne Hm Hst Hs). exact H.
Qed.

(** * 2. History-level lifts *)

(** one call of a history: state before, batch, time, state after, actions *)
Definition call := (fstate * list trigger_event * Z * fstate * list taction)%type.
Definition call_before (k : call) : fstate := fst (fst (fst (fst k))).
Definition call_after (k : call) : fstate := snd (fst k).
Definition call_acts (k : call) : list taction := snd k.

(** the calls of a run, with the state before and after each *)
Inductive run_calls (c : cfg) (tp : tape)
  : fstate -> list (list trigger_event * Z) -> list call -> Prop :=
| rc_nil : forall s, run_calls c tp s [] []
| rc_cons : forall s evs t s1 acts h cs,
    trigger_events c tp s evs t = Ok (s1, acts) ->
    run_calls c tp s1 h cs ->
    run_calls c tp s ((evs, t) :: h) ((s, evs, t, s1, acts) :: cs).

(** the state after the last call *)
Fixpoint final_state (s0 : fstate) (cs : list call) : fstate :=
  match cs with
  | [] => s0
  | k :: cs' => final_state (call_after k) cs'
  end.

(** a run that returns normally has exactly one list of calls *)
Lemma run_calls_of_run : forall c tp h s0 s outs,
  run c tp s0 h = Ok (s, outs) ->
  exists cs, run_calls c tp s0 h cs /\ map call_acts cs = outs /\ final_state s0 cs = s /\
             length cs = length h.
Proof.
  intros c tp h; induction h as [|[evs t] h IH]; intros s0 s outs H; cbn [run] in H.
  - inversion H; subst. exists []. repeat split; constructor.
  - mbind H as [s1 acts] E1. mbind H as [s2 rest] E2. inversion H; subst.
    destruct (IH _ _ _ E2) as (cs & Hc & Hm & Hf & Hl).
    exists ((s0, evs, t, s1, acts) :: cs). split; [constructor; assumption|].
    cbn [map call_acts snd final_state call_after fst length]. rewrite Hm, Hf, Hl. auto.
Qed.

Lemma run_of_run_calls : forall c tp s0 h cs,
  run_calls c tp s0 h cs -> run c tp s0 h = Ok (final_state s0 cs, map call_acts cs).
Proof.
  intros c tp s0 h cs H; induction H as [s|s evs t s1 acts h cs E _ IH]; cbn [run]; [reflexivity|].
  rewrite E. cbn [bind]. rewrite IH. reflexivity.
Qed.

Lemma run_calls_functional : forall c tp s0 h cs1 cs2,
  run_calls c tp s0 h cs1 -> run_calls c tp s0 h cs2 -> cs1 = cs2.
Proof.
  intros c tp s0 h cs1 cs2 H; revert cs2.
  induction H as [s|s evs t s1 acts h cs E _ IH]; intros cs2 H2; inversion H2; subst; [reflexivity|].
  match goal with Hx : trigger_events _ _ _ _ _ = Ok (?a, ?b) |- _ =>
    rewrite E in Hx; inversion Hx; subst end.
  f_equal. apply IH. assumption.
Qed.

(** every listed call is a [trigger_events] call *)
Lemma run_calls_In : forall c tp s0 h cs,
  run_calls c tp s0 h cs ->
  forall sb evs t sa acts, In (sb, evs, t, sa, acts) cs ->
    trigger_events c tp sb evs t = Ok (sa, acts).
Proof.
  intros c tp s0 h cs H; induction H as [s|s evs t s1 acts h cs E _ IH];
    intros sb evs' t' sa acts' Hin; [inversion Hin|].
  destruct Hin as [Heq|Hin]; [inversion Heq; subst; exact E|eapply IH; eauto].
Qed.

(** the k-th call starts in the state reached by the prefix run *)
Lemma run_calls_nth : forall c tp s0 h cs,
  run_calls c tp s0 h cs ->
  forall k sb evs t sa acts, nth_error cs k = Some (sb, evs, t, sa, acts) ->
    nth_error h k = Some (evs, t) /\
    run c tp s0 (firstn k h) = Ok (sb, map call_acts (firstn k cs)) /\
    trigger_events c tp sb evs t = Ok (sa, acts).
Proof.
  intros c tp s0 h cs H; induction H as [s|s evs t s1 acts h cs E _ IH];
    intros k sb evs' t' sa acts' Hk; [destruct k; discriminate Hk|].
  destruct k as [|k]; cbn [nth_error firstn] in *.
  - inversion Hk; subst. cbn [run map]. auto.
  - destruct (IH _ _ _ _ _ _ Hk) as (H1 & H2 & H3). split; [exact H1|]. split; [|exact H3].
    cbn [run map call_acts snd]. rewrite E. cbn [bind]. rewrite H2. reflexivity.
Qed.

(** the [nth_error]/[firstn] formulation, without [run_calls] *)
Lemma run_nth_call : forall c tp h s0 s outs k evs t,
  run c tp s0 h = Ok (s, outs) -> nth_error h k = Some (evs, t) ->
  exists sb sa acts,
    run c tp s0 (firstn k h) = Ok (sb, firstn k outs) /\
    trigger_events c tp sb evs t = Ok (sa, acts) /\
    nth_error outs k = Some acts /\
    run c tp sa (skipn (S k) h) = Ok (s, skipn (S k) outs).
Proof.
  intros c tp h; induction h as [|[evs0 t0] h IH]; intros s0 s outs k evs t H Hk;
    [destruct k; discriminate Hk|].
  cbn [run] in H. mbind H as [s1 acts1] E1. mbind H as [s2 rest] E2. inversion H; subst.
  destruct k as [|k]; cbn [nth_error firstn skipn] in *.
  - inversion Hk; subst. exists s0, s1, acts1. cbn [run]. auto.
  - destruct (IH _ _ _ _ _ _ E2 Hk) as (sb & sa & acts & H1 & H2 & H3 & H4).
    exists sb, sa, acts. split; [|auto].
    cbn [run]. rewrite E1. cbn [bind]. rewrite H1. reflexivity.
Qed.

(** a state predicate established by [fnew]/assumed initially and preserved by
    every call holds before and after every call of the history *)
Lemma run_calls_invariant : forall c tp (P : fstate -> Prop),
  (forall s evs t s' acts, P s -> trigger_events c tp s evs t = Ok (s', acts) -> P s') ->
  forall s0 h cs, run_calls c tp s0 h cs -> P s0 ->
    P (final_state s0 cs) /\
    forall k, In k cs -> P (call_before k) /\ P (call_after k).
Proof.
  intros c tp P HP s0 h cs H; induction H as [s|s evs t s1 acts h cs E _ IH]; intros H0.
  - split; [exact H0|intros k []].
  - pose proof (HP _ _ _ _ _ H0 E) as H1. destruct (IH H1) as [Hf Hall].
    split; [exact Hf|]. intros k [<-|Hin]; [split; assumption|auto].
Qed.

(** ** signals *)

(** the deliveries of a call, oldest first (as in Properties/C09.v) *)
Definition call_deliveries (s : fstate) : list N := rev (delivers (flog s)).

(** the conclusion of C09_call for a call from [s] to [s'] *)
Definition call_signals (s s' : fstate) : Prop :=
  sigp s' = None /\
  exists ev_log, (* the log of the events phase *)
    match join_all None (sigsets ev_log) with
    | None => call_deliveries s' = []
    | Some SigAll => call_deliveries s' = targets None (length (rts s)) 0
    | Some (SigAllExcept a) =>
        exists answered : bool,
          call_deliveries s' = targets (Some a) (length (rts s)) 0 ++ (if answered then [N.of_nat a] else [])
    end.

(** (the proof of C09_call, restated here so that this file does not depend
    on the Properties directory) *)
Lemma call_signals_of_call : forall c tp s evs t s' acts,
  sigp s = None ->
  trigger_events c tp s evs t = Ok (s', acts) ->
  call_signals s s'.
Proof.
  unfold call_signals, trigger_events, call_deliveries; intros c tp s evs t s' acts Hs H.
  mbind H as s1 E1. mbind H as s2 E2. inversion H; subst. clear H.
  destruct (events_sig_rel _ _ _ _ _ E1) as (ev & Le & De & Se).
  cbn [flog begin_call sigp] in Le, Se. rewrite app_nil_r in Le. rewrite Hs in Se.
  destruct (signal_round_spec _ _ _ _ E2) as (Hn & new & Ln & Hc).
  split; [exact Hn|]. exists ev. rewrite <- Se.
  assert (Hlen : nmach s1 = length (rts s)).
  { unfold nmach.
    assert (G : forall a b, foldM (process_event c tp) evs a = Ok b -> length (rts b) = length (rts a)).
    { apply (events_G c tp (fun a b => length (rts b) = length (rts a))); intros; cbn;
        rewrite ?ListFacts.upd_length; try reflexivity; try congruence.
      - eapply (transition_R c tp (fun _ a b => length (rts b) = length (rts a))); eauto;
          intros; cbn; rewrite ?ListFacts.upd_length; try reflexivity; congruence.
      - eapply (decrement_limit_R c tp (fun _ a b => length (rts b) = length (rts a))); eauto;
          intros; cbn; rewrite ?ListFacts.upd_length; try reflexivity; congruence. }
    rewrite (G _ _ E1). cbn. apply map_length. }
  rewrite Ln, Le, delivers_app, De, app_nil_r.
  destruct (sigp s1) as [[|a]|].
  - rewrite Hc, Hlen. reflexivity.
  - destruct Hc as (r1 & r2 & -> & D1 & D2). rewrite Hlen in D1.
    exists (match join_all None (sigsets r1) with Some _ => true | None => false end).
    rewrite delivers_app, rev_app_distr, D1, D2. reflexivity.
  - subst new. reflexivity.
Qed.

Lemma fnew_sigp : forall c tp t0 s0, fnew c tp t0 = Ok s0 -> sigp s0 = None.
Proof.
  unfold fnew; intros c tp t0 s0 H. mbind H as [rs p] E. inversion H; subst. reflexivity.
Qed.

Lemma fnew_fresh : forall c tp t0 s0, fnew c tp t0 = Ok s0 ->
  sigp s0 = None /\ flog s0 = [] /\ nsteps s0 = 0 /\ bactive s0 = false /\
  gnorm s0 = 0 /\ gpad s0 = 0 /\ gblk s0 = 0 /\ now s0 = t0 /\ fstart s0 = t0 /\
  slots s0 = map (fun _ => None) (machines c).
Proof.
  unfold fnew; intros c tp t0 s0 H. mbind H as [rs p] E. inversion H; subst. cbn.
  repeat split; reflexivity.
Qed.

(** no pending signal survives any call: [sigp = None] at every call boundary
    of a history whose initial state has none *)
Lemma sigp_none_preserved : forall c tp s evs t s' acts,
  sigp s = None -> trigger_events c tp s evs t = Ok (s', acts) -> sigp s' = None.
Proof.
  intros c tp s evs t s' acts Hs H. exact (proj1 (call_signals_of_call c tp s evs t s' acts Hs H)).
Qed.

(** the general form: any initial state without a pending signal *)
Theorem signals_every_call_from : forall c tp s0 h cs,
  sigp s0 = None -> run_calls c tp s0 h cs ->
  sigp (final_state s0 cs) = None /\
  forall sb evs t sa acts, In (sb, evs, t, sa, acts) cs ->
    sigp sb = None /\ trigger_events c tp sb evs t = Ok (sa, acts) /\ call_signals sb sa.
Proof.
  intros c tp s0 h cs H0 Hc.
  destruct (run_calls_invariant c tp (fun s => sigp s = None) (sigp_none_preserved c tp) s0 h cs Hc H0)
    as [Hf Hall].
  split; [exact Hf|]. intros sb evs t sa acts Hin.
  destruct (Hall _ Hin) as [Hb _]. cbn [call_before fst] in Hb.
  pose proof (run_calls_In c tp s0 h cs Hc _ _ _ _ _ Hin) as E.
  split; [exact Hb|]. split; [exact E|]. eapply call_signals_of_call; eassumption.
Qed.

(** every call of every history from [fnew] *)
Theorem signals_every_call : forall c tp t0 s0 h s outs,
  fnew c tp t0 = Ok s0 -> run c tp s0 h = Ok (s, outs) ->
  exists cs, run_calls c tp s0 h cs /\ map call_acts cs = outs /\ final_state s0 cs = s /\
    length cs = length h /\ sigp s = None /\
    forall sb evs t sa acts, In (sb, evs, t, sa, acts) cs ->
      sigp sb = None /\ trigger_events c tp sb evs t = Ok (sa, acts) /\ call_signals sb sa.
Proof.
  intros c tp t0 s0 h s outs Hn Hr.
  destruct (run_calls_of_run c tp h s0 s outs Hr) as (cs & Hc & Hm & Hf & Hl).
  exists cs. repeat (split; [assumption|]).
  destruct (signals_every_call_from c tp s0 h cs (fnew_sigp _ _ _ _ Hn) Hc) as [H1 H2].
  rewrite Hf in H1. split; assumption.
Qed.

(** the same, call number [k] of the history, via the prefix run *)
Theorem signals_every_call_nth : forall c tp t0 s0 h s outs k evs t,
  fnew c tp t0 = Ok s0 -> run c tp s0 h = Ok (s, outs) ->
  nth_error h k = Some (evs, t) ->
  exists sb sa acts,
    run c tp s0 (firstn k h) = Ok (sb, firstn k outs) /\
    trigger_events c tp sb evs t = Ok (sa, acts) /\
    nth_error outs k = Some acts /\
    sigp sb = None /\ call_signals sb sa.
Proof.
  intros c tp t0 s0 h s outs k evs t Hn Hr Hk.
  destruct (run_nth_call c tp h s0 s outs k evs t Hr Hk) as (sb & sa & acts & H1 & H2 & H3 & _).
  exists sb, sa, acts. repeat (split; [assumption|]).
  destruct (run_calls_of_run c tp _ _ _ _ H1) as (cs & Hc & _ & Hf & _).
  destruct (signals_every_call_from c tp s0 _ cs (fnew_sigp _ _ _ _ Hn) Hc) as [Hb _].
  rewrite Hf in Hb. split; [exact Hb|]. eapply call_signals_of_call; eassumption.
Qed.

(** ** CounterZero: at most one per counter per machine, in every call *)

(** [flog] is reset by [begin_call], so [flog sa] is the log of that call only *)
Theorem czero_every_call_from : forall c tp s0 h cs,
  run_calls c tp s0 h cs ->
  forall sb evs t sa acts, In (sb, evs, t, sa, acts) cs ->
    forall i, czeros i (flog sa) + zc sa i <= 2.
Proof.
  intros c tp s0 h cs Hc sb evs t sa acts Hin i.
  eapply call_czeros. eapply run_calls_In; eassumption.
Qed.

Theorem czero_every_call : forall c tp t0 s0 h s outs,
  fnew c tp t0 = Ok s0 -> run c tp s0 h = Ok (s, outs) ->
  exists cs, run_calls c tp s0 h cs /\ map call_acts cs = outs /\ final_state s0 cs = s /\
    length cs = length h /\
    forall sb evs t sa acts, In (sb, evs, t, sa, acts) cs ->
      trigger_events c tp sb evs t = Ok (sa, acts) /\
      forall i, czeros i (flog sa) + zc sa i <= 2.
Proof.
  intros c tp t0 s0 h s outs _ Hr.
  destruct (run_calls_of_run c tp h s0 s outs Hr) as (cs & Hc & Hm & Hf & Hl).
  exists cs. repeat (split; [assumption|]).
  intros sb evs t sa acts Hin. split; [eapply run_calls_In; eassumption|].
  eapply czero_every_call_from; eassumption.
Qed.

Theorem czero_every_call_nth : forall c tp t0 s0 h s outs k evs t,
  fnew c tp t0 = Ok s0 -> run c tp s0 h = Ok (s, outs) ->
  nth_error h k = Some (evs, t) ->
  exists sb sa acts,
    run c tp s0 (firstn k h) = Ok (sb, firstn k outs) /\
    trigger_events c tp sb evs t = Ok (sa, acts) /\
    nth_error outs k = Some acts /\
    forall i, czeros i (flog sa) + zc sa i <= 2.
Proof.
  intros c tp t0 s0 h s outs k evs t _ Hr Hk.
  destruct (run_nth_call c tp h s0 s outs k evs t Hr Hk) as (sb & sa & acts & H1 & H2 & H3 & _).
  exists sb, sa, acts. repeat (split; [assumption|]).
  intros i. eapply call_czeros; eassumption.
Qed.

(** * 3. Non-vacuity *)

(** one machine, one state, no action, no counters:
    on NormalSent   -> state 0 with probability 0.5 (f32 bits 1056964608),
    on PaddingSent  -> STATE_SIGNAL with probability 1 (f32 bits 1065353216),
    on TunnelSent   -> STATE_END with probability 1. *)
Definition ex_state : state :=
  mkstate None None None
    [None; None; None;
     Some [(0, 1056964608)];
     Some [(STATE_SIGNAL, 1065353216)];
     Some [(STATE_END, 1065353216)];
     None; None; None; None; None; None; None].
Definition ex_machine : machine := mkmachine 0 0 0 0 [ex_state].
Definition ex_cfg : cfg := mkcfg [ex_machine] 0 0 vclock.
Definition ex_rt : mrt := mkmrt 0 0 0 0 0 0 0 false false.
Definition ex_s : fstate := mkfstate 0 0 [ex_rt] [None] 0 0 0 0 false None 0 0 [].
(** every draw is k = 2^22, i.e. r = 0.5: not below the sum 0.5 *)
Definition ex_tape : tape := fun _ => 4194304.

(** the None case with a consumed draw: a vector with sum 0.5 and the draw
    k = 2^22 (r = 0.5 >= 0.5): position 0 -> 1, nothing else moves *)
Example dispatch_none_consumes_draw :
  sample_state ex_tape (pos ex_s) ex_state NormalSent = (None, 1%nat) /\
  transition FUEL ex_cfg ex_tape ex_s 0 NormalSent =
  Ok (mkfstate 0 0 [ex_rt] [None] 0 0 0 0 false None 1 1 [(LOG_TRANS, 0, 3)], false).
Proof.
  assert (Hs : sample_state ex_tape (pos ex_s) ex_state NormalSent = (None, 1%nat))
    by (vm_compute; reflexivity).
  split; [exact Hs|].
  unfold FUEL.
  rewrite (transition_none 3 ex_cfg ex_tape ex_s 0 NormalSent ex_rt ex_machine ex_state 1);
    [reflexivity|reflexivity|(intro Hc; vm_compute in Hc; discriminate Hc)|reflexivity|reflexivity|exact Hs].
Qed.

(** ... and it agrees with running the model *)
Example dispatch_none_computed :
  transition FUEL ex_cfg ex_tape ex_s 0 NormalSent =
  Ok (mkfstate 0 0 [ex_rt] [None] 0 0 0 0 false None 1 1 [(LOG_TRANS, 0, 3)], false).
Proof. vm_compute. reflexivity. Qed.

(** a smaller draw (k = 2^22 - 1 < 0.5 * 2^23) takes the transition *)
Example dispatch_below_sum_moves :
  fst (sample_state (fun _ => 4194303) 0 ex_state NormalSent) = Some 0.
Proof. vm_compute. reflexivity. Qed.

(** the SIGNAL case: the machine stays, the pending signal becomes
    "everybody except machine 0" *)
Example dispatch_signal :
  sample_state ex_tape (pos ex_s) ex_state PaddingSent = (Some STATE_SIGNAL, 1%nat) /\
  transition FUEL ex_cfg ex_tape ex_s 0 PaddingSent =
  Ok (mkfstate 0 0 [ex_rt] [None] 0 0 0 0 false (Some (SigAllExcept 0)) 1 1
        [(LOG_SIGSET, 0, 0); (LOG_NEXT, 0, STATE_SIGNAL); (LOG_TRANS, 0, 4)], false).
Proof.
  assert (Hs : sample_state ex_tape (pos ex_s) ex_state PaddingSent = (Some STATE_SIGNAL, 1%nat))
    by (vm_compute; reflexivity).
  split; [exact Hs|].
  unfold FUEL.
  rewrite (transition_to_signal 3 ex_cfg ex_tape ex_s 0 PaddingSent ex_rt ex_machine ex_state 1);
    [reflexivity|reflexivity|(intro Hc; vm_compute in Hc; discriminate Hc)|reflexivity|reflexivity|exact Hs].
Qed.

Example dispatch_signal_computed :
  transition FUEL ex_cfg ex_tape ex_s 0 PaddingSent =
  Ok (mkfstate 0 0 [ex_rt] [None] 0 0 0 0 false (Some (SigAllExcept 0)) 1 1
        [(LOG_SIGSET, 0, 0); (LOG_NEXT, 0, STATE_SIGNAL); (LOG_TRANS, 0, 4)], false).
Proof. vm_compute. reflexivity. Qed.

(** the END case: [cur] becomes END; a second step on the ended machine is a
    no-op that reads no tape entry *)
Example dispatch_end_then_ended :
  exists s1,
    transition FUEL ex_cfg ex_tape ex_s 0 TunnelSent = Ok (s1, true) /\
    rts s1 = [mkmrt STATE_END 0 0 0 0 0 0 false false] /\ slots s1 = [None] /\ pos s1 = 1%nat /\
    exists s2, transition FUEL ex_cfg ex_tape s1 0 NormalSent = Ok (s2, false) /\
               rts s2 = rts s1 /\ pos s2 = 1%nat.
Proof.
  eexists. split; [vm_compute; reflexivity|]. cbn [rts slots pos].
  repeat (split; [reflexivity|]).
  eexists. split; [vm_compute; reflexivity|]. split; reflexivity.
Qed.

(** a two-call history from [fnew]: the first call signals (machine 0 alone,
    so nobody is delivered a Signal), the lifts apply to both calls *)
Example history_lift_nonvacuous :
  exists s0 s outs,
    fnew ex_cfg ex_tape 0 = Ok s0 /\
    run ex_cfg ex_tape s0 [([TEPaddingSent 0], 1%Z); ([TENormalSent], 2%Z)] = Ok (s, outs) /\
    length outs = 2%nat.
Proof.
  do 3 eexists. split; [vm_compute; reflexivity|]. split; [vm_compute; reflexivity|reflexivity].
Qed.

Print Assumptions transition_dispatch.
Print Assumptions transition_none_frame.
Print Assumptions transition_end_frame.
Print Assumptions transition_signal_frame.
Print Assumptions transition_ended.
Print Assumptions transition_live.
Print Assumptions signals_every_call.
Print Assumptions signals_every_call_nth.
Print Assumptions czero_every_call.
Print Assumptions czero_every_call_nth.
Print Assumptions dispatch_none_consumes_draw.
Print Assumptions dispatch_signal.
