From Coq Require Import List Arith Lia Permutation Sorted ZArith.
From MB Require Import Base.Prelude Model.Framework Model.Sim Proofs.Tactics Proofs.SimHeap.
From MB Require Import Proofs.ListFacts.
Import ListNotations.
Open Scope N_scope.

(** Basic facts about the simulator model [Model/Sim.v]: the activity flag,
    the final stable sort, output filters as projections, monotone time,
    the configured bounds, and fuel. *)

Definition is_net (e : trigger_event) : bool := is_tunnel_sent e || is_tunnel_recv e.
Definition keep (args : simargs) (e : sev) : bool :=
  (negb (a_only_network args) || is_net (se_ev e)) && (negb (a_only_client args) || se_client e).
Definition unfiltered (args : simargs) : simargs :=
  mksimargs (a_max_trace args) (a_max_iter args) (a_continue args) false false.
Definition omap {A B} (f : A -> B) (o : outcome A) : outcome B :=
  match o with Ok a => Ok (f a) | Panic k => Panic k | OutOfFuel => OutOfFuel end.
Definition time_le (a b : sev) : Prop := (se_time a <= se_time b)%Z.

(** case split on the condition of an [if] at the head of a hypothesis / the goal *)
Ltac dif H :=
  match type of H with
  | (if ?c then _ else _) = _ => let E := fresh "Eif" in destruct c eqn:E
  end.
Ltac gif :=
  match goal with
  | |- (if ?c then _ else _) = _ => let E := fresh "Eif" in destruct c eqn:E
  | |- (if ?c then _ else _) <> _ => let E := fresh "Eif" in destruct c eqn:E
  end.

(** * 1. the activity flag *)
Lemma network_stack_activity : forall next sq bb net nowt sq' net' act,
  sim_network_stack next sq bb net nowt = Ok (sq', net', act) -> act = is_net (se_ev next).
Proof.
  intros next sq bb net nowt sq' net' act H. unfold sim_network_stack in H. unfold is_net.
  destruct (se_ev next); cbn [is_tunnel_sent is_tunnel_recv orb]; msteps H; reflexivity.
Qed.

(** * 2. the stable sort *)
Lemma time_le_trans : forall a b c, time_le a b -> time_le b c -> time_le a c.
Proof. unfold time_le; intros; lia. Qed.

Lemma sorted_strongly : forall l, Sorted time_le l -> StronglySorted time_le l.
Proof. apply Sorted_StronglySorted. intros a b c. apply time_le_trans. Qed.

Lemma insert_time_perm : forall x l, Permutation (insert_time x l) (x :: l).
Proof.
  intros x l. induction l as [|y t IH]; cbn [insert_time].
  - apply Permutation_refl.
  - destruct (se_time x <? se_time y)%Z.
    + apply Permutation_refl.
    + eapply perm_trans; [apply perm_skip; exact IH|apply perm_swap].
Qed.

Lemma fold_insert_perm : forall l acc,
  Permutation (fold_left (fun acc x => insert_time x acc) l acc) (acc ++ l).
Proof.
  induction l as [|x l IH]; intros acc; cbn [fold_left].
  - rewrite app_nil_r. apply Permutation_refl.
  - eapply perm_trans; [apply IH|].
    eapply perm_trans; [apply Permutation_app_tail; apply insert_time_perm|].
    cbn [app]. apply Permutation_middle.
Qed.

Lemma sort_time_perm : forall l, Permutation (sort_time l) l.
Proof. intros l. unfold sort_time. apply (fold_insert_perm l []). Qed.

Lemma insert_time_hdrel : forall y x t,
  HdRel time_le y t -> time_le y x -> HdRel time_le y (insert_time x t).
Proof.
  intros y x t Hh Hyx. destruct t as [|z t]; cbn [insert_time].
  - constructor. exact Hyx.
  - destruct (se_time x <? se_time z)%Z.
    + constructor. exact Hyx.
    + constructor. inversion Hh; assumption.
Qed.

Lemma insert_time_sorted : forall x l, Sorted time_le l -> Sorted time_le (insert_time x l).
Proof.
  intros x l HS. induction HS as [|y t HS IH Hh]; cbn [insert_time].
  - constructor; constructor.
  - destruct (Z.ltb_spec (se_time x) (se_time y)) as [Hlt|Hge].
    + constructor.
      * constructor; assumption.
      * constructor. unfold time_le. lia.
    + constructor.
      * exact IH.
      * apply insert_time_hdrel; [exact Hh|unfold time_le; lia].
Qed.

Lemma fold_insert_sorted : forall l acc,
  Sorted time_le acc -> Sorted time_le (fold_left (fun acc x => insert_time x acc) l acc).
Proof.
  induction l as [|x l IH]; intros acc HS; cbn [fold_left].
  - exact HS.
  - apply IH. apply insert_time_sorted. exact HS.
Qed.

Lemma sort_time_sorted : forall l, Sorted time_le (sort_time l).
Proof. intros l. unfold sort_time. apply fold_insert_sorted. constructor. Qed.

(** an element earlier than the head goes to the front *)
Lemma insert_time_front : forall x l,
  Forall (fun z => (se_time x < se_time z)%Z) l -> insert_time x l = x :: l.
Proof.
  intros x l HF. destruct l as [|z l]; cbn [insert_time].
  - reflexivity.
  - inversion HF as [|? ? Hz _]; subst.
    destruct (Z.ltb_spec (se_time x) (se_time z)); [reflexivity|lia].
Qed.

Lemma Forall_filter : forall {A} (P : A -> Prop) p l, Forall P l -> Forall P (filter p l).
Proof.
  intros A P p l HF. rewrite Forall_forall in *. intros z Hz.
  apply filter_In in Hz. apply HF. tauto.
Qed.

(** NOTE: sortedness of [l] is needed here: for l = [y(5); z(1)], x at time 3,
    p y = false, p z = true: filter p (insert_time x l) = [x; z] but
    insert_time x (filter p l) = [z; x]. *)
Lemma insert_time_filter : forall p x l, Sorted time_le l ->
  filter p (insert_time x l) = if p x then insert_time x (filter p l) else filter p l.
Proof.
  intros p x l HS. induction l as [|a l IH].
  - cbn [insert_time filter]. destruct (p x); reflexivity.
  - cbn [insert_time]. destruct (Z.ltb_spec (se_time x) (se_time a)) as [Hlt|Hge].
    + assert (HF : Forall (fun z => (se_time x < se_time z)%Z) (a :: l)).
      { apply sorted_strongly in HS. inversion HS as [|? ? _ Hall]; subst.
        constructor; [exact Hlt|].
        rewrite Forall_forall in *. intros z Hz. specialize (Hall z Hz).
        unfold time_le in Hall. lia. }
      change (filter p (x :: a :: l)) with (if p x then x :: filter p (a :: l) else filter p (a :: l)).
      destruct (p x); [|reflexivity].
      rewrite insert_time_front; [reflexivity|]. apply Forall_filter. exact HF.
    + assert (HS' : Sorted time_le l) by (inversion HS; assumption).
      change (filter p (a :: insert_time x l))
        with (if p a then a :: filter p (insert_time x l) else filter p (insert_time x l)).
      rewrite (IH HS'). cbn [filter].
      destruct (p a), (p x); cbn [insert_time]; try reflexivity.
      destruct (Z.ltb_spec (se_time x) (se_time a)); [lia|reflexivity].
Qed.

Lemma fold_insert_filter : forall p l acc, Sorted time_le acc ->
  fold_left (fun acc x => insert_time x acc) (filter p l) (filter p acc)
  = filter p (fold_left (fun acc x => insert_time x acc) l acc).
Proof.
  intros p. induction l as [|a l IH]; intros acc HS.
  - reflexivity.
  - cbn [filter fold_left].
    rewrite <- (IH (insert_time a acc) (insert_time_sorted a acc HS)).
    rewrite (insert_time_filter p a acc HS).
    destruct (p a); reflexivity.
Qed.

Lemma sort_time_filter : forall p l, sort_time (filter p l) = filter p (sort_time l).
Proof.
  intros p l. unfold sort_time.
  apply (fold_insert_filter p l []). constructor.
Qed.

(** an element not earlier than everything goes to the end (after equal times) *)
Lemma insert_time_last : forall x l,
  Forall (fun z => time_le z x) l -> insert_time x l = l ++ [x].
Proof.
  intros x l HF. induction HF as [|z l Hz HF IH]; cbn [insert_time app].
  - reflexivity.
  - unfold time_le in Hz.
    destruct (Z.ltb_spec (se_time x) (se_time z)); [lia|]. rewrite IH. reflexivity.
Qed.

Lemma strongly_app_forall : forall acc a l,
  StronglySorted time_le (acc ++ a :: l) -> Forall (fun z => time_le z a) acc.
Proof.
  induction acc as [|b acc IH]; intros a l HS.
  - constructor.
  - cbn [app] in HS. inversion HS as [|? ? HS' Hall]; subst.
    constructor.
    + rewrite Forall_forall in Hall. apply Hall. apply in_or_app. right. left. reflexivity.
    + eapply IH. exact HS'.
Qed.

Lemma fold_insert_id : forall l acc, StronglySorted time_le (acc ++ l) ->
  fold_left (fun acc x => insert_time x acc) l acc = acc ++ l.
Proof.
  induction l as [|a l IH]; intros acc HS; cbn [fold_left].
  - rewrite app_nil_r. reflexivity.
  - rewrite (insert_time_last a acc (strongly_app_forall acc a l HS)).
    rewrite IH; rewrite <- app_assoc; cbn [app]; [reflexivity|exact HS].
Qed.

Lemma sort_time_id : forall l, Sorted time_le l -> sort_time l = l.
Proof.
  intros l HS. unfold sort_time. apply (fold_insert_id l []). cbn [app].
  apply sorted_strongly. exact HS.
Qed.

Lemma sort_time_length : forall l, length (sort_time l) = length l.
Proof. intros l. apply Permutation_length. apply sort_time_perm. Qed.

(** * the loop, one iteration at a time *)

Lemma filter_rev' : forall {A} (p : A -> bool) l, filter p (rev l) = rev (filter p l).
Proof.
  intros A p. induction l as [|a l IH]; cbn [rev filter].
  - reflexivity.
  - rewrite filter_app, IH. cbn [filter]. destruct (p a); cbn [rev].
    + reflexivity.
    + rewrite app_nil_r. reflexivity.
Qed.

(** everything in one iteration that does not depend on [args], the trace or the counter *)
Definition sim_step (ccfg scfg : cfg) (tp : tape) (st : sim) (nowt : Z)
  : outcome (option (sev * bool * sim)) :=
  '(nx, st1) <- pick_next (S (S (length (n_aggq (m_net st)) + length (s_timers (m_c st))
                                 + length (s_timers (m_s st)) + length (s_sched (m_c st))
                                 + length (s_sched (m_s st))))) st nowt ;;
  match nx with
  | None => Ok None
  | Some next =>
      if (se_time next <? nowt)%Z then Panic P_BUG
      else
        let nowt' := se_time next in
        let sender_bb := if se_client next then s_bbypass (m_c st1) else s_bbypass (m_s st1) in
        '(sq2, net2, activity) <- sim_network_stack next (m_sq st1) sender_bb (m_net st1) nowt' ;;
        '(c3, s3, sq3, pos3) <-
          (if se_client next then
             '(c', sq', p') <- trigger_update ccfg tp (m_c st1) (m_pos st1) next nowt' sq2 true ;;
             Ok (c', m_s st1, sq', p')
           else
             '(s', sq', p') <- trigger_update scfg tp (m_s st1) (m_pos st1) next nowt' sq2 false ;;
             Ok (m_c st1, s', sq', p')) ;;
        Ok (Some (next, activity, mksim sq3 c3 s3 net2 pos3))
  end.

Lemma sim_loop_S : forall f cc sc tp args st nowt trace iters,
  sim_loop (S f) cc sc tp args st nowt trace iters =
  r <- sim_step cc sc tp st nowt ;;
  match r with
  | None => Ok (rev trace)
  | Some (next, activity, st3) =>
      let trace' := if (negb (a_only_network args) || activity)
                       && (negb (a_only_client args) || se_client next)
                    then next :: trace else trace in
      if (0 <? a_max_trace args) && (a_max_trace args <=? N.of_nat (length trace')) then Ok (rev trace')
      else if (0 <? a_max_iter args) && (a_max_iter args <=? iters + 1) then Ok (rev trace')
      else if negb (a_continue args) && sq_no_normal (m_sq st3) then Ok (rev trace')
      else sim_loop f cc sc tp args st3 (se_time next) trace' (iters + 1)
  end.
Proof.
  intros f cc sc tp args st nowt trace iters.
  cbn [sim_loop]. unfold sim_step.
  destruct (pick_next _ st nowt) as [[nx st1]|k|]; cbn [bind]; try reflexivity.
  destruct nx as [next|]; [|reflexivity].
  destruct (se_time next <? nowt)%Z; [reflexivity|].
  destruct (sim_network_stack _ _ _ _ _) as [[[sq2 net2] act]|k|]; cbn [bind]; try reflexivity.
  match goal with |- bind ?e _ = _ => destruct e as [[[[c3 s3] sq3] pos3]|k|] end;
    cbn [bind m_sq]; reflexivity.
Qed.

(** * 4a. simulated time never moves backwards in [pick_next] *)
Lemma pick_next_time : forall fuel st nowt e st',
  pick_next fuel st nowt = Ok (Some e, st') -> (nowt <= se_time e)%Z.
Proof.
  induction fuel as [|f IH]; intros st nowt e st' H.
  - discriminate H.
  - cbn [pick_next] in H.
    destruct (peek_blocked_exp _ _ _) as [b bc] in H.
    destruct (peek_queue _ _ _ _ _ _ _) as [[q which] qc] in H.
    dif H; [discriminate H|].
    dif H; [apply IH in H; exact H|].
    dif H.
    { destruct bc; cbv beta iota in H; injection H as <- _; cbn [se_time]; lia. }
    dif H.
    { destruct (sq_pop _ _ _ _) as [[tmp sq']|] in H; [|discriminate H].
      injection H as <- _.
      destruct (Z.ltb_spec (se_time tmp) (nowt + Z.of_N q)); cbn [set_time se_time]; lia. }
    dif H.
    + mbind H as [[c' s'] e0] E. apply IH in H. lia.
    + mbind H as [[c' s'] e0] E. apply IH in H. lia.
Qed.

(** hence the loop's "BUG: time moves backwards" test never fires *)
Lemma sim_loop_time_check_dead : forall fuel st nowt e st',
  pick_next fuel st nowt = Ok (Some e, st') -> (se_time e <? nowt)%Z = false.
Proof.
  intros fuel st nowt e st' H. apply pick_next_time in H. apply Z.ltb_ge. exact H.
Qed.

(** * facts about one iteration *)
Lemma sim_step_spec : forall cc sc tp st nowt next act st3,
  sim_step cc sc tp st nowt = Ok (Some (next, act, st3)) ->
  act = is_net (se_ev next) /\ (nowt <= se_time next)%Z.
Proof.
  intros cc sc tp st nowt next act st3 H. unfold sim_step in H.
  mbind H as [nx st1] Epn.
  destruct nx as [nx|]; [|discriminate H].
  dif H; [discriminate H|].
  apply pick_next_time in Epn.
  mbind H as [[sq2 net2] act'] Ens.
  mbind H as [[[c3 s3] sq3] pos3] Etu.
  injection H as <- <- _.
  split; [|exact Epn].
  eapply network_stack_activity. exact Ens.
Qed.

Lemma trace_step_keep : forall args next tr,
  (if (negb (a_only_network args) || is_net (se_ev next)) && (negb (a_only_client args) || se_client next)
   then next :: filter (keep args) tr else filter (keep args) tr)
  = filter (keep args) (next :: tr).
Proof. reflexivity. Qed.

(** * 3. output filters are projections *)
Theorem sim_loop_projection : forall cc sc tp args, a_max_trace args = 0 ->
  forall fuel st nowt tr0 iters,
  sim_loop fuel cc sc tp args st nowt (filter (keep args) tr0) iters
  = omap (filter (keep args)) (sim_loop fuel cc sc tp (unfiltered args) st nowt tr0 iters).
Proof.
  intros cc sc tp args Hmt. induction fuel as [|f IH]; intros st nowt tr0 iters.
  - reflexivity.
  - rewrite !sim_loop_S.
    destruct (sim_step cc sc tp st nowt) as [[[[next act] st3]|]|k|] eqn:Est;
      cbn [bind omap]; try reflexivity.
    + apply sim_step_spec in Est as [-> _].
      cbn [unfiltered a_max_trace a_max_iter a_continue a_only_client a_only_network].
      rewrite Hmt. rewrite N.ltb_irrefl. cbn [andb negb orb].
      rewrite trace_step_keep.
      destruct ((0 <? a_max_iter args) && (a_max_iter args <=? iters + 1)).
      { cbn [omap]. rewrite filter_rev'. reflexivity. }
      destruct (negb (a_continue args) && sq_no_normal (m_sq st3)).
      { cbn [omap]. rewrite filter_rev'. reflexivity. }
      apply IH.
    + rewrite filter_rev'. reflexivity.
Qed.

Theorem sim_advanced_projection : forall fuel cc sc tp sq delay pps args, a_max_trace args = 0 ->
  sim_advanced fuel cc sc tp sq delay pps args
  = omap (filter (keep args)) (sim_advanced fuel cc sc tp sq delay pps (unfiltered args)).
Proof.
  intros fuel cc sc tp sq delay pps args Hmt. unfold sim_advanced.
  destruct (sq_first_time sq) as [t0|]; [|reflexivity].
  destruct (fnew_at cc tp t0 0) as [cfw|k|]; cbn [bind omap]; try reflexivity.
  destruct (fnew_at sc tp t0 (pos cfw)) as [sfw|k|]; cbn [bind omap]; try reflexivity.
  destruct (netb_new delay pps (sq_pps sq)) as [net|k|]; cbn [bind omap]; try reflexivity.
  change (@nil sev) with (filter (keep args) []) at 1.
  rewrite (sim_loop_projection cc sc tp args Hmt).
  destruct (sim_loop fuel cc sc tp (unfiltered args) _ t0 [] 0) as [tr|k|]; cbn [bind omap]; try reflexivity.
  rewrite sort_time_filter. reflexivity.
Qed.

(** * 4b. the loop's own trace is sorted *)
Lemma sorted_snoc : forall l x,
  Sorted time_le l -> (forall y, In y l -> time_le y x) -> Sorted time_le (l ++ [x]).
Proof.
  induction l as [|a l IH]; intros x HS Hall; cbn [app].
  - constructor; constructor.
  - inversion HS as [|? ? HS' Hh]; subst. constructor.
    + apply IH; [exact HS'|]. intros y Hy. apply Hall. right. exact Hy.
    + destruct l as [|b l]; cbn [app].
      * constructor. apply Hall. left. reflexivity.
      * constructor. inversion Hh; assumption.
Qed.

Theorem sim_loop_sorted : forall cc sc tp args fuel st nowt tr iters out,
  Sorted time_le (rev tr) -> (forall x, In x tr -> (se_time x <= nowt)%Z) ->
  sim_loop fuel cc sc tp args st nowt tr iters = Ok out -> Sorted time_le out.
Proof.
  intros cc sc tp args. induction fuel as [|f IH]; intros st nowt tr iters out HS Hall H.
  - discriminate H.
  - rewrite sim_loop_S in H. mbind H as r Est.
    destruct r as [[[next act] st3]|].
    2:{ injection H as <-. exact HS. }
    apply sim_step_spec in Est as [_ Hnow].
    cbv zeta in H.
    remember (if (negb (a_only_network args) || act) && (negb (a_only_client args) || se_client next)
              then next :: tr else tr) as tr' eqn:Etr in *.
    assert (HS' : Sorted time_le (rev tr')).
    { rewrite Etr; clear Etr H; destruct ((negb (a_only_network args) || act) && _); [|exact HS]. cbn [rev]. apply sorted_snoc; [exact HS|].
      intros y Hy. apply in_rev in Hy. specialize (Hall y Hy). unfold time_le. lia. }
    assert (Hall' : forall x, In x tr' -> (se_time x <= se_time next)%Z).
    { rewrite Etr; clear Etr H; intros x Hx; destruct ((negb (a_only_network args) || act) && _).
      - destruct Hx as [<-|Hx]; [lia|]. specialize (Hall x Hx). lia.
      - specialize (Hall x Hx). lia. }
    clear Etr.
    dif H; [injection H as <-; exact HS'|].
    dif H; [injection H as <-; exact HS'|].
    dif H; [injection H as <-; exact HS'|].
    eapply IH; [exact HS'|exact Hall'|exact H].
Qed.

Lemma sim_advanced_loop : forall fuel cc sc tp sq delay pps args out,
  sim_advanced fuel cc sc tp sq delay pps args = Ok out ->
  exists t0 cfw sfw net tr,
    sim_loop fuel cc sc tp args (mksim sq (new_side cc cfw) (new_side sc sfw) net (Framework.pos sfw)) t0 [] 0 = Ok tr
    /\ out = sort_time tr.
Proof.
  intros fuel cc sc tp sq delay pps args out H. unfold sim_advanced in H.
  destruct (sq_first_time sq) as [t0|]; [|discriminate H].
  mbind H as cfw E1. mbind H as sfw E2. mbind H as net E3. mbind H as tr E4.
  injection H as <-. exists t0, cfw, sfw, net, tr. split; [exact E4|reflexivity].
Qed.

Theorem sim_advanced_sorted : forall fuel cc sc tp sq delay pps args out,
  sim_advanced fuel cc sc tp sq delay pps args = Ok out -> Sorted time_le out.
Proof.
  intros fuel cc sc tp sq delay pps args out H.
  apply sim_advanced_loop in H as (t0 & cfw & sfw & net & tr & _ & ->).
  apply sort_time_sorted.
Qed.

Theorem sim_advanced_sort_is_id : forall fuel cc sc tp sq delay pps args out,
  sim_advanced fuel cc sc tp sq delay pps args = Ok out ->
  exists t0 cfw sfw net,
    sim_loop fuel cc sc tp args (mksim sq (new_side cc cfw) (new_side sc sfw) net (Framework.pos sfw)) t0 [] 0 = Ok out.
Proof.
  intros fuel cc sc tp sq delay pps args out H.
  apply sim_advanced_loop in H as (t0 & cfw & sfw & net & tr & Hl & ->).
  exists t0, cfw, sfw, net. rewrite sort_time_id; [exact Hl|].
  eapply sim_loop_sorted; [| |exact Hl].
  - cbn [rev]. constructor.
  - intros x [].
Qed.

(** * 5. the configured bounds *)
Theorem sim_loop_trace_bound : forall cc sc tp args fuel st nowt tr iters out,
  0 < a_max_trace args -> N.of_nat (length tr) < a_max_trace args ->
  sim_loop fuel cc sc tp args st nowt tr iters = Ok out -> N.of_nat (length out) <= a_max_trace args.
Proof.
  intros cc sc tp args. induction fuel as [|f IH]; intros st nowt tr iters out Hpos Hlen H.
  - discriminate H.
  - rewrite sim_loop_S in H. mbind H as r Est.
    destruct r as [[[next act] st3]|].
    2:{ injection H as <-. rewrite rev_length. lia. }
    cbv zeta in H.
    remember (if (negb (a_only_network args) || act) && (negb (a_only_client args) || se_client next)
              then next :: tr else tr) as tr' eqn:Etr in *.
    assert (Hlen' : N.of_nat (length tr') <= a_max_trace args).
    { rewrite Etr; clear Etr H; destruct ((negb (a_only_network args) || act) && _); cbn [length]; lia. }
    clear Etr.
    dif H; [injection H as <-; rewrite rev_length; exact Hlen'|].
    assert (Hlt : N.of_nat (length tr') < a_max_trace args).
    { apply andb_false_iff in Eif. destruct Eif as [E|E].
      - apply N.ltb_ge in E. lia.
      - apply N.leb_gt in E. exact E. }
    dif H; [injection H as <-; rewrite rev_length; exact Hlen'|].
    dif H; [injection H as <-; rewrite rev_length; exact Hlen'|].
    eapply IH; [exact Hpos|exact Hlt|exact H].
Qed.

Theorem sim_advanced_trace_bound : forall fuel cc sc tp sq delay pps args out,
  0 < a_max_trace args -> sim_advanced fuel cc sc tp sq delay pps args = Ok out ->
  N.of_nat (length out) <= a_max_trace args.
Proof.
  intros fuel cc sc tp sq delay pps args out Hpos H.
  apply sim_advanced_loop in H as (t0 & cfw & sfw & net & tr & Hl & ->).
  rewrite sort_time_length.
  eapply sim_loop_trace_bound; [exact Hpos| |exact Hl]. cbn [length]. exact Hpos.
Qed.

Theorem sim_loop_iter_bound : forall cc sc tp args fuel st nowt tr iters out,
  0 < a_max_iter args -> iters < a_max_iter args ->
  sim_loop fuel cc sc tp args st nowt tr iters = Ok out ->
  N.of_nat (length out) + iters <= N.of_nat (length tr) + a_max_iter args.
Proof.
  intros cc sc tp args. induction fuel as [|f IH]; intros st nowt tr iters out Hpos Hit H.
  - discriminate H.
  - rewrite sim_loop_S in H. mbind H as r Est.
    destruct r as [[[next act] st3]|].
    2:{ injection H as <-. rewrite rev_length. lia. }
    cbv zeta in H.
    remember (if (negb (a_only_network args) || act) && (negb (a_only_client args) || se_client next)
              then next :: tr else tr) as tr' eqn:Etr in *.
    assert (Hlen' : N.of_nat (length tr') <= N.of_nat (length tr) + 1).
    { rewrite Etr; clear Etr H; destruct ((negb (a_only_network args) || act) && _); cbn [length]; lia. }
    clear Etr.
    dif H; [injection H as <-; rewrite rev_length; lia|].
    dif H; [injection H as <-; rewrite rev_length; lia|].
    assert (Hlt : iters + 1 < a_max_iter args).
    { apply andb_false_iff in Eif0. destruct Eif0 as [E|E].
      - apply N.ltb_ge in E. lia.
      - apply N.leb_gt in E. exact E. }
    dif H; [injection H as <-; rewrite rev_length; lia|].
    apply (IH _ _ _ _ _ Hpos Hlt) in H. lia.
Qed.

Theorem sim_advanced_iter_bound : forall fuel cc sc tp sq delay pps args out,
  0 < a_max_iter args -> sim_advanced fuel cc sc tp sq delay pps args = Ok out ->
  N.of_nat (length out) <= a_max_iter args.
Proof.
  intros fuel cc sc tp sq delay pps args out Hpos H.
  apply sim_advanced_loop in H as (t0 & cfw & sfw & net & tr & Hl & ->).
  rewrite sort_time_length.
  apply (sim_loop_iter_bound _ _ _ _ _ _ _ _ _ _ Hpos Hpos) in Hl. cbn [length] in Hl. lia.
Qed.

(** * 6. fuel *)

(** number of occupied slots *)
Fixpoint nsome {A} (l : list (option A)) : nat :=
  match l with
  | [] => 0
  | Some _ :: t => S (nsome t)
  | None :: t => nsome t
  end.

Lemma nsome_le_length : forall {A} (l : list (option A)), (nsome l <= length l)%nat.
Proof. induction l as [|[a|] l IH]; cbn [nsome length]; lia. Qed.

Lemma take_timer_nsome : forall l target i j l',
  take_timer l target i = Some (j, l') -> S (nsome l') = nsome l.
Proof.
  induction l as [|[t|] r IH]; intros target i j l' H; cbn [take_timer] in H.
  - discriminate H.
  - destruct (t =? target)%Z.
    + injection H as _ <-. reflexivity.
    + destruct (take_timer r target (S i)) as [[j' r']|] eqn:E; [|discriminate H].
      injection H as _ <-. cbn [nsome]. rewrite (IH _ _ _ _ E). reflexivity.
  - destruct (take_timer r target (S i)) as [[j' r']|] eqn:E; [|discriminate H].
    injection H as _ <-. cbn [nsome]. exact (IH _ _ _ _ E).
Qed.

Lemma take_action_nsome : forall l target a t l',
  take_action l target = Some (a, t, l') -> S (nsome l') = nsome l.
Proof.
  induction l as [|[[a0 t0]|] r IH]; intros target a t l' H; cbn [take_action] in H.
  - discriminate H.
  - destruct (t0 =? target)%Z.
    + injection H as _ _ <-. reflexivity.
    + destruct (take_action r target) as [[[a' t'] r']|] eqn:E; [|discriminate H].
      injection H as _ _ <-. cbn [nsome]. rewrite (IH _ _ _ _ E). reflexivity.
  - destruct (take_action r target) as [[[a' t'] r']|] eqn:E; [|discriminate H].
    injection H as _ _ <-. cbn [nsome]. exact (IH _ _ _ _ E).
Qed.

Lemma do_internal_timer_measure : forall c s target c' s' e,
  do_internal_timer c s target = Ok (c', s', e) ->
  S (nsome (s_timers c') + nsome (s_timers s')) = (nsome (s_timers c) + nsome (s_timers s))%nat
  /\ s_sched c' = s_sched c /\ s_sched s' = s_sched s.
Proof.
  intros c s target c' s' e H. unfold do_internal_timer in H.
  destruct (take_timer (s_timers c) target 0) as [[id l]|] eqn:E1.
  - injection H as <- <- _. apply take_timer_nsome in E1.
    cbn [side_set_timers s_timers s_sched]. split; [lia|split; reflexivity].
  - destruct (take_timer (s_timers s) target 0) as [[id l]|] eqn:E2; [|discriminate H].
    injection H as <- <- _. apply take_timer_nsome in E2.
    cbn [side_set_timers s_timers s_sched]. split; [lia|split; reflexivity].
Qed.

Lemma do_internal_timer_nofuel : forall c s target, do_internal_timer c s target <> OutOfFuel.
Proof.
  intros c s target. unfold do_internal_timer.
  destruct (take_timer (s_timers c) target 0) as [[id l]|]; [discriminate|].
  destruct (take_timer (s_timers s) target 0) as [[id l]|]; discriminate.
Qed.

Lemma act_on_spec : forall sd cl a t sd' e,
  act_on sd cl a t = Ok (sd', e) -> s_sched sd' = s_sched sd /\ s_timers sd' = s_timers sd.
Proof.
  intros sd cl a t sd' e H. unfold act_on in H.
  destruct a; try discriminate H.
  - injection H as <- _. split; reflexivity.
  - injection H as <- _. destruct (_ || _); split; reflexivity.
Qed.

Lemma act_on_nofuel : forall sd cl a t, act_on sd cl a t <> OutOfFuel.
Proof. intros sd cl a t. unfold act_on. destruct a; discriminate. Qed.

Lemma do_scheduled_action_measure : forall c s target c' s' e,
  do_scheduled_action c s target = Ok (c', s', e) ->
  S (nsome (s_sched c') + nsome (s_sched s')) = (nsome (s_sched c) + nsome (s_sched s))%nat
  /\ s_timers c' = s_timers c /\ s_timers s' = s_timers s.
Proof.
  intros c s target c' s' e H. unfold do_scheduled_action in H.
  destruct (take_action (s_sched c) target) as [[[a t] l]|] eqn:E1.
  - mbind H as [c1 e1] Ea. injection H as <- <- _.
    apply act_on_spec in Ea as [Es Et]. apply take_action_nsome in E1.
    rewrite Es, Et. cbn [side_set_sched s_timers s_sched]. split; [lia|split; reflexivity].
  - destruct (take_action (s_sched s) target) as [[[a t] l]|] eqn:E2; [|discriminate H].
    mbind H as [s1 e1] Ea. injection H as <- <- _.
    apply act_on_spec in Ea as [Es Et]. apply take_action_nsome in E2.
    rewrite Es, Et. cbn [side_set_sched s_timers s_sched]. split; [lia|split; reflexivity].
Qed.

Lemma do_scheduled_action_nofuel : forall c s target, do_scheduled_action c s target <> OutOfFuel.
Proof.
  intros c s target. unfold do_scheduled_action.
  destruct (take_action (s_sched c) target) as [[[a t] l]|].
  - pose proof (act_on_nofuel (side_set_sched c l) true a t) as Hn.
    destruct (act_on _ _ _ _) as [[c1 e1]|k|]; cbn [bind]; [discriminate|discriminate|contradiction].
  - destruct (take_action (s_sched s) target) as [[[a t] l]|]; [|discriminate].
    pose proof (act_on_nofuel (side_set_sched s l) false a t) as Hn.
    destruct (act_on _ _ _ _) as [[c1 e1]|k|]; cbn [bind]; [discriminate|discriminate|contradiction].
Qed.

(** the peeked durations never exceed the sentinel *)
Lemma since_le : forall a b, since a b <= DMAX.
Proof. intros a b. unfold since. apply N.le_min_l. Qed.

Lemma fold_left_le : forall {B} (f : N -> B -> N), (forall acc o, f acc o <= acc) ->
  forall l acc, fold_left f l acc <= acc.
Proof.
  intros B f Hf. induction l as [|o l IH]; intros acc; cbn [fold_left].
  - lia.
  - specialize (IH (f acc o)). specialize (Hf acc o). lia.
Qed.

Lemma peek_sched_le : forall sc ss nowt, peek_sched sc ss nowt <= DMAX.
Proof.
  intros sc ss nowt. unfold peek_sched.
  match goal with |- fold_left ?f _ _ <= _ => 
    assert (Hf : forall acc o, f acc o <= acc) end.
  { intros acc [[a t]|]; [|lia].
    destruct (Z.leb nowt t); cbn [andb]; [|lia].
    destruct (N.ltb_spec (since t nowt) acc); lia. }
  eapply N.le_trans; [apply fold_left_le; exact Hf|]. apply fold_left_le; exact Hf.
Qed.

Lemma peek_timers_le : forall tc ts nowt, peek_timers tc ts nowt <= DMAX.
Proof.
  intros tc ts nowt. unfold peek_timers.
  match goal with |- fold_left ?f _ _ <= _ => 
    assert (Hf : forall acc o, f acc o <= acc) end.
  { intros acc [t|]; [|lia].
    destruct (Z.leb nowt t); cbn [andb]; [|lia].
    destruct (N.ltb_spec (since t nowt) acc); lia. }
  eapply N.le_trans; [apply fold_left_le; exact Hf|]. apply fold_left_le; exact Hf.
Qed.

Lemma peek_blocked_exp_le : forall bc bs nowt, fst (peek_blocked_exp bc bs nowt) <= DMAX.
Proof.
  intros bc bs nowt. unfold peek_blocked_exp.
  destruct bc as [c|], bs as [s|]; try (destruct (c <? s)%Z); cbn [fst]; try apply since_le. lia.
Qed.

Lemma peek_queue_earliest_side_le : forall sq bu bb nowt delay cl,
  fst (fst (peek_queue_earliest_side sq bu bb nowt delay cl)) <= DMAX.
Proof.
  intros sq bu bb nowt delay cl. unfold peek_queue_earliest_side.
  destruct (sq_peek_blocking sq bb cl) as [pb bq].
  destruct (sq_peek_non_blocking sq bb cl delay) as [pn nq].
  destruct pb as [b|], pn as [n|]; cbv zeta; try (cbn [fst]; first [apply since_le|lia]).
  match goal with |- context [if ?c then _ else _] => destruct c end; cbn [fst]; apply since_le.
Qed.

Lemma peek_queue_le : forall sq c s cd sd earliest nowt, earliest <= DMAX ->
  fst (fst (peek_queue sq c s cd sd earliest nowt)) <= DMAX.
Proof.
  intros sq c s cd sd earliest nowt He. unfold peek_queue.
  destruct (sq_len sq); [cbn [fst]; lia|].
  destruct (sq_peek sq cd sd nowt) as [[pk q] dur].
  destruct pk as [p|]; [|cbn [fst]; lia].
  destruct (N.ltb_spec earliest dur) as [Hlt|Hge]; [cbn [fst]; lia|].
  repeat match goal with
         | |- fst (fst (if ?c then _ else _)) <= _ => destruct c; [cbn [fst]; lia|]
         end.
  pose proof (peek_queue_earliest_side_le sq (s_buntil c) (s_bbypass c) nowt cd true) as H1.
  pose proof (peek_queue_earliest_side_le sq (s_buntil s) (s_bbypass s) nowt sd false) as H2.
  destruct (peek_queue_earliest_side sq (s_buntil c) _ _ _ true) as [[c_d c_q] c_b].
  destruct (peek_queue_earliest_side sq (s_buntil s) _ _ _ false) as [[s_d s_q] s_b].
  cbn [fst] in H1, H2.
  destruct (c_d <=? s_d); cbn [fst]; assumption.
Qed.

Lemma net_pop_agg_length : forall nb, n_aggq nb <> [] ->
  S (length (n_aggq (net_pop_agg nb))) = length (n_aggq nb).
Proof.
  intros nb Hne. unfold net_pop_agg.
  destruct (heap_pop pend_le (n_aggq nb)) as [[p q]|] eqn:E.
  - apply heap_pop_perm in E. apply Permutation_length in E. rewrite E.
    destruct (p_client p); reflexivity.
  - apply heap_pop_none in E. contradiction.
Qed.

Definition pn_measure (st : sim) : nat :=
  (length (n_aggq (m_net st)) + nsome (s_timers (m_c st)) + nsome (s_timers (m_s st))
   + nsome (s_sched (m_c st)) + nsome (s_sched (m_s st)))%nat.

Lemma pick_next_fuel_measure : forall fuel st nowt,
  (pn_measure st < fuel)%nat -> pick_next fuel st nowt <> OutOfFuel.
Proof.
  induction fuel as [|f IH]; intros st nowt Hm.
  - lia.
  - cbn [pick_next].
    pose proof (peek_sched_le (s_sched (m_c st)) (s_sched (m_s st)) nowt) as Hsa.
    pose proof (peek_timers_le (s_timers (m_c st)) (s_timers (m_s st)) nowt) as Hit.
    pose proof (peek_blocked_exp_le (s_buntil (m_c st)) (s_buntil (m_s st)) nowt) as Hb.
    remember (peek_sched (s_sched (m_c st)) (s_sched (m_s st)) nowt) as sa eqn:Esa.
    remember (peek_timers (s_timers (m_c st)) (s_timers (m_s st)) nowt) as it eqn:Eit.
    destruct (peek_blocked_exp _ _ _) as [b bc]. cbn [fst] in Hb.
    remember (net_peek_agg (m_net st) nowt) as n eqn:En.
    assert (Hq : fst (fst (peek_queue (m_sq st) (m_c st) (m_s st) (n_cagg (m_net st)) (n_sagg (m_net st))
                                      (N.min (N.min (N.min sa it) b) n) nowt)) <= DMAX).
    { apply peek_queue_le. lia. }
    destruct (peek_queue _ _ _ _ _ _ _) as [[q which] qc]. cbn [fst] in Hq.
    gif; [discriminate|].
    gif.
    { apply IH. unfold pn_measure in *. cbn [m_net m_c m_s].
      assert (Hne : n_aggq (m_net st) <> []).
      { intros Hnil. unfold net_peek_agg in En. rewrite Hnil in En. cbn [heap_peek hd_error] in En.
        rewrite !andb_true_iff, !N.leb_le in Eif0.
        rewrite !andb_false_iff, !N.eqb_neq in Eif. lia. }
      pose proof (net_pop_agg_length (m_net st) Hne). lia. }
    gif.
    { destruct bc; cbv beta iota; discriminate. }
    gif.
    { destruct (sq_pop _ _ _ _) as [[tmp sq']|]; discriminate. }
    gif.
    + pose proof (do_internal_timer_nofuel (m_c st) (m_s st) (nowt + Z.of_N it)%Z) as Hn.
      destruct (do_internal_timer _ _ _) as [[[c' s'] e]|k|] eqn:E; cbn [bind];
        [|discriminate|contradiction].
      apply do_internal_timer_measure in E as (E1 & E2 & E3).
      apply IH. unfold pn_measure in *. cbn [m_net m_c m_s]. rewrite E2, E3. lia.
    + pose proof (do_scheduled_action_nofuel (m_c st) (m_s st) (nowt + Z.of_N sa)%Z) as Hn.
      destruct (do_scheduled_action _ _ _) as [[[c' s'] e]|k|] eqn:E; cbn [bind];
        [|discriminate|contradiction].
      apply do_scheduled_action_measure in E as (E1 & E2 & E3).
      apply IH. unfold pn_measure in *. cbn [m_net m_c m_s]. rewrite E2, E3. lia.
Qed.

Lemma pick_next_fuel : forall fuel st nowt,
  (length (n_aggq (m_net st)) + length (s_timers (m_c st)) + length (s_timers (m_s st))
   + length (s_sched (m_c st)) + length (s_sched (m_s st)) < fuel)%nat ->
  pick_next fuel st nowt <> OutOfFuel.
Proof.
  intros fuel st nowt H. apply pick_next_fuel_measure. unfold pn_measure.
  pose proof (nsome_le_length (s_timers (m_c st))). pose proof (nsome_le_length (s_timers (m_s st))).
  pose proof (nsome_le_length (s_sched (m_c st))). pose proof (nsome_le_length (s_sched (m_s st))).
  lia.
Qed.

(** ** the embedded frameworks never run out of fuel

    [transition]'s recursion (through [update_counter] on a counter reaching
    zero) consumes one of the machine's two zeroed-once flags per level, so
    [FUEL] = 4 is never exhausted -- in ANY state, for ANY configuration.
    The only other source of [OutOfFuel] inside [trigger_events] is the
    abstract clock's [c_add], which is why a guard on the clock is needed. *)
Definition clock_nofuel (k : clock) : Prop := forall a b, c_add k a b <> OutOfFuel.

Lemma stdclock_nofuel : clock_nofuel stdclock.
Proof. intros a b. cbn [c_add stdclock]. destruct (a + b <=? DMAX); discriminate. Qed.

Lemma bind_nofuel : forall {A B} (o : outcome A) (f : A -> outcome B),
  o <> OutOfFuel -> (forall a, o = Ok a -> f a <> OutOfFuel) -> bind o f <> OutOfFuel.
Proof.
  intros A B [a|k|] f H1 H2; cbn [bind]; [apply H2; reflexivity|discriminate|contradiction].
Qed.

Lemma get_nofuel : forall {A} (l : list A) i, get l i <> OutOfFuel.
Proof. intros A l i. unfold get. destruct (nth_error l i); discriminate. Qed.

Lemma getN_nofuel : forall {A} (l : list A) i, getN l i <> OutOfFuel.
Proof. intros A l i. unfold getN. destruct (nthN l i); discriminate. Qed.

(** split on whatever is at the head of a goal [_ <> OutOfFuel] *)
Ltac nofuel_cases :=
  repeat match goal with
         | |- Ok _ <> _ => discriminate
         | |- Panic _ <> _ => discriminate
         | |- (match ?e with _ => _ end) <> _ => destruct e
         end.

Definition zf (r : mrt) : nat := ((if za r then 0 else 1) + (if zb r then 0 else 1))%nat.
Definition zfree (l : list mrt) (mi : nat) : nat :=
  match nth_error l mi with Some r => zf r | None => 0%nat end.

Lemma zfree_le2 : forall l mi, (zfree l mi <= 2)%nat.
Proof.
  intros l mi. unfold zfree, zf. destruct (nth_error l mi) as [r|]; [|lia].
  destruct (za r), (zb r); lia.
Qed.

Section FwNoFuel.
  Variable c : cfg.
  Variable tp : tape.
  Hypothesis Hclk : clock_nofuel (clk c).

  Lemma below_action_limits_nofuel : forall s r m, below_action_limits c s r m <> OutOfFuel.
  Proof.
    intros s r m. unfold below_action_limits.
    apply bind_nofuel; [apply getN_nofuel|intros st _].
    destruct (saction st) as [[| | |]|]; try discriminate.
    unfold below_limit_blocking.
    destruct (_ && bactive s); [discriminate|].
    apply bind_nofuel; [destruct (bactive s); [apply Hclk|discriminate]|intros m_dur _].
    apply bind_nofuel; [destruct (bactive s); [apply Hclk|discriminate]|intros g_dur _].
    nofuel_cases.
  Qed.

  Lemma schedule_action_nofuel : forall s mi stidx, schedule_action c tp s mi stidx <> OutOfFuel.
  Proof.
    intros s mi stidx. unfold schedule_action.
    apply bind_nofuel; [apply get_nofuel|intros m _].
    apply bind_nofuel; [apply getN_nofuel|intros st _].
    apply bind_nofuel; [apply get_nofuel|intros x _].
    nofuel_cases.
  Qed.

  Lemma update_counter_nofuel : forall trans s mi,
    (forall s', (zfree (rts s') mi < zfree (rts s) mi)%nat -> trans s' mi CounterZero <> OutOfFuel) ->
    update_counter trans c tp s mi <> OutOfFuel.
  Proof.
    intros trans s mi Htr. unfold update_counter.
    apply bind_nofuel; [apply get_nofuel|intros m _].
    apply bind_nofuel; [apply get_nofuel|intros r Er]. apply get_ok in Er.
    apply bind_nofuel; [apply getN_nofuel|intros st _].
    set (XA := match sctr_a st with
               | Some cn => _
               | None => (r, pos s, false)
               end).
    assert (HA : zb (fst (fst XA)) = zb r
                 /\ (if snd XA then za r = false /\ za (fst (fst XA)) = true
                     else za (fst (fst XA)) = za r)).
    { subst XA. destruct (sctr_a st) as [cn|]; [|cbn; auto].
      destruct (if ccopy cn then _ else _) as [chg p].
      destruct (_ && negb (za r)) eqn:Ez; cbn; (split; [reflexivity|]); [|reflexivity].
      apply andb_prop in Ez. destruct Ez as [_ Ez]. destruct (za r); [discriminate|auto]. }
    destruct XA as [[rA pA] zA]. cbn [fst snd] in HA. destruct HA as (HAb & HAz).
    cbv beta iota.
    set (XB := match sctr_b st with
               | Some cn => _
               | None => (rA, pA, false)
               end).
    assert (HB : za (fst (fst XB)) = za rA
                 /\ (if snd XB then zb rA = false /\ zb (fst (fst XB)) = true
                     else zb (fst (fst XB)) = zb rA)).
    { subst XB. destruct (sctr_b st) as [cn|]; [|cbn; auto].
      destruct (if ccopy cn then _ else _) as [chg p].
      destruct (_ && negb (zb rA)) eqn:Ez; cbn; (split; [reflexivity|]); [|reflexivity].
      apply andb_prop in Ez. destruct Ez as [_ Ez]. destruct (zb rA); [discriminate|auto]. }
    destruct XB as [[rB pB] zB]. cbn [fst snd] in HB. destruct HB as (HBa & HBz).
    cbv beta iota.
    destruct (zA || zB) eqn:Ezz; [|discriminate].
    apply bind_nofuel.
    - apply Htr. cbn [rts add_log set_pos set_rt set_rts].
      assert (Hlt : (mi < length (rts s))%nat) by (apply nth_error_Some; congruence).
      unfold zfree. rewrite Er, (nth_error_upd_eq _ _ _ Hlt). unfold zf.
      destruct zA, zB; try discriminate Ezz.
      + destruct HAz as [HA1 HA2], HBz as [HB1 HB2]. rewrite HBa, HA2, HB2, HA1, <- HAb, HB1. lia.
      + destruct HAz as [HA1 HA2]. rewrite HBa, HA2, HBz, HA1, HAb. destruct (zb r); lia.
      + destruct HBz as [HB1 HB2]. rewrite HBa, HAz, HB2, <- HAb, HB1. destruct (za r); lia.
    - intros [s2 ch] _. apply bind_nofuel; [apply get_nofuel|intros sl _; discriminate].
  Qed.

  Lemma transition_nofuel : forall fuel s mi ev,
    (zfree (rts s) mi < fuel)%nat -> transition fuel c tp s mi ev <> OutOfFuel.
  Proof.
    induction fuel as [|f IH]; intros s mi ev Hz.
    - lia.
    - cbn [transition].
      apply bind_nofuel; [apply get_nofuel|intros r Er]. apply get_ok in Er.
      cbn [rts add_step add_log] in Er.
      destruct (cur r =? STATE_END); [discriminate|].
      apply bind_nofuel; [apply get_nofuel|intros m _].
      apply bind_nofuel; [apply getN_nofuel|intros st _].
      destruct (sample_state _ _ _ _) as [nxt p].
      destruct nxt as [ns|]; [|discriminate].
      destruct (ns =? STATE_END); [discriminate|].
      destruct (ns =? STATE_SIGNAL); [discriminate|].
      apply bind_nofuel.
      { destruct (negb (cur r =? ns)); [|discriminate].
        apply bind_nofuel; [apply getN_nofuel|intros nst _]. nofuel_cases. }
      intros s2 Es2.
      assert (Hz2 : (zfree (rts s2) mi < S f)%nat).
      { destruct (negb (cur r =? ns)).
        - apply bind_ok in Es2 as (nst & _ & Es2).
          destruct (match saction nst with Some a => _ | None => _ end) as [l p'] in Es2.
          injection Es2 as <-. cbn [rts add_log set_pos set_rt set_rts].
          assert (Hlt : (mi < length (rts s))%nat) by (apply nth_error_Some; congruence).
          unfold zfree in *. rewrite (nth_error_upd_eq _ _ _ Hlt). rewrite Er in Hz.
          unfold zf in *. cbn [rt_set_cur za zb]. exact Hz.
        - injection Es2 as <-. cbn [rts add_log set_pos]. exact Hz. }
      apply bind_nofuel; [apply get_nofuel|intros r1 _].
      apply bind_nofuel; [apply below_action_limits_nofuel|intros below _].
      apply bind_nofuel.
      { apply update_counter_nofuel. intros s' Hs'. apply IH. lia. }
      intros [[s3 allow] changed] _.
      apply bind_nofuel; [destruct (allow && below); [apply schedule_action_nofuel|discriminate]|].
      intros s4 _.
      apply bind_nofuel; [apply get_nofuel|intros r2 _; discriminate].
  Qed.

  Lemma transition_top_nofuel : forall s mi ev, transition FUEL c tp s mi ev <> OutOfFuel.
  Proof.
    intros s mi ev. apply transition_nofuel. pose proof (zfree_le2 (rts s) mi). unfold FUEL. lia.
  Qed.

  Lemma decrement_limit_nofuel : forall s mi, decrement_limit c tp s mi <> OutOfFuel.
  Proof.
    intros s mi. unfold decrement_limit.
    apply bind_nofuel; [apply get_nofuel|intros r _].
    apply bind_nofuel; [apply get_nofuel|intros m _].
    apply bind_nofuel; [apply getN_nofuel|intros st _].
    destruct (saction st) as [a|]; [|discriminate].
    destruct (_ && action_has_limit a); [|discriminate].
    apply bind_nofuel; [apply transition_top_nofuel|intros [s1 b1] _; discriminate].
  Qed.

  Lemma trans_dec_nofuel : forall s mi ev dec, trans_dec c tp s mi ev dec <> OutOfFuel.
  Proof.
    intros s mi ev dec. unfold trans_dec.
    apply bind_nofuel; [apply transition_top_nofuel|intros [s1 ch] _].
    apply bind_nofuel; [apply get_nofuel|intros r _].
    destruct (_ && dec); [apply decrement_limit_nofuel|discriminate].
  Qed.

  Lemma trans_all_nofuel : forall ev k from s, trans_all c tp ev k from s <> OutOfFuel.
  Proof.
    intros ev. induction k as [|k IH]; intros from s; cbn [trans_all].
    - discriminate.
    - apply bind_nofuel; [apply transition_top_nofuel|intros [s1 b1] _; apply IH].
  Qed.

  Lemma blocking_begin_all_nofuel : forall target k from s,
    blocking_begin_all c tp target k from s <> OutOfFuel.
  Proof.
    intros target. induction k as [|k IH]; intros from s; cbn [blocking_begin_all].
    - discriminate.
    - apply bind_nofuel; [apply trans_dec_nofuel|intros s1 _; apply IH].
  Qed.

  Lemma normal_sent_all_nofuel : forall k from s, normal_sent_all c tp k from s <> OutOfFuel.
  Proof.
    induction k as [|k IH]; intros from s; cbn [normal_sent_all].
    - discriminate.
    - apply bind_nofuel; [apply get_nofuel|intros r _].
      apply bind_nofuel; [apply transition_top_nofuel|intros [s1 b1] _; apply IH].
  Qed.

  Lemma blocking_end_all_nofuel : forall blocked k from s,
    blocking_end_all c tp blocked k from s <> OutOfFuel.
  Proof.
    intros blocked. induction k as [|k IH]; intros from s; cbn [blocking_end_all].
    - discriminate.
    - apply bind_nofuel; [apply get_nofuel|intros r _].
      apply bind_nofuel.
      { destruct (negb (blocked =? 0)); [|discriminate].
        apply bind_nofuel; [apply Hclk|intros d _; discriminate]. }
      intros s1 _.
      apply bind_nofuel; [apply transition_top_nofuel|intros [s2 b2] _; apply IH].
  Qed.

  Lemma process_event_nofuel : forall s e, process_event c tp s e <> OutOfFuel.
  Proof.
    intros s e. unfold process_event.
    destruct e as [| | | |m| |m| |m|m].
    - apply trans_all_nofuel.
    - apply trans_all_nofuel.
    - apply trans_all_nofuel.
    - apply normal_sent_all_nofuel.
    - destruct (N.of_nat (nmach s) <=? m); [discriminate|].
      apply bind_nofuel; [apply get_nofuel|intros r _]. apply trans_dec_nofuel.
    - apply trans_all_nofuel.
    - apply blocking_begin_all_nofuel.
    - apply bind_nofuel.
      { destruct (bactive s); [|discriminate].
        apply bind_nofuel; [apply Hclk|intros g _; discriminate]. }
      intros [s1 blocked] _. apply blocking_end_all_nofuel.
    - destruct (N.of_nat (nmach s) <=? m); [discriminate|]. apply trans_dec_nofuel.
    - destruct (N.of_nat (nmach s) <=? m); [discriminate|].
      apply bind_nofuel; [apply transition_top_nofuel|intros [s1 b1] _; discriminate].
  Qed.

  Lemma events_nofuel : forall evs s, foldM (process_event c tp) evs s <> OutOfFuel.
  Proof.
    induction evs as [|e evs IH]; intros s; cbn [foldM].
    - discriminate.
    - apply bind_nofuel; [apply process_event_nofuel|intros s1 _; apply IH].
  Qed.

  Lemma signal_all_nofuel : forall excluded k from s, signal_all c tp excluded k from s <> OutOfFuel.
  Proof.
    intros excluded. induction k as [|k IH]; intros from s; cbn [signal_all].
    - discriminate.
    - apply bind_nofuel; [|intros s1 _; apply IH].
      destruct (match excluded with Some x => Nat.eqb x from | None => false end); [discriminate|].
      apply bind_nofuel; [apply transition_top_nofuel|intros [s1 b1] _; discriminate].
  Qed.

  Lemma signal_round_nofuel : forall s, signal_round c tp s <> OutOfFuel.
  Proof.
    intros s. unfold signal_round.
    destruct (sigp s) as [g|]; [|discriminate].
    apply bind_nofuel; [apply signal_all_nofuel|intros s1 _].
    apply bind_nofuel; [|intros s2 _; discriminate].
    destruct (sigp s1); [|discriminate].
    destruct g as [|x]; [discriminate|].
    apply bind_nofuel; [apply transition_top_nofuel|intros [s2 b2] _; discriminate].
  Qed.

  Theorem trigger_events_nofuel : forall s evs t, trigger_events c tp s evs t <> OutOfFuel.
  Proof.
    intros s evs t. unfold trigger_events.
    apply bind_nofuel; [apply events_nofuel|intros s1 _].
    apply bind_nofuel; [apply signal_round_nofuel|intros s2 _; discriminate].
  Qed.
End FwNoFuel.

(** ** the simulator's own glue never runs out of fuel *)
Lemma sim_network_stack_nofuel : forall next sq bb net nowt,
  sim_network_stack next sq bb net nowt <> OutOfFuel.
Proof.
  intros next sq bb net nowt. unfold sim_network_stack.
  destruct (se_ev next); nofuel_cases.
Qed.

Lemma apply_actions_nofuel : forall acts sd sq nowt cl, apply_actions acts sd sq nowt cl <> OutOfFuel.
Proof.
  induction acts as [|a rest IH]; intros sd sq nowt cl; cbn [apply_actions].
  - discriminate.
  - apply bind_nofuel; [|intros [sd' sq'] _; apply IH].
    destruct a.
    + apply bind_nofuel; [apply get_nofuel|intros x _; discriminate].
    + apply bind_nofuel; [apply get_nofuel|intros x _; discriminate].
    + apply bind_nofuel; [apply get_nofuel|intros x _; discriminate].
    + apply bind_nofuel; [apply get_nofuel|intros x _]. nofuel_cases.
Qed.

Lemma trigger_update_nofuel : forall cf tp sd pos next nowt sq cl,
  clock_nofuel (clk cf) -> trigger_update cf tp sd pos next nowt sq cl <> OutOfFuel.
Proof.
  intros cf tp sd pos next nowt sq cl Hclk. unfold trigger_update.
  apply bind_nofuel; [apply trigger_events_nofuel; exact Hclk|intros [fw' acts] _].
  apply bind_nofuel; [apply apply_actions_nofuel|intros [sd' sq'] _; discriminate].
Qed.

Lemma sim_step_nofuel : forall cc sc tp st nowt,
  clock_nofuel (clk cc) -> clock_nofuel (clk sc) -> sim_step cc sc tp st nowt <> OutOfFuel.
Proof.
  intros cc sc tp st nowt Hc Hs. unfold sim_step.
  apply bind_nofuel; [apply pick_next_fuel; lia|intros [nx st1] _].
  destruct nx as [next|]; [|discriminate].
  destruct (se_time next <? nowt)%Z; [discriminate|]. cbv zeta.
  apply bind_nofuel; [apply sim_network_stack_nofuel|intros [[sq2 net2] act] _].
  apply bind_nofuel; [|intros [[[c3 s3] sq3] pos3] _; discriminate].
  destruct (se_client next).
  - apply bind_nofuel; [apply trigger_update_nofuel; exact Hc|intros [[c' sq'] p'] _; discriminate].
  - apply bind_nofuel; [apply trigger_update_nofuel; exact Hs|intros [[s' sq'] p'] _; discriminate].
Qed.

(** [sim_loop_fuel] as requested (for arbitrary configurations) is FALSE: [cfg] carries an abstract
    clock whose [c_add : N -> N -> outcome N] may itself answer [OutOfFuel], and the loop passes that
    on (a BlockingEnd event while the framework's blocking is active calls [c_add]).  Witness: *)
Definition cex_clock : clock := mkclock (fun _ _ => 0) (fun _ _ => OutOfFuel) (fun u => u) (c_div vclock).
Definition cex_cfg : cfg := mkcfg [] 0 0 cex_clock.
Definition cex_fw : fstate := mkfstate 0 0 [] [] 0 0 0 0 true None 0 0 [].
Definition cex_st : sim :=
  mksim (mksimq evq_empty evq_empty None)
        (mkside cex_fw [] [] (Some 0%Z) false) (mkside cex_fw [] [] None false)
        (mknetb 0 0 [] 0 [] [] 0 0) 0.
Definition cex_args : simargs := mksimargs 0 1 false false false.

Lemma sim_loop_fuel_counterexample :
  sim_loop 1 cex_cfg cex_cfg (fun _ => 0) cex_args cex_st 0 [] 0 = OutOfFuel.
Proof. vm_compute. reflexivity. Qed.

Lemma sim_loop_fuel_false :
  ~ (forall cc sc tp args fuel st nowt tr iters,
       0 < a_max_iter args -> iters < a_max_iter args ->
       (N.to_nat (a_max_iter args - iters) <= fuel)%nat ->
       sim_loop fuel cc sc tp args st nowt tr iters <> OutOfFuel).
Proof.
  intros H.
  apply (H cex_cfg cex_cfg (fun _ => 0) cex_args 1%nat cex_st 0%Z [] 0).
  - reflexivity.
  - reflexivity.
  - cbn. lia.
  - exact sim_loop_fuel_counterexample.
Qed.

(** The strongest true variant: the clocks' [c_add] must not answer [OutOfFuel] (it may panic).
    Nothing else is assumed: no validity of the configurations, no invariant of the state. *)
Theorem sim_loop_fuel_partial : forall cc sc tp args,
  clock_nofuel (clk cc) -> clock_nofuel (clk sc) ->
  forall fuel st nowt tr iters,
  0 < a_max_iter args -> iters < a_max_iter args ->
  (N.to_nat (a_max_iter args - iters) <= fuel)%nat ->
  sim_loop fuel cc sc tp args st nowt tr iters <> OutOfFuel.
Proof.
  intros cc sc tp args Hc Hs. induction fuel as [|f IH]; intros st nowt tr iters Hpos Hit Hf.
  - lia.
  - rewrite sim_loop_S.
    apply bind_nofuel; [apply sim_step_nofuel; assumption|intros r _].
    destruct r as [[[next act] st3]|]; [|discriminate]. cbv zeta.
    gif; [discriminate|].
    gif; [discriminate|].
    assert (Hlt : iters + 1 < a_max_iter args).
    { apply andb_false_iff in Eif0. destruct Eif0 as [E|E].
      - apply N.ltb_ge in E. lia.
      - apply N.leb_gt in E. exact E. }
    gif; [discriminate|].
    apply IH; [exact Hpos|exact Hlt|lia].
Qed.

(** the simulator always runs its frameworks over the std clock *)
Corollary sim_loop_fuel_stdclock : forall cc sc tp args fuel st nowt tr iters,
  clk cc = stdclock -> clk sc = stdclock ->
  0 < a_max_iter args -> iters < a_max_iter args ->
  (N.to_nat (a_max_iter args - iters) <= fuel)%nat ->
  sim_loop fuel cc sc tp args st nowt tr iters <> OutOfFuel.
Proof.
  intros cc sc tp args fuel st nowt tr iters Ec Es.
  apply sim_loop_fuel_partial; [rewrite Ec|rewrite Es]; apply stdclock_nofuel.
Qed.
