(** Totality of the framework over a clock whose duration addition may
    overflow (the real [std::time] clock, [stdclock] of Model/Sim.v):
    the ONLY panic a call can raise is the Duration overflow [P_DURATION];
    no index, unwrap or fuel failure is possible.

    Method: the clock [k] is compared with its totalisation [tot_clock k]
    (the same clock, but an overflowing addition returns [Ok 0]).  Every
    function of the framework model run over [c] REFINES the same function
    run over [tot_cfg c]: the two outcomes are equal, or the run over [c] is
    [Panic P_DURATION] ([refines]).  The refinement is purely structural (no
    invariant is needed); the existing totality theorems
    ([trigger_events_total], [run_total], with the potential function and the
    zeroed-once flags) are then applied to [tot_cfg c], whose clock is total,
    and transported back.  In particular the step bound of
    [trigger_events_total] also holds over the std clock whenever the call
    returns. *)
From MB Require Import Model.Framework Model.Validate Model.Sim.
From MB Require Import Proofs.Tactics Proofs.ListFacts Proofs.FrameworkStructure.
From MB Require Import Proofs.FrameworkInv Proofs.FrameworkTotal.
Open Scope N_scope.

(** * clocks whose addition either succeeds or reports the Duration overflow *)
Definition clock_dur (k : clock) : Prop :=
  forall a b, (exists v, c_add k a b = Ok v) \/ c_add k a b = Panic P_DURATION.

Lemma clock_total_dur : forall k, clock_total k -> clock_dur k.
Proof. intros k H a b. left. apply H. Qed.

Lemma stdclock_dur : clock_dur stdclock.
Proof.
  intros a b. unfold stdclock. cbn [c_add].
  destruct (a + b <=? DMAX); [left; eexists; reflexivity|right; reflexivity].
Qed.

(** [clock_total] really is false for the std clock *)
Lemma stdclock_not_total : ~ clock_total stdclock.
Proof.
  intros H. destruct (H DMAX 1) as [v Hv]. unfold stdclock in Hv. cbn [c_add] in Hv.
  destruct (N.leb_spec (DMAX + 1) DMAX) as [Hle|Hgt]; [lia|discriminate Hv].
Qed.

(** * "Ok with P, or the Duration panic" *)
Definition okd {A} (P : A -> Prop) (o : outcome A) : Prop :=
  match o with Ok a => P a | Panic k => k = P_DURATION | OutOfFuel => False end.

Lemma okd_bind : forall {A B} (P : A -> Prop) (Q : B -> Prop) (o : outcome A) (f : A -> outcome B),
  okd P o -> (forall a, P a -> okd Q (f a)) -> okd Q (bind o f).
Proof. intros A B P Q [a|k|] f Ho Hf; cbn [bind okd] in *; [apply Hf; exact Ho|exact Ho|exact Ho]. Qed.

Lemma okd_weaken : forall {A} (P Q : A -> Prop) (o : outcome A),
  okd P o -> (forall a, P a -> Q a) -> okd Q o.
Proof. intros A P Q [a|k|] Ho H; cbn [okd] in *; auto. Qed.

Lemma okd_cases : forall {A} (P : A -> Prop) (o : outcome A),
  okd P o <-> (exists a, o = Ok a /\ P a) \/ o = Panic P_DURATION.
Proof.
  intros A P [a|k|]; cbn [okd]; split.
  - intros H. left. exists a. split; [reflexivity|exact H].
  - intros [(a' & E & H)|E]; [injection E as ->; exact H|discriminate E].
  - intros ->. right. reflexivity.
  - intros [(a' & E & _)|E]; [discriminate E|injection E as ->; reflexivity].
  - intros [].
  - intros [(a' & E & _)|E]; discriminate E.
Qed.

(** * refinement of outcomes *)
Definition refines {A} (o o' : outcome A) : Prop := o = o' \/ o = Panic P_DURATION.

Lemma refines_refl : forall {A} (o : outcome A), refines o o.
Proof. intros A o. left. reflexivity. Qed.

Lemma refines_bind : forall {A B} (o o' : outcome A) (f f' : A -> outcome B),
  refines o o' -> (forall a, refines (f a) (f' a)) -> refines (bind o f) (bind o' f').
Proof.
  intros A B o o' f f' [->| ->] Hf.
  - destruct o' as [a|k|]; cbn [bind]; [apply Hf|left; reflexivity|left; reflexivity].
  - right. reflexivity.
Qed.

Lemma refines_ok : forall {A} (o o' : outcome A) (P : A -> Prop),
  refines o o' -> (exists a, o' = Ok a /\ P a) -> okd P o.
Proof.
  intros A o o' P [->| ->] (a & E & H); [rewrite E; exact H|reflexivity].
Qed.

(** what a refinement of a non-panicking run says about panics *)
Lemma refines_panic : forall {A} (o o' : outcome A) k,
  refines o o' -> (forall k', o' <> Panic k') -> o = Panic k -> k = P_DURATION.
Proof.
  intros A o o' k [->| ->] Hn E; [exfalso; exact (Hn k E)|injection E as <-; reflexivity].
Qed.

(** * the totalised clock and configuration *)
Definition tadd (k : clock) (a b : N) : outcome N :=
  match c_add k a b with Ok v => Ok v | _ => Ok 0 end.

Definition tot_clock (k : clock) : clock :=
  mkclock (c_since k) (tadd k) (c_from_micros k) (c_div k).

Definition tot_cfg (c : cfg) : cfg :=
  mkcfg (machines c) (fw_max_padding_frac c) (fw_max_blocking_frac c) (tot_clock (clk c)).

Lemma tot_clock_total : forall k, clock_total (tot_clock k).
Proof.
  intros k a b. cbn [tot_clock c_add]. unfold tadd.
  destruct (c_add k a b); eexists; reflexivity.
Qed.

Lemma tadd_refines : forall k a b, clock_dur k -> refines (c_add k a b) (tadd k a b).
Proof.
  intros k a b H. unfold tadd. destruct (H a b) as [[v ->]| ->]; [left|right]; reflexivity.
Qed.

Lemma Inv_tot : forall c s, Inv (tot_cfg c) s <-> Inv c s.
Proof.
  intros c s. split; intros [H1 H2 H3 H4]; constructor.
  - exact H1.
  - exact H2.
  - exact H3.
  - exact H4.
  - exact H1.
  - exact H2.
  - exact H3.
  - exact H4.
Qed.

Lemma machines_ok_tot : forall c, machines_ok c -> machines_ok (tot_cfg c).
Proof. intros c H. exact H. Qed.

(** * the structural refinement, function by function *)

(** normalise the projections of [tot_cfg c] *)
Ltac rnorm :=
  cbv beta iota zeta;
  cbn [tot_cfg tot_clock machines clk fw_max_padding_frac fw_max_blocking_frac
       c_since c_from_micros c_div c_add].

(** one structural step; [h] closes the leaves that are not syntactically
    equal (clock additions, recursive calls, earlier lemmas) *)
Ltac rstep h :=
  match goal with
  | |- refines ?x ?y => constr_eq x y; apply refines_refl
  | |- refines (Ok _) (Ok _) => apply refines_refl      (* equal up to the projections of [tot_cfg] *)
  | |- refines _ _ => h
  | |- refines (bind _ _) (bind _ _) => apply refines_bind; [|intros]; cbv beta iota zeta
  | |- refines (if ?b then _ else _) _ => destruct b; cbv beta iota zeta
  | |- refines (match ?x with _ => _ end) _ => destruct x; cbv beta iota zeta
  end.

Ltac rauto h := rnorm; repeat (rstep h).

Section Refine.
  Variable c : cfg.
  Variable tp : tape.
  Hypothesis Hclk : clock_dur (clk c).

  Lemma schedule_action_tot : forall s mi st,
    schedule_action (tot_cfg c) tp s mi st = schedule_action c tp s mi st.
  Proof. reflexivity. Qed.

  Lemma below_limit_blocking_refines : forall s r m rp,
    refines (below_limit_blocking c s r m rp) (below_limit_blocking (tot_cfg c) s r m rp).
  Proof.
    intros s r m rp. unfold below_limit_blocking.
    rauto ltac:(apply tadd_refines; exact Hclk).
  Qed.

  Lemma below_action_limits_refines : forall s r m,
    refines (below_action_limits c s r m) (below_action_limits (tot_cfg c) s r m).
  Proof.
    intros s r m. unfold below_action_limits.
    rauto ltac:(apply below_limit_blocking_refines).
  Qed.

  Lemma update_counter_refines :
    forall (trans trans' : fstate -> nat -> event -> outcome (fstate * bool)) s mi,
    (forall s1 mi1 ev, refines (trans s1 mi1 ev) (trans' s1 mi1 ev)) ->
    refines (update_counter trans c tp s mi) (update_counter trans' (tot_cfg c) tp s mi).
  Proof.
    intros trans trans' s mi Ht. unfold update_counter.
    rauto ltac:(apply Ht).
  Qed.

  Lemma transition_refines : forall fuel s mi ev,
    refines (transition fuel c tp s mi ev) (transition fuel (tot_cfg c) tp s mi ev).
  Proof.
    induction fuel as [|fuel IH]; intros s mi ev; [apply refines_refl|].
    cbn [transition].
    rauto ltac:(first [ apply below_action_limits_refines
                      | apply update_counter_refines; exact IH
                      | rewrite schedule_action_tot; apply refines_refl ]).
  Qed.

  Lemma decrement_limit_refines : forall s mi,
    refines (decrement_limit c tp s mi) (decrement_limit (tot_cfg c) tp s mi).
  Proof.
    intros s mi. unfold decrement_limit.
    rauto ltac:(apply transition_refines).
  Qed.

  Lemma trans_dec_refines : forall s mi ev dec,
    refines (trans_dec c tp s mi ev dec) (trans_dec (tot_cfg c) tp s mi ev dec).
  Proof.
    intros s mi ev dec. unfold trans_dec.
    rauto ltac:(first [apply transition_refines|apply decrement_limit_refines]).
  Qed.

  Lemma trans_all_refines : forall ev k from s,
    refines (trans_all c tp ev k from s) (trans_all (tot_cfg c) tp ev k from s).
  Proof.
    induction k as [|k IH]; intros from s; cbn [trans_all]; [apply refines_refl|].
    rauto ltac:(first [apply transition_refines|apply IH]).
  Qed.

  Lemma blocking_begin_all_refines : forall target k from s,
    refines (blocking_begin_all c tp target k from s) (blocking_begin_all (tot_cfg c) tp target k from s).
  Proof.
    induction k as [|k IH]; intros from s; cbn [blocking_begin_all]; [apply refines_refl|].
    rauto ltac:(first [apply trans_dec_refines|apply IH]).
  Qed.

  Lemma normal_sent_all_refines : forall k from s,
    refines (normal_sent_all c tp k from s) (normal_sent_all (tot_cfg c) tp k from s).
  Proof.
    induction k as [|k IH]; intros from s; cbn [normal_sent_all]; [apply refines_refl|].
    rauto ltac:(first [apply transition_refines|apply IH]).
  Qed.

  Lemma blocking_end_all_refines : forall blocked k from s,
    refines (blocking_end_all c tp blocked k from s) (blocking_end_all (tot_cfg c) tp blocked k from s).
  Proof.
    induction k as [|k IH]; intros from s; cbn [blocking_end_all]; [apply refines_refl|].
    rauto ltac:(first [apply tadd_refines; exact Hclk|apply transition_refines|apply IH]).
  Qed.

  Lemma process_event_refines : forall s e,
    refines (process_event c tp s e) (process_event (tot_cfg c) tp s e).
  Proof.
    intros s e. unfold process_event.
    rauto ltac:(first [ apply tadd_refines; exact Hclk | apply transition_refines
                      | apply trans_all_refines | apply normal_sent_all_refines
                      | apply trans_dec_refines | apply blocking_begin_all_refines
                      | apply blocking_end_all_refines ]).
  Qed.

  Lemma events_refines : forall evs s,
    refines (foldM (process_event c tp) evs s) (foldM (process_event (tot_cfg c) tp) evs s).
  Proof.
    induction evs as [|e evs IH]; intros s; cbn [foldM]; [apply refines_refl|].
    apply refines_bind; [apply process_event_refines|exact IH].
  Qed.

  Lemma signal_all_refines : forall excluded k from s,
    refines (signal_all c tp excluded k from s) (signal_all (tot_cfg c) tp excluded k from s).
  Proof.
    induction k as [|k IH]; intros from s; cbn [signal_all]; [apply refines_refl|].
    rauto ltac:(first [apply transition_refines|apply IH]).
  Qed.

  Lemma signal_round_refines : forall s,
    refines (signal_round c tp s) (signal_round (tot_cfg c) tp s).
  Proof.
    intros s. unfold signal_round.
    rauto ltac:(first [apply transition_refines|apply signal_all_refines]).
  Qed.

  (** a call over [c] behaves exactly like the call over the totalised
      clock, or stops with the Duration overflow *)
  Theorem trigger_events_refines : forall s evs t,
    refines (trigger_events c tp s evs t) (trigger_events (tot_cfg c) tp s evs t).
  Proof.
    intros s evs t. unfold trigger_events.
    rauto ltac:(first [apply events_refines|apply signal_round_refines]).
  Qed.

  Theorem run_refines : forall h s,
    refines (run c tp s h) (run (tot_cfg c) tp s h).
  Proof.
    induction h as [|[evs t] h IH]; intros s; cbn [run]; [apply refines_refl|].
    rauto ltac:(first [apply trigger_events_refines|apply IH]).
  Qed.
End Refine.

(** * the theorems *)

(** with the step bound of [trigger_events_total] *)
Theorem trigger_events_total_dur_steps : forall c tp s evs t,
  machines_ok c -> clock_dur (clk c) -> Inv c s ->
  (exists s' acts, trigger_events c tp s evs t = Ok (s', acts) /\ Inv c s' /\ sigp s' = None /\
     nsteps s' <= (N.of_nat (length evs) + 1) * (N.of_nat (length (machines c)) + 1)
                  + 2 * N.of_nat (length (machines c)))
  \/ trigger_events c tp s evs t = Panic P_DURATION.
Proof.
  intros c tp s evs t Hms Hclk HI.
  destruct (trigger_events_total (tot_cfg c) tp (machines_ok_tot c Hms) (tot_clock_total (clk c))
              s evs t (proj2 (Inv_tot c s) HI)) as (s' & acts & Et & HI' & Hsig & Hn).
  destruct (trigger_events_refines c tp Hclk s evs t) as [E|E].
  - left. exists s', acts. split; [rewrite E; exact Et|]. split; [apply Inv_tot; exact HI'|].
    split; [exact Hsig|exact Hn].
  - right. exact E.
Qed.

Theorem trigger_events_total_dur : forall c tp s evs t,
  machines_ok c -> clock_dur (clk c) -> Inv c s ->
  (exists s' acts, trigger_events c tp s evs t = Ok (s', acts) /\ Inv c s' /\ sigp s' = None)
  \/ trigger_events c tp s evs t = Panic P_DURATION.
Proof.
  intros c tp s evs t Hms Hclk HI.
  destruct (trigger_events_total_dur_steps c tp s evs t Hms Hclk HI)
    as [(s' & acts & E & HI' & Hsig & _)|E]; [left|right; exact E].
  exists s', acts. split; [exact E|]. split; [exact HI'|exact Hsig].
Qed.

Theorem run_total_dur : forall c tp h s,
  machines_ok c -> clock_dur (clk c) -> Inv c s ->
  (exists s' outs, run c tp s h = Ok (s', outs) /\ Inv c s' /\ length outs = length h)
  \/ run c tp s h = Panic P_DURATION.
Proof.
  intros c tp h s Hms Hclk HI.
  destruct (run_total (tot_cfg c) tp h s (machines_ok_tot c Hms) (tot_clock_total (clk c))
              (proj2 (Inv_tot c s) HI)) as (s' & outs & Er & HI' & Hl).
  destruct (run_refines c tp Hclk h s) as [E|E].
  - left. exists s', outs. split; [rewrite E; exact Er|]. split; [apply Inv_tot; exact HI'|exact Hl].
  - right. exact E.
Qed.

(** the same in [okd] form *)
Corollary trigger_events_okd : forall c tp s evs t,
  machines_ok c -> clock_dur (clk c) -> Inv c s ->
  okd (fun r => Inv c (fst r) /\ sigp (fst r) = None) (trigger_events c tp s evs t).
Proof.
  intros c tp s evs t Hms Hclk HI. apply okd_cases.
  destruct (trigger_events_total_dur c tp s evs t Hms Hclk HI) as [(s' & acts & E & HI' & Hsig)|E];
    [left|right; exact E].
  exists (s', acts). split; [exact E|]. split; [exact HI'|exact Hsig].
Qed.

(** no panic other than the Duration overflow, and never out of fuel *)
Corollary trigger_events_panic_only_duration : forall c tp s evs t k,
  machines_ok c -> clock_dur (clk c) -> Inv c s ->
  trigger_events c tp s evs t = Panic k -> k = P_DURATION.
Proof.
  intros c tp s evs t k Hms Hclk HI E.
  destruct (trigger_events_total_dur c tp s evs t Hms Hclk HI) as [(s' & acts & E' & _)|E'];
    rewrite E' in E; [discriminate E|injection E as <-; reflexivity].
Qed.

Corollary trigger_events_fuel_dur : forall c tp s evs t,
  machines_ok c -> clock_dur (clk c) -> Inv c s ->
  trigger_events c tp s evs t <> OutOfFuel.
Proof.
  intros c tp s evs t Hms Hclk HI E.
  destruct (trigger_events_total_dur c tp s evs t Hms Hclk HI) as [(s' & acts & E' & _)|E'];
    rewrite E' in E; discriminate E.
Qed.

(** the framework over the real std clock *)
Corollary trigger_events_total_std : forall c tp s evs t,
  machines_ok c -> clk c = stdclock -> Inv c s ->
  (exists s' acts, trigger_events c tp s evs t = Ok (s', acts) /\ Inv c s' /\ sigp s' = None)
  \/ trigger_events c tp s evs t = Panic P_DURATION.
Proof.
  intros c tp s evs t Hms Hk HI. apply trigger_events_total_dur; [exact Hms| |exact HI].
  rewrite Hk. exact stdclock_dur.
Qed.
