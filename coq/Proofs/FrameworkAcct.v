(** Accounting frame and the gate lemma.

    [acct_same]: machine steps never change the accounting fields (packet
    counters, blocking accounting, clock) -- only [process_event]'s explicit
    updates do.

    Gate: for a predicate [Q s i ta] that (1) only depends on accounting fields
    of machine i and the global ones and (2) is implied by
    [below_action_limits] at the moment of scheduling, every filled slot
    satisfies Q at the end of a single-event call. Instances: padding budgets
    (C02), blocking budgets (C03). *)
From MB Require Import Model.Framework Model.Validate.
From MB Require Import Proofs.Tactics Proofs.ListFacts Proofs.FrameworkStructure.
Open Scope N_scope.

Record acct_same (s s' : fstate) : Prop := mk_acct_same {
  as_now : now s' = now s;
  as_fstart : fstart s' = fstart s;
  as_gnorm : gnorm s' = gnorm s;
  as_gpad : gpad s' = gpad s;
  as_gblk : gblk s' = gblk s;
  as_bstart : bstart s' = bstart s;
  as_bactive : bactive s' = bactive s;
  as_len : length (rts s') = length (rts s);
  as_rts : forall i r, nth_error (rts s) i = Some r ->
                       exists r', nth_error (rts s') i = Some r' /\ same_acct r r'
}.

Lemma acct_same_refl : forall s, acct_same s s.
Proof. intros s; constructor; auto. intros i r H; exists r; split; [auto|apply same_acct_refl]. Qed.

Lemma acct_same_trans : forall s1 s2 s3, acct_same s1 s2 -> acct_same s2 s3 -> acct_same s1 s3.
Proof.
  intros s1 s2 s3 A B. destruct A, B. constructor; try congruence.
  intros i r Hr. destruct (as_rts0 i r Hr) as (r2 & Hr2 & Hs2).
  destruct (as_rts1 i r2 Hr2) as (r3 & Hr3 & Hs3). exists r3. split; [auto|eapply same_acct_trans; eauto].
Qed.

Lemma acct_same_rts_eq : forall s s',
  now s' = now s -> fstart s' = fstart s -> gnorm s' = gnorm s -> gpad s' = gpad s ->
  gblk s' = gblk s -> bstart s' = bstart s -> bactive s' = bactive s -> rts s' = rts s ->
  acct_same s s'.
Proof.
  intros s s' H1 H2 H3 H4 H5 H6 H7 H8. constructor; auto; rewrite ?H8; auto.
  intros i r H; exists r; split; [auto|apply same_acct_refl].
Qed.

Lemma acct_same_set_rt : forall s mi r r',
  nth_error (rts s) mi = Some r -> same_acct r r' -> acct_same s (set_rt s mi r').
Proof.
  intros s mi r r' Hr Hs. constructor; cbn; auto using upd_length.
  intros i r0 H0. destruct (Nat.eq_dec mi i) as [->|Hne].
  - exists r'. split; [apply nth_error_upd_eq; apply nth_error_Some; congruence|]. congruence.
  - exists r0. rewrite nth_error_upd_neq by exact Hne. split; [auto|apply same_acct_refl].
Qed.

Ltac acct_prim :=
  first [ solve [intros; apply acct_same_rts_eq; reflexivity]
        | solve [intros; eapply acct_same_trans; eauto]
        | solve [intros; eapply acct_same_set_rt; eauto] ].

Lemma transition_acct : forall c tp fuel s mi ev s' b,
  transition fuel c tp s mi ev = Ok (s', b) -> acct_same s s'.
Proof.
  intros c tp. apply (transition_R c tp (fun _ => acct_same)); acct_prim.
Qed.

Lemma decrement_limit_acct : forall c tp s mi s',
  decrement_limit c tp s mi = Ok s' -> acct_same s s'.
Proof.
  intros c tp. apply (decrement_limit_R c tp (fun _ => acct_same)); acct_prim.
Qed.

Lemma update_counter_acct : forall c tp fuel s mi s' al ch,
  update_counter (transition fuel c tp) c tp s mi = Ok (s', al, ch) -> acct_same s s'.
Proof.
  intros c tp fuel s mi s' al ch.
  apply (update_counter_R c tp (fun _ => acct_same)); try acct_prim.
  intros; eapply transition_acct; eauto.
Qed.

Lemma schedule_action_acct : forall c tp s mi st s',
  schedule_action c tp s mi st = Ok s' -> acct_same s s'.
Proof.
  intros c tp. apply (schedule_action_R c tp (fun _ => acct_same)); acct_prim.
Qed.

(** slots of other machines are untouched by a step of machine mi *)
Definition slots_others (mi : nat) (s s' : fstate) : Prop :=
  length (slots s') = length (slots s) /\
  forall j, j <> mi -> nth_error (slots s') j = nth_error (slots s) j.

Lemma slots_others_refl : forall mi s, slots_others mi s s.
Proof. unfold slots_others; auto. Qed.

Lemma slots_others_trans : forall mi s1 s2 s3,
  slots_others mi s1 s2 -> slots_others mi s2 s3 -> slots_others mi s1 s3.
Proof.
  unfold slots_others; intros mi s1 s2 s3 [L1 H1] [L2 H2]. split; [congruence|].
  intros j Hj. rewrite H2, H1; auto.
Qed.

Ltac so_prim :=
  first [ solve [intros; unfold slots_others; cbn; split; auto]
        | solve [apply slots_others_trans]
        | solve [intros; unfold slots_others; cbn; split; [apply upd_length|];
                 intros; apply nth_error_upd_neq; auto] ].

Lemma transition_slots_others : forall c tp fuel s mi ev s' b,
  transition fuel c tp s mi ev = Ok (s', b) -> slots_others mi s s'.
Proof.
  intros c tp. apply (transition_R c tp slots_others); so_prim.
Qed.

Lemma decrement_limit_slots_others : forall c tp s mi s',
  decrement_limit c tp s mi = Ok s' -> slots_others mi s s'.
Proof.
  intros c tp. apply (decrement_limit_R c tp slots_others); so_prim.
Qed.

Section Gate.
  Variable c : cfg.
  Variable tp : tape.
  Variable Q : fstate -> nat -> taction -> Prop.
  Hypothesis Q_acct : forall s s' i ta, acct_same s s' -> Q s i ta -> Q s' i ta.
  Hypothesis Q_other : forall s mi r' i ta, i <> mi -> Q s i ta -> Q (set_rt s mi r') i ta.
  Hypothesis Q_sched : forall s mi r m st ta,
    nth_error (rts s) mi = Some r -> nth_error (machines c) mi = Some m ->
    nthN (states m) (cur r) = Some st -> below_action_limits c s r m = Ok true ->
    action_shape (saction st) ta -> Q s mi ta.

  Definition GateInv (s : fstate) : Prop :=
    forall i ta, nth_error (slots s) i = Some (Some ta) -> Q s i ta.

  Lemma GateInv_acct : forall s s', acct_same s s' -> slots s' = slots s -> GateInv s -> GateInv s'.
  Proof. unfold GateInv; intros s s' A S H i ta Hi. rewrite S in Hi. eauto. Qed.

  Ltac gsame H :=
    match type of H with
    | GateInv ?s0 => apply (GateInv_acct s0); [apply acct_same_rts_eq; reflexivity|reflexivity|exact H]
    end.

  Lemma GateInv_set_slot : forall s mi a,
    GateInv s -> (forall ta, a = Some ta -> Q s mi ta) -> GateInv (set_slot s mi a).
  Proof.
    unfold GateInv; intros s mi a H Ha i ta Hi. cbn in Hi.
    assert (A : acct_same s (set_slot s mi a)) by (apply acct_same_rts_eq; reflexivity).
    rewrite nth_error_upd in Hi. destruct (Nat.eqb_spec mi i) as [->|Hne].
    - destruct (i <? length (slots s))%nat; inversion Hi; subst. eapply Q_acct; eauto.
    - eapply Q_acct; eauto.
  Qed.

  Lemma schedule_action_gate : forall s mi stidx s' m st,
    GateInv s ->
    nth_error (machines c) mi = Some m -> nthN (states m) stidx = Some st ->
    (forall ta, action_shape (saction st) ta -> Q s mi ta) ->
    schedule_action c tp s mi stidx = Ok s' -> GateInv s'.
  Proof.
    intros s mi stidx s' m st HG Hm Hst HQ H. unfold schedule_action in H.
    unfold get at 1 in H. rewrite Hm in H. cbn [bind] in H.
    unfold getN in H. rewrite Hst in H. cbn [bind] in H. mbind H as sl Esl.
    set (s0 := add_log s (LOG_SCHED, N.of_nat mi, stidx)) in *.
    assert (A0 : acct_same s s0) by (apply acct_same_rts_eq; reflexivity).
    assert (HG0 : GateInv s0) by (eapply GateInv_acct; eauto).
    assert (HQ0 : forall s1 ta, acct_same s0 s1 -> action_shape (saction st) ta -> Q s1 mi ta).
    { intros s1 ta A1 Hsh. apply (Q_acct s s1); [eapply acct_same_trans; [exact A0|exact A1]|]. apply HQ; exact Hsh. }
    destruct (saction st) as [[t|b r t l|b r t d l|r d l]|] eqn:Ea.
    - inversion H; subst. apply GateInv_set_slot; [exact HG0|].
      intros ta Hta; inversion Hta; subst. apply HQ0; [apply acct_same_refl|cbn; auto].
    - destruct (sample_day_clamped tp (pos s0) t) as [v p]. inversion H; subst.
      apply GateInv_set_slot.
      + gsame HG0.
      + intros ta Hta; inversion Hta; subst. apply HQ0; [apply acct_same_rts_eq; reflexivity|cbn; auto].
    - destruct (sample_day_clamped tp (pos s0) t) as [v p]. destruct (sample_day_clamped tp p d) as [v2 p2].
      inversion H; subst. apply GateInv_set_slot.
      + gsame HG0.
      + intros ta Hta; inversion Hta; subst. apply HQ0; [apply acct_same_rts_eq; reflexivity|cbn; auto].
    - destruct (sample_day_clamped tp (pos s0) d) as [v p]. inversion H; subst.
      apply GateInv_set_slot.
      + gsame HG0.
      + intros ta Hta; inversion Hta; subst. apply HQ0; [apply acct_same_rts_eq; reflexivity|cbn; auto].
    - inversion H; subst. apply GateInv_set_slot; [exact HG0|]. intros ta Hta; discriminate Hta.
  Qed.

  (** a machine step: preorder "GateInv is preserved" cannot use the generic
      lemma (the scheduling point needs the limit check), so one induction *)
  Lemma GateInv_set_rt_acct : forall s mi r r',
    nth_error (rts s) mi = Some r -> same_acct r r' -> GateInv s -> GateInv (set_rt s mi r').
  Proof.
    intros s mi r r' Hr Hs HG. eapply GateInv_acct; [eapply acct_same_set_rt; eauto|reflexivity|exact HG].
  Qed.

  Lemma transition_gate : forall fuel s mi ev s' b,
    GateInv s -> transition fuel c tp s mi ev = Ok (s', b) -> GateInv s'.
  Proof.
    induction fuel as [|fuel IH]; intros s mi ev s' b HG H; [discriminate H|].
    cbn [transition] in H.
    set (s0 := add_step (add_log s (LOG_TRANS, N.of_nat mi, N.of_nat (event_idx ev)))) in H.
    assert (HG0 : GateInv s0) by (gsame HG).
    mbind H as r Er. apply get_ok in Er.
    destruct (cur r =? STATE_END) eqn:Eend; [inversion H; subst; exact HG0|].
    mbind H as m Em. apply get_ok in Em. mbind H as st Est.
    destruct (sample_state tp (pos s0) st ev) as [nxt p] eqn:Es.
    assert (HG1 : GateInv (set_pos s0 p))
      by (gsame HG0).
    destruct nxt as [ns|]; [|inversion H; subst; exact HG1].
    set (s1 := add_log (set_pos s0 p) (LOG_NEXT, N.of_nat mi, ns)) in H.
    assert (HG2 : GateInv s1)
      by (gsame HG1).
    destruct (ns =? STATE_END) eqn:Ens.
    { inversion H; subst. apply (GateInv_set_rt_acct s1 mi r); [exact Er|sa|exact HG2]. }
    destruct (ns =? STATE_SIGNAL) eqn:Esg.
    { inversion H; subst. gsame HG2. }
    mbind H as s2 E2.
    assert (H2 : GateInv s2 /\ exists r2, nth_error (rts s2) mi = Some r2 /\ cur r2 = ns).
    { destruct (N.eqb_spec (cur r) ns) as [Heq|Hneq]; cbn [negb] in E2.
      - inversion E2; subst s2. split; [exact HG2|]. exists r. split; [exact Er|exact Heq].
      - mbind E2 as nst Enst.
        destruct (match saction nst with Some a4 => sample_limit tp (pos s1) a4 | None => (STATE_LIMIT_MAX, pos s1) end) as [l q].
        inversion E2; subst s2. split.
        + assert (HGr : GateInv (set_rt s1 mi (rt_set_cur r ns l)))
            by (apply (GateInv_set_rt_acct s1 mi r); [exact Er|sa|exact HG2]).
          gsame HGr.
        + exists (rt_set_cur r ns l). split; [|reflexivity].
          cbn. apply nth_error_upd_eq. apply nth_error_Some. cbn in Er. congruence. }
    destruct H2 as (HGs2 & r2 & Hr2 & Hc2).
    mbind H as r1 Er1. apply get_ok in Er1. assert (r1 = r2) by congruence. subst r1.
    mbind H as below Ebel. mbind H as [[s3 allow] chg] Euc.
    pose proof (update_counter_acct _ _ _ _ _ _ _ _ Euc) as A23.
    assert (HG3 : GateInv s3).
    { (* update_counter: a set_rt with same accounting, then possibly a nested transition *)
      clear - Euc HGs2 IH Q_acct.
      unfold update_counter in Euc.
      mbind Euc as m0 Em0. mbind Euc as r0 Er0. apply get_ok in Er0. mbind Euc as st0 Est0.
      set (XA := match sctr_a st0 with
                 | Some cn => _
                 | None => (r0, pos s2, false)
                 end) in Euc.
      assert (SA : same_acct r0 (fst (fst XA))).
      { subst XA. destruct (sctr_a st0) as [cn|]; [|cbn; apply same_acct_refl].
        destruct (if ccopy cn then (cb r0, pos s2) else sample_value tp (pos s2) cn) as [chg0 p0].
        destruct (negb (ca r0 =? 0) && (apply_op (cop cn) (ca r0) chg0 =? 0) && negb (za r0)); sa. }
      destruct XA as [[rA pA] zA]. cbn [fst] in SA.
      set (XB := match sctr_b st0 with
                 | Some cn => _
                 | None => (rA, pA, false)
                 end) in Euc.
      assert (SB : same_acct rA (fst (fst XB))).
      { subst XB. destruct (sctr_b st0) as [cn|]; [|cbn; apply same_acct_refl].
        destruct (if ccopy cn then (ca r0, pA) else sample_value tp pA cn) as [chg0 p0].
        destruct (negb (cb r0 =? 0) && (apply_op (cop cn) (cb rA) chg0 =? 0) && negb (zb rA)); sa. }
      destruct XB as [[rB pB] zB]. cbn [fst] in SB.
      assert (HGy : GateInv (set_rt s2 mi rB))
        by (apply (GateInv_set_rt_acct s2 mi r0); [exact Er0|eapply same_acct_trans; eauto|exact HGs2]).
      assert (HGx : GateInv (set_pos (set_rt s2 mi rB) pB)) by (gsame HGy).
      destruct (zA || zB).
      - mbind Euc as [s4 chg4] E4. mbind Euc as sl Esl. inversion Euc; subst.
        eapply IH; [|exact E4].
        gsame HGx.
      - inversion Euc; subst. exact HGx. }
    mbind H as s4 Esch. mbind H as r4 Er4.
    assert (Hs' : s' = s4) by (inversion H; reflexivity). subst s'. clear H.
    destruct (allow && below) eqn:Eab; [|inversion Esch; subst s4; exact HG3].
    apply andb_prop in Eab. destruct Eab as [_ Hb]. subst below.
    assert (Hnst : exists nst, nthN (states m) ns = Some nst).
    { unfold below_action_limits in Ebel. rewrite Hc2 in Ebel.
      destruct (getN (states m) ns) as [nst| |] eqn:E; cbn [bind] in Ebel; try discriminate.
      apply getN_ok in E. eauto. }
    destruct Hnst as [nst Hnst].
    eapply (schedule_action_gate s3 mi ns s4 m nst); eauto.
    intros ta Hsh. eapply Q_acct; [exact A23|].
    eapply (Q_sched s2 mi r2 m nst ta); eauto. rewrite Hc2. exact Hnst.
  Qed.

  Lemma decrement_limit_gate : forall s mi s',
    GateInv s -> decrement_limit c tp s mi = Ok s' -> GateInv s'.
  Proof.
    unfold decrement_limit; intros s mi s' HG H.
    mbind H as r0 Er0. apply get_ok in Er0.
    set (r := if 0 <? lim r0 then rt_set_lim r0 (lim r0 - 1) else r0) in H.
    set (s1 := set_rt (add_log s (LOG_DEC, N.of_nat mi, 0)) mi r) in H.
    assert (HG1 : GateInv s1).
    { subst s1. apply (GateInv_set_rt_acct _ mi r0); [exact Er0|subst r; destruct (0 <? lim r0); sa|].
      gsame HG. }
    mbind H as m Em. mbind H as st Est.
    destruct (saction st) as [act|]; [|inversion H; subst; exact HG1].
    destruct ((lim r =? 0) && action_has_limit act); [|inversion H; subst; exact HG1].
    mbind H as [s2 b] E2. inversion H; subst.
    eapply transition_gate; [|exact E2].
    assert (HGn : GateInv (set_slot s1 mi None))
      by (apply GateInv_set_slot; [exact HG1|intros ta Hta; discriminate Hta]).
    gsame HGn.
  Qed.

  Lemma trans_dec_gate : forall s mi ev dec s',
    GateInv s -> trans_dec c tp s mi ev dec = Ok s' -> GateInv s'.
  Proof.
    unfold trans_dec; intros s mi ev dec s' HG H.
    mbind H as [s1 chg] E. apply transition_gate in E; [|exact HG]. mbind H as r Er.
    destruct (negb chg && negb (cur r =? STATE_END) && dec).
    - eapply decrement_limit_gate; eauto.
    - inversion H; subst; exact E.
  Qed.

  (** ** loops *)
  Definition NoneFrom (from : nat) (s : fstate) : Prop :=
    forall j ta, (from <= j)%nat -> nth_error (slots s) j <> Some (Some ta).

  Lemma NoneFrom_step : forall from s s',
    slots_others from s s' -> NoneFrom from s -> NoneFrom (S from) s'.
  Proof.
    unfold NoneFrom; intros from s s' [_ Hs] H j ta Hj. rewrite Hs by lia. apply H. lia.
  Qed.

  Lemma GateInv_bump : forall s mi r',
    GateInv s -> (forall ta, nth_error (slots s) mi <> Some (Some ta)) -> GateInv (set_rt s mi r').
  Proof.
    unfold GateInv; intros s mi r' HG Hn i ta Hi. cbn in Hi.
    destruct (Nat.eq_dec i mi) as [->|Hne]; [exfalso; eapply Hn; eauto|].
    apply Q_other; auto.
  Qed.

  Lemma trans_all_gate : forall ev k from s s',
    GateInv s -> trans_all c tp ev k from s = Ok s' -> GateInv s'.
  Proof.
    induction k as [|k IH]; intros from s s' HG H; cbn [trans_all] in H.
    - inversion H; subst; exact HG.
    - mbind H as [s1 b] E. eapply IH; [|exact H]. eapply transition_gate; eauto.
  Qed.

  Lemma normal_sent_all_gate : forall k from s s',
    GateInv s -> NoneFrom from s -> normal_sent_all c tp k from s = Ok s' -> GateInv s'.
  Proof.
    induction k as [|k IH]; intros from s s' HG HN H; cbn [normal_sent_all] in H.
    - inversion H; subst; exact HG.
    - mbind H as r Er. mbind H as [s1 b] E.
      assert (HG0 : GateInv (set_rt s from (rt_set_nsent r (nsent r + 1))))
        by (apply GateInv_bump; [exact HG|intros ta; apply HN; lia]).
      eapply (IH (S from)); [eapply transition_gate; eauto| |exact H].
      eapply NoneFrom_step; [eapply transition_slots_others; eauto|].
      intros j ta Hj. cbn. apply HN; exact Hj.
  Qed.

  Lemma blocking_end_all_gate : forall blocked k from s s',
    GateInv s -> NoneFrom from s -> blocking_end_all c tp blocked k from s = Ok s' -> GateInv s'.
  Proof.
    induction k as [|k IH]; intros from s s' HG HN H; cbn [blocking_end_all] in H.
    - inversion H; subst; exact HG.
    - mbind H as r Er. mbind H as s0 E0. mbind H as [s1 b] E.
      assert (H0 : GateInv s0 /\ NoneFrom from s0).
      { destruct (negb (blocked =? 0)); [|inversion E0; subst; auto].
        mbind E0 as d Ed. inversion E0; subst. split.
        - apply GateInv_bump; [exact HG|intros ta; apply HN; lia].
        - intros j ta Hj. cbn. apply HN; exact Hj. }
      destruct H0 as [HG0 HN0].
      eapply (IH (S from)); [eapply transition_gate; eauto| |exact H].
      eapply NoneFrom_step; [eapply transition_slots_others; eauto|exact HN0].
  Qed.

  Lemma blocking_begin_all_gate : forall target k from s s',
    GateInv s -> blocking_begin_all c tp target k from s = Ok s' -> GateInv s'.
  Proof.
    induction k as [|k IH]; intros from s s' HG H; cbn [blocking_begin_all] in H.
    - inversion H; subst; exact HG.
    - mbind H as s1 E. eapply IH; [|exact H]. eapply trans_dec_gate; eauto.
  Qed.

  Lemma signal_all_gate : forall excluded k from s s',
    GateInv s -> signal_all c tp excluded k from s = Ok s' -> GateInv s'.
  Proof.
    induction k as [|k IH]; intros from s s' HG H; cbn [signal_all] in H.
    - inversion H; subst; exact HG.
    - mbind H as s1 E. eapply IH; [|exact H].
      destruct (match excluded with Some x => Nat.eqb x from | None => false end);
        [inversion E; subst; exact HG|].
      mbind E as [s2 b] E2. inversion E; subst. eapply transition_gate; [|exact E2].
      gsame HG.
  Qed.

  Lemma signal_round_gate : forall s s', GateInv s -> signal_round c tp s = Ok s' -> GateInv s'.
  Proof.
    unfold signal_round; intros s s' HG H.
    destruct (sigp s) as [g|]; [|inversion H; subst; exact HG].
    mbind H as s1 E1. mbind H as s2 E2. inversion H; subst.
    assert (HG1 : GateInv s1).
    { eapply signal_all_gate; [|exact E1].
      gsame HG. }
    assert (HG2 : GateInv s2).
    { destruct (sigp s1) as [g1|]; [|inversion E2; subst; exact HG1].
      destruct g as [|x]; [inversion E2; subst; exact HG1|].
      mbind E2 as [s3 b] E3. inversion E2; subst. eapply transition_gate; [|exact E3].
      gsame HG1. }
    gsame HG2.
  Qed.

  (** ** a single-event call *)
  Definition AllNone (s : fstate) : Prop := NoneFrom 0 s.

  Lemma AllNone_gate : forall s, AllNone s -> GateInv s.
  Proof. unfold AllNone, NoneFrom, GateInv; intros s H i ta Hi. exfalso. apply (H i ta (Nat.le_0_l i)). exact Hi. Qed.

  Lemma AllNone_same_slots : forall s s', slots s' = slots s -> AllNone s -> AllNone s'.
  Proof. unfold AllNone, NoneFrom; intros s s' E H j ta Hj. rewrite E. apply H; exact Hj. Qed.

  Lemma process_event_gate : forall s e s',
    AllNone s -> process_event c tp s e = Ok s' -> GateInv s'.
  Proof.
    unfold process_event; intros s e s' HA H.
    pose proof (AllNone_gate s HA) as HG.
    destruct e as [ | | | |m| |m| |m|m].
    - eapply trans_all_gate; eauto.
    - eapply trans_all_gate; eauto.
    - eapply trans_all_gate; eauto.
    - eapply normal_sent_all_gate; [| |exact H].
      + apply AllNone_gate. eapply AllNone_same_slots; [|exact HA]. reflexivity.
      + eapply AllNone_same_slots; [|exact HA]. reflexivity.
    - destruct (N.of_nat (nmach s) <=? m).
      + inversion H; subst. apply AllNone_gate. eapply AllNone_same_slots; [|exact HA]. reflexivity.
      + mbind H as r Er. eapply trans_dec_gate; [|exact H].
        apply AllNone_gate. eapply AllNone_same_slots; [|exact HA]. reflexivity.
    - eapply trans_all_gate; eauto.
    - eapply blocking_begin_all_gate; [|exact H].
      destruct (bactive s); [exact HG|].
      apply AllNone_gate. eapply AllNone_same_slots; [|exact HA]. reflexivity.
    - mbind H as [s0 b] E0.
      assert (HA0 : AllNone s0).
      { destruct (bactive s); [|inversion E0; subst; exact HA].
        mbind E0 as g Eg. inversion E0; subst. eapply AllNone_same_slots; [|exact HA]. reflexivity. }
      eapply blocking_end_all_gate; [apply AllNone_gate; exact HA0|exact HA0|exact H].
    - destruct (N.of_nat (nmach s) <=? m); [inversion H; subst; exact HG|].
      eapply trans_dec_gate; eauto.
    - destruct (N.of_nat (nmach s) <=? m); [inversion H; subst; exact HG|].
      mbind H as [s1 b] E. inversion H; subst. eapply transition_gate; eauto.
  Qed.

  Theorem single_event_gate : forall s e t s' acts,
    trigger_events c tp s [e] t = Ok (s', acts) -> GateInv s'.
  Proof.
    unfold trigger_events; intros s e t s' acts H. cbn [foldM] in H.
    mbind H as s1 E1. mbind E1 as s0 E0. inversion E1; subst s0. clear E1. rename E0 into E1.
    mbind H as s2 E2. inversion H; subst.
    eapply signal_round_gate; [|exact E2].
    eapply process_event_gate; [|exact E1].
    intros j ta _. cbn. rewrite nth_error_map. destruct (nth_error (slots s) j); cbn; congruence.
  Qed.
End Gate.
