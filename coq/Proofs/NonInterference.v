(** C10 (partial): the frame properties behind non-interference.

    (1) A step of machine j leaves the runtime and the action slot of every
        other machine i untouched, and never touches the accounting fields.
    (2) Everything machine i's limit checks read -- its own counters and the
        shared accounting -- is the same function of the reported events in
        the combined run and in the solo run on the projected history (events
        addressed to i renamed to 0, events addressed to others to an unknown
        id).
    The full simulation (equal actions) is checked differentially, not proved
    here; see DESIGN.md. *)
From MB Require Import Model.Framework.
From MB Require Import Proofs.Tactics Proofs.ListFacts Proofs.FrameworkStructure Proofs.FrameworkInv
     Proofs.FrameworkTotal Proofs.FrameworkAcct Proofs.AcctSpec Proofs.PaddingBudget.
Open Scope N_scope.

Theorem step_frame : forall c tp fuel s j ev s' b i,
  transition fuel c tp s j ev = Ok (s', b) -> i <> j ->
  nth_error (rts s') i = nth_error (rts s) i /\
  nth_error (slots s') i = nth_error (slots s) i /\
  acct_same s s'.
Proof.
  intros c tp fuel s j ev s' b i H Hne.
  pose proof (transition_others _ _ _ _ _ _ _ _ H) as [_ O].
  pose proof (transition_slots_others _ _ _ _ _ _ _ _ H) as [_ S].
  pose proof (transition_acct _ _ _ _ _ _ _ _ H) as A.
  rewrite O, S by auto. auto.
Qed.

Theorem decrement_frame : forall c tp s j s' i,
  decrement_limit c tp s j = Ok s' -> i <> j ->
  nth_error (rts s') i = nth_error (rts s) i /\
  nth_error (slots s') i = nth_error (slots s) i /\
  acct_same s s'.
Proof.
  intros c tp s j s' i H Hne.
  pose proof (decrement_limit_others _ _ _ _ _ H) as [_ O].
  pose proof (decrement_limit_slots_others _ _ _ _ _ H) as [_ S].
  pose proof (decrement_limit_acct _ _ _ _ _ H) as A.
  rewrite O, S by auto. auto.
Qed.

(** ** projection of a history onto machine i *)
Definition FOREIGN : N := U64_MAX.

Definition proj_id (i : nat) (m : N) : N := if m =? N.of_nat i then 0 else FOREIGN.

Definition proj_event (i : nat) (e : trigger_event) : trigger_event :=
  match e with
  | TEPaddingSent m => TEPaddingSent (proj_id i m)
  | TEBlockingBegin m => TEBlockingBegin (proj_id i m)
  | TETimerBegin m => TETimerBegin (proj_id i m)
  | TETimerEnd m => TETimerEnd (proj_id i m)
  | e => e
  end.

(** the accounting view of machine i *)
Definition acct_view (a : acct) (i : nat) (a1 : acct) : Prop :=
  a_now a = a_now a1 /\ a_start a = a_start a1 /\ a_gnorm a = a_gnorm a1 /\ a_gpad a = a_gpad a1 /\
  a_gblk a = a_gblk a1 /\ a_bstart a = a_bstart a1 /\ a_bactive a = a_bactive a1 /\
  exists x, nth_error (a_m a) i = Some x /\ a_m a1 = [x].

Lemma mapi_acct_single : forall m x,
  mapi_acct m [x] = [let '(n, p, b) := x in if 0 =? m then (n, p + 1, b) else (n, p, b)].
Proof. intros m [[n p] b]. reflexivity. Qed.

Ltac view_split := split; [|split; [|split; [|split; [|split; [|split; [|split]]]]]].

Lemma acct_event_view : forall k i e a a1,
  acct_view a i a1 -> acct_view (acct_event k e a) i (acct_event k (proj_event i e) a1).
Proof.
  intros k i e a a1 (H1 & H2 & H3 & H4 & H5 & H6 & H7 & x & Hx & Hm).
  assert (Hsame : acct_view a i a1) by (view_split; auto; exists x; auto).
  destruct e as [ | | | |m| |m| |m|m]; cbn [proj_event acct_event]; try exact Hsame.
  - (* NormalSent *)
    view_split; cbn; auto; try congruence.
    destruct x as [[n p] b]. exists (n + 1, p, b).
    split; [exact (map_nth_error (fun '(n, p, b) => (n + 1, p, b)) _ _ Hx)|].
    rewrite Hm. reflexivity.
  - (* PaddingSent *)
    view_split; cbn; auto; try congruence.
    destruct x as [[n p] b].
    exists (n, if m =? N.of_nat i then p + 1 else p, b).
    split; [apply mapi_acct_nth; exact Hx|].
    rewrite Hm, mapi_acct_single. unfold proj_id.
    destruct (m =? N.of_nat i); cbn; reflexivity.
  - (* BlockingBegin *)
    rewrite <- H7. destruct (a_bactive a); [exact Hsame|].
    view_split; cbn; auto; try congruence. exists x; auto.
  - (* BlockingEnd *)
    rewrite <- H7. destruct (a_bactive a); [|exact Hsame].
    rewrite <- H1, <- H6, <- H5. view_split; cbn; auto.
    destruct x as [[n p] b].
    exists (n, p, if c_since k (a_now a) (a_bstart a) =? 0 then b else addv k b (c_since k (a_now a) (a_bstart a))).
    split; [exact (map_nth_error _ _ _ Hx)|]. rewrite Hm. reflexivity.
Qed.

Lemma acct_call_view : forall k i evs t a a1,
  acct_view a i a1 -> acct_view (acct_call k evs t a) i (acct_call k (map (proj_event i) evs) t a1).
Proof.
  unfold acct_call. intros k i evs t a a1 (H1 & H2 & H3 & H4 & H5 & H6 & H7 & x & Hx & Hm).
  set (b := mkacct t (a_start a) (a_gnorm a) (a_gpad a) (a_gblk a) (a_bstart a) (a_bactive a) (a_m a)).
  set (b1 := mkacct t (a_start a1) (a_gnorm a1) (a_gpad a1) (a_gblk a1) (a_bstart a1) (a_bactive a1) (a_m a1)).
  assert (Hb : acct_view b i b1) by (subst b b1; view_split; cbn; auto; exists x; auto).
  clearbody b b1. clear - Hb. revert b b1 Hb.
  induction evs as [|e evs IH]; intros b b1 Hb; cbn [map fold_left]; [exact Hb|].
  apply IH. apply acct_event_view. exact Hb.
Qed.

Theorem acct_hist_view : forall k i (h : history) a a1,
  acct_view a i a1 ->
  acct_view (acct_hist k h a) i
            (acct_hist k (map (fun '(evs, t) => (map (proj_event i) evs, t)) h) a1).
Proof.
  unfold acct_hist. intros k i h; induction h as [|[evs t] h IH]; intros a a1 Hv; cbn [map fold_left]; [exact Hv|].
  apply IH. apply acct_call_view. exact Hv.
Qed.
