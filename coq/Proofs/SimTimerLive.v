(** Property C18, the converse direction, at the level of whole runs.

    [SimTimerTrace.v] proves that every reported TimerBegin/TimerEnd is justified by the
    history (safety). Here: whenever an UpdateTimer sets or changes the timer a TimerBegin is
    reported at that instant, the TimerEnd is reported exactly at the expiry the contract
    computes, and at most once ([timers_live_partial], [timers_live] in section 12).

    The contract is read as a function of the history, [treplay] (section 6). The proof is a
    loop invariant ([LI], section 7) saying that the timer slot of every machine EQUALS the
    replay of the history, that no TimerEnd is ever left in a queue between two iterations,
    and that every owed TimerBegin is reported or still queued at this very instant.

    This needs: an internal timer that fires inside [pick_next] has its TimerEnd returned by
    that same call, no record comes between the firing and the report ([fire_then_pop]).
    That is FALSE in general, and so are the three statements, for real runs of
    [sim_advanced] (section 13: [timers_live_counterexample], [timers_live_a_counterexample],
    [timers_live_counterexample_c]): when a side's blocking is bypassable, a due bypass packet
    can be hidden behind a base packet with an aggregate delay, is reported after the timer has
    fired but before its TimerEnd, and an UpdateTimer returned for it is applied to a cleared
    slot. The statements hold when no blocking is bypassable: the named extra hypothesis is
    [no_bypass_block H] (no record of the history carries a BlockOutgoing with the bypass flag),
    or, on the configurations only, [cfg_no_bypass_block]. Section 14: non-vacuity. *)
From Coq Require Import List Arith Lia Permutation ZArith Bool.
From MB Require Import Base.Prelude Model.Framework Model.Sim Proofs.Tactics Proofs.SimHeap.
From MB Require Import Proofs.SimBasics Proofs.SimReach Proofs.SimHistory Proofs.SimTimers.
From MB Require Import Proofs.SimTimerTrace.
From MB Require Proofs.SimBlocking Proofs.SimIdentity Proofs.SimTrace.
From MB Require Proofs.FrameworkSlots Proofs.FrameworkStructure.
Import ListNotations.
Open Scope N_scope.

(** * 1. The peeks answer a least element (completeness of the peeks) *)

(** [o] is an event no later than [T] *)
Definition tle (o : option sev) (T : Z) : Prop := exists p, o = Some p /\ (se_time p <= T)%Z.

Lemma hp_tle : forall h y, SI.hp h -> In y h -> tle (heap_peek h) (se_time y).
Proof.
  intros h y Hh Hy. destruct (hp_head _ _ Hh Hy) as (i0 & Hi & Hle). exists i0. auto.
Qed.

Lemma opt_gt_tle : forall n f T, tle n T \/ tle f T -> tle (if opt_gt n f then n else f) T.
Proof.
  intros n f T H. destruct n as [a|], f as [b|]; cbn [opt_gt].
  - destruct (sev_gt a b) eqn:E.
    + destruct H as [H|(p & Hp & Hle)]; [exact H|]. injection Hp as <-.
      exists a. split; [reflexivity|]. apply sev_gt_time in E. lia.
    + destruct H as [(p & Hp & Hle)|H]; [|exact H]. injection Hp as <-.
      exists b. split; [reflexivity|]. apply sev_gt_false_time in E. lia.
  - destruct H as [H|(p & Hp & _)]; [exact H|discriminate Hp].
  - destruct H as [(p & Hp & _)|H]; [discriminate Hp|exact H].
  - destruct H as [(p & Hp & _)|(p & Hp & _)]; discriminate Hp.
Qed.

Lemma before_false_time : forall b x delay,
  before (Some b) (Some x) delay = false -> (se_time x <= se_time b + Z.of_N delay)%Z.
Proof.
  intros b x delay H. unfold before, key_cmp in H.
  destruct (Z.compare_spec (se_time b + Z.of_N delay) (se_time x)) as [E|E|E]; try lia; discriminate H.
Qed.

Lemma pop_time_nonbase : forall w p delay, w <> QBase -> pop_time w p delay = se_time p.
Proof. intros [| | |] p delay H; try reflexivity. congruence. Qed.

Lemma before_pick : forall (nb first : option sev) (qq : qid) delay nowt T,
  qq <> QBase ->
  tle first T \/ (exists b, nb = Some b /\ (se_time b + Z.of_N delay <= T)%Z) ->
  exists p w,
  (if before nb first delay
   then (nb, QBase, match nb with Some x => since (se_time x + Z.of_N delay) nowt | None => 0 end)
   else (first, qq, match first with Some x => since (se_time x) nowt | None => 0 end))
  = (Some p, w, since (pop_time w p delay) nowt) /\ (pop_time w p delay <= T)%Z.
Proof.
  intros nb first qq delay nowt T Hq H. destruct nb as [b|], first as [x|].
  - destruct (before (Some b) (Some x) delay) eqn:Eb.
    + exists b, QBase. split; [reflexivity|]. cbn [pop_time]. apply before_time in Eb.
      destruct H as [(p & Hp & Hle)|(b' & Hb & Hle)].
      * injection Hp as <-. lia.
      * injection Hb as <-. exact Hle.
    + exists x, qq. rewrite (pop_time_nonbase qq x delay Hq). split; [reflexivity|].
      apply before_false_time in Eb.
      destruct H as [(p & Hp & Hle)|(b' & Hb & Hle)].
      * injection Hp as <-. exact Hle.
      * injection Hb as <-. lia.
  - cbn [before]. exists b, QBase. split; [reflexivity|]. cbn [pop_time].
    destruct H as [(p & Hp & _)|(b' & Hb & Hle)]; [discriminate Hp|]. injection Hb as <-. exact Hle.
  - cbn [before]. exists x, qq. rewrite (pop_time_nonbase qq x delay Hq). split; [reflexivity|].
    destruct H as [(p & Hp & Hle)|(b' & Hb & _)]; [|discriminate Hb]. injection Hp as <-. exact Hle.
  - exfalso. destruct H as [(p & Hp & _)|(b' & Hb & _)]; discriminate.
Qed.

Lemma evq_peek_min_aux : forall (f1 : option sev) (q1 : qid) (ni nb : option sev) delay nowt T,
  q1 <> QBase ->
  tle f1 T \/ tle ni T \/ (exists b, nb = Some b /\ (se_time b + Z.of_N delay <= T)%Z) ->
  exists p w,
  (let '(first, qq) := if opt_gt ni f1 then (ni, QInternal) else (f1, q1) in
   if before nb first delay
   then (nb, QBase, match nb with Some x => since (se_time x + Z.of_N delay) nowt | None => 0 end)
   else (first, qq, match first with Some x => since (se_time x) nowt | None => 0 end))
  = (Some p, w, since (pop_time w p delay) nowt) /\ (pop_time w p delay <= T)%Z.
Proof.
  intros f1 q1 ni nb delay nowt T Hq H.
  assert (Hf : tle f1 T \/ tle ni T -> tle (if opt_gt ni f1 then ni else f1) T).
  { intros [A|A]; apply opt_gt_tle; auto. }
  destruct (opt_gt ni f1).
  - apply before_pick; [discriminate|]. destruct H as [A|[A|A]]; auto.
  - apply before_pick; [exact Hq|]. destruct H as [A|[A|A]]; auto.
Qed.

Lemma evq_sel_len : forall q w y, In y (evq_sel q w) -> evq_len q <> 0%nat.
Proof.
  intros q w y H. unfold evq_len.
  destruct w; cbn [evq_sel] in H;
    match type of H with In _ ?h => destruct h; [destruct H|cbn [length]; lia] end.
Qed.

(** [evq_peek] answers an event whose pop time is least *)
Lemma evq_peek_min : forall q delay nowt w' y,
  SI.heaps_ok q -> In y (evq_sel q w') ->
  exists p w, evq_peek q delay nowt = (Some p, w, since (pop_time w p delay) nowt) /\
              (pop_time w p delay <= pop_time w' y delay)%Z.
Proof.
  intros q delay nowt w' y (H1 & H2 & H3 & H4) Hy.
  pose proof (evq_sel_len _ _ _ Hy) as Hlen.
  unfold evq_peek. destruct (evq_len q) as [|k]; [congruence|].
  assert (Hf1 : w' = QBlocking \/ w' = QBypassable ->
                tle (if opt_gt (heap_peek (q_blocking q)) (heap_peek (q_bypass q))
                     then heap_peek (q_blocking q) else heap_peek (q_bypass q)) (se_time y)).
  { intros [-> | ->]; cbn [evq_sel] in Hy; apply opt_gt_tle; [left|right]; apply hp_tle; assumption. }
  assert (Hd : (tle (if opt_gt (heap_peek (q_blocking q)) (heap_peek (q_bypass q))
                     then heap_peek (q_blocking q) else heap_peek (q_bypass q)) (pop_time w' y delay)) \/
               tle (heap_peek (q_internal q)) (pop_time w' y delay) \/
               (exists b, heap_peek (q_base q) = Some b /\
                          (se_time b + Z.of_N delay <= pop_time w' y delay)%Z)).
  { destruct w'; cbn [pop_time]; cbn [evq_sel] in Hy.
    - left. apply Hf1. auto.
    - left. apply Hf1. auto.
    - right. left. apply hp_tle; assumption.
    - right. right. destruct (hp_tle _ _ H1 Hy) as (b & Hb & Hle). exists b. split; [exact Hb|lia]. }
  destruct (opt_gt (heap_peek (q_blocking q)) (heap_peek (q_bypass q)));
    apply evq_peek_min_aux; try discriminate; exact Hd.
Qed.

Lemma sq_sel_len : forall sq ic w y, In y (evq_sel (sq_side sq ic) w) -> sq_len sq <> 0%nat.
Proof.
  intros sq ic w y H. apply evq_sel_len in H. unfold sq_len. destruct ic; cbn [sq_side] in H; lia.
Qed.

(** [sq_peek] answers a distance that is at most the distance of every queued event *)
Lemma sq_peek_min2 : forall sq cd sd nowt ic w' y,
  SI.sq_heaps sq -> In y (evq_sel (sq_side sq ic) w') ->
  exists p w dur, sq_peek sq cd sd nowt = (Some p, w, dur) /\
                  dur <= since (pop_time w' y (if ic then cd else sd)) nowt.
Proof.
  intros sq cd sd nowt ic w' y [Hc Hs] Hy.
  pose proof (sq_sel_len _ _ _ _ Hy) as Hlen.
  unfold sq_peek. destruct (sq_len sq) as [|k]; [congruence|].
  destruct ic; cbn [sq_side] in Hy.
  - destruct (evq_peek_min (sq_c sq) cd nowt w' y Hc Hy) as (p & w & -> & Hle).
    pose proof (SB.since_mono _ _ nowt Hle) as Hm.
    destruct (evq_peek (sq_s sq) sd nowt) as [[[s|] sqq] sdur]; [|eauto].
    destruct (N.compare_spec (since (pop_time w p cd) nowt) sdur) as [E|E|E].
    + destruct (ev_idx (se_ev p) ?= ev_idx (se_ev s)); eexists _, _, _; (split; [reflexivity|]); lia.
    + eexists _, _, _; (split; [reflexivity|]); lia.
    + eexists _, _, _; (split; [reflexivity|]); lia.
  - destruct (evq_peek_min (sq_s sq) sd nowt w' y Hs Hy) as (p & w & -> & Hle).
    pose proof (SB.since_mono _ _ nowt Hle) as Hm.
    destruct (evq_peek (sq_c sq) cd nowt) as [[[c|] cq] cdur]; [|eauto].
    destruct (N.compare_spec cdur (since (pop_time w p sd) nowt)) as [E|E|E].
    + destruct (ev_idx (se_ev c) ?= ev_idx (se_ev p)); eexists _, _, _; (split; [reflexivity|]); lia.
    + eexists _, _, _; (split; [reflexivity|]); lia.
    + eexists _, _, _; (split; [reflexivity|]); lia.
Qed.

(** ** the side-wise peek used while a blocked TunnelSent heads the queue (no bypassable blocking) *)
(** the instant at which an event of heap [w] can leave a side whose blocking (if any) lasts until [bu] *)
Definition eff (bu : option Z) (nowt : Z) (delay : N) (w : qid) (y : sev) : Z :=
  match w with
  | QBlocking | QBypassable => Z.max (se_time y) (match bu with Some u => u | None => nowt end)
  | _ => pop_time w y delay
  end.

Lemma pop_le_eff : forall bu nowt delay w y, (pop_time w y delay <= eff bu nowt delay w y)%Z.
Proof. intros bu nowt delay [| | |] y; cbn [eff pop_time]; lia. Qed.

Lemma pqes_min : forall sq bu nowt delay ic w' y,
  SI.heaps_ok (sq_side sq ic) -> In y (evq_sel (sq_side sq ic) w') ->
  fst (fst (peek_queue_earliest_side sq bu false nowt delay ic)) <= since (eff bu nowt delay w' y) nowt.
Proof.
  intros sq bu nowt delay ic w' y (H1 & H2 & H3 & H4) Hy.
  set (q := sq_side sq ic) in *.
  (* the blocking part *)
  assert (HB : w' = QBlocking \/ w' = QBypassable ->
               exists b bq, sq_peek_blocking sq false ic = (Some b, bq) /\ (se_time b <= se_time y)%Z).
  { intros Hw. unfold sq_peek_blocking. fold q.
    assert (Ht : tle (if opt_gt (heap_peek (q_blocking q)) (heap_peek (q_bypass q))
                      then heap_peek (q_blocking q) else heap_peek (q_bypass q)) (se_time y)).
    { destruct Hw as [-> | ->]; cbn [evq_sel] in Hy; apply opt_gt_tle; [left|right]; apply hp_tle; assumption. }
    destruct (opt_gt (heap_peek (q_blocking q)) (heap_peek (q_bypass q)));
      destruct Ht as (b & -> & Hle); eauto. }
  (* the non-blocking part *)
  assert (HN : w' = QBase \/ w' = QInternal ->
               exists n nq, sq_peek_non_blocking sq false ic delay = (Some n, nq) /\
                 ((if qid_eqb nq QBase then (se_time n + Z.of_N delay)%Z else se_time n)
                  <= pop_time w' y delay)%Z).
  { intros Hw. unfold sq_peek_non_blocking, evq_peek_non_blocking. fold q.
    destruct Hw as [-> | ->]; cbn [evq_sel pop_time] in *.
    - destruct (hp_tle _ _ H1 Hy) as (b & -> & Hle).
      destruct (heap_peek (q_internal q)) as [i|].
      + destruct (before (Some b) (Some i) delay) eqn:Eb.
        * exists b, QBase. cbn [qid_eqb]. split; [reflexivity|lia].
        * apply before_false_time in Eb. exists i, QInternal. cbn [qid_eqb]. split; [reflexivity|lia].
      + cbn [before]. exists b, QBase. cbn [qid_eqb]. split; [reflexivity|lia].
    - destruct (hp_tle _ _ H4 Hy) as (i & -> & Hle).
      destruct (heap_peek (q_base q)) as [b|].
      + destruct (before (Some b) (Some i) delay) eqn:Eb.
        * apply before_time in Eb. exists b, QBase. cbn [qid_eqb]. split; [reflexivity|lia].
        * exists i, QInternal. cbn [qid_eqb]. split; [reflexivity|lia].
      + cbn [before]. exists i, QInternal. cbn [qid_eqb]. split; [reflexivity|lia]. }
  unfold peek_queue_earliest_side.
  destruct (sq_peek_blocking sq false ic) as [pb bq] eqn:Epb.
  destruct (sq_peek_non_blocking sq false ic delay) as [pn nq] eqn:Epn.
  set (bu' := match bu with Some u => u | None => nowt end).
  destruct w'; cbn [eff].
  - (* y in the blocking heap *)
    destruct (HB (or_introl eq_refl)) as (b & bq' & Eb & Hle). injection Eb as -> ->.
    fold bu'. destruct pn as [n|]; cbn [fst].
    + set (nt := if qid_eqb nq QBase then (se_time n + Z.of_N delay)%Z else se_time n).
      destruct (Z.compare_spec (Z.max (se_time b) bu') nt) as [E|E|E].
      * destruct (negb (qid_eqb nq QBase)); cbn [fst]; apply SB.since_mono; lia.
      * cbn [fst]. apply SB.since_mono; lia.
      * cbn [fst]. apply SB.since_mono; lia.
    + apply SB.since_mono; lia.
  - destruct (HB (or_intror eq_refl)) as (b & bq' & Eb & Hle). injection Eb as -> ->.
    fold bu'. destruct pn as [n|]; cbn [fst].
    + set (nt := if qid_eqb nq QBase then (se_time n + Z.of_N delay)%Z else se_time n).
      destruct (Z.compare_spec (Z.max (se_time b) bu') nt) as [E|E|E].
      * destruct (negb (qid_eqb nq QBase)); cbn [fst]; apply SB.since_mono; lia.
      * cbn [fst]. apply SB.since_mono; lia.
      * cbn [fst]. apply SB.since_mono; lia.
    + apply SB.since_mono; lia.
  - destruct (HN (or_intror eq_refl)) as (n & nq' & En & Hle). injection En as -> <-.
    destruct pb as [b|]; cbn [fst].
    + fold bu'. set (nt := if qid_eqb nq QBase then (se_time n + Z.of_N delay)%Z else se_time n) in *.
      destruct (Z.compare_spec (Z.max (se_time b) bu') nt) as [E|E|E].
      * destruct (negb (qid_eqb nq QBase)); cbn [fst]; apply SB.since_mono; lia.
      * cbn [fst]. apply SB.since_mono; lia.
      * cbn [fst]. apply SB.since_mono; lia.
    + apply SB.since_mono; exact Hle.
  - destruct (HN (or_introl eq_refl)) as (n & nq' & En & Hle). injection En as -> <-.
    destruct pb as [b|]; cbn [fst].
    + fold bu'. set (nt := if qid_eqb nq QBase then (se_time n + Z.of_N delay)%Z else se_time n) in *.
      destruct (Z.compare_spec (Z.max (se_time b) bu') nt) as [E|E|E].
      * destruct (negb (qid_eqb nq QBase)); cbn [fst]; apply SB.since_mono; lia.
      * cbn [fst]. apply SB.since_mono; lia.
      * cbn [fst]. apply SB.since_mono; lia.
    + apply SB.since_mono; exact Hle.
Qed.

Lemma sq_heaps_side : forall sq ic, SI.sq_heaps sq -> SI.heaps_ok (sq_side sq ic).
Proof. intros sq [|] [Hc Hs]; assumption. Qed.

(** completeness of [peek_queue] when no blocking is bypassable: its distance is at most the distance
    of the instant at which any queued event can leave *)
Lemma peek_queue_complete : forall sq c s cd sd earliest nowt ic w' y,
  SI.sq_heaps sq -> s_bbypass c = false -> s_bbypass s = false ->
  In y (evq_sel (sq_side sq ic) w') ->
  let dy := since (eff (s_buntil (if ic then c else s)) nowt (if ic then cd else sd) w' y) nowt in
  dy <= earliest ->
  fst (fst (peek_queue sq c s cd sd earliest nowt)) <= dy.
Proof.
  intros sq c s cd sd earliest nowt ic w' y Hh Bc Bs Hy dy Hdy.
  pose proof (sq_sel_len _ _ _ _ Hy) as Hlen.
  destruct (sq_peek_min2 sq cd sd nowt ic w' y Hh Hy) as (p & qq & dur & Ep & Hdur).
  assert (Hd : dur <= dy).
  { subst dy. pose proof (pop_le_eff (s_buntil (if ic then c else s)) nowt (if ic then cd else sd) w' y) as Hp.
    pose proof (SB.since_mono _ _ nowt Hp). lia. }
  unfold peek_queue. destruct (sq_len sq) as [|k]; [congruence|].
  rewrite Ep. destruct (N.ltb_spec earliest dur) as [C|_]; [lia|].
  destruct (negb (is_tunnel_sent (se_ev p))); [exact Hd|].
  match goal with |- context [if ?b then (dur, qq, se_client p) else _] => destruct b end; [exact Hd|].
  match goal with |- context [if ?b then (dur, qq, se_client p) else _] => destruct b end; [exact Hd|].
  match goal with |- context [if ?b then (dur, qq, se_client p) else _] => destruct b end; [exact Hd|].
  rewrite Bc, Bs.
  pose proof (pqes_min sq (s_buntil c) nowt cd true) as Zc.
  pose proof (pqes_min sq (s_buntil s) nowt sd false) as Zs.
  destruct (peek_queue_earliest_side sq (s_buntil c) false nowt cd true) as [[c_d c_q] c_b].
  destruct (peek_queue_earliest_side sq (s_buntil s) false nowt sd false) as [[s_d s_q] s_b].
  cbn [fst] in Zc, Zs. subst dy.
  destruct ic.
  - specialize (Zc w' y (sq_heaps_side _ _ Hh) Hy). destruct (N.leb_spec c_d s_d); cbn [fst]; lia.
  - specialize (Zs w' y (sq_heaps_side _ _ Hh) Hy). destruct (N.leb_spec c_d s_d); cbn [fst]; lia.
Qed.

(** * 2. One layer of [pick_next] with all the branch conditions *)
Definition pn_full (fuel' : nat) (st : sim) (nowt : Z) (r : option sev) (st' : sim)
           (sa it b : N) (bic : bool) (n q : N) (which : qid) (qic : bool) : Prop :=
  (q = DMAX /\ r = None /\ st' = st) \/
  (n <= q /\
   pick_next fuel' (mksim (m_sq st) (m_c st) (m_s st) (net_pop_agg (m_net st)) (m_pos st)) nowt = Ok (r, st')) \/
  (b <= q /\ r = Some (mksev TEBlockingEnd (nowt + Z.of_N b)%Z bic false false false) /\
   exists net', st' = mksim (m_sq st)
                   (if bic then side_set_block (m_c st) None (s_bbypass (m_c st)) else m_c st)
                   (if bic then m_s st else side_set_block (m_s st) None (s_bbypass (m_s st)))
                   net' (m_pos st)) \/
  (exists tmp sq',
     sq_pop (m_sq st) which qic (if qic then n_cagg (m_net st) else n_sagg (m_net st)) = Some (tmp, sq') /\
     r = Some (if (se_time tmp <? nowt + Z.of_N q)%Z then set_time tmp (nowt + Z.of_N q)%Z else tmp) /\
     st' = mksim sq' (m_c st) (m_s st) (m_net st) (m_pos st)) \/
  (it <= sa /\ it < q /\ it < b /\ it < n /\
   exists c' s' e, do_internal_timer (m_c st) (m_s st) (nowt + Z.of_N it)%Z = Ok (c', s', e) /\
     pick_next fuel' (mksim (sq_push (m_sq st) e) c' s' (m_net st) (m_pos st)) (nowt + Z.of_N it)%Z = Ok (r, st')) \/
  (~ (q <= sa /\ q <= it) /\
   exists c' s' e, do_scheduled_action (m_c st) (m_s st) (nowt + Z.of_N sa)%Z = Ok (c', s', e) /\
     pick_next fuel' (mksim (sq_push (m_sq st) e) c' s' (m_net st) (m_pos st)) (nowt + Z.of_N sa)%Z = Ok (r, st')).

Lemma pn_full_cases : forall fuel' st nowt r st',
  pick_next (S fuel') st nowt = Ok (r, st') ->
  exists b bic q which qic,
    let sa := peek_sched (s_sched (m_c st)) (s_sched (m_s st)) nowt in
    let it := peek_timers (s_timers (m_c st)) (s_timers (m_s st)) nowt in
    let n := net_peek_agg (m_net st) nowt in
    peek_blocked_exp (s_buntil (m_c st)) (s_buntil (m_s st)) nowt = (b, bic) /\
    peek_queue (m_sq st) (m_c st) (m_s st) (n_cagg (m_net st)) (n_sagg (m_net st))
               (N.min (N.min (N.min sa it) b) n) nowt = (q, which, qic) /\
    pn_full fuel' st nowt r st' sa it b bic n q which qic.
Proof.
  intros fuel' st nowt r st' H. cbn [pick_next] in H.
  set (sa := peek_sched (s_sched (m_c st)) (s_sched (m_s st)) nowt) in *.
  set (it := peek_timers (s_timers (m_c st)) (s_timers (m_s st)) nowt) in *.
  destruct (peek_blocked_exp (s_buntil (m_c st)) (s_buntil (m_s st)) nowt) as [b bic] eqn:Hb.
  set (n := net_peek_agg (m_net st) nowt) in *.
  destruct (peek_queue (m_sq st) (m_c st) (m_s st) (n_cagg (m_net st)) (n_sagg (m_net st))
              (N.min (N.min (N.min sa it) b) n) nowt) as [[q which] qic] eqn:Hq.
  exists b, bic, q, which, qic. cbv zeta. split; [reflexivity|]. split; [exact Hq|]. unfold pn_full.
  destruct ((sa =? DMAX) && (it =? DMAX) && (b =? DMAX) && (n =? DMAX) && (q =? DMAX)) eqn:E0.
  { injection H as <- <-. left. split_andb.
    match goal with Hx : (q =? DMAX) = true |- _ => apply N.eqb_eq in Hx end. auto. }
  right.
  destruct ((n <=? sa) && (n <=? it) && (n <=? b) && (n <=? q)) eqn:E1.
  { left. split; [|exact H]. split_andb.
    match goal with Hx : (n <=? q) = true |- _ => apply N.leb_le in Hx; exact Hx end. }
  right.
  destruct ((b <=? sa) && (b <=? it) && (b <=? q)) eqn:E2.
  { left. split_andb.
    repeat match goal with Hx : (_ <=? _) = true |- _ => apply N.leb_le in Hx end.
    split; [assumption|].
    destruct bic; injection H as <- <-; (split; [reflexivity|]); eexists; reflexivity. }
  right.
  destruct ((q <=? sa) && (q <=? it)) eqn:E3.
  { left.
    destruct (sq_pop (m_sq st) which qic (if qic then n_cagg (m_net st) else n_sagg (m_net st)))
      as [[tmp sq']|] eqn:Ep; [|discriminate].
    injection H as <- <-. eauto. }
  right.
  destruct (N.leb_spec it sa) as [E4|E4].
  - left. split; [exact E4|].
    assert (Q : it < q).
    { destruct (N.leb_spec q sa), (N.leb_spec q it); cbn [andb] in E3; try discriminate; lia. }
    assert (B : it < b).
    { destruct (N.leb_spec b sa), (N.leb_spec b it), (N.leb_spec b q); cbn [andb] in E2;
        try discriminate; lia. }
    assert (Nn : it < n).
    { destruct (N.leb_spec n sa), (N.leb_spec n it), (N.leb_spec n b), (N.leb_spec n q); cbn [andb] in E1;
        try discriminate; lia. }
    split; [exact Q|]. split; [exact B|]. split; [exact Nn|].
    mbind H as p Ed. destruct p as [[c' s'] e]. eauto.
  - right. split.
    { intros [A B]. apply N.leb_le in A, B. rewrite A, B in E3. discriminate E3. }
    mbind H as p Ed. destruct p as [[c' s'] e]. eauto.
Qed.

Lemma peek_blocked_exp_shift : forall bc bs now0 b bic d,
  peek_blocked_exp bc bs now0 = (b, bic) -> d < b ->
  0 < fst (peek_blocked_exp bc bs (now0 + Z.of_N d)%Z).
Proof.
  intros bc bs now0 b bic d H Hd. pose proof DMAX_pos as HD. unfold peek_blocked_exp in *.
  destruct bc as [c|], bs as [s|]; [destruct (c <? s)%Z| | |]; injection H as <- _; cbn [fst];
    unfold since in *; lia.
Qed.

Lemma net_peek_agg_shift : forall nb now0 d,
  d < net_peek_agg nb now0 -> 0 < net_peek_agg nb (now0 + Z.of_N d)%Z.
Proof.
  intros nb now0 d H. pose proof DMAX_pos as HD. unfold net_peek_agg in *.
  destruct (heap_peek (n_aggq nb)); unfold since in *; lia.
Qed.

Lemma heaps_ih : forall sq, SI.sq_heaps sq -> ih sq.
Proof. intros sq [(_ & _ & _ & Hc) (_ & _ & _ & Hs)] [|]; assumption. Qed.

Lemma sel_heap : forall q w, evq_sel q w = SB.evq_heap q w.
Proof. intros q [| | |]; reflexivity. Qed.

Lemma heaps_ok_iff : forall q, SI.heaps_ok q <-> forall w, SI.hp (SB.evq_heap q w).
Proof.
  intros q. unfold SI.heaps_ok. split.
  - intros (H1 & H2 & H3 & H4) [| | |]; assumption.
  - intros H. exact (conj (H QBase) (conj (H QBlocking) (conj (H QBypassable) (H QInternal)))).
Qed.

Lemma evq_pop_heaps : forall q w d x q', SI.heaps_ok q -> evq_pop q w d = Some (x, q') -> SI.heaps_ok q'.
Proof.
  intros q w d x q' Hh H. rewrite heaps_ok_iff in *.
  destruct (SB.evq_pop_spec _ _ _ _ _ H) as (x0 & h & Hpop & _ & _ & Hq & Hoth).
  intros w'. destruct (SB.qid_eq_dec w' w) as [->|Hne].
  - rewrite Hq. eapply SI.hp_pop; [apply Hh|exact Hpop].
  - rewrite (Hoth _ Hne). apply Hh.
Qed.

Lemma sq_pop_heaps : forall sq w ic d x sq', SI.sq_heaps sq -> sq_pop sq w ic d = Some (x, sq') -> SI.sq_heaps sq'.
Proof.
  intros sq w ic d x sq' [Hc Hs] H. destruct (sq_pop_evq _ _ _ _ _ _ H) as (q' & Hp & ->).
  destruct ic; cbn [sq_side] in Hp; unfold SI.sq_heaps, sq_set_side; cbn [sq_c sq_s]; split;
    try assumption.
  - exact (evq_pop_heaps _ _ _ _ _ Hc Hp).
  - exact (evq_pop_heaps _ _ _ _ _ Hs Hp).
Qed.

Lemma push_sel_cases : forall sq x ic' w e,
  In e (evq_sel (sq_side (sq_push sq x) ic') w) ->
  In e (evq_sel (sq_side sq ic') w) \/ (e = x /\ w = SB.route x /\ ic' = se_client x).
Proof.
  intros sq x ic' w e H. rewrite sel_heap in *. unfold sq_push in H. rewrite SB.sq_side_set in H.
  destruct (Bool.eqb (se_client x) ic') eqn:E; [|left; exact H].
  apply Bool.eqb_prop in E. subst ic'. apply SB.evq_push_in in H.
  destruct H as [H|[-> ->]]; [left; exact H|right; auto].
Qed.

Lemma qint_push_keep : forall sq x ic e, In e (qint sq ic) -> In e (qint (sq_push sq x) ic).
Proof.
  intros sq x ic e H. rewrite qint_evq in *. unfold sq_push. rewrite SB.sq_side_set.
  destruct (Bool.eqb (se_client x) ic) eqn:E; [|exact H].
  apply Bool.eqb_prop in E. subst ic. rewrite SB.evq_push_heap.
  destruct (qid_eqb QInternal (SB.route x)); [|exact H].
  apply (Permutation_in _ (Permutation_sym (heap_push_perm sev sev_le _ x))). right. exact H.
Qed.

(** * 3. An internal timer that fires is reported by the same call of [pick_next]
      (when no blocking is bypassable) *)
Lemma fire_then_pop : forall fuel' st now0 b bic q w qic c' s' x r st',
  SB.sq_inv (m_sq st) -> SI.sq_heaps (m_sq st) ->
  s_bbypass (m_c st) = false -> s_bbypass (m_s st) = false ->
  let sa := peek_sched (s_sched (m_c st)) (s_sched (m_s st)) now0 in
  let it := peek_timers (s_timers (m_c st)) (s_timers (m_s st)) now0 in
  let n := net_peek_agg (m_net st) now0 in
  peek_blocked_exp (s_buntil (m_c st)) (s_buntil (m_s st)) now0 = (b, bic) ->
  peek_queue (m_sq st) (m_c st) (m_s st) (n_cagg (m_net st)) (n_sagg (m_net st))
             (N.min (N.min (N.min sa it) b) n) now0 = (q, w, qic) ->
  it <= sa -> it < q -> it < b -> it < n ->
  do_internal_timer (m_c st) (m_s st) (now0 + Z.of_N it)%Z = Ok (c', s', x) ->
  pick_next fuel' (mksim (sq_push (m_sq st) x) c' s' (m_net st) (m_pos st)) (now0 + Z.of_N it)%Z = Ok (r, st') ->
  r = Some x /\ m_c st' = c' /\ m_s st' = s' /\ SI.sq_heaps (m_sq st') /\
  (forall ic e, In e (qint (m_sq st') ic) -> In e (qint (m_sq st) ic)).
Proof.
  intros fuel' st now0 b bic q w qic c' s' x r st' Hinv Hh Bc Bs sa it n Hb Hq Hsa Hitq Hitb Hitn Hd H.
  set (e := (now0 + Z.of_N it)%Z) in *.
  pose proof DMAX_pos as HD.
  destruct (do_internal_timer_spec _ _ _ _ _ _ Hd) as (ic & mi & Hspec).
  assert (Hx : x = mksev (TETimerEnd (N.of_nat mi)) e ic false false false /\
               s_buntil c' = s_buntil (m_c st) /\ s_buntil s' = s_buntil (m_s st) /\
               s_bbypass c' = s_bbypass (m_c st) /\ s_bbypass s' = s_bbypass (m_s st)).
  { destruct ic; cbv beta iota zeta in Hspec; destruct Hspec as (_ & _ & Ho & _ & _ & Bu & Bb & Ex);
      (split; [exact Ex|]); rewrite Ho; auto. }
  clear Hspec. destruct Hx as (Ex & Buc & Bus & Bbc & Bbs).
  assert (Hev : se_ev x = TETimerEnd (N.of_nat mi) /\ se_time x = e /\ se_client x = ic) by (rewrite Ex; auto).
  destruct Hev as (Xev & Xt & Xc).
  assert (Hroute : SB.route x = QInternal) by (unfold SB.route; rewrite Xev; reflexivity).
  assert (Hinv1 : SB.sq_inv (sq_push (m_sq st) x)).
  { apply SB.sq_push_inv; [exact Hinv|rewrite Xev; discriminate]. }
  pose proof (SI.sq_heaps_push (m_sq st) x Hh) as Hh1.
  assert (E1 : SB.evq_heap (sq_side (sq_push (m_sq st) x) ic) QInternal
               = heap_push sev_le (SB.evq_heap (sq_side (m_sq st) ic) QInternal) x).
  { unfold sq_push. rewrite SB.sq_side_set, Xc, Bool.eqb_reflx, SB.evq_push_heap, Hroute. reflexivity. }
  assert (Hin1 : In x (qint (sq_push (m_sq st) x) ic)).
  { rewrite qint_evq, E1. apply (Permutation_in _ (Permutation_sym (heap_push_perm sev sev_le _ x))).
    left. reflexivity. }
  destruct fuel' as [|f]; [discriminate H|].
  apply pn_full_cases in H. destruct H as (b1 & bic1 & q1 & w1 & qic1 & Eb1 & Eq1 & H).
  cbv zeta in Eb1, Eq1, H. cbn [m_c m_s m_net m_sq m_pos] in Eb1, Eq1, H.
  rewrite Buc, Bus in Eb1.
  pose proof (peek_blocked_exp_shift _ _ _ _ _ _ Hb Hitb) as Hb1. fold e in Hb1.
  rewrite Eb1 in Hb1. cbn [fst] in Hb1.
  pose proof (net_peek_agg_shift _ _ _ Hitn) as Hn1. fold e in Hn1.
  assert (Hq1 : q1 = 0).
  { match type of Eq1 with peek_queue _ _ _ _ _ ?ea _ = _ =>
      pose proof (peek_queue_zero (sq_push (m_sq st) x) c' s' (n_cagg (m_net st)) (n_sagg (m_net st)) ea e ic x
                    (heaps_ih _ Hh1) Hin1 ltac:(lia)) as Z0 end.
    rewrite Eq1 in Z0. exact Z0. }
  subst q1. unfold pn_full in H. cbn [m_c m_s m_net m_sq m_pos] in H.
  destruct H as [(C & _)|[(C & _)|[(C & _)|[Hpop|[(_ & C & _)|(C & _)]]]]]; try lia.
  (* the head of the queue: it is the TimerEnd *)
  pose proof (SimTrace.sq_inv_wf _ Hinv1) as Wf1.
  destruct (peek_queue_sel _ _ _ _ _ _ _ _ _ _ Wf1 Eq1 ltac:(lia)) as (p' & Hp' & Hpt).
  change (Z.of_N 0) with 0%Z in Hpt. rewrite Z.add_0_r in Hpt.
  assert (Hnew : ~ In p' (evq_sel (sq_side (m_sq st) qic1) w1)).
  { intros Hold.
    set (sdd0 := if qic1 then m_c st else m_s st).
    assert (Heff : (eff (s_buntil sdd0) now0 (if qic1 then n_cagg (m_net st) else n_sagg (m_net st)) w1 p' <= e)%Z).
    { pose proof (SB.peek_queue_cases _ _ _ _ _ _ _ _ _ _ (proj1 Hinv1) Eq1) as Hc. cbv zeta in Hc.
      destruct Hc as [Hc|[Hc|[Hc|(p & Hp & Hc)]]].
      - exfalso. rewrite Buc, Bus, Eb1 in Hc. cbn [fst] in Hc. lia.
      - assert (Hnone : s_buntil sdd0 = None) by (subst sdd0; destruct qic1; congruence).
        rewrite Hnone. destruct w1; cbn [eff pop_time] in *; lia.
      - destruct Hc as [->|[->|[_ Hbb]]]; cbn [eff]; try lia.
        exfalso. destruct qic1; congruence.
      - rewrite <- sel_heap in Hp. rewrite Hp' in Hp. injection Hp as <-.
        destruct Hc as [Hne|[Hbb _]]; [|exfalso; destruct qic1; congruence].
        pose proof (proj1 Hinv) as Hwf. rewrite SB.wf_simq_iff in Hwf. specialize (Hwf qic1).
        rewrite SB.wf_evq_iff in Hwf. rewrite sel_heap in Hold. specialize (Hwf w1 p' Hold).
        destruct Hwf as [_ Hk]. destruct w1; cbn [eff]; try lia; destruct Hk as [Hk _]; congruence. }
    pose proof (peek_queue_complete (m_sq st) (m_c st) (m_s st) (n_cagg (m_net st)) (n_sagg (m_net st))
                  (N.min (N.min (N.min sa it) b) n) now0 qic1 w1 p' Hh Bc Bs Hold) as Hcomp.
    cbv zeta in Hcomp. fold sdd0 in Hcomp. rewrite Hq in Hcomp. cbn [fst] in Hcomp.
    assert (Hdy : since (eff (s_buntil sdd0) now0 (if qic1 then n_cagg (m_net st) else n_sagg (m_net st)) w1 p')
                        now0 <= it) by (unfold since; lia).
    specialize (Hcomp ltac:(lia)). lia. }
  assert (Hpx : p' = x /\ w1 = QInternal /\ qic1 = ic).
  { destruct (push_sel_cases _ _ _ _ _ (heap_peek_in _ _ Hp')) as [Hold|(A & B & C)]; [contradiction|].
    rewrite Hroute in B. rewrite Xc in C. auto. }
  destruct Hpx as (-> & -> & ->).
  destruct Hpop as (tmp & sq' & Hpop & -> & ->).
  destruct (sq_pop_evq _ _ _ _ _ _ Hpop) as (q' & Hpe & Esq').
  destruct (SB.evq_pop_spec _ _ _ _ _ Hpe) as (x0 & h & Hhp & _ & Hx0 & Hq' & Hoth).
  specialize (Hx0 ltac:(discriminate)). subst tmp.
  pose proof (heap_pop_peek _ _ _ _ _ Hhp) as Hpk. rewrite <- sel_heap in Hpk. rewrite Hp' in Hpk.
  injection Hpk as <-.
  cbn [m_c m_s m_sq].
  split.
  { rewrite Xt. change (Z.of_N 0) with 0%Z. rewrite Z.add_0_r, Z.ltb_irrefl. reflexivity. }
  split; [reflexivity|]. split; [reflexivity|]. split; [exact (sq_pop_heaps _ _ _ _ _ _ Hh1 Hpop)|].
  intros ic' e0 He0. rewrite Esq' in He0. rewrite qint_evq in *. rewrite SB.sq_side_set in He0.
  destruct (Bool.eqb ic ic') eqn:Ei.
  - apply Bool.eqb_prop in Ei. subst ic'. rewrite Hq' in He0.
    pose proof (heap_pop_perm _ _ _ _ _ Hhp) as P1. rewrite E1 in P1.
    pose proof (heap_push_perm sev sev_le (SB.evq_heap (sq_side (m_sq st) ic) QInternal) x) as P2.
    assert (P3 : Permutation h (SB.evq_heap (sq_side (m_sq st) ic) QInternal)).
    { apply (Permutation_cons_inv (a := x)). exact (Permutation_trans (Permutation_sym P1) P2). }
    eapply Permutation_in; [exact P3|exact He0].
  - unfold sq_push in He0. rewrite SB.sq_side_set, Xc, Ei in He0. exact He0.
Qed.

(** * 4. The invariants of [pick_next]: no bypassable blocking, no TimerEnd left in the queue, and the
      shape of the result (an event that is not a TimerEnd and untouched timers, or the TimerEnd of the
      one timer that fired) *)
Definition nobyp (a : taction) : Prop :=
  match a with TBlockOutgoing _ _ _ true _ => False | _ => True end.

Definition NB (st : sim) : Prop :=
  s_bbypass (m_c st) = false /\ s_bbypass (m_s st) = false /\
  forall ic mi a t, nth_error (s_sched (side_of st ic)) mi = Some (Some (a, t)) -> nobyp a.

Definition NoTE (sq : simq) : Prop := forall ic e m, In e (qint sq ic) -> se_ev e <> TETimerEnd m.

Definition te_shape (st st' : sim) (next : sev) : Prop :=
  ((forall m, se_ev next <> TETimerEnd m) /\
   s_timers (m_c st') = s_timers (m_c st) /\ s_timers (m_s st') = s_timers (m_s st)) \/
  (exists ic mi, next = mksev (TETimerEnd (N.of_nat mi)) (se_time next) ic false false false /\
     nth_error (s_timers (side_of st ic)) mi = Some (Some (se_time next)) /\
     s_timers (side_of st' ic) = upd (s_timers (side_of st ic)) mi None /\
     s_timers (side_of st' (negb ic)) = s_timers (side_of st (negb ic))).

Lemma te_shape_from : forall st2 st st' next,
  s_timers (m_c st2) = s_timers (m_c st) -> s_timers (m_s st2) = s_timers (m_s st) ->
  te_shape st2 st' next -> te_shape st st' next.
Proof.
  intros st2 st st' next Ec Es [(A & B & C)|(ic & mi & A & B & C & D)].
  - left. split; [exact A|]. split; congruence.
  - right. exists ic, mi. split; [exact A|].
    destruct ic; cbn [side_of negb] in *; rewrite <- ?Ec, <- ?Es; auto.
Qed.

Lemma NoTE_push : forall sq x, NoTE sq -> (forall m, se_ev x <> TETimerEnd m) -> NoTE (sq_push sq x).
Proof.
  intros sq x H Hx ic e m He. apply qint_push_in in He. destruct He as [He|[-> _]]; [eapply H; eauto|apply Hx].
Qed.

Lemma act_on_nb : forall sd ic a t sd' e,
  nobyp a -> act_on sd ic a t = Ok (sd', e) -> s_bbypass sd = false ->
  s_bbypass sd' = false /\ s_sched sd' = s_sched sd.
Proof.
  intros sd ic a t sd' e Hn H Hb.
  pose proof (SimTimers.act_on_spec _ _ _ _ _ _ H) as (Hs & _). split; [|exact Hs].
  destruct a as [m tm|m tmo by_ rp|m tmo dur by_ rp|m dur rp]; unfold act_on in H; try discriminate.
  - injection H as <- _. exact Hb.
  - cbn [nobyp] in Hn. destruct by_; [contradiction|]. injection H as <- _.
    destruct (rp || _)%bool; [|exact Hb]. cbn [side_set_block s_bbypass].
    destruct rp; [reflexivity|]. destruct (s_buntil sd); [apply andb_false_r|reflexivity].
Qed.

Lemma do_scheduled_action_nb : forall st c' s' e target sq net pos,
  NB st -> do_scheduled_action (m_c st) (m_s st) target = Ok (c', s', e) -> NB (mksim sq c' s' net pos).
Proof.
  intros st c' s' e target sq net pos (Bc & Bs & Hsl) H. unfold do_scheduled_action in H.
  destruct (take_action (s_sched (m_c st)) target) as [[[a t] l]|] eqn:Ec.
  - mbind H as p E. destruct p as [c1 e1]. injection H as <- <- <-.
    apply take_action_spec in Ec. destruct Ec as (mi & -> & Hn & -> & _).
    pose proof (Hsl true mi a target Hn) as Ha.
    destruct (act_on_nb _ _ _ _ _ _ Ha E Bc) as [B1 S1]. cbn [side_set_sched s_sched] in S1.
    split; [exact B1|]. split; [exact Bs|]. intros [|] mj a' t' Hj; cbn [side_of m_c m_s] in Hj.
    + rewrite S1 in Hj. apply st_nth_upd_none in Hj. exact (Hsl true mj a' t' Hj).
    + exact (Hsl false mj a' t' Hj).
  - destruct (take_action (s_sched (m_s st)) target) as [[[a t] l]|] eqn:Es; [|discriminate].
    mbind H as p E. destruct p as [s1 e1]. injection H as <- <- <-.
    apply take_action_spec in Es. destruct Es as (mi & -> & Hn & -> & _).
    pose proof (Hsl false mi a target Hn) as Ha.
    destruct (act_on_nb _ _ _ _ _ _ Ha E Bs) as [B1 S1]. cbn [side_set_sched s_sched] in S1.
    split; [exact Bc|]. split; [exact B1|]. intros [|] mj a' t' Hj; cbn [side_of m_c m_s] in Hj.
    + exact (Hsl true mj a' t' Hj).
    + rewrite S1 in Hj. apply st_nth_upd_none in Hj. exact (Hsl false mj a' t' Hj).
Qed.

Lemma pick_next_live : forall fuel st now next st',
  SB.sq_inv (m_sq st) -> SI.sq_heaps (m_sq st) -> NoTE (m_sq st) -> NB st ->
  pick_next fuel st now = Ok (Some next, st') ->
  SI.sq_heaps (m_sq st') /\ NoTE (m_sq st') /\ NB st' /\ te_shape st st' next.
Proof.
  induction fuel as [|fuel IH]; intros st now next st' Hinv Hh Hte Hnb H; [discriminate H|].
  apply pn_full_cases in H. destruct H as (b & bic & q & w & qic & Hb & Hq & H). cbv zeta in Hb, Hq, H.
  unfold pn_full in H.
  destruct H as [(_ & Hr & _)|[(_ & H)|[(_ & Hr & net' & ->)|[(tmp & sq' & Hp & Hr & ->)|[H|H]]]]].
  - discriminate Hr.
  - eapply IH in H; [exact H|exact Hinv|exact Hh|exact Hte|exact Hnb].
  - injection Hr as ->. cbn [m_sq]. split; [exact Hh|]. split; [exact Hte|]. split.
    + destruct Hnb as (Bc & Bs & Hsl). split; [|split].
      * destruct bic; cbn [m_c side_set_block s_bbypass]; exact Bc.
      * destruct bic; cbn [m_s side_set_block s_bbypass]; exact Bs.
      * intros ic mi a t Hn. apply (Hsl ic mi a t).
        destruct ic, bic; cbn [side_of m_c m_s side_set_block s_sched] in *; exact Hn.
    + left. cbn [se_ev]. split; [intros m; discriminate|].
      destruct bic; cbn [m_c m_s side_set_block s_timers]; auto.
  - injection Hr as ->. cbn [m_sq].
    destruct (retime_ev tmp (now + Z.of_N q)%Z) as (Rev & _ & _). cbv zeta in Rev.
    split; [exact (sq_pop_heaps _ _ _ _ _ _ Hh Hp)|]. split; [|split].
    + intros ic e m He. eapply Hte. eapply qint_pop_in; eauto.
    + exact Hnb.
    + left. cbn [m_c m_s]. split; [|auto]. intros m. rewrite Rev.
      destruct (pop_ev _ _ _ _ _ _ (proj1 Hinv) Hp) as [_ [Hk|Hin]]; [apply Hk|eapply Hte; exact Hin].
  - (* an internal timer fires: its TimerEnd is returned *)
    destruct H as (Hsa & Hitq & Hitb & Hitn & c' & s' & e & Hd & H).
    destruct Hnb as (Bc & Bs & Hsl).
    destruct (fire_then_pop _ _ _ _ _ _ _ _ _ _ _ _ _ Hinv Hh Bc Bs Hb Hq Hsa Hitq Hitb Hitn Hd H)
      as (Hr & Ec' & Es' & Hh' & Hsub).
    injection Hr as ->.
    destruct (do_internal_timer_spec _ _ _ _ _ _ Hd) as (ic & mi & Hspec).
    split; [exact Hh'|]. split; [intros ic0 e0 m He0; eapply Hte; apply Hsub; exact He0|]. split.
    + destruct ic; cbv beta iota zeta in Hspec; destruct Hspec as (_ & _ & Ho & Hs & _ & _ & Bb & _).
      * split; [rewrite Ec'; congruence|]. split; [rewrite Es', Ho; exact Bs|].
        intros [|] mj a t Hn; cbn [side_of] in Hn; [rewrite Ec', Hs in Hn; exact (Hsl true mj a t Hn)|].
        rewrite Es', Ho in Hn. exact (Hsl false mj a t Hn).
      * split; [rewrite Ec', Ho; exact Bc|]. split; [rewrite Es'; congruence|].
        intros [|] mj a t Hn; cbn [side_of] in Hn; [rewrite Ec', Ho in Hn; exact (Hsl true mj a t Hn)|].
        rewrite Es', Hs in Hn. exact (Hsl false mj a t Hn).
    + right. exists ic, mi.
      destruct ic; cbv beta iota zeta in Hspec; destruct Hspec as (Hn & Ht & Ho & _ & _ & _ & _ & ->);
        cbn [se_time side_of negb]; rewrite Ec', Es'; (split; [reflexivity|]); (split; [exact Hn|]);
        (split; [exact Ht|]); rewrite Ho; reflexivity.
  - (* a scheduled action is due *)
    destruct H as (_ & c' & s' & e & Hd & H).
    pose proof (SB.do_scheduled_action_ev _ _ _ _ _ _ Hd) as Hev.
    assert (Hne : forall m, se_ev e <> TETimerEnd m).
    { intros m. destruct Hev as [[m0 ->]|[m0 ->]]; discriminate. }
    assert (Hinv2 : SB.sq_inv (sq_push (m_sq st) e)).
    { apply SB.sq_push_inv; [exact Hinv|]. destruct Hev as [[m0 ->]|[m0 ->]]; discriminate. }
    pose proof (do_scheduled_action_nb st c' s' e _ (sq_push (m_sq st) e) (m_net st) (m_pos st) Hnb Hd) as Hnb2.
    destruct (IH (mksim (sq_push (m_sq st) e) c' s' (m_net st) (m_pos st)) _ _ _
                 Hinv2 (SI.sq_heaps_push _ e Hh) (NoTE_push _ _ Hte Hne) Hnb2 H) as (A & B & C & D).
    split; [exact A|]. split; [exact B|]. split; [exact C|].
    eapply te_shape_from; [| |exact D]; cbn [m_c m_s];
      apply do_scheduled_action_spec in Hd; destruct Hd as (ic & mi & a & Hd); cbv zeta in Hd;
      destruct ic; destruct Hd as (_ & _ & Ho & Ht & _); subst; auto.
Qed.

(** * 5. While an event of an internal heap is due now, [pick_next] returns events of this instant, and
      the event stays queued until it is the one returned *)
Lemma pop_keep : forall sq w qic d tmp sq' ic e,
  sq_pop sq w qic d = Some (tmp, sq') -> In e (qint sq ic) -> In e (qint sq' ic) \/ tmp = e.
Proof.
  intros sq w qic d tmp sq' ic e H He. destruct (sq_pop_evq _ _ _ _ _ _ H) as (q' & Hp & ->).
  rewrite qint_evq in *. rewrite SB.sq_side_set.
  destruct (Bool.eqb qic ic) eqn:E; [|left; exact He].
  apply Bool.eqb_prop in E. subst qic.
  destruct (SB.evq_pop_spec _ _ _ _ _ Hp) as (x0 & h & Hpop & _ & Hx & Hq & Hoth).
  destruct (SB.qid_eq_dec QInternal w) as [<-|Hne].
  - rewrite Hq. apply heap_pop_perm in Hpop. apply (Permutation_in _ Hpop) in He.
    destruct He as [<-|He]; [right; apply Hx; discriminate|left; exact He].
  - left. rewrite (Hoth _ Hne). exact He.
Qed.

Lemma pick_next_pinned : forall L fuel st now next st' ic e,
  QOK L now (m_sq st) -> In e (qint (m_sq st) ic) -> se_time e = now ->
  pick_next fuel st now = Ok (Some next, st') ->
  se_time next = now /\
  (In e (qint (m_sq st') ic) \/ (se_ev next = se_ev e /\ se_client next = ic)).
Proof.
  intros L. induction fuel as [|fuel IH]; intros st now next st' ic e HQ He Ht H; [discriminate H|].
  apply pn_cases in H. destruct H as (b & bic & q & which & qic & Hq & H). cbv zeta in Hq.
  assert (Hz : q = 0).
  { pose proof (peek_queue_zero (m_sq st) (m_c st) (m_s st) (n_cagg (m_net st)) (n_sagg (m_net st))
                  (N.min (N.min (N.min (peek_sched (s_sched (m_c st)) (s_sched (m_s st)) now)
                                       (peek_timers (s_timers (m_c st)) (s_timers (m_s st)) now)) b)
                         (net_peek_agg (m_net st) now)) now ic e (proj1 (proj2 HQ)) He ltac:(lia)) as Z0.
    rewrite Hq in Z0. exact Z0. }
  subst q. unfold pn_alt in H.
  destruct H as [(Hr & _)|[H|[H|[H|[H|H]]]]].
  - discriminate Hr.
  - eapply IH; [| | |exact H]; [exact HQ|exact He|exact Ht].
  - destruct H as (Hbq & Hr & c' & s' & net' & -> & _). injection Hr as ->. cbn [se_time m_sq].
    split; [lia|left; exact He].
  - destruct H as (tmp & sq' & Hp & Hr & ->). injection Hr as ->. cbn [m_sq].
    change (Z.of_N 0) with 0%Z.
    destruct (retime_ev tmp (now + 0)%Z) as (Rev & Rcl & Rt). cbv zeta in Rev, Rcl, Rt.
    pose proof (peek_pop_consistent _ _ _ _ _ _ _ _ _ _ _ _
                  (SimTrace.sq_inv_wf _ (proj1 HQ)) Hq DMAX_pos Hp) as Hle.
    change (Z.of_N 0) with 0%Z in Hle.
    split; [rewrite Rt; lia|].
    destruct (pop_keep _ _ _ _ _ _ ic e Hp He) as [Hk | ->]; [left; exact Hk|right].
    rewrite Rev, Rcl. split; [reflexivity|].
    (* the popped event was in the internal heap of side [ic], so [ic] is its side *)
    rewrite qint_evq in He. pose proof (proj1 HQ) as [Hwf _]. rewrite SB.wf_simq_iff in Hwf.
    specialize (Hwf ic). rewrite SB.wf_evq_iff in Hwf. exact (proj1 (Hwf QInternal e He)).
  - destruct H as (Hn & _). exfalso. apply Hn. split; apply N.le_0_l.
  - destruct H as (Hn & _). exfalso. apply Hn. split; apply N.le_0_l.
Qed.

(** * 6. The contract read as a function of the history *)
(** the value of a timer slot (no timer for a machine the side does not have) *)
Definition slotv (timers : list (option Z)) (m : N) : option Z :=
  match nth_error timers (N.to_nat m) with Some c => c | None => None end.

(** one record of side [X]: a reported TimerEnd of machine [m] clears the timer, then the actions
    returned for the event are applied per the contract ([SimTimers.timer_after]: UpdateTimer sets
    t+dur if replace, or none running, or t+dur later than the running expiry; Cancel of the internal
    timer or of all timers clears); records of the other side do nothing *)
Definition trec_step (X : bool) (m : N) (cur : option Z) (r : hrec) : option Z :=
  if Bool.eqb (se_client (h_ev r)) X then
    timer_after (h_acts r) (se_time (h_ev r)) (N.to_nat m)
      (match se_ev (h_ev r) with
       | TETimerEnd m' => if m' =? m then None else cur
       | _ => cur
       end)
  else cur.
Definition trp (X : bool) (m : N) (L : list hrec) : option Z := fold_left (trec_step X m) L None.
(** expiry of the internal timer of machine [m] on side [X] after the records H[0..k): None = not running *)
Definition treplay (X : bool) (m : N) (H : list hrec) (k : nat) : option Z := trp X m (firstn k H).

Lemma trp_snoc : forall X m L r, trp X m (L ++ [r]) = trec_step X m (trp X m L) r.
Proof. intros. unfold trp. rewrite fold_left_app. reflexivity. Qed.

Lemma treplay_app : forall X m L L2 k, (k <= length L)%nat -> treplay X m (L ++ L2) k = treplay X m L k.
Proof.
  intros X m L L2 k Hk. unfold treplay. rewrite firstn_app.
  replace (k - length L)%nat with 0%nat by lia. cbn [firstn]. rewrite app_nil_r. reflexivity.
Qed.

Lemma treplay_full : forall X m L, treplay X m L (length L) = trp X m L.
Proof. intros. unfold treplay. rewrite firstn_all. reflexivity. Qed.

Lemma firstn_S_nth : forall (L : list hrec) k r, nth_error L k = Some r -> firstn (S k) L = firstn k L ++ [r].
Proof.
  induction L as [|a L IH]; intros [|k] r H; cbn [nth_error] in H; try discriminate.
  - injection H as ->. reflexivity.
  - cbn [firstn app]. f_equal. apply IH. exact H.
Qed.

Lemma treplay_S : forall X m H k r, nth_error H k = Some r ->
  treplay X m H (S k) = trec_step X m (treplay X m H k) r.
Proof. intros X m H k r Hn. unfold treplay. rewrite (firstn_S_nth _ _ _ Hn). apply trp_snoc. Qed.

(** ** what a list of actions does to one timer *)
Lemma timer_after_cons : forall a rest t mi cur,
  timer_after (a :: rest) t mi cur = timer_after rest t mi (timer_step t mi cur a).
Proof. reflexivity. Qed.

Lemma to_nat_eqb : forall m0 m, Nat.eqb (N.to_nat m0) (N.to_nat m) = (m0 =? m).
Proof.
  intros m0 m. destruct (Nat.eqb_spec (N.to_nat m0) (N.to_nat m)); destruct (N.eqb_spec m0 m);
    try reflexivity; exfalso; lia.
Qed.

(** no timer action for [m]: the timer is left alone *)
Lemma timer_after_untouched : forall acts t m cur,
  (forall a, In a acts -> is_timer_for m a = false) -> timer_after acts t (N.to_nat m) cur = cur.
Proof.
  induction acts as [|a rest IH]; intros t m cur H; [reflexivity|].
  rewrite timer_after_cons. rewrite IH by (intros a' Ha'; apply H; right; exact Ha').
  pose proof (H a (or_introl eq_refl)) as Ha. unfold is_timer_for in Ha. unfold timer_step.
  rewrite to_nat_eqb. destruct (taction_machine a =? m); [|reflexivity]. cbn [andb] in Ha.
  destruct a as [m0 tm|m0 tmo by_ rp|m0 tmo dur by_ rp|m0 dur rp]; try reflexivity; try discriminate Ha.
  destruct tm; try reflexivity; discriminate Ha.
Qed.

(** no UpdateTimer for [m]: a timer that is not running stays so *)
Lemma timer_after_none : forall acts t m,
  (forall dur rp, ~ In (TUpdateTimer m dur rp) acts) -> timer_after acts t (N.to_nat m) None = None.
Proof.
  induction acts as [|a rest IH]; intros t m H; [reflexivity|].
  rewrite timer_after_cons.
  assert (Hs : timer_step t (N.to_nat m) None a = None).
  { unfold timer_step. rewrite to_nat_eqb. destruct (N.eqb_spec (taction_machine a) m) as [E|E]; [|reflexivity].
    destruct a as [m0 tm|m0 tmo by_ rp|m0 tmo dur by_ rp|m0 dur rp]; try reflexivity.
    - destruct tm; reflexivity.
    - cbn [taction_machine] in E. subst m0. exfalso. apply (H dur rp). left. reflexivity. }
  rewrite Hs. apply IH. intros dur rp Hin. apply (H dur rp). right. exact Hin.
Qed.

(** a running timer after the actions: one of them is an UpdateTimer, or it was running before *)
Lemma timer_after_some : forall acts t m cur exp,
  timer_after acts t (N.to_nat m) cur = Some exp ->
  (exists dur rp, In (TUpdateTimer m dur rp) acts /\ exp = (t + Z.of_N dur)%Z) \/ cur = Some exp.
Proof.
  intros acts t m cur exp H. apply timer_after_cases in H. rewrite N2Nat.id in H.
  destruct H as [H|[H _]]; auto.
Qed.

(** ** the slots after [apply_actions] *)
Lemma apply_actions_range : forall acts sd sq t ic sd' sq' m dur rp,
  apply_actions acts sd sq t ic = Ok (sd', sq') -> In (TUpdateTimer m dur rp) acts ->
  (N.to_nat m < length (s_timers sd))%nat.
Proof.
  induction acts as [|a rest IH]; intros sd sq t ic sd' sq' m dur rp H Hin; [destruct Hin|].
  rewrite apply_actions_cons in H. mbind H as p E. destruct p as [sd1 sq1].
  destruct Hin as [->|Hin].
  - unfold apply1 in E. cbn [taction_machine] in E. mbind E as cur0 Eg. apply get_ok in Eg.
    apply nth_error_Some. congruence.
  - apply apply1_spec in E. destruct E as (_ & L2 & _). rewrite <- L2. eapply IH; eauto.
Qed.

Lemma apply_actions_slotv : forall acts sd sq t ic sd' sq',
  apply_actions acts sd sq t ic = Ok (sd', sq') ->
  forall m, slotv (s_timers sd') m = timer_after acts t (N.to_nat m) (slotv (s_timers sd) m).
Proof.
  intros acts sd sq t ic sd' sq' H m.
  destruct (apply_actions_spec _ _ _ _ _ _ _ H) as (_ & Hlen & _ & Htm & _).
  unfold slotv. destruct (nth_error (s_timers sd) (N.to_nat m)) as [cur|] eqn:E.
  - rewrite (Htm _ _ E). reflexivity.
  - assert (E' : nth_error (s_timers sd') (N.to_nat m) = None).
    { apply nth_error_None. rewrite Hlen. apply nth_error_None. exact E. }
    rewrite E'. symmetry. apply timer_after_none. intros dur rp Hin.
    pose proof (apply_actions_range _ _ _ _ _ _ _ _ _ _ H Hin) as Hr.
    apply nth_error_None in E. lia.
Qed.

Lemma slotv_upd : forall timers mi v m, (mi < length timers)%nat ->
  slotv (upd timers mi v) m = if N.of_nat mi =? m then v else slotv timers m.
Proof.
  intros timers mi v m Hlt. unfold slotv.
  destruct (nth_error timers (N.to_nat m)) as [c|] eqn:E.
  - rewrite (st_nth_upd _ _ _ _ _ E).
    destruct (Nat.eqb_spec mi (N.to_nat m)); destruct (N.eqb_spec (N.of_nat mi) m); try reflexivity; exfalso; lia.
  - assert (E' : nth_error (upd timers mi v) (N.to_nat m) = None).
    { apply nth_error_None. rewrite st_upd_length. apply nth_error_None. exact E. }
    rewrite E'. apply nth_error_None in E.
    destruct (N.eqb_spec (N.of_nat mi) m); [exfalso; lia|reflexivity].
Qed.

Lemma slotv_some : forall timers m e, slotv timers m = Some e <-> nth_error timers (N.to_nat m) = Some (Some e).
Proof.
  intros timers m e. unfold slotv. destruct (nth_error timers (N.to_nat m)) as [[c|]|]; split; intros H;
    try discriminate; congruence.
Qed.

(** ** an UpdateTimer that sets or changes the timer queues a TimerBegin *)
Definition sets_cond (rp : bool) (cur : option Z) (t : Z) (dur : N) : Prop :=
  rp = true \/ cur = None \/ (exists u, cur = Some u /\ (u < t + Z.of_N dur)%Z).

Lemma sets_cond_timer_sets : forall rp cur t dur, sets_cond rp cur t dur -> timer_sets t cur dur rp = true.
Proof.
  intros rp cur t dur [->|[->|(u & -> & Hlt)]]; unfold timer_sets; [reflexivity|apply orb_true_r|].
  apply orb_true_iff. right. apply Z.ltb_lt. exact Hlt.
Qed.

(** the timer of [m] once the event of a record is taken into account (a reported TimerEnd of [m] clears
    it), before the actions returned for that event are applied *)
Definition after_event (ev : trigger_event) (m : N) (cur : option Z) : option Z :=
  match ev with TETimerEnd m' => if m' =? m then None else cur | _ => cur end.

Lemma sets_cond_after : forall rp cur t dur ev m,
  sets_cond rp cur t dur -> sets_cond rp (after_event ev m cur) t dur.
Proof.
  intros rp cur t dur ev m H. destruct ev; try exact H. cbn [after_event].
  destruct (_ =? _); [right; left; reflexivity|exact H].
Qed.

Lemma slotv_upd_other : forall timers m0 v m, m0 <> m -> slotv (upd timers (N.to_nat m0) v) m = slotv timers m.
Proof.
  intros timers m0 v m Hne. unfold slotv.
  destruct (nth_error timers (N.to_nat m)) as [c|] eqn:E.
  - rewrite (st_nth_upd _ _ _ _ _ E). destruct (Nat.eqb_spec (N.to_nat m0) (N.to_nat m)); [exfalso; lia|reflexivity].
  - assert (E' : nth_error (upd timers (N.to_nat m0) v) (N.to_nat m) = None).
    { apply nth_error_None. rewrite st_upd_length. apply nth_error_None. exact E. }
    rewrite E'. reflexivity.
Qed.

Lemma slotv_upd_none : forall timers m, slotv (upd timers (N.to_nat m) None) m = None.
Proof.
  intros timers m. unfold slotv.
  destruct (nth_error timers (N.to_nat m)) as [c|] eqn:E.
  - rewrite (st_nth_upd _ _ _ _ _ E). rewrite Nat.eqb_refl. reflexivity.
  - assert (E' : nth_error (upd timers (N.to_nat m) None) (N.to_nat m) = None).
    { apply nth_error_None. rewrite st_upd_length. apply nth_error_None. exact E. }
    rewrite E'. reflexivity.
Qed.

Lemma timer_begins_has : forall acts t ic timers m dur rp,
  In (TUpdateTimer m dur rp) acts -> timer_sets t (slotv timers m) dur rp = true ->
  In (mksev (TETimerBegin m) t ic false false false) (timer_begins acts t ic timers).
Proof.
  induction acts as [|a rest IH]; intros t ic timers m dur rp Hin Hs; [destruct Hin|].
  cbn [timer_begins]. destruct Hin as [->|Hin].
  - cbn [taction_machine]. unfold slotv in Hs. rewrite Hs. left. reflexivity.
  - destruct a as [m0 tm|m0 tmo by_ rp0|m0 tmo dur0 by_ rp0|m0 dur0 rp0]; cbn [taction_machine].
    + assert (Hc : forall tms, tms = upd timers (N.to_nat m0) None ->
                    In (mksev (TETimerBegin m) t ic false false false) (timer_begins rest t ic tms)).
      { intros tms ->. eapply IH; [exact Hin|].
        destruct (N.eq_dec m0 m) as [->|Hne].
        - rewrite slotv_upd_none. unfold timer_sets. apply orb_true_r.
        - rewrite (slotv_upd_other _ _ _ _ Hne). exact Hs. }
      destruct tm; [eapply IH; eauto|apply Hc; reflexivity|apply Hc; reflexivity].
    + eapply IH; eauto.
    + eapply IH; eauto.
    + destruct (timer_sets t match nth_error timers (N.to_nat m0) with Some c => c | None => None end dur0 rp0) eqn:E0.
      * destruct (N.eq_dec m0 m) as [->|Hne]; [left; reflexivity|].
        right. eapply IH; [exact Hin|]. rewrite (slotv_upd_other _ _ _ _ Hne). exact Hs.
      * eapply IH; eauto.
Qed.

Lemma fold_push_in : forall l sq e, In e l -> SB.route e = QInternal ->
  In e (qint (fold_left sq_push l sq) (se_client e)).
Proof.
  assert (Hkeep : forall l sq ic e, In e (qint sq ic) -> In e (qint (fold_left sq_push l sq) ic)).
  { induction l as [|x l IH]; intros sq ic e H; cbn [fold_left]; [exact H|]. apply IH. apply qint_push_keep. exact H. }
  induction l as [|x l IH]; intros sq e Hin Hr; [destruct Hin|]. cbn [fold_left].
  destruct Hin as [->|Hin]; [|apply IH; assumption].
  apply Hkeep. rewrite qint_evq. unfold sq_push. rewrite SB.sq_side_set, Bool.eqb_reflx, SB.evq_push_heap, Hr.
  cbn [qid_eqb]. apply (Permutation_in _ (Permutation_sym (heap_push_perm sev sev_le _ e))). left. reflexivity.
Qed.

Lemma fold_push_keep : forall l sq ic e, In e (qint sq ic) -> In e (qint (fold_left sq_push l sq) ic).
Proof.
  induction l as [|x l IH]; intros sq ic e H; cbn [fold_left]; [exact H|]. apply IH. apply qint_push_keep. exact H.
Qed.

(** ** the network stack keeps the queued timer events *)
Lemma sq_peek_blocking_qid : forall sq bb ic o w, sq_peek_blocking sq bb ic = (o, w) -> w = QBlocking \/ w = QBypassable.
Proof.
  intros sq bb ic o w H. unfold sq_peek_blocking in H. destruct bb; [injection H as _ <-; auto|].
  destruct (opt_gt _ _); injection H as _ <-; auto.
Qed.

Lemma network_stack_keep : forall next sq bb net nowt sq' net' act ic e m,
  SB.wf_simq sq -> In e (qint sq ic) -> se_ev e = TETimerBegin m ->
  sim_network_stack next sq bb net nowt = Ok (sq', net', act) -> In e (qint sq' ic).
Proof.
  intros next sq bb net nowt sq' net' act ic e m Hwf He Hev H. unfold sim_network_stack in H.
  destruct (se_ev next) eqn:Eev; try (injection H as <- _ _; exact He).
  - destruct (se_pad next); injection H as <- _ _; apply qint_push_keep; exact He.
  - injection H as <- _ _. apply qint_push_keep; exact He.
  - destruct (se_replace next); [|injection H as <- _ _; apply qint_push_keep; exact He].
    destruct (sq_peek_blocking sq bb (se_client next)) as [[queued|] which] eqn:Epk;
      [|injection H as <- _ _; apply qint_push_keep; exact He].
    destruct (Bool.eqb (se_client queued) (se_client next) && is_tunnel_sent (se_ev queued)
              && negb (se_pad queued)); [|injection H as <- _ _; apply qint_push_keep; exact He].
    destruct (negb (se_bypass next)); [injection H as <- _ _; exact He|].
    destruct (sq_pop_blocking sq which bb (se_client next)
                (if se_client next then n_cagg net else n_sagg net)) as [[entry sq1]|] eqn:Epop;
      [|discriminate].
    injection H as <- _ _. apply qint_push_keep.
    apply sq_peek_blocking_qid in Epk.
    assert (Hp : exists w d, (w = QBlocking \/ w = QBypassable) /\ sq_pop sq w (se_client next) d = Some (entry, sq1)).
    { unfold sq_pop_blocking in Epop. destruct bb; eauto. }
    destruct Hp as (w & d & Hw & Hp).
    destruct (pop_keep _ _ _ _ _ _ ic e Hp He) as [Hk|Hk]; [exact Hk|]. exfalso. subst entry.
    pose proof (SB.sq_pop_ok _ _ _ _ _ _ Hwf Hp) as [_ Hk].
    destruct Hw as [-> | ->]; destruct Hk as [Hk _]; congruence.
  - destruct (net_sample net nowt (se_client next)) as [[net1 nd] baseline].
    destruct (negb (se_pad next)); injection H as <- _ _; apply qint_push_keep; exact He.
Qed.

Lemma network_stack_heaps_te : forall next sq bb net nowt sq' net' act,
  SB.wf_simq sq -> SI.sq_heaps sq -> NoTE sq ->
  sim_network_stack next sq bb net nowt = Ok (sq', net', act) -> SI.sq_heaps sq' /\ NoTE sq'.
Proof.
  intros next sq bb net nowt sq' net' act Hwf Hh Hte H. unfold sim_network_stack in H.
  assert (Hpush : forall sq0 x, SI.sq_heaps sq0 /\ NoTE sq0 -> (forall m, se_ev x <> TETimerEnd m) ->
                    SI.sq_heaps (sq_push sq0 x) /\ NoTE (sq_push sq0 x)).
  { intros sq0 x [A B] Hx. split; [apply SI.sq_heaps_push; exact A|apply NoTE_push; assumption]. }
  destruct (se_ev next) eqn:Eev; try (injection H as <- _ _; split; assumption).
  - destruct (se_pad next); injection H as <- _ _; apply Hpush; auto; intros m0; cbn [se_ev]; discriminate.
  - injection H as <- _ _. apply Hpush; auto; intros m0; cbn [se_ev]; discriminate.
  - assert (Hplain : forall pd by_ rp,
              SI.sq_heaps (sq_push sq (mksev TETunnelSent (se_time next) (se_client next) pd by_ rp)) /\
              NoTE (sq_push sq (mksev TETunnelSent (se_time next) (se_client next) pd by_ rp))).
    { intros pd by_ rp. apply Hpush; auto; intros m0; cbn [se_ev]; discriminate. }
    destruct (se_replace next); [|injection H as <- _ _; apply Hplain].
    destruct (sq_peek_blocking sq bb (se_client next)) as [[queued|] which] eqn:Epk;
      [|injection H as <- _ _; apply Hplain].
    destruct (Bool.eqb (se_client queued) (se_client next) && is_tunnel_sent (se_ev queued)
              && negb (se_pad queued)); [|injection H as <- _ _; apply Hplain].
    destruct (negb (se_bypass next)); [injection H as <- _ _; split; assumption|].
    destruct (sq_pop_blocking sq which bb (se_client next)
                (if se_client next then n_cagg net else n_sagg net)) as [[entry sq1]|] eqn:Epop;
      [|discriminate].
    injection H as <- _ _.
    apply sq_peek_blocking_qid in Epk.
    assert (Hp : exists w d, (w = QBlocking \/ w = QBypassable) /\ sq_pop sq w (se_client next) d = Some (entry, sq1)).
    { unfold sq_pop_blocking in Epop. destruct bb; eauto. }
    destruct Hp as (w & d & Hw & Hp).
    apply Hpush.
    + split; [exact (sq_pop_heaps _ _ _ _ _ _ Hh Hp)|].
      intros ic e m0 He. eapply Hte. eapply qint_pop_in; eauto.
    + intros m0. cbn [se_ev]. pose proof (SB.sq_pop_ok _ _ _ _ _ _ Hwf Hp) as [_ Hk].
      destruct Hw as [-> | ->]; destruct Hk as [Hk _]; congruence.
  - destruct (net_sample net nowt (se_client next)) as [[net1 nd] baseline].
    destruct (negb (se_pad next)); injection H as <- _ _; apply Hpush; auto; intros m0; cbn [se_ev]; discriminate.
Qed.

(** * 7. The loop invariant *)
(** the timer slots ARE the replay of the history *)
Definition SLX (L : list hrec) (st : sim) : Prop :=
  forall ic m, trp ic m L = slotv (s_timers (side_of st ic)) m.
(** no running timer is overdue *)
Definition TGE (now : Z) (st : sim) : Prop :=
  forall ic mi t, nth_error (s_timers (side_of st ic)) mi = Some (Some t) -> (now <= t)%Z.

(** record [j] holds an UpdateTimer for [m] on side [X] at instant [t] that sets or changes the timer *)
Definition owed (L : list hrec) (j : nat) (X : bool) (m : N) (t : Z) : Prop :=
  exists rj dur rp, nth_error L j = Some rj /\ se_client (h_ev rj) = X /\ se_time (h_ev rj) = t /\
    In (TUpdateTimer m dur rp) (h_acts rj) /\
    sets_cond rp (after_event (se_ev (h_ev rj)) m (treplay X m L j)) t dur.
Definition begin_at (L : list hrec) (k : nat) (X : bool) (m : N) (t : Z) : Prop :=
  exists rk, nth_error L k = Some rk /\ se_ev (h_ev rk) = TETimerBegin m /\
    se_client (h_ev rk) = X /\ se_time (h_ev rk) = t.
(** every such update has its TimerBegin reported, or still queued at this very instant *)
Definition BEG (L : list hrec) (now : Z) (sq : simq) : Prop :=
  forall j X m t, owed L j X m t ->
    (exists k, (j < k)%nat /\ begin_at L k X m t) \/
    (t = now /\ exists e, In e (qint sq X) /\ se_ev e = TETimerBegin m).

Record LI (L : list hrec) (now : Z) (st : sim) : Prop := mkLI {
  li_q : QOK L now (m_sq st); li_sl : SL L st; li_h : SI.sq_heaps (m_sq st); li_te : NoTE (m_sq st);
  li_nb : NB st; li_x : SLX L st; li_ge : TGE now st; li_b : BEG L now (m_sq st) }.

(** the statements about the history *)
Definition GoodA (L : list hrec) : Prop :=
  forall j X m t k' rk', owed L j X m t -> (j < k')%nat -> nth_error L k' = Some rk' ->
    (t < se_time (h_ev rk'))%Z -> exists k, (j < k < k')%nat /\ begin_at L k X m t.
Definition RecBE (L : list hrec) : Prop :=
  forall i ri, nth_error L i = Some ri ->
    (forall X m e, treplay X m L i = Some e -> (se_time (h_ev ri) <= e)%Z) /\
    (forall m, se_ev (h_ev ri) = TETimerEnd m ->
               treplay (se_client (h_ev ri)) m L i = Some (se_time (h_ev ri))).

Lemma nth_lt : forall (L : list hrec) j r, nth_error L j = Some r -> (j < length L)%nat.
Proof. intros L j r H. apply nth_error_Some. congruence. Qed.

Lemma owed_app : forall L L2 j X m t, owed L j X m t -> owed (L ++ L2) j X m t.
Proof.
  intros L L2 j X m t (rj & dur & rp & Hn & Hc & Ht & Hi & Hs).
  exists rj, dur, rp. split; [apply nth_app_l; exact Hn|]. split; [exact Hc|]. split; [exact Ht|].
  split; [exact Hi|]. rewrite treplay_app; [exact Hs|]. apply nth_lt in Hn. lia.
Qed.

Lemma owed_snoc_inv : forall L r j X m t, owed (L ++ [r]) j X m t ->
  owed L j X m t \/
  (j = length L /\ se_client (h_ev r) = X /\ se_time (h_ev r) = t /\
   exists dur rp, In (TUpdateTimer m dur rp) (h_acts r) /\
                  sets_cond rp (after_event (se_ev (h_ev r)) m (trp X m L)) t dur).
Proof.
  intros L r j X m t (rj & dur & rp & Hn & Hc & Ht & Hi & Hs).
  apply nth_snoc in Hn. destruct Hn as [Hn|[-> ->]].
  - left. exists rj, dur, rp. rewrite treplay_app in Hs by (apply nth_lt in Hn; lia). auto 6.
  - right. rewrite treplay_app, treplay_full in Hs by lia. split; [reflexivity|]. eauto 8.
Qed.

Lemma begin_at_app : forall L L2 k X m t, begin_at L k X m t -> begin_at (L ++ L2) k X m t.
Proof. intros L L2 k X m t (rk & Hn & H). exists rk. split; [apply nth_app_l; exact Hn|exact H]. Qed.

Lemma begin_at_lt : forall L k X m t, begin_at L k X m t -> (k < length L)%nat.
Proof. intros L k X m t (rk & Hn & _). eapply nth_lt; eauto. Qed.

Lemma in_pending_timer : forall st ic mi t,
  nth_error (s_timers (side_of st ic)) mi = Some (Some t) -> In t (pending st).
Proof.
  intros st ic mi t H. unfold pending. rewrite !in_app_iff, !in_timer_times.
  destruct ic; cbn [side_of] in H; eauto.
Qed.

Lemma match_not_te : forall (ev : trigger_event) (f : N -> option Z) (d : option Z),
  (forall m, ev <> TETimerEnd m) -> match ev with TETimerEnd m' => f m' | _ => d end = d.
Proof. intros ev f d H. destruct ev; try reflexivity. exfalso. eapply H. reflexivity. Qed.

(** what one call of [pick_next] gives under the invariant *)
Lemma pick_facts : forall L fuel st now next st1,
  LI L now st -> pick_next fuel st now = Ok (Some next, st1) ->
  QOK L (se_time next) (m_sq st1) /\ SL L st1 /\ SI.sq_heaps (m_sq st1) /\ NoTE (m_sq st1) /\ NB st1 /\
  (now <= se_time next)%Z /\ TGE (se_time next) st1 /\
  (forall m, slotv (s_timers (side_of st1 (se_client next))) m =
             match se_ev next with
             | TETimerEnd m' => if m' =? m then None else trp (se_client next) m L
             | _ => trp (se_client next) m L
             end) /\
  (forall m, slotv (s_timers (side_of st1 (negb (se_client next)))) m = trp (negb (se_client next)) m L) /\
  (forall X m e, trp X m L = Some e -> (se_time next <= e)%Z) /\
  (forall m, se_ev next = TETimerEnd m -> trp (se_client next) m L = Some (se_time next)).
Proof.
  intros L fuel st now next st1 [HQ HS Hh Hte Hnb Hx Hge _] H.
  destruct (pick_next_tinv _ _ _ _ _ _ HQ HS H) as (HQ1 & HS1 & _).
  destruct (pick_next_live _ _ _ _ _ (proj1 HQ) Hh Hte Hnb H) as (Hh1 & Hte1 & Hnb1 & Hshape).
  pose proof (pick_next_time _ _ _ _ _ H) as Htime.
  pose proof (pick_next_not_past_wf _ _ _ _ _ (SimTrace.sq_inv_wf _ (proj1 HQ)) H) as Hnp.
  pose proof (pick_next_slots _ _ _ _ _ H) as (_ & _ & Sc & Ss).
  assert (Hsub : forall ic mi t, nth_error (s_timers (side_of st1 ic)) mi = Some (Some t) ->
                                 nth_error (s_timers (side_of st ic)) mi = Some (Some t)).
  { intros [|] mi t Hn; cbn [side_of] in *; auto. }
  assert (Hge1 : TGE (se_time next) st1).
  { intros ic mi t Hn. apply Hnp; [eapply in_pending_timer; exact Hn|]. eapply Hge. apply Hsub. exact Hn. }
  split; [exact HQ1|]. split; [exact HS1|]. split; [exact Hh1|]. split; [exact Hte1|]. split; [exact Hnb1|].
  split; [exact Htime|]. split; [exact Hge1|].
  destruct Hshape as [(A & Tc & Ts)|(ic & mi & A & Hn & Tu & To)].
  - (* not a TimerEnd, the timers are untouched *)
    assert (Hsame : forall ic, s_timers (side_of st1 ic) = s_timers (side_of st ic)).
    { intros [|]; cbn [side_of]; assumption. }
    split; [|split; [|split]].
    + intros m. rewrite (match_not_te _ (fun m' => if m' =? m then None else trp (se_client next) m L) _ A).
      rewrite Hsame. symmetry. apply Hx.
    + intros m. rewrite Hsame. symmetry. apply Hx.
    + intros X m e He. rewrite Hx in He. apply slotv_some in He. rewrite <- Hsame in He.
      apply Hge1 in He. exact He.
    + intros m Hm. exfalso. exact (A m Hm).
  - (* the TimerEnd of the timer that fired *)
    assert (Hn2 : se_ev next = TETimerEnd (N.of_nat mi) /\ se_client next = ic) by (rewrite A; auto).
    destruct Hn2 as [Hev Hcl]. rewrite Hev, Hcl.
    assert (Hlt : (mi < length (s_timers (side_of st ic)))%nat) by (apply nth_error_Some; congruence).
    split; [|split; [|split]].
    + intros m. rewrite Tu, (slotv_upd _ _ _ _ Hlt). rewrite <- Hx. reflexivity.
    + intros m. rewrite To. symmetry. apply Hx.
    + intros X m e He. rewrite Hx in He. apply slotv_some in He.
      destruct (Bool.eqb X ic) eqn:EX.
      * apply Bool.eqb_prop in EX. subst X.
        destruct (Nat.eq_dec mi (N.to_nat m)) as [Em|Em].
        -- subst mi. rewrite Hn in He. injection He as <-. lia.
        -- apply (Hge1 ic (N.to_nat m)). rewrite Tu, (st_nth_upd _ _ _ _ _ He).
           destruct (Nat.eqb_spec mi (N.to_nat m)); [contradiction|reflexivity].
      * assert (X = negb ic) by (destruct X, ic; try discriminate; reflexivity). subst X.
        apply (Hge1 (negb ic) (N.to_nat m)). rewrite To. exact He.
    + intros m Hm. injection Hm as <-. rewrite Hx. apply slotv_some. rewrite Nat2N.id. exact Hn.
Qed.

(** * 8. One iteration of the main loop *)
Lemma neq_negb : forall a b : bool, a <> b -> a = negb b.
Proof. intros [|] [|] H; try reflexivity; exfalso; apply H; reflexivity. Qed.

Lemma NoTE_fold_push : forall l sq, NoTE sq -> (forall x, In x l -> forall m, se_ev x <> TETimerEnd m) ->
  NoTE (fold_left sq_push l sq).
Proof.
  induction l as [|x l IH]; intros sq H Hl; cbn [fold_left]; [exact H|].
  apply IH; [apply NoTE_push; [exact H|apply Hl; left; reflexivity]|intros y Hy; apply Hl; right; exact Hy].
Qed.

Lemma sched_after_in : forall acts t mi cur a tt,
  sched_after acts t mi cur = Some (a, tt) -> In a acts \/ cur = Some (a, tt).
Proof.
  induction acts as [|a0 rest IH]; intros t mi cur a tt H; [right; exact H|].
  change (sched_after (a0 :: rest) t mi cur) with (sched_after rest t mi (sched_step t mi cur a0)) in H.
  apply IH in H. destruct H as [H|H]; [left; right; exact H|].
  unfold sched_step in H. destruct (Nat.eqb _ mi); [|right; exact H].
  destruct a0 as [m tm|m tmo by_ rp|m tmo dur by_ rp|m dur rp].
  - destruct tm; try discriminate H; right; exact H.
  - injection H as <- _. left. left. reflexivity.
  - injection H as <- _. left. left. reflexivity.
  - right. exact H.
Qed.

(** the statements about the history, for the record of the event [pick_next] returns *)
Lemma step_hist : forall L fuel st now next st1 acts,
  LI L now st -> pick_next fuel st now = Ok (Some next, st1) ->
  (GoodA L -> GoodA (L ++ [mkhrec next acts])) /\ (RecBE L -> RecBE (L ++ [mkhrec next acts])).
Proof.
  intros L fuel st now next st1 acts HLI Hp.
  destruct (pick_facts _ _ _ _ _ _ HLI Hp) as (_ & _ & _ & _ & _ & _ & _ & _ & _ & RB & RE).
  set (r := mkhrec next acts). split.
  - intros HG j X m t k' rk' Ho Hlt Hn Ht.
    apply owed_snoc_inv in Ho. apply nth_snoc in Hn.
    destruct Ho as [Ho|(Hj & _)]; [|exfalso; destruct Hn as [Hn|[Hk _]]; [apply nth_lt in Hn|]; lia].
    destruct Hn as [Hn|[-> ->]].
    + destruct (HG _ _ _ _ _ _ Ho Hlt Hn Ht) as (k & Hk & Hb). exists k. split; [exact Hk|apply begin_at_app; exact Hb].
    + cbn [r h_ev] in Ht.
      destruct (li_b _ _ _ HLI _ _ _ _ Ho) as [(k & Hk & Hb)|(Hnow & e & He & Hev)].
      * exists k. split; [pose proof (begin_at_lt _ _ _ _ _ Hb); lia|apply begin_at_app; exact Hb].
      * exfalso.
        destruct (proj2 (proj2 (li_q _ _ _ HLI)) X e He) as [Hb _]. destruct (Hb m Hev) as [Hte _].
        destruct (pick_next_pinned _ _ _ _ _ _ _ _ (li_q _ _ _ HLI) He Hte Hp) as [Hpin _]. lia.
  - intros HR i ri Hn. apply nth_snoc in Hn. destruct Hn as [Hn|[-> ->]].
    + pose proof (nth_lt _ _ _ Hn) as Hi. destruct (HR i ri Hn) as [A B]. split.
      * intros X m e He. rewrite treplay_app in He by lia. eapply A; eauto.
      * intros m Hm. rewrite treplay_app by lia. apply B. exact Hm.
    + cbn [r h_ev]. split.
      * intros X m e He. rewrite treplay_app, treplay_full in He by lia. eapply RB; eauto.
      * intros m Hm. rewrite treplay_app, treplay_full by lia. apply RE. exact Hm.
Qed.

Lemma nth_lt' : forall {A} (l : list A) i x, nth_error l i = Some x -> (i < length l)%nat.
Proof. intros A l i x H. apply nth_error_Some. congruence. Qed.

Lemma NB_sides : forall st,
  NB st <-> (forall ic, s_bbypass (side_of st ic) = false) /\
            (forall ic mi a t, nth_error (s_sched (side_of st ic)) mi = Some (Some (a, t)) -> nobyp a).
Proof.
  intros st. unfold NB. split.
  - intros (A & B & C). split; [intros [|]; assumption|exact C].
  - intros (A & C). exact (conj (A true) (conj (A false) C)).
Qed.

(** the invariant after the iteration *)
Lemma step_LI : forall L cc sc tp fuel st now next st1 bb sq2 net2 act sd' sq3 pos3 st3,
  LI L now st -> pick_next fuel st now = Ok (Some next, st1) ->
  sim_network_stack next (m_sq st1) bb (m_net st1) (se_time next) = Ok (sq2, net2, act) ->
  trigger_update (if se_client next then cc else sc) tp (side_of st1 (se_client next)) (m_pos st1)
                 next (se_time next) sq2 (se_client next) = Ok (sd', sq3, pos3) ->
  (forall a, In a (acts_for cc sc tp st1 next) -> nobyp a) ->
  m_sq st3 = sq3 -> side_of st3 (se_client next) = sd' ->
  side_of st3 (negb (se_client next)) = side_of st1 (negb (se_client next)) ->
  LI (L ++ [mkhrec next (acts_for cc sc tp st1 next)]) (se_time next) st3.
Proof.
  intros L cc sc tp fuel st now next st1 bb sq2 net2 act sd' sq3 pos3 st3 HLI Hp En Htu Hnob E3q E3x E3o.
  destruct (pick_facts _ _ _ _ _ _ HLI Hp) as (HQ1 & HS1 & Hh1 & Hte1 & Hnb1 & Htime & Hge1 & MidX & MidO & _ & _).
  pose proof (QOK_network_stack _ _ _ _ _ _ _ _ _ _ HQ1 En) as HQ2.
  pose proof (step_inv L cc sc tp st1 next sq2 sd' sq3 pos3 HQ2 HS1 Htu) as Hsi. cbv zeta in Hsi.
  destruct Hsi as (HQ3 & HSx & HSo).
  destruct (network_stack_heaps_te _ _ _ _ _ _ _ _ (proj1 (proj1 HQ1)) Hh1 Hte1 En) as [Hh2 Hte2].
  destruct (trigger_update_acts _ _ _ _ _ _ _ _ _ _ _ Htu) as (fw' & acts & Et & Ea).
  assert (Hacts : acts_for cc sc tp st1 next = acts).
  { unfold acts_for. unfold side_of in Et. destruct (se_client next); rewrite Et; reflexivity. }
  rewrite Hacts in *.
  pose proof (apply_actions_slotv _ _ _ _ _ _ _ Ea) as Hslot. cbn [side_set_fw s_timers] in Hslot.
  destruct (apply_actions_spec _ _ _ _ _ _ _ Ea) as (Hlens & Hlen & Hsch & Htm & Esq3 & _ & _ & Hbb).
  cbn [side_set_fw s_timers s_sched s_bbypass] in Hlens, Hlen, Hsch, Htm, Esq3, Hbb.
  apply NB_sides in Hnb1. destruct Hnb1 as [Hbb1 Hsl1].
  constructor.
  - rewrite E3q. exact HQ3.
  - intros ic mi exp Hn. destruct (bool_dec ic (se_client next)) as [->|Hne].
    + rewrite E3x in Hn. apply HSx. exact Hn.
    + apply neq_negb in Hne. subst ic. rewrite E3o in Hn. apply HSo. exact Hn.
  - rewrite E3q, Esq3. apply SI.fold_push_heaps. exact Hh2.
  - rewrite E3q, Esq3. apply NoTE_fold_push; [exact Hte2|].
    intros x Hx m. apply timer_begins_in in Hx. destruct Hx as (m0 & dur & rp & -> & _). cbn [se_ev]. discriminate.
  - apply NB_sides. split.
    + intros ic. destruct (bool_dec ic (se_client next)) as [->|Hne].
      * rewrite E3x, Hbb. apply Hbb1.
      * apply neq_negb in Hne. subst ic. rewrite E3o. apply Hbb1.
    + intros ic mi a t Hn. destruct (bool_dec ic (se_client next)) as [->|Hne].
      * rewrite E3x in Hn.
        destruct (nth_error (s_sched (side_of st1 (se_client next))) mi) as [cur|] eqn:Ec.
        -- rewrite (Hsch _ _ Ec) in Hn. injection Hn as Hn. apply sched_after_in in Hn.
           destruct Hn as [Hn|Hn]; [apply Hnob; exact Hn|]. subst cur. eapply Hsl1; exact Ec.
        -- exfalso. apply nth_error_None in Ec. apply nth_lt' in Hn. lia.
      * apply neq_negb in Hne. subst ic. rewrite E3o in Hn. eapply Hsl1; exact Hn.
  - intros ic m. rewrite trp_snoc. unfold trec_step. cbn [h_ev h_acts].
    destruct (bool_dec ic (se_client next)) as [->|Hne].
    + rewrite Bool.eqb_reflx, E3x, Hslot, MidX. reflexivity.
    + apply neq_negb in Hne. subst ic.
      replace (Bool.eqb (se_client next) (negb (se_client next))) with false
        by (destruct (se_client next); reflexivity).
      rewrite E3o, MidO. reflexivity.
  - intros ic mi t Hn. destruct (bool_dec ic (se_client next)) as [->|Hne].
    + rewrite E3x in Hn.
      destruct (nth_error (s_timers (side_of st1 (se_client next))) mi) as [cur|] eqn:Ec.
      * rewrite (Htm _ _ Ec) in Hn. injection Hn as Hn. apply timer_after_cases in Hn.
        destruct Hn as [(dur & rp & _ & ->)|[-> _]]; [lia|]. eapply Hge1; exact Ec.
      * exfalso. apply nth_error_None in Ec. apply nth_lt' in Hn. lia.
    + apply neq_negb in Hne. subst ic. rewrite E3o in Hn. eapply Hge1; exact Hn.
  - intros j X m t Ho. apply owed_snoc_inv in Ho.
    destruct Ho as [Ho|(Hj & Hc & Ht & dur & rp & Hin & Hs)].
    + destruct (li_b _ _ _ HLI _ _ _ _ Ho) as [(k & Hk & Hb)|(Hnow & e & He & Hev)].
      * left. exists k. split; [exact Hk|apply begin_at_app; exact Hb].
      * destruct (proj2 (proj2 (li_q _ _ _ HLI)) X e He) as [Hb _]. destruct (Hb m Hev) as [Hte _].
        destruct (pick_next_pinned _ _ _ _ _ _ _ _ (li_q _ _ _ HLI) He Hte Hp) as [Hpin [Hk|[Hev' Hcl']]].
        -- right. split; [lia|]. exists e. split; [|exact Hev].
           rewrite E3q, Esq3. apply fold_push_keep.
           eapply network_stack_keep; [exact (proj1 (proj1 HQ1))|exact Hk|exact Hev|exact En].
        -- left. exists (length L). destruct Ho as (rj & _ & _ & Hnj & _). split; [eapply nth_lt; exact Hnj|].
           exists (mkhrec next acts). split; [rewrite nth_error_app2 by lia; rewrite Nat.sub_diag; reflexivity|].
           cbn [h_ev]. split; [congruence|]. split; [exact Hcl'|lia].
    + right. cbn [h_ev h_acts] in Hc, Ht, Hin. subst X. split; [symmetry; exact Ht|].
      exists (mksev (TETimerBegin m) (se_time next) (se_client next) false false false).
      split; [|reflexivity].
      assert (Hts : timer_sets (se_time next) (slotv (s_timers (side_of st1 (se_client next))) m) dur rp = true).
      { rewrite MidX. rewrite <- Ht in Hs. apply sets_cond_timer_sets. exact Hs. }
      pose proof (timer_begins_has acts (se_time next) (se_client next) _ m dur rp Hin Hts) as Hb.
      rewrite E3q, Esq3.
      exact (fold_push_in _ sq2 _ Hb eq_refl).
Qed.

(** * 9. The loop *)
(** the named extra hypothesis: no record of the history carries a BlockOutgoing action with the bypass
    flag, i.e. blocking is never bypassable in this run *)
Definition no_bypass_block (H : list hrec) : Prop := forall r a, In r H -> In a (h_acts r) -> nobyp a.

Lemma loop_incl : forall cc sc tp args fuel st now hist iters H,
  sim_loop_h fuel cc sc tp args st now hist iters = Ok H -> forall r, In r hist -> In r H.
Proof.
  intros cc sc tp args. induction fuel as [|fuel IH]; intros st now hist iters H Hrun r Hr; [discriminate Hrun|].
  cbn [sim_loop_h] in Hrun.
  destruct (pick_next (pn_fuel st) st now) as [[nx st1]|k|] eqn:Ep; cbn [bind] in Hrun; try discriminate.
  destruct nx as [next|]; [|injection Hrun as <-; apply in_rev in Hr; exact Hr].
  destruct (se_time next <? now)%Z; [discriminate|].
  destruct (sim_network_stack next (m_sq st1) _ (m_net st1) (se_time next)) as [[[sq2 net2] act]|k|] eqn:En;
    cbn [bind] in Hrun; try discriminate.
  match type of Hrun with bind ?u _ = _ => destruct u as [[[[c3 s3] sq3] pos3]|k|] end;
    cbn [bind] in Hrun; try discriminate.
  assert (Hr' : In r (mkhrec next (acts_for cc sc tp st1 next) :: hist)) by (right; exact Hr).
  destruct (_ && _) in Hrun; [injection Hrun as <-; apply in_rev in Hr'; exact Hr'|].
  destruct (_ && _) in Hrun; [injection Hrun as <-; apply in_rev in Hr'; exact Hr'|].
  destruct (_ && _) in Hrun; [injection Hrun as <-; apply in_rev in Hr'; exact Hr'|].
  eapply IH; [exact Hrun|exact Hr'].
Qed.

Lemma loop_live : forall cc sc tp args fuel st now hist iters H,
  LI (rev hist) now st -> GoodA (rev hist) -> RecBE (rev hist) ->
  sim_loop_h fuel cc sc tp args st now hist iters = Ok H -> no_bypass_block H -> GoodA H /\ RecBE H.
Proof.
  intros cc sc tp args. induction fuel as [|fuel IH]; intros st now hist iters H HLI HG HR Hrun Hnbb;
    [discriminate Hrun|].
  cbn [sim_loop_h] in Hrun.
  destruct (pick_next (pn_fuel st) st now) as [[nx st1]|k|] eqn:Ep; cbn [bind] in Hrun; try discriminate.
  destruct nx as [next|]; [|injection Hrun as <-; split; assumption].
  destruct (se_time next <? now)%Z; [discriminate|].
  destruct (sim_network_stack next (m_sq st1) _ (m_net st1) (se_time next)) as [[[sq2 net2] act]|k|] eqn:En;
    cbn [bind] in Hrun; try discriminate.
  set (r := mkhrec next (acts_for cc sc tp st1 next)) in *.
  assert (Hstep : exists sd' sq3 pos3 st3,
            trigger_update (if se_client next then cc else sc) tp (side_of st1 (se_client next)) (m_pos st1)
                           next (se_time next) sq2 (se_client next) = Ok (sd', sq3, pos3) /\
            m_sq st3 = sq3 /\ side_of st3 (se_client next) = sd' /\
            side_of st3 (negb (se_client next)) = side_of st1 (negb (se_client next)) /\
            (let hist' := r :: hist in
             (if (0 <? a_max_trace args) && (a_max_trace args <=? N.of_nat (length hist')) then Ok (rev hist')
              else
                let iters' := iters + 1 in
                if (0 <? a_max_iter args) && (a_max_iter args <=? iters') then Ok (rev hist')
                else if negb (a_continue args) && sq_no_normal sq3 then Ok (rev hist')
                else sim_loop_h fuel cc sc tp args st3 (se_time next) hist' iters') = Ok H)).
  { destruct (se_client next) eqn:Ec.
    - destruct (trigger_update cc tp (m_c st1) (m_pos st1) next (se_time next) sq2 true)
        as [[[c' sq'] p']|k|] eqn:Et; cbn [bind] in Hrun; try discriminate.
      exists c', sq', p', (mksim sq' c' (m_s st1) net2 p'). cbn [side_of negb m_sq m_c m_s].
      split; [exact Et|]. split; [reflexivity|]. split; [reflexivity|]. split; [reflexivity|exact Hrun].
    - destruct (trigger_update sc tp (m_s st1) (m_pos st1) next (se_time next) sq2 false)
        as [[[s' sq'] p']|k|] eqn:Et; cbn [bind] in Hrun; try discriminate.
      exists s', sq', p', (mksim sq' (m_c st1) s' net2 p'). cbn [side_of negb m_sq m_c m_s].
      split; [exact Et|]. split; [reflexivity|]. split; [reflexivity|]. split; [reflexivity|exact Hrun]. }
  clear Hrun. destruct Hstep as (sd' & sq3 & pos3 & st3 & Htu & E3q & E3x & E3o & Hrun). cbv zeta in Hrun.
  destruct (step_hist (rev hist) _ _ _ _ _ (acts_for cc sc tp st1 next) HLI Ep) as [SG SR].
  specialize (SG HG). specialize (SR HR).
  change (rev hist ++ [mkhrec next (acts_for cc sc tp st1 next)]) with (rev (r :: hist)) in SG, SR.
  destruct (_ && _) in Hrun; [injection Hrun as <-; split; assumption|].
  destruct (_ && _) in Hrun; [injection Hrun as <-; split; assumption|].
  destruct (_ && _) in Hrun; [injection Hrun as <-; split; assumption|].
  assert (HrH : In r H) by (eapply loop_incl; [exact Hrun|left; reflexivity]).
  eapply IH; [|exact SG|exact SR|exact Hrun|exact Hnbb].
  cbn [rev]. eapply step_LI; [exact HLI|exact Ep|exact En|exact Htu| |exact E3q|exact E3x|exact E3o].
  intros a Ha. exact (Hnbb r a HrH Ha).
Qed.

(** * 10. The initial state *)
Lemma init_LI : forall cc sc tp sq delay pps st0 t0,
  sim_init cc sc tp sq delay pps st0 t0 -> SB.sq_inv sq -> start_ok sq -> SI.sq_heaps sq ->
  LI [] t0 st0.
Proof.
  intros cc sc tp sq delay pps st0 t0 Hi Hinv Hs Hh.
  destruct (init_inv _ _ _ _ _ _ _ _ Hi Hinv Hs) as [HQ HS].
  destruct Hi as (cfw & sfw & net & _ & _ & _ & _ & ->).
  assert (Hnone : forall (l : list machine) mi (x : Z), nth_error (map (fun _ => @None Z) l) mi <> Some (Some x)).
  { intros l mi x C. apply nth_error_In in C. apply in_map_iff in C. destruct C as (y & Hy & _). discriminate Hy. }
  constructor; cbn [m_sq].
  - exact HQ.
  - exact HS.
  - exact Hh.
  - intros ic e m He. destruct Hs as [_ Hn]. apply (Hn ic e He m).
  - split; [reflexivity|]. split; [reflexivity|].
    intros ic mi a t C. exfalso. apply nth_error_In in C.
    destruct ic; cbn [side_of m_c m_s new_side s_sched] in C; apply in_map_iff in C;
      destruct C as (y & Hy & _); discriminate Hy.
  - intros ic m. cbn [trp fold_left]. unfold slotv.
    destruct (nth_error (s_timers (side_of _ ic)) (N.to_nat m)) as [[x|]|] eqn:E; try reflexivity.
    exfalso. destruct ic; cbn [side_of m_c m_s new_side s_timers] in E; exact (Hnone _ _ _ E).
  - intros ic mi t C. exfalso. destruct ic; cbn [side_of m_c m_s new_side s_timers] in C; exact (Hnone _ _ _ C).
  - intros j X m t (rj & _ & _ & Hn & _). destruct j; discriminate Hn.
Qed.

Theorem run_live : forall fuel cc sc tp args st0 t0 H sq delay pps,
  sim_init cc sc tp sq delay pps st0 t0 -> SB.sq_inv sq -> start_ok sq -> SI.sq_heaps sq ->
  sim_loop_h fuel cc sc tp args st0 t0 [] 0 = Ok H -> no_bypass_block H -> GoodA H /\ RecBE H.
Proof.
  intros fuel cc sc tp args st0 t0 H sq delay pps Hi Hinv Hs Hh Hrun Hnbb.
  eapply loop_live; [| | |exact Hrun|exact Hnbb]; cbn [rev].
  - eapply init_LI; eauto.
  - intros j X m t k' rk' _ _ Hn. destruct k'; discriminate Hn.
  - intros i ri Hn. destruct i; discriminate Hn.
Qed.

(** * 11. From the per-record statements to the statements of the property *)
Lemma te_dec : forall ev m, {ev = TETimerEnd m} + {ev <> TETimerEnd m}.
Proof.
  intros ev m. destruct ev; try (right; discriminate).
  destruct (N.eq_dec m0 m) as [->|Hne]; [left; reflexivity|right; congruence].
Qed.

Lemma existsb_false : forall {A} (f : A -> bool) l, existsb f l = false -> forall x, In x l -> f x = false.
Proof.
  intros A f l H x Hx. destruct (f x) eqn:E; [|reflexivity].
  assert (C : existsb f l = true) by (apply existsb_exists; eauto). congruence.
Qed.

(** a record that neither reports the TimerEnd of [m] nor carries a timer action for [m] leaves the
    running timer alone *)
Lemma trec_step_keep : forall X m e r,
  (se_client (h_ev r) = X ->
   se_ev (h_ev r) <> TETimerEnd m /\ forall a, In a (h_acts r) -> is_timer_for m a = false) ->
  trec_step X m (Some e) r = Some e.
Proof.
  intros X m e r H. unfold trec_step. destruct (Bool.eqb (se_client (h_ev r)) X) eqn:E; [|reflexivity].
  apply Bool.eqb_prop in E. destruct (H E) as [Hne Hun]. rewrite timer_after_untouched by exact Hun.
  destruct (se_ev (h_ev r)); try reflexivity.
  destruct (N.eqb_spec m0 m) as [->|_]; [exfalso; apply Hne; reflexivity|reflexivity].
Qed.

Definition is_upd (m : N) (a : taction) : bool :=
  match a with TUpdateTimer m' _ _ => m' =? m | _ => false end.

Lemma is_upd_true : forall m a, is_upd m a = true -> exists dur rp, a = TUpdateTimer m dur rp.
Proof.
  intros m a H. destruct a; try discriminate H. cbn [is_upd] in H. apply N.eqb_eq in H. subst. eauto.
Qed.

(** a timer that is not running (or whose TimerEnd this record reports) stays off unless the record
    carries an UpdateTimer for it *)
Lemma trec_step_none : forall X m r cur,
  cur = None \/ (se_client (h_ev r) = X /\ se_ev (h_ev r) = TETimerEnd m) ->
  (se_client (h_ev r) = X -> forall dur rp, ~ In (TUpdateTimer m dur rp) (h_acts r)) ->
  trec_step X m cur r = None.
Proof.
  intros X m r cur H Hno. unfold trec_step. destruct (Bool.eqb (se_client (h_ev r)) X) eqn:E.
  - apply Bool.eqb_prop in E.
    assert (Hmid : match se_ev (h_ev r) with
                   | TETimerEnd m' => if m' =? m then None else cur
                   | _ => cur
                   end = None).
    { destruct H as [->|[_ ->]]; [|rewrite N.eqb_refl; reflexivity].
      destruct (se_ev (h_ev r)); try reflexivity. destruct (_ =? _); reflexivity. }
    rewrite Hmid. apply timer_after_none. apply Hno. exact E.
  - destruct H as [->|[C _]]; [reflexivity|]. rewrite C, Bool.eqb_reflx in E. discriminate E.
Qed.

(** (b) *)
Lemma live_end : forall H, RecBE H ->
  forall j m e k' rk' X,
    (j <= length H)%nat -> treplay X m H j = Some e ->
    (j <= k')%nat -> nth_error H k' = Some rk' -> (e < se_time (h_ev rk'))%Z ->
    (exists k rk, (j <= k < k')%nat /\ nth_error H k = Some rk /\ se_ev (h_ev rk) = TETimerEnd m /\
                  se_client (h_ev rk) = X /\ se_time (h_ev rk) = e) \/
    (exists j' rj' a', (j <= j' < k')%nat /\ nth_error H j' = Some rj' /\ se_client (h_ev rj') = X /\
                  In a' (h_acts rj') /\ is_timer_for m a' = true /\ (se_time (h_ev rj') <= e)%Z).
Proof.
  intros H HR j m e k' rk' X _ Hj Hjk Hk' Hlt.
  assert (Hind : forall d i, i = (j + d)%nat -> (i <= k')%nat ->
            (exists k rk, (j <= k < i)%nat /\ nth_error H k = Some rk /\ se_ev (h_ev rk) = TETimerEnd m /\
                          se_client (h_ev rk) = X /\ se_time (h_ev rk) = e) \/
            (exists j' rj' a', (j <= j' < i)%nat /\ nth_error H j' = Some rj' /\ se_client (h_ev rj') = X /\
                          In a' (h_acts rj') /\ is_timer_for m a' = true /\ (se_time (h_ev rj') <= e)%Z) \/
            treplay X m H i = Some e).
  { induction d as [|d IH]; intros i Hi Hik.
    - right. right. replace i with j by lia. exact Hj.
    - destruct (IH (j + d)%nat eq_refl ltac:(lia)) as [(k & rk & Hk & Hrest)|[(j' & rj' & a' & Hj' & Hrest)|Hcur]].
      + left. exists k, rk. split; [lia|exact Hrest].
      + right. left. exists j', rj', a'. split; [lia|exact Hrest].
      + subst i. replace (j + S d)%nat with (S (j + d)) by lia.
        assert (Hlen : (j + d < length H)%nat) by (apply nth_lt in Hk'; lia).
        destruct (nth_error H (j + d)) as [ri|] eqn:Eri; [|apply nth_error_None in Eri; lia].
        rewrite (treplay_S _ _ _ _ _ Eri), Hcur.
        destruct (HR _ _ Eri) as [RB RE].
        destruct (bool_dec (se_client (h_ev ri)) X) as [Ec|Ec].
        * destruct (te_dec (se_ev (h_ev ri)) m) as [Ete|Ete].
          -- left. exists (j + d)%nat, ri. split; [lia|]. split; [exact Eri|]. split; [exact Ete|].
             split; [exact Ec|]. pose proof (RE m Ete) as Hre. rewrite Ec, Hcur in Hre. congruence.
          -- destruct (existsb (is_timer_for m) (h_acts ri)) eqn:Eex.
             ++ apply existsb_exists in Eex. destruct Eex as (a' & Ha' & Hf).
                right. left. exists (j + d)%nat, ri, a'. split; [lia|]. split; [exact Eri|].
                split; [exact Ec|]. split; [exact Ha'|]. split; [exact Hf|]. eapply RB; exact Hcur.
             ++ right. right. apply trec_step_keep. intros _. split; [exact Ete|].
                apply existsb_false. exact Eex.
        * right. right. apply trec_step_keep. intros C. contradiction. }
  destruct (Hind (k' - j)%nat k' ltac:(lia) ltac:(lia)) as [Hw|[Hw|Hcur]]; [left; exact Hw|right; exact Hw|].
  exfalso. destruct (HR _ _ Hk') as [RB _]. specialize (RB _ _ _ Hcur). lia.
Qed.

(** (c) *)
Lemma live_once : forall H, RecBE H ->
  forall k1 k2 r1 r2 m, (k1 < k2)%nat -> nth_error H k1 = Some r1 -> nth_error H k2 = Some r2 ->
    se_ev (h_ev r1) = TETimerEnd m -> se_ev (h_ev r2) = TETimerEnd m ->
    se_client (h_ev r1) = se_client (h_ev r2) ->
    exists j rj dur rp, (k1 <= j < k2)%nat /\ nth_error H j = Some rj /\
      se_client (h_ev rj) = se_client (h_ev r1) /\ In (TUpdateTimer m dur rp) (h_acts rj).
Proof.
  intros H HR k1 k2 r1 r2 m Hlt H1 H2 E1 E2 Ecl.
  set (X := se_client (h_ev r1)) in *.
  assert (Hstep : forall i ri cur, nth_error H i = Some ri ->
            cur = None \/ (se_client (h_ev ri) = X /\ se_ev (h_ev ri) = TETimerEnd m) ->
            (exists dur rp, se_client (h_ev ri) = X /\ In (TUpdateTimer m dur rp) (h_acts ri)) \/
            trec_step X m cur ri = None).
  { intros i ri cur Hn Hc.
    destruct (bool_dec (se_client (h_ev ri)) X) as [Ec|Ec].
    - destruct (existsb (is_upd m) (h_acts ri)) eqn:Eex.
      + apply existsb_exists in Eex. destruct Eex as (a & Ha & Hu).
        apply is_upd_true in Hu. destruct Hu as (dur & rp & ->). left. eauto.
      + right. apply trec_step_none; [exact Hc|]. intros _ dur rp Hin.
        pose proof (existsb_false _ _ Eex _ Hin) as C. cbn [is_upd] in C. rewrite N.eqb_refl in C. discriminate C.
    - right. apply trec_step_none; [exact Hc|]. intros C. contradiction. }
  assert (Hind : forall d i, i = (S k1 + d)%nat -> (i <= k2)%nat ->
            (exists j rj dur rp, (k1 <= j < i)%nat /\ nth_error H j = Some rj /\
               se_client (h_ev rj) = X /\ In (TUpdateTimer m dur rp) (h_acts rj)) \/
            treplay X m H i = None).
  { induction d as [|d IH]; intros i Hi Hik.
    - subst i. replace (S k1 + 0)%nat with (S k1) by lia. rewrite (treplay_S _ _ _ _ _ H1).
      destruct (Hstep k1 r1 (treplay X m H k1) H1 (or_intror (conj eq_refl E1))) as [(dur & rp & Hc & Hin)|Hn].
      + left. exists k1, r1, dur, rp. split; [lia|]. auto.
      + right. exact Hn.
    - destruct (IH (S k1 + d)%nat eq_refl ltac:(lia)) as [(j & rj & dur & rp & Hj & Hrest)|Hcur].
      + left. exists j, rj, dur, rp. split; [lia|exact Hrest].
      + subst i. replace (S k1 + S d)%nat with (S (S k1 + d)) by lia.
        assert (Hlen : (S k1 + d < length H)%nat) by (apply nth_lt in H2; lia).
        destruct (nth_error H (S k1 + d)) as [ri|] eqn:Eri; [|apply nth_error_None in Eri; lia].
        rewrite (treplay_S _ _ _ _ _ Eri), Hcur.
        destruct (Hstep _ ri None Eri (or_introl eq_refl)) as [(dur & rp & Hc & Hin)|Hn].
        * left. exists (S k1 + d)%nat, ri, dur, rp. split; [lia|]. auto.
        * right. exact Hn. }
  destruct (Hind (k2 - S k1)%nat k2 ltac:(lia) ltac:(lia)) as [Hw|Hnone]; [exact Hw|].
  exfalso. destruct (HR _ _ H2) as [_ RE]. specialize (RE m E2). rewrite <- Ecl in RE. fold X in RE. congruence.
Qed.

(** * 12. C18, the converse direction, for whole runs *)
(** The requested statements, with the named extra hypothesis [no_bypass_block H] (without it they are
    false for states in which a side's blocking is bypassable: see section 13), and with the index range
    of (c) adapted to what is true: the re-arming UpdateTimer may be returned for the first TimerEnd event
    itself (a machine that moves on TimerEnd), so [k1 <= j < k2].

    (a) whenever an UpdateTimer sets or changes the timer (replace, or no timer running, or a later
        expiry, judged by the replay of the history), a TimerBegin for that machine is reported on that
        side at that instant, before simulated time moves on;
    (b) if the replay says the timer of m runs with expiry e, then before simulated time moves past e a
        TimerEnd for m is reported exactly at e, unless a timer action for m (UpdateTimer or Cancel of the
        internal timer) was returned first, at e or earlier;
    (c) at most once: between two TimerEnd of m on a side an UpdateTimer for m was returned on that side. *)
Definition live_statements (H : list hrec) : Prop :=
  (forall j rj m dur rp k' rk',
     nth_error H j = Some rj -> In (TUpdateTimer m dur rp) (h_acts rj) ->
     let X := se_client (h_ev rj) in let t := se_time (h_ev rj) in
     (rp = true \/ treplay X m H j = None \/ (exists u, treplay X m H j = Some u /\ (u < t + Z.of_N dur)%Z)) ->
     (j < k')%nat -> nth_error H k' = Some rk' -> (t < se_time (h_ev rk'))%Z ->
     exists k rk, (j < k < k')%nat /\ nth_error H k = Some rk /\ se_ev (h_ev rk) = TETimerBegin m /\
                  se_client (h_ev rk) = X /\ se_time (h_ev rk) = t) /\
  (forall j m e k' rk' X,
     (j <= length H)%nat -> treplay X m H j = Some e ->
     (j <= k')%nat -> nth_error H k' = Some rk' -> (e < se_time (h_ev rk'))%Z ->
     (exists k rk, (j <= k < k')%nat /\ nth_error H k = Some rk /\ se_ev (h_ev rk) = TETimerEnd m /\
                   se_client (h_ev rk) = X /\ se_time (h_ev rk) = e) \/
     (exists j' rj' a', (j <= j' < k')%nat /\ nth_error H j' = Some rj' /\ se_client (h_ev rj') = X /\
                   In a' (h_acts rj') /\ is_timer_for m a' = true /\ (se_time (h_ev rj') <= e)%Z)) /\
  (forall k1 k2 r1 r2 m, (k1 < k2)%nat -> nth_error H k1 = Some r1 -> nth_error H k2 = Some r2 ->
     se_ev (h_ev r1) = TETimerEnd m -> se_ev (h_ev r2) = TETimerEnd m ->
     se_client (h_ev r1) = se_client (h_ev r2) ->
     exists j rj dur rp, (k1 <= j < k2)%nat /\ nth_error H j = Some rj /\
                         se_client (h_ev rj) = se_client (h_ev r1) /\
                         In (TUpdateTimer m dur rp) (h_acts rj)).

(** (a) in a stronger form: the timer is judged after the event of record j itself has been taken into
    account ([after_event]: when record j reports the TimerEnd of m, no timer is running any more). This
    covers an UpdateTimer returned for the TimerEnd of the same machine with duration 0 and no replace
    (the zero-duration corner: expiry = the instant itself), which (a) above does not claim. *)
Definition live_begin_strong (H : list hrec) : Prop :=
  forall j rj m dur rp k' rk',
    nth_error H j = Some rj -> In (TUpdateTimer m dur rp) (h_acts rj) ->
    let X := se_client (h_ev rj) in let t := se_time (h_ev rj) in
    let cur := after_event (se_ev (h_ev rj)) m (treplay X m H j) in
    (rp = true \/ cur = None \/ (exists u, cur = Some u /\ (u < t + Z.of_N dur)%Z)) ->
    (j < k')%nat -> nth_error H k' = Some rk' -> (t < se_time (h_ev rk'))%Z ->
    exists k rk, (j < k < k')%nat /\ nth_error H k = Some rk /\ se_ev (h_ev rk) = TETimerBegin m /\
                 se_client (h_ev rk) = X /\ se_time (h_ev rk) = t.

Lemma live_begin_strong_of : forall H, GoodA H -> live_begin_strong H.
Proof.
  intros H HG j rj m dur rp k' rk' Hn Hin X t cur Hc Hlt Hk' Ht.
  assert (Ho : owed H j X m t) by (exists rj, dur, rp; auto 6).
  destruct (HG _ _ _ _ _ _ Ho Hlt Hk' Ht) as (k & Hk & rk & Hrest). exists k, rk. auto.
Qed.

Lemma live_statements_of : forall H, GoodA H -> RecBE H -> live_statements H /\ live_begin_strong H.
Proof.
  intros H HG HR. split; [|apply live_begin_strong_of; exact HG]. split; [|split].
  - intros j rj m dur rp k' rk' Hn Hin X t Hc Hlt Hk' Ht.
    apply (live_begin_strong_of H HG j rj m dur rp k' rk' Hn Hin); try assumption.
    apply sets_cond_after. exact Hc.
  - apply live_end. exact HR.
  - apply live_once. exact HR.
Qed.

Theorem timers_live_partial : forall fuel cc sc tp tr delay pps args out,
  full_args args ->
  sim_advanced fuel cc sc tp (parse_trace tr delay) delay pps args = Ok out ->
  exists H : list hrec, out = map h_ev H /\
    (no_bypass_block H -> live_statements H /\ live_begin_strong H).
Proof.
  intros fuel cc sc tp tr delay pps args out Hf Hrun.
  destruct (sim_advanced_history _ _ _ _ _ _ _ _ _ Hf Hrun) as (st0 & t0 & H & Hi & Hl & ->).
  exists H. split; [reflexivity|]. intros Hnbb.
  destruct (run_live fuel cc sc tp args st0 t0 H _ delay pps Hi (SB.parse_trace_inv tr delay)
              (parse_trace_start tr delay) (proj2 (SI.parse_trace_events tr delay)) Hl Hnbb) as [HG HR].
  apply live_statements_of; assumption.
Qed.

(** ** the same with a hypothesis on the two configurations only: no state of any machine carries a
    BlockOutgoing action with the bypass flag *)

Definition cfg_no_bypass_block (c : cfg) : Prop :=
  forall m st b r t d l, In m (machines c) -> In st (states m) ->
    saction st = Some (BlockOutgoing b r t d l) -> b = false.

Lemma acts_for_nobyp : forall cc sc tp st1 next a,
  cfg_no_bypass_block cc -> cfg_no_bypass_block sc -> In a (acts_for cc sc tp st1 next) -> nobyp a.
Proof.
  intros cc sc tp st1 next a Hc Hs Ha. unfold acts_for in Ha.
  set (cf := if se_client next then cc else sc) in *.
  assert (Hcf : cfg_no_bypass_block cf) by (subst cf; destruct (se_client next); assumption).
  destruct (trigger_events cf tp _ [se_ev next] (se_time next)) as [[fw acts]|k|] eqn:E; try contradiction.
  destruct (FrameworkSlots.output_contract _ _ _ _ _ _ _ E) as (_ & _ & Hall).
  destruct (Hall a Ha) as (_ & _ & Hok). cbn [FrameworkStructure.sched_ok] in Hok.
  destruct Hok as (_ & _ & m & st & Hm & Hst & Hshape).
  destruct a as [m0 tm|m0 tmo by_ rp|m0 tmo dur by_ rp|m0 dur rp]; cbn [nobyp]; try exact I.
  destruct by_; [|exact I].
  unfold FrameworkStructure.action_shape in Hshape.
  destruct (saction st) as [[t0|b r t0 l|b r t0 d l|r d l]|] eqn:Esa; try contradiction.
  destruct Hshape as [Hb _]. apply nth_error_In in Hm.
  pose proof (Hcf m st b r t0 d l Hm Hst Esa). congruence.
Qed.

Lemma loop_all : forall (P : hrec -> Prop) cc sc tp args,
  (forall st1 next, P (mkhrec next (acts_for cc sc tp st1 next))) ->
  forall fuel st now hist iters H,
  sim_loop_h fuel cc sc tp args st now hist iters = Ok H -> (forall r, In r hist -> P r) ->
  forall r, In r H -> P r.
Proof.
  intros P cc sc tp args HP. induction fuel as [|fuel IH]; intros st now hist iters H Hrun Hh; [discriminate Hrun|].
  cbn [sim_loop_h] in Hrun.
  destruct (pick_next (pn_fuel st) st now) as [[nx st1]|k|] eqn:Ep; cbn [bind] in Hrun; try discriminate.
  destruct nx as [next|]; [|injection Hrun as <-; intros r Hr; rewrite <- in_rev in Hr; auto].
  destruct (se_time next <? now)%Z; [discriminate|].
  destruct (sim_network_stack next (m_sq st1) _ (m_net st1) (se_time next)) as [[[sq2 net2] act]|k|] eqn:En;
    cbn [bind] in Hrun; try discriminate.
  match type of Hrun with bind ?u _ = _ => destruct u as [[[[c3 s3] sq3] pos3]|k|] end;
    cbn [bind] in Hrun; try discriminate.
  assert (Hh' : forall r, In r (mkhrec next (acts_for cc sc tp st1 next) :: hist) -> P r).
  { intros r [<-|Hr]; [apply HP|apply Hh; exact Hr]. }
  assert (Hfin : forall r, In r (rev (mkhrec next (acts_for cc sc tp st1 next) :: hist)) -> P r).
  { intros r Hr. rewrite <- in_rev in Hr. auto. }
  destruct (_ && _) in Hrun; [injection Hrun as <-; exact Hfin|].
  destruct (_ && _) in Hrun; [injection Hrun as <-; exact Hfin|].
  destruct (_ && _) in Hrun; [injection Hrun as <-; exact Hfin|].
  eapply IH; [exact Hrun|exact Hh'].
Qed.

Theorem timers_live : forall fuel cc sc tp tr delay pps args out,
  cfg_no_bypass_block cc -> cfg_no_bypass_block sc ->
  full_args args ->
  sim_advanced fuel cc sc tp (parse_trace tr delay) delay pps args = Ok out ->
  exists H : list hrec, out = map h_ev H /\ live_statements H /\ live_begin_strong H.
Proof.
  intros fuel cc sc tp tr delay pps args out Hc Hs Hf Hrun.
  destruct (sim_advanced_history _ _ _ _ _ _ _ _ _ Hf Hrun) as (st0 & t0 & H & Hi & Hl & ->).
  exists H. split; [reflexivity|].
  assert (Hnbb : no_bypass_block H).
  { intros r a Hr.
    assert (HP : forall st1 next a0, In a0 (h_acts (mkhrec next (acts_for cc sc tp st1 next))) -> nobyp a0).
    { intros st1 next a0 Ha. exact (acts_for_nobyp cc sc tp st1 next a0 Hc Hs Ha). }
    exact (loop_all (fun r => forall a, In a (h_acts r) -> nobyp a) cc sc tp args HP
                    fuel st0 t0 [] 0 H Hl (fun r0 (F : In r0 []) => match F with end) r Hr a). }
  destruct (run_live fuel cc sc tp args st0 t0 H _ delay pps Hi (SB.parse_trace_inv tr delay)
              (parse_trace_start tr delay) (proj2 (SI.parse_trace_events tr delay)) Hl Hnbb) as [HG HR].
  apply live_statements_of; assumption.
Qed.

(** * 13. COUNTEREXAMPLES: without [no_bypass_block] the statements are false, for real runs

    Mechanism (state level, [fire_not_prompt_counterexample]): the client's blocking is bypassable; its
    queues hold a blocked TunnelSent (time 1), a bypass-flagged padding TunnelSent (time 5) and a base
    NormalSent of raw time 4 that an aggregate delay of 3 makes due at 7. While a blocked packet heads the
    queue, [peek_queue] goes through [sq_peek_non_blocking], which compares the bypass packet with the
    base packet by their RAW keys (4 < 5) and then reports the base packet's delayed time 7: the due
    bypass packet is hidden. So the internal timer with expiry 6 fires first; once its TimerEnd (time 6)
    sits in the internal heap the same comparison picks the bypass packet (5 < 6), and [pick_next]
    returns that TunnelSent, re-timed to 6, BEFORE the TimerEnd, with the timer slot already cleared.
    An UpdateTimer returned for that TunnelSent is then applied to a cleared slot, and the TimerEnd
    reported afterwards is stale. *)
Definition lv_fw : fstate := mkfstate 0 0 [] [] 0 0 0 0 false None 0 0 [].
Definition lv_st : sim :=
  mksim (mksimq (mkevq [mksev TENormalSent 4 true false false false]
                       [mksev TETunnelSent 1 true false false false]
                       [mksev TETunnelSent 5 true true true false] [])
                evq_empty None)
        (mkside lv_fw [None] [Some 6%Z] (Some 20%Z) true) (mkside lv_fw [] [] None false)
        (mknetb 3 0 [] 0 [] [] 0 0) 0.

Lemma fire_not_prompt_counterexample :
  exists next st', pick_next 10 lv_st 2 = Ok (Some next, st') /\
    se_ev next = TETunnelSent /\ se_time next = 6%Z /\
    s_timers (m_c lv_st) = [Some 6%Z] /\ s_timers (m_c st') = [None] /\
    q_internal (sq_c (m_sq st')) = [mksev (TETimerEnd 0) 6 true false false false].
Proof. eexists _, _. split; [vm_compute; reflexivity|]. repeat split. Qed.

(** Whole runs. Client machines: 0 blocks (bypassable) from 10 us for 100 ms; 1 sends a non-bypass padding
    1 us after BlockingBegin (it stays blocked and heads the queue); 2 sends a bypass padding 3 ms after
    BlockingBegin; 3 runs the timer. The trace sends at 0, 1 us and 2 ms with a network limit of one
    packet per second, so the second packet creates an aggregate delay of 1 s and the third (raw time
    2 ms) is due at 1.002 s: it hides the bypass padding of 3.01 ms. Machine 3: UpdateTimer 5 ms on
    BlockingBegin (expiry 5.01 ms); the timer fires at 5.01 ms but the hidden padding's TunnelSent is
    reported first, and machine 3 answers it with UpdateTimer 4 ms (model: slot cleared, so set to
    9.01 ms; replay: 5.01 < 9.01, set to 9.01 ms); then the stale TimerEnd of 5.01 ms is reported (replay:
    timer off; model: running until 9.01 ms). *)
Definition lv_cd (bits : N) : dist := mkdist (Uniform bits bits) 0 0.
Definition lv_d1 := lv_cd 4607182418800017408.       (* 1.0 us *)
Definition lv_d2 := lv_cd 4611686018427387904.       (* 2.0 *)
Definition lv_d3 := lv_cd 4613937818241073152.       (* 3.0 *)
Definition lv_d5 := lv_cd 4617315517961601024.       (* 5.0 *)
Definition lv_d10 := lv_cd 4621819117588971520.      (* 10.0 *)
Definition lv_d1000 := lv_cd 4652007308841189376.    (* 1000.0 *)
Definition lv_d3000 := lv_cd 4658815484840378368.
Definition lv_d4000 := lv_cd 4661014508095930368.
Definition lv_d5000 := lv_cd 4662219572839972864.
Definition lv_d100000 := lv_cd 4681608360884174848.

Definition lv_on (ev : event) (target : N) : list (option (list trans)) :=
  map (fun i => if Nat.eqb i (event_idx ev) then Some [(target, 1065353216)] else None) (seq 0 13).
Definition lv_none13 : list (option (list trans)) := map (fun _ => None) (seq 0 13).
Definition lv_mach (sts : list state) : machine :=
  mkmachine 18446744073709551615 0 18446744073709551615 0 sts.
Definition lv_two (ev : event) (a : action) : machine :=
  lv_mach [mkstate None None None (lv_on ev 1); mkstate (Some a) None None lv_none13].

(** machine 3 goes on: SendPadding on the stale TimerEnd, and on its PaddingSent (6.01 ms) UpdateTimer
    1 ms without replace: the replay has no timer running (so the update sets it, expiry 7.01 ms, and a
    TimerBegin is owed), the model has one until 9.01 ms (so nothing is set and nothing reported) *)
Definition lvA_cfg : cfg :=
  mkcfg [lv_two NormalSent (BlockOutgoing true false lv_d10 lv_d100000 None);
         lv_two BlockingBegin (SendPadding false false lv_d1 None);
         lv_two BlockingBegin (SendPadding true false lv_d3000 None);
         lv_mach [mkstate None None None (lv_on BlockingBegin 1);
                  mkstate (Some (UpdateTimer false lv_d5000 None)) None None (lv_on TunnelSent 2);
                  mkstate (Some (UpdateTimer false lv_d4000 None)) None None (lv_on TimerEnd 3);
                  mkstate (Some (SendPadding false false lv_d1000 None)) None None (lv_on PaddingSent 4);
                  mkstate (Some (UpdateTimer false lv_d1000 None)) None None lv_none13]]
        4607182418800017408 4607182418800017408 stdclock.
(** machine 3 stops after the second update: two TimerEnd (5.01 ms, 9.01 ms) with no update between *)
Definition lvC_cfg : cfg :=
  mkcfg [lv_two NormalSent (BlockOutgoing true false lv_d10 lv_d100000 None);
         lv_two BlockingBegin (SendPadding false false lv_d1 None);
         lv_two BlockingBegin (SendPadding true false lv_d3000 None);
         lv_mach [mkstate None None None (lv_on BlockingBegin 1);
                  mkstate (Some (UpdateTimer false lv_d5000 None)) None None (lv_on TunnelSent 2);
                  mkstate (Some (UpdateTimer false lv_d4000 None)) None None lv_none13]]
        4607182418800017408 4607182418800017408 stdclock.
Definition lv_none : cfg := mkcfg [] 0 0 stdclock.
Definition lv_args : simargs := mksimargs 0 0 false false false.
Definition lv_tp : tape := fun _ => 0.
Definition lv_tr : list (Z * bool) := [(0, true); (1000, true); (2000000, true)]%Z.

(** the history of the instrumented loop from the initial state of [sim_advanced] *)
Definition hist_run (fuel : nat) (ccfg scfg : cfg) (tp : tape) (sq : simq) (delay : N) (pps : option N)
           (args : simargs) : outcome (list hrec) :=
  match sq_first_time sq with
  | None => Panic P_UNWRAP
  | Some t0 =>
      cfw <- fnew_at ccfg tp t0 0 ;;
      sfw <- fnew_at scfg tp t0 (Framework.pos cfw) ;;
      net <- netb_new delay pps (sq_pps sq) ;;
      sim_loop_h fuel ccfg scfg tp args
        (mksim sq (new_side ccfg cfw) (new_side scfg sfw) net (Framework.pos sfw)) t0 [] 0
  end.

Lemma hist_run_init : forall fuel cc sc tp sq delay pps args H,
  hist_run fuel cc sc tp sq delay pps args = Ok H ->
  exists st0 t0, sim_init cc sc tp sq delay pps st0 t0 /\ sim_loop_h fuel cc sc tp args st0 t0 [] 0 = Ok H.
Proof.
  intros fuel cc sc tp sq delay pps args H Hr. unfold hist_run in Hr.
  destruct (sq_first_time sq) as [t0|] eqn:E0; [|discriminate].
  mbind Hr as cfw E1. mbind Hr as sfw E2. mbind Hr as net E3.
  eexists _, t0. split; [|exact Hr]. exists cfw, sfw, net. auto.
Qed.

Definition lvA_H : list hrec :=
  Eval vm_compute in
    match hist_run 300 lvA_cfg lv_none lv_tp (parse_trace lv_tr 1000) 1000 (Some 1) lv_args with
    | Ok H => H | _ => [] end.
Definition lvC_H : list hrec :=
  Eval vm_compute in
    match hist_run 300 lvC_cfg lv_none lv_tp (parse_trace lv_tr 1000) 1000 (Some 1) lv_args with
    | Ok H => H | _ => [] end.

(** they are the histories of two runs of [sim_advanced] on a parsed trace that record all events *)
Lemma lvA_run :
  full_args lv_args /\
  sim_advanced 300 lvA_cfg lv_none lv_tp (parse_trace lv_tr 1000) 1000 (Some 1) lv_args = Ok (map h_ev lvA_H) /\
  exists st0 t0, sim_init lvA_cfg lv_none lv_tp (parse_trace lv_tr 1000) 1000 (Some 1) st0 t0 /\
                 sim_loop_h 300 lvA_cfg lv_none lv_tp lv_args st0 t0 [] 0 = Ok lvA_H.
Proof.
  split; [split; reflexivity|]. split; [vm_compute; reflexivity|].
  apply hist_run_init. vm_compute. reflexivity.
Qed.

Lemma lvC_run :
  full_args lv_args /\
  sim_advanced 300 lvC_cfg lv_none lv_tp (parse_trace lv_tr 1000) 1000 (Some 1) lv_args = Ok (map h_ev lvC_H) /\
  exists st0 t0, sim_init lvC_cfg lv_none lv_tp (parse_trace lv_tr 1000) 1000 (Some 1) st0 t0 /\
                 sim_loop_h 300 lvC_cfg lv_none lv_tp lv_args st0 t0 [] 0 = Ok lvC_H.
Proof.
  split; [split; reflexivity|]. split; [vm_compute; reflexivity|].
  apply hist_run_init. vm_compute. reflexivity.
Qed.

(** the hypothesis of the theorems fails for them: record 0 carries a bypassable BlockOutgoing *)
Lemma lvA_bypass : ~ no_bypass_block lvA_H.
Proof.
  intros Hn. refine (Hn _ (TBlockOutgoing 0 10000 100000000 true false) _ _).
  - vm_compute. left. reflexivity.
  - vm_compute. left. reflexivity.
Qed.

(** (a) fails: record 13 (PaddingSent of machine 3 at 6.01 ms) carries UpdateTimer 3 (1 ms, no replace)
    while the replay has no timer running, the next record (14) is later (9.01 ms), and no TimerBegin
    comes between *)
Lemma timers_live_a_counterexample :
  exists rj rk', nth_error lvA_H 13 = Some rj /\ In (TUpdateTimer 3 1000000 false) (h_acts rj) /\
    se_client (h_ev rj) = true /\ se_time (h_ev rj) = 6010000%Z /\
    treplay true 3 lvA_H 13 = None /\
    nth_error lvA_H 14 = Some rk' /\ se_time (h_ev rk') = 9010000%Z /\
    ~ exists k rk, (13 < k < 14)%nat /\ nth_error lvA_H k = Some rk /\ se_ev (h_ev rk) = TETimerBegin 3.
Proof.
  eexists _, _. split; [reflexivity|]. split; [vm_compute; left; reflexivity|].
  split; [reflexivity|]. split; [reflexivity|]. split; [vm_compute; reflexivity|].
  split; [reflexivity|]. split; [reflexivity|]. intros (k & rk & Hk & _). lia.
Qed.

(** (b) fails: after record 13 the replay has the timer of machine 3 running until 7.01 ms; record 14 is
    later (it is the TimerEnd of the model's timer, 9.01 ms) and nothing lies between *)
Lemma timers_live_b_counterexample :
  exists rk', treplay true 3 lvA_H 14 = Some 7010000%Z /\
    nth_error lvA_H 14 = Some rk' /\ se_ev (h_ev rk') = TETimerEnd 3 /\ se_time (h_ev rk') = 9010000%Z.
Proof. eexists. split; [vm_compute; reflexivity|]. split; [reflexivity|]. split; reflexivity. Qed.

Theorem timers_live_counterexample : ~ live_statements lvA_H.
Proof.
  intros (_ & B & _).
  destruct timers_live_b_counterexample as (rk' & Ht & Hn & _ & Htime).
  assert (Hlen : (14 <= length lvA_H)%nat) by (apply nth_lt in Hn; lia).
  destruct (B 14%nat 3 7010000%Z 14%nat rk' true Hlen Ht (le_n _) Hn ltac:(rewrite Htime; reflexivity))
    as [(k & rk & Hk & _)|(j' & rj' & a' & Hj' & _)]; lia.
Qed.

(** (c) fails: records 12 and 13 of the second run are TimerEnd of machine 3 on the client (5.01 ms and
    9.01 ms); record 12 carries no action *)
Lemma timers_live_c_counterexample :
  exists r1 r2, nth_error lvC_H 12 = Some r1 /\ nth_error lvC_H 13 = Some r2 /\
    se_ev (h_ev r1) = TETimerEnd 3 /\ se_ev (h_ev r2) = TETimerEnd 3 /\
    se_client (h_ev r1) = true /\ se_client (h_ev r2) = true /\
    se_time (h_ev r1) = 5010000%Z /\ se_time (h_ev r2) = 9010000%Z /\ h_acts r1 = [].
Proof. eexists _, _. repeat split. Qed.

Theorem timers_live_counterexample_c : ~ live_statements lvC_H.
Proof.
  intros (_ & _ & C).
  destruct timers_live_c_counterexample as (r1 & r2 & H1 & H2 & E1 & E2 & C1 & C2 & _ & _ & Hacts).
  destruct (C 12%nat 13%nat r1 r2 3 ltac:(lia) H1 H2 E1 E2 ltac:(congruence))
    as (j & rj & dur & rp & Hj & Hn & _ & Hin).
  assert (j = 12%nat) by lia. subst j. rewrite H1 in Hn. injection Hn as <-. rewrite Hacts in Hin. destruct Hin.
Qed.

(** * 14. Non-vacuity: a run (no blocking at all) in which a timer is set, its TimerBegin and TimerEnd
      are reported, the timer is re-armed on its own TimerEnd, and another timer is cancelled.
      Client machine 0: UpdateTimer 2 us on NormalSent, UpdateTimer 3 us on TimerEnd. Client machine 1:
      UpdateTimer 5 us on NormalSent, Cancel of the internal timer on TunnelSent. Trace: the client sends
      at 0 and at 50 us. *)
Definition lvP_cfg : cfg :=
  mkcfg [lv_mach [mkstate None None None (lv_on NormalSent 1);
                  mkstate (Some (UpdateTimer false lv_d2 None)) None None (lv_on TimerEnd 2);
                  mkstate (Some (UpdateTimer false lv_d3 None)) None None lv_none13];
         lv_mach [mkstate None None None (lv_on NormalSent 1);
                  mkstate (Some (UpdateTimer false lv_d5 None)) None None (lv_on TunnelSent 2);
                  mkstate (Some (Cancel TInternal)) None None lv_none13]]
        4607182418800017408 4607182418800017408 stdclock.
Definition lvP_tr : list (Z * bool) := [(0, true); (50000, true)]%Z.
Definition lvP_H : list hrec :=
  Eval vm_compute in
    match hist_run 100 lvP_cfg lv_none lv_tp (parse_trace lvP_tr 1000) 1000 None lv_args with
    | Ok H => H | _ => [] end.

Lemma lvP_run :
  sim_advanced 100 lvP_cfg lv_none lv_tp (parse_trace lvP_tr 1000) 1000 None lv_args = Ok (map h_ev lvP_H) /\
  exists st0 t0, sim_init lvP_cfg lv_none lv_tp (parse_trace lvP_tr 1000) 1000 None st0 t0 /\
                 sim_loop_h 100 lvP_cfg lv_none lv_tp lv_args st0 t0 [] 0 = Ok lvP_H.
Proof. split; [vm_compute; reflexivity|]. apply hist_run_init. vm_compute. reflexivity. Qed.

(** the hypotheses of [timers_live] hold for these configurations *)
Lemma lvP_cfg_ok : cfg_no_bypass_block lvP_cfg /\ cfg_no_bypass_block lv_none.
Proof.
  split; intros m st b r t d l Hm Hst Hsa; cbn in Hm; [|destruct Hm].
  destruct Hm as [<-|[<-|[]]]; cbn in Hst;
    repeat (destruct Hst as [<-|Hst]; [discriminate Hsa|]); destruct Hst.
Qed.

Lemma lvP_no_bypass : no_bypass_block lvP_H.
Proof.
  intros r a Hr Ha. vm_compute in Hr.
  repeat (destruct Hr as [<-|Hr];
          [vm_compute in Ha; repeat (destruct Ha as [<-|Ha]; [exact I|]); destruct Ha|]).
  destruct Hr.
Qed.

(** so the statements hold for this history *)
Example lvP_live : live_statements lvP_H /\ live_begin_strong lvP_H.
Proof.
  destruct lvP_run as (_ & st0 & t0 & Hi & Hl).
  destruct (run_live _ _ _ _ _ _ _ _ _ _ _ Hi (SB.parse_trace_inv lvP_tr 1000)
              (parse_trace_start lvP_tr 1000) (proj2 (SI.parse_trace_events lvP_tr 1000)) Hl lvP_no_bypass)
    as [HG HR].
  apply live_statements_of; assumption.
Qed.

(** the timer of machine 0 is set by record 0 (no timer running: the replay gives None before and
    Some 2000 after), its TimerBegin is record 2 (same instant 0) and its TimerEnd is record 6, at 2000 *)
Example lvP_set_begin_end :
  exists r0 r2 r6,
    nth_error lvP_H 0 = Some r0 /\ In (TUpdateTimer 0 2000 false) (h_acts r0) /\ se_time (h_ev r0) = 0%Z /\
    treplay true 0 lvP_H 0 = None /\ treplay true 0 lvP_H 1 = Some 2000%Z /\
    nth_error lvP_H 2 = Some r2 /\ h_ev r2 = mksev (TETimerBegin 0) 0 true false false false /\
    nth_error lvP_H 6 = Some r6 /\ h_ev r6 = mksev (TETimerEnd 0) 2000 true false false false /\
    treplay true 0 lvP_H 6 = Some 2000%Z.
Proof.
  eexists _, _, _. split; [reflexivity|]. split; [vm_compute; left; reflexivity|]. split; [reflexivity|].
  split; [vm_compute; reflexivity|]. split; [vm_compute; reflexivity|]. split; [reflexivity|].
  split; [reflexivity|]. split; [reflexivity|]. split; [reflexivity|]. vm_compute. reflexivity.
Qed.

(** record 6 (that TimerEnd) carries the re-arming UpdateTimer 0 (3 us): TimerBegin is record 7 and the
    second TimerEnd is record 8 at 5000; record 7 carries no action, so the UpdateTimer between the two
    TimerEnd (6 and 8) is the one of record 6 itself: the range of (c) is [k1 <= j < k2], not [k1 < j] *)
Example lvP_rearm :
  exists r6 r7 r8,
    nth_error lvP_H 6 = Some r6 /\ h_acts r6 = [TUpdateTimer 0 3000 false] /\
    nth_error lvP_H 7 = Some r7 /\ h_ev r7 = mksev (TETimerBegin 0) 2000 true false false false /\ h_acts r7 = [] /\
    nth_error lvP_H 8 = Some r8 /\ h_ev r8 = mksev (TETimerEnd 0) 5000 true false false false /\
    treplay true 0 lvP_H 7 = Some 5000%Z.
Proof.
  eexists _, _, _. split; [reflexivity|]. split; [reflexivity|]. split; [reflexivity|]. split; [reflexivity|].
  split; [reflexivity|]. split; [reflexivity|]. split; [reflexivity|]. vm_compute. reflexivity.
Qed.

(** the timer of machine 1 is set by record 0 (expiry 5000, TimerBegin is record 3) and cancelled by
    record 1 at instant 0: the replay gives Some 5000 then None; simulated time passes 5000 (record 9 is
    at 50000) and no TimerEnd of machine 1 is ever reported *)
Example lvP_cancelled :
  exists r1 r3 r9,
    treplay true 1 lvP_H 1 = Some 5000%Z /\
    nth_error lvP_H 1 = Some r1 /\ In (TCancel 1 TInternal) (h_acts r1) /\ se_time (h_ev r1) = 0%Z /\
    se_client (h_ev r1) = true /\ treplay true 1 lvP_H 2 = None /\
    nth_error lvP_H 3 = Some r3 /\ h_ev r3 = mksev (TETimerBegin 1) 0 true false false false /\
    nth_error lvP_H 9 = Some r9 /\ se_time (h_ev r9) = 50000%Z /\
    forallb (fun r => match se_ev (h_ev r) with TETimerEnd 1 => false | _ => true end) lvP_H = true.
Proof.
  eexists _, _, _. split; [vm_compute; reflexivity|]. split; [reflexivity|].
  split; [vm_compute; left; reflexivity|]. split; [reflexivity|]. split; [reflexivity|].
  split; [vm_compute; reflexivity|]. split; [reflexivity|]. split; [reflexivity|]. split; [reflexivity|].
  split; [reflexivity|]. vm_compute. reflexivity.
Qed.

(** the zero-duration corner (finding F7, fixed in the code): UpdateTimer{duration 0} with no timer
    running sets the expiry to the instant itself; TimerBegin and TimerEnd are both reported in that
    instant (records 2 and 3, time 0). The machine answers that TimerEnd with another UpdateTimer{0, no
    replace}: before record 3 the replay still has the timer (expiry 0, not earlier than 0 + 0), so (a)
    does not claim a TimerBegin, [live_begin_strong] does (after the TimerEnd of record 3 no timer is
    running), and it is reported (record 4), followed by the second TimerEnd (record 5), all at time 0. *)
Definition lvZ_cfg : cfg :=
  mkcfg [lv_mach [mkstate None None None (lv_on NormalSent 1);
                  mkstate (Some (UpdateTimer false (lv_cd 0) None)) None None (lv_on TimerEnd 2);
                  mkstate (Some (UpdateTimer false (lv_cd 0) None)) None None lv_none13]]
        4607182418800017408 4607182418800017408 stdclock.
Definition lvZ_H : list hrec :=
  Eval vm_compute in
    match hist_run 100 lvZ_cfg lv_none lv_tp (parse_trace lvP_tr 1000) 1000 None lv_args with
    | Ok H => H | _ => [] end.

Example lvZ_zero_duration :
  sim_advanced 100 lvZ_cfg lv_none lv_tp (parse_trace lvP_tr 1000) 1000 None lv_args = Ok (map h_ev lvZ_H) /\
  map (fun r => (se_ev (h_ev r), se_time (h_ev r), h_acts r)) (firstn 6 lvZ_H) =
    [(TENormalSent, 0%Z, [TUpdateTimer 0 0 false]); (TETunnelSent, 0%Z, []);
     (TETimerBegin 0, 0%Z, []); (TETimerEnd 0, 0%Z, [TUpdateTimer 0 0 false]);
     (TETimerBegin 0, 0%Z, []); (TETimerEnd 0, 0%Z, [])] /\
  treplay true 0 lvZ_H 0 = None /\ treplay true 0 lvZ_H 1 = Some 0%Z /\
  treplay true 0 lvZ_H 3 = Some 0%Z /\ after_event (TETimerEnd 0) 0 (treplay true 0 lvZ_H 3) = None /\
  treplay true 0 lvZ_H 4 = Some 0%Z /\ treplay true 0 lvZ_H 6 = None.
Proof. split; [vm_compute; reflexivity|]. repeat split; vm_compute; reflexivity. Qed.

Print Assumptions timers_live_partial.
Print Assumptions timers_live.
Print Assumptions timers_live_counterexample.
