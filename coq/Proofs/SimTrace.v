(** Step-level contracts lifted to every event of the returned trace: each
    event was returned by [pick_next] in an iteration reachable from the
    initial state, and the queue invariants hold in every reachable state. *)
From Coq Require Import List Arith Lia Permutation ZArith.
From MB Require Import Base.Prelude Model.Framework Model.Sim Proofs.Tactics.
From MB Require Import Proofs.SimBasics Proofs.SimReach.
From MB Require Proofs.SimBlocking Proofs.SimTimers.
Import ListNotations.
Open Scope N_scope.

Lemma iter_sq_inv : forall cc sc tp st nowt next st1 st3,
  SimBlocking.sq_inv (m_sq st) -> iter cc sc tp st nowt next st1 st3 -> SimBlocking.sq_inv (m_sq st3).
Proof.
  intros cc sc tp st nowt next st1 st3 H (Hp & sq2 & net2 & act & sq3 & pos3 & Hn & Hu).
  pose proof (SimBlocking.pick_next_inv _ _ _ _ _ H Hp) as H1.
  pose proof (SimBlocking.network_stack_inv _ _ _ _ _ _ _ _ H1 Hn) as H2.
  destruct Hu as [(_ & c' & Ht & ->)|(_ & s' & Ht & ->)]; cbn [m_sq];
    eapply SimBlocking.trigger_update_inv; eauto.
Qed.

Lemma iter_sq_wf : forall cc sc tp st nowt next st1 st3,
  SimTimers.sq_wf (m_sq st) -> iter cc sc tp st nowt next st1 st3 -> SimTimers.sq_wf (m_sq st3).
Proof.
  intros cc sc tp st nowt next st1 st3 H (Hp & sq2 & net2 & act & sq3 & pos3 & Hn & Hu).
  pose proof (SimTimers.pick_next_wf _ _ _ _ _ H Hp) as H1.
  pose proof (SimTimers.sim_network_stack_wf _ _ _ _ _ _ _ _ H1 Hn) as H2.
  destruct Hu as [(_ & c' & Ht & ->)|(_ & s' & Ht & ->)]; cbn [m_sq];
    eapply SimTimers.trigger_update_wf; eauto.
Qed.

(** the routing invariant of SimBlocking implies the side-consistency of SimTimers *)
Lemma sq_inv_wf : forall sq, SimBlocking.sq_inv sq -> SimTimers.sq_wf sq.
Proof.
  intros sq [[Hc Hs] _]. split; intros which e He.
  - destruct Hc as (H1 & H2 & H3 & H4). destruct which; cbn in He;
      [apply H2 in He|apply H3 in He|apply H4 in He|apply H1 in He]; tauto.
  - destruct Hs as (H1 & H2 & H3 & H4). destruct which; cbn in He;
      [apply H2 in He|apply H3 in He|apply H4 in He|apply H1 in He]; tauto.
Qed.

Section Trace.
  Variables (cc sc : cfg) (tp : tape).
  Variables (fuel : nat) (sq : simq) (delay : N) (pps : option N) (args : simargs) (out : list sev).
  Hypothesis Hinv : SimBlocking.sq_inv sq.
  Hypothesis Hrun : sim_advanced fuel cc sc tp sq delay pps args = Ok out.

  (** every event of the trace, with the reachable iteration that returned it *)
  Lemma trace_iter : forall e, In e out ->
    exists st0 t0 st nowt st1 st3,
      sim_init cc sc tp sq delay pps st0 t0 /\ reach cc sc tp st0 t0 st nowt /\
      iter cc sc tp st nowt e st1 st3 /\ SimBlocking.sq_inv (m_sq st).
  Proof.
    intros e He. destruct (sim_advanced_origin _ _ _ _ _ _ _ _ _ Hrun) as (st0 & t0 & Hi & Ho).
    destruct (Ho e He) as (st & nowt & st1 & st3 & Hr & Hit).
    exists st0, t0, st, nowt, st1, st3. repeat (split; [assumption|]).
    apply (reach_inv cc sc tp (fun s => SimBlocking.sq_inv (m_sq s)) st0 t0) with (nowt := nowt); [|  |exact Hr].
    - intros; eapply iter_sq_inv; eauto.
    - destruct Hi as (cfw & sfw & net & _ & _ & _ & _ & ->). exact Hinv.
  Qed.

  (** C16: a TunnelSent of the trace left a side that was not blocking, or whose
      blocking was bypassable while the packet carries the bypass flag *)
  Theorem no_leak_trace : forall e, In e out -> se_ev e = TETunnelSent ->
    exists st nowt st1 st3,
      iter cc sc tp st nowt e st1 st3 /\
      let sd := if se_client e then m_c st1 else m_s st1 in
      s_buntil sd = None \/ (s_bbypass sd = true /\ se_bypass e = true).
  Proof.
    intros e He Hev. destruct (trace_iter e He) as (st0 & t0 & st & nowt & st1 & st3 & _ & _ & Hit & Hq).
    exists st, nowt, st1, st3. split; [exact Hit|].
    destruct Hit as (Hp & _). exact (SimBlocking.pick_next_no_leak _ _ _ _ _ (proj1 Hq) Hp Hev).
  Qed.

  (** C16: a BlockingEnd of the trace is the expiry of that side's blocking, which it clears *)
  Theorem blocking_end_trace : forall e, In e out -> se_ev e = TEBlockingEnd ->
    exists st nowt st1 st3,
      iter cc sc tp st nowt e st1 st3 /\
      exists stb nowtb u,
        (nowt <= nowtb)%Z /\
        s_buntil (if se_client e then m_c stb else m_s stb) = Some u /\
        ((nowtb <= u <= nowtb + Z.of_N DMAX)%Z -> se_time e = u) /\
        e = mksev TEBlockingEnd (se_time e) (se_client e) false false false /\
        s_buntil (if se_client e then m_c st1 else m_s st1) = None.
  Proof.
    intros e He Hev. destruct (trace_iter e He) as (st0 & t0 & st & nowt & st1 & st3 & _ & _ & Hit & Hq).
    exists st, nowt, st1, st3. split; [exact Hit|].
    destruct Hit as (Hp & _).
    destruct (SimBlocking.pick_next_blocking_end_exact _ _ _ _ _ Hp Hev (proj2 Hq))
      as (stb & nowtb & u & H1 & H2 & _ & _ & H4 & H5 & H6 & H7 & _).
    exists stb, nowtb, u. repeat (split; [assumption|]).
    destruct (se_client e); [rewrite H6|rewrite H7]; reflexivity.
  Qed.

  (** C17/C18: no event of the trace is later than an action timer or internal timer that is still
      pending after it was picked (and was not already overdue): timers fire before time passes them *)
  Theorem not_past_trace : forall e, In e out ->
    exists st nowt st1 st3,
      iter cc sc tp st nowt e st1 st3 /\
      forall t, In t (SimTimers.pending st1) -> (nowt <= t)%Z -> (se_time e <= t)%Z.
  Proof.
    intros e He. destruct (trace_iter e He) as (st0 & t0 & st & nowt & st1 & st3 & _ & _ & Hit & Hq).
    exists st, nowt, st1, st3. split; [exact Hit|].
    destruct Hit as (Hp & _). exact (SimTimers.pick_next_not_past_wf _ _ _ _ _ (sq_inv_wf _ Hq) Hp).
  Qed.
End Trace.
