(** Property C16 at the level of whole runs: while a side is blocking, no
    tunnel-sent packet leaves that side unless it carries the bypass flag.

    From the moment a BlockingBegin caused by a BlockOutgoing action of positive
    duration is REPORTED until the next BlockingEnd of that side is reported, every
    TunnelSent of that side carries the bypass flag ([blocked_side_sends_only_bypass]).

    Structure
    - 1. definitions; what firing a scheduled action does to [s_buntil].
    - 2. [pick_next] as an abstract run that also tracks [s_buntil] ([pn_runB],
         [pick_next_runB]): the run relation of SimActionTrace.v with, at each step,
         what happens to the blocking state of the two sides; in particular a slot
         fires only when NO completion is queued, and the blocking of a side expires
         only when every queued completion is due no earlier than the expiry.
    - 3. the token invariant of SimActionTrace.v with explicit ghosts
         ([tinv_fire_x], [tinv_append_x]).
    - 4. the blocking invariant [binv] on top of [tinv]: (B1) a queued completion of
         a positive-duration block of side X implies that X blocks until later than
         the completion's time; (B2) a reported BlockingBegin of X caused by a
         positive-duration block with no BlockingEnd of X after it implies that X
         blocks. Preserved by runs ([binv_run]) and by appending a record.
    - 5. the loop ([linv], [iter_linv], [loop_finB]) and the theorem for the instrumented loop.
    - 6. the theorems for the runs of [sim_advanced] on parsed traces.

    The requested statement holds as written (no counterexample, no extra premise). The cause [a]
    of the BlockingBegin is tied to [f b] through the fact that a framework returns at most one
    action per machine for one event ([FrameworkSlots.output_contract], [huniq]). *)
From Coq Require Import List Arith Lia Permutation ZArith Bool Sorted.
From MB Require Import Base.Prelude Model.Framework Model.Sim Proofs.Tactics Proofs.SimHeap.
From MB Require Import Proofs.SimBasics Proofs.SimReach Proofs.SimHistory Proofs.SimActionTrace.
From MB Require Proofs.SimTimers Proofs.SimBlocking Proofs.SimIdentity Proofs.FrameworkSlots.
Import ListNotations.
Open Scope N_scope.

(** * 1. Definitions *)

(** duration of a BlockOutgoing action *)
Definition block_dur (a : taction) : N := match a with TBlockOutgoing _ _ dur _ _ => dur | _ => 0 end.

(** the blocking state of side [X] *)
Definition bu (st : sim) (X : bool) : option Z := s_buntil (if X then m_c st else m_s st).
Definition same_bu (st st' : sim) : Prop := forall X, bu st' X = bu st X.

Lemma negb_cases : forall X Y : bool, Y = X \/ Y = negb X.
Proof. intros [|] [|]; auto. Qed.

(** executing a due action: blocking is never ended, and a block of positive duration
    leaves the side blocking until after the due time *)
Lemma act_on_bu : forall sd ic a t sd' e,
  act_on sd ic a t = Ok (sd', e) ->
  (s_buntil sd <> None -> s_buntil sd' <> None) /\
  (0 < block_dur a -> exists u, s_buntil sd' = Some u /\ (t < u)%Z).
Proof.
  intros sd ic a t sd' e H.
  destruct a as [m tm|m tmo by_ rp|m tmo dur by_ rp|m dur rp]; try (unfold act_on in H; discriminate).
  - unfold act_on in H. injection H as <- _. cbn [block_dur]. split; [auto|lia].
  - cbn [block_dur]. split.
    + intros Hn. destruct (SimBlocking.act_on_block_rule _ _ _ _ _ _ _ _ _ _ H) as (_ & _ & _ & _ & Hb & _).
      * right. right. exact Hn.
      * rewrite Hb. discriminate.
    + intros Hd. destruct (SimBlocking.act_on_block_rule _ _ _ _ _ _ _ _ _ _ H) as (_ & _ & _ & _ & Hb & _).
      * left. exact Hd.
      * eexists. split; [exact Hb|]. destruct (s_buntil sd) as [u|]; [destruct rp|]; lia.
Qed.

Lemma do_scheduled_action_bu : forall c s target c' s' e,
  do_scheduled_action c s target = Ok (c', s', e) ->
  exists (ic : bool) (mi : nat) (a : taction),
    let sd := if ic then c else s in
    let sd' := if ic then c' else s' in
    nth_error (s_sched sd) mi = Some (Some (a, target)) /\
    s_sched sd' = upd (s_sched sd) mi None /\
    (if ic then s' = s else c' = c) /\
    se_time e = target /\ se_client e = ic /\ completes a e /\
    (s_buntil sd <> None -> s_buntil sd' <> None) /\
    (0 < block_dur a -> exists u, s_buntil sd' = Some u /\ (target < u)%Z).
Proof.
  intros c s target c' s' e H. unfold do_scheduled_action in H.
  destruct (take_action (s_sched c) target) as [[[a t] l]|] eqn:Ec.
  - mbind H as p E. destruct p as [c1 e1]. injection H as <- <- <-.
    apply SimTimers.take_action_spec in Ec. destruct Ec as (mi & -> & Hn & -> & _).
    pose proof (act_on_bu _ _ _ _ _ _ E) as [B1 B2].
    apply SimTimers.act_on_spec in E. destruct E as (A1 & A2 & A3 & A4 & A5 & A6).
    cbn [side_set_sched s_sched s_buntil] in A1, B1.
    exists true, mi, a. cbv zeta.
    split; [exact Hn|]. split; [exact A1|]. split; [reflexivity|]. split; [exact A4|]. split; [exact A5|].
    split; [|split; [exact B1|exact B2]].
    apply completes_of_spec. destruct a; try exact A6. tauto.
  - destruct (take_action (s_sched s) target) as [[[a t] l]|] eqn:Es; [|discriminate].
    mbind H as p E. destruct p as [s1 e1]. injection H as <- <- <-.
    apply SimTimers.take_action_spec in Es. destruct Es as (mi & -> & Hn & -> & _).
    pose proof (act_on_bu _ _ _ _ _ _ E) as [B1 B2].
    apply SimTimers.act_on_spec in E. destruct E as (A1 & A2 & A3 & A4 & A5 & A6).
    cbn [side_set_sched s_sched s_buntil] in A1, B1.
    exists false, mi, a. cbv zeta.
    split; [exact Hn|]. split; [exact A1|]. split; [reflexivity|]. split; [exact A4|]. split; [exact A5|].
    split; [|split; [exact B1|exact B2]].
    apply completes_of_spec. destruct a; try exact A6. tauto.
Qed.

(** * 2. [pick_next] as a run that tracks the blocking state *)

(** one layer of [pick_next] as in [SimActionTrace.pn_unfold], with the sides after the expiry
    branch spelled out *)
Lemma pn_unfoldB : forall fuel' st nowt r st',
  pick_next (S fuel') st nowt = Ok (r, st') ->
  exists b bic q w qic,
    let sa := peek_sched (s_sched (m_c st)) (s_sched (m_s st)) nowt in
    let it := peek_timers (s_timers (m_c st)) (s_timers (m_s st)) nowt in
    let n := net_peek_agg (m_net st) nowt in
    peek_blocked_exp (s_buntil (m_c st)) (s_buntil (m_s st)) nowt = (b, bic) /\
    peek_queue (m_sq st) (m_c st) (m_s st) (n_cagg (m_net st)) (n_sagg (m_net st))
               (N.min (N.min (N.min sa it) b) n) nowt = (q, w, qic) /\
    ((r = None /\ st' = st) \/
     (pick_next fuel' (mksim (m_sq st) (m_c st) (m_s st) (net_pop_agg (m_net st)) (m_pos st)) nowt = Ok (r, st')) \/
     (C0 sa it b n q = false /\ C1 sa it b n q = false /\
      ((C2 sa it b q = true /\
        r = Some (mksev TEBlockingEnd (nowt + Z.of_N b)%Z bic false false false) /\
        exists net', st' = mksim (m_sq st)
                        (if bic then side_set_block (m_c st) None (s_bbypass (m_c st)) else m_c st)
                        (if bic then m_s st else side_set_block (m_s st) None (s_bbypass (m_s st)))
                        net' (m_pos st)) \/
       (C2 sa it b q = false /\
        ((C3 sa it q = true /\
          exists tmp sq',
            sq_pop (m_sq st) w qic (if qic then n_cagg (m_net st) else n_sagg (m_net st)) = Some (tmp, sq') /\
            r = Some (if (se_time tmp <? nowt + Z.of_N q)%Z then set_time tmp (nowt + Z.of_N q)%Z else tmp) /\
            st' = mksim sq' (m_c st) (m_s st) (m_net st) (m_pos st)) \/
         (C3 sa it q = false /\
          ((it <= sa /\ exists c' s' e,
              do_internal_timer (m_c st) (m_s st) (nowt + Z.of_N it)%Z = Ok (c', s', e) /\
              pick_next fuel' (mksim (sq_push (m_sq st) e) c' s' (m_net st) (m_pos st)) (nowt + Z.of_N it)%Z = Ok (r, st')) \/
           (sa < it /\ exists c' s' e,
              do_scheduled_action (m_c st) (m_s st) (nowt + Z.of_N sa)%Z = Ok (c', s', e) /\
              pick_next fuel' (mksim (sq_push (m_sq st) e) c' s' (m_net st) (m_pos st)) (nowt + Z.of_N sa)%Z = Ok (r, st'))))))))).
Proof.
  intros fuel' st nowt r st' H.
  destruct (peek_blocked_exp (s_buntil (m_c st)) (s_buntil (m_s st)) nowt) as [b bic] eqn:Hb.
  destruct (peek_queue (m_sq st) (m_c st) (m_s st) (n_cagg (m_net st)) (n_sagg (m_net st))
              (N.min (N.min (N.min (peek_sched (s_sched (m_c st)) (s_sched (m_s st)) nowt)
                                   (peek_timers (s_timers (m_c st)) (s_timers (m_s st)) nowt)) b)
                     (net_peek_agg (m_net st) nowt)) nowt) as [[q w] qic] eqn:Hq.
  exists b, bic, q, w, qic. cbv zeta. split; [reflexivity|]. split; [exact Hq|].
  cbn [pick_next] in H. rewrite Hb in H. rewrite Hq in H.
  set (sa := peek_sched (s_sched (m_c st)) (s_sched (m_s st)) nowt) in *.
  set (it := peek_timers (s_timers (m_c st)) (s_timers (m_s st)) nowt) in *.
  set (n := net_peek_agg (m_net st) nowt) in *.
  unfold C0, C1, C2, C3.
  destruct ((sa =? DMAX) && (it =? DMAX) && (b =? DMAX) && (n =? DMAX) && (q =? DMAX)) eqn:E0.
  { injection H as <- <-. left. auto. }
  right.
  destruct ((n <=? sa) && (n <=? it) && (n <=? b) && (n <=? q)) eqn:E1.
  { left. exact H. }
  right. split; [reflexivity|]. split; [reflexivity|].
  destruct ((b <=? sa) && (b <=? it) && (b <=? q)) eqn:E2.
  { left. split; [reflexivity|].
    destruct bic; injection H as <- <-; (split; [reflexivity|]); eexists; reflexivity. }
  right. split; [reflexivity|].
  destruct ((q <=? sa) && (q <=? it)) eqn:E3.
  { left. split; [reflexivity|].
    destruct (sq_pop (m_sq st) w qic (if qic then n_cagg (m_net st) else n_sagg (m_net st)))
      as [[tmp sq']|] eqn:Ep; [|discriminate].
    injection H as <- <-. eauto. }
  right. split; [reflexivity|].
  destruct (N.leb_spec it sa) as [E4|E4].
  - left. split; [exact E4|]. mbind H as p Ed. destruct p as [[c' s'] e]. eauto.
  - right. split; [exact E4|]. mbind H as p Ed. destruct p as [[c' s'] e]. eauto.
Qed.

(** arithmetic of the branch conditions *)
Lemma arith_bD : forall sa it b n q,
  C0 sa it b n q = false -> C1 sa it b n q = false -> C2 sa it b q = true ->
  sa <= DMAX -> it <= DMAX -> n <= DMAX -> q <= DMAX -> b < DMAX.
Proof. unfold C0, C1, C2. intros sa it b n q E0 E1 E2 H1 H2 H3 H4. b2p; lia. Qed.

Lemma arith_fire : forall sa it b n q sx,
  C1 sa it b n q = false -> C2 sa it b q = false -> C3 sa it q = false -> sa < it ->
  it <= DMAX -> b <= DMAX -> n <= DMAX ->
  (q <= sx \/ (q = DMAX /\ N.min (N.min (N.min sa it) b) n < sx)) -> sa < sx.
Proof. unfold C1, C2, C3. intros sa it b n q sx E1 E2 E3 Hlt Hi Hb Hn Hx. b2p; lia. Qed.

Lemma peek_blocked_exp_some : forall bc bs t b bic,
  peek_blocked_exp bc bs t = (b, bic) -> b < DMAX ->
  exists u, (if bic then bc else bs) = Some u /\ b = since u t.
Proof.
  intros bc bs t b bic H Hb. unfold peek_blocked_exp in H.
  destruct bc as [c|], bs as [s|]; [destruct (c <? s)%Z| | |]; injection H as <- <-; eauto. lia.
Qed.

Lemma since_lt_le : forall u T t, since u t < DMAX -> since u t <= since T t -> (t <= T)%Z -> (u <= T)%Z.
Proof. intros u T t. unfold since. lia. Qed.

Inductive pn_runB : sim -> Z -> option sev -> sim -> Prop :=
| runB_none : forall st t, pn_runB st t None st
| runB_skip : forall st t st1 t1 r st',
    same_slots st st1 -> same_cq st st1 -> (t <= t1)%Z -> qge st1 t1 -> same_bu st st1 ->
    pn_runB st1 t1 r st' -> pn_runB st t r st'
| runB_fire : forall st t st1 t1 r st' X mi a x,
    nth_error (slotsX st X) mi = Some (Some (a, t1)) ->
    slotsX st1 X = upd (slotsX st X) mi None -> slotsX st1 (negb X) = slotsX st (negb X) ->
    Permutation (cqs st1 X) (x :: cqs st X) -> Permutation (cqs st1 (negb X)) (cqs st (negb X)) ->
    completes a x -> se_time x = t1 -> se_client x = X -> (t <= t1)%Z -> qge st1 t1 ->
    (* every completion still queued is due strictly later: with [tinv] none is queued *)
    (forall Y y, In y (cqs st Y) -> (t1 < se_time y)%Z) ->
    bu st1 (negb X) = bu st (negb X) ->
    (bu st X <> None -> bu st1 X <> None) ->
    (0 < block_dur a -> exists u, bu st1 X = Some u /\ (t1 < u)%Z) ->
    pn_runB st1 t1 r st' -> pn_runB st t r st'
| runB_end : forall st t e st' u,
    se_ev e = TEBlockingEnd -> same_slots st st' -> same_cq st st' -> (t <= se_time e)%Z -> qge st' (se_time e) ->
    (* the side blocks until [u]; every queued completion is due no earlier *)
    bu st (se_client e) = Some u -> (forall Y y, In y (cqs st Y) -> (u <= se_time y)%Z) ->
    bu st' (negb (se_client e)) = bu st (negb (se_client e)) ->
    pn_runB st t (Some e) st'
| runB_other : forall st t e st',
    is_complb e = false -> se_ev e <> TEBlockingEnd ->
    same_slots st st' -> same_cq st st' -> (t <= se_time e)%Z -> qge st' (se_time e) -> same_bu st st' ->
    pn_runB st t (Some e) st'
| runB_pop : forall st t e st',
    is_complb e = true -> same_slots st st' ->
    Permutation (cqs st (se_client e)) (e :: cqs st' (se_client e)) ->
    Permutation (cqs st' (negb (se_client e))) (cqs st (negb (se_client e))) ->
    (t <= se_time e)%Z -> qge st' (se_time e) -> same_bu st st' ->
    pn_runB st t (Some e) st'.

Lemma complb_not_bend : forall e, is_complb e = true -> se_ev e <> TEBlockingEnd.
Proof. intros e H E. unfold is_complb in H. rewrite E in H. discriminate. Qed.

Theorem pick_next_runB : forall fuel st t r st',
  SimBlocking.sq_inv (m_sq st) -> hpi (m_sq st) -> qge st t ->
  pick_next fuel st t = Ok (r, st') -> pn_runB st t r st' /\ hpi (m_sq st').
Proof.
  induction fuel as [|fuel IH]; intros st t r st' Hinv Hh Hq H; [discriminate H|].
  pose proof (proj1 Hinv) as Hwf.
  apply pn_unfoldB in H. destruct H as (b & bic & q & w & qic & Hb & Hpq & H). cbv zeta in Hpq, H.
  set (sa := peek_sched (s_sched (m_c st)) (s_sched (m_s st)) t) in *.
  set (it := peek_timers (s_timers (m_c st)) (s_timers (m_s st)) t) in *.
  set (n := net_peek_agg (m_net st) t) in *.
  assert (Bsa : sa <= DMAX) by apply peek_sched_le.
  assert (Bit : it <= DMAX) by apply peek_timers_le.
  assert (Bn : n <= DMAX) by apply SimBlocking.net_peek_agg_le_DMAX.
  assert (Bb : b <= DMAX) by (eapply SimTimers.peek_blocked_exp_le; exact Hb).
  assert (Bq : q <= DMAX).
  { pose proof (SimBlocking.peek_queue_le_DMAX (m_sq st) (m_c st) (m_s st) (n_cagg (m_net st)) (n_sagg (m_net st))
                  (N.min (N.min (N.min sa it) b) n) t) as L. rewrite Hpq in L. exact L. }
  assert (Hsx : forall X x, In x (cqs st X) ->
            (t <= se_time x)%Z /\
            (q <= since (se_time x) t \/ (q = DMAX /\ N.min (N.min (N.min sa it) b) n < since (se_time x) t))).
  { intros X x Hx. split; [apply (Hq X x Hx)|].
    eapply peek_queue_int_le; [apply Hh|apply in_cqs_iq; exact Hx|exact Hpq]. }
  destruct H as [(-> & ->)|[H|(E0 & E1 & [(E2 & -> & net' & ->)|(E2 & H)])]].
  - split; [apply runB_none|exact Hh].
  - (* aggregate delay popped *)
    destruct (IH (mksim (m_sq st) (m_c st) (m_s st) (net_pop_agg (m_net st)) (m_pos st)) t r st' Hinv Hh Hq H) as [R Hh'].
    split; [|exact Hh'].
    apply (runB_skip st t (mksim (m_sq st) (m_c st) (m_s st) (net_pop_agg (m_net st)) (m_pos st)) t r st');
      [intros X; reflexivity|intros X; apply Permutation_refl|lia|exact Hq|intros X; reflexivity|exact R].
  - (* blocking expiry *)
    split; [|exact Hh].
    pose proof (arith_bD _ _ _ _ _ E0 E1 E2 Bsa Bit Bn Bq) as HbD.
    destruct (peek_blocked_exp_some _ _ _ _ _ Hb HbD) as (u & Hu & Hbu).
    apply (runB_end _ _ _ _ u); cbn [se_ev se_time se_client].
    + reflexivity.
    + intros [|]; unfold slotsX; cbn [m_c m_s]; destruct bic; reflexivity.
    + intros X; apply Permutation_refl.
    + lia.
    + intros X x Hx.
      match type of Hx with In x (cqs ?s X) => change (cqs s X) with (cqs st X) in Hx end.
      destruct (Hsx X x Hx) as [Ht Hx'].
      pose proof (arith_b _ _ _ _ _ _ E1 E2 Bn Hx') as Hbx.
      pose proof (SimTimers.since_below _ _ Ht). lia.
    + unfold bu. destruct bic; exact Hu.
    + intros Y y Hy. destruct (Hsx Y y Hy) as [Ht Hx'].
      pose proof (arith_b _ _ _ _ _ _ E1 E2 Bn Hx') as Hbx.
      apply (since_lt_le u (se_time y) t); [rewrite <- Hbu; exact HbD|rewrite <- Hbu; exact Hbx|exact Ht].
    + unfold bu. destruct bic; reflexivity.
  - destruct H as [(E3 & tmp & sq' & Hpop & -> & ->)|(E3 & H)].
    + (* the head of the queue *)
      pose proof (arith_q _ _ _ _ _ E0 E1 E2 E3 Bsa Bit Bb Bn) as Hqd.
      pose proof (SimTimers.peek_pop_consistent _ _ _ _ _ _ _ _ _ _ _ _ (wf_simq_sq_wf _ Hwf) Hpq Hqd Hpop) as Htmp.
      destruct (cq_pop _ _ _ _ _ _ Hwf Hpop) as (Hcl & Hperm & Hin).
      destruct (SimBlocking.sq_pop_inv _ _ _ _ _ _ Hinv Hpop) as [_ Hnbend].
      split; [|eapply hpi_pop; [exact Hh|exact Hpop]].
      assert (Hrest : forall X x, In x (cq sq' X) -> (t + Z.of_N q <= se_time x)%Z).
      { intros X x Hx.
        assert (Hx0 : In x (cqs st X)).
        { unfold cqs. apply (Permutation_in _ (Permutation_sym (Hperm X))).
          destruct (_ && _); [right|]; exact Hx. }
        destruct (Hsx X x Hx0) as [Ht [Hx'|[Hx' _]]]; [|lia].
        pose proof (SimTimers.since_below _ _ Ht). lia. }
      destruct (is_complb tmp) eqn:Ec.
      * (* a completion: its time is not changed *)
        assert (Hx0 : In tmp (cqs st qic)).
        { unfold cqs. apply (Permutation_in _ (Permutation_sym (Hperm qic))).
          rewrite Bool.eqb_reflx. cbn [andb]. left. reflexivity. }
        destruct (Hsx qic tmp Hx0) as [Ht [Hx'|[Hx' _]]]; [|lia].
        pose proof (SimTimers.since_below _ _ Ht) as Hbl.
        destruct (Z.ltb_spec (se_time tmp) (t + Z.of_N q)) as [L|L]; [lia|].
        apply runB_pop; [exact Ec|intros X; reflexivity| | | | |intros X; reflexivity].
        -- rewrite Hcl. pose proof (Hperm qic) as P. rewrite Bool.eqb_reflx in P. exact P.
        -- rewrite Hcl. pose proof (Hperm (negb qic)) as P.
           replace (Bool.eqb qic (negb qic)) with false in P by (destruct qic; reflexivity).
           apply Permutation_sym. exact P.
        -- exact Ht.
        -- intros X x Hx. specialize (Hrest X x Hx). lia.
      * (* another event *)
        set (e := if (se_time tmp <? t + Z.of_N q)%Z then set_time tmp (t + Z.of_N q)%Z else tmp).
        assert (He : is_complb e = false /\ se_time e = (t + Z.of_N q)%Z /\ se_ev e = se_ev tmp).
        { subst e. destruct (Z.ltb_spec (se_time tmp) (t + Z.of_N q)) as [L|L].
          - split; [exact Ec|]. split; reflexivity.
          - split; [exact Ec|]. split; [lia|reflexivity]. }
        destruct He as (He1 & He2 & He3).
        apply runB_other; [exact He1|rewrite He3; exact Hnbend|intros X; reflexivity| | | |intros X; reflexivity].
        -- intros X. pose proof (Hperm X) as P. rewrite Bool.andb_false_r in P. apply Permutation_sym. exact P.
        -- lia.
        -- intros X x Hx. rewrite He2. apply (Hrest X x Hx).
    + assert (Hmin : forall X x, In x (cqs st X) -> (t + Z.of_N (N.min sa it) <= se_time x)%Z).
      { intros X x Hx. destruct (Hsx X x Hx) as [Ht Hx'].
        pose proof (arith_t _ _ _ _ _ _ E1 E2 E3 Bb Bn Hx').
        pose proof (SimTimers.since_below _ _ Ht). lia. }
      destruct H as [(Hle & c' & s' & e & Hd & H)|(Hlt & c' & s' & e & Hd & H)].
      * (* an internal timer: pick again as of its expiry *)
        pose proof (SimTimers.do_internal_timer_spec _ _ _ _ _ _ Hd) as (ic & mi & Sp). cbv zeta in Sp.
        assert (Hs : s_sched c' = s_sched (m_c st) /\ s_sched s' = s_sched (m_s st) /\ is_complb e = false /\
                     s_buntil c' = s_buntil (m_c st) /\ s_buntil s' = s_buntil (m_s st) /\
                     se_ev e <> TEBlockingEnd).
        { destruct ic; destruct Sp as (_ & _ & S3 & S4 & _ & S6 & _ & ->); subst; cbn [se_ev];
            (repeat (split; [solve [auto]|])); discriminate. }
        destruct Hs as (Sc & Ss & Ec & Bc & Bs & Ene).
        set (st1 := mksim (sq_push (m_sq st) e) c' s' (m_net st) (m_pos st)) in *.
        assert (Hcq : same_cq st st1). { intros X. apply cq_push_other. exact Ec. }
        assert (Hq1 : qge st1 (t + Z.of_N it)%Z).
        { intros X x Hx. apply (Permutation_in _ (Hcq X)) in Hx. specialize (Hmin X x Hx). lia. }
        destruct (IH st1 _ r st' (SimBlocking.sq_push_inv _ _ Hinv Ene) (hpi_push _ _ Hh) Hq1 H) as [R Hh'].
        split; [|exact Hh'].
        eapply runB_skip; [|exact Hcq| |exact Hq1| |exact R]; [|lia|].
        -- intros [|]; unfold slotsX; cbn [m_c m_s]; assumption.
        -- intros [|]; unfold bu; cbn [m_c m_s]; assumption.
      * (* a scheduled action fires *)
        pose proof (do_scheduled_action_bu _ _ _ _ _ _ Hd) as (ic & mi & a & Sp). cbv zeta in Sp.
        destruct Sp as (S1 & S2 & S3 & S6 & S7 & Hc & B1 & B2).
        destruct (completes_compl _ _ Hc) as [Ec _].
        set (st1 := mksim (sq_push (m_sq st) e) c' s' (m_net st) (m_pos st)) in *.
        assert (Hcq1 : Permutation (cqs st1 ic) (e :: cqs st ic)).
        { unfold cqs, st1; cbn [m_sq]. pose proof (cq_push (m_sq st) e ic) as P.
          rewrite S7, Ec, Bool.eqb_reflx in P. exact P. }
        assert (Hcq2 : Permutation (cqs st1 (negb ic)) (cqs st (negb ic))).
        { unfold cqs, st1; cbn [m_sq]. pose proof (cq_push (m_sq st) e (negb ic)) as P.
          rewrite S7 in P. replace (Bool.eqb ic (negb ic)) with false in P by (destruct ic; reflexivity).
          exact P. }
        assert (Hq1 : qge st1 (t + Z.of_N sa)%Z).
        { intros X x Hx.
          assert (Hx' : x = e \/ In x (cqs st X)).
          { destruct (Bool.bool_dec X ic) as [->|Hne].
            - apply (Permutation_in _ Hcq1) in Hx. destruct Hx as [Hx|Hx]; auto.
            - assert (X = negb ic) as -> by (destruct X, ic; try reflexivity; elim Hne; reflexivity).
              apply (Permutation_in _ Hcq2) in Hx. auto. }
          destruct Hx' as [->|Hx']; [lia|]. specialize (Hmin X x Hx'). lia. }
        assert (Hstrict : forall Y y, In y (cqs st Y) -> (t + Z.of_N sa < se_time y)%Z).
        { intros Y y Hy. destruct (Hsx Y y Hy) as [Ht Hx'].
          pose proof (arith_fire _ _ _ _ _ _ E1 E2 E3 Hlt Bit Bb Bn Hx') as L.
          unfold since in L. lia. }
        destruct (IH st1 _ r st' (SimBlocking.sq_push_inv _ _ Hinv (complb_not_bend _ Ec)) (hpi_push _ _ Hh) Hq1 H)
          as [R Hh'].
        split; [|exact Hh'].
        eapply (runB_fire st t st1 (t + Z.of_N sa)%Z r st' ic mi a e);
          [ | | |exact Hcq1|exact Hcq2|exact Hc|exact S6|exact S7|lia|exact Hq1|exact Hstrict| | | |exact R].
        -- destruct ic; exact S1.
        -- destruct ic; unfold slotsX, st1; cbn [m_c m_s]; exact S2.
        -- destruct ic; unfold slotsX, st1; cbn [m_c m_s negb]; rewrite S3; reflexivity.
        -- destruct ic; unfold bu, st1; cbn [m_c m_s negb]; rewrite S3; reflexivity.
        -- destruct ic; unfold bu, st1; cbn [m_c m_s]; exact B1.
        -- destruct ic; unfold bu, st1; cbn [m_c m_s]; exact B2.
Qed.

Lemma pn_runB_qge : forall st t r st', pn_runB st t r st' ->
  forall e, r = Some e -> qge st' (se_time e) /\ (t <= se_time e)%Z.
Proof.
  intros st t r st' R.
  induction R as [st t|st t st1 t1 r st' _ _ Ht _ _ _ IH
                 |st t st1 t1 r st' X mi a x _ _ _ _ _ _ _ _ Ht _ _ _ _ _ _ IH
                 |st t e0 st' u _ _ _ Ht Hq _ _ _|st t e0 st' _ _ _ _ Ht Hq _|st t e0 st' _ _ _ _ Ht Hq _];
    intros e He.
  - discriminate.
  - destruct (IH e He). split; [assumption|lia].
  - destruct (IH e He). split; [assumption|lia].
  - injection He as <-. auto.
  - injection He as <-. auto.
  - injection He as <-. auto.
Qed.

(** * 3. The token invariant with explicit ghosts *)

(** [SimActionTrace.tinv_fire] with the new queue ghost spelled out: the fired completion [x] is
    queued with the record [j] that issued the slot's action [a] *)
Lemma tinv_fire_x : forall H st t f G st1 t1 X mi a x,
  tinv H st t f G noex ->
  nth_error (slotsX st X) mi = Some (Some (a, t1)) ->
  slotsX st1 X = upd (slotsX st X) mi None -> slotsX st1 (negb X) = slotsX st (negb X) ->
  Permutation (cqs st1 X) (x :: cqs st X) -> Permutation (cqs st1 (negb X)) (cqs st (negb X)) ->
  completes a x -> se_time x = t1 -> se_client x = X -> (t <= t1)%Z ->
  exists j rj, nth_error H j = Some rj /\ In a (h_acts rj) /\
    tinv H st1 t1 f (fun Y => if Bool.eqb Y X then (x, j) :: G Y else G Y) noex.
Proof.
  intros H st t f G st1 t1 X mi a x I Hn Hs1 Hs2 Hp1 Hp2 Hc Htx Hcx Ht.
  destruct I as [I1 I2 I3 I4 I5 I6 I7 I8].
  destruct (I2 X mi a t1 Hn) as (j & rj & J1 & J2 & J3 & J4 & J5 & J6 & J7 & J8).
  destruct (completes_compl _ _ Hc) as [Hcb Hcm].
  exists j, rj. split; [exact J1|]. split; [exact J3|].
  assert (HnegX : Bool.eqb (negb X) X = false) by (destruct X; reflexivity).
  constructor.
  - intros r Hr. specialize (I1 r Hr). lia.
  - intros Y mi' a' due' Hn'.
    assert (Ho : slot_ok H f G Y mi' a' due' /\ (Y = X -> mi <> mi')).
    { destruct (Bool.bool_dec Y X) as [->|Hne].
      - rewrite Hs1 in Hn'. apply nth_upd_none_other in Hn'. destruct Hn' as [Hn' Hd]. split; [apply I2; exact Hn'|auto].
      - assert (Y = negb X) as -> by (destruct Y, X; try reflexivity; elim Hne; reflexivity).
        rewrite Hs2 in Hn'. split; [apply I2; exact Hn'|]. intros E. destruct X; discriminate. }
    destruct Ho as [(j' & rj' & K1 & K2 & K3 & K4 & K5 & K6 & K7 & K8) Hd].
    exists j', rj'. repeat (split; [assumption|]).
    intros x0 j0 Hin Hm.
    destruct (Bool.eqb Y X) eqn:EY; [|eapply K8; eauto].
    apply Bool.eqb_prop in EY.
    destruct Hin as [Hin|Hin]; [|eapply K8; eauto].
    injection Hin as <- <-. exfalso. apply (Hd EY). rewrite <- J4, <- K4. f_equal. congruence.
  - intros Y. cbn [noex app]. destruct (Bool.bool_dec Y X) as [->|Hne].
    + rewrite Bool.eqb_reflx. cbn [map fst]. eapply perm_trans; [|apply Permutation_sym; exact Hp1].
      apply perm_skip. apply (I3 X).
    + assert (Y = negb X) as -> by (destruct Y, X; try reflexivity; elim Hne; reflexivity).
      rewrite HnegX. eapply perm_trans; [apply (I3 (negb X))|]. apply Permutation_sym. exact Hp2.
  - intros Y x0 j0 Hin.
    assert (Hold : In (x0, j0) (G Y) -> se_client x0 = Y /\ cause H (length H) x0 j0 /\ (se_time x0 <= t1)%Z).
    { intros Hi. destruct (I4 Y x0 j0 Hi) as (A & B & C). split; [exact A|]. split; [exact B|lia]. }
    destruct (Bool.eqb Y X) eqn:EY; [|auto].
    apply Bool.eqb_prop in EY. subst Y.
    destruct Hin as [Hin|Hin]; [|auto]. injection Hin as <- <-.
    split; [exact Hcx|]. split; [|lia].
    exists rj, a. split; [apply nth_error_Some; congruence|]. split; [exact J1|]. split; [congruence|].
    split; [exact J3|]. split; [congruence|]. split; [exact Hc|]. split; [congruence|].
    intros j' rj' a' Hj' Hnj' Hsd' Hin' Hsf. exfalso.
    apply (J6 j' rj' a'); try assumption; [lia|congruence|congruence].
  - intros Y. destruct (Bool.eqb Y X) eqn:EY; [|apply I5].
    apply Bool.eqb_prop in EY. subst Y. cbn [map]. constructor; [|apply I5].
    intros Hin. apply in_map_iff in Hin. destruct Hin as ([x0 j0] & Ht0 & Hin0).
    unfold tok in Ht0. cbn [fst snd] in Ht0. injection Ht0 as Hm0 ->.
    apply (J8 x0 j Hin0); [congruence|reflexivity].
  - exact I6.
  - exact I7.
  - intros k rk x0 j0 Hk Hcb0 Hin Hm.
    destruct (Bool.eqb (sdr rk) X) eqn:EY; [|eapply I8; eauto].
    apply Bool.eqb_prop in EY.
    destruct Hin as [Hin|Hin]; [|eapply I8; eauto].
    injection Hin as <- <-. apply (J7 k rk Hk EY Hcb0). congruence.
Qed.

(** * 4. The blocking invariant *)

(** record [j] returned, for the machine of completion [x], a block of positive duration *)
Definition pos (H : list hrec) (j : nat) (x : sev) : Prop :=
  exists rj a, nth_error H j = Some rj /\ In a (h_acts rj) /\ taction_machine a = cmach x /\ 0 < block_dur a.

Definition is_bend (X : bool) (e : sev) : Prop := se_ev e = TEBlockingEnd /\ se_client e = X.

(** record [b] is a BlockingBegin of side [X] caused (via [f]) by a positive-duration block, and no
    BlockingEnd of [X] has been reported since *)
Definition open_at (H : list hrec) (f : nat -> nat) (X : bool) (b : nat) : Prop :=
  exists rb m, nth_error H b = Some rb /\ se_ev (h_ev rb) = TEBlockingBegin m /\ se_client (h_ev rb) = X /\
    pos H (f b) (h_ev rb) /\
    forall i ri, (b < i)%nat -> nth_error H i = Some ri -> ~ is_bend X (h_ev ri).

(** a framework returns at most one action per machine for one event *)
Definition huniq (H : list hrec) : Prop :=
  forall r a a', In r H -> In a (h_acts r) -> In a' (h_acts r) -> taction_machine a = taction_machine a' -> a = a'.

Record binv (H : list hrec) (st : sim) (f : nat -> nat) (G : bool -> list (sev * nat)) : Prop := mk_binv {
  (* B1 *)
  bi_q : forall X x j, In (x, j) (G X) -> pos H j x -> exists u, bu st X = Some u /\ (se_time x < u)%Z;
  (* B2 *)
  bi_h : forall X b, open_at H f X b -> bu st X <> None
}.

Lemma G_in_cqs : forall H st t f G X x j, tinv H st t f G noex -> In (x, j) (G X) -> In x (cqs st X).
Proof.
  intros H st t f G X x j I Hin. pose proof (ti_qperm _ _ _ _ _ _ I X) as P. cbn [noex app] in P.
  apply (Permutation_in _ P). apply in_map_iff. exists (x, j). auto.
Qed.

Lemma bend_not_compl : forall e, se_ev e = TEBlockingEnd -> is_complb e = false.
Proof. intros e H. unfold is_complb. rewrite H. reflexivity. Qed.

Theorem binv_run : forall st t r st', pn_runB st t r st' ->
  forall H f G, huniq H -> tinv H st t f G noex -> binv H st f G ->
  match r with
  | None => True
  | Some e => exists G', tinv H st' (se_time e) f G' (ex_of e) /\
      (forall X x j, In (x, j) (G' X) -> pos H j x -> exists u, bu st' X = Some u /\ (se_time x < u)%Z) /\
      (forall X b, open_at H f X b -> is_bend X e \/ bu st' X <> None)
  end.
Proof.
  intros st t r st' R.
  induction R as [st t|st t st1 t1 r st' Hs Hc Ht _ Hbu _ IH
                 |st t st1 t1 r st' X mi a x Hn Hs1 Hs2 Hp1 Hp2 Hcm Htx Hcx Ht _ Hstrict Hb1 Hb2 Hb3 _ IH
                 |st t e st' u He Hs Hc Ht _ Hu Hue Hbo
                 |st t e st' He Hne Hs Hc Ht _ Hbu
                 |st t e st' He Hs Hp1 Hp2 Ht _ Hbu]; intros H f G HU I B.
  - exact Logic.I.
  - apply (IH H f G HU).
    + eapply tinv_move; [exact I|exact Hs| |exact Ht].
      intros X. cbn [noex app]. apply Permutation_sym. apply Hc.
    + destruct B as [B1 B2]. constructor.
      * intros X x j Hin Hp. rewrite Hbu. apply (B1 X x j Hin Hp).
      * intros X b Ho. rewrite Hbu. apply (B2 X b Ho).
  - destruct (tinv_fire_x _ _ _ _ _ _ _ _ _ _ _ I Hn Hs1 Hs2 Hp1 Hp2 Hcm Htx Hcx Ht) as (j & rj & Hj & Haj & I').
    apply (IH H f _ HU I').
    destruct B as [B1 B2]. destruct (completes_compl _ _ Hcm) as [_ Hcmach]. constructor.
    + intros Y x0 j0 Hin Hp.
      assert (Hold : In (x0, j0) (G Y) -> exists u, bu st1 Y = Some u /\ (se_time x0 < u)%Z).
      { intros Hi. exfalso.
        pose proof (Hstrict Y x0 (G_in_cqs _ _ _ _ _ _ _ _ I Hi)) as L1.
        destruct (ti_qcause _ _ _ _ _ _ I Y x0 j0 Hi) as (_ & _ & L2). lia. }
      destruct (Bool.eqb Y X) eqn:EY; [|auto].
      apply Bool.eqb_prop in EY. subst Y.
      destruct Hin as [Hin|Hin]; [|auto]. injection Hin as <- <-.
      destruct Hp as (rj' & a' & Hj' & Ha' & Hm' & Hd').
      rewrite Hj in Hj'. injection Hj' as <-.
      assert (a' = a).
      { apply (HU rj a' a); [eapply nth_error_In; exact Hj|exact Ha'|exact Haj|congruence]. }
      subst a'. destruct (Hb3 Hd') as (u & Hu1 & Hu2). exists u. split; [exact Hu1|lia].
    + intros Y b Ho. specialize (B2 Y b Ho).
      destruct (negb_cases X Y) as [->| ->]; [auto|]. rewrite Hb1. exact B2.
  - exists G. split; [|split].
    + eapply tinv_move; [exact I|exact Hs| |exact Ht].
      intros X. rewrite (ex_of_other _ _ (bend_not_compl _ He)). cbn [noex app]. apply Permutation_sym. apply Hc.
    + intros X x j Hin Hp. destruct B as [B1 _]. destruct (B1 X x j Hin Hp) as (u0 & Hu0 & Hlt).
      destruct (negb_cases (se_client e) X) as [->| ->].
      * exfalso. rewrite Hu in Hu0. injection Hu0 as <-.
        pose proof (Hue _ x (G_in_cqs _ _ _ _ _ _ _ _ I Hin)). lia.
      * rewrite Hbo. eauto.
    + intros X b Ho. destruct B as [_ B2]. specialize (B2 X b Ho).
      destruct (negb_cases (se_client e) X) as [->| ->].
      * left. split; [exact He|reflexivity].
      * right. rewrite Hbo. exact B2.
  - exists G. split; [|split].
    + eapply tinv_move; [exact I|exact Hs| |exact Ht].
      intros X. rewrite (ex_of_other _ _ He). cbn [noex app]. apply Permutation_sym. apply Hc.
    + intros X x j Hin Hp. rewrite Hbu. apply (bi_q _ _ _ _ B X x j Hin Hp).
    + intros X b Ho. right. rewrite Hbu. apply (bi_h _ _ _ _ B X b Ho).
  - exists G. split; [|split].
    + eapply tinv_move; [exact I|exact Hs| |exact Ht].
      intros X. cbn [noex app]. unfold ex_of. rewrite He. cbn [andb].
      destruct (Bool.eqb (se_client e) X) eqn:EX.
      * apply Bool.eqb_prop in EX. subst X. cbn [app]. exact Hp1.
      * assert (X = negb (se_client e)) as -> by (destruct X, (se_client e); try reflexivity; discriminate).
        cbn [app]. apply Permutation_sym. exact Hp2.
    + intros X x j Hin Hp. rewrite Hbu. apply (bi_q _ _ _ _ B X x j Hin Hp).
    + intros X b Ho. right. rewrite Hbu. apply (bi_h _ _ _ _ B X b Ho).
Qed.

(** ** appending the record of the returned event *)

(** [SimActionTrace.tinv_append] for ANY ghosts [f' G'] with the properties [tinv_take] provides *)
Lemma tinv_append_x : forall H st' t f G e acts st3 f' G',
  tinv H st' t f G (ex_of e) -> t = se_time e ->
  (forall i, (i < length H)%nat -> f' i = f i) ->
  (forall X x j, In (x, j) (G' X) -> In (x, j) (G X)) ->
  (forall X, NoDup (map tok (G' X))) ->
  (forall X, Permutation (map fst (G' X)) (cqs st' X)) ->
  (is_complb e = true ->
     In (e, f' (length H)) (G (se_client e)) /\
     forall x j, In (x, j) (G' (se_client e)) -> cmach x = cmach e -> j <> f' (length H)) ->
  slotsX st3 (negb (se_client e)) = slotsX st' (negb (se_client e)) ->
  length (slotsX st3 (se_client e)) = length (slotsX st' (se_client e)) ->
  (forall mi cur, nth_error (slotsX st' (se_client e)) mi = Some cur ->
     nth_error (slotsX st3 (se_client e)) mi = Some (SimTimers.sched_after acts t mi cur)) ->
  same_cq st' st3 ->
  tinv (H ++ [mkhrec e acts]) st3 t f' G' noex.
Proof.
  intros H st' t f G e acts st3 f' G' I Ht A1 A2 A3 A4 A5 Hso Hlen Hsa Hcq.
  destruct I as [I1 I2 I3 I4 I5 I6 I7 I8].
  set (rnew := mkhrec e acts).
  assert (Htm : tm rnew = t) by (unfold tm, rnew; cbn [h_ev]; congruence).
  assert (Hsd : sdr rnew = se_client e) by reflexivity.
  assert (A5' : is_complb e = true -> cause H (length H) e (f' (length H)) /\ (f' (length H) < length H)%nat).
  { intros Hc. destruct (A5 Hc) as [Hin _]. destruct (I4 _ _ _ Hin) as (_ & C & _).
    split; [exact C|]. destruct C as (rj & a & C1 & _). exact C1. }
  constructor.
  - intros r Hr. apply in_app_or in Hr. destruct Hr as [Hr|[<-|[]]]; [apply I1; exact Hr|lia].
  - intros X mi a due Hn.
    assert (Hlift : forall j rj,
              nth_error H j = Some rj -> sdr rj = X -> In a (h_acts rj) -> N.to_nat (taction_machine a) = mi ->
              due = (tm rj + Z.of_N (timeout_of a))%Z ->
              (forall j' rj' a', (j < j')%nat -> nth_error H j' = Some rj' -> sdr rj' = X -> In a' (h_acts rj') ->
                 is_sched_for (taction_machine a) a' = true -> False) ->
              (forall k0 rk, nth_error H k0 = Some rk -> sdr rk = X -> is_complb (h_ev rk) = true ->
                 cmach (h_ev rk) = taction_machine a -> f k0 <> j) ->
              (forall x j0, In (x, j0) (G X) -> cmach x = taction_machine a -> j0 <> j) ->
              (sdr rnew = X -> forall a', In a' acts -> is_sched_for (taction_machine a) a' = true -> False) ->
              slot_ok (H ++ [rnew]) f' G' X mi a due).
    { intros j rj K1 K2 K3 K4 K5 K6 K7 K8 Knew.
      exists j, rj. split; [apply nth_snoc_lt; exact K1|]. repeat (split; [assumption|]).
      split; [|split].
      - intros j' rj' a' Hj' Hn' Hs' Hin' Hsf. apply nth_snoc_inv in Hn'. destruct Hn' as [[_ Hn']|[_ ->]].
        + eapply K6; eauto.
        + eapply Knew; eauto.
      - intros k0 rk Hk0 Hsk Hck Hmk. apply nth_snoc_inv in Hk0. destruct Hk0 as [[L Hk0]|[-> ->]].
        + rewrite (A1 k0 L). eapply K7; eauto.
        + cbn [rnew h_ev] in Hck, Hmk. destruct (A5 Hck) as [Hin _].
          rewrite Hsd in Hsk. rewrite Hsk in Hin. eapply K8; eauto.
      - intros x j0 Hx Hm. eapply K8; eauto. }
    destruct (Bool.bool_dec X (se_client e)) as [->|Hne].
    + assert (Hcur : exists cur, nth_error (slotsX st' (se_client e)) mi = Some cur).
      { apply SimHeap.sh_nth_some. rewrite <- Hlen. apply nth_error_Some. congruence. }
      destruct Hcur as (cur & Hcur). rewrite (Hsa mi cur Hcur) in Hn. injection Hn as Hn.
      apply sched_after_some in Hn. destruct Hn as [[-> Hno]|(Hin & Hm & Hd)].
      * destruct (I2 _ _ _ _ Hcur) as (j & rj & K1 & K2 & K3 & K4 & K5 & K6 & K7 & K8).
        apply (Hlift j rj K1 K2 K3 K4 K5 K6 K7 K8).
        intros _ a' Hin' Hsf. apply is_sched_for_inv in Hsf. destruct Hsf as [Hm' Hr'].
        rewrite (Hno a' Hin') in Hr'; [discriminate|]. congruence.
      * exists (length H), rnew. split; [apply nth_snoc_last|]. split; [reflexivity|]. split; [exact Hin|].
        split; [exact Hm|]. split; [rewrite Htm; exact Hd|]. split; [|split].
        -- intros j' rj' a' Hj' Hn'. assert (L : (j' < length (H ++ [rnew]))%nat) by (apply nth_error_Some; congruence).
           rewrite app_length in L. cbn [length] in L. lia.
        -- intros k0 rk Hk0 Hsk Hck Hmk. apply nth_snoc_inv in Hk0. destruct Hk0 as [[L Hk0]|[-> ->]].
           ++ rewrite (A1 k0 L). destruct (I6 k0 rk Hk0 Hck) as (rj & a0 & C1 & _). lia.
           ++ cbn [rnew h_ev] in Hck. destruct (A5' Hck) as [_ L]. lia.
        -- intros x j0 Hx Hm0. apply A2 in Hx. destruct (I4 _ _ _ Hx) as (_ & (rj & a0 & C1 & _) & _). lia.
    + assert (X = negb (se_client e)) as -> by (destruct X, (se_client e); try reflexivity; elim Hne; reflexivity).
      rewrite Hso in Hn. destruct (I2 _ _ _ _ Hn) as (j & rj & K1 & K2 & K3 & K4 & K5 & K6 & K7 & K8).
      apply (Hlift j rj K1 K2 K3 K4 K5 K6 K7 K8).
      intros E. rewrite Hsd in E. destruct (se_client e); discriminate.
  - intros X. cbn [noex app]. eapply perm_trans; [apply A4|]. apply Permutation_sym. apply Hcq.
  - intros X x j Hx. apply A2 in Hx. destruct (I4 _ _ _ Hx) as (B1 & B2 & B3).
    split; [exact B1|]. split; [|exact B3].
    rewrite app_length. cbn [length]. rewrite Nat.add_1_r. apply cause_snoc_S; [exact B2|lia].
  - exact A3.
  - intros k0 rk Hk0 Hck. apply nth_snoc_inv in Hk0. destruct Hk0 as [[L Hk0]|[-> ->]].
    + rewrite (A1 k0 L). apply cause_snoc; [apply (I6 k0 rk Hk0 Hck)|lia].
    + cbn [rnew h_ev] in *. destruct (A5' Hck) as [C _]. apply cause_snoc; [exact C|lia].
  - intros k1 k2 rk1 rk2 Hne Hk1 Hk2 Hc1 Hc2 Hs Hm.
    apply nth_snoc_inv in Hk1. apply nth_snoc_inv in Hk2.
    destruct Hk1 as [[L1 Hk1]|[-> ->]]; destruct Hk2 as [[L2 Hk2]|[-> ->]].
    + rewrite (A1 k1 L1), (A1 k2 L2). eapply I7; eauto.
    + rewrite (A1 k1 L1). cbn [rnew h_ev] in Hc2, Hm. destruct (A5 Hc2) as [Hin _].
      rewrite Hsd in Hs. rewrite <- Hs in Hin. eapply I8; eauto.
    + rewrite (A1 k2 L2). cbn [rnew h_ev] in Hc1, Hm. destruct (A5 Hc1) as [Hin _].
      rewrite Hsd in Hs. rewrite Hs in Hin. intros E. symmetry in E. revert E. eapply I8; eauto.
    + contradiction.
  - intros k0 rk x j Hk0 Hck Hx Hm. apply nth_snoc_inv in Hk0. destruct Hk0 as [[L Hk0]|[-> ->]].
    + rewrite (A1 k0 L). apply A2 in Hx. eapply I8; eauto.
    + cbn [rnew h_ev] in Hck, Hm. rewrite Hsd in Hx. destruct (A5 Hck) as [_ Hf].
      intros E. apply (Hf x j Hx Hm). symmetry. exact E.
Qed.

(** the framework's actions of one record *)
Lemma sorted_machines_uniq : forall (acts : list taction),
  StronglySorted N.lt (map taction_machine acts) ->
  forall a a', In a acts -> In a' acts -> taction_machine a = taction_machine a' -> a = a'.
Proof.
  induction acts as [|a0 rest IH]; intros Hs a a' Ha Ha' E; [destruct Ha|].
  cbn [map] in Hs. inversion Hs as [|x l Hs' Hf]; subst.
  rewrite Forall_forall in Hf.
  destruct Ha as [<-|Ha], Ha' as [<-|Ha'].
  - reflexivity.
  - exfalso. specialize (Hf (taction_machine a') (in_map _ _ _ Ha')). lia.
  - exfalso. specialize (Hf (taction_machine a) (in_map _ _ _ Ha)). lia.
  - apply IH; assumption.
Qed.

Lemma acts_for_uniq : forall cc sc tp st1 next a a',
  In a (acts_for cc sc tp st1 next) -> In a' (acts_for cc sc tp st1 next) ->
  taction_machine a = taction_machine a' -> a = a'.
Proof.
  intros cc sc tp st1 next a a'. unfold acts_for.
  destruct (trigger_events _ tp _ [se_ev next] (se_time next)) as [[fw acts]|k|] eqn:E; try (intros []).
  destruct (FrameworkSlots.output_contract _ _ _ _ _ _ _ E) as (_ & Hs & _).
  apply sorted_machines_uniq. exact Hs.
Qed.

Lemma huniq_snoc : forall H cc sc tp st1 next,
  huniq H -> huniq (H ++ [mkhrec next (acts_for cc sc tp st1 next)]).
Proof.
  intros H cc sc tp st1 next HU r a a' Hr. apply in_app_or in Hr. destruct Hr as [Hr|[<-|[]]].
  - apply (HU r a a' Hr).
  - cbn [h_acts]. apply acts_for_uniq.
Qed.

Lemma cause_lt : forall H b x j, cause H b x j -> (j < b)%nat.
Proof. intros H b x j (rj & a & C1 & _). exact C1. Qed.

Lemma pos_snoc : forall H r j x, (j < length H)%nat -> pos (H ++ [r]) j x -> pos H j x.
Proof.
  intros H r j x L (rj & a & Hj & Hr). exists rj, a. split; [|exact Hr].
  rewrite nth_error_app1 in Hj by exact L. exact Hj.
Qed.

(** the property of the theorem, for a history and a cause assignment *)
Definition byp (H : list hrec) (f : nat -> nat) : Prop :=
  forall b k rb rk m, (b < k)%nat -> nth_error H b = Some rb -> nth_error H k = Some rk ->
    se_ev (h_ev rb) = TEBlockingBegin m -> pos H (f b) (h_ev rb) ->
    se_ev (h_ev rk) = TETunnelSent -> se_client (h_ev rk) = se_client (h_ev rb) ->
    (forall i ri, (b < i < k)%nat -> nth_error H i = Some ri -> ~ is_bend (se_client (h_ev rb)) (h_ev ri)) ->
    se_bypass (h_ev rk) = true.

(** * 5. The loop *)

Record linv (H : list hrec) (st : sim) (t : Z) (f : nat -> nat) (G : bool -> list (sev * nat)) : Prop := mk_linv {
  li_sq : SimBlocking.sq_inv (m_sq st);
  li_hp : hpi (m_sq st);
  li_qge : qge st t;
  li_t : tinv H st t f G noex;
  li_u : huniq H;
  li_b : binv H st f G;
  li_byp : byp H f
}.

Lemma begin_compl : forall x m, se_ev x = TEBlockingBegin m -> is_complb x = true /\ cmach x = m.
Proof. intros x m H. apply compl_of_ev. right. exact H. Qed.

(** one iteration of the main loop *)
Lemma iter_linv : forall cc sc tp st t next st1 sq2 net2 act X sd' sq3 pos3 H f G,
  linv H st t f G ->
  pick_next (pn_fuel st) st t = Ok (Some next, st1) ->
  sim_network_stack next (m_sq st1) (if se_client next then s_bbypass (m_c st1) else s_bbypass (m_s st1))
                    (m_net st1) (se_time next) = Ok (sq2, net2, act) ->
  se_client next = X ->
  trigger_update (if X then cc else sc) tp (if X then m_c st1 else m_s st1) (m_pos st1) next (se_time next) sq2 X
    = Ok (sd', sq3, pos3) ->
  let st3 := mksim sq3 (if X then sd' else m_c st1) (if X then m_s st1 else sd') net2 pos3 in
  exists f' G', linv (H ++ [mkhrec next (acts_for cc sc tp st1 next)]) st3 (se_time next) f' G'.
Proof.
  intros cc sc tp st t next st1 sq2 net2 act X sd' sq3 pos3 H f G [Hinv Hh Hq I HU B BY] Ep En HX Et st3.
  destruct (pick_next_runB _ _ _ _ _ Hinv Hh Hq Ep) as [R Hh1].
  destruct (pn_runB_qge _ _ _ _ R next eq_refl) as [Hq1 Ht1].
  destruct (binv_run _ _ _ _ R H f G HU I B) as (G1 & I1 & Q1 & Q2).
  pose proof (SimBlocking.pick_next_inv _ _ _ _ _ Hinv Ep) as Hinv1.
  pose proof (SimBlocking.network_stack_inv _ _ _ _ _ _ _ _ Hinv1 En) as Hinv2.
  destruct (network_stack_cq _ _ _ _ _ _ _ _ (proj1 Hinv1) En) as [P2 Hh2].
  pose proof (SimBlocking.trigger_update_inv _ _ _ _ _ _ _ _ _ _ _ Hinv2 Et) as Hinv3.
  destruct (trigger_update_spec _ _ _ _ _ _ _ _ _ _ _ Et) as (fw' & acts & Ete & Ea).
  destruct (apply_actions_cq _ _ _ _ _ _ _ Ea) as [P3 Hh3].
  destruct (SimTimers.apply_actions_spec _ _ _ _ _ _ _ Ea) as (L1 & _ & S1 & _ & _ & _ & Sbu & _).
  cbn [side_set_fw s_sched s_buntil] in L1, S1, Sbu.
  assert (Hacts : acts_for cc sc tp st1 next = acts).
  { unfold acts_for. rewrite HX. rewrite Ete. reflexivity. }
  assert (Hcq : same_cq st1 st3).
  { intros Y. unfold cqs, st3. cbn [m_sq]. eapply perm_trans; [apply P3|apply P2]. }
  assert (Hbu3 : forall Y, bu st3 Y = bu st1 Y).
  { intros Y. unfold bu, st3. destruct X, Y; cbn [m_c m_s]; auto. }
  destruct (tinv_take _ _ _ _ _ _ I1) as (f' & G' & A1 & A2 & A3 & A4 & A5).
  set (r := mkhrec next (acts_for cc sc tp st1 next)).
  assert (I3 : tinv (H ++ [r]) st3 (se_time next) f' G' noex).
  { unfold r. rewrite Hacts.
    apply (tinv_append_x H st1 (se_time next) f G1 next acts st3 f' G' I1 eq_refl A1 A2 A3 A4 A5); rewrite ?HX.
    - unfold slotsX, st3. destruct X; reflexivity.
    - unfold slotsX, st3. destruct X; cbn [m_c m_s]; exact L1.
    - unfold slotsX, st3. destruct X; cbn [m_c m_s]; exact S1.
    - exact Hcq. }
  (* old records keep their cause and its duration *)
  assert (Hposf : forall b rb, (b < length H)%nat -> nth_error H b = Some rb -> is_complb (h_ev rb) = true ->
            pos (H ++ [r]) (f' b) (h_ev rb) -> pos H (f b) (h_ev rb)).
  { intros b rb L Hb Hc Hp. rewrite (A1 b L) in Hp.
    pose proof (cause_lt _ _ _ _ (ti_fcause _ _ _ _ _ _ I1 b rb Hb Hc)) as Lf.
    apply (pos_snoc H r); [lia|exact Hp]. }
  exists f', G'. constructor.
  - exact Hinv3.
  - apply Hh3. apply Hh2. exact Hh1.
  - intros Y x Hx. apply (Permutation_in _ (Hcq Y)) in Hx. apply (Hq1 Y x Hx).
  - exact I3.
  - apply huniq_snoc. exact HU.
  - constructor.
    + intros Y x j Hin Hp. rewrite Hbu3. apply A2 in Hin.
      destruct (ti_qcause _ _ _ _ _ _ I1 Y x j Hin) as (_ & C & _).
      apply (Q1 Y x j Hin). apply (pos_snoc H r); [exact (cause_lt _ _ _ _ C)|exact Hp].
    + intros Y b (rb & m & Hb & Hev & Hside & Hp & Hnb). rewrite Hbu3.
      destruct (begin_compl _ _ Hev) as [Hc _].
      apply nth_snoc_inv in Hb. destruct Hb as [[L Hb]|[-> ->]].
      * destruct (Q2 Y b) as [Hbe|Hne]; [|exfalso|exact Hne].
        -- exists rb, m. split; [exact Hb|]. split; [exact Hev|]. split; [exact Hside|].
           split; [apply (Hposf b rb L Hb Hc Hp)|].
           intros i ri Hi Hni. apply (Hnb i ri Hi). apply nth_snoc_lt. exact Hni.
        -- apply (Hnb (length H) r L); [apply nth_snoc_last|exact Hbe].
      * cbn [r h_ev] in Hev, Hside, Hp, Hc.
        destruct (A5 Hc) as [Hin _]. rewrite Hside in Hin.
        destruct (ti_qcause _ _ _ _ _ _ I1 Y next _ Hin) as (_ & C & _).
        destruct (Q1 Y next _ Hin) as (u & Hu & _).
        { apply (pos_snoc H r); [exact (cause_lt _ _ _ _ C)|exact Hp]. }
        rewrite Hu. discriminate.
  - intros b k rb rk m Hbk Hb Hk Hev Hp Hts Hside Hnb.
    destruct (begin_compl _ _ Hev) as [Hc _].
    assert (Lk : (k <= length H)%nat).
    { assert (L : (k < length (H ++ [r]))%nat) by (apply nth_error_Some; congruence).
      rewrite app_length in L. cbn [length] in L. lia. }
    assert (Hb' : nth_error H b = Some rb).
    { apply nth_snoc_inv in Hb. destruct Hb as [[_ Hb]|[-> _]]; [exact Hb|lia]. }
    assert (Lb : (b < length H)%nat) by (apply nth_error_Some; congruence).
    pose proof (Hposf b rb Lb Hb' Hc Hp) as Hp'.
    apply nth_snoc_inv in Hk. destruct Hk as [[L Hk]|[-> ->]].
    + apply (BY b k rb rk m Hbk Hb' Hk Hev Hp' Hts Hside).
      intros i ri Hi Hni. apply (Hnb i ri Hi). apply nth_snoc_lt. exact Hni.
    + cbn [r h_ev] in Hts, Hside |- *.
      destruct (Q2 (se_client (h_ev rb)) b) as [[Hbe _]|Hne].
      * exists rb, m. split; [exact Hb'|]. split; [exact Hev|]. split; [reflexivity|]. split; [exact Hp'|].
        intros i ri Hi Hni.
        assert (Li : (i < length H)%nat) by (apply nth_error_Some; congruence).
        apply (Hnb i ri); [lia|apply nth_snoc_lt; exact Hni].
      * congruence.
      * pose proof (SimBlocking.pick_next_no_leak _ _ _ _ _ (proj1 Hinv) Ep Hts) as NL. cbv zeta in NL.
        unfold bu in Hne. rewrite <- Hside in Hne.
        destruct NL as [NL|[_ NL]]; [contradiction|exact NL].
Qed.

(** what the invariant says about a finished history *)
Definition finB (H : list hrec) (f : nat -> nat) : Prop := fin H f /\ byp H f.

Lemma linv_fin : forall H st t f G, linv H st t f G -> finB H f.
Proof. intros H st t f G L. split; [eapply tinv_fin; exact (li_t _ _ _ _ _ L)|exact (li_byp _ _ _ _ _ L)]. Qed.

Theorem loop_finB : forall fuel cc sc tp args st t hist iters Hout,
  sim_loop_h fuel cc sc tp args st t hist iters = Ok Hout ->
  forall f G, linv (rev hist) st t f G -> exists f', finB Hout f'.
Proof.
  induction fuel as [|fuel IH]; intros cc sc tp args st t hist iters Hout H f G L; [discriminate|].
  cbn [sim_loop_h] in H.
  destruct (pick_next (pn_fuel st) st t) as [[nx st1]|k|] eqn:Ep; cbn [bind] in H; try discriminate.
  destruct nx as [next|]; [|injection H as <-; exists f; eapply linv_fin; exact L].
  destruct (se_time next <? t)%Z; [discriminate|].
  destruct (sim_network_stack next (m_sq st1) _ (m_net st1) (se_time next)) as [[[sq2 net2] act]|k|] eqn:En;
    cbn [bind] in H; try discriminate.
  assert (Hu : exists c3 s3 sq3 pos3,
             (let st3 := mksim sq3 c3 s3 net2 pos3 in
              exists f' G', linv (rev hist ++ [mkhrec next (acts_for cc sc tp st1 next)]) st3 (se_time next) f' G') /\
             (let st3 := mksim sq3 c3 s3 net2 pos3 in
              let hist' := mkhrec next (acts_for cc sc tp st1 next) :: hist in
              (if (0 <? a_max_trace args) && (a_max_trace args <=? N.of_nat (length hist')) then Ok (rev hist')
               else
                 let iters' := iters + 1 in
                 if (0 <? a_max_iter args) && (a_max_iter args <=? iters') then Ok (rev hist')
                 else if negb (a_continue args) && sq_no_normal sq3 then Ok (rev hist')
                 else sim_loop_h fuel cc sc tp args st3 (se_time next) hist' iters') = Ok Hout)).
  { destruct (se_client next) eqn:Ec.
    - destruct (trigger_update cc tp (m_c st1) (m_pos st1) next (se_time next) sq2 true) as [[[c' sq'] p']|k|] eqn:Et;
        cbn [bind] in H; try discriminate.
      exists c', (m_s st1), sq', p'. split; [|exact H].
      apply (iter_linv cc sc tp st t next st1 sq2 net2 act true c' sq' p' (rev hist) f G L Ep); auto.
      rewrite Ec. exact En.
    - destruct (trigger_update sc tp (m_s st1) (m_pos st1) next (se_time next) sq2 false) as [[[s' sq'] p']|k|] eqn:Et;
        cbn [bind] in H; try discriminate.
      exists (m_c st1), s', sq', p'. split; [|exact H].
      apply (iter_linv cc sc tp st t next st1 sq2 net2 act false s' sq' p' (rev hist) f G L Ep); auto.
      rewrite Ec. exact En. }
  clear H. destruct Hu as (c3 & s3 & sq3 & pos3 & (f' & G' & L3) & H). cbv zeta in H.
  assert (Hfin : exists f'', finB (rev (mkhrec next (acts_for cc sc tp st1 next) :: hist)) f'').
  { exists f'. cbn [rev]. eapply linv_fin. exact L3. }
  destruct (_ && _) in H; [injection H as <-; exact Hfin|].
  destruct (_ && _) in H; [injection H as <-; exact Hfin|].
  destruct (_ && _) in H; [injection H as <-; exact Hfin|].
  eapply (IH _ _ _ _ _ _ _ _ _ H f' G'). exact L3.
Qed.

(** the initial state *)
Lemma init_linv : forall cc sc tp sq delay pps st0 t0,
  sim_init cc sc tp sq delay pps st0 t0 -> SimBlocking.sq_inv sq -> sq_start sq ->
  linv [] st0 t0 (fun _ => 0%nat) (fun _ => []).
Proof.
  intros cc sc tp sq delay pps st0 t0 Hi Hinv Hs.
  destruct (init_tinv _ _ _ _ _ _ _ _ Hi Hs) as (I & Hq & Hh & Esq).
  constructor.
  - rewrite Esq. exact Hinv.
  - exact Hh.
  - exact Hq.
  - exact I.
  - intros r a a' [].
  - constructor.
    + intros X x j [].
    + intros X b (rb & m & Hb & _). destruct b; discriminate.
  - intros b k rb rk m _ Hb. destruct b; discriminate.
Qed.

Section Run.
  Variables (fuel : nat) (cc sc : cfg) (tp : tape) (args : simargs) (st0 : sim) (t0 : Z) (H : list hrec).
  Variables (sq : simq) (delay : N) (pps : option N).
  Hypothesis Hinit : sim_init cc sc tp sq delay pps st0 t0.
  Hypothesis Hinv : SimBlocking.sq_inv sq.          (* every parsed trace: SimBlocking.parse_trace_inv *)
  Hypothesis Hstart : sq_start sq.                   (* every parsed trace: parse_trace_start *)
  Hypothesis Hrun : sim_loop_h fuel cc sc tp args st0 t0 [] 0 = Ok H.

  Lemma run_finB : exists f, finB H f.
  Proof.
    eapply (loop_finB _ _ _ _ _ _ _ _ _ _ Hrun). cbn [rev].
    exact (init_linv _ _ _ _ _ _ _ _ Hinit Hinv Hstart).
  Qed.

  (** for the instrumented loop from any initial queue satisfying [sq_inv] and [sq_start] *)
  Theorem blocked_side_sends_only_bypass_run : exists f : nat -> nat,
    (forall k rk m, nth_error H k = Some rk ->
       (se_ev (h_ev rk) = TEPaddingSent m \/ se_ev (h_ev rk) = TEBlockingBegin m) ->
       caused_by H k rk m (f k)) /\
    (forall k1 k2 rk1 rk2 m, k1 <> k2 -> nth_error H k1 = Some rk1 -> nth_error H k2 = Some rk2 ->
       (se_ev (h_ev rk1) = TEPaddingSent m \/ se_ev (h_ev rk1) = TEBlockingBegin m) ->
       (se_ev (h_ev rk2) = TEPaddingSent m \/ se_ev (h_ev rk2) = TEBlockingBegin m) ->
       f k1 <> f k2) /\
    forall b k rb rk m rj a,
      (b < k)%nat -> nth_error H b = Some rb -> nth_error H k = Some rk ->
      se_ev (h_ev rb) = TEBlockingBegin m ->
      nth_error H (f b) = Some rj -> In a (h_acts rj) -> taction_machine a = m ->
      completes a (h_ev rb) -> 0 < block_dur a ->
      se_ev (h_ev rk) = TETunnelSent -> se_client (h_ev rk) = se_client (h_ev rb) ->
      (forall i ri, (b < i < k)%nat -> nth_error H i = Some ri ->
                    ~ (se_ev (h_ev ri) = TEBlockingEnd /\ se_client (h_ev ri) = se_client (h_ev rb))) ->
      se_bypass (h_ev rk) = true.
  Proof.
    destruct run_finB as (f & (F1 & F2) & BY). exists f. split; [|split].
    - intros k rk m Hk Hev. destruct (compl_of_ev _ _ Hev) as [Hc Hm].
      exact (cause_caused_by _ _ _ _ _ (F1 k rk Hk Hc) Hm).
    - intros k1 k2 rk1 rk2 m Hne Hk1 Hk2 Hev1 Hev2 E.
      destruct (compl_of_ev _ _ Hev1) as [Hc1 Hm1]. destruct (compl_of_ev _ _ Hev2) as [Hc2 Hm2].
      destruct (F1 k1 rk1 Hk1 Hc1) as (rj1 & a1 & _ & N1 & S1 & _).
      destruct (F1 k2 rk2 Hk2 Hc2) as (rj2 & a2 & _ & N2 & S2 & _).
      rewrite E in N1. rewrite N1 in N2. injection N2 as <-.
      apply (F2 k1 k2 rk1 rk2 Hne Hk1 Hk2 Hc1 Hc2); [unfold sdr; congruence|congruence|exact E].
    - intros b k rb rk m rj a Hbk Hb Hk Hev Hj Ha Hm _ Hd Hts Hside Hnb.
      apply (BY b k rb rk m Hbk Hb Hk Hev); [|exact Hts|exact Hside|exact Hnb].
      exists rj, a. split; [exact Hj|]. split; [exact Ha|]. split; [|exact Hd].
      destruct (begin_compl _ _ Hev) as [_ Hcm]. congruence.
  Qed.
End Run.

(** * 6. For the runs of [sim_advanced] on parsed traces (all events recorded)

    While a side is blocking, no tunnel-sent packet leaves that side unless it carries the bypass
    flag: between a reported BlockingBegin [b] of a side that was caused (cause assignment [f], the
    one of [SimActionTrace.action_completion_trace]) by a BlockOutgoing action of POSITIVE duration
    and the next reported BlockingEnd of that side, every TunnelSent of that side has
    [se_bypass = true]. (A non-replacing zero-duration block with no blocking in place reports
    BlockingBegin but starts no blocking: [SimBlocking.act_on_zero_duration].) *)
Theorem blocked_side_sends_only_bypass : forall fuel cc sc tp tr delay pps args out,
  SimHistory.full_args args ->
  sim_advanced fuel cc sc tp (parse_trace tr delay) delay pps args = Ok out ->
  exists H : list SimHistory.hrec, out = map SimHistory.h_ev H /\
  exists f : nat -> nat,
    (forall k rk m, nth_error H k = Some rk ->
       (se_ev (h_ev rk) = TEPaddingSent m \/ se_ev (h_ev rk) = TEBlockingBegin m) ->
       SimActionTrace.caused_by H k rk m (f k)) /\
    forall b k rb rk m rj a,
      (b < k)%nat -> nth_error H b = Some rb -> nth_error H k = Some rk ->
      se_ev (h_ev rb) = TEBlockingBegin m ->
      nth_error H (f b) = Some rj -> In a (h_acts rj) -> taction_machine a = m ->
      SimActionTrace.completes a (h_ev rb) -> (0 < block_dur a) ->
      se_ev (h_ev rk) = TETunnelSent -> se_client (h_ev rk) = se_client (h_ev rb) ->
      (forall i ri, (b < i < k)%nat -> nth_error H i = Some ri ->
                    ~ (se_ev (h_ev ri) = TEBlockingEnd /\ se_client (h_ev ri) = se_client (h_ev rb))) ->
      se_bypass (h_ev rk) = true.
Proof.
  intros fuel cc sc tp tr delay pps args out Hf Hrun.
  destruct (sim_advanced_history _ _ _ _ _ _ _ _ _ Hf Hrun) as (st0 & t0 & H & Hi & Hl & ->).
  exists H. split; [reflexivity|].
  destruct (blocked_side_sends_only_bypass_run fuel cc sc tp args st0 t0 H _ delay pps Hi
              (SimBlocking.parse_trace_inv tr delay) (parse_trace_start tr delay) Hl) as (f & F1 & _ & F3).
  exists f. split; [exact F1|exact F3].
Qed.

(** the same with the injectivity of the cause assignment (every issued action completes at most
    once), i.e. [f] is exactly a cause assignment as in [SimActionTrace.action_completion_trace] *)
Theorem blocked_side_sends_only_bypass_once : forall fuel cc sc tp tr delay pps args out,
  SimHistory.full_args args ->
  sim_advanced fuel cc sc tp (parse_trace tr delay) delay pps args = Ok out ->
  exists H : list SimHistory.hrec, out = map SimHistory.h_ev H /\
  exists f : nat -> nat,
    (forall k rk m, nth_error H k = Some rk ->
       (se_ev (h_ev rk) = TEPaddingSent m \/ se_ev (h_ev rk) = TEBlockingBegin m) ->
       SimActionTrace.caused_by H k rk m (f k)) /\
    (forall k1 k2 rk1 rk2 m, k1 <> k2 -> nth_error H k1 = Some rk1 -> nth_error H k2 = Some rk2 ->
       (se_ev (h_ev rk1) = TEPaddingSent m \/ se_ev (h_ev rk1) = TEBlockingBegin m) ->
       (se_ev (h_ev rk2) = TEPaddingSent m \/ se_ev (h_ev rk2) = TEBlockingBegin m) ->
       f k1 <> f k2) /\
    forall b k rb rk m rj a,
      (b < k)%nat -> nth_error H b = Some rb -> nth_error H k = Some rk ->
      se_ev (h_ev rb) = TEBlockingBegin m ->
      nth_error H (f b) = Some rj -> In a (h_acts rj) -> taction_machine a = m ->
      SimActionTrace.completes a (h_ev rb) -> (0 < block_dur a) ->
      se_ev (h_ev rk) = TETunnelSent -> se_client (h_ev rk) = se_client (h_ev rb) ->
      (forall i ri, (b < i < k)%nat -> nth_error H i = Some ri ->
                    ~ (se_ev (h_ev ri) = TEBlockingEnd /\ se_client (h_ev ri) = se_client (h_ev rb))) ->
      se_bypass (h_ev rk) = true.
Proof.
  intros fuel cc sc tp tr delay pps args out Hf Hrun.
  destruct (sim_advanced_history _ _ _ _ _ _ _ _ _ Hf Hrun) as (st0 & t0 & H & Hi & Hl & ->).
  exists H. split; [reflexivity|].
  exact (blocked_side_sends_only_bypass_run fuel cc sc tp args st0 t0 H _ delay pps Hi
           (SimBlocking.parse_trace_inv tr delay) (parse_trace_start tr delay) Hl).
Qed.
