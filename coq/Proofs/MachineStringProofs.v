(** C11: the machine-string pipeline. *)
From MB Require Import Model.Framework Model.Validate Model.MachineString.
From MB Require Import Model.Codec.Base64 Model.Codec.Bincode.
From MB Require Import Proofs.Codec.Base64Proofs Proofs.Codec.BincodeProofs.
Open Scope N_scope.

Section Pipeline.
  Variable deflate : list N -> list N.
  Variable inflate : list N -> N -> option (list N).
  (** contract of flate2 used by the theorem: compressed data are bytes, and a
      single bounded read of a compressed payload that fits the buffer returns
      the whole payload *)
  Hypothesis deflate_bytes : forall b, Forall (fun x => x < 256) (deflate b).
  Hypothesis deflate_nonempty : forall b, deflate b <> [].   (* a zlib stream has a header *)
  Hypothesis inflate_deflate : forall b n, N.of_nat (length b) <= n -> inflate (deflate b) n = Some b.

  Lemma b64_char_ascii : forall v, (b64_char v <? 128) = true.
  Proof.
    intros v. unfold b64_char. apply N.ltb_lt.
    destruct (N.ltb_spec v 26); [lia|]. destruct (N.ltb_spec v 52); [lia|].
    destruct (N.ltb_spec v 62); [lia|]. destruct (v =? 62); lia.
  Qed.

  Lemma b64_encode_ascii : forall bs, forallb (fun ch => ch <? 128) (b64_encode bs) = true.
  Proof.
    fix IH 1. intros [|a [|b [|c' rest]]]; cbn [b64_encode forallb]; rewrite ?b64_char_ascii; try reflexivity.
    cbn [andb]. apply IH.
  Qed.

  Theorem from_str_serialize : forall m,
    wf_machine m -> validate_machine m = true ->
    N.of_nat (length (ser_machine m)) <= MAX_DECOMPRESSED_SIZE ->
    from_str inflate (serialize deflate m) = Some m.
  Proof.
    intros m Hwf Hv Hsz. unfold from_str, serialize.
    assert (Hlen : (3 <= length ([48; 50]%N ++ b64_encode (deflate (ser_machine m))))%nat).
    { cbn [app length].
      pose proof (deflate_nonempty (ser_machine m)) as Hne.
      destruct (deflate (ser_machine m)) as [|x [|y [|z t]]]; [contradiction|cbn; lia..]. }
    destruct (Nat.ltb_spec (length ([48; 50]%N ++ b64_encode (deflate (ser_machine m)))) 3) as [Hl|_]; [lia|].
    cbn [app forallb]. rewrite b64_encode_ascii.
    change (48 <? 128) with true. change (50 <? 128) with true. cbn [andb negb].
    rewrite !N.eqb_refl. cbn [andb].
    rewrite b64_roundtrip by apply deflate_bytes.
    rewrite inflate_deflate by exact Hsz.
    rewrite (bincode_roundtrip m Hwf). rewrite Hv. reflexivity.
  Qed.
End Pipeline.

(** every accepted string yields a machine that passed validation, whatever
    zlib does *)
Theorem from_str_valid : forall inflate s m,
  from_str inflate s = Some m -> validate_machine m = true.
Proof.
  intros inflate s m H. unfold from_str in H.
  destruct (length s <? 3)%nat; [discriminate|].
  destruct (negb _); [discriminate|].
  destruct s as [|a [|b rest]]; try discriminate.
  destruct (_ && _); [|discriminate].
  destruct (b64_decode rest) as [comp|]; [|discriminate].
  destruct (inflate comp MAX_DECOMPRESSED_SIZE) as [bytes|]; [|discriminate].
  destruct (de_machine bytes) as [m0|]; [|discriminate].
  destruct (validate_machine m0) eqn:E; [|discriminate].
  inversion H; subst. exact E.
Qed.
