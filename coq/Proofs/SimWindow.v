From Coq Require Import List Arith Lia Permutation Sorted ZArith.
From MB Require Import Base.Prelude Model.Framework Model.Sim Proofs.Tactics Proofs.SimHeap.
Import ListNotations.
Open Scope N_scope.

(** * Sliding windows: a trace never trips the bottleneck derived from itself

    The parser derives the packets-per-second limit as ten times the largest
    100 ms count; the bottleneck counts in a 1 s window. For time-sorted
    timestamps the 1 s counts never exceed ten times the largest 100 ms count
    ([window_ten]).

    Note on the "span below DMAX" hypotheses of the requested statements: they
    are NOT needed. [since] saturates at [DMAX], but the comparison made by
    [prune] is [win <? since now oldest] with [win < DMAX], and
    [win < min DMAX y <-> win < y]. The [_strong] variants below are stated
    without the span hypothesis; the requested statements follow. *)

(** ** Definitions requested *)

Fixpoint win_counts_from (win : N) (w : list Z) (ts : list Z) : list N :=
  match ts with
  | [] => []
  | t :: rest => let '(w', c) := window_add_w win w t in c :: win_counts_from win w' rest
  end.
Definition win_counts (win : N) (ts : list Z) : list N := win_counts_from win [] ts.
Definition max_list (l : list N) : N := fold_right N.max 0 l.

Definition sends (tr : list (Z * bool)) : list Z := map fst (filter (fun x => snd x) tr).
Definition recvs (tr : list (Z * bool)) : list Z := map fst (filter (fun x => negb (snd x)) tr).

(** ** Auxiliary notions *)

(** an entry [x] is kept by a window of width [win] at time [t] *)
Definition fresh (win : N) (t x : Z) : bool := (t - x <=? Z.of_N win)%Z.

(** closed interval [lo, lo + p] *)
Definition inI (p lo x : Z) : bool := ((lo <=? x) && (x <=? lo + p))%Z.

Definition cnt {A} (g : A -> bool) (l : list A) : nat := length (filter g l).

Notation SS := (StronglySorted Z.le).

(** the counts, described without any window state: at each step count the
    fresh entries among everything fed so far *)
Fixpoint spec_counts (win : N) (pre ts : list Z) : list N :=
  match ts with
  | [] => []
  | t :: rest =>
      N.of_nat (cnt (fresh win t) (pre ++ [t])) :: spec_counts win (pre ++ [t]) rest
  end.

Lemma max_list_cons : forall a l, max_list (a :: l) = N.max a (max_list l).
Proof. reflexivity. Qed.

Lemma max_list_ge : forall l c, In c l -> c <= max_list l.
Proof.
  induction l as [|a l IH]; intros c Hin.
  - destruct Hin.
  - rewrite max_list_cons. destruct Hin as [E|Hin].
    + subst. lia.
    + specialize (IH c Hin). lia.
Qed.

(** ** Generic list facts *)

Lemma filter_id : forall A (g : A -> bool) l,
  (forall x, In x l -> g x = true) -> filter g l = l.
Proof.
  induction l as [|a l IH]; intros H; [reflexivity|].
  cbn [filter]. rewrite (H a (or_introl eq_refl)). f_equal.
  apply IH. intros x Hx. apply H. right. exact Hx.
Qed.

Lemma filter_filter_impl : forall A (g h : A -> bool) l,
  (forall x, In x l -> g x = true -> h x = true) -> filter g (filter h l) = filter g l.
Proof.
  induction l as [|a l IH]; intros H; [reflexivity|].
  assert (IH' : filter g (filter h l) = filter g l).
  { apply IH. intros x Hx. apply H. right. exact Hx. }
  cbn [filter]. destruct (h a) eqn:Eh.
  - cbn [filter]. rewrite IH'. reflexivity.
  - destruct (g a) eqn:Eg.
    + rewrite (H a (or_introl eq_refl) Eg) in Eh. discriminate.
    + exact IH'.
Qed.

Lemma cnt_app : forall A (g : A -> bool) a b, cnt g (a ++ b) = (cnt g a + cnt g b)%nat.
Proof. intros. unfold cnt. rewrite filter_app, app_length. reflexivity. Qed.

Lemma cnt_impl : forall A (g h : A -> bool) l,
  (forall x, In x l -> g x = true -> h x = true) -> (cnt g l <= cnt h l)%nat.
Proof.
  unfold cnt. induction l as [|a l IH]; intros H; [apply le_n|].
  assert (IH' : (length (filter g l) <= length (filter h l))%nat).
  { apply IH. intros x Hx. apply H. right. exact Hx. }
  cbn [filter]. destruct (g a) eqn:Eg.
  - rewrite (H a (or_introl eq_refl) Eg). cbn [length]. lia.
  - destruct (h a); cbn [length]; lia.
Qed.

Lemma list_sum_cons : forall a l, list_sum (a :: l) = (a + list_sum l)%nat.
Proof. reflexivity. Qed.

Lemma cnt_existsb : forall A K (g : K -> A -> bool) ks l,
  (cnt (fun x => existsb (fun k => g k x) ks) l <= list_sum (map (fun k => cnt (g k) l) ks))%nat.
Proof.
  intros A K g ks l. unfold cnt. induction l as [|a l IH].
  - cbn [filter length]. lia.
  - cbn [filter].
    assert (Hstep : forall ks',
      (list_sum (map (fun k => length (filter (g k) l)) ks') + (if existsb (fun k => g k a) ks' then 1 else 0)
       <= list_sum (map (fun k => length (if g k a then a :: filter (g k) l else filter (g k) l)) ks'))%nat).
    { induction ks' as [|k ks' IHk]; [cbn [existsb map list_sum]; lia|].
      cbn [existsb map]. rewrite !list_sum_cons. destruct (g k a); cbn [orb length].
      - destruct (existsb (fun k0 => g k0 a) ks'); lia.
      - lia. }
    specialize (Hstep ks).
    destruct (existsb (fun k => g k a) ks); cbn [length]; lia.
Qed.

Lemma list_sum_bound : forall K (f : K -> nat) B ks,
  (forall k, f k <= B)%nat -> (list_sum (map f ks) <= length ks * B)%nat.
Proof.
  intros K f B ks H. induction ks as [|k ks IH]; [cbn; lia|].
  cbn [map length]. rewrite list_sum_cons. specialize (H k). lia.
Qed.

(** ** Strongly sorted lists *)

Lemma SS_app_inv : forall a b, SS (a ++ b) ->
  SS a /\ SS b /\ (forall x y, In x a -> In y b -> (x <= y)%Z).
Proof.
  induction a as [|u a IH]; intros b H.
  - cbn [app] in H. split; [constructor|]. split; [exact H|]. intros x y [].
  - cbn [app] in H. inversion H as [|? ? Hs Hf]; subst.
    destruct (IH b Hs) as (Ha & Hb & Hab).
    rewrite Forall_app in Hf. destruct Hf as [Hfa Hfb].
    split; [constructor; assumption|]. split; [exact Hb|].
    intros x y [E|Hx] Hy.
    + subst. rewrite Forall_forall in Hfb. apply Hfb. exact Hy.
    + apply Hab; assumption.
Qed.

Lemma SS_filter_app : forall (g : Z -> bool) a b, SS (a ++ b) -> SS (filter g a ++ b).
Proof.
  induction a as [|u a IH]; intros b H; [exact H|].
  cbn [app] in H. inversion H as [|? ? Hs Hf]; subst.
  cbn [filter]. destruct (g u).
  - cbn [app]. constructor; [apply IH; exact Hs|].
    rewrite Forall_app in Hf. destruct Hf as [Hfa Hfb].
    rewrite Forall_app. split; [|exact Hfb].
    rewrite Forall_forall in *. intros x Hx. apply Hfa.
    apply filter_In in Hx. tauto.
  - apply IH. exact Hs.
Qed.

Lemma SS_mid : forall a t b, SS (a ++ t :: b) ->
  SS ((a ++ [t]) ++ b) /\ SS (a ++ [t]) /\ (forall x, In x a -> (x <= t)%Z).
Proof.
  intros a t b H.
  assert (E : a ++ t :: b = (a ++ [t]) ++ b) by (rewrite <- app_assoc; reflexivity).
  split; [rewrite <- E; exact H|].
  split.
  - rewrite E in H. apply SS_app_inv in H. tauto.
  - apply SS_app_inv in H. destruct H as (_ & _ & H). intros x Hx. apply H; [exact Hx|left; reflexivity].
Qed.

Lemma SS_map_fst_filter : forall (g : Z * bool -> bool) tr,
  SS (map fst tr) -> SS (map fst (filter g tr)).
Proof.
  induction tr as [|a tr IH]; intros H; [exact H|].
  cbn [map] in H. inversion H as [|? ? Hs Hf]; subst.
  cbn [filter]. destruct (g a).
  - cbn [map]. constructor; [apply IH; exact Hs|].
    rewrite Forall_forall in *. intros x Hx. apply Hf.
    apply in_map_iff in Hx. destruct Hx as (y & Ey & Hy).
    apply filter_In in Hy. apply in_map_iff. exists y. tauto.
  - apply IH. exact Hs.
Qed.

(** ** [prune] on a sorted window is a filter *)

Lemma since_fresh : forall win t x, (Z.of_N win < Z.of_N DMAX)%Z ->
  (win <? since t x) = negb (fresh win t x).
Proof.
  intros win t x Hw. unfold since, fresh.
  destruct (N.ltb_spec win (N.min DMAX (Z.to_N (t - x)))) as [H|H];
    destruct (Z.leb_spec (t - x) (Z.of_N win)) as [H'|H']; cbn [negb]; try reflexivity; exfalso; lia.
Qed.

Lemma prune_filter : forall win t, (Z.of_N win < Z.of_N DMAX)%Z -> forall fuel w,
  SS w -> (length w <= fuel)%nat -> prune win fuel w t = filter (fresh win t) w.
Proof.
  intros win t Hw. induction fuel as [|f IH]; intros w Hs Hl.
  - destruct w; [reflexivity | cbn [length] in Hl; lia].
  - destruct w as [|x w']; [reflexivity|].
    cbn [prune]. rewrite since_fresh by exact Hw.
    inversion Hs as [|? ? Hs' Hf]; subst.
    destruct (fresh win t x) eqn:E; cbn [negb].
    + symmetry. apply filter_id. intros y [Ey|Hy]; [subst; exact E|].
      rewrite Forall_forall in Hf. specialize (Hf y Hy).
      unfold fresh in *. apply Z.leb_le in E. apply Z.leb_le. lia.
    + cbn [filter]. rewrite E. apply IH; [exact Hs' | cbn [length] in Hl; lia].
Qed.

Lemma window_add_w_sorted : forall win w t, (Z.of_N win < Z.of_N DMAX)%Z -> SS (w ++ [t]) ->
  window_add_w win w t =
  (filter (fresh win t) (w ++ [t]), N.of_nat (cnt (fresh win t) (w ++ [t]))).
Proof.
  intros win w t Hw Hs. unfold window_add_w, cnt.
  rewrite (prune_filter win t Hw); [reflexivity | exact Hs | rewrite app_length; cbn [length]; lia].
Qed.

(** ** The window state tracks the specification *)

Lemma win_counts_from_spec : forall win, (Z.of_N win < Z.of_N DMAX)%Z -> forall ts pre w,
  SS (w ++ ts) -> SS (pre ++ ts) ->
  (forall t, (forall x, In x pre -> (x <= t)%Z) -> filter (fresh win t) w = filter (fresh win t) pre) ->
  win_counts_from win w ts = spec_counts win pre ts.
Proof.
  intros win Hw. induction ts as [|t rest IH]; intros pre w Hsw Hsp Hinv; [reflexivity|].
  destruct (SS_mid _ _ _ Hsw) as (Hsw1 & Hsw2 & _).
  destruct (SS_mid _ _ _ Hsp) as (Hsp1 & Hsp2 & Hple).
  cbn [win_counts_from spec_counts].
  rewrite (window_add_w_sorted win w t Hw Hsw2).
  assert (Ew : filter (fresh win t) (w ++ [t]) = filter (fresh win t) (pre ++ [t])).
  { rewrite !filter_app. rewrite (Hinv t Hple). reflexivity. }
  f_equal.
  - unfold cnt. rewrite Ew. reflexivity.
  - apply IH.
    + apply SS_filter_app. exact Hsw1.
    + exact Hsp1.
    + intros t' Hle. rewrite Ew. apply filter_filter_impl.
      intros x _ Hx. assert (Htt : (t <= t')%Z) by (apply Hle; apply in_or_app; right; left; reflexivity).
      unfold fresh in *. apply Z.leb_le in Hx. apply Z.leb_le. lia.
Qed.

Lemma win_counts_is_spec : forall win ts, (Z.of_N win < Z.of_N DMAX)%Z -> SS ts ->
  win_counts win ts = spec_counts win [] ts.
Proof.
  intros win ts Hw Hs. unfold win_counts. apply win_counts_from_spec; try assumption.
  intros; reflexivity.
Qed.

Lemma spec_counts_nth : forall win ts pre i c,
  nth_error (spec_counts win pre ts) i = Some c ->
  exists t, nth_error ts i = Some t /\
    c = N.of_nat (cnt (fresh win t) (pre ++ firstn (S i) ts)).
Proof.
  intros win. induction ts as [|t rest IH]; intros pre i c H.
  - destruct i; discriminate H.
  - destruct i as [|i]; cbn [spec_counts nth_error] in H.
    + inversion H; subst. exists t. split; [reflexivity|]. reflexivity.
    + destruct (IH _ _ _ H) as (t' & Et & Ec). exists t'. split; [exact Et|].
      rewrite Ec. rewrite <- app_assoc. reflexivity.
Qed.

Lemma Sorted_SS : forall l, Sorted Z.le l -> SS l.
Proof. apply Sorted_StronglySorted. exact Z.le_trans. Qed.

(** characterisation (no span hypothesis needed) *)
Lemma win_counts_spec_strong : forall win ts, Sorted Z.le ts -> (Z.of_N win < Z.of_N DMAX)%Z ->
  forall i c, nth_error (win_counts win ts) i = Some c ->
  exists t, nth_error ts i = Some t /\
    c = N.of_nat (length (filter (fun x => (t - x <=? Z.of_N win)%Z) (firstn (S i) ts))).
Proof.
  intros win ts Hs Hw i c H.
  rewrite (win_counts_is_spec win ts Hw (Sorted_SS _ Hs)) in H.
  destruct (spec_counts_nth _ _ _ _ _ H) as (t & Et & Ec).
  exists t. split; [exact Et|]. exact Ec.
Qed.

Lemma win_counts_spec : forall win ts, Sorted Z.le ts -> (Z.of_N win < Z.of_N DMAX)%Z ->
  (forall a b, In a ts -> In b ts -> (Z.abs (a - b) < Z.of_N DMAX)%Z) ->
  forall i c, nth_error (win_counts win ts) i = Some c ->
  exists t, nth_error ts i = Some t /\
    c = N.of_nat (length (filter (fun x => (t - x <=? Z.of_N win)%Z) (firstn (S i) ts))).
Proof. intros win ts Hs Hw _. apply win_counts_spec_strong; assumption. Qed.

(** ** Any closed interval of length [win] holds at most the maximal count
    (no sortedness needed for the specification counts) *)

Lemma interval_bound : forall win lo ts pre,
  N.of_nat (cnt (inI (Z.of_N win) lo) (pre ++ ts))
  <= N.max (N.of_nat (cnt (inI (Z.of_N win) lo) pre)) (max_list (spec_counts win pre ts)).
Proof.
  intros win lo. induction ts as [|t rest IH]; intros pre.
  - rewrite app_nil_r. lia.
  - replace (pre ++ t :: rest) with ((pre ++ [t]) ++ rest) by (rewrite <- app_assoc; reflexivity).
    specialize (IH (pre ++ [t])). cbn [spec_counts]. rewrite max_list_cons.
    assert (Hh : (cnt (inI (Z.of_N win) lo) (pre ++ [t])
                  <= Nat.max (cnt (inI (Z.of_N win) lo) pre) (cnt (fresh win t) (pre ++ [t])))%nat).
    { destruct (inI (Z.of_N win) lo t) eqn:Et.
      - apply Nat.le_trans with (cnt (fresh win t) (pre ++ [t])); [|lia].
        apply cnt_impl. intros x _ Hx. unfold inI, fresh in *.
        apply Bool.andb_true_iff in Et. destruct Et as [Et1 Et2].
        apply Bool.andb_true_iff in Hx. destruct Hx as [Hx1 Hx2].
        apply Z.leb_le in Et1, Et2, Hx1, Hx2. apply Z.leb_le. lia.
      - rewrite cnt_app. unfold cnt at 2. cbn [filter]. rewrite Et. cbn [length]. lia. }
    lia.
Qed.

(** ** Ten classes *)

Definition ks10 : list Z := [0; 1; 2; 3; 4; 5; 6; 7; 8; 9]%Z.

Lemma ten_classes : forall p t x, (0 <= p)%Z -> (x <= t)%Z -> (t - x <= 10 * p)%Z ->
  existsb (fun k => inI p (t - (k + 1) * p) x) ks10 = true.
Proof.
  intros p t x Hp Hx Hd. unfold ks10. cbn [existsb]. unfold inI.
  rewrite !Bool.orb_true_iff, !Bool.andb_true_iff, !Z.leb_le. lia.
Qed.

Lemma spec_ten : forall win1 win10, Z.of_N win10 = (10 * Z.of_N win1)%Z ->
  forall (B : nat) ts pre, SS (pre ++ ts) ->
  (forall lo, (cnt (inI (Z.of_N win1) lo) (pre ++ ts) <= B)%nat) ->
  forall c, In c (spec_counts win10 pre ts) -> c <= 10 * N.of_nat B.
Proof.
  intros win1 win10 Ew B. induction ts as [|t rest IH]; intros pre Hs HB c Hin; [destruct Hin|].
  destruct (SS_mid _ _ _ Hs) as (Hs1 & Hs2 & Hle).
  assert (E : pre ++ t :: rest = (pre ++ [t]) ++ rest) by (rewrite <- app_assoc; reflexivity).
  cbn [spec_counts] in Hin. destruct Hin as [Ec|Hin].
  - subst c.
    set (L := pre ++ [t]).
    assert (H1 : (cnt (fresh win10 t) L
                  <= cnt (fun x => existsb (fun k => inI (Z.of_N win1) (t - (k + 1) * Z.of_N win1) x) ks10) L)%nat).
    { apply cnt_impl. intros x Hx Hf. apply ten_classes; [lia| |].
      - unfold L in Hx. apply in_app_or in Hx. destruct Hx as [Hx|[Hx|[]]]; [apply Hle; exact Hx | subst; lia].
      - unfold fresh in Hf. apply Z.leb_le in Hf. lia. }
    pose proof (cnt_existsb _ _ (fun k => inI (Z.of_N win1) (t - (k + 1) * Z.of_N win1)) ks10 L) as H2.
    cbv beta in H2.
    assert (H3 : (list_sum (map (fun k => cnt (inI (Z.of_N win1) (t - (k + 1) * Z.of_N win1)) L) ks10)
                  <= length ks10 * B)%nat).
    { apply list_sum_bound. intros k.
      specialize (HB (t - (k + 1) * Z.of_N win1)%Z). rewrite E, cnt_app in HB. fold L in HB. lia. }
    change (length ks10) with 10%nat in H3. lia.
  - apply (IH (pre ++ [t])); [exact Hs1 | | exact Hin].
    intros lo. rewrite <- E. apply HB.
Qed.

Lemma window_ten_gen : forall win1 win10, Z.of_N win10 = (10 * Z.of_N win1)%Z ->
  (Z.of_N win10 < Z.of_N DMAX)%Z ->
  forall ts, Sorted Z.le ts ->
  forall c, In c (win_counts win10 ts) -> c <= 10 * max_list (win_counts win1 ts).
Proof.
  intros win1 win10 Ew Hw ts Hs c Hin.
  apply Sorted_SS in Hs.
  assert (Hw1 : (Z.of_N win1 < Z.of_N DMAX)%Z) by lia.
  rewrite (win_counts_is_spec win10 ts Hw Hs) in Hin.
  rewrite (win_counts_is_spec win1 ts Hw1 Hs).
  pose proof (spec_ten win1 win10 Ew (N.to_nat (max_list (spec_counts win1 [] ts))) ts [] Hs) as H.
  cbn [app] in H. rewrite N2Nat.id in H. apply H; [|exact Hin].
  intros lo. pose proof (interval_bound win1 lo ts []) as Hb.
  cbn [app] in Hb. unfold cnt at 2 in Hb. cbn [filter length] in Hb. lia.
Qed.

Lemma WINDOW_ten : Z.of_N WINDOW = (10 * Z.of_N PARSE_WINDOW)%Z.
Proof. reflexivity. Qed.

Lemma WINDOW_lt_DMAX : (Z.of_N WINDOW < Z.of_N DMAX)%Z.
Proof. reflexivity. Qed.

Lemma PARSE_WINDOW_lt_DMAX : (Z.of_N PARSE_WINDOW < Z.of_N DMAX)%Z.
Proof. reflexivity. Qed.

(** THE LEMMA (no span hypothesis needed) *)
Theorem window_ten_strong : forall ts, Sorted Z.le ts ->
  forall c, In c (win_counts WINDOW ts) -> c <= 10 * max_list (win_counts PARSE_WINDOW ts).
Proof. apply window_ten_gen; [exact WINDOW_ten | exact WINDOW_lt_DMAX]. Qed.

Theorem window_ten : forall ts, Sorted Z.le ts ->
  (forall a b, In a ts -> In b ts -> (Z.abs (a - b) < Z.of_N DMAX)%Z) ->
  forall c, In c (win_counts WINDOW ts) -> c <= 10 * max_list (win_counts PARSE_WINDOW ts).
Proof. intros ts Hs _. apply window_ten_strong. exact Hs. Qed.

(** ** What parse_trace computes *)

Lemma parse_lines_pps : forall tr delay q sw rw smax rmax,
  snd (parse_lines tr delay q sw rw smax rmax) =
  N.max (N.max smax (max_list (win_counts_from PARSE_WINDOW sw (sends tr))))
        (N.max rmax (max_list (win_counts_from PARSE_WINDOW rw (recvs tr)))) * 10.
Proof.
  induction tr as [|[t b] rest IH]; intros delay q sw rw smax rmax.
  - cbn [parse_lines snd sends recvs filter map win_counts_from max_list fold_right]. lia.
  - destruct b.
    + cbn [parse_lines]. unfold sends, recvs. cbn [filter snd negb map fst]. cbn [win_counts_from].
      destruct (window_add_w PARSE_WINDOW sw t) as [sw' m].
      rewrite IH. unfold sends, recvs. rewrite max_list_cons. lia.
    + cbn [parse_lines]. unfold sends, recvs. cbn [filter snd negb map fst]. cbn [win_counts_from].
      destruct (window_add_w PARSE_WINDOW rw t) as [rw' m].
      rewrite IH. unfold sends, recvs. rewrite max_list_cons. lia.
Qed.

Theorem parse_trace_pps : forall tr delay,
  sq_pps (parse_trace tr delay) =
  Some (N.max (max_list (win_counts PARSE_WINDOW (sends tr))) (max_list (win_counts PARSE_WINDOW (recvs tr))) * 10).
Proof.
  intros tr delay. unfold parse_trace.
  pose proof (parse_lines_pps tr delay (mksimq evq_empty evq_empty None) [] [] 0 0) as H.
  destruct (parse_lines tr delay (mksimq evq_empty evq_empty None) [] [] 0 0) as [q pps].
  cbn [snd] in H. cbn [sq_pps]. rewrite H. unfold win_counts. f_equal. lia.
Qed.

(** ** Shifting all timestamps *)

Lemma prune_shift : forall win d t fuel w,
  prune win fuel (map (fun x => (x - d)%Z) w) (t - d)%Z = map (fun x => (x - d)%Z) (prune win fuel w t).
Proof.
  intros win d t. induction fuel as [|f IH]; intros w.
  - destruct w; reflexivity.
  - destruct w as [|x w']; [reflexivity|].
    cbn [map prune].
    replace (since (t - d) (x - d)) with (since t x) by (unfold since; f_equal; f_equal; lia).
    destruct (win <? since t x); [apply IH | reflexivity].
Qed.

Lemma win_counts_from_shift : forall win d ts w,
  win_counts_from win (map (fun x => (x - d)%Z) w) (map (fun x => (x - d)%Z) ts) = win_counts_from win w ts.
Proof.
  intros win d. induction ts as [|t rest IH]; intros w; [reflexivity|].
  cbn [map win_counts_from]. unfold window_add_w.
  rewrite map_length.
  replace (map (fun x => (x - d)%Z) w ++ [(t - d)%Z]) with (map (fun x => (x - d)%Z) (w ++ [t]))
    by (rewrite map_app; reflexivity).
  rewrite prune_shift, map_length. f_equal. apply IH.
Qed.

Lemma win_counts_shift : forall win ts d, win_counts win (map (fun t => (t - d)%Z) ts) = win_counts win ts.
Proof. intros win ts d. unfold win_counts. apply (win_counts_from_shift win d ts []). Qed.

(** ** A trace never trips the bottleneck derived from itself *)

Corollary trace_never_trips_strong : forall tr delay limit,
  Sorted Z.le (map fst tr) ->
  sq_pps (parse_trace tr delay) = Some limit ->
  (forall c, In c (win_counts WINDOW (sends tr)) -> c <= limit) /\
  (forall c, In c (win_counts WINDOW (map (fun t => (t - Z.of_N delay)%Z) (recvs tr))) -> c <= limit).
Proof.
  intros tr delay limit Hs Hl. rewrite parse_trace_pps in Hl. inversion Hl as [El]. clear Hl.
  apply Sorted_SS in Hs.
  assert (Hss : Sorted Z.le (sends tr)).
  { apply StronglySorted_Sorted. unfold sends. apply SS_map_fst_filter. exact Hs. }
  assert (Hsr : Sorted Z.le (recvs tr)).
  { apply StronglySorted_Sorted. unfold recvs. apply SS_map_fst_filter. exact Hs. }
  split; intros c Hc.
  - pose proof (window_ten_strong _ Hss c Hc). lia.
  - rewrite win_counts_shift in Hc. pose proof (window_ten_strong _ Hsr c Hc). lia.
Qed.

Corollary trace_never_trips : forall tr delay limit,
  Sorted Z.le (map fst tr) ->
  (forall a b, In a (map fst tr) -> In b (map fst tr) -> (Z.abs (a - b) < Z.of_N DMAX)%Z) ->
  sq_pps (parse_trace tr delay) = Some limit ->
  (forall c, In c (win_counts WINDOW (sends tr)) -> c <= limit) /\
  (forall c, In c (win_counts WINDOW (map (fun t => (t - Z.of_N delay)%Z) (recvs tr))) -> c <= limit).
Proof. intros tr delay limit Hs _. apply trace_never_trips_strong. exact Hs. Qed.

(** sanity (closed windows): eleven packets exactly 100 ms apart give a 1 s
    count of 11 and a maximal 100 ms count of 2 *)
Example window_ten_example :
  let ts := map (fun k => (Z.of_nat k * 100000000)%Z) (seq 0 11) in
  (max_list (win_counts WINDOW ts), max_list (win_counts PARSE_WINDOW ts)) = (11, 2).
Proof. vm_compute. reflexivity. Qed.
