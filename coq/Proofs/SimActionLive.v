(** Property C17, the converse direction at the level of whole runs: an action that is not
    superseded fires when due, before simulated time moves past it.

    [SimActionTrace.action_completion_trace] is the safety direction (every reported
    PaddingSent / BlockingBegin is caused by an earlier action). Here: for every record [j] of
    the history and every SendPadding / BlockOutgoing action [a] for machine [m] in it, as soon
    as a later record has a time beyond [due = time j + timeout a], EITHER a completion of [a]
    was reported at exactly [due] (and the cause assignment [f] of the safety theorem maps it to
    [j]) OR a newer action-timer action for [m] was returned on that side no later than [due].

    Structure
    - 1. definitions: [not_past] (no pending due time is below the current time), the four
         states of an issued action ([status]: pending in its slot / completion queued /
         completion reported / superseded), [live].
    - 2. firing a slot with the issuing record spelled out ([tinv_fire_j]).
    - 3. [live] along an abstract run of [pick_next] ([live_run]).
    - 4. taking the popped completion out of the queue ghost ([tinv_take_x]).
    - 5. what the returned actions do to one slot ([sched_after_cases], [sched_after_set]);
         appending the record ([live_append]); [not_past] through one iteration.
    - 6. the loop invariant [linv], the loop, the theorem for the instrumented loop.
    - 7. the theorems for [sim_advanced] on parsed traces ([action_fires_when_due]).
    - 8. non-vacuity: a run in which the action fires and one in which a Cancel supersedes it.

    The requested statement holds as written (no counterexample, no extra premise): a slot whose
    due time is [Duration::MAX] or more away is invisible to [peek_sched], but then every step of
    simulated time is shorter than that distance ([SimTimers.pick_next_not_past_wf]). *)
From Coq Require Import List Arith Lia Permutation ZArith Bool.
From MB Require Import Base.Prelude Model.Framework Model.Sim Proofs.Tactics Proofs.SimHeap.
From MB Require Import Proofs.SimBasics Proofs.SimReach Proofs.SimHistory Proofs.SimActionTrace.
From MB Require Proofs.SimTimers Proofs.SimBlocking Proofs.SimIdentity Proofs.SimBlockTrace.
Import ListNotations.
Open Scope N_scope.

(** * 1. Definitions *)

Definition is_spbo (a : taction) : bool :=
  match a with TSendPadding _ _ _ _ | TBlockOutgoing _ _ _ _ _ => true | _ => false end.

Lemma spbo_sched : forall a, is_spbo a = true -> is_sched_for (taction_machine a) a = true.
Proof.
  intros a H. unfold is_sched_for. rewrite N.eqb_refl. destruct a; try discriminate; reflexivity.
Qed.

Lemma completes_spbo : forall a x, completes a x -> is_spbo a = true.
Proof. intros a x H. destruct a; cbn [completes] in H; try contradiction; reflexivity. Qed.

(** no pending due time is below the current time *)
Definition not_past (st : sim) (t : Z) : Prop :=
  forall X mi a due, nth_error (slotsX st X) mi = Some (Some (a, due)) -> (t <= due)%Z.

(** no record after [j] returned an action-timer action for [m] on side [X] *)
Definition nolater (H : list hrec) (X : bool) (m : N) (j : nat) : Prop :=
  forall j' rj' a', (j < j')%nat -> nth_error H j' = Some rj' -> sdr rj' = X -> In a' (h_acts rj') ->
    is_sched_for m a' = true -> False.

Definition due_of (rj : hrec) (a : taction) : Z := (tm rj + Z.of_N (timeout_of a))%Z.

(** the state of the action [a] returned in record [j] *)
Inductive status (H : list hrec) (st : sim) (f : nat -> nat) (G : bool -> list (sev * nat))
          (j : nat) (rj : hrec) (a : taction) : Prop :=
| st_pending :
    nth_error (slotsX st (sdr rj)) (N.to_nat (taction_machine a)) = Some (Some (a, due_of rj a)) ->
    nolater H (sdr rj) (taction_machine a) j -> status H st f G j rj a
| st_queued : forall x,
    In (x, j) (G (sdr rj)) -> completes a x -> se_time x = due_of rj a -> status H st f G j rj a
| st_done : forall k rk,
    (j < k)%nat -> nth_error H k = Some rk -> sdr rk = sdr rj -> completes a (h_ev rk) ->
    tm rk = due_of rj a -> f k = j -> status H st f G j rj a
| st_super : forall j' rj' a',
    (j < j')%nat -> nth_error H j' = Some rj' -> sdr rj' = sdr rj -> In a' (h_acts rj') ->
    is_sched_for (taction_machine a) a' = true -> (tm rj' <= due_of rj a)%Z -> status H st f G j rj a.

Definition live (H : list hrec) (st : sim) (f : nat -> nat) (G : bool -> list (sev * nat)) : Prop :=
  forall j rj a, nth_error H j = Some rj -> In a (h_acts rj) -> is_spbo a = true -> status H st f G j rj a.

Lemma status_same : forall H st st1 f G j rj a,
  same_slots st st1 -> status H st f G j rj a -> status H st1 f G j rj a.
Proof.
  intros H st st1 f G j rj a Hs S. destruct S as [S1 S2|x S1 S2 S3|k rk S1 S2 S3 S4 S5 S6|j' rj' a' S1 S2 S3 S4 S5 S6].
  - apply st_pending; [rewrite Hs; exact S1|exact S2].
  - eapply st_queued; eauto.
  - eapply st_done; eauto.
  - eapply st_super; eauto.
Qed.

Lemma live_same : forall H st st1 f G, same_slots st st1 -> live H st f G -> live H st1 f G.
Proof. intros H st st1 f G Hs L j rj a Hj Ha Hsp. eapply status_same; [exact Hs|]. apply L; assumption. Qed.

(** * 2. Firing a slot, with the issuing record spelled out *)

Lemma tinv_fire_j : forall H st t f G st1 t1 X mi a x j rj,
  tinv H st t f G noex ->
  nth_error (slotsX st X) mi = Some (Some (a, t1)) ->
  slotsX st1 X = upd (slotsX st X) mi None -> slotsX st1 (negb X) = slotsX st (negb X) ->
  Permutation (cqs st1 X) (x :: cqs st X) -> Permutation (cqs st1 (negb X)) (cqs st (negb X)) ->
  completes a x -> se_time x = t1 -> se_client x = X -> (t <= t1)%Z ->
  nth_error H j = Some rj -> sdr rj = X -> In a (h_acts rj) -> nolater H X (taction_machine a) j ->
  tinv H st1 t1 f (fun Y => if Bool.eqb Y X then (x, j) :: G Y else G Y) noex.
Proof.
  intros H st t f G st1 t1 X mi a x j rj I Hn Hs1 Hs2 Hp1 Hp2 Hc Htx Hcx Ht Hj Hsj Haj Hnl.
  destruct I as [I1 I2 I3 I4 I5 I6 I7 I8].
  destruct (I2 X mi a t1 Hn) as (j1 & rj1 & J1 & J2 & J3 & J4 & J5 & J6 & J7 & J8).
  pose proof (spbo_sched _ (completes_spbo _ _ Hc)) as Hsf.
  assert (j1 = j).
  { destruct (lt_eq_lt_dec j1 j) as [[L|E]|L]; [|exact E|].
    - exfalso. apply (J6 j rj a L Hj Hsj Haj Hsf).
    - exfalso. apply (Hnl j1 rj1 a L J1 J2 J3 Hsf). }
  subst j1. rewrite Hj in J1. injection J1 as <-.
  destruct (completes_compl _ _ Hc) as [Hcb Hcm].
  assert (HnegX : Bool.eqb (negb X) X = false) by (destruct X; reflexivity).
  constructor.
  - intros r Hr. specialize (I1 r Hr). lia.
  - intros Y mi' a' due' Hn'.
    assert (Ho : slot_ok H f G Y mi' a' due' /\ (Y = X -> mi <> mi')).
    { destruct (Bool.bool_dec Y X) as [->|Hne].
      - rewrite Hs1 in Hn'. apply nth_upd_none_other in Hn'. destruct Hn' as [Hn' Hd]. split; [apply I2; exact Hn'|auto].
      - assert (Y = negb X) as -> by (destruct Y, X; try reflexivity; elim Hne; reflexivity).
        rewrite Hs2 in Hn'. split; [apply I2; exact Hn'|]. intros E. destruct X; discriminate. }
    destruct Ho as [(j' & rj' & K1 & K2 & K3 & K4 & K5 & K6 & K7 & K8) Hd].
    exists j', rj'. repeat (split; [assumption|]).
    intros x0 j0 Hin Hm.
    destruct (Bool.eqb Y X) eqn:EY; [|eapply K8; eauto].
    apply Bool.eqb_prop in EY.
    destruct Hin as [Hin|Hin]; [|eapply K8; eauto].
    injection Hin as <- <-. exfalso. apply (Hd EY). rewrite <- J4, <- K4. f_equal. congruence.
  - intros Y. cbn [noex app]. destruct (Bool.bool_dec Y X) as [->|Hne].
    + rewrite Bool.eqb_reflx. cbn [map fst]. eapply perm_trans; [|apply Permutation_sym; exact Hp1].
      apply perm_skip. apply (I3 X).
    + assert (Y = negb X) as -> by (destruct Y, X; try reflexivity; elim Hne; reflexivity).
      rewrite HnegX. eapply perm_trans; [apply (I3 (negb X))|]. apply Permutation_sym. exact Hp2.
  - intros Y x0 j0 Hin.
    assert (Hold : In (x0, j0) (G Y) -> se_client x0 = Y /\ cause H (length H) x0 j0 /\ (se_time x0 <= t1)%Z).
    { intros Hi. destruct (I4 Y x0 j0 Hi) as (A & B & C). split; [exact A|]. split; [exact B|lia]. }
    destruct (Bool.eqb Y X) eqn:EY; [|auto].
    apply Bool.eqb_prop in EY. subst Y.
    destruct Hin as [Hin|Hin]; [|auto]. injection Hin as <- <-.
    split; [exact Hcx|]. split; [|lia].
    exists rj, a. split; [apply nth_error_Some; congruence|]. split; [exact Hj|]. split; [congruence|].
    split; [exact J3|]. split; [congruence|]. split; [exact Hc|]. split; [congruence|].
    intros j' rj' a' Hj' Hnj' Hsd' Hin' Hsf'. exfalso.
    apply (J6 j' rj' a'); try assumption; [lia|congruence|congruence].
  - intros Y. destruct (Bool.eqb Y X) eqn:EY; [|apply I5].
    apply Bool.eqb_prop in EY. subst Y. cbn [map]. constructor; [|apply I5].
    intros Hin. apply in_map_iff in Hin. destruct Hin as ([x0 j0] & Ht0 & Hin0).
    unfold tok in Ht0. cbn [fst snd] in Ht0. injection Ht0 as Hm0 ->.
    apply (J8 x0 j Hin0); [congruence|reflexivity].
  - exact I6.
  - exact I7.
  - intros k rk x0 j0 Hk Hcb0 Hin Hm.
    destruct (Bool.eqb (sdr rk) X) eqn:EY; [|eapply I8; eauto].
    apply Bool.eqb_prop in EY.
    destruct Hin as [Hin|Hin]; [|eapply I8; eauto].
    injection Hin as <- <-. apply (J7 k rk Hk EY Hcb0). congruence.
Qed.

(** * 3. [live] along an abstract run of [pick_next] *)

Lemma nth_upd_other : forall {A} (l : list A) i j x, i <> j -> nth_error (upd l i x) j = nth_error l j.
Proof.
  intros A l. induction l as [|a l IH]; intros [|i] [|j] x H; cbn [upd nth_error]; try reflexivity.
  - contradiction.
  - apply IH. congruence.
Qed.

Theorem live_run : forall st t r st', pn_run st t r st' ->
  forall H f G, tinv H st t f G noex -> live H st f G ->
  match r with
  | None => True
  | Some e => exists G', tinv H st' (se_time e) f G' (ex_of e) /\ live H st' f G'
  end.
Proof.
  intros st t r st' R.
  induction R as [st t|st t st1 t1 r st' Hs Hc Ht _ _ IH
                 |st t st1 t1 r st' X mi a x Hn Hs1 Hs2 Hp1 Hp2 Hcm Htx Hcx Ht _ _ IH
                 |st t e st' He Hs Hc Ht _|st t e st' He Hs Hp1 Hp2 Ht _]; intros H f G I L.
  - exact Logic.I.
  - apply (IH H f G).
    + eapply tinv_move; [exact I|exact Hs| |exact Ht].
      intros X. cbn [noex app]. apply Permutation_sym. apply Hc.
    + eapply live_same; [exact Hs|exact L].
  - destruct (ti_slot _ _ _ _ _ _ I X mi a t1 Hn) as (j & rj & J1 & J2 & J3 & J4 & J5 & J6 & _ & _).
    pose proof (tinv_fire_j _ _ _ _ _ _ _ _ _ _ _ j rj I Hn Hs1 Hs2 Hp1 Hp2 Hcm Htx Hcx Ht J1 J2 J3 J6) as I'.
    apply (IH H f _ I').
    intros j0 rj0 a0 Hj0 Ha0 Hsp0.
    destruct (L j0 rj0 a0 Hj0 Ha0 Hsp0) as [S1 S2|x0 S1 S2 S3|k rk S1 S2 S3 S4 S5 S6|j' rj' a' S1 S2 S3 S4 S5 S6].
    + destruct (Bool.bool_dec (sdr rj0) X) as [EX|NX].
      * destruct (Nat.eq_dec mi (N.to_nat (taction_machine a0))) as [Em|Nm].
        -- (* the fired slot is the one of this record *)
           rewrite EX, <- Em, Hn in S1. injection S1 as Ea Ed. subst a0.
           assert (j0 = j).
           { pose proof (spbo_sched _ Hsp0) as Hsf.
             destruct (lt_eq_lt_dec j0 j) as [[Lt|E]|Lt]; [|exact E|].
             - exfalso. rewrite EX in S2. apply (S2 j rj a Lt J1 J2 J3 Hsf).
             - exfalso. apply (J6 j0 rj0 a Lt Hj0 EX Ha0 Hsf). }
           subst j0. apply (st_queued _ _ _ _ _ _ _ x); [|exact Hcm|congruence].
           rewrite EX, Bool.eqb_reflx. left. reflexivity.
        -- apply st_pending; [|exact S2]. rewrite EX, Hs1. rewrite nth_upd_other by exact Nm.
           rewrite <- EX. exact S1.
      * apply st_pending; [|exact S2].
        assert (sdr rj0 = negb X) as E by (destruct (sdr rj0), X; try reflexivity; elim NX; reflexivity).
        rewrite E, Hs2, <- E. exact S1.
    + apply (st_queued _ _ _ _ _ _ _ x0); [|exact S2|exact S3].
      destruct (Bool.eqb (sdr rj0) X); [right|]; exact S1.
    + eapply st_done; eauto.
    + eapply st_super; eauto.
  - exists G. split.
    + eapply tinv_move; [exact I|exact Hs| |exact Ht].
      intros X. rewrite (ex_of_other _ _ He). cbn [noex app]. apply Permutation_sym. apply Hc.
    + eapply live_same; [exact Hs|exact L].
  - exists G. split.
    + eapply tinv_move; [exact I|exact Hs| |exact Ht].
      intros X. cbn [noex app]. unfold ex_of. rewrite He. cbn [andb].
      destruct (Bool.eqb (se_client e) X) eqn:EX.
      * apply Bool.eqb_prop in EX. subst X. cbn [app]. exact Hp1.
      * assert (X = negb (se_client e)) as -> by (destruct X, (se_client e); try reflexivity; discriminate).
        cbn [app]. apply Permutation_sym. exact Hp2.
    + eapply live_same; [exact Hs|exact L].
Qed.

(** * 4. Taking the popped completion out of the queue ghost *)

(** [SimActionTrace.tinv_take] with one more fact: a queued token either stays queued or is the
    one that was taken *)
Lemma tinv_take_x : forall H st t f G e,
  tinv H st t f G (ex_of e) ->
  exists f' G',
    (forall i, (i < length H)%nat -> f' i = f i) /\
    (forall X x j, In (x, j) (G' X) -> In (x, j) (G X)) /\
    (forall X, NoDup (map tok (G' X))) /\
    (forall X, Permutation (map fst (G' X)) (cqs st X)) /\
    (is_complb e = true ->
       In (e, f' (length H)) (G (se_client e)) /\
       forall x j, In (x, j) (G' (se_client e)) -> cmach x = cmach e -> j <> f' (length H)) /\
    (forall X x j, In (x, j) (G X) -> In (x, j) (G' X) \/ (X = se_client e /\ x = e /\ j = f' (length H))).
Proof.
  intros H st t f G e I. destruct I as [I1 I2 I3 I4 I5 I6 I7 I8].
  destruct (is_complb e) eqn:Ec.
  - pose proof (I3 (se_client e)) as P. unfold ex_of in P. rewrite Ec, Bool.eqb_reflx in P. cbn [andb app] in P.
    assert (Hin : In e (map fst (G (se_client e)))).
    { apply (Permutation_in _ (Permutation_sym P)). left. reflexivity. }
    apply in_map_iff in Hin. destruct Hin as ([e0 j] & He0 & Hin). cbn [fst] in He0. subst e0.
    destruct (in_split _ _ Hin) as (G1 & G2 & EG).
    exists (fun i => if Nat.eqb i (length H) then j else f i),
           (fun X => if Bool.eqb (se_client e) X then G1 ++ G2 else G X).
    split; [|split; [|split; [|split; [|split]]]].
    + intros i Hi. destruct (Nat.eqb_spec i (length H)); [lia|reflexivity].
    + intros X x j0 Hx. destruct (Bool.eqb (se_client e) X) eqn:EX; [|exact Hx].
      apply Bool.eqb_prop in EX. subst X. rewrite EG. apply in_app_or in Hx. apply in_or_app.
      destruct Hx; [left|right; right]; assumption.
    + intros X. destruct (Bool.eqb (se_client e) X) eqn:EX; [|apply I5].
      apply Bool.eqb_prop in EX. subst X.
      pose proof (I5 (se_client e)) as N. rewrite EG, map_app in N. cbn [map] in N.
      rewrite map_app. eapply NoDup_remove_1. exact N.
    + intros X. destruct (Bool.eqb (se_client e) X) eqn:EX.
      * apply Bool.eqb_prop in EX. subst X. rewrite EG, map_app in P. cbn [map fst] in P.
        rewrite map_app. apply Permutation_sym. eapply Permutation_cons_app_inv.
        apply Permutation_sym. exact P.
      * pose proof (I3 X) as P'. unfold ex_of in P'. rewrite Ec, EX in P'. exact P'.
    + intros _. rewrite Nat.eqb_refl, Bool.eqb_reflx. split; [exact Hin|].
      intros x j0 Hx Hm ->.
      pose proof (I5 (se_client e)) as N. rewrite EG, map_app in N. cbn [map] in N.
      apply NoDup_remove_2 in N. apply N. rewrite <- map_app.
      apply in_map_iff. exists (x, j). split; [|exact Hx]. unfold tok. cbn [fst snd]. congruence.
    + intros X x j0 Hx. rewrite Nat.eqb_refl.
      destruct (Bool.eqb (se_client e) X) eqn:EX; [|left; exact Hx].
      apply Bool.eqb_prop in EX. subst X. rewrite EG in Hx. apply in_app_or in Hx.
      destruct Hx as [Hx|[Hx|Hx]].
      * left. apply in_or_app. left. exact Hx.
      * right. injection Hx as <- <-. auto.
      * left. apply in_or_app. right. exact Hx.
  - exists f, G. split; [reflexivity|]. split; [auto|]. split; [exact I5|]. split; [|split; [discriminate|auto]].
    intros X. pose proof (I3 X) as P. rewrite (ex_of_other _ _ Ec) in P. exact P.
Qed.

(** * 5. Appending the record of the returned event *)

(** what a list of returned actions does to one slot: nothing, unless it names the machine *)
Lemma sched_step_irrel : forall t mi cur a0,
  (Nat.eqb (N.to_nat (taction_machine a0)) mi && sched_rel a0) = false ->
  SimTimers.sched_step t mi cur a0 = cur.
Proof.
  intros t mi cur a0 H. unfold SimTimers.sched_step.
  destruct (Nat.eqb (N.to_nat (taction_machine a0)) mi); [|reflexivity].
  cbn [andb] in H. destruct a0 as [m tmr|m tmo by_ rp|m tmo dur by_ rp|m dur rp]; cbn [sched_rel] in H;
    try discriminate; try reflexivity.
  destruct tmr; try discriminate; reflexivity.
Qed.

Lemma sched_after_cases : forall acts t mi cur,
  (SimTimers.sched_after acts t mi cur = cur /\
   forall a', In a' acts -> N.to_nat (taction_machine a') = mi -> sched_rel a' = false) \/
  (exists a', In a' acts /\ N.to_nat (taction_machine a') = mi /\ sched_rel a' = true).
Proof.
  unfold SimTimers.sched_after.
  induction acts as [|a0 rest IH]; intros t mi cur; cbn [fold_left].
  - left. split; [reflexivity|]. intros a' [].
  - destruct (Nat.eqb (N.to_nat (taction_machine a0)) mi && sched_rel a0) eqn:E.
    + right. apply andb_prop in E. destruct E as [E1 E2]. apply Nat.eqb_eq in E1.
      exists a0. split; [left; reflexivity|auto].
    + rewrite (sched_step_irrel _ _ _ _ E).
      destruct (IH t mi cur) as [[Eq Hno]|(a' & Hin & Hm & Hr)].
      * left. split; [exact Eq|]. intros a' [<-|Hin] Hm; [|auto].
        apply Nat.eqb_eq in Hm. rewrite Hm in E. exact E.
      * right. exists a'. split; [right; exact Hin|auto].
Qed.

Lemma sched_step_set : forall t cur a,
  is_spbo a = true ->
  SimTimers.sched_step t (N.to_nat (taction_machine a)) cur a = Some (a, (t + Z.of_N (timeout_of a))%Z).
Proof.
  intros t cur a H. unfold SimTimers.sched_step. rewrite Nat.eqb_refl.
  destruct a; try discriminate; reflexivity.
Qed.

Lemma sched_after_fix : forall acts t a,
  is_spbo a = true ->
  (forall a', In a' acts -> taction_machine a' = taction_machine a -> a' = a) ->
  SimTimers.sched_after acts t (N.to_nat (taction_machine a)) (Some (a, (t + Z.of_N (timeout_of a))%Z))
  = Some (a, (t + Z.of_N (timeout_of a))%Z).
Proof.
  unfold SimTimers.sched_after.
  induction acts as [|a0 rest IH]; intros t a Hsp Hu; cbn [fold_left]; [reflexivity|].
  assert (E : SimTimers.sched_step t (N.to_nat (taction_machine a)) (Some (a, (t + Z.of_N (timeout_of a))%Z)) a0
              = Some (a, (t + Z.of_N (timeout_of a))%Z)).
  { destruct (Nat.eqb (N.to_nat (taction_machine a0)) (N.to_nat (taction_machine a))) eqn:Em.
    - apply Nat.eqb_eq in Em. apply N2Nat.inj in Em.
      rewrite (Hu a0 (or_introl eq_refl) Em). apply sched_step_set. exact Hsp.
    - apply sched_step_irrel. rewrite Em. reflexivity. }
  rewrite E. apply IH; [exact Hsp|]. intros a' Hin. apply Hu. right. exact Hin.
Qed.

Lemma sched_after_set : forall acts t a,
  In a acts -> is_spbo a = true ->
  (forall a', In a' acts -> taction_machine a' = taction_machine a -> a' = a) ->
  forall cur, SimTimers.sched_after acts t (N.to_nat (taction_machine a)) cur
              = Some (a, (t + Z.of_N (timeout_of a))%Z).
Proof.
  induction acts as [|a0 rest IH]; intros t a Hin Hsp Hu cur; [destruct Hin|].
  change (SimTimers.sched_after (a0 :: rest) t (N.to_nat (taction_machine a)) cur)
    with (SimTimers.sched_after rest t (N.to_nat (taction_machine a))
            (SimTimers.sched_step t (N.to_nat (taction_machine a)) cur a0)).
  assert (Hu' : forall a', In a' rest -> taction_machine a' = taction_machine a -> a' = a).
  { intros a' H'. apply Hu. right. exact H'. }
  destruct (Nat.eqb (N.to_nat (taction_machine a0)) (N.to_nat (taction_machine a))) eqn:Em.
  - apply Nat.eqb_eq in Em. apply N2Nat.inj in Em.
    rewrite (Hu a0 (or_introl eq_refl) Em). rewrite sched_step_set by exact Hsp.
    apply sched_after_fix; assumption.
  - destruct Hin as [->|Hin]; [rewrite Nat.eqb_refl in Em; discriminate|].
    apply IH; assumption.
Qed.

Lemma is_sched_for_intro : forall m a, taction_machine a = m -> sched_rel a = true -> is_sched_for m a = true.
Proof. intros m a H1 H2. rewrite is_sched_for_eq, H1, N.eqb_refl, H2. reflexivity. Qed.

Lemma live_append : forall H st' t f G e acts st3 f' G',
  live H st' f G -> not_past st' t -> t = se_time e ->
  (forall i, (i < length H)%nat -> f' i = f i) ->
  (forall X x j, In (x, j) (G X) -> In (x, j) (G' X) \/ (X = se_client e /\ x = e /\ j = f' (length H))) ->
  slotsX st3 (negb (se_client e)) = slotsX st' (negb (se_client e)) ->
  (forall mi cur, nth_error (slotsX st' (se_client e)) mi = Some cur ->
     nth_error (slotsX st3 (se_client e)) mi = Some (SimTimers.sched_after acts t mi cur)) ->
  (forall a, In a acts -> is_spbo a = true ->
     (N.to_nat (taction_machine a) < length (slotsX st' (se_client e)))%nat) ->
  (forall a a', In a acts -> In a' acts -> taction_machine a = taction_machine a' -> a = a') ->
  live (H ++ [mkhrec e acts]) st3 f' G'.
Proof.
  intros H st' t f G e acts st3 f' G' L NP Ht A1 A6 Hso Hsa Hidx Hu.
  set (rnew := mkhrec e acts).
  assert (Htm : tm rnew = t) by (unfold tm, rnew; cbn [h_ev]; congruence).
  assert (Hsd : sdr rnew = se_client e) by reflexivity.
  intros j rj a Hj Ha Hsp.
  apply nth_snoc_inv in Hj. destruct Hj as [[Lj Hj]|[-> ->]].
  - destruct (L j rj a Hj Ha Hsp) as [S1 S2|x S1 S2 S3|k rk S1 S2 S3 S4 S5 S6|j' rj' a' S1 S2 S3 S4 S5 S6].
    + destruct (SimBlockTrace.negb_cases (se_client e) (sdr rj)) as [E|E].
      * (* the side of the new record *)
        pose proof S1 as S1'. rewrite E in S1'. apply Hsa in S1'.
        destruct (sched_after_cases acts t (N.to_nat (taction_machine a)) (Some (a, due_of rj a)))
          as [[Eq Hno]|(a' & Hin' & Hm' & Hr')].
        -- apply st_pending.
           ++ rewrite E, S1', Eq. reflexivity.
           ++ intros j' rj' a' Hlt Hn' Hs' Hin' Hsf. apply nth_snoc_inv in Hn'.
              destruct Hn' as [[_ Hn']|[_ ->]]; [apply (S2 j' rj' a' Hlt Hn' Hs' Hin' Hsf)|].
              apply is_sched_for_inv in Hsf. destruct Hsf as [Hm' Hr'].
              cbn [rnew h_acts] in Hin'. rewrite (Hno a' Hin') in Hr'; [discriminate|congruence].
        -- apply (st_super _ _ _ _ _ _ _ (length H) rnew a').
           ++ exact Lj.
           ++ apply nth_snoc_last.
           ++ congruence.
           ++ exact Hin'.
           ++ apply is_sched_for_intro; [apply N2Nat.inj; exact Hm'|exact Hr'].
           ++ rewrite Htm. apply (NP _ _ _ _ S1).
      * apply st_pending.
        -- rewrite E, Hso, <- E. exact S1.
        -- intros j' rj' a' Hlt Hn' Hs' Hin' Hsf. apply nth_snoc_inv in Hn'.
           destruct Hn' as [[_ Hn']|[_ ->]]; [apply (S2 j' rj' a' Hlt Hn' Hs' Hin' Hsf)|].
           rewrite Hsd, E in Hs'. destruct (se_client e); discriminate.
    + destruct (A6 _ _ _ S1) as [Hin|(EX & -> & Ej)].
      * eapply st_queued; eauto.
      * apply (st_done _ _ _ _ _ _ _ (length H) rnew).
        -- exact Lj.
        -- apply nth_snoc_last.
        -- congruence.
        -- exact S2.
        -- rewrite Htm, Ht. exact S3.
        -- symmetry. exact Ej.
    + apply (st_done _ _ _ _ _ _ _ k rk); try assumption.
      * apply nth_snoc_lt. exact S2.
      * rewrite A1; [exact S6|]. apply nth_error_Some. congruence.
    + apply (st_super _ _ _ _ _ _ _ j' rj' a'); try assumption. apply nth_snoc_lt. exact S2.
  - (* the new record: its action sits in the slot *)
    cbn [rnew h_acts] in Ha. apply st_pending.
    + rewrite Hsd.
      destruct (sh_nth_some _ _ (Hidx a Ha Hsp)) as (cur & Hcur).
      rewrite (Hsa _ _ Hcur). f_equal.
      unfold due_of. rewrite Htm. apply sched_after_set; [exact Ha|exact Hsp|].
      intros a' Hin' Hm'. apply Hu; assumption.
    + intros j' rj' a' Hlt Hn'.
      assert (Lt : (j' < length (H ++ [rnew]))%nat) by (apply nth_error_Some; congruence).
      rewrite app_length in Lt. cbn [length] in Lt. lia.
Qed.

(** ** [not_past] through one iteration *)

Lemma not_past_pick : forall fuel st t e st',
  SimTimers.sq_wf (m_sq st) -> not_past st t -> pick_next fuel st t = Ok (Some e, st') ->
  not_past st' (se_time e).
Proof.
  intros fuel st t e st' W NP H X mi a due Hn.
  destruct (SimTimers.pick_next_slots_sub _ _ _ _ _ H) as (A1 & A2 & _).
  assert (Hold : nth_error (slotsX st X) mi = Some (Some (a, due))).
  { unfold slotsX in *. destruct X; [apply A1|apply A2]; exact Hn. }
  apply (SimTimers.pick_next_not_past_wf _ _ _ _ _ W H); [|apply (NP _ _ _ _ Hold)].
  unfold SimTimers.pending. rewrite !in_app_iff, !SimTimers.in_due_times.
  unfold slotsX in Hn. destruct X; [left|right; left]; eauto.
Qed.

Lemma not_past_append : forall st' t e acts st3,
  not_past st' t ->
  slotsX st3 (negb (se_client e)) = slotsX st' (negb (se_client e)) ->
  length (slotsX st3 (se_client e)) = length (slotsX st' (se_client e)) ->
  (forall mi cur, nth_error (slotsX st' (se_client e)) mi = Some cur ->
     nth_error (slotsX st3 (se_client e)) mi = Some (SimTimers.sched_after acts t mi cur)) ->
  not_past st3 t.
Proof.
  intros st' t e acts st3 NP Hso Hlen Hsa X mi a due Hn.
  destruct (SimBlockTrace.negb_cases (se_client e) X) as [->| ->].
  - assert (Hcur : exists cur, nth_error (slotsX st' (se_client e)) mi = Some cur).
    { apply sh_nth_some. rewrite <- Hlen. apply nth_error_Some. congruence. }
    destruct Hcur as (cur & Hcur). rewrite (Hsa _ _ Hcur) in Hn. injection Hn as Hn.
    apply sched_after_some in Hn. destruct Hn as [[-> _]|(_ & _ & ->)]; [apply (NP _ _ _ _ Hcur)|lia].
  - rewrite Hso in Hn. apply (NP _ _ _ _ Hn).
Qed.

(** a successful [apply_actions] only names slots that exist *)
Lemma apply_actions_idx : forall acts sd sq nowt ic sd' sq',
  apply_actions acts sd sq nowt ic = Ok (sd', sq') ->
  forall a, In a acts -> is_spbo a = true -> (N.to_nat (taction_machine a) < length (s_sched sd))%nat.
Proof.
  induction acts as [|a0 rest IH]; intros sd sq nowt ic sd' sq' H a Hin Hsp; [destruct Hin|].
  rewrite SimTimers.apply_actions_cons in H. mbind H as p E. destruct p as [sd1 sq1].
  destruct Hin as [->|Hin].
  - unfold SimTimers.apply1 in E. destruct a; try discriminate Hsp.
    + mbind E as u Eg. apply get_ok in Eg. apply nth_error_Some. congruence.
    + mbind E as u Eg. apply get_ok in Eg. apply nth_error_Some. congruence.
  - destruct (SimTimers.apply1_spec _ _ _ _ _ _ _ E) as (L1 & _).
    rewrite <- L1. eapply IH; eauto.
Qed.

(** * 6. The loop *)

(** record times never decrease *)
Definition hsorted (H : list hrec) : Prop :=
  forall i j ri rj, (i < j)%nat -> nth_error H i = Some ri -> nth_error H j = Some rj -> (tm ri <= tm rj)%Z.

Lemma hsorted_snoc : forall H r, hsorted H -> (forall r0, In r0 H -> (tm r0 <= tm r)%Z) -> hsorted (H ++ [r]).
Proof.
  intros H r HS Hle i j ri rj Hij Hi Hj.
  apply nth_snoc_inv in Hj. destruct Hj as [[Lj Hj]|[-> ->]].
  - apply nth_snoc_inv in Hi. destruct Hi as [[_ Hi]|[-> _]]; [|lia].
    apply (HS i j ri rj Hij Hi Hj).
  - apply nth_snoc_inv in Hi. destruct Hi as [[_ Hi]|[-> _]]; [|lia].
    apply Hle. eapply nth_error_In. exact Hi.
Qed.

Record linv (H : list hrec) (st : sim) (t : Z) (f : nat -> nat) (G : bool -> list (sev * nat)) : Prop := mk_linv {
  lv_sq : SimBlocking.sq_inv (m_sq st);
  lv_hp : hpi (m_sq st);
  lv_qge : qge st t;
  lv_t : tinv H st t f G noex;
  lv_u : SimBlockTrace.huniq H;
  lv_np : not_past st t;
  lv_live : live H st f G;
  lv_sorted : hsorted H
}.

(** one iteration of the main loop *)
Lemma iter_linv : forall cc sc tp st t next st1 sq2 net2 act X sd' sq3 pos3 H f G,
  linv H st t f G ->
  pick_next (pn_fuel st) st t = Ok (Some next, st1) ->
  sim_network_stack next (m_sq st1) (if se_client next then s_bbypass (m_c st1) else s_bbypass (m_s st1))
                    (m_net st1) (se_time next) = Ok (sq2, net2, act) ->
  se_client next = X ->
  trigger_update (if X then cc else sc) tp (if X then m_c st1 else m_s st1) (m_pos st1) next (se_time next) sq2 X
    = Ok (sd', sq3, pos3) ->
  let st3 := mksim sq3 (if X then sd' else m_c st1) (if X then m_s st1 else sd') net2 pos3 in
  exists f' G', linv (H ++ [mkhrec next (acts_for cc sc tp st1 next)]) st3 (se_time next) f' G'.
Proof.
  intros cc sc tp st t next st1 sq2 net2 act X sd' sq3 pos3 H f G [Hinv Hh Hq I HU NP L HS] Ep En HX Et st3.
  destruct (pick_next_run _ _ _ _ _ (proj1 Hinv) Hh Hq Ep) as [R Hh1].
  destruct (pn_run_qge _ _ _ _ R next eq_refl) as [Hq1 Ht1].
  destruct (live_run _ _ _ _ R H f G I L) as (G1 & I1 & L1).
  pose proof (not_past_pick _ _ _ _ _ (wf_simq_sq_wf _ (proj1 Hinv)) NP Ep) as NP1.
  pose proof (SimBlocking.pick_next_inv _ _ _ _ _ Hinv Ep) as Hinv1.
  pose proof (SimBlocking.network_stack_inv _ _ _ _ _ _ _ _ Hinv1 En) as Hinv2.
  destruct (network_stack_cq _ _ _ _ _ _ _ _ (proj1 Hinv1) En) as [P2 Hh2].
  pose proof (SimBlocking.trigger_update_inv _ _ _ _ _ _ _ _ _ _ _ Hinv2 Et) as Hinv3.
  destruct (trigger_update_spec _ _ _ _ _ _ _ _ _ _ _ Et) as (fw' & acts & Ete & Ea).
  destruct (apply_actions_cq _ _ _ _ _ _ _ Ea) as [P3 Hh3].
  destruct (SimTimers.apply_actions_spec _ _ _ _ _ _ _ Ea) as (L1' & _ & S1 & _).
  pose proof (apply_actions_idx _ _ _ _ _ _ _ Ea) as Hidx.
  cbn [side_set_fw s_sched] in L1', S1, Hidx.
  assert (Hacts : acts_for cc sc tp st1 next = acts).
  { unfold acts_for. rewrite HX. rewrite Ete. reflexivity. }
  assert (Hcq : same_cq st1 st3).
  { intros Y. unfold cqs, st3. cbn [m_sq]. eapply perm_trans; [apply P3|apply P2]. }
  destruct (tinv_take_x _ _ _ _ _ _ I1) as (f' & G' & A1 & A2 & A3 & A4 & A5 & A6).
  set (r := mkhrec next (acts_for cc sc tp st1 next)).
  assert (Hso : slotsX st3 (negb X) = slotsX st1 (negb X)).
  { unfold slotsX, st3. destruct X; reflexivity. }
  assert (Hlen : length (slotsX st3 X) = length (slotsX st1 X)).
  { unfold slotsX, st3. destruct X; cbn [m_c m_s]; exact L1'. }
  assert (Hsa : forall mi cur, nth_error (slotsX st1 X) mi = Some cur ->
            nth_error (slotsX st3 X) mi = Some (SimTimers.sched_after acts (se_time next) mi cur)).
  { unfold slotsX, st3. destruct X; cbn [m_c m_s]; exact S1. }
  assert (Hidx' : forall a, In a acts -> is_spbo a = true -> (N.to_nat (taction_machine a) < length (slotsX st1 X))%nat).
  { unfold slotsX. destruct X; exact Hidx. }
  exists f', G'. constructor.
  - exact Hinv3.
  - apply Hh3. apply Hh2. exact Hh1.
  - intros Y x Hx. apply (Permutation_in _ (Hcq Y)) in Hx. apply (Hq1 Y x Hx).
  - unfold r. rewrite Hacts.
    apply (SimBlockTrace.tinv_append_x H st1 (se_time next) f G1 next acts st3 f' G' I1 eq_refl A1 A2 A3 A4 A5);
      rewrite ?HX; assumption.
  - apply SimBlockTrace.huniq_snoc. exact HU.
  - apply (not_past_append st1 (se_time next) next acts st3 NP1); rewrite ?HX; assumption.
  - unfold r. rewrite Hacts.
    apply (live_append H st1 (se_time next) f G1 next acts st3 f' G' L1 NP1 eq_refl A1 A6); rewrite ?HX; try assumption.
    rewrite <- Hacts. intros a a'. apply SimBlockTrace.acts_for_uniq.
  - apply hsorted_snoc; [exact HS|].
    intros r0 Hr0. unfold r, tm at 2. cbn [h_ev]. apply (ti_time _ _ _ _ _ _ I1 r0 Hr0).
Qed.

(** the liveness property of a history with cause assignment [f] *)
Definition liveP (H : list hrec) (f : nat -> nat) : Prop :=
  forall j rj a k' rk',
    nth_error H j = Some rj -> In a (h_acts rj) -> is_spbo a = true ->
    (j < k')%nat -> nth_error H k' = Some rk' -> (due_of rj a < tm rk')%Z ->
    (exists k rk, (j < k < k')%nat /\ nth_error H k = Some rk /\ sdr rk = sdr rj /\ completes a (h_ev rk) /\
                  tm rk = due_of rj a /\ f k = j) \/
    (exists j' rj' a', (j < j' < k')%nat /\ nth_error H j' = Some rj' /\ sdr rj' = sdr rj /\ In a' (h_acts rj') /\
                  is_sched_for (taction_machine a) a' = true /\ (tm rj' <= due_of rj a)%Z).

Lemma sorted_lt : forall H k k' rk rk', hsorted H -> nth_error H k = Some rk -> nth_error H k' = Some rk' ->
  (tm rk < tm rk')%Z -> (k < k')%nat.
Proof.
  intros H k k' rk rk' HS Hk Hk' Hlt.
  destruct (lt_eq_lt_dec k k') as [[L|E]|L]; [exact L| |].
  - subst k'. rewrite Hk in Hk'. injection Hk' as <-. lia.
  - pose proof (HS k' k rk' rk L Hk' Hk). lia.
Qed.

Lemma linv_liveP : forall H st t f G, linv H st t f G -> liveP H f.
Proof.
  intros H st t f G [Hinv Hh Hq I HU NP L HS] j rj a k' rk' Hj Ha Hsp Hjk Hk' Hdue.
  assert (Hk't : (tm rk' <= t)%Z) by (apply (ti_time _ _ _ _ _ _ I); eapply nth_error_In; exact Hk').
  destruct (L j rj a Hj Ha Hsp) as [S1 S2|x S1 S2 S3|k rk S1 S2 S3 S4 S5 S6|j' rj' a' S1 S2 S3 S4 S5 S6].
  - exfalso. pose proof (NP _ _ _ _ S1). lia.
  - exfalso. pose proof (Hq _ _ (SimBlockTrace.G_in_cqs _ _ _ _ _ _ _ _ I S1)). lia.
  - left. exists k, rk. split; [|auto].
    split; [exact S1|]. apply (sorted_lt H k k' rk rk' HS S2 Hk'). lia.
  - right. exists j', rj', a'. split; [|auto].
    split; [exact S1|]. apply (sorted_lt H j' k' rj' rk' HS S2 Hk'). lia.
Qed.

Definition finL (H : list hrec) (f : nat -> nat) : Prop := fin H f /\ liveP H f.

Lemma linv_fin : forall H st t f G, linv H st t f G -> finL H f.
Proof.
  intros H st t f G L. split; [eapply tinv_fin; exact (lv_t _ _ _ _ _ L)|eapply linv_liveP; exact L].
Qed.

Theorem loop_finL : forall fuel cc sc tp args st t hist iters Hout,
  sim_loop_h fuel cc sc tp args st t hist iters = Ok Hout ->
  forall f G, linv (rev hist) st t f G -> exists f', finL Hout f'.
Proof.
  induction fuel as [|fuel IH]; intros cc sc tp args st t hist iters Hout H f G L; [discriminate|].
  cbn [sim_loop_h] in H.
  destruct (pick_next (pn_fuel st) st t) as [[nx st1]|k|] eqn:Ep; cbn [bind] in H; try discriminate.
  destruct nx as [next|]; [|injection H as <-; exists f; eapply linv_fin; exact L].
  destruct (se_time next <? t)%Z; [discriminate|].
  destruct (sim_network_stack next (m_sq st1) _ (m_net st1) (se_time next)) as [[[sq2 net2] act]|k|] eqn:En;
    cbn [bind] in H; try discriminate.
  assert (Hu : exists c3 s3 sq3 pos3,
             (let st3 := mksim sq3 c3 s3 net2 pos3 in
              exists f' G', linv (rev hist ++ [mkhrec next (acts_for cc sc tp st1 next)]) st3 (se_time next) f' G') /\
             (let st3 := mksim sq3 c3 s3 net2 pos3 in
              let hist' := mkhrec next (acts_for cc sc tp st1 next) :: hist in
              (if (0 <? a_max_trace args) && (a_max_trace args <=? N.of_nat (length hist')) then Ok (rev hist')
               else
                 let iters' := iters + 1 in
                 if (0 <? a_max_iter args) && (a_max_iter args <=? iters') then Ok (rev hist')
                 else if negb (a_continue args) && sq_no_normal sq3 then Ok (rev hist')
                 else sim_loop_h fuel cc sc tp args st3 (se_time next) hist' iters') = Ok Hout)).
  { destruct (se_client next) eqn:Ec.
    - destruct (trigger_update cc tp (m_c st1) (m_pos st1) next (se_time next) sq2 true) as [[[c' sq'] p']|k|] eqn:Et;
        cbn [bind] in H; try discriminate.
      exists c', (m_s st1), sq', p'. split; [|exact H].
      apply (iter_linv cc sc tp st t next st1 sq2 net2 act true c' sq' p' (rev hist) f G L Ep); auto.
      rewrite Ec. exact En.
    - destruct (trigger_update sc tp (m_s st1) (m_pos st1) next (se_time next) sq2 false) as [[[s' sq'] p']|k|] eqn:Et;
        cbn [bind] in H; try discriminate.
      exists (m_c st1), s', sq', p'. split; [|exact H].
      apply (iter_linv cc sc tp st t next st1 sq2 net2 act false s' sq' p' (rev hist) f G L Ep); auto.
      rewrite Ec. exact En. }
  clear H. destruct Hu as (c3 & s3 & sq3 & pos3 & (f' & G' & L3) & H). cbv zeta in H.
  assert (Hfin : exists f'', finL (rev (mkhrec next (acts_for cc sc tp st1 next) :: hist)) f'').
  { exists f'. cbn [rev]. eapply linv_fin. exact L3. }
  destruct (_ && _) in H; [injection H as <-; exact Hfin|].
  destruct (_ && _) in H; [injection H as <-; exact Hfin|].
  destruct (_ && _) in H; [injection H as <-; exact Hfin|].
  eapply (IH _ _ _ _ _ _ _ _ _ H f' G'). exact L3.
Qed.

(** the initial state *)
Lemma init_linv : forall cc sc tp sq delay pps st0 t0,
  sim_init cc sc tp sq delay pps st0 t0 -> SimBlocking.sq_inv sq -> sq_start sq ->
  linv [] st0 t0 (fun _ => 0%nat) (fun _ => []).
Proof.
  intros cc sc tp sq delay pps st0 t0 Hi Hinv Hs.
  destruct (init_tinv _ _ _ _ _ _ _ _ Hi Hs) as (I & Hq & Hh & Esq).
  constructor.
  - rewrite Esq. exact Hinv.
  - exact Hh.
  - exact Hq.
  - exact I.
  - intros r a a' [].
  - destruct Hi as (cfw & sfw & net & _ & _ & _ & _ & ->).
    intros X mi a due Hn. exfalso. unfold slotsX in Hn. cbn [m_c m_s] in Hn.
    destruct X; unfold new_side in Hn; cbn [s_sched] in Hn; eapply nth_map_none; exact Hn.
  - intros j rj a Hj. destruct j; discriminate.
  - intros i j ri rj _ Hi'. destruct i; discriminate.
Qed.

Section Run.
  Variables (fuel : nat) (cc sc : cfg) (tp : tape) (args : simargs) (st0 : sim) (t0 : Z) (H : list hrec).
  Variables (sq : simq) (delay : N) (pps : option N).
  Hypothesis Hinit : sim_init cc sc tp sq delay pps st0 t0.
  Hypothesis Hinv : SimBlocking.sq_inv sq.          (* every parsed trace: SimBlocking.parse_trace_inv *)
  Hypothesis Hstart : sq_start sq.                   (* every parsed trace: parse_trace_start *)
  Hypothesis Hrun : sim_loop_h fuel cc sc tp args st0 t0 [] 0 = Ok H.

  Lemma run_finL : exists f, finL H f.
  Proof.
    eapply (loop_finL _ _ _ _ _ _ _ _ _ _ Hrun). cbn [rev].
    exact (init_linv _ _ _ _ _ _ _ _ Hinit Hinv Hstart).
  Qed.

  (** for the instrumented loop from any initial queue satisfying [sq_inv] and [sq_start] *)
  Theorem action_fires_when_due_run : exists f : nat -> nat,
    (forall k rk m, nth_error H k = Some rk ->
       (se_ev (h_ev rk) = TEPaddingSent m \/ se_ev (h_ev rk) = TEBlockingBegin m) ->
       caused_by H k rk m (f k)) /\
    (forall k1 k2 rk1 rk2 m, k1 <> k2 -> nth_error H k1 = Some rk1 -> nth_error H k2 = Some rk2 ->
       (se_ev (h_ev rk1) = TEPaddingSent m \/ se_ev (h_ev rk1) = TEBlockingBegin m) ->
       (se_ev (h_ev rk2) = TEPaddingSent m \/ se_ev (h_ev rk2) = TEBlockingBegin m) ->
       f k1 <> f k2) /\
    forall j rj a m k' rk',
      nth_error H j = Some rj -> In a (h_acts rj) -> taction_machine a = m ->
      (exists tmo by_ rp, a = TSendPadding m tmo by_ rp) \/ (exists tmo dur by_ rp, a = TBlockOutgoing m tmo dur by_ rp) ->
      let due := (se_time (h_ev rj) + Z.of_N (timeout_of a))%Z in
      (j < k')%nat -> nth_error H k' = Some rk' -> (due < se_time (h_ev rk'))%Z ->
      (exists k rk, (j < k < k')%nat /\ nth_error H k = Some rk /\
                    se_client (h_ev rk) = se_client (h_ev rj) /\ completes a (h_ev rk) /\
                    se_time (h_ev rk) = due /\ f k = j) \/
      (exists j' rj' a', (j < j' < k')%nat /\ nth_error H j' = Some rj' /\
                    se_client (h_ev rj') = se_client (h_ev rj) /\ In a' (h_acts rj') /\
                    is_sched_for m a' = true /\ (se_time (h_ev rj') <= due)%Z).
  Proof.
    destruct run_finL as (f & (F1 & F2) & LP). exists f. split; [|split].
    - intros k rk m Hk Hev. destruct (compl_of_ev _ _ Hev) as [Hc Hm].
      exact (cause_caused_by _ _ _ _ _ (F1 k rk Hk Hc) Hm).
    - intros k1 k2 rk1 rk2 m Hne Hk1 Hk2 Hev1 Hev2 E.
      destruct (compl_of_ev _ _ Hev1) as [Hc1 Hm1]. destruct (compl_of_ev _ _ Hev2) as [Hc2 Hm2].
      destruct (F1 k1 rk1 Hk1 Hc1) as (rj1 & a1 & _ & N1 & S1 & _).
      destruct (F1 k2 rk2 Hk2 Hc2) as (rj2 & a2 & _ & N2 & S2 & _).
      rewrite E in N1. rewrite N1 in N2. injection N2 as <-.
      apply (F2 k1 k2 rk1 rk2 Hne Hk1 Hk2 Hc1 Hc2); [unfold sdr; congruence|congruence|exact E].
    - intros j rj a m k' rk' Hj Ha Hm Hkind due Hjk Hk' Hdue.
      assert (Hsp : is_spbo a = true).
      { destruct Hkind as [(tmo & by_ & rp & ->)|(tmo & dur & by_ & rp & ->)]; reflexivity. }
      subst m. exact (LP j rj a k' rk' Hj Ha Hsp Hjk Hk' Hdue).
  Qed.
End Run.

(** * 7. For the runs of [sim_advanced] on parsed traces (all events recorded)

    [H] is the history of [SimActionTrace.action_completion_trace] and [f] its cause assignment
    (first clause). Liveness (second clause): let record [j] contain the SendPadding /
    BlockOutgoing action [a] for machine [m], due at [due = time j + timeout a]. As soon as some
    later record [k'] lies beyond [due] in simulated time, either the action fired exactly when
    due (a completion [k] strictly between, of the same side, at time [due], carrying the action's
    flags, with [f k = j]), or it was superseded: a record [j'] strictly between, of the same
    side, at a time no later than [due], returned a newer action-timer action for [m]
    (SendPadding, BlockOutgoing, Cancel of the action timer or of all timers). *)
Theorem action_fires_when_due : forall fuel cc sc tp tr delay pps args out,
  full_args args ->
  sim_advanced fuel cc sc tp (parse_trace tr delay) delay pps args = Ok out ->
  exists H : list hrec, out = map h_ev H /\
  exists f : nat -> nat,
    (forall k rk m, nth_error H k = Some rk ->
       (se_ev (h_ev rk) = TEPaddingSent m \/ se_ev (h_ev rk) = TEBlockingBegin m) ->
       caused_by H k rk m (f k)) /\
    (* liveness: *)
    forall j rj a m k' rk',
      nth_error H j = Some rj -> In a (h_acts rj) -> taction_machine a = m ->
      (exists tmo by_ rp, a = TSendPadding m tmo by_ rp) \/ (exists tmo dur by_ rp, a = TBlockOutgoing m tmo dur by_ rp) ->
      let due := (se_time (h_ev rj) + Z.of_N (timeout_of a))%Z in
      (j < k')%nat -> nth_error H k' = Some rk' -> (due < se_time (h_ev rk'))%Z ->   (* simulated time moved past the due time *)
      (* the action fired exactly when due ... *)
      (exists k rk, (j < k < k')%nat /\ nth_error H k = Some rk /\
                    se_client (h_ev rk) = se_client (h_ev rj) /\ completes a (h_ev rk) /\
                    se_time (h_ev rk) = due /\ f k = j) \/
      (* ... or it was superseded: a newer action-timer action for m (SendPadding, BlockOutgoing, Cancel of the
         action timer or of all timers) was returned on that side no later than the due time *)
      (exists j' rj' a', (j < j' < k')%nat /\ nth_error H j' = Some rj' /\
                    se_client (h_ev rj') = se_client (h_ev rj) /\ In a' (h_acts rj') /\
                    is_sched_for m a' = true /\ (se_time (h_ev rj') <= due)%Z).
Proof.
  intros fuel cc sc tp tr delay pps args out Hf Hrun.
  destruct (sim_advanced_history _ _ _ _ _ _ _ _ _ Hf Hrun) as (st0 & t0 & H & Hi & Hl & ->).
  exists H. split; [reflexivity|].
  destruct (action_fires_when_due_run fuel cc sc tp args st0 t0 H _ delay pps Hi
              (SimBlocking.parse_trace_inv tr delay) (parse_trace_start tr delay) Hl) as (f & F1 & _ & F3).
  exists f. split; [exact F1|exact F3].
Qed.

(** the same together with the injectivity of the cause assignment (every action fires at most once):
    [f] is exactly a cause assignment as in [SimActionTrace.action_completion_trace] *)
Theorem action_fires_when_due_once : forall fuel cc sc tp tr delay pps args out,
  full_args args ->
  sim_advanced fuel cc sc tp (parse_trace tr delay) delay pps args = Ok out ->
  exists H : list hrec, out = map h_ev H /\
  exists f : nat -> nat,
    (forall k rk m, nth_error H k = Some rk ->
       (se_ev (h_ev rk) = TEPaddingSent m \/ se_ev (h_ev rk) = TEBlockingBegin m) ->
       caused_by H k rk m (f k)) /\
    (forall k1 k2 rk1 rk2 m, k1 <> k2 -> nth_error H k1 = Some rk1 -> nth_error H k2 = Some rk2 ->
       (se_ev (h_ev rk1) = TEPaddingSent m \/ se_ev (h_ev rk1) = TEBlockingBegin m) ->
       (se_ev (h_ev rk2) = TEPaddingSent m \/ se_ev (h_ev rk2) = TEBlockingBegin m) ->
       f k1 <> f k2) /\
    forall j rj a m k' rk',
      nth_error H j = Some rj -> In a (h_acts rj) -> taction_machine a = m ->
      (exists tmo by_ rp, a = TSendPadding m tmo by_ rp) \/ (exists tmo dur by_ rp, a = TBlockOutgoing m tmo dur by_ rp) ->
      let due := (se_time (h_ev rj) + Z.of_N (timeout_of a))%Z in
      (j < k')%nat -> nth_error H k' = Some rk' -> (due < se_time (h_ev rk'))%Z ->
      (exists k rk, (j < k < k')%nat /\ nth_error H k = Some rk /\
                    se_client (h_ev rk) = se_client (h_ev rj) /\ completes a (h_ev rk) /\
                    se_time (h_ev rk) = due /\ f k = j) \/
      (exists j' rj' a', (j < j' < k')%nat /\ nth_error H j' = Some rj' /\
                    se_client (h_ev rj') = se_client (h_ev rj) /\ In a' (h_acts rj') /\
                    is_sched_for m a' = true /\ (se_time (h_ev rj') <= due)%Z).
Proof.
  intros fuel cc sc tp tr delay pps args out Hf Hrun.
  destruct (sim_advanced_history _ _ _ _ _ _ _ _ _ Hf Hrun) as (st0 & t0 & H & Hi & Hl & ->).
  exists H. split; [reflexivity|].
  exact (action_fires_when_due_run fuel cc sc tp args st0 t0 H _ delay pps Hi
           (SimBlocking.parse_trace_inv tr delay) (parse_trace_start tr delay) Hl).
Qed.

(** * 8. Non-vacuity: two concrete runs, evaluated inside Coq *)

(** [sim_advanced] with the instrumented loop (the history instead of the sorted events) *)
Definition sim_advanced_h (fuel : nat) (cc sc : cfg) (tp : tape) (sq : simq) (delay : N) (pps : option N)
           (args : simargs) : outcome (list hrec) :=
  match sq_first_time sq with
  | None => Panic P_UNWRAP
  | Some t0 =>
      cfw <- fnew_at cc tp t0 0 ;;
      sfw <- fnew_at sc tp t0 (Framework.pos cfw) ;;
      net <- netb_new delay pps (sq_pps sq) ;;
      sim_loop_h fuel cc sc tp args
        (mksim sq (new_side cc cfw) (new_side sc sfw) net (Framework.pos sfw)) t0 [] 0
  end.

(** the theorem for the history [sim_advanced_h] computes *)
Theorem action_fires_when_due_h : forall fuel cc sc tp tr delay pps args H,
  sim_advanced_h fuel cc sc tp (parse_trace tr delay) delay pps args = Ok H ->
  exists f : nat -> nat,
    (forall k rk m, nth_error H k = Some rk ->
       (se_ev (h_ev rk) = TEPaddingSent m \/ se_ev (h_ev rk) = TEBlockingBegin m) ->
       caused_by H k rk m (f k)) /\
    forall j rj a m k' rk',
      nth_error H j = Some rj -> In a (h_acts rj) -> taction_machine a = m ->
      (exists tmo by_ rp, a = TSendPadding m tmo by_ rp) \/ (exists tmo dur by_ rp, a = TBlockOutgoing m tmo dur by_ rp) ->
      let due := (se_time (h_ev rj) + Z.of_N (timeout_of a))%Z in
      (j < k')%nat -> nth_error H k' = Some rk' -> (due < se_time (h_ev rk'))%Z ->
      (exists k rk, (j < k < k')%nat /\ nth_error H k = Some rk /\
                    se_client (h_ev rk) = se_client (h_ev rj) /\ completes a (h_ev rk) /\
                    se_time (h_ev rk) = due /\ f k = j) \/
      (exists j' rj' a', (j < j' < k')%nat /\ nth_error H j' = Some rj' /\
                    se_client (h_ev rj') = se_client (h_ev rj) /\ In a' (h_acts rj') /\
                    is_sched_for m a' = true /\ (se_time (h_ev rj') <= due)%Z).
Proof.
  intros fuel cc sc tp tr delay pps args H Hrun. unfold sim_advanced_h in Hrun.
  destruct (sq_first_time (parse_trace tr delay)) as [t0|] eqn:E0; [|discriminate].
  mbind Hrun as cfw E1. mbind Hrun as sfw E2. mbind Hrun as net E3.
  assert (Hi : sim_init cc sc tp (parse_trace tr delay) delay pps
                 (mksim (parse_trace tr delay) (new_side cc cfw) (new_side sc sfw) net (Framework.pos sfw)) t0).
  { exists cfw, sfw, net. repeat (split; [assumption|]). reflexivity. }
  destruct (action_fires_when_due_run fuel cc sc tp args _ t0 H _ delay pps Hi
              (SimBlocking.parse_trace_inv tr delay) (parse_trace_start tr delay) Hrun) as (f & F1 & _ & F3).
  exists f. split; [exact F1|exact F3].
Qed.

Definition lv_cd (bits : N) : dist := mkdist (Uniform bits bits) 0 0.
Definition lv_d5 := lv_cd 4617315517961601024.     (* 5.0 microseconds *)
Definition lv_on (ev : event) (target : N) : list (option (list trans)) :=
  map (fun i => if Nat.eqb i (event_idx ev) then Some [(target, 1065353216)] else None) (seq 0 13).
Definition lv_none13 : list (option (list trans)) := map (fun _ => None) (seq 0 13).
Definition lv_mach (sts : list state) : machine :=
  mkmachine 18446744073709551615 0 18446744073709551615 0 sts.
Definition lv_none : cfg := mkcfg [] 0 0 stdclock.
Definition lv_args : simargs := mksimargs 0 0 false false false.
(** the client sends at 0 and at 50 us; the network delay is 1 us *)
Definition lv_tr : list (Z * bool) := [(0, true); (50000, true)]%Z.

(** client machine 0: NormalSent -> SendPadding after 5 us *)
Definition lv_cfg1 : cfg :=
  mkcfg [lv_mach [mkstate None None None (lv_on NormalSent 1);
                  mkstate (Some (SendPadding false false lv_d5 None)) None None lv_none13]]
        4607182418800017408 4607182418800017408 stdclock.
(** client machine 0: NormalSent -> SendPadding after 5 us; then TunnelSent -> Cancel of the action timer *)
Definition lv_cfg2 : cfg :=
  mkcfg [lv_mach [mkstate None None None (lv_on NormalSent 1);
                  mkstate (Some (SendPadding false false lv_d5 None)) None None (lv_on TunnelSent 2);
                  mkstate (Some (Cancel TAction)) None None lv_none13]]
        4607182418800017408 4607182418800017408 stdclock.

Notation lv_run c := (sim_advanced 200 c lv_none (fun _ => 0) (parse_trace lv_tr 1000) 1000 None lv_args) (only parsing).
Notation lv_run_h c := (sim_advanced_h 200 c lv_none (fun _ => 0) (parse_trace lv_tr 1000) 1000 None lv_args) (only parsing).
Definition lv_H (c : cfg) : list hrec := match lv_run_h c with Ok h => h | _ => [] end.

(** no record after the first returns an action-timer action for machine 0 *)
Definition lv_no_newer (H : list hrec) : bool :=
  forallb (fun r => forallb (fun a' => negb (is_sched_for 0 a')) (h_acts r)) (skipn 1 H).
(** no record is a completion for machine 0 *)
Definition lv_no_completion (H : list hrec) : bool :=
  forallb (fun r => negb (is_complb (h_ev r))) H.

(** Run 1 (the action fires). History: NormalSent@0 [SendPadding 0 after 5000 ns], TunnelSent@0,
    TunnelRecv@1000, NormalRecv@1000, PaddingSent(0)@5000, TunnelSent@5000, TunnelRecv@6000, ...
    Record 0 issues the action, due at 5000; record 6 is beyond the due time; record 4 is the
    completion, exactly at 5000, and nothing superseded the action (first disjunct). *)
Example live_example_fires :
  full_args lv_args /\
  lv_run lv_cfg1 = Ok (map h_ev (lv_H lv_cfg1)) /\ lv_run_h lv_cfg1 = Ok (lv_H lv_cfg1) /\
  let a := TSendPadding 0 5000 false false in
  exists rj rk rk',
    nth_error (lv_H lv_cfg1) 0 = Some rj /\ In a (h_acts rj) /\
    nth_error (lv_H lv_cfg1) 6 = Some rk' /\
    (se_time (h_ev rj) + Z.of_N (timeout_of a) < se_time (h_ev rk'))%Z /\
    nth_error (lv_H lv_cfg1) 4 = Some rk /\ se_client (h_ev rk) = se_client (h_ev rj) /\
    completes a (h_ev rk) /\ se_time (h_ev rk) = (se_time (h_ev rj) + Z.of_N (timeout_of a))%Z /\
    lv_no_newer (lv_H lv_cfg1) = true.
Proof.
  split; [split; reflexivity|].
  split; [vm_compute; reflexivity|]. split; [vm_compute; reflexivity|].
  cbv zeta. eexists _, _, _.
  split; [vm_compute; reflexivity|]. split; [vm_compute; left; reflexivity|].
  split; [vm_compute; reflexivity|]. split; [vm_compute; reflexivity|].
  split; [vm_compute; reflexivity|]. split; [vm_compute; reflexivity|].
  split; [vm_compute; repeat split|]. split; vm_compute; reflexivity.
Qed.

(** Run 2 (the action is superseded by a Cancel). History: NormalSent@0 [SendPadding 0 after
    5000 ns], TunnelSent@0 [Cancel 0 Action], TunnelRecv@1000, NormalRecv@1000, NormalSent@50000, ...
    Record 0 issues the action, due at 5000; record 4 is beyond the due time; no PaddingSent is
    ever reported; record 1 (time 0 <= 5000) returned the Cancel (second disjunct). *)
Example live_example_cancelled :
  lv_run lv_cfg2 = Ok (map h_ev (lv_H lv_cfg2)) /\ lv_run_h lv_cfg2 = Ok (lv_H lv_cfg2) /\
  let a := TSendPadding 0 5000 false false in
  let a' := TCancel 0 TAction in
  exists rj rj' rk',
    nth_error (lv_H lv_cfg2) 0 = Some rj /\ In a (h_acts rj) /\
    nth_error (lv_H lv_cfg2) 4 = Some rk' /\
    (se_time (h_ev rj) + Z.of_N (timeout_of a) < se_time (h_ev rk'))%Z /\
    nth_error (lv_H lv_cfg2) 1 = Some rj' /\ se_client (h_ev rj') = se_client (h_ev rj) /\
    In a' (h_acts rj') /\ is_sched_for 0 a' = true /\
    (se_time (h_ev rj') <= se_time (h_ev rj) + Z.of_N (timeout_of a))%Z /\
    lv_no_completion (lv_H lv_cfg2) = true.
Proof.
  split; [vm_compute; reflexivity|]. split; [vm_compute; reflexivity|].
  cbv zeta. eexists _, _, _.
  split; [vm_compute; reflexivity|]. split; [vm_compute; left; reflexivity|].
  split; [vm_compute; reflexivity|]. split; [vm_compute; reflexivity|].
  split; [vm_compute; reflexivity|]. split; [vm_compute; reflexivity|].
  split; [vm_compute; left; reflexivity|]. split; [reflexivity|].
  split; [vm_compute; discriminate|]. vm_compute; reflexivity.
Qed.

Lemma nth_S_skipn : forall {A} (l : list A) j x, nth_error l (S j) = Some x -> In x (skipn 1 l).
Proof. intros A [|a l] j x H; [discriminate|]. cbn [skipn]. eapply nth_error_In. exact H. Qed.

(** the theorem applied to run 1: since nothing superseded the action, it yields the completion *)
Example live_example_fires_by_theorem :
  exists k rk, (0 < k < 6)%nat /\ nth_error (lv_H lv_cfg1) k = Some rk /\ se_ev (h_ev rk) = TEPaddingSent 0.
Proof.
  destruct live_example_fires as (_ & _ & Hrun & rj & rk0 & rk' & Hj & Ha & Hk' & Hdue & _ & _ & _ & _ & Hnn).
  cbv zeta in Ha, Hdue.
  destruct (action_fires_when_due_h _ _ _ _ _ _ _ _ _ Hrun) as (f & _ & LV).
  assert (L06 : (0 < 6)%nat) by lia.
  destruct (LV 0%nat rj (TSendPadding 0 5000 false false) 0 6%nat rk' Hj Ha eq_refl
               (or_introl (ex_intro _ 5000 (ex_intro _ false (ex_intro _ false eq_refl)))) L06 Hk' Hdue)
    as [(k & rk & Hk & Hn & _ & Hc & _)|(j' & rj' & a' & Hj' & Hn' & _ & Hin' & Hsf & _)].
  - exists k, rk. split; [exact Hk|]. split; [exact Hn|]. apply Hc.
  - exfalso. unfold lv_no_newer in Hnn. rewrite forallb_forall in Hnn.
    destruct j' as [|j']; [lia|].
    specialize (Hnn rj' (nth_S_skipn _ _ _ Hn')). rewrite forallb_forall in Hnn. specialize (Hnn a' Hin').
    rewrite Hsf in Hnn. cbn [negb] in Hnn. discriminate Hnn.
Qed.

Print Assumptions action_fires_when_due.
Print Assumptions action_fires_when_due_once.
Print Assumptions action_fires_when_due_h.
