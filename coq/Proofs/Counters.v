(** C08: counters. The functional specification of [update_counter]
    (saturating arithmetic, copy of the other counter's value from before the
    transition, CounterZero exactly on non-zero -> zero with the zeroed-once
    flag unset), and the per-call bound: every CounterZero consumes an unset
    zeroed-once flag of that machine, so there are at most two per machine per
    call (one per counter). *)
From MB Require Import Model.Framework.
From MB Require Import Proofs.Tactics Proofs.ListFacts Proofs.FrameworkStructure Proofs.FrameworkInv Proofs.Limits.
Open Scope N_scope.

(** ** saturating arithmetic on u64 registers *)
Lemma apply_op_u64 : forall op old chg,
  old <= U64_MAX -> chg <= U64_MAX -> apply_op op old chg <= U64_MAX.
Proof.
  intros op old chg Ho Hc. destruct op; cbn [apply_op]; unfold sat_add, sat_sub; lia.
Qed.

Lemma apply_op_spec : forall op old chg,
  apply_op op old chg =
  match op with
  | Increment => if old + chg <=? U64_MAX then old + chg else U64_MAX
  | Decrement => if chg <=? old then old - chg else 0
  | CSet => chg
  end.
Proof.
  intros op old chg. destruct op; cbn [apply_op]; unfold sat_add, sat_sub.
  - destruct (N.leb_spec (old + chg) U64_MAX); lia.
  - destruct (N.leb_spec chg old); lia.
  - reflexivity.
Qed.

(** ** one counter *)
Definition ctr_change (tp : tape) (p : nat) (cn : counter) (other_old : N) : N * nat :=
  if ccopy cn then (other_old, p) else sample_value tp p cn.

Definition ctr_new (cn : option counter) (old change : N) : N :=
  match cn with None => old | Some c => apply_op (cop c) old change end.

Definition ctr_zeroed (cn : option counter) (old new : N) (flag : bool) : bool :=
  match cn with None => false | Some _ => negb (old =? 0) && (new =? 0) && negb flag end.

(** ** the functional specification of update_counter *)
Theorem update_counter_spec : forall trans c tp s mi s' al ch r m st,
  nth_error (rts s) mi = Some r -> nth_error (machines c) mi = Some m ->
  nthN (states m) (cur r) = Some st ->
  update_counter trans c tp s mi = Ok (s', al, ch) ->
  let '(va, p1) := match sctr_a st with Some cn => ctr_change tp (pos s) cn (cb r) | None => (0, pos s) end in
  let '(vb, p2) := match sctr_b st with Some cn => ctr_change tp p1 cn (ca r) | None => (0, p1) end in
  let a' := ctr_new (sctr_a st) (ca r) va in
  let b' := ctr_new (sctr_b st) (cb r) vb in
  let zA := ctr_zeroed (sctr_a st) (ca r) a' (za r) in
  let zB := ctr_zeroed (sctr_b st) (cb r) b' (zb r) in
  let r1 := mkmrt (cur r) (lim r) (psent r) (nsent r) (bdur r) a' b' (za r || zA) (zb r || zB) in
  let s1 := set_pos (set_rt s mi r1) p2 in
  if zA || zB then
    exists s2, trans (add_log s1 (LOG_CZERO, N.of_nat mi, 0)) mi CounterZero = Ok (s2, ch) /\ s' = s2 /\
      al = match nth_error (slots s2) mi with Some None => true | _ => false end
  else s' = s1 /\ al = true /\ ch = false.
Proof.
  intros trans c tp s mi s' al ch r m st Hr Hm Hst H. unfold update_counter in H.
  unfold get at 1 in H. rewrite Hm in H. cbn [bind] in H.
  unfold get at 1 in H. rewrite Hr in H. cbn [bind] in H.
  unfold getN in H. rewrite Hst in H. cbn [bind] in H.
  unfold ctr_change, ctr_new, ctr_zeroed.
  destruct (sctr_a st) as [ca_|]; destruct (sctr_b st) as [cb_|].
  - destruct (if ccopy ca_ then (cb r, pos s) else sample_value tp (pos s) ca_) as [va p1] eqn:EA.
    destruct (negb (ca r =? 0) && (apply_op (cop ca_) (ca r) va =? 0) && negb (za r)) eqn:ZA.
    + assert (Hza : za r = false) by (apply andb_prop in ZA; destruct ZA as [_ Z]; destruct (za r); [discriminate|reflexivity]).
      cbn [rt_set_ca ca cb za zb] in H.
      destruct (if ccopy cb_ then (ca r, p1) else sample_value tp p1 cb_) as [vb p2] eqn:EB.
      destruct (negb (cb r =? 0) && (apply_op (cop cb_) (cb r) vb =? 0) && negb (zb r)) eqn:ZB.
      * assert (Hzb : zb r = false) by (apply andb_prop in ZB; destruct ZB as [_ Z]; destruct (zb r); [discriminate|reflexivity]).
        cbn [orb] in *. rewrite Hza, Hzb. cbn [orb].
        mbind H as [s2 c2] E2. mbind H as sl Esl. injection H as <- <- <-. exists s2.
        split; [exact E2|]. split; [reflexivity|].
        apply get_ok in Esl. rewrite Esl. destruct sl; reflexivity.
      * cbn [orb] in *. rewrite Hza. cbn [orb]. rewrite orb_false_r.
        mbind H as [s2 c2] E2. mbind H as sl Esl. injection H as <- <- <-. exists s2.
        split; [exact E2|]. split; [reflexivity|].
        apply get_ok in Esl. rewrite Esl. destruct sl; reflexivity.
    + cbn [rt_set_ca ca cb za zb] in H. rewrite orb_false_r.
      destruct (if ccopy cb_ then (ca r, p1) else sample_value tp p1 cb_) as [vb p2] eqn:EB.
      destruct (negb (cb r =? 0) && (apply_op (cop cb_) (cb r) vb =? 0) && negb (zb r)) eqn:ZB.
      * assert (Hzb : zb r = false) by (apply andb_prop in ZB; destruct ZB as [_ Z]; destruct (zb r); [discriminate|reflexivity]).
        cbn [orb] in *. rewrite Hzb. cbn [orb].
        mbind H as [s2 c2] E2. mbind H as sl Esl. injection H as <- <- <-. exists s2.
        split; [exact E2|]. split; [reflexivity|].
        apply get_ok in Esl. rewrite Esl. destruct sl; reflexivity.
      * cbn [orb] in *. rewrite orb_false_r. inversion H; subst.
        unfold rt_set_cb, rt_set_ca; cbn. auto.
  - destruct (if ccopy ca_ then (cb r, pos s) else sample_value tp (pos s) ca_) as [va p1] eqn:EA.
    destruct (negb (ca r =? 0) && (apply_op (cop ca_) (ca r) va =? 0) && negb (za r)) eqn:ZA.
    + assert (Hza : za r = false) by (apply andb_prop in ZA; destruct ZA as [_ Z]; destruct (za r); [discriminate|reflexivity]).
      cbn [orb] in *. rewrite Hza. cbn [orb]. rewrite orb_false_r.
      mbind H as [s2 c2] E2. mbind H as sl Esl. injection H as <- <- <-. exists s2.
      split; [exact E2|]. split; [reflexivity|].
      apply get_ok in Esl. rewrite Esl. destruct sl; reflexivity.
    + cbn [orb] in *. rewrite !orb_false_r. inversion H; subst. unfold rt_set_ca; cbn. auto.
  - destruct (if ccopy cb_ then (ca r, pos s) else sample_value tp (pos s) cb_) as [vb p2] eqn:EB.
    destruct (negb (cb r =? 0) && (apply_op (cop cb_) (cb r) vb =? 0) && negb (zb r)) eqn:ZB.
    + assert (Hzb : zb r = false) by (apply andb_prop in ZB; destruct ZB as [_ Z]; destruct (zb r); [discriminate|reflexivity]).
      cbn [orb] in *. rewrite Hzb. cbn [orb]. rewrite orb_false_r.
      mbind H as [s2 c2] E2. mbind H as sl Esl. injection H as <- <- <-. exists s2.
      split; [exact E2|]. split; [reflexivity|].
      apply get_ok in Esl. rewrite Esl. destruct sl; reflexivity.
    + cbn [orb] in *. rewrite !orb_false_r. inversion H; subst. unfold rt_set_cb; cbn. auto.
  - cbn [orb] in *. rewrite !orb_false_r. inversion H; subst.
    destruct r; cbn. auto.
Qed.

(** ** at most one CounterZero per counter per machine per call *)
Definition czeros := count_tag LOG_CZERO.

Definition cz_rel (i : nat) (s s' : fstate) : Prop :=
  exists new, flog s' = new ++ flog s /\ czeros i new + zc s' i <= zc s i.

Lemma cz_rel_refl : forall i s, cz_rel i s s.
Proof. intros i s; exists []. split; [reflexivity|]. cbn. lia. Qed.

Lemma cz_rel_trans : forall i s1 s2 s3, cz_rel i s1 s2 -> cz_rel i s2 s3 -> cz_rel i s1 s3.
Proof.
  intros i s1 s2 s3 (n1 & L1 & H1) (n2 & L2 & H2). exists (n2 ++ n1).
  rewrite L2, L1, app_assoc. split; [reflexivity|]. unfold czeros in *. rewrite count_tag_app. lia.
Qed.

Lemma cz_rel_same : forall i s s',
  flog s' = flog s -> zc s' i = zc s i -> cz_rel i s s'.
Proof. intros i s s' L Z. exists []. split; [rewrite L; reflexivity|]. cbn. lia. Qed.

Lemma cz_rel_log : forall i s e, fst (fst e) <> LOG_CZERO -> cz_rel i s (add_log s e).
Proof.
  intros i s e H. exists [e]. split; [reflexivity|].
  unfold czeros, count_tag; cbn [fold_right].
  destruct (N.eqb_spec (fst (fst e)) LOG_CZERO); [contradiction|]. cbn.
  rewrite (zc_same s (add_log s e)) by reflexivity. lia.
Qed.

Lemma zc_set_rt_flags : forall i s mi r r',
  nth_error (rts s) mi = Some r -> za r' = za r -> zb r' = zb r -> zc (set_rt s mi r') i = zc s i.
Proof.
  intros i s mi r r' Hr Ha Hb. unfold zc; cbn. rewrite nth_error_upd.
  destruct (Nat.eqb_spec mi i) as [->|Hne]; [|reflexivity].
  rewrite Hr. destruct (Nat.ltb_spec i (length (rts s))) as [Hl|Hl].
  - unfold zc_rt. rewrite Ha, Hb. reflexivity.
  - exfalso. assert (nth_error (rts s) i <> None) by congruence. apply nth_error_Some in H. lia.
Qed.

Lemma cz_rel_set_rt_flags : forall i s mi r r',
  nth_error (rts s) mi = Some r -> za r' = za r -> zb r' = zb r -> cz_rel i s (set_rt s mi r').
Proof. intros. apply cz_rel_same; [reflexivity|eapply zc_set_rt_flags; eauto]. Qed.

Lemma cz_rel_czero : forall i s mi r r' p,
  nth_error (rts s) mi = Some r -> zc_rt r' < zc_rt r ->
  cz_rel i s (add_log (set_pos (set_rt s mi r') p) (LOG_CZERO, N.of_nat mi, 0)).
Proof.
  intros i s mi r r' p Hr Hz. exists [(LOG_CZERO, N.of_nat mi, 0)]. split; [reflexivity|].
  unfold czeros, count_tag; cbn [fold_right fst snd]. rewrite N.eqb_refl.
  unfold zc; cbn [rts set_rt set_rts set_pos add_log]. rewrite nth_error_upd.
  destruct (Nat.eqb_spec mi i) as [->|Hne].
  - rewrite N.eqb_refl, Hr. cbn [andb].
    destruct (Nat.ltb_spec i (length (rts s))) as [Hl|Hl]; [lia|].
    exfalso. assert (nth_error (rts s) i <> None) by congruence. apply nth_error_Some in H. lia.
  - destruct (N.eqb_spec (N.of_nat mi) (N.of_nat i)) as [He|_]; [apply Nat2N.inj in He; contradiction|].
    cbn. lia.
Qed.

Ltac cz_side := let Hc := fresh in (intro Hc; vm_compute in Hc; discriminate Hc).

Lemma cz_rel_ctr : forall i s mi r r' p,
  nth_error (rts s) mi = Some r -> za r' = za r -> zb r' = zb r ->
  cz_rel i s (set_pos (set_rt s mi r') p).
Proof.
  intros i s mi r r' p Hr Ha Hb. eapply cz_rel_trans; [eapply cz_rel_set_rt_flags; eauto|].
  apply cz_rel_same; reflexivity.
Qed.

Lemma cz_rel_change : forall i s mi r ns l p,
  nth_error (rts s) mi = Some r ->
  cz_rel i s (set_pos (set_rt (add_log s (LOG_CHANGE, N.of_nat mi, ns)) mi (rt_set_cur r ns l)) p).
Proof.
  intros i s mi r ns l p Hr.
  eapply cz_rel_trans; [apply (cz_rel_log i s (LOG_CHANGE, N.of_nat mi, ns)); cz_side|].
  apply (cz_rel_ctr i _ mi r); [exact Hr|reflexivity|reflexivity].
Qed.

Lemma cz_rel_end : forall i s mi r,
  nth_error (rts s) mi = Some r -> cz_rel i s (set_rt s mi (rt_set_cur r STATE_END (lim r))).
Proof. intros. eapply cz_rel_set_rt_flags; [eassumption|reflexivity|reflexivity]. Qed.

Lemma cz_rel_dec : forall i s mi r,
  nth_error (rts s) mi = Some r ->
  cz_rel i s (set_rt (add_log s (LOG_DEC, N.of_nat mi, 0)) mi
                     (if 0 <? lim r then rt_set_lim r (lim r - 1) else r)).
Proof.
  intros i s mi r Hr.
  eapply cz_rel_trans; [apply (cz_rel_log i s (LOG_DEC, N.of_nat mi, 0)); cz_side|].
  apply (cz_rel_set_rt_flags i _ mi r); [exact Hr|destruct (0 <? lim r); reflexivity..].
Qed.

Lemma cz_rel_sigset : forall i mi s g,
  cz_rel i s (set_sigp (add_log s (LOG_SIGSET, N.of_nat mi, 0)) g).
Proof.
  intros. eapply cz_rel_trans; [apply (cz_rel_log i s (LOG_SIGSET, N.of_nat mi, 0)); cz_side|].
  apply cz_rel_same; reflexivity.
Qed.

Ltac cz_prims :=
  first [ solve [intros; apply cz_rel_same; reflexivity]
        | solve [intros; eapply cz_rel_trans; eassumption]
        | solve [intros; apply cz_rel_log; assumption]
        | solve [intros; eapply cz_rel_czero; eassumption]
        | solve [intros; eapply cz_rel_ctr; eassumption]
        | solve [intros; eapply cz_rel_change; eassumption]
        | solve [intros; eapply cz_rel_end; eassumption]
        | solve [intros; eapply cz_rel_dec; eassumption]
        | solve [intros; apply cz_rel_sigset] ].

Lemma transition_cz : forall c tp i fuel s mi ev s' b,
  transition fuel c tp s mi ev = Ok (s', b) -> cz_rel i s s'.
Proof. intros c tp i. apply (transition_P c tp (fun _ => cz_rel i)); cz_prims. Qed.

Lemma decrement_limit_cz : forall c tp i s mi s',
  decrement_limit c tp s mi = Ok s' -> cz_rel i s s'.
Proof. intros c tp i. apply (decrement_limit_P c tp (fun _ => cz_rel i)); cz_prims. Qed.

Theorem call_czeros : forall c tp i s evs t s' acts,
  trigger_events c tp s evs t = Ok (s', acts) ->
  czeros i (flog s') + zc s' i <= 2.
Proof.
  intros c tp i s evs t s' acts H.
  destruct (trigger_events_G c tp (cz_rel i)) with (s := s) (evs := evs) (t := t) (s' := s') (acts := acts)
    as [(new & L & Hn) _]; try exact H;
    try (intros; first
      [ apply cz_rel_same; reflexivity
      | eapply cz_rel_trans; eassumption
      | eapply transition_cz; eassumption
      | eapply decrement_limit_cz; eassumption
      | apply cz_rel_log; cz_side
      | eapply cz_rel_set_rt_flags; [eassumption|reflexivity|reflexivity] ]).
  cbn [flog begin_call] in L. rewrite app_nil_r in L. rewrite L.
  assert (Hz : zc (begin_call s t) i <= 2).
  { unfold zc; cbn. rewrite nth_error_map. destruct (nth_error (rts s) i); cbn; [|lia]. unfold zc_rt; cbn. lia. }
  lia.
Qed.
