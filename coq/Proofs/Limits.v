(** C07: per-state limits. Along any stretch of execution in which machine i
    does not change state (no LOG_CHANGE entry for i in the ghost log), its
    remaining limit is exactly the old limit minus the number of decrements
    logged for i (floored at zero): self-transitions never refresh it, and
    steps of other machines never touch it. *)
From MB Require Import Model.Framework.
From MB Require Import Proofs.Tactics Proofs.ListFacts Proofs.FrameworkStructure.
Open Scope N_scope.

Definition cur_of (s : fstate) (i : nat) : N :=
  match nth_error (rts s) i with Some r => cur r | None => 0 end.
Definition lim_of (s : fstate) (i : nat) : N :=
  match nth_error (rts s) i with Some r => lim r | None => 0 end.

Definition count_tag (tag : N) (i : nat) (l : list (N * N * N)) : N :=
  fold_right (fun e acc => (if (fst (fst e) =? tag) && (snd (fst e) =? N.of_nat i) then 1 else 0) + acc) 0 l.

Definition changes := count_tag LOG_CHANGE.
Definition decs := count_tag LOG_DEC.

Lemma count_tag_app : forall tag i a b, count_tag tag i (a ++ b) = count_tag tag i a + count_tag tag i b.
Proof.
  intros tag i a b; induction a as [|e a IH]; cbn [app count_tag fold_right]; [reflexivity|].
  fold (count_tag tag i (a ++ b)). fold (count_tag tag i a). rewrite IH. lia.
Qed.

Definition stay_rel (i : nat) (s s' : fstate) : Prop :=
  exists new, flog s' = new ++ flog s /\
    (changes i new = 0 ->
     (cur_of s' i = cur_of s i \/ cur_of s' i = STATE_END) /\
     lim_of s' i = lim_of s i - decs i new).

Lemma stay_rel_refl : forall i s, stay_rel i s s.
Proof. intros i s; exists []. split; [reflexivity|]. intros _. cbn. rewrite N.sub_0_r. auto. Qed.

Lemma stay_rel_trans : forall i s1 s2 s3, stay_rel i s1 s2 -> stay_rel i s2 s3 -> stay_rel i s1 s3.
Proof.
  intros i s1 s2 s3 (n1 & L1 & H1) (n2 & L2 & H2). exists (n2 ++ n1).
  rewrite L2, L1, app_assoc. split; [reflexivity|].
  unfold changes, decs in *. rewrite !count_tag_app. intros Hz.
  assert (Z1 : count_tag LOG_CHANGE i n1 = 0) by lia.
  assert (Z2 : count_tag LOG_CHANGE i n2 = 0) by lia.
  destruct (H1 Z1) as [C1 D1]. destruct (H2 Z2) as [C2 D2].
  split; [destruct C2 as [C2|C2]; [rewrite C2; exact C1|right; exact C2]|].
  rewrite D2, D1. lia.
Qed.

Lemma stay_rel_same : forall i s s',
  flog s' = flog s -> nth_error (rts s') i = nth_error (rts s) i -> stay_rel i s s'.
Proof.
  intros i s s' L R. exists []. split; [rewrite L; reflexivity|]. intros _.
  unfold cur_of, lim_of. rewrite R. cbn. rewrite N.sub_0_r. auto.
Qed.

Lemma stay_rel_log : forall i s e,
  fst (fst e) <> LOG_DEC -> fst (fst e) <> LOG_CHANGE -> stay_rel i s (add_log s e).
Proof.
  intros i s e H1 H2. exists [e]. split; [reflexivity|]. intros _.
  unfold decs, count_tag; cbn [fold_right].
  destruct (N.eqb_spec (fst (fst e)) LOG_DEC); [contradiction|]. cbn. rewrite N.sub_0_r. auto.
Qed.

(** a runtime update of machine mi that keeps state and limit *)
Lemma stay_rel_set_rt_keep : forall i s mi r r',
  nth_error (rts s) mi = Some r -> cur r' = cur r -> lim r' = lim r -> stay_rel i s (set_rt s mi r').
Proof.
  intros i s mi r r' Hr Hc Hl. exists []. split; [reflexivity|]. intros _.
  unfold cur_of, lim_of; cbn. rewrite nth_error_upd.
  destruct (Nat.eqb_spec mi i) as [->|Hne].
  - rewrite Hr. destruct (Nat.ltb_spec i (length (rts s))) as [Hl'|Hl'].
    + rewrite Hc, Hl, N.sub_0_r. auto.
    + exfalso. assert (nth_error (rts s) i <> None) by congruence. apply nth_error_Some in H. lia.
  - rewrite N.sub_0_r. auto.
Qed.

Lemma stay_rel_end : forall i s mi r,
  nth_error (rts s) mi = Some r -> stay_rel i s (set_rt s mi (rt_set_cur r STATE_END (lim r))).
Proof.
  intros i s mi r Hr. exists []. split; [reflexivity|]. intros _.
  unfold cur_of, lim_of; cbn. rewrite nth_error_upd.
  destruct (Nat.eqb_spec mi i) as [->|Hne].
  - rewrite Hr. destruct (Nat.ltb_spec i (length (rts s))) as [Hl'|Hl'].
    + cbn. rewrite N.sub_0_r. auto.
    + exfalso. assert (nth_error (rts s) i <> None) by congruence. apply nth_error_Some in H. lia.
  - rewrite N.sub_0_r. auto.
Qed.

Lemma stay_rel_change : forall i s mi r ns l p,
  nth_error (rts s) mi = Some r ->
  stay_rel i s (set_pos (set_rt (add_log s (LOG_CHANGE, N.of_nat mi, ns)) mi (rt_set_cur r ns l)) p).
Proof.
  intros i s mi r ns l p Hr. exists [(LOG_CHANGE, N.of_nat mi, ns)]. split; [reflexivity|].
  unfold changes, decs, count_tag; cbn [fold_right fst snd].
  rewrite N.eqb_refl. destruct (N.eqb_spec (N.of_nat mi) (N.of_nat i)) as [He|Hne]; cbn [andb].
  - intros Hz; lia.
  - intros _. assert (mi <> i) by (intros ->; apply Hne; reflexivity).
    unfold cur_of, lim_of; cbn. rewrite nth_error_upd_neq by assumption.
    change (LOG_DEC =? LOG_CHANGE) with false. cbn. rewrite N.sub_0_r. auto.
Qed.

Lemma stay_rel_dec : forall i s mi r,
  nth_error (rts s) mi = Some r ->
  stay_rel i s (set_rt (add_log s (LOG_DEC, N.of_nat mi, 0)) mi
                       (if 0 <? lim r then rt_set_lim r (lim r - 1) else r)).
Proof.
  intros i s mi r Hr. exists [(LOG_DEC, N.of_nat mi, 0)]. split; [reflexivity|]. intros _.
  unfold decs, count_tag; cbn [fold_right fst snd]. rewrite N.eqb_refl.
  unfold cur_of, lim_of; cbn [rts set_rt set_rts add_log]. rewrite nth_error_upd.
  destruct (Nat.eqb_spec mi i) as [->|Hne].
  - rewrite N.eqb_refl, Hr. cbn [andb].
    destruct (Nat.ltb_spec i (length (rts s))) as [Hl'|Hl'].
    + destruct (N.ltb_spec 0 (lim r)); cbn; split; auto; lia.
    + exfalso. assert (nth_error (rts s) i <> None) by congruence. apply nth_error_Some in H. lia.
  - destruct (N.eqb_spec (N.of_nat mi) (N.of_nat i)) as [He|_]; [apply Nat2N.inj in He; contradiction|].
    cbn. rewrite N.sub_0_r. auto.
Qed.

Lemma stay_rel_sigset : forall i mi s g,
  stay_rel i s (set_sigp (add_log s (LOG_SIGSET, N.of_nat mi, 0)) g).
Proof.
  intros i mi s g. eapply stay_rel_trans.
  - apply (stay_rel_log i s (LOG_SIGSET, N.of_nat mi, 0)); intro Hc; vm_compute in Hc; discriminate Hc.
  - apply stay_rel_same; reflexivity.
Qed.

Lemma stay_rel_ctr : forall i s mi r r' p,
  nth_error (rts s) mi = Some r -> cur r' = cur r -> lim r' = lim r ->
  stay_rel i s (set_pos (set_rt s mi r') p).
Proof.
  intros i s mi r r' p Hr Hc Hl. eapply stay_rel_trans; [eapply stay_rel_set_rt_keep; eauto|].
  apply stay_rel_same; reflexivity.
Qed.

Lemma stay_rel_czero : forall i s mi r r' p,
  nth_error (rts s) mi = Some r -> cur r' = cur r -> lim r' = lim r ->
  stay_rel i s (add_log (set_pos (set_rt s mi r') p) (LOG_CZERO, N.of_nat mi, 0)).
Proof.
  intros i s mi r r' p Hr Hc Hl. eapply stay_rel_trans; [eapply stay_rel_ctr; eauto|].
  apply stay_rel_log; intro Hx; vm_compute in Hx; discriminate Hx.
Qed.

Ltac st_side := let Hc := fresh in (intro Hc; vm_compute in Hc; discriminate Hc).

Ltac stay_prims i :=
  first [ solve [intros; apply stay_rel_same; reflexivity]
        | solve [intros; eapply stay_rel_trans; eassumption]
        | solve [intros; apply stay_rel_log; assumption]
        | solve [intros; eapply stay_rel_end; eassumption]
        | solve [intros; eapply stay_rel_change; eassumption]
        | solve [intros; eapply stay_rel_set_rt_keep; eassumption]
        | solve [intros; eapply stay_rel_dec; eassumption]
        | solve [intros; apply stay_rel_sigset]
        | solve [intros; eapply stay_rel_ctr; eassumption]
        | solve [intros; eapply stay_rel_czero; eassumption] ].

Lemma transition_stay : forall c tp i fuel s mi ev s' b,
  transition fuel c tp s mi ev = Ok (s', b) -> stay_rel i s s'.
Proof. intros c tp i. apply (transition_P c tp (fun _ => stay_rel i)); stay_prims i. Qed.

Lemma decrement_limit_stay : forall c tp i s mi s',
  decrement_limit c tp s mi = Ok s' -> stay_rel i s s'.
Proof. intros c tp i. apply (decrement_limit_P c tp (fun _ => stay_rel i)); stay_prims i. Qed.

(** a whole call *)
Theorem call_stay : forall c tp i s evs t s' acts,
  trigger_events c tp s evs t = Ok (s', acts) ->
  changes i (flog s') = 0 ->
  (cur_of s' i = cur_of s i \/ cur_of s' i = STATE_END) /\
  lim_of s' i = lim_of s i - decs i (flog s').
Proof.
  intros c tp i s evs t s' acts H Hz.
  destruct (trigger_events_G c tp (stay_rel i)) with (s := s) (evs := evs) (t := t) (s' := s') (acts := acts)
    as [(new & L & Hn) _]; try exact H;
    try (intros; first
      [ apply stay_rel_same; reflexivity
      | eapply stay_rel_trans; eassumption
      | eapply transition_stay; eassumption
      | eapply decrement_limit_stay; eassumption
      | apply stay_rel_log; st_side
      | eapply stay_rel_set_rt_keep; [eassumption|reflexivity|reflexivity] ]).
  cbn [flog begin_call] in L. rewrite app_nil_r in L. rewrite L in *.
  destruct (Hn Hz) as [C D].
  assert (Hb : nth_error (rts (begin_call s t)) i = option_map rt_clear_z (nth_error (rts s) i))
    by (cbn; apply nth_error_map).
  unfold cur_of, lim_of in *. rewrite Hb in C, D.
  destruct (nth_error (rts s) i); cbn in C, D; auto.
Qed.

(** the limit gate *)
Definition limited_kind (a : action) : bool :=
  match a with SendPadding _ _ _ _ | BlockOutgoing _ _ _ _ _ | UpdateTimer _ _ _ => true | Cancel _ => false end.

Lemma below_limit_blocking_lim : forall c s r m rep,
  below_limit_blocking c s r m rep = Ok true -> 0 < lim r.
Proof.
  unfold below_limit_blocking; intros c s r m rep H.
  destruct (rep && bactive s); [inversion H; apply N.ltb_lt; assumption|].
  mbind H as md Em. mbind H as gd Eg.
  destruct (md <? _); [inversion H; apply N.ltb_lt; assumption|].
  destruct (_ && _); [discriminate|]. destruct (_ && _); [discriminate|].
  inversion H; apply N.ltb_lt; assumption.
Qed.

Theorem limit_gate : forall c s r m st a,
  nthN (states m) (cur r) = Some st -> saction st = Some a -> limited_kind a = true ->
  below_action_limits c s r m = Ok true -> 0 < lim r.
Proof.
  intros c s r m st a Hst Ha Hk H. unfold below_action_limits, getN in H. rewrite Hst in H. cbn [bind] in H.
  rewrite Ha in H. destruct a as [t|b rp t l|b rp t d l|rp d l]; try discriminate Hk.
  - injection H as H. unfold below_limit_padding in H.
    destruct (psent r <? _); [apply N.ltb_lt; exact H|].
    destruct (_ && _ && _); [discriminate|]. destruct (_ && _ && _); [discriminate|].
    apply N.ltb_lt; exact H.
  - eapply below_limit_blocking_lim; eauto.
  - injection H as H. apply N.ltb_lt; exact H.
Qed.
