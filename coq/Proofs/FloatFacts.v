(** Facts about the float layer (the only place real analysis is used):
    exact conversion of small integers, the one-day clamp, the division
    lemma that turns the f64 budget test into a rational inequality. *)
From Coq Require Import ZArith NArith Reals Lia Lra Psatz Bool.
From Flocq Require Import Core.Core IEEE754.BinarySingleNaN.
From MB Require Import Base.Floats.
Open Scope Z_scope.

Notation fexp64 := (SpecFloat.fexp prec64 emax64).
Notation rnd64 := (round radix2 fexp64 ZnearestE).

Lemma format_small_Z : forall z, (Z.abs z < 2 ^ 53)%Z -> generic_format radix2 fexp64 (IZR z).
Proof.
  intros z Hz.
  replace (IZR z) with (F2R (Float radix2 z 0)) by (unfold F2R; simpl; ring).
  apply generic_format_F2R. intros Hnz.
  unfold cexp, SpecFloat.fexp.
  assert (Hm: (mag radix2 (F2R (Float radix2 z 0)) <= 53)%Z).
  { apply mag_le_bpow.
    - unfold F2R; simpl. rewrite Rmult_1_r. now apply IZR_neq.
    - unfold F2R; simpl. rewrite Rmult_1_r. rewrite <- abs_IZR.
      change (bpow radix2 53) with (IZR (2^53)). now apply IZR_lt. }
  unfold SpecFloat.emin, prec64, emax64 in *. lia.
Qed.

Definition ofZ (z : Z) : F64 := binary_normalize prec64 emax64 _ _ mode_NE z 0 false.

Lemma ofZ_exact : forall z, (Z.abs z < 2^53)%Z -> B2R (ofZ z) = IZR z /\ is_finite (ofZ z) = true.
Proof.
  intros z Hz. unfold ofZ.
  generalize (binary_normalize_correct prec64 emax64 _ _ mode_NE z 0 false).
  cbv zeta. change (round_mode mode_NE) with ZnearestE.
  assert (HF: F2R (Float radix2 z 0) = IZR z) by (unfold F2R; simpl; ring).
  rewrite HF.
  rewrite round_generic; auto with typeclass_instances; [| now apply format_small_Z].
  rewrite Rlt_bool_true.
  - intros (H1 & H2 & _). split; assumption.
  - rewrite <- abs_IZR. apply Rlt_trans with (IZR (2^53)). now apply IZR_lt.
    change (IZR (2^53)) with (bpow radix2 53). apply bpow_lt. unfold emax64; lia.
Qed.

Lemma f64_of_N_exact : forall n, (n < 2^53)%N ->
  B2R (f64_of_N n) = IZR (Z.of_N n) /\ is_finite (f64_of_N n) = true.
Proof.
  intros n Hn. change (f64_of_N n) with (ofZ (Z.of_N n)). apply ofZ_exact.
  rewrite Z.abs_eq by lia. change (2^53)%Z with (Z.of_N (2^53)%N). lia.
Qed.

Lemma f64_day_exact : B2R f64_day = IZR 86400000000 /\ is_finite f64_day = true.
Proof. apply (f64_of_N_exact DAY_US). unfold DAY_US. reflexivity. Qed.

(** ** the one-day clamp: [x.min(8.64e10).round() as u64 <= 86_400_000_000]
    for every x, NaN and infinities included *)
Lemma fmin_day_cases : forall v : F64,
  fmin v f64_day = f64_day \/
  (fmin v f64_day = v /\ is_nan v = false /\ Bltb f64_day v = false).
Proof.
  intros v. unfold fmin.
  destruct (is_nan v) eqn:En; [left; reflexivity|].
  replace (is_nan f64_day) with false by (vm_compute; reflexivity).
  destruct (Bltb f64_day v) eqn:El; [left; reflexivity|right; auto].
Qed.

Lemma round_finite_le_day : forall m e (H : SpecFloat.bounded prec64 emax64 m e = true),
  Bltb f64_day (B754_finite false m e H) = false ->
  (f64_round_u64 (B754_finite false m e H) <= DAY_US)%N.
Proof.
  intros m e H Hlt.
  destruct f64_day_exact as [Hd Hf].
  rewrite Bltb_correct in Hlt by (auto; reflexivity).
  rewrite Hd in Hlt.
  assert (Hle : (B2R (B754_finite false m e H) <= IZR 86400000000)%R).
  { destruct (Rlt_bool_spec (IZR 86400000000) (B2R (B754_finite false m e H))); [discriminate|assumption]. }
  clear Hlt. unfold B2R, F2R in Hle. cbn [Fnum Fexp cond_Zopp] in Hle.
  unfold f64_round_u64, DAY_US.
  destruct (Z.leb_spec 0 e) as [He|He].
  - (* e >= 0 *)
    assert (Hv : (Z.pos m * 2 ^ e <= 86400000000)%Z).
    { apply le_IZR. rewrite mult_IZR. rewrite (IZR_Zpower radix2) by lia. exact Hle. }
    assert (0 <= Z.pos m * 2 ^ e)%Z by (apply Z.mul_nonneg_nonneg; [lia|apply Z.pow_nonneg; lia]).
    unfold U64MAXZ. lia.
  - set (d := (2 ^ (- e))%Z).
    assert (Hd0 : (2 <= d)%Z).
    { subst d. replace (- e)%Z with (Z.succ (- e - 1)) by lia. rewrite Z.pow_succ_r by lia.
      assert (0 < 2 ^ (- e - 1))%Z by (apply Z.pow_pos_nonneg; lia). lia. }
    assert (Hm : (Z.pos m <= 86400000000 * d)%Z).
    { apply le_IZR. rewrite mult_IZR. subst d. rewrite (IZR_Zpower radix2) by lia.
      apply Rmult_le_reg_r with (bpow radix2 e); [apply bpow_gt_0|].
      rewrite Rmult_assoc, <- bpow_plus. replace (- e + e)%Z with 0%Z by lia.
      simpl bpow. rewrite Rmult_1_r. exact Hle. }
    pose proof (Z.div_mod (Z.pos m) d ltac:(lia)) as Hdm.
    pose proof (Z.mod_pos_bound (Z.pos m) d ltac:(lia)) as Hr.
    assert (Hq0 : (0 <= Z.pos m / d)%Z) by (apply Z.div_pos; lia).
    assert (Hq : (Z.pos m / d <= 86400000000)%Z) by (apply Z.div_le_upper_bound; lia).
    destruct (Z.leb_spec d (2 * (Z.pos m mod d))) as [Hup|Hup]; unfold U64MAXZ.
    + assert (Z.pos m / d < 86400000000)%Z by nia. lia.
    + lia.
Qed.

Theorem round_day_bound : forall v : F64, (f64_round_u64 (fmin v f64_day) <= DAY_US)%N.
Proof.
  intros v. destruct (fmin_day_cases v) as [->|(-> & Hn & Hl)].
  - vm_compute. discriminate.
  - destruct v as [s|s| |s m e H].
    + cbn [f64_round_u64]. unfold DAY_US; lia.
    + cbn [f64_round_u64]. destruct s; [unfold DAY_US; lia|]. vm_compute in Hl. discriminate.
    + discriminate.
    + destruct s; [cbn [f64_round_u64]; unfold DAY_US; lia|]. apply round_finite_le_day. exact Hl.
Qed.

(** ** the division lemma: when the f64 test [f <= fl(p / t)] is false, the
    exact rational p/t is below the exact value of f (for totals < 2^53) *)
Theorem div_deny_exact :
  forall (p t : Z) (f : F64),
    (0 <= p <= t)%Z -> (0 < t < 2^53)%Z -> is_finite f = true ->
    fle f (fdiv (ofZ p) (ofZ t)) = false ->
    (IZR p / IZR t < B2R f)%R.
Proof.
  intros p t f Hp Ht Ff Hle.
  destruct (ofZ_exact p) as [Rp Fp]; [lia|].
  destruct (ofZ_exact t) as [Rt Ft]; [lia|].
  assert (Htpos: (0 < IZR t)%R) by (apply IZR_lt; lia).
  assert (Hq01: (0 <= IZR p / IZR t <= 1)%R).
  { split. apply Rmult_le_pos. apply IZR_le; lia. left. now apply Rinv_0_lt_compat.
    apply Rmult_le_reg_r with (IZR t); auto. unfold Rdiv. rewrite Rmult_assoc, Rinv_l by lra.
    rewrite Rmult_1_r, Rmult_1_l. apply IZR_le; lia. }
  generalize (Bdiv_correct prec64 emax64 _ _ mode_NE (ofZ p) (ofZ t)).
  rewrite Rp, Rt. intros Hd. specialize (Hd ltac:(lra)).
  assert (Hr01: (0 <= rnd64 (IZR p / IZR t) <= 1)%R).
  { split.
    - assert (H0: rnd64 0 = 0%R) by (apply round_0; auto with typeclass_instances).
      rewrite <- H0 at 1. apply round_le; [apply (fexp_correct prec64 emax64 Hprec64) | apply valid_rnd_N | apply Hq01].
    - assert (H1: rnd64 1 = 1%R).
      { apply round_generic; auto with typeclass_instances.
        change 1%R with (IZR 1). apply format_small_Z. simpl. lia. }
      rewrite <- H1. apply round_le; [apply (fexp_correct prec64 emax64 Hprec64) | apply valid_rnd_N | apply Hq01]. }
  change (round_mode mode_NE) with ZnearestE in Hd.
  rewrite Rlt_bool_true in Hd.
  2:{ rewrite Rabs_pos_eq by lra. apply Rle_lt_trans with 1%R. lra.
      change 1%R with (bpow radix2 0). apply bpow_lt. unfold emax64; lia. }
  destruct Hd as (Hv & Hfin & _). rewrite Fp in Hfin.
  unfold fle, fdiv in Hle. rewrite Bleb_correct in Hle by assumption.
  rewrite Hv in Hle.
  destruct (Rle_bool_spec (B2R f) (rnd64 (IZR p / IZR t))) as [H|H]; [discriminate|].
  destruct (Rlt_or_le (IZR p / IZR t) (B2R f)) as [Hlt|Hge]; [exact Hlt|].
  exfalso. apply (Rlt_irrefl (B2R f)). eapply Rle_lt_trans; [|exact H].
  assert (Hf: rnd64 (B2R f) = B2R f).
  { apply round_generic; [apply valid_rnd_N | apply generic_format_B2R]. }
  rewrite <- Hf at 1.
  apply round_le; [apply (fexp_correct prec64 emax64 Hprec64) | apply valid_rnd_N | exact Hge].
Qed.

(** a float that passed [(0.0..=1.0).contains] is a real number in [0,1] *)
Lemma unit_range_finite : forall f : F64,
  fle f64_zero f = true -> fle f (ofZ 1) = true ->
  is_finite f = true /\ (0 <= B2R f <= 1)%R.
Proof.
  intros f H0 H1.
  destruct (ofZ_exact 1) as [R1 F1]; [simpl; lia|].
  assert (Hfin : is_finite f = true).
  { destruct f as [s|s| |s m e Hb]; try reflexivity.
    - destruct s; [vm_compute in H0; discriminate|vm_compute in H1; discriminate].
    - vm_compute in H0; discriminate. }
  split; [exact Hfin|].
  unfold fle in *. rewrite Bleb_correct in H0, H1 by (auto; reflexivity).
  rewrite R1 in H1. change (B2R f64_zero) with 0%R in H0.
  destruct (Rle_bool_spec 0 (B2R f)); [|discriminate].
  destruct (Rle_bool_spec (B2R f) 1); [|discriminate]. lra.
Qed.
