(** List-as-array facts used throughout. *)
From MB Require Import Base.Prelude.
Open Scope N_scope.

Lemma upd_length : forall {A} (l : list A) i x, length (upd l i x) = length l.
Proof. induction l as [|h t IH]; intros [|i] x; cbn; auto. Qed.

Lemma nth_error_upd_eq : forall {A} (l : list A) i x,
  (i < length l)%nat -> nth_error (upd l i x) i = Some x.
Proof.
  induction l as [|h t IH]; intros [|i] x H; cbn in *; try lia; auto. apply IH; lia.
Qed.

Lemma nth_error_upd_neq : forall {A} (l : list A) i j x,
  i <> j -> nth_error (upd l i x) j = nth_error l j.
Proof.
  induction l as [|h t IH]; intros [|i] [|j] x H; cbn; auto; try congruence.
Qed.

Lemma nth_error_upd : forall {A} (l : list A) i j x,
  nth_error (upd l i x) j =
  if Nat.eqb i j then (if Nat.ltb i (length l) then Some x else None) else nth_error l j.
Proof.
  intros A l i j x. destruct (Nat.eqb_spec i j) as [->|Hn].
  - destruct (Nat.ltb_spec j (length l)) as [Hl|Hl].
    + apply nth_error_upd_eq; auto.
    + assert (Hlen : (length (upd l j x) <= j)%nat) by (rewrite upd_length; lia).
      apply nth_error_None in Hlen. exact Hlen.
  - apply nth_error_upd_neq; auto.
Qed.

Lemma get_lt : forall {A} (l : list A) i, (i < length l)%nat -> exists x, get l i = Ok x.
Proof.
  intros A l i H. unfold get. destruct (nth_error l i) eqn:E; eauto.
  apply nth_error_None in E. lia.
Qed.

Lemma get_Ok_lt : forall {A} (l : list A) i x, get l i = Ok x -> (i < length l)%nat.
Proof.
  unfold get; intros A l i x H. destruct (nth_error l i) eqn:E; [|discriminate].
  apply nth_error_Some. congruence.
Qed.

Lemma nthN_lt : forall {A} (l : list A) i, i < N.of_nat (length l) -> exists x, nthN l i = Some x.
Proof.
  induction l as [|h t IH]; intros i H; cbn [length] in H; [lia|].
  cbn [nthN]. destruct (N.eqb_spec i 0); [eauto|]. apply IH. lia.
Qed.

Lemma nthN_In : forall {A} (l : list A) i x, nthN l i = Some x -> In x l.
Proof.
  induction l as [|h t IH]; intros i x H; cbn [nthN] in H; [discriminate|].
  destruct (i =? 0); [inversion H; left; auto|right; eapply IH; eauto].
Qed.

Lemma nthN_Some_lt : forall {A} (l : list A) i x, nthN l i = Some x -> i < N.of_nat (length l).
Proof.
  induction l as [|h t IH]; intros i x H; cbn [nthN] in H; [discriminate|].
  cbn [length]. destruct (N.eqb_spec i 0); [lia|]. apply IH in H. lia.
Qed.

Lemma getN_lt : forall {A} (l : list A) i, i < N.of_nat (length l) -> exists x, getN l i = Ok x.
Proof.
  intros A l i H. destruct (nthN_lt l i H) as [x Hx]. exists x. unfold getN. rewrite Hx. auto.
Qed.

Lemma upd_same : forall {A} (l : list A) i x, nth_error l i = Some x -> upd l i x = l.
Proof.
  induction l as [|y l IH]; intros [|i] x H; cbn in *; try discriminate.
  - inversion H; reflexivity.
  - rewrite IH; auto.
Qed.

Lemma NoDup_app_one : forall {A} (l : list A) x, NoDup l -> ~ In x l -> NoDup (l ++ [x]).
Proof.
  induction l as [|y l IH]; intros x Hn Hx; cbn; [constructor; [intros []|constructor]|].
  inversion Hn; subst. constructor.
  - rewrite in_app_iff. intros [H|[H|[]]]; [contradiction|subst; apply Hx; left; reflexivity].
  - apply IH; [assumption|intros H; apply Hx; right; exact H].
Qed.
