From Coq Require Import List Arith Lia Permutation Sorted ZArith.
From MB Require Import Base.Prelude Model.Framework Model.Sim Proofs.Tactics Proofs.SimBasics.
Import ListNotations.
Open Scope N_scope.

(** C19: the output filters ([only_client], [only_network]) are pure projections
    also when a maximum trace length [M > 0] is configured.

    The filtered run with bound [M] returns exactly the first [M] elements (all of
    them if there are fewer) of the filtered trace of the run WITHOUT filters and
    WITHOUT a trace-length bound (same iteration bound, same continue flag).
    The filtered bounded run stops at the iteration where its own filtered trace
    reaches [M] elements; up to that iteration both runs go through the same states. *)

(** the reference run: no filters, no trace-length bound, everything else equal *)
Definition reference (args : simargs) : simargs :=
  mksimargs 0 (a_max_iter args) (a_continue args) false false.

Lemma keep_reference : forall args e, keep (reference args) e = true.
Proof. reflexivity. Qed.

(** * list facts *)

(** [firstn] of a list that starts with exactly [n] given elements *)
Lemma firstn_exact_app : forall {A} (l rest : list A) n,
  length l = n -> firstn n (l ++ rest) = l.
Proof.
  intros A l rest n <-. rewrite firstn_app, Nat.sub_diag, firstn_all.
  cbn [firstn]. apply app_nil_r.
Qed.

(** * a result of the loop always extends the accumulated trace *)
Lemma sim_loop_prefix : forall cc sc tp args fuel st nowt tr iters out,
  sim_loop fuel cc sc tp args st nowt tr iters = Ok out -> exists rest, out = rev tr ++ rest.
Proof.
  intros cc sc tp args. induction fuel as [|f IH]; intros st nowt tr iters out H.
  - discriminate H.
  - rewrite sim_loop_S in H. mbind H as r Est.
    destruct r as [[[next act] st3]|].
    2:{ injection H as <-. exists []. rewrite app_nil_r. reflexivity. }
    cbv zeta in H.
    remember (if (negb (a_only_network args) || act) && (negb (a_only_client args) || se_client next)
              then next :: tr else tr) as tr' eqn:Etr in *.
    assert (Hext : forall rest', exists rest, rev tr' ++ rest' = rev tr ++ rest).
    { rewrite Etr; clear Etr H; intros rest'.
      destruct ((negb (a_only_network args) || act) && _).
      - cbn [rev]. rewrite <- app_assoc. eexists. reflexivity.
      - eexists. reflexivity. }
    clear Etr.
    assert (Hstop : exists rest, rev tr' = rev tr ++ rest).
    { destruct (Hext []) as [rest Hr]. rewrite app_nil_r in Hr. exists rest. exact Hr. }
    dif H; [injection H as <-; exact Hstop|].
    dif H; [injection H as <-; exact Hstop|].
    dif H; [injection H as <-; exact Hstop|].
    apply IH in H as [rest' ->]. apply Hext.
Qed.

(** the two ways the filtered, bounded run can finish, against a reference result *)

(** (a) stopped by its trace bound: exactly [M] elements, a prefix of the reference *)
Lemma finish_by_bound : forall args (trU' : list sev) outU M,
  length (filter (keep args) trU') = M ->
  (exists rest, outU = rev trU' ++ rest) ->
  rev (filter (keep args) trU') = firstn M (filter (keep args) outU).
Proof.
  intros args trU' outU M Hlen [rest ->].
  rewrite filter_app, filter_rev'. symmetry. apply firstn_exact_app.
  rewrite rev_length. exact Hlen.
Qed.

(** (b) both stopped together with fewer than [M] (or exactly [M]) elements *)
Lemma finish_together : forall args (trU' : list sev) M,
  (length (filter (keep args) trU') <= M)%nat ->
  rev (filter (keep args) trU') = firstn M (filter (keep args) (rev trU')).
Proof.
  intros args trU' M Hlen. rewrite filter_rev'. symmetry. apply firstn_all2.
  rewrite rev_length. exact Hlen.
Qed.

(** * the loop *)
Theorem sim_loop_projection_bounded : forall cc sc tp args, 0 < a_max_trace args ->
  forall fuelF fuelU st nowt trU iters outF outU,
  N.of_nat (length (filter (keep args) trU)) < a_max_trace args ->
  sim_loop fuelF cc sc tp args st nowt (filter (keep args) trU) iters = Ok outF ->
  sim_loop fuelU cc sc tp (reference args) st nowt trU iters = Ok outU ->
  outF = firstn (N.to_nat (a_max_trace args)) (filter (keep args) outU).
Proof.
  intros cc sc tp args Hpos.
  induction fuelF as [|fF IH]; intros fuelU st nowt trU iters outF outU Hlen HF HU.
  - discriminate HF.
  - destruct fuelU as [|fU]; [discriminate HU|].
    rewrite sim_loop_S in HF, HU.
    destruct (sim_step cc sc tp st nowt) as [[[[next act] st3]|]|k|] eqn:Est;
      cbn [bind] in HF, HU; try discriminate HF.
    2:{ (* nothing left to do: both stop with their accumulated traces *)
      injection HF as <-. injection HU as <-.
      apply finish_together. lia. }
    apply sim_step_spec in Est as [-> _].
    cbn [reference a_max_trace a_max_iter a_continue a_only_client a_only_network] in HU.
    rewrite N.ltb_irrefl in HU. cbn [andb negb orb] in HU.
    cbv zeta in HF. rewrite trace_step_keep in HF.
    assert (Hlen' : (length (filter (keep args) (next :: trU))
                     <= S (length (filter (keep args) trU)))%nat).
    { cbn [filter]. destruct (keep args next); cbn [length]; lia. }
    (* the filtered run's trace bound *)
    dif HF.
    { injection HF as <-.
      apply andb_prop in Eif as [_ Ele]. apply N.leb_le in Ele.
      apply (finish_by_bound args (next :: trU)); [lia|].
      dif HU; [injection HU as <-; exists []; rewrite app_nil_r; reflexivity|].
      dif HU; [injection HU as <-; exists []; rewrite app_nil_r; reflexivity|].
      eapply sim_loop_prefix. exact HU. }
    assert (Hlt : N.of_nat (length (filter (keep args) (next :: trU))) < a_max_trace args).
    { apply andb_false_iff in Eif. destruct Eif as [E|E].
      - apply N.ltb_ge in E. lia.
      - apply N.leb_gt in E. exact E. }
    (* the remaining stop tests are the same in both runs *)
    destruct ((0 <? a_max_iter args) && (a_max_iter args <=? iters + 1)).
    { injection HF as <-. injection HU as <-. apply (finish_together args (next :: trU)). lia. }
    destruct (negb (a_continue args) && sq_no_normal (m_sq st3)).
    { injection HF as <-. injection HU as <-. apply (finish_together args (next :: trU)). lia. }
    eapply IH; [exact Hlt|exact HF|exact HU].
Qed.

(** * the whole simulation *)
Theorem sim_advanced_projection_bounded : forall fuelF fuelU cc sc tp sq delay pps args outF outU,
  0 < a_max_trace args ->
  sim_advanced fuelF cc sc tp sq delay pps args = Ok outF ->
  sim_advanced fuelU cc sc tp sq delay pps (reference args) = Ok outU ->
  outF = firstn (N.to_nat (a_max_trace args)) (filter (keep args) outU).
Proof.
  intros fuelF fuelU cc sc tp sq delay pps args outF outU Hpos HF HU.
  unfold sim_advanced in HF, HU.
  destruct (sq_first_time sq) as [t0|]; [|discriminate HF].
  destruct (fnew_at cc tp t0 0) as [cfw|k|]; cbn [bind] in HF, HU; try discriminate HF.
  destruct (fnew_at sc tp t0 (pos cfw)) as [sfw|k|]; cbn [bind] in HF, HU; try discriminate HF.
  destruct (netb_new delay pps (sq_pps sq)) as [net|k|]; cbn [bind] in HF, HU; try discriminate HF.
  mbind HF as trF EF. mbind HU as trU EU.
  injection HF as <-. injection HU as <-.
  (* the final stable sort is the identity on both loop results *)
  assert (HsF : Sorted time_le trF).
  { eapply sim_loop_sorted; [| |exact EF]; [cbn [rev]; constructor|intros x []]. }
  assert (HsU : Sorted time_le trU).
  { eapply sim_loop_sorted; [| |exact EU]; [cbn [rev]; constructor|intros x []]. }
  rewrite (sort_time_id _ HsF), (sort_time_id _ HsU).
  change (@nil sev) with (filter (keep args) []) in EF.
  eapply sim_loop_projection_bounded; [exact Hpos| |exact EF|exact EU].
  cbn [filter length]. exact Hpos.
Qed.

(** Consequences, for the record: the bounded filtered output is a prefix of the
    filtered reference output, and the two agree entirely when the reference output
    has at most [M] kept elements. *)
Corollary sim_advanced_bounded_prefix : forall fuelF fuelU cc sc tp sq delay pps args outF outU,
  0 < a_max_trace args ->
  sim_advanced fuelF cc sc tp sq delay pps args = Ok outF ->
  sim_advanced fuelU cc sc tp sq delay pps (reference args) = Ok outU ->
  exists rest, filter (keep args) outU = outF ++ rest.
Proof.
  intros fuelF fuelU cc sc tp sq delay pps args outF outU Hpos HF HU.
  rewrite (sim_advanced_projection_bounded _ _ _ _ _ _ _ _ _ _ _ Hpos HF HU).
  exists (skipn (N.to_nat (a_max_trace args)) (filter (keep args) outU)).
  symmetry. apply firstn_skipn.
Qed.

Corollary sim_advanced_bounded_all : forall fuelF fuelU cc sc tp sq delay pps args outF outU,
  0 < a_max_trace args ->
  sim_advanced fuelF cc sc tp sq delay pps args = Ok outF ->
  sim_advanced fuelU cc sc tp sq delay pps (reference args) = Ok outU ->
  N.of_nat (length (filter (keep args) outU)) <= a_max_trace args ->
  outF = filter (keep args) outU.
Proof.
  intros fuelF fuelU cc sc tp sq delay pps args outF outU Hpos HF HU Hle.
  rewrite (sim_advanced_projection_bounded _ _ _ _ _ _ _ _ _ _ _ Hpos HF HU).
  apply firstn_all2. lia.
Qed.
