(** Property C18 at the level of whole runs: every TimerBegin of a run follows an
    UpdateTimer action returned for that machine on that side at that same
    instant, and every TimerEnd is reported exactly at the expiry of an earlier
    UpdateTimer that was neither cancelled nor superseded before that expiry
    ([timer_begin_sound], [timer_end_sound] at the end of the file).

    The statements are about the history of the instrumented loop [sim_loop_h]
    of SimHistory.v. The proof is a loop invariant ([Inv] below) relating the
    timer slots and the queued TimerBegin/TimerEnd events to the history. *)
From Coq Require Import List Arith Lia Permutation ZArith Bool.
From MB Require Import Base.Prelude Model.Framework Model.Sim Proofs.Tactics Proofs.SimHeap.
From MB Require Import Proofs.SimBasics Proofs.SimReach Proofs.SimHistory Proofs.SimTimers.
From MB Require Proofs.SimBlocking Proofs.SimIdentity Proofs.SimTrace.
Import ListNotations.
Open Scope N_scope.

Module SB := SimBlocking.
Module SI := SimIdentity.

(** * 1. While an event of an internal heap is due, [pick_next] does not let time pass *)

Definition side_of (st : sim) (ic : bool) : side := if ic then m_c st else m_s st.
Definition qint (sq : simq) (ic : bool) : list sev := q_internal (sq_side sq ic).
(** the internal heaps are heaps *)
Definition ih (sq : simq) : Prop := forall ic, SI.hp (qint sq ic).

Lemma since_zero : forall a b, (a <= b)%Z -> since a b = 0.
Proof. intros a b H. unfold since. lia. Qed.

Lemma hp_head : forall h e, SI.hp h -> In e h ->
  exists i0, heap_peek h = Some i0 /\ (se_time i0 <= se_time e)%Z.
Proof.
  intros h e Hh He. pose proof (SI.lb_peek h Hh) as Hl.
  destruct (heap_peek h) as [p|] eqn:Ep; cbn [SI.lb] in Hl.
  - exists p. split; [reflexivity|]. apply SI.kle_time. apply Hl. exact He.
  - subst h. destruct He.
Qed.

Lemma before_time : forall b x delay,
  before (Some b) (Some x) delay = true -> (se_time b + Z.of_N delay <= se_time x)%Z.
Proof.
  intros b x delay H. unfold before, key_cmp in H.
  destruct (Z.compare_spec (se_time b + Z.of_N delay) (se_time x)) as [E|E|E]; try lia; try discriminate H.
Qed.

Lemma sev_gt_time : forall a b, sev_gt a b = true -> (se_time a <= se_time b)%Z.
Proof. intros a b H. rewrite SI.sev_gt_spec in H. lia. Qed.

Lemma sev_gt_false_time : forall a b, sev_gt a b = false -> (se_time b <= se_time a)%Z.
Proof.
  intros a b H.
  assert (E : ~ ((se_time a < se_time b)%Z \/
                 (se_time a = se_time b /\ ev_idx (se_ev a) < ev_idx (se_ev b)))).
  { intros C. rewrite <- SI.sev_gt_spec in C. congruence. }
  lia.
Qed.

Lemma evq_peek_zero_aux : forall (f1 : option sev) (q1 : qid) i0 (nb : option sev) delay nowt,
  (se_time i0 <= nowt)%Z ->
  exists p w,
  (let '(first, qq) := if opt_gt (Some i0) f1 then (Some i0, QInternal) else (f1, q1) in
   if before nb first delay
   then (nb, QBase, match nb with Some x => since (se_time x + Z.of_N delay) nowt | None => 0 end)
   else (first, qq, match first with Some x => since (se_time x) nowt | None => 0 end)) = (Some p, w, 0).
Proof.
  intros f1 q1 i0 nb delay nowt Ht.
  assert (Hf : exists x qq, (if opt_gt (Some i0) f1 then (Some i0, QInternal) else (f1, q1)) = (Some x, qq)
                            /\ (se_time x <= nowt)%Z).
  { destruct f1 as [f|]; cbn [opt_gt].
    - destruct (sev_gt i0 f) eqn:E.
      + exists i0, QInternal. split; [reflexivity|exact Ht].
      + exists f, q1. split; [reflexivity|]. apply sev_gt_false_time in E. lia.
    - exists i0, QInternal. split; [reflexivity|exact Ht]. }
  destruct Hf as (x & qq & -> & Hx).
  destruct nb as [b|].
  - destruct (before (Some b) (Some x) delay) eqn:Eb.
    + apply before_time in Eb. exists b, QBase. rewrite since_zero by lia. reflexivity.
    + exists x, qq. rewrite since_zero by lia. reflexivity.
  - cbn [before]. exists x, qq. rewrite since_zero by lia. reflexivity.
Qed.

Lemma evq_peek_zero : forall q delay nowt e,
  SI.hp (q_internal q) -> In e (q_internal q) -> (se_time e <= nowt)%Z ->
  exists p w, evq_peek q delay nowt = (Some p, w, 0).
Proof.
  intros q delay nowt e Hh He Ht.
  destruct (hp_head _ _ Hh He) as (i0 & Hi & Hi0).
  assert (Hlen : evq_len q <> 0%nat).
  { unfold evq_len. destruct (q_internal q); [destruct He|cbn [length]; lia]. }
  unfold evq_peek. destruct (evq_len q) as [|n]; [congruence|].
  rewrite Hi.
  destruct (opt_gt (heap_peek (q_blocking q)) (heap_peek (q_bypass q)));
    apply evq_peek_zero_aux; lia.
Qed.

Lemma sq_len_pos : forall sq ic e, In e (qint sq ic) -> sq_len sq <> 0%nat.
Proof.
  intros sq ic e He. unfold sq_len, evq_len. unfold qint, sq_side in He.
  destruct ic; destruct (q_internal _); try destruct He; cbn [length]; lia.
Qed.

Lemma sq_peek_zero : forall sq cd sd nowt ic e,
  ih sq -> In e (qint sq ic) -> (se_time e <= nowt)%Z ->
  exists p w, sq_peek sq cd sd nowt = (Some p, w, 0).
Proof.
  intros sq cd sd nowt ic e Hh He Ht.
  pose proof (sq_len_pos _ _ _ He) as Hlen.
  unfold sq_peek. destruct (sq_len sq) as [|n]; [congruence|].
  specialize (Hh ic). unfold qint, sq_side in *.
  destruct ic.
  - destruct (evq_peek_zero (sq_c sq) cd nowt e Hh He Ht) as (p & w & ->).
    destruct (evq_peek (sq_s sq) sd nowt) as [[[s|] sqq] sdur]; [|eauto].
    destruct (N.compare_spec 0 sdur) as [E|E|E]; [|eauto|lia].
    subst sdur. destruct (ev_idx (se_ev p) ?= ev_idx (se_ev s)); eauto.
  - destruct (evq_peek_zero (sq_s sq) sd nowt e Hh He Ht) as (p & w & ->).
    destruct (evq_peek (sq_c sq) cd nowt) as [[[c|] cq] cdur]; [|eauto].
    destruct (N.compare_spec cdur 0) as [E|E|E]; [|lia|eauto].
    subst cdur. destruct (ev_idx (se_ev c) ?= ev_idx (se_ev p)); eauto.
Qed.

Lemma pqes_zero : forall sq bu bb nowt delay ic e,
  ih sq -> In e (qint sq ic) -> (se_time e <= nowt)%Z ->
  fst (fst (peek_queue_earliest_side sq bu bb nowt delay ic)) = 0.
Proof.
  intros sq bu bb nowt delay ic e Hh He Ht.
  destruct (hp_head _ _ (Hh ic) He) as (i0 & Hi & Hi0). unfold qint in Hi.
  (* the non-blocking peek finds something due *)
  assert (Hn : exists n nq, sq_peek_non_blocking sq bb ic delay = (Some n, nq) /\
                 ((if qid_eqb nq QBase then (se_time n + Z.of_N delay)%Z else se_time n) <= nowt)%Z).
  { assert (He0 : exists n nq, evq_peek_non_blocking (sq_side sq ic) delay = (Some n, nq) /\
                    ((if qid_eqb nq QBase then (se_time n + Z.of_N delay)%Z else se_time n) <= nowt)%Z /\
                    (se_time n <= nowt)%Z).
    { unfold evq_peek_non_blocking. rewrite Hi.
      destruct (heap_peek (q_base (sq_side sq ic))) as [b|].
      - destruct (before (Some b) (Some i0) delay) eqn:Eb.
        + apply before_time in Eb. exists b, QBase. cbn [qid_eqb]. split; [reflexivity|]. lia.
        + exists i0, QInternal. cbn [qid_eqb]. split; [reflexivity|]. lia.
      - cbn [before]. exists i0, QInternal. cbn [qid_eqb]. split; [reflexivity|]. lia. }
    destruct He0 as (n & nq & En & Hn1 & Hn2).
    unfold sq_peek_non_blocking. destruct bb; [|eauto].
    rewrite En. destruct (heap_peek (q_bypass (sq_side sq ic))) as [y|]; cbn [opt_gt]; [|eauto].
    destruct (sev_gt y n) eqn:Eg; [|eauto].
    apply sev_gt_time in Eg. exists y, QBypassable. cbn [qid_eqb]. split; [reflexivity|]. lia. }
  destruct Hn as (n & nq & En & Hnt).
  unfold peek_queue_earliest_side.
  destruct (sq_peek_blocking sq bb ic) as [pb bq]. rewrite En.
  destruct pb as [b|]; cbn [fst].
  - set (nt := if qid_eqb nq QBase then (se_time n + Z.of_N delay)%Z else se_time n) in *.
    set (bt := Z.max (se_time b) (match bu with Some u => u | None => nowt end)).
    destruct (Z.compare_spec bt nt) as [E|E|E].
    + destruct (negb (qid_eqb nq QBase)); cbn [fst]; apply since_zero; lia.
    + cbn [fst]. apply since_zero; lia.
    + cbn [fst]. apply since_zero; lia.
  - apply since_zero. exact Hnt.
Qed.

Lemma peek_queue_zero : forall sq c s cd sd earliest nowt ic e,
  ih sq -> In e (qint sq ic) -> (se_time e <= nowt)%Z ->
  fst (fst (peek_queue sq c s cd sd earliest nowt)) = 0.
Proof.
  intros sq c s cd sd earliest nowt ic e Hh He Ht.
  pose proof (sq_len_pos _ _ _ He) as Hlen.
  destruct (sq_peek_zero sq cd sd nowt ic e Hh He Ht) as (p & w & Ep).
  unfold peek_queue. destruct (sq_len sq) as [|n]; [congruence|].
  rewrite Ep. destruct (earliest <? 0) eqn:E0; [apply N.ltb_lt in E0; lia|].
  destruct (negb (is_tunnel_sent (se_ev p))); [reflexivity|].
  match goal with |- context [if ?b then (0, w, se_client p) else _] => destruct b end; [reflexivity|].
  match goal with |- context [if ?b then (0, w, se_client p) else _] => destruct b end; [reflexivity|].
  match goal with |- context [if ?b then (0, w, se_client p) else _] => destruct b end; [reflexivity|].
  pose proof (pqes_zero sq (s_buntil c) (s_bbypass c) nowt cd true) as Zc.
  pose proof (pqes_zero sq (s_buntil s) (s_bbypass s) nowt sd false) as Zs.
  destruct (peek_queue_earliest_side sq (s_buntil c) (s_bbypass c) nowt cd true) as [[c_d c_q] c_b].
  destruct (peek_queue_earliest_side sq (s_buntil s) (s_bbypass s) nowt sd false) as [[s_d s_q] s_b].
  cbn [fst] in Zc, Zs.
  destruct ic.
  - rewrite (Zc e Hh He Ht). destruct (N.leb_spec 0 s_d); cbn [fst]; [reflexivity|lia].
  - rewrite (Zs e Hh He Ht). destruct (N.leb_spec c_d 0); cbn [fst]; [lia|reflexivity].
Qed.

(** * 2. One layer of [pick_next], remembering that the recursion on a timer or a scheduled action is
      only reached when the queue branch is not taken *)
Definition pn_alt (fuel' : nat) (st : sim) (nowt : Z) (r : option sev) (st' : sim)
           (sa it b : N) (bic : bool) (q : N) (which : qid) (qic : bool) : Prop :=
  (r = None /\ st' = st) \/
  (pick_next fuel' (mksim (m_sq st) (m_c st) (m_s st) (net_pop_agg (m_net st)) (m_pos st)) nowt = Ok (r, st')) \/
  (b <= q /\ r = Some (mksev TEBlockingEnd (nowt + Z.of_N b)%Z bic false false false) /\
   exists c' s' net', st' = mksim (m_sq st) c' s' net' (m_pos st) /\
     s_timers c' = s_timers (m_c st) /\ s_timers s' = s_timers (m_s st)) \/
  (exists tmp sq',
     sq_pop (m_sq st) which qic (if qic then n_cagg (m_net st) else n_sagg (m_net st)) = Some (tmp, sq') /\
     r = Some (if (se_time tmp <? nowt + Z.of_N q)%Z then set_time tmp (nowt + Z.of_N q)%Z else tmp) /\
     st' = mksim sq' (m_c st) (m_s st) (m_net st) (m_pos st)) \/
  (~ (q <= sa /\ q <= it) /\
   exists c' s' e, do_internal_timer (m_c st) (m_s st) (nowt + Z.of_N it)%Z = Ok (c', s', e) /\
     pick_next fuel' (mksim (sq_push (m_sq st) e) c' s' (m_net st) (m_pos st)) (nowt + Z.of_N it)%Z = Ok (r, st')) \/
  (~ (q <= sa /\ q <= it) /\
   exists c' s' e, do_scheduled_action (m_c st) (m_s st) (nowt + Z.of_N sa)%Z = Ok (c', s', e) /\
     pick_next fuel' (mksim (sq_push (m_sq st) e) c' s' (m_net st) (m_pos st)) (nowt + Z.of_N sa)%Z = Ok (r, st')).

Lemma pn_cases : forall fuel' st nowt r st',
  pick_next (S fuel') st nowt = Ok (r, st') ->
  exists b bic q which qic,
    let sa := peek_sched (s_sched (m_c st)) (s_sched (m_s st)) nowt in
    let it := peek_timers (s_timers (m_c st)) (s_timers (m_s st)) nowt in
    peek_queue (m_sq st) (m_c st) (m_s st) (n_cagg (m_net st)) (n_sagg (m_net st))
               (N.min (N.min (N.min sa it) b) (net_peek_agg (m_net st) nowt)) nowt = (q, which, qic) /\
    pn_alt fuel' st nowt r st' sa it b bic q which qic.
Proof.
  intros fuel' st nowt r st' H. cbn [pick_next] in H.
  set (sa := peek_sched (s_sched (m_c st)) (s_sched (m_s st)) nowt) in *.
  set (it := peek_timers (s_timers (m_c st)) (s_timers (m_s st)) nowt) in *.
  destruct (peek_blocked_exp (s_buntil (m_c st)) (s_buntil (m_s st)) nowt) as [b bic] eqn:Hb.
  set (n := net_peek_agg (m_net st) nowt) in *.
  destruct (peek_queue (m_sq st) (m_c st) (m_s st) (n_cagg (m_net st)) (n_sagg (m_net st))
              (N.min (N.min (N.min sa it) b) n) nowt) as [[q which] qic] eqn:Hq.
  exists b, bic, q, which, qic. cbv zeta. split; [exact Hq|]. unfold pn_alt.
  destruct ((sa =? DMAX) && (it =? DMAX) && (b =? DMAX) && (n =? DMAX) && (q =? DMAX)) eqn:E0.
  { injection H as <- <-. left. auto. }
  right.
  destruct ((n <=? sa) && (n <=? it) && (n <=? b) && (n <=? q)) eqn:E1.
  { left. exact H. }
  right.
  destruct ((b <=? sa) && (b <=? it) && (b <=? q)) eqn:E2.
  { left. split_andb.
    repeat match goal with Hx : (_ <=? _) = true |- _ => apply N.leb_le in Hx end.
    destruct bic; injection H as <- <-.
    - split; [assumption|]. split; [reflexivity|].
      eexists _, _, _. split; [reflexivity|]. cbn [side_set_block s_timers]. auto.
    - split; [assumption|]. split; [reflexivity|].
      eexists _, _, _. split; [reflexivity|]. cbn [side_set_block s_timers]. auto. }
  right.
  destruct ((q <=? sa) && (q <=? it)) eqn:E3.
  { left.
    destruct (sq_pop (m_sq st) which qic (if qic then n_cagg (m_net st) else n_sagg (m_net st)))
      as [[tmp sq']|] eqn:Ep; [|discriminate].
    injection H as <- <-. eauto. }
  right.
  assert (Hn : ~ (q <= sa /\ q <= it)).
  { intros [A B]. apply N.leb_le in A, B. rewrite A, B in E3. discriminate E3. }
  destruct (N.leb_spec it sa) as [E4|E4].
  - left. split; [exact Hn|].
    mbind H as p Ed. destruct p as [[c' s'] e]. eauto.
  - right. split; [exact Hn|].
    mbind H as p Ed. destruct p as [[c' s'] e]. eauto.
Qed.

(** * 3. The history predicates *)
Definition is_timer_for (m : N) (a : taction) : bool :=
  (taction_machine a =? m) &&
  match a with
  | TUpdateTimer _ _ _ => true
  | TCancel _ TInternal | TCancel _ TAll => true
  | _ => false
  end.

(** an UpdateTimer for [m] was returned on side [ic] at instant [t] *)
Definition begun (L : list hrec) (ic : bool) (m : N) (t : Z) : Prop :=
  exists j rj dur rp, nth_error L j = Some rj /\ se_client (h_ev rj) = ic /\
    In (TUpdateTimer m dur rp) (h_acts rj) /\ se_time (h_ev rj) = t.

(** record [r] does not disturb a timer of machine [m] that expires at [t]: its timer actions for [m]
    are issued at [t] or later, or are UpdateTimers that leave the timer alone *)
Definition unchanged (m : N) (t : Z) (r : hrec) : Prop :=
  forall a', In a' (h_acts r) -> is_timer_for m a' = true ->
    (t <= se_time (h_ev r))%Z \/
    exists d', a' = TUpdateTimer m d' false /\ (se_time (h_ev r) + Z.of_N d' <= t)%Z.

(** [t] is the expiry of an UpdateTimer for [m] on side [ic] that no later record disturbs *)
Definition ended (L : list hrec) (ic : bool) (m : N) (t : Z) : Prop :=
  exists j rj dur rp, nth_error L j = Some rj /\ se_client (h_ev rj) = ic /\
    In (TUpdateTimer m dur rp) (h_acts rj) /\ t = (se_time (h_ev rj) + Z.of_N dur)%Z /\
    forall j' rj', (j < j')%nat -> nth_error L j' = Some rj' -> se_client (h_ev rj') = ic -> unchanged m t rj'.

Lemma nth_app_l : forall (L L2 : list hrec) j r, nth_error L j = Some r -> nth_error (L ++ L2) j = Some r.
Proof.
  intros L L2 j r H. rewrite nth_error_app1; [exact H|]. apply nth_error_Some. congruence.
Qed.

Lemma nth_snoc : forall (L : list hrec) r j rj, nth_error (L ++ [r]) j = Some rj ->
  nth_error L j = Some rj \/ (j = length L /\ rj = r).
Proof.
  intros L r j rj H. destruct (Nat.lt_ge_cases j (length L)) as [Hlt|Hge].
  - left. rewrite nth_error_app1 in H; assumption.
  - right. rewrite nth_error_app2 in H by exact Hge.
    destruct (j - length L)%nat as [|d] eqn:Ed; cbn [nth_error] in H.
    + injection H as <-. split; [lia|reflexivity].
    + destruct d; discriminate H.
Qed.

Lemma begun_app : forall L L2 ic m t, begun L ic m t -> begun (L ++ L2) ic m t.
Proof.
  intros L L2 ic m t (j & rj & dur & rp & Hn & Hc & Hi & Ht).
  exists j, rj, dur, rp. split; [apply nth_app_l; exact Hn|auto].
Qed.

Lemma begun_new : forall L r m dur rp, In (TUpdateTimer m dur rp) (h_acts r) ->
  begun (L ++ [r]) (se_client (h_ev r)) m (se_time (h_ev r)).
Proof.
  intros L r m dur rp Hi. exists (length L), r, dur, rp.
  split; [|auto]. rewrite nth_error_app2 by lia. rewrite Nat.sub_diag. reflexivity.
Qed.

Lemma ended_app : forall L r ic m t, ended L ic m t ->
  (se_client (h_ev r) = ic -> unchanged m t r) -> ended (L ++ [r]) ic m t.
Proof.
  intros L r ic m t (j & rj & dur & rp & Hn & Hc & Hi & Ht & Hl) Hr.
  exists j, rj, dur, rp. split; [apply nth_app_l; exact Hn|].
  split; [exact Hc|]. split; [exact Hi|]. split; [exact Ht|].
  intros j' rj' Hlt Hn' Hc'. apply nth_snoc in Hn'. destruct Hn' as [Hn'|[_ ->]].
  - eapply Hl; eauto.
  - apply Hr. exact Hc'.
Qed.

Lemma ended_new : forall L r m dur rp, In (TUpdateTimer m dur rp) (h_acts r) ->
  ended (L ++ [r]) (se_client (h_ev r)) m (se_time (h_ev r) + Z.of_N dur)%Z.
Proof.
  intros L r m dur rp Hi. exists (length L), r, dur, rp.
  split; [rewrite nth_error_app2 by lia; rewrite Nat.sub_diag; reflexivity|].
  split; [reflexivity|]. split; [exact Hi|]. split; [reflexivity|].
  intros j' rj' Hlt Hn' _. exfalso.
  assert (Hb : (j' < length (L ++ [r]))%nat) by (apply nth_error_Some; congruence).
  rewrite app_length in Hb. cbn [length] in Hb. lia.
Qed.

(** ** what a list of returned actions does to one timer slot *)
Lemma machine_eqb : forall a mi,
  Nat.eqb (N.to_nat (taction_machine a)) mi = (taction_machine a =? N.of_nat mi).
Proof.
  intros a mi. destruct (Nat.eqb_spec (N.to_nat (taction_machine a)) mi) as [E|E];
    destruct (N.eqb_spec (taction_machine a) (N.of_nat mi)) as [F|F]; try reflexivity; exfalso.
  - apply F. rewrite <- E. symmetry. apply N2Nat.id.
  - apply E. rewrite F. apply Nat2N.id.
Qed.

Lemma timer_after_cases : forall acts nowt mi cur exp,
  timer_after acts nowt mi cur = Some exp ->
  (exists dur rp, In (TUpdateTimer (N.of_nat mi) dur rp) acts /\ exp = (nowt + Z.of_N dur)%Z) \/
  (cur = Some exp /\
   forall a, In a acts -> is_timer_for (N.of_nat mi) a = true ->
     exists d', a = TUpdateTimer (N.of_nat mi) d' false /\ (nowt + Z.of_N d' <= exp)%Z).
Proof.
  induction acts as [|a rest IH]; intros nowt mi cur exp H.
  - right. split; [exact H|]. intros a [].
  - unfold timer_after in H. cbn [fold_left] in H.
    destruct (IH nowt mi _ exp H) as [(dur & rp & Hi & He)|[Hc Hrest]].
    { left. exists dur, rp. split; [right; exact Hi|exact He]. }
    unfold timer_step in Hc. rewrite machine_eqb in Hc.
    destruct (N.eqb_spec (taction_machine a) (N.of_nat mi)) as [Em|Em].
    + destruct a as [m tm|m tmo by_ rp|m tmo dur by_ rp|m dur rp]; cbn [taction_machine] in Em; subst m.
      * destruct tm; try discriminate Hc.
        right. split; [exact Hc|]. intros a' [<-|Hin] Ha'; [|auto].
        unfold is_timer_for in Ha'. rewrite andb_false_r in Ha'. discriminate Ha'.
      * right. split; [exact Hc|]. intros a' [<-|Hin] Ha'; [|auto].
        unfold is_timer_for in Ha'. rewrite andb_false_r in Ha'. discriminate Ha'.
      * right. split; [exact Hc|]. intros a' [<-|Hin] Ha'; [|auto].
        unfold is_timer_for in Ha'. rewrite andb_false_r in Ha'. discriminate Ha'.
      * destruct (timer_sets nowt cur dur rp) eqn:Ets.
        -- left. injection Hc as <-. exists dur, rp. split; [left; reflexivity|reflexivity].
        -- right. split; [exact Hc|]. intros a' [<-|Hin] Ha'; [|auto].
           unfold timer_sets in Ets. destruct rp; [discriminate Ets|]. cbn [orb] in Ets.
           subst cur. apply Z.ltb_ge in Ets. exists dur. split; [reflexivity|exact Ets].
    + right. split; [exact Hc|]. intros a' [<-|Hin] Ha'; [|auto].
      unfold is_timer_for in Ha'. apply N.eqb_neq in Em. rewrite Em in Ha'. discriminate Ha'.
Qed.

Lemma timer_begins_in : forall acts nowt ic timers e, In e (timer_begins acts nowt ic timers) ->
  exists m dur rp, e = mksev (TETimerBegin m) nowt ic false false false /\ In (TUpdateTimer m dur rp) acts.
Proof.
  induction acts as [|a rest IH]; intros nowt ic timers e H; cbn [timer_begins] in H; [destruct H|].
  assert (Hr : forall tm, In e (timer_begins rest nowt ic tm) ->
               exists m dur rp, e = mksev (TETimerBegin m) nowt ic false false false /\
                                In (TUpdateTimer m dur rp) (a :: rest)).
  { intros tm Hin. destruct (IH _ _ _ _ Hin) as (m & dur & rp & He & Hi).
    exists m, dur, rp. split; [exact He|right; exact Hi]. }
  destruct a as [m tm|m tmo by_ rp|m tmo dur by_ rp|m dur rp].
  - destruct tm; eapply Hr; exact H.
  - eapply Hr; exact H.
  - eapply Hr; exact H.
  - destruct (timer_sets nowt _ dur rp).
    + destruct H as [<-|H]; [|eapply Hr; exact H].
      exists m, dur, rp. split; [reflexivity|left; reflexivity].
    + eapply Hr; exact H.
Qed.

(** * 4. The queue invariant: every queued TimerBegin/TimerEnd is due NOW and is justified by the history *)
Definition tev_ok (L : list hrec) (now : Z) (ic : bool) (e : sev) : Prop :=
  (forall m, se_ev e = TETimerBegin m -> se_time e = now /\ begun L ic m now) /\
  (forall m, se_ev e = TETimerEnd m -> se_time e = now /\ ended L ic m now).
Definition QI (L : list hrec) (now : Z) (sq : simq) : Prop :=
  forall ic e, In e (qint sq ic) -> tev_ok L now ic e.
Definition QOK (L : list hrec) (now : Z) (sq : simq) : Prop := SB.sq_inv sq /\ ih sq /\ QI L now sq.

Definition not_tev (e : sev) : Prop := forall m, se_ev e <> TETimerBegin m /\ se_ev e <> TETimerEnd m.

Lemma tev_ok_other : forall L now ic e, not_tev e -> tev_ok L now ic e.
Proof. intros L now ic e H. split; intros m Hm; destruct (H m); congruence. Qed.

Lemma tev_ok_app : forall L r now ic e, tev_ok L now ic e -> (now <= se_time (h_ev r))%Z ->
  tev_ok (L ++ [r]) now ic e.
Proof.
  intros L r now ic e [Hb He] Hr. split; intros m Hm.
  - destruct (Hb m Hm) as [Ht Hx]. split; [exact Ht|apply begun_app; exact Hx].
  - destruct (He m Hm) as [Ht Hx]. split; [exact Ht|]. apply ended_app; [exact Hx|].
    intros _ a' _ _. left. exact Hr.
Qed.

Lemma qint_evq : forall sq ic, qint sq ic = SB.evq_heap (sq_side sq ic) QInternal.
Proof. reflexivity. Qed.

Lemma qint_push_in : forall sq x ic e, In e (qint (sq_push sq x) ic) ->
  In e (qint sq ic) \/ (e = x /\ ic = se_client x).
Proof.
  intros sq x ic e H. rewrite qint_evq in *. unfold sq_push in H. rewrite SB.sq_side_set in H.
  destruct (Bool.eqb (se_client x) ic) eqn:E; [|left; exact H].
  apply Bool.eqb_prop in E. subst ic. apply SB.evq_push_in in H.
  destruct H as [H|[-> _]]; [left; exact H|right; auto].
Qed.

Lemma ih_push : forall sq x, ih sq -> ih (sq_push sq x).
Proof.
  intros sq x H ic. rewrite qint_evq. unfold sq_push. rewrite SB.sq_side_set.
  destruct (Bool.eqb (se_client x) ic) eqn:E; [|apply H].
  apply Bool.eqb_prop in E. subst ic. rewrite SB.evq_push_heap.
  destruct (qid_eqb QInternal (SB.route x)); [apply SI.hp_push|]; apply H.
Qed.

Lemma sq_pop_evq : forall sq w ic d x sq', sq_pop sq w ic d = Some (x, sq') ->
  exists q', evq_pop (sq_side sq ic) w d = Some (x, q') /\ sq' = sq_set_side sq ic q'.
Proof.
  intros sq w ic d x sq' H. unfold sq_pop in H.
  destruct (evq_pop (sq_side sq ic) w d) as [[x0 q']|]; [|discriminate].
  injection H as <- <-. eauto.
Qed.

Lemma qint_pop_in : forall sq w ic d x sq' ic' e, sq_pop sq w ic d = Some (x, sq') ->
  In e (qint sq' ic') -> In e (qint sq ic').
Proof.
  intros sq w ic d x sq' ic' e H Hin. destruct (sq_pop_evq _ _ _ _ _ _ H) as (q' & Hp & ->).
  rewrite qint_evq in *. rewrite SB.sq_side_set in Hin.
  destruct (Bool.eqb ic ic') eqn:E; [|exact Hin].
  apply Bool.eqb_prop in E. subst ic'. eapply SB.evq_pop_in; eauto.
Qed.

Lemma ih_pop : forall sq w ic d x sq', ih sq -> sq_pop sq w ic d = Some (x, sq') -> ih sq'.
Proof.
  intros sq w ic d x sq' Hh H ic'. destruct (sq_pop_evq _ _ _ _ _ _ H) as (q' & Hp & ->).
  rewrite qint_evq. rewrite SB.sq_side_set.
  destruct (Bool.eqb ic ic') eqn:E; [|apply Hh].
  apply Bool.eqb_prop in E. subst ic'.
  destruct (SB.evq_pop_spec _ _ _ _ _ Hp) as (x0 & h & Hpop & _ & _ & Hq & Hoth).
  destruct (SB.qid_eq_dec QInternal w) as [<-|Hne].
  - rewrite Hq. eapply SI.hp_pop; [|exact Hpop]. apply Hh.
  - rewrite (Hoth _ Hne). apply Hh.
Qed.

(** a popped event is of the side it was popped from; a timer event comes from the internal heap *)
Lemma pop_ev : forall sq w ic d x sq', SB.wf_simq sq -> sq_pop sq w ic d = Some (x, sq') ->
  se_client x = ic /\ (not_tev x \/ In x (qint sq ic)).
Proof.
  intros sq w ic d x sq' Hwf H.
  destruct (SB.sq_pop_ok _ _ _ _ _ _ Hwf H) as [Hc Hk]. split; [exact Hc|].
  destruct w.
  - left. destruct Hk as [Hk _]. intros m. rewrite Hk. split; discriminate.
  - left. destruct Hk as [Hk _]. intros m. rewrite Hk. split; discriminate.
  - right. destruct (sq_pop_evq _ _ _ _ _ _ H) as (q' & Hp & _).
    destruct (SB.evq_pop_spec _ _ _ _ _ Hp) as (x0 & h & Hpop & _ & Hx & _).
    rewrite <- Hx in Hpop by discriminate. apply heap_pop_peek in Hpop.
    rewrite qint_evq. apply SimTimers.heap_peek_in. exact Hpop.
  - left. intros m. rewrite Hk. split; discriminate.
Qed.

Lemma QOK_push : forall L now sq x, QOK L now sq -> se_ev x <> TEBlockingEnd ->
  tev_ok L now (se_client x) x -> QOK L now (sq_push sq x).
Proof.
  intros L now sq x (H1 & H2 & H3) Hx Ht. split; [apply SB.sq_push_inv; assumption|].
  split; [apply ih_push; exact H2|].
  intros ic e He. apply qint_push_in in He. destruct He as [He|[-> ->]]; [apply H3; exact He|exact Ht].
Qed.

Lemma QOK_pop : forall L now sq w ic d x sq', QOK L now sq -> sq_pop sq w ic d = Some (x, sq') ->
  QOK L now sq'.
Proof.
  intros L now sq w ic d x sq' (H1 & H2 & H3) H.
  split; [exact (proj1 (SB.sq_pop_inv _ _ _ _ _ _ H1 H))|].
  split; [eapply ih_pop; eauto|].
  intros ic' e He. apply H3. eapply qint_pop_in; eauto.
Qed.

Lemma QOK_pop_ev : forall L now sq w ic d x sq', QOK L now sq -> sq_pop sq w ic d = Some (x, sq') ->
  se_client x = ic /\ tev_ok L now ic x /\ se_ev x <> TEBlockingEnd.
Proof.
  intros L now sq w ic d x sq' (H1 & H2 & H3) H.
  destruct (pop_ev _ _ _ _ _ _ (proj1 H1) H) as [Hc [Hn|Hin]].
  - split; [exact Hc|]. split; [apply tev_ok_other; exact Hn|]. exact (proj2 (SB.sq_pop_inv _ _ _ _ _ _ H1 H)).
  - split; [exact Hc|]. split; [apply H3; exact Hin|]. exact (proj2 (SB.sq_pop_inv _ _ _ _ _ _ H1 H)).
Qed.

Lemma QOK_fold_push : forall L now l sq, QOK L now sq ->
  (forall x, In x l -> se_ev x <> TEBlockingEnd /\ tev_ok L now (se_client x) x) ->
  QOK L now (fold_left sq_push l sq).
Proof.
  induction l as [|x l IH]; intros sq H Hl; cbn [fold_left]; [exact H|].
  apply IH.
  - destruct (Hl x (or_introl eq_refl)) as [A B]. apply QOK_push; assumption.
  - intros y Hy. apply Hl. right. exact Hy.
Qed.

Lemma QOK_app : forall L r now sq, QOK L now sq -> (now <= se_time (h_ev r))%Z -> QOK (L ++ [r]) now sq.
Proof.
  intros L r now sq (H1 & H2 & H3) Hr. split; [exact H1|]. split; [exact H2|].
  intros ic e He. apply tev_ok_app; [apply H3; exact He|exact Hr].
Qed.

(** the time may be changed when no queued timer event is due at [now] *)
Lemma QOK_retime : forall L now T sq, QOK L now sq ->
  (forall ic e, In e (qint sq ic) -> se_time e = now -> T = now) -> QOK L T sq.
Proof.
  intros L now T sq (H1 & H2 & H3) HT. split; [exact H1|]. split; [exact H2|].
  intros ic e He. destruct (H3 ic e He) as [Hb Hen]. split; intros m Hm.
  - destruct (Hb m Hm) as [Ht Hx]. rewrite (HT ic e He Ht). auto.
  - destruct (Hen m Hm) as [Ht Hx]. rewrite (HT ic e He Ht). auto.
Qed.

(** ** the network stack only queues packet events *)
Lemma QOK_network_stack : forall L now next sq bb net nowt sq' net' act,
  QOK L now sq -> sim_network_stack next sq bb net nowt = Ok (sq', net', act) -> QOK L now sq'.
Proof.
  intros L now next sq bb net nowt sq' net' act HQ H. unfold sim_network_stack in H.
  assert (Hpush : forall sq0 x, QOK L now sq0 -> se_ev x = TETunnelSent \/ se_ev x = TETunnelRecv \/
                     se_ev x = TEPaddingRecv \/ se_ev x = TENormalRecv -> QOK L now (sq_push sq0 x)).
  { intros sq0 x H0 Hx. apply QOK_push; [exact H0| |apply tev_ok_other; intros m].
    - destruct Hx as [Hx|[Hx|[Hx|Hx]]]; rewrite Hx; discriminate.
    - destruct Hx as [Hx|[Hx|[Hx|Hx]]]; rewrite Hx; split; discriminate. }
  destruct (se_ev next) eqn:Eev; try (injection H as <- _ _; exact HQ).
  - destruct (se_pad next); injection H as <- _ _; apply Hpush; cbn [se_ev]; auto.
  - injection H as <- _ _. apply Hpush; cbn [se_ev]; auto.
  - assert (Hplain : forall pd by_ rp,
              QOK L now (sq_push sq (mksev TETunnelSent (se_time next) (se_client next) pd by_ rp))).
    { intros pd by_ rp. apply Hpush; cbn [se_ev]; auto. }
    destruct (se_replace next); [|injection H as <- _ _; apply Hplain].
    destruct (sq_peek_blocking sq bb (se_client next)) as [[queued|] which];
      [|injection H as <- _ _; apply Hplain].
    destruct (Bool.eqb (se_client queued) (se_client next) && is_tunnel_sent (se_ev queued)
              && negb (se_pad queued)); [|injection H as <- _ _; apply Hplain].
    destruct (negb (se_bypass next)); [injection H as <- _ _; exact HQ|].
    destruct (sq_pop_blocking sq which bb (se_client next)
                (if se_client next then n_cagg net else n_sagg net)) as [[entry sq1]|] eqn:Epop;
      [|discriminate].
    injection H as <- _ _.
    apply SB.sq_pop_blocking_inv in Epop. destruct Epop as (w & d & Epop).
    destruct (QOK_pop_ev _ _ _ _ _ _ _ _ HQ Epop) as (Hc & Ht & Hb).
    apply QOK_push; [eapply QOK_pop; eauto|cbn [se_ev]; exact Hb|].
    cbn [se_client]. rewrite Hc. exact Ht.
  - destruct (net_sample net nowt (se_client next)) as [[net1 nd] baseline].
    destruct (negb (se_pad next)); injection H as <- _ _; apply Hpush; cbn [se_ev]; auto.
Qed.

(** * 5. [pick_next] keeps the invariant, and a timer event it returns is justified by the history *)
(** the slot invariant: a running timer is the undisturbed expiry of an UpdateTimer of the history *)
Definition SL (L : list hrec) (st : sim) : Prop :=
  forall ic mi exp, nth_error (s_timers (side_of st ic)) mi = Some (Some exp) -> ended L ic (N.of_nat mi) exp.

Lemma DMAX_pos : 0 < DMAX.
Proof. reflexivity. Qed.

Lemma retime_ev : forall tmp t,
  let x := if (se_time tmp <? t)%Z then set_time tmp t else tmp in
  se_ev x = se_ev tmp /\ se_client x = se_client tmp /\ se_time x = Z.max (se_time tmp) t.
Proof.
  intros tmp t. cbv zeta. destruct (Z.ltb_spec (se_time tmp) t); cbn [set_time se_ev se_client se_time];
    split; try reflexivity; split; try reflexivity; lia.
Qed.

Lemma pick_next_tinv : forall L fuel st now next st',
  QOK L now (m_sq st) -> SL L st ->
  pick_next fuel st now = Ok (Some next, st') ->
  QOK L (se_time next) (m_sq st') /\ SL L st' /\ tev_ok L (se_time next) (se_client next) next.
Proof.
  intros L. induction fuel as [|fuel IH]; intros st now next st' HQ HS H; [discriminate H|].
  apply pn_cases in H. destruct H as (b & bic & q & which & qic & Hq & H). cbv zeta in Hq.
  (* a queued event due now pins the queue distance to zero *)
  assert (Hz : forall ic e, In e (qint (m_sq st) ic) -> se_time e = now -> q = 0).
  { intros ic e He Ht.
    pose proof (peek_queue_zero (m_sq st) (m_c st) (m_s st) (n_cagg (m_net st)) (n_sagg (m_net st))
                  (N.min (N.min (N.min (peek_sched (s_sched (m_c st)) (s_sched (m_s st)) now)
                                       (peek_timers (s_timers (m_c st)) (s_timers (m_s st)) now)) b)
                         (net_peek_agg (m_net st) now)) now ic e (proj1 (proj2 HQ)) He ltac:(lia)) as Z0.
    rewrite Hq in Z0. exact Z0. }
  unfold pn_alt in H.
  destruct H as [(Hr & _)|[H|[H|[H|[H|H]]]]].
  - discriminate Hr.
  - (* aggregate delay popped: same queue, same slots, same time *)
    eapply IH; [| |exact H]; [exact HQ|exact HS].
  - (* blocking expiry *)
    destruct H as (Hbq & Hr & c' & s' & net' & -> & Tc & Ts). injection Hr as ->.
    cbn [se_time se_client m_sq]. split; [|split].
    + apply (QOK_retime L now); [exact HQ|]. intros ic e He Ht. specialize (Hz ic e He Ht). lia.
    + intros ic mi exp Hn. apply HS. destruct ic; cbn [side_of m_c m_s] in *; congruence.
    + apply tev_ok_other. intros m. cbn [se_ev]. split; discriminate.
  - (* the head of the queue *)
    destruct H as (tmp & sq' & Hp & Hr & ->). injection Hr as ->. cbn [m_sq].
    destruct (retime_ev tmp (now + Z.of_N q)%Z) as (Rev & Rcl & Rt). cbv zeta in Rev, Rcl, Rt.
    set (next := if (se_time tmp <? now + Z.of_N q)%Z then set_time tmp (now + Z.of_N q)%Z else tmp) in *.
    assert (Hnow : forall ic e, In e (qint (m_sq st) ic) -> se_time e = now -> se_time next = now).
    { intros ic e He Ht. specialize (Hz ic e He Ht). subst q.
      pose proof (peek_pop_consistent _ _ _ _ _ _ _ _ _ _ _ _
                    (SimTrace.sq_inv_wf _ (proj1 HQ)) Hq DMAX_pos Hp) as Hle.
      rewrite Rt. lia. }
    destruct (pop_ev _ _ _ _ _ _ (proj1 (proj1 HQ)) Hp) as [Hc Hk].
    split; [|split].
    + apply (QOK_retime L now); [eapply QOK_pop; eauto|].
      intros ic e He Ht. eapply Hnow; [|exact Ht]. eapply qint_pop_in; eauto.
    + intros ic mi exp Hn. apply HS. destruct ic; exact Hn.
    + rewrite Rcl, Hc. destruct Hk as [Hk|Hin].
      * apply tev_ok_other. intros m. rewrite Rev. apply Hk.
      * destruct (proj2 (proj2 HQ) qic tmp Hin) as [Hb He]. split; intros m Hm; rewrite Rev in Hm.
        -- destruct (Hb m Hm) as [Ht Hx]. rewrite (Hnow qic tmp Hin Ht). split; [reflexivity|exact Hx].
        -- destruct (He m Hm) as [Ht Hx]. rewrite (Hnow qic tmp Hin Ht). split; [reflexivity|exact Hx].
  - (* an internal timer fires: pick again as of its expiry *)
    destruct H as (Hn & c' & s' & e & Hd & H).
    apply do_internal_timer_spec in Hd. destruct Hd as (ic & mi & Hd). cbv zeta in Hd.
    eapply IH; [| |exact H]; cbn [m_sq].
    + apply QOK_push.
      * apply (QOK_retime L now); [exact HQ|]. intros ic0 e0 He0 Ht0. exfalso. apply Hn.
        rewrite (Hz ic0 e0 He0 Ht0). split; apply N.le_0_l.
      * destruct Hd as (_ & _ & _ & _ & _ & _ & _ & ->). cbn [se_ev]. discriminate.
      * destruct Hd as (Hnth & _ & _ & _ & _ & _ & _ & ->). cbn [se_client]. split; intros m Hm; cbn [se_ev] in Hm.
        -- discriminate Hm.
        -- injection Hm as <-. cbn [se_time]. split; [reflexivity|]. apply HS.
           destruct ic; exact Hnth.
    + intros ic' mi' exp Hn'. apply HS.
      destruct ic; destruct Hd as (_ & Htm & Hoth & _); destruct ic'; cbn [side_of m_c m_s] in *;
        try (subst; exact Hn'); rewrite Htm in Hn'; eapply st_nth_upd_none; exact Hn'.
  - (* a scheduled action is due *)
    destruct H as (Hn & c' & s' & e & Hd & H).
    pose proof (SB.do_scheduled_action_ev _ _ _ _ _ _ Hd) as Hev.
    apply do_scheduled_action_spec in Hd. destruct Hd as (ic & mi & a & Hd). cbv zeta in Hd.
    eapply IH; [| |exact H]; cbn [m_sq].
    + apply QOK_push.
      * apply (QOK_retime L now); [exact HQ|]. intros ic0 e0 He0 Ht0. exfalso. apply Hn.
        rewrite (Hz ic0 e0 He0 Ht0). split; apply N.le_0_l.
      * destruct Hev as [[m ->]|[m ->]]; discriminate.
      * apply tev_ok_other. intros m0. destruct Hev as [[m ->]|[m ->]]; split; discriminate.
    + intros ic' mi' exp Hn'. apply HS.
      destruct ic; destruct Hd as (_ & _ & Hoth & Htm & _); destruct ic'; cbn [side_of m_c m_s] in *;
        try (subst; exact Hn'); rewrite Htm in Hn'; exact Hn'.
Qed.

(** * 6. One iteration of the main loop *)
Lemma trigger_update_acts : forall cf tp sd pos next nowt sq ic sd' sq' pos',
  trigger_update cf tp sd pos next nowt sq ic = Ok (sd', sq', pos') ->
  exists fw' acts, trigger_events cf tp (set_pos (s_fw sd) pos) [se_ev next] nowt = Ok (fw', acts) /\
    apply_actions acts (side_set_fw sd fw') sq nowt ic = Ok (sd', sq').
Proof.
  intros cf tp sd pos next nowt sq ic sd' sq' pos' H. unfold trigger_update in H.
  mbind H as p E. destruct p as [fw' acts]. mbind H as p2 E2. destruct p2 as [sd1 sq1].
  injection H as <- <- _. eauto.
Qed.

(** the record appended for [next], and the state after its side's [trigger_update] *)
Lemma step_inv : forall L cc sc tp st1 next sq2 sd' sq3 pos3,
  QOK L (se_time next) sq2 -> SL L st1 ->
  trigger_update (if se_client next then cc else sc) tp (side_of st1 (se_client next)) (m_pos st1)
                 next (se_time next) sq2 (se_client next) = Ok (sd', sq3, pos3) ->
  let r := mkhrec next (acts_for cc sc tp st1 next) in
  QOK (L ++ [r]) (se_time next) sq3 /\
  (forall mi exp, nth_error (s_timers sd') mi = Some (Some exp) ->
                  ended (L ++ [r]) (se_client next) (N.of_nat mi) exp) /\
  (forall mi exp, nth_error (s_timers (side_of st1 (negb (se_client next)))) mi = Some (Some exp) ->
                  ended (L ++ [r]) (negb (se_client next)) (N.of_nat mi) exp).
Proof.
  intros L cc sc tp st1 next sq2 sd' sq3 pos3 HQ HS H r.
  apply trigger_update_acts in H. destruct H as (fw' & acts & Et & Ea).
  assert (Hacts : h_acts r = acts).
  { subst r. cbn [h_acts]. unfold acts_for. unfold side_of in Et.
    destruct (se_client next); rewrite Et; reflexivity. }
  assert (Hev : h_ev r = next) by reflexivity.
  apply apply_actions_spec in Ea.
  destruct Ea as (_ & Hlen & _ & Htm & -> & _). cbn [side_set_fw s_timers] in Hlen, Htm.
  split; [|split].
  - apply QOK_fold_push.
    + apply QOK_app; [exact HQ|]. rewrite Hev. lia.
    + intros x Hx. apply timer_begins_in in Hx. destruct Hx as (m & dur & rp & -> & Hin).
      cbn [se_ev se_client]. split; [discriminate|]. split; intros m0 Hm0; cbn [se_ev] in Hm0.
      * injection Hm0 as <-. cbn [se_time]. split; [reflexivity|].
        rewrite <- Hacts in Hin. exact (begun_new L r m dur rp Hin).
      * discriminate Hm0.
  - intros mi exp Hn.
    assert (Hcur : exists cur, nth_error (s_timers (side_of st1 (se_client next))) mi = Some cur).
    { destruct (nth_error (s_timers (side_of st1 (se_client next))) mi) as [cur|] eqn:E; [eauto|].
      apply nth_error_None in E. assert (nth_error (s_timers sd') mi <> None) by congruence.
      apply nth_error_Some in H. lia. }
    destruct Hcur as (cur & Hcur). rewrite (Htm mi cur Hcur) in Hn. injection Hn as Hn.
    apply timer_after_cases in Hn. destruct Hn as [(dur & rp & Hin & ->)|[-> Hun]].
    + rewrite <- Hacts in Hin. exact (ended_new L r _ dur rp Hin).
    + apply ended_app; [apply HS; exact Hcur|]. intros _ a' Ha' Hf. right.
      rewrite Hacts in Ha'. rewrite Hev. apply Hun; assumption.
  - intros mi exp Hn. apply ended_app; [apply HS; exact Hn|].
    rewrite Hev. intros Hc. destruct (se_client next); discriminate Hc.
Qed.

(** * 7. The statements, per record, and the loop *)
Definition rec_ok (L : list hrec) (k : nat) (rk : hrec) : Prop :=
  (forall m, se_ev (h_ev rk) = TETimerBegin m ->
     exists j rj dur rp, (j < k)%nat /\ nth_error L j = Some rj /\
       se_client (h_ev rj) = se_client (h_ev rk) /\
       In (TUpdateTimer m dur rp) (h_acts rj) /\
       se_time (h_ev rj) = se_time (h_ev rk)) /\
  (forall m, se_ev (h_ev rk) = TETimerEnd m ->
     exists j rj dur rp, (j < k)%nat /\ nth_error L j = Some rj /\
       se_client (h_ev rj) = se_client (h_ev rk) /\
       In (TUpdateTimer m dur rp) (h_acts rj) /\
       se_time (h_ev rk) = (se_time (h_ev rj) + Z.of_N dur)%Z /\
       (forall j' rj' a', (j < j' < k)%nat -> nth_error L j' = Some rj' ->
          se_client (h_ev rj') = se_client (h_ev rk) -> In a' (h_acts rj') -> is_timer_for m a' = true ->
          (se_time (h_ev rk) <= se_time (h_ev rj'))%Z \/
          (exists d', a' = TUpdateTimer m d' false /\
                      (se_time (h_ev rj') + Z.of_N d' <= se_time (h_ev rk))%Z))).

Definition Good (L : list hrec) : Prop := forall k rk, nth_error L k = Some rk -> rec_ok L k rk.

Lemma rec_ok_app : forall L L2 k rk, (k <= length L)%nat -> rec_ok L k rk -> rec_ok (L ++ L2) k rk.
Proof.
  intros L L2 k rk Hk [Hb He]. split; intros m Hm.
  - destruct (Hb m Hm) as (j & rj & dur & rp & Hj & Hn & Hrest).
    exists j, rj, dur, rp. split; [exact Hj|]. split; [apply nth_app_l; exact Hn|exact Hrest].
  - destruct (He m Hm) as (j & rj & dur & rp & Hj & Hn & Hc & Hi & Ht & Hl).
    exists j, rj, dur, rp. split; [exact Hj|]. split; [apply nth_app_l; exact Hn|].
    split; [exact Hc|]. split; [exact Hi|]. split; [exact Ht|].
    intros j' rj' a' Hj' Hn'. rewrite nth_error_app1 in Hn' by lia. eapply Hl; eauto.
Qed.

Lemma rec_ok_of_tev : forall L next acts,
  tev_ok L (se_time next) (se_client next) next -> rec_ok L (length L) (mkhrec next acts).
Proof.
  intros L next acts [Hb He]. split; intros m Hm; cbn [h_ev] in *.
  - destruct (Hb m Hm) as (_ & j & rj & dur & rp & Hn & Hc & Hi & Ht).
    exists j, rj, dur, rp. split; [apply nth_error_Some; congruence|]. auto.
  - destruct (He m Hm) as (_ & j & rj & dur & rp & Hn & Hc & Hi & Ht & Hl).
    exists j, rj, dur, rp. split; [apply nth_error_Some; congruence|].
    split; [exact Hn|]. split; [exact Hc|]. split; [exact Hi|]. split; [exact Ht|].
    intros j' rj' a' Hj' Hn' Hc' Ha' Hf. exact (Hl j' rj' (proj1 Hj') Hn' Hc' a' Ha' Hf).
Qed.

Lemma Good_snoc : forall L r, Good L -> rec_ok L (length L) r -> Good (L ++ [r]).
Proof.
  intros L r HG Hr k rk Hn. apply nth_snoc in Hn. destruct Hn as [Hn|[-> ->]].
  - apply rec_ok_app; [|apply HG; exact Hn].
    assert (k < length L)%nat by (apply nth_error_Some; congruence). lia.
  - apply rec_ok_app; [lia|exact Hr].
Qed.

Lemma loop_good : forall cc sc tp args fuel st now hist iters H,
  QOK (rev hist) now (m_sq st) -> SL (rev hist) st -> Good (rev hist) ->
  sim_loop_h fuel cc sc tp args st now hist iters = Ok H -> Good H.
Proof.
  intros cc sc tp args. induction fuel as [|fuel IH]; intros st now hist iters H HQ HS HG Hrun;
    [discriminate Hrun|].
  cbn [sim_loop_h] in Hrun.
  destruct (pick_next (pn_fuel st) st now) as [[nx st1]|k|] eqn:Ep; cbn [bind] in Hrun; try discriminate.
  destruct nx as [next|]; [|injection Hrun as <-; exact HG].
  destruct (se_time next <? now)%Z; [discriminate|].
  destruct (pick_next_tinv _ _ _ _ _ _ HQ HS Ep) as (HQ1 & HS1 & Hnext).
  destruct (sim_network_stack next (m_sq st1) _ (m_net st1) (se_time next)) as [[[sq2 net2] act]|k|] eqn:En;
    cbn [bind] in Hrun; try discriminate.
  pose proof (QOK_network_stack _ _ _ _ _ _ _ _ _ _ HQ1 En) as HQ2.
  set (r := mkhrec next (acts_for cc sc tp st1 next)) in *.
  assert (Hstep : exists c3 s3 sq3 pos3,
            QOK (rev (r :: hist)) (se_time next) sq3 /\ SL (rev (r :: hist)) (mksim sq3 c3 s3 net2 pos3) /\
            (let st3 := mksim sq3 c3 s3 net2 pos3 in
             let hist' := r :: hist in
             (if (0 <? a_max_trace args) && (a_max_trace args <=? N.of_nat (length hist')) then Ok (rev hist')
              else
                let iters' := iters + 1 in
                if (0 <? a_max_iter args) && (a_max_iter args <=? iters') then Ok (rev hist')
                else if negb (a_continue args) && sq_no_normal sq3 then Ok (rev hist')
                else sim_loop_h fuel cc sc tp args st3 (se_time next) hist' iters') = Ok H)).
  { cbn [rev].
    destruct (se_client next) eqn:Ec.
    - destruct (trigger_update cc tp (m_c st1) (m_pos st1) next (se_time next) sq2 true)
        as [[[c' sq'] p']|k|] eqn:Et; cbn [bind] in Hrun; try discriminate.
      pose proof (step_inv (rev hist) cc sc tp st1 next sq2 c' sq' p' HQ2 HS1) as Hs.
      rewrite Ec in Hs. cbn [side_of negb] in Hs. specialize (Hs Et). cbv zeta in Hs.
      destruct Hs as (A & B & C).
      exists c', (m_s st1), sq', p'. split; [exact A|]. split; [|exact Hrun].
      intros [|] mi exp Hn; cbn [side_of m_c m_s] in Hn; [apply B|apply C]; exact Hn.
    - destruct (trigger_update sc tp (m_s st1) (m_pos st1) next (se_time next) sq2 false)
        as [[[s' sq'] p']|k|] eqn:Et; cbn [bind] in Hrun; try discriminate.
      pose proof (step_inv (rev hist) cc sc tp st1 next sq2 s' sq' p' HQ2 HS1) as Hs.
      rewrite Ec in Hs. cbn [side_of negb] in Hs. specialize (Hs Et). cbv zeta in Hs.
      destruct Hs as (A & B & C).
      exists (m_c st1), s', sq', p'. split; [exact A|]. split; [|exact Hrun].
      intros [|] mi exp Hn; cbn [side_of m_c m_s] in Hn; [apply C|apply B]; exact Hn. }
  clear Hrun. destruct Hstep as (c3 & s3 & sq3 & pos3 & HQ3 & HS3 & Hrun). cbv zeta in Hrun.
  assert (HG3 : Good (rev (r :: hist))).
  { cbn [rev]. apply Good_snoc; [exact HG|]. subst r. apply rec_ok_of_tev. exact Hnext. }
  destruct (_ && _) in Hrun; [injection Hrun as <-; exact HG3|].
  destruct (_ && _) in Hrun; [injection Hrun as <-; exact HG3|].
  destruct (_ && _) in Hrun; [injection Hrun as <-; exact HG3|].
  eapply IH; [| | |exact Hrun]; [exact HQ3|exact HS3|exact HG3].
Qed.

(** * 8. The initial state *)
(** The requested statements assume only [SB.sq_inv sq] of the initial queue. That is not enough: the
    routing invariant allows a TimerEnd (or TimerBegin) event to sit in an internal heap of the INITIAL
    queue; it is then reported although no UpdateTimer was ever returned (counterexample below). The
    queues built by [parse_trace] hold NormalSent events only, so we add the hypothesis [start_ok]:
    the internal heaps of the initial queue are heaps and hold no TimerBegin/TimerEnd. *)
Definition start_ok (sq : simq) : Prop := ih sq /\ forall ic e, In e (qint sq ic) -> not_tev e.

Definition internal_empty (sq : simq) : Prop := q_internal (sq_c sq) = [] /\ q_internal (sq_s sq) = [].

Lemma internal_empty_start : forall sq, internal_empty sq -> start_ok sq.
Proof.
  intros sq [Hc Hs]. split.
  - intros [|]; unfold qint, sq_side; [rewrite Hc|rewrite Hs]; apply SI.hp_nil.
  - intros [|] e; unfold qint, sq_side; [rewrite Hc|rewrite Hs]; intros [].
Qed.

Lemma parse_lines_internal : forall tr delay q sw rw smax rmax,
  q_internal (sq_c (fst (parse_lines tr delay q sw rw smax rmax))) = q_internal (sq_c q) /\
  q_internal (sq_s (fst (parse_lines tr delay q sw rw smax rmax))) = q_internal (sq_s q).
Proof.
  induction tr as [|[t [|]] rest IH]; intros delay q sw rw smax rmax; cbn [parse_lines].
  - split; reflexivity.
  - destruct (window_add_w PARSE_WINDOW sw t) as [sw' m].
    destruct (IH delay (sq_push q (mksev TENormalSent t true false false false)) sw' rw (N.max smax m) rmax)
      as [A B]. rewrite A, B. split; reflexivity.
  - destruct (window_add_w PARSE_WINDOW rw t) as [rw' m].
    destruct (IH delay (sq_push q (mksev TENormalSent (t - Z.of_N delay) false false false false))
                 sw rw' smax (N.max rmax m)) as [A B]. rewrite A, B. split; reflexivity.
Qed.

Theorem parse_trace_internal_empty : forall tr delay, internal_empty (parse_trace tr delay).
Proof.
  intros tr delay. unfold parse_trace, internal_empty.
  pose proof (parse_lines_internal tr delay (mksimq evq_empty evq_empty None) [] [] 0 0) as H.
  destruct (parse_lines tr delay (mksimq evq_empty evq_empty None) [] [] 0 0) as [q pps].
  cbn [fst sq_c sq_s] in *. exact H.
Qed.

Theorem parse_trace_start : forall tr delay, start_ok (parse_trace tr delay).
Proof. intros. apply internal_empty_start. apply parse_trace_internal_empty. Qed.

Lemma init_inv : forall cc sc tp sq delay pps st0 t0,
  sim_init cc sc tp sq delay pps st0 t0 -> SB.sq_inv sq -> start_ok sq ->
  QOK [] t0 (m_sq st0) /\ SL [] st0.
Proof.
  intros cc sc tp sq delay pps st0 t0 (cfw & sfw & net & _ & _ & _ & _ & ->) Hinv [Hh Hn].
  cbn [m_sq]. split.
  - split; [exact Hinv|]. split; [exact Hh|].
    intros ic e He. apply tev_ok_other. apply (Hn ic e He).
  - intros ic mi exp H. exfalso. apply nth_error_In in H.
    destruct ic; cbn [side_of m_c m_s new_side s_timers] in H; apply in_map_iff in H;
      destruct H as (x & Hx & _); discriminate Hx.
Qed.

(** all records of a run satisfy the per-record statement *)
Theorem run_good : forall fuel cc sc tp args st0 t0 H sq delay pps,
  sim_init cc sc tp sq delay pps st0 t0 -> SB.sq_inv sq -> start_ok sq ->
  sim_loop_h fuel cc sc tp args st0 t0 [] 0 = Ok H -> Good H.
Proof.
  intros fuel cc sc tp args st0 t0 H sq delay pps Hi Hinv Hs Hrun.
  destruct (init_inv _ _ _ _ _ _ _ _ Hi Hinv Hs) as [HQ HS].
  eapply loop_good; [| | |exact Hrun]; cbn [rev]; [exact HQ|exact HS|].
  intros k rk Hn. destruct k; discriminate Hn.
Qed.

(** * 9. C18 for whole runs *)
(** Each TimerBegin the simulator reports follows an UpdateTimer action returned for that machine on
    that side at that same instant. (As requested, with the extra hypothesis [start_ok sq].) *)
Theorem timer_begin_sound_partial : forall fuel cc sc tp args st0 t0 H sq delay pps,
  sim_init cc sc tp sq delay pps st0 t0 -> SB.sq_inv sq -> start_ok sq ->
  sim_loop_h fuel cc sc tp args st0 t0 [] 0 = Ok H ->
  forall k rk m, nth_error H k = Some rk -> se_ev (h_ev rk) = TETimerBegin m ->
    exists j rj dur rp, (j < k)%nat /\ nth_error H j = Some rj /\
      se_client (h_ev rj) = se_client (h_ev rk) /\
      In (TUpdateTimer m dur rp) (h_acts rj) /\
      se_time (h_ev rj) = se_time (h_ev rk).
Proof.
  intros fuel cc sc tp args st0 t0 H sq delay pps Hi Hinv Hs Hrun k rk m Hn Hm.
  exact (proj1 (run_good _ _ _ _ _ _ _ _ _ _ _ Hi Hinv Hs Hrun k rk Hn) m Hm).
Qed.

(** Each TimerEnd is reported exactly at the expiry [issue time + duration] of an earlier UpdateTimer
    for that machine on that side that set the timer and was neither cancelled nor superseded before
    that expiry: every timer action for the machine returned on that side in between was issued no
    earlier than the expiry, or is a non-replacing UpdateTimer whose own expiry is not later (which
    leaves the running timer alone). (As requested, with the extra hypothesis [start_ok sq].) *)
Theorem timer_end_sound_partial : forall fuel cc sc tp args st0 t0 H sq delay pps,
  sim_init cc sc tp sq delay pps st0 t0 -> SB.sq_inv sq -> start_ok sq ->
  sim_loop_h fuel cc sc tp args st0 t0 [] 0 = Ok H ->
  forall k rk m, nth_error H k = Some rk -> se_ev (h_ev rk) = TETimerEnd m ->
    exists j rj dur rp, (j < k)%nat /\ nth_error H j = Some rj /\
      se_client (h_ev rj) = se_client (h_ev rk) /\
      In (TUpdateTimer m dur rp) (h_acts rj) /\
      se_time (h_ev rk) = (se_time (h_ev rj) + Z.of_N dur)%Z /\
      (forall j' rj' a', (j < j' < k)%nat -> nth_error H j' = Some rj' ->
         se_client (h_ev rj') = se_client (h_ev rk) -> In a' (h_acts rj') -> is_timer_for m a' = true ->
         (se_time (h_ev rk) <= se_time (h_ev rj'))%Z \/
         (exists d', a' = TUpdateTimer m d' false /\
                     (se_time (h_ev rj') + Z.of_N d' <= se_time (h_ev rk))%Z)).
Proof.
  intros fuel cc sc tp args st0 t0 H sq delay pps Hi Hinv Hs Hrun k rk m Hn Hm.
  exact (proj2 (run_good _ _ _ _ _ _ _ _ _ _ _ Hi Hinv Hs Hrun k rk Hn) m Hm).
Qed.

(** for a parsed trace the extra hypothesis holds ([SB.parse_trace_inv] gives [sq_inv]) *)
Corollary timer_begin_sound_parsed : forall fuel cc sc tp args st0 t0 H tr d delay pps,
  sim_init cc sc tp (parse_trace tr d) delay pps st0 t0 ->
  sim_loop_h fuel cc sc tp args st0 t0 [] 0 = Ok H ->
  forall k rk m, nth_error H k = Some rk -> se_ev (h_ev rk) = TETimerBegin m ->
    exists j rj dur rp, (j < k)%nat /\ nth_error H j = Some rj /\
      se_client (h_ev rj) = se_client (h_ev rk) /\
      In (TUpdateTimer m dur rp) (h_acts rj) /\
      se_time (h_ev rj) = se_time (h_ev rk).
Proof.
  intros fuel cc sc tp args st0 t0 H tr d delay pps Hi.
  eapply timer_begin_sound_partial; [exact Hi|apply SB.parse_trace_inv|apply parse_trace_start].
Qed.

Corollary timer_end_sound_parsed : forall fuel cc sc tp args st0 t0 H tr d delay pps,
  sim_init cc sc tp (parse_trace tr d) delay pps st0 t0 ->
  sim_loop_h fuel cc sc tp args st0 t0 [] 0 = Ok H ->
  forall k rk m, nth_error H k = Some rk -> se_ev (h_ev rk) = TETimerEnd m ->
    exists j rj dur rp, (j < k)%nat /\ nth_error H j = Some rj /\
      se_client (h_ev rj) = se_client (h_ev rk) /\
      In (TUpdateTimer m dur rp) (h_acts rj) /\
      se_time (h_ev rk) = (se_time (h_ev rj) + Z.of_N dur)%Z /\
      (forall j' rj' a', (j < j' < k)%nat -> nth_error H j' = Some rj' ->
         se_client (h_ev rj') = se_client (h_ev rk) -> In a' (h_acts rj') -> is_timer_for m a' = true ->
         (se_time (h_ev rk) <= se_time (h_ev rj'))%Z \/
         (exists d', a' = TUpdateTimer m d' false /\
                     (se_time (h_ev rj') + Z.of_N d' <= se_time (h_ev rk))%Z)).
Proof.
  intros fuel cc sc tp args st0 t0 H tr d delay pps Hi.
  eapply timer_end_sound_partial; [exact Hi|apply SB.parse_trace_inv|apply parse_trace_start].
Qed.

(** * 10. COUNTEREXAMPLE to the statements with [SB.sq_inv sq] as the only hypothesis on the queue:
      a TimerEnd queued initially (allowed by [sq_inv]) is reported by a run in which no action at all
      was returned (no machines). *)
Definition cx_cfg : cfg := mkcfg [] 0 0 stdclock.
Definition cx_tp : tape := fun _ => 0.
Definition cx_sq : simq :=
  mksimq (mkevq [mksev TENormalSent 0 true false false false] [] []
                [mksev (TETimerEnd 0) 0 true false false false]) evq_empty None.
Definition cx_args : simargs := mksimargs 0 0 true false false.

Lemma cx_sq_inv : SB.sq_inv cx_sq.
Proof.
  split.
  - unfold SB.wf_simq, SB.wf_evq, cx_sq, evq_empty. cbn [sq_c sq_s q_base q_blocking q_bypass q_internal].
    split; (split; [|split; [|split]]); intros e Hin; try (destruct Hin; fail).
    + destruct Hin as [<-|[]]. cbn [se_client se_ev]. auto.
    + destruct Hin as [<-|[]]. cbn [se_client se_ev]. split; [reflexivity|]. split; discriminate.
  - intros [|] [] e Hin; cbn in Hin; try (destruct Hin; fail); destruct Hin as [<-|[]]; discriminate.
Qed.

Lemma timer_end_sound_counterexample :
  exists st0 t0 H, sim_init cx_cfg cx_cfg cx_tp cx_sq 0 None st0 t0 /\ SB.sq_inv cx_sq /\
    sim_loop_h 10 cx_cfg cx_cfg cx_tp cx_args st0 t0 [] 0 = Ok H /\
    (exists k rk, nth_error H k = Some rk /\ se_ev (h_ev rk) = TETimerEnd 0) /\
    Forall (fun r => h_acts r = []) H.
Proof.
  eexists _, _, _. split; [|split; [exact cx_sq_inv|split; [|split]]].
  - eexists _, _, _. split; [vm_compute; reflexivity|]. split; [vm_compute; reflexivity|].
    split; [vm_compute; reflexivity|]. split; [vm_compute; reflexivity|]. reflexivity.
  - vm_compute. reflexivity.
  - exists 4%nat. eexists. split; [reflexivity|reflexivity].
  - repeat constructor.
Qed.

(** the same with a TimerBegin queued initially *)
Definition cx_sq_b : simq :=
  mksimq (mkevq [mksev TENormalSent 0 true false false false] [] []
                [mksev (TETimerBegin 0) 0 true false false false]) evq_empty None.

Lemma cx_sq_b_inv : SB.sq_inv cx_sq_b.
Proof.
  split.
  - unfold SB.wf_simq, SB.wf_evq, cx_sq_b, evq_empty. cbn [sq_c sq_s q_base q_blocking q_bypass q_internal].
    split; (split; [|split; [|split]]); intros e Hin; try (destruct Hin; fail).
    + destruct Hin as [<-|[]]. cbn [se_client se_ev]. auto.
    + destruct Hin as [<-|[]]. cbn [se_client se_ev]. split; [reflexivity|]. split; discriminate.
  - intros [|] [] e Hin; cbn in Hin; try (destruct Hin; fail); destruct Hin as [<-|[]]; discriminate.
Qed.

Lemma timer_begin_sound_counterexample :
  exists st0 t0 H, sim_init cx_cfg cx_cfg cx_tp cx_sq_b 0 None st0 t0 /\ SB.sq_inv cx_sq_b /\
    sim_loop_h 10 cx_cfg cx_cfg cx_tp cx_args st0 t0 [] 0 = Ok H /\
    (exists k rk, nth_error H k = Some rk /\ se_ev (h_ev rk) = TETimerBegin 0) /\
    Forall (fun r => h_acts r = []) H.
Proof.
  eexists _, _, _. split; [|split; [exact cx_sq_b_inv|split; [|split]]].
  - eexists _, _, _. split; [vm_compute; reflexivity|]. split; [vm_compute; reflexivity|].
    split; [vm_compute; reflexivity|]. split; [vm_compute; reflexivity|]. reflexivity.
  - vm_compute. reflexivity.
  - exists 4%nat. eexists. split; [reflexivity|reflexivity].
  - repeat constructor.
Qed.
