(** The simulator as it really runs (both embedded frameworks over the std
    clock, whose Duration addition can overflow): the ONLY panic
    [sim_advanced] can raise is [Panic P_DURATION]; none of the simulator's
    "BUG:" assertions, unwraps or index accesses ([P_BUG], [P_UNWRAP],
    [P_INDEX]) can fire.  [OutOfFuel] is allowed, as in SimTotal.v.

    Method (see FrameworkTotalStd.v): the run over the configurations
    [cc], [sc] REFINES the run over the totalised configurations
    [tot_cfg cc], [tot_cfg sc] (equal outcomes, or [Panic P_DURATION] on the
    left).  The refinement goes through [trigger_update], [sim_loop] and
    [sim_advanced] structurally (everything that does not call the framework
    is literally the same term); [sim_advanced_no_panic], [trigger_update_good]
    and [sim_loop_good] of SimTotal.v are applied to the totalised
    configurations. *)
From Coq Require Import List Arith Lia ZArith.
From MB Require Import Base.Prelude Model.Framework Model.Sim Proofs.Tactics.
From MB Require Import Proofs.ListFacts Proofs.FrameworkInv Proofs.FrameworkTotal.
From MB Require Import Proofs.FrameworkTotalStd Proofs.SimTotal.
Import ListNotations.
Open Scope N_scope.

Definition cfg_ok_dur (c : cfg) : Prop := machines_ok c /\ nonempty_ok c /\ clock_dur (clk c).

Lemma cfg_ok_cfg_ok_dur : forall c, cfg_ok c -> cfg_ok_dur c.
Proof. intros c (H1 & H2 & H3). split; [exact H1|]. split; [exact H2|apply clock_total_dur; exact H3]. Qed.

Lemma cfg_ok_tot : forall c, cfg_ok_dur c -> cfg_ok (tot_cfg c).
Proof.
  intros c (H1 & H2 & _). split; [exact H1|]. split; [exact H2|apply tot_clock_total].
Qed.

Lemma side_ok_tot : forall cf sd, side_ok (tot_cfg cf) sd <-> side_ok cf sd.
Proof.
  intros cf sd. split; intros [H1 H2 H3 H4]; constructor.
  - apply Inv_tot; exact H1.
  - exact H2.
  - exact H3.
  - exact H4.
  - apply Inv_tot; exact H1.
  - exact H2.
  - exact H3.
  - exact H4.
Qed.

Lemma SimInv_tot : forall cc sc st, SimInv (tot_cfg cc) (tot_cfg sc) st <-> SimInv cc sc st.
Proof.
  intros cc sc st. unfold SimInv. rewrite !side_ok_tot. reflexivity.
Qed.

(** * the structural refinement of the simulator *)

Lemma fnew_at_tot : forall c tp t0 p, fnew_at (tot_cfg c) tp t0 p = fnew_at c tp t0 p.
Proof. reflexivity. Qed.

Lemma new_side_tot : forall c fw, new_side (tot_cfg c) fw = new_side c fw.
Proof. reflexivity. Qed.

Lemma trigger_update_refines : forall cf tp sd p next nowt sq ic,
  clock_dur (clk cf) ->
  refines (trigger_update cf tp sd p next nowt sq ic)
          (trigger_update (tot_cfg cf) tp sd p next nowt sq ic).
Proof.
  intros cf tp sd p next nowt sq ic Hclk. unfold trigger_update.
  rauto ltac:(apply trigger_events_refines; exact Hclk).
Qed.

Lemma sim_loop_refines : forall cc sc tp args,
  clock_dur (clk cc) -> clock_dur (clk sc) ->
  forall fuel st nowt trace iters,
  refines (sim_loop fuel cc sc tp args st nowt trace iters)
          (sim_loop fuel (tot_cfg cc) (tot_cfg sc) tp args st nowt trace iters).
Proof.
  intros cc sc tp args Hcc Hsc. induction fuel as [|fuel IH]; intros st nowt trace iters;
    [apply refines_refl|].
  cbn [sim_loop].
  rauto ltac:(first [ apply trigger_update_refines; assumption | apply IH ]).
Qed.

Theorem sim_advanced_refines : forall fuel cc sc tp sq delay pps args,
  clock_dur (clk cc) -> clock_dur (clk sc) ->
  refines (sim_advanced fuel cc sc tp sq delay pps args)
          (sim_advanced fuel (tot_cfg cc) (tot_cfg sc) tp sq delay pps args).
Proof.
  intros fuel cc sc tp sq delay pps args Hcc Hsc. unfold sim_advanced.
  rauto ltac:(first [ rewrite fnew_at_tot; apply refines_refl
                    | rewrite !new_side_tot; apply sim_loop_refines; assumption ]).
Qed.

(** * the weaker contracts of [trigger_update] and of the loop *)

(** Ok with the invariant, or out of fuel, or the Duration overflow *)
Definition tu_good_dur (cf : cfg) (r : outcome (side * simq * nat)) : Prop :=
  match r with
  | Ok (sd', sq', _) => side_ok cf sd' /\ wf_simq sq'
  | Panic k => k = P_DURATION
  | OutOfFuel => True
  end.

Lemma trigger_update_good_dur : forall cf tp sd p next nowt sq ic,
  machines_ok cf -> clock_dur (clk cf) -> side_ok cf sd -> wf_simq sq ->
  tu_good_dur cf (trigger_update cf tp sd p next nowt sq ic).
Proof.
  intros cf tp sd p next nowt sq ic Hm Hclk Hsd Hwf.
  destruct (trigger_update_refines cf tp sd p next nowt sq ic Hclk) as [E|E]; rewrite E;
    [|reflexivity].
  pose proof (trigger_update_good (tot_cfg cf) tp sd p next nowt sq ic
                (machines_ok_tot cf Hm) (tot_clock_total (clk cf))
                (proj2 (side_ok_tot cf sd) Hsd) Hwf) as Hg.
  destruct (trigger_update (tot_cfg cf) tp sd p next nowt sq ic) as [[[sd' sq'] p']|k|];
    cbn [tu_good tu_good_dur] in *; [|contradiction|exact I].
  destruct Hg as [Hs Hq]. split; [apply side_ok_tot; exact Hs|exact Hq].
Qed.

(** the only panic is the Duration overflow *)
Definition dur_only {A} (r : outcome A) : Prop :=
  match r with Panic k => k = P_DURATION | _ => True end.

Lemma dur_only_panic : forall {A} (r : outcome A) k, dur_only r -> r = Panic k -> k = P_DURATION.
Proof. intros A r k H E. rewrite E in H. exact H. Qed.

Lemma refines_dur_only : forall {A} (o o' : outcome A), refines o o' -> no_panic o' -> dur_only o.
Proof.
  intros A o o' [->| ->] H; [|reflexivity].
  destruct o' as [a|k|]; cbn [no_panic dur_only] in *; [exact I|contradiction|exact I].
Qed.

Lemma sim_loop_good_dur : forall cc sc tp args fuel st nowt trace iters,
  cfg_ok_dur cc -> cfg_ok_dur sc -> SimInv cc sc st ->
  dur_only (sim_loop fuel cc sc tp args st nowt trace iters).
Proof.
  intros cc sc tp args fuel st nowt trace iters Hcc Hsc HI.
  eapply refines_dur_only.
  - apply sim_loop_refines; [exact (proj2 (proj2 Hcc))|exact (proj2 (proj2 Hsc))].
  - apply sim_loop_good; [apply cfg_ok_tot; exact Hcc|apply cfg_ok_tot; exact Hsc|].
    apply SimInv_tot. exact HI.
Qed.

(** * the theorem *)

Theorem sim_advanced_panic_only_duration : forall fuel cc sc tp sq delay pps args k,
  cfg_ok_dur cc -> cfg_ok_dur sc -> SimTotal.wf_simq sq -> sq_first_time sq <> None ->
  sim_advanced fuel cc sc tp sq delay pps args = Panic k -> k = P_DURATION.
Proof.
  intros fuel cc sc tp sq delay pps args k Hcc Hsc Hwf Hft E.
  eapply refines_panic; [|intros k'|exact E].
  - apply sim_advanced_refines; [exact (proj2 (proj2 Hcc))|exact (proj2 (proj2 Hsc))].
  - apply sim_advanced_no_panic; [apply cfg_ok_tot; exact Hcc|apply cfg_ok_tot; exact Hsc
                                  |exact Hwf|exact Hft].
Qed.

(** up to the first Duration overflow the simulator over the std clock
    computes exactly what it computes over the totalised clock *)
Corollary sim_advanced_ok_tot : forall fuel cc sc tp sq delay pps args tr,
  clock_dur (clk cc) -> clock_dur (clk sc) ->
  sim_advanced fuel cc sc tp sq delay pps args = Ok tr ->
  sim_advanced fuel (tot_cfg cc) (tot_cfg sc) tp sq delay pps args = Ok tr.
Proof.
  intros fuel cc sc tp sq delay pps args tr Hcc Hsc E.
  destruct (sim_advanced_refines fuel cc sc tp sq delay pps args Hcc Hsc) as [E'|E'];
    rewrite E' in E; [exact E|discriminate E].
Qed.

(** both frameworks over the real std clock *)
Corollary sim_advanced_std : forall fuel cc sc tp sq delay pps args k,
  clk cc = stdclock -> clk sc = stdclock ->
  machines_ok cc -> nonempty_ok cc -> machines_ok sc -> nonempty_ok sc ->
  SimTotal.wf_simq sq -> sq_first_time sq <> None ->
  sim_advanced fuel cc sc tp sq delay pps args = Panic k -> k = P_DURATION.
Proof.
  intros fuel cc sc tp sq delay pps args k Hkc Hks Hmc Hnc Hmsv Hns Hwf Hft.
  apply sim_advanced_panic_only_duration; try assumption.
  - split; [exact Hmc|]. split; [exact Hnc|]. rewrite Hkc. exact stdclock_dur.
  - split; [exact Hmsv|]. split; [exact Hns|]. rewrite Hks. exact stdclock_dur.
Qed.

(** on a parsed trace *)
Corollary sim_advanced_std_parsed : forall fuel cc sc tp tr delay pps args k,
  clk cc = stdclock -> clk sc = stdclock ->
  machines_ok cc -> nonempty_ok cc -> machines_ok sc -> nonempty_ok sc ->
  sq_first_time (parse_trace tr delay) <> None ->
  sim_advanced fuel cc sc tp (parse_trace tr delay) delay pps args = Panic k -> k = P_DURATION.
Proof.
  intros fuel cc sc tp tr delay pps args k Hkc Hks Hmc Hnc Hmsv Hns Hft.
  apply sim_advanced_std; try assumption. apply parse_trace_wf.
Qed.
