(** C16 — the simulator honours blocking: nothing leaves a blocked side unless
    bypass allows.

    For every machine set, well-routed initial queue (every parsed trace),
    delay, pps limit, tape and arguments:
    - [C16_no_leak]: every TunnelSent event of the returned trace was
      released by pick_next in an iteration reachable from the initial state
      in which that side was not blocking, or its blocking was bypassable and
      the packet carries the bypass flag. A bypass padding therefore never
      escapes blocking that does not allow bypass, and nothing else escapes
      blocking at all;
    - [C16_block_rule]: executing a due BlockOutgoing action reports
      BlockingBegin at the due time and sets the expiry by the contract
      (start; replace; otherwise the longer of the two) and the bypass flag
      (start or replace: the action's; extension: the conjunction; no change
      otherwise) -- "every action that started or updated the current
      blocking allowed bypass";
    - [C16_blocking_end]: every BlockingEnd of the trace is the expiry of the
      blocking of that side as set by that rule, reported at the expiry and
      clearing it (so at most one per blocking, after its begin);
    - [C16_bypass_origin]: the bypass queue only ever receives padding whose
      action had the bypass flag, or the queued normal packet it replaces.
    Known finding F8 (zero-duration blocks) is the excluded corner of the
    rule: [C16_zero_duration_refuted] exhibits it on the model.
    - [C16_trace]: the fail-closed half at the level of whole runs, in terms
      of the returned trace and the actions only. For every run on a parsed
      trace recording all events, the trace is the event column of a history H
      with a cause assignment f (as in C17_trace) such that: after a
      BlockingBegin of a side caused by a BlockOutgoing of positive duration,
      and until the next BlockingEnd of that side, every TunnelSent of that
      side carries the bypass flag -- nothing else leaves a blocked side.
    - [C16_fail_closed]: completely fail-closed defenses. If no BlockOutgoing
      action returned so far for a side allows bypass, then between a
      BlockingBegin of that side (positive duration) and the next BlockingEnd
      NOTHING is tunnel-sent by that side -- not even padding carrying the
      bypass flag; and [C16_bypass_needs_block]: a TunnelSent that does leave
      a blocking side carries the bypass flag AND some earlier BlockOutgoing
      action of that side allowed bypass.
    - [C16_bypass_all]: the remaining clause at the level of whole runs, in
      terms of the returned trace and the actions only: "bypass is honoured
      only when EVERY action that started or updated the current blocking
      allowed bypass". The blocking descriptor (expiry, all contributors
      allowed bypass) of a side is REPLAYED from the reported BlockingBegin /
      BlockingEnd events and the actions that caused them ([replayX], rule
      [replay_begin_r] = the contract rule of [C16_block_rule] read as a
      function). Every TunnelSent of every run is then justified: (1) the
      replay says the side is not blocking, or (2) it blocks, every
      contributor allowed bypass and the packet carries the bypass flag, or
      (3) the same holds one step ahead, for the one BlockingBegin of that
      side that fired in that very instant and is reported right after the
      packet, or (4) the run was cut within that instant. [C16_contributors]
      unfolds the flag: it is the conjunction over the list of contributing
      actions [replayC] (start or replace: the action alone; an extension:
      added; a begin that does not move the expiry: not a contributor), each
      of which is the cause of a BlockingBegin of that side reported since the
      last BlockingEnd.
      The statement with the literal contract rule was REFUTED while proving
      ([C16_literal_rule_refuted]): a zero-duration REPLACING block sets the
      expiry to "now", the expiry has priority over the queue, so BlockingEnd
      is reported before the still-queued BlockingBegin and the side is not
      blocking afterwards, while the literal replay restarts a blocking that
      nothing ends. This is the replacing half of known finding F8; the
      theorem uses the rule with that corner resolved the way the simulator
      resolves it ([replay_begin_r]), and holds for every run.
    - [C16_end_trace]: the BlockingEnd half at the level of whole runs, with
      the same replay: (E1) every BlockingEnd is reported exactly at the
      expiry the replay computes; (E2) simulated time never moves past the
      replayed expiry while the replay says blocking (the end is reported
      first); (E3) between two BlockingEnd of a side there is a BlockingBegin
      of that side (exactly one end per blocking); (E4) every BlockingEnd is
      preceded by a BlockingBegin of that side with no BlockingEnd between
      (the end comes after the begin) -- each except in the zero-duration
      replace corner of F8 ([SimBlockEnd.zero_replace_corner]: the end is
      reported early and the BlockingBegin of a zero-duration replacing action
      follows in the same instant, or the run was cut there). *)
From MB Require Import Model.Framework Model.Sim.
From MB Require Import Proofs.SimReach.
From MB Require Proofs.SimBlocking Proofs.SimTrace Proofs.SimHistory Proofs.SimActionTrace Proofs.SimBlockTrace Proofs.SimFailClosed Proofs.SimBypassAll Proofs.SimBlockEnd.
Import ListNotations.
Open Scope N_scope.

Theorem C16_no_leak : forall cc sc tp fuel sq delay pps args out,
  SimBlocking.sq_inv sq ->
  sim_advanced fuel cc sc tp sq delay pps args = Ok out ->
  forall e, In e out -> se_ev e = TETunnelSent ->
  exists st nowt st1 st3,
    iter cc sc tp st nowt e st1 st3 /\
    let sd := if se_client e then m_c st1 else m_s st1 in
    s_buntil sd = None \/ (s_bbypass sd = true /\ se_bypass e = true).
Proof. exact SimTrace.no_leak_trace. Qed.
Print Assumptions C16_no_leak.

Theorem C16_block_rule : forall sd ic m tmo dur by_ rp t sd' e,
  act_on sd ic (TBlockOutgoing m tmo dur by_ rp) t = Ok (sd', e) ->
  (0 < dur \/ rp = true \/ s_buntil sd <> None) ->
  e = mksev (TEBlockingBegin m) t ic false (s_bbypass sd') false /\
  s_fw sd' = s_fw sd /\ s_sched sd' = s_sched sd /\ s_timers sd' = s_timers sd /\
  s_buntil sd' = Some (match s_buntil sd with
                       | None => (t + Z.of_N dur)%Z
                       | Some u => if rp then (t + Z.of_N dur)%Z else Z.max u (t + Z.of_N dur)%Z
                       end) /\
  s_bbypass sd' = match s_buntil sd with
                  | None => by_
                  | Some u => if rp then by_
                              else if (u <? t + Z.of_N dur)%Z then s_bbypass sd && by_ else s_bbypass sd
                  end.
Proof. exact SimBlocking.act_on_block_rule. Qed.
Print Assumptions C16_block_rule.

(** known finding F8: a non-replacing zero-duration block with no blocking in place reports
    BlockingBegin and starts no blocking (so no BlockingEnd can follow) *)
Lemma C16_zero_duration_refuted : forall sd ic m tmo by_ t,
  s_buntil sd = None ->
  exists e, act_on sd ic (TBlockOutgoing m tmo 0 by_ false) t = Ok (sd, e) /\ se_ev e = TEBlockingBegin m.
Proof. exact SimBlocking.act_on_zero_duration. Qed.

Theorem C16_blocking_end : forall cc sc tp fuel sq delay pps args out,
  SimBlocking.sq_inv sq ->
  sim_advanced fuel cc sc tp sq delay pps args = Ok out ->
  forall e, In e out -> se_ev e = TEBlockingEnd ->
  exists st nowt st1 st3,
    iter cc sc tp st nowt e st1 st3 /\
    exists stb nowtb u,
      (nowt <= nowtb)%Z /\
      s_buntil (if se_client e then m_c stb else m_s stb) = Some u /\
      ((nowtb <= u <= nowtb + Z.of_N DMAX)%Z -> se_time e = u) /\
      e = mksev TEBlockingEnd (se_time e) (se_client e) false false false /\
      s_buntil (if se_client e then m_c st1 else m_s st1) = None.
Proof. exact SimTrace.blocking_end_trace. Qed.
Print Assumptions C16_blocking_end.

Theorem C16_bypass_origin : forall next sq bb net nowt sq' net' act,
  SimBlocking.wf_simq sq -> sim_network_stack next sq bb net nowt = Ok (sq', net', act) ->
  SimBlocking.wf_simq sq' /\
  (forall x, In x (q_bypass (sq_c sq') ++ q_bypass (sq_s sq')) ->
             In x (q_bypass (sq_c sq) ++ q_bypass (sq_s sq)) \/
             (exists m, se_ev next = TEPaddingSent m /\ se_bypass next = true)).
Proof. exact SimBlocking.network_stack_bypass_origin. Qed.
Print Assumptions C16_bypass_origin.

(** the hypothesis on the queue holds for every parsed trace *)
Lemma C16_parsed_queue : forall tr delay, SimBlocking.sq_inv (parse_trace tr delay).
Proof. exact SimBlocking.parse_trace_inv. Qed.

Theorem C16_trace : forall fuel cc sc tp tr delay pps args out,
  SimHistory.full_args args ->
  sim_advanced fuel cc sc tp (parse_trace tr delay) delay pps args = Ok out ->
  exists H : list SimHistory.hrec, out = map SimHistory.h_ev H /\
  exists f : nat -> nat,
    (forall k rk m, nth_error H k = Some rk ->
       (se_ev (SimHistory.h_ev rk) = TEPaddingSent m \/ se_ev (SimHistory.h_ev rk) = TEBlockingBegin m) ->
       SimActionTrace.caused_by H k rk m (f k)) /\
    forall b k rb rk m rj a,
      (b < k)%nat -> nth_error H b = Some rb -> nth_error H k = Some rk ->
      se_ev (SimHistory.h_ev rb) = TEBlockingBegin m ->
      nth_error H (f b) = Some rj -> In a (SimHistory.h_acts rj) -> taction_machine a = m ->
      SimActionTrace.completes a (SimHistory.h_ev rb) -> (0 < SimBlockTrace.block_dur a) ->
      se_ev (SimHistory.h_ev rk) = TETunnelSent ->
      se_client (SimHistory.h_ev rk) = se_client (SimHistory.h_ev rb) ->
      (forall i ri, (b < i < k)%nat -> nth_error H i = Some ri ->
                    ~ (se_ev (SimHistory.h_ev ri) = TEBlockingEnd /\
                       se_client (SimHistory.h_ev ri) = se_client (SimHistory.h_ev rb))) ->
      se_bypass (SimHistory.h_ev rk) = true.
Proof. exact SimBlockTrace.blocked_side_sends_only_bypass. Qed.
Print Assumptions C16_trace.

Theorem C16_fail_closed : forall fuel cc sc tp tr delay pps args out,
  SimHistory.full_args args ->
  sim_advanced fuel cc sc tp (parse_trace tr delay) delay pps args = Ok out ->
  exists H : list SimHistory.hrec, out = map SimHistory.h_ev H /\
  exists f : nat -> nat,
    (forall k rk m, nth_error H k = Some rk ->
       (se_ev (SimHistory.h_ev rk) = TEPaddingSent m \/ se_ev (SimHistory.h_ev rk) = TEBlockingBegin m) ->
       SimActionTrace.caused_by H k rk m (f k)) /\
    forall b k rb rk m rj a,
      (b < k)%nat -> nth_error H b = Some rb -> nth_error H k = Some rk ->
      se_ev (SimHistory.h_ev rb) = TEBlockingBegin m ->
      nth_error H (f b) = Some rj -> In a (SimHistory.h_acts rj) -> taction_machine a = m ->
      SimActionTrace.completes a (SimHistory.h_ev rb) -> (0 < SimBlockTrace.block_dur a) ->
      se_client (SimHistory.h_ev rk) = se_client (SimHistory.h_ev rb) ->
      (forall i ri, (b < i < k)%nat -> nth_error H i = Some ri ->
                    ~ (se_ev (SimHistory.h_ev ri) = TEBlockingEnd /\
                       se_client (SimHistory.h_ev ri) = se_client (SimHistory.h_ev rb))) ->
      (forall j rj' a', (j < k)%nat -> nth_error H j = Some rj' ->
                        se_client (SimHistory.h_ev rj') = se_client (SimHistory.h_ev rb) ->
                        In a' (SimHistory.h_acts rj') -> SimFailClosed.block_bypass a' = false) ->
      se_ev (SimHistory.h_ev rk) <> TETunnelSent.
Proof. exact SimFailClosed.fail_closed_nothing_leaves. Qed.
Print Assumptions C16_fail_closed.

Theorem C16_bypass_needs_block : forall fuel cc sc tp tr delay pps args out,
  SimHistory.full_args args ->
  sim_advanced fuel cc sc tp (parse_trace tr delay) delay pps args = Ok out ->
  exists H : list SimHistory.hrec, out = map SimHistory.h_ev H /\
  exists f : nat -> nat,
    (forall k rk m, nth_error H k = Some rk ->
       (se_ev (SimHistory.h_ev rk) = TEPaddingSent m \/ se_ev (SimHistory.h_ev rk) = TEBlockingBegin m) ->
       SimActionTrace.caused_by H k rk m (f k)) /\
    forall b k rb rk m rj a,
      (b < k)%nat -> nth_error H b = Some rb -> nth_error H k = Some rk ->
      se_ev (SimHistory.h_ev rb) = TEBlockingBegin m ->
      nth_error H (f b) = Some rj -> In a (SimHistory.h_acts rj) -> taction_machine a = m ->
      SimActionTrace.completes a (SimHistory.h_ev rb) -> (0 < SimBlockTrace.block_dur a) ->
      se_ev (SimHistory.h_ev rk) = TETunnelSent ->
      se_client (SimHistory.h_ev rk) = se_client (SimHistory.h_ev rb) ->
      (forall i ri, (b < i < k)%nat -> nth_error H i = Some ri ->
                    ~ (se_ev (SimHistory.h_ev ri) = TEBlockingEnd /\
                       se_client (SimHistory.h_ev ri) = se_client (SimHistory.h_ev rb))) ->
      se_bypass (SimHistory.h_ev rk) = true /\
      exists j rj' a', (j < k)%nat /\ nth_error H j = Some rj' /\
        se_client (SimHistory.h_ev rj') = se_client (SimHistory.h_ev rb) /\
        In a' (SimHistory.h_acts rj') /\ SimFailClosed.block_bypass a' = true.
Proof. exact SimFailClosed.blocked_side_tunnel_sent_needs_bypass_block. Qed.
Print Assumptions C16_bypass_needs_block.

Theorem C16_bypass_all : forall fuel cc sc tp tr delay pps args out,
  SimHistory.full_args args ->
  sim_advanced fuel cc sc tp (parse_trace tr delay) delay pps args = Ok out ->
  exists H : list SimHistory.hrec, out = map SimHistory.h_ev H /\
  exists f : nat -> nat,
    (forall k rk m, nth_error H k = Some rk ->
       (se_ev (SimHistory.h_ev rk) = TEPaddingSent m \/ se_ev (SimHistory.h_ev rk) = TEBlockingBegin m) ->
       SimActionTrace.caused_by H k rk m (f k)) /\
    forall k rk, nth_error H k = Some rk -> se_ev (SimHistory.h_ev rk) = TETunnelSent ->
      let X := se_client (SimHistory.h_ev rk) in
      let b0 := SimBypassAll.replayX X f H k in
      b0 = None \/
      (exists u, b0 = Some (u, true) /\ se_bypass (SimHistory.h_ev rk) = true) \/
      (exists j rj m, (k < j)%nat /\ nth_error H j = Some rj /\ se_ev (SimHistory.h_ev rj) = TEBlockingBegin m /\
         se_client (SimHistory.h_ev rj) = X /\ se_time (SimHistory.h_ev rj) = se_time (SimHistory.h_ev rk) /\
         (forall i ri, (k < i < j)%nat -> nth_error H i = Some ri -> se_client (SimHistory.h_ev ri) = X ->
            SimActionTrace.is_complb (SimHistory.h_ev ri) = false) /\
         (exists a, SimBypassAll.act_of H (f j) m = Some a /\
            SimBypassAll.replayX X f H (S j) = SimBypassAll.replay_begin_r b0 (se_time (SimHistory.h_ev rk)) a) /\
         let b1 := SimBypassAll.replayX X f H (S j) in
         b1 = None \/ (exists u, b1 = Some (u, true) /\ se_bypass (SimHistory.h_ev rk) = true)) \/
      (forall i ri, (k < i)%nat -> nth_error H i = Some ri ->
         se_time (SimHistory.h_ev ri) = se_time (SimHistory.h_ev rk) /\
         (se_client (SimHistory.h_ev ri) = X -> SimActionTrace.is_complb (SimHistory.h_ev ri) = false)).
Proof. exact SimBypassAll.bypass_all_replay_partial. Qed.
Print Assumptions C16_bypass_all.

(** what the flag of the replay means: the conjunction over the contributing actions, each the cause
    of a BlockingBegin of that side reported since the last BlockingEnd *)
Theorem C16_contributors : forall X f H k u,
  SimBypassAll.replayX X f H k = Some (u, true) ->
  exists cs, SimBypassAll.replayC X f H k = Some (u, cs) /\
    (forall a, In a cs -> SimFailClosed.block_bypass a = true) /\
    (forall a, In a cs ->
       exists i ri m, (i < k)%nat /\ nth_error H i = Some ri /\ se_ev (SimHistory.h_ev ri) = TEBlockingBegin m /\
         se_client (SimHistory.h_ev ri) = X /\ SimBypassAll.act_of H (f i) m = Some a /\
         forall i' ri', (i < i' < k)%nat -> nth_error H i' = Some ri' -> ~ SimBlockTrace.is_bend X (SimHistory.h_ev ri')).
Proof.
  intros X f H k u E.
  destruct (SimBypassAll.replay_flag_true_all X f H k u E) as (cs & Ec & Hall).
  exists cs. split; [exact Ec|]. split; [exact Hall|].
  intros a Ha. exact (SimBypassAll.replayC_sound X f H k u cs Ec a Ha).
Qed.
Print Assumptions C16_contributors.

(** the literal contract rule is refuted by a zero-duration replacing block (the replacing half of
    known finding F8): a real run whose release #8 no cause assignment can justify under [replay_begin] *)
Lemma C16_literal_rule_refuted :
  exists cc sc tp sq delay args (H : list SimHistory.hrec),
    sim_advanced 200 cc sc tp sq delay None args = Ok (map SimHistory.h_ev H) /\
    forall f : nat -> nat,
      (forall k rk m, nth_error H k = Some rk ->
         (se_ev (SimHistory.h_ev rk) = TEPaddingSent m \/ se_ev (SimHistory.h_ev rk) = TEBlockingBegin m) ->
         SimActionTrace.caused_by H k rk m (f k)) ->
      exists rk, nth_error H 8 = Some rk /\ se_ev (SimHistory.h_ev rk) = TETunnelSent /\
        ~ SimBypassAll.claim SimBypassAll.replay_begin f H 8 rk.
Proof.
  destruct SimBypassAll.stated_target_refuted as (_ & _ & A & _ & B).
  do 7 eexists. split; [exact A|].
  intros f Hf. destruct (B f Hf) as (rk & R1 & R2 & _ & _ & R3). exists rk. auto.
Qed.

(** non-vacuity of clause (2): a bypass padding leaves a blocking built by two bypass-allowing actions *)
Example C16_bypass_all_nonvacuous := SimBypassAll.bypass_all_case2_two_contributors.

Theorem C16_end_trace : forall fuel cc sc tp tr delay pps args out,
  SimHistory.full_args args ->
  sim_advanced fuel cc sc tp (parse_trace tr delay) delay pps args = Ok out ->
  exists H, out = map SimHistory.h_ev H /\ exists f : nat -> nat,
    (forall k rk m, nth_error H k = Some rk ->
       (se_ev (SimHistory.h_ev rk) = TEPaddingSent m \/ se_ev (SimHistory.h_ev rk) = TEBlockingBegin m) ->
       SimActionTrace.caused_by H k rk m (f k)) /\
    (forall j rj, nth_error H j = Some rj -> se_ev (SimHistory.h_ev rj) = TEBlockingEnd ->
       (exists u fl, SimBypassAll.replayX (se_client (SimHistory.h_ev rj)) f H j = Some (u, fl) /\
                     se_time (SimHistory.h_ev rj) = u) \/
       SimBlockEnd.zero_replace_corner (se_client (SimHistory.h_ev rj)) f H j rj) /\
    (forall X k rk u fl, nth_error H k = Some rk -> SimBypassAll.replayX X f H k = Some (u, fl) ->
       (se_time (SimHistory.h_ev rk) <= u)%Z) /\
    (forall j1 j2 r1 r2, (j1 < j2)%nat -> nth_error H j1 = Some r1 -> nth_error H j2 = Some r2 ->
       se_ev (SimHistory.h_ev r1) = TEBlockingEnd -> se_ev (SimHistory.h_ev r2) = TEBlockingEnd ->
       se_client (SimHistory.h_ev r1) = se_client (SimHistory.h_ev r2) ->
       (exists i ri m, (j1 < i < j2)%nat /\ nth_error H i = Some ri /\ se_ev (SimHistory.h_ev ri) = TEBlockingBegin m /\
          se_client (SimHistory.h_ev ri) = se_client (SimHistory.h_ev r2)) \/
       SimBlockEnd.zero_replace_corner (se_client (SimHistory.h_ev r2)) f H j2 r2) /\
    (forall j rj, nth_error H j = Some rj -> se_ev (SimHistory.h_ev rj) = TEBlockingEnd ->
       (exists i ri m, (i < j)%nat /\ nth_error H i = Some ri /\ se_ev (SimHistory.h_ev ri) = TEBlockingBegin m /\
          se_client (SimHistory.h_ev ri) = se_client (SimHistory.h_ev rj) /\
          forall i' ri', (i < i' < j)%nat -> nth_error H i' = Some ri' ->
            ~ (se_ev (SimHistory.h_ev ri') = TEBlockingEnd /\ se_client (SimHistory.h_ev ri') = se_client (SimHistory.h_ev rj))) \/
       SimBlockEnd.zero_replace_corner (se_client (SimHistory.h_ev rj)) f H j rj).
Proof. exact SimBlockEnd.blocking_end_trace. Qed.
Print Assumptions C16_end_trace.
