(** C14 — the simulator without machines reproduces the input trace exactly.

    For every non-empty time-sorted trace (any mix of directions, bursts with
    identical timestamps, gaps from 0 up to anything below Duration::MAX), every
    network delay including 0, every oracle tape and every fuel: if neither
    side has machines and the run records all events with no bound (sim(), or
    sim_advanced with default arguments), then whenever the simulation of the
    PARSED trace returns,
    - every returned event is one of the four packet events without padding
      or flags (nothing else happens),
    - the client's TunnelSent times are exactly the trace's send times and
      its TunnelRecv times exactly the receive times (as multisets: no packet
      is added, lost or shifted in time),
    - the server shows the mirror image shifted by the network delay.
    The packets-per-second limit is the one parse_trace derives from the
    trace itself: [SimWindow.trace_never_trips_strong] proves that a trace
    never trips the bottleneck derived from itself (1 s window counts are at
    most ten times the maximal 100 ms count), so no hypothesis on it remains.
    The other output filters are pure projections of this trace (C19_projection). *)
From Coq Require Import Sorted Permutation.
From MB Require Import Model.Framework Model.Sim.
From MB Require Proofs.SimWindow Proofs.SimIdentity Proofs.SimConserve.
Import ListNotations.
Open Scope N_scope.

Theorem C14_identity : forall fuel cc sc tp tr delay args out,
  machines cc = [] -> machines sc = [] ->
  SimConserve.full_args args -> a_continue args = false -> a_max_trace args = 0 -> a_max_iter args = 0 ->
  tr <> [] -> Sorted Z.le (map fst tr) ->
  (forall a b, In a (map fst tr) -> In b (map fst tr) -> (Z.abs (a - b) + Z.of_N delay < Z.of_N DMAX)%Z) ->
  sim_advanced fuel cc sc tp (parse_trace tr delay) delay None args = Ok out ->
  (forall e, In e out -> SimIdentity.plain e) /\
  Permutation (SimIdentity.times (SimConserve.is_ts true false) out) (SimIdentity.sends tr) /\
  Permutation (SimIdentity.times (SimConserve.is_tr true false) out) (SimIdentity.recvs tr) /\
  Permutation (SimIdentity.times (SimConserve.is_tr false false) out)
              (map (fun t => (t + Z.of_N delay)%Z) (SimIdentity.sends tr)) /\
  Permutation (SimIdentity.times (SimConserve.is_ts false false) out)
              (map (fun t => (t - Z.of_N delay)%Z) (SimIdentity.recvs tr)).
Proof.
  intros fuel cc sc tp tr delay args out Hc Hs Hf Hcont Hmt Hmi Hne Hsorted Hspan H.
  pose proof (SimWindow.parse_trace_pps tr delay) as Hp.
  destruct (SimWindow.trace_never_trips_strong tr delay _ Hsorted Hp) as [H1 H2].
  exact (SimIdentity.no_machines_identity fuel cc sc tp tr delay args out _
           Hc Hs Hf Hcont Hmt Hmi Hne Hsorted Hspan Hp H1 H2 H).
Qed.
Print Assumptions C14_identity.

(** a trace never trips the bottleneck derived from itself *)
Theorem C14_window : forall ts, Sorted Z.le ts ->
  forall c, In c (SimWindow.win_counts WINDOW ts) ->
  c <= 10 * SimWindow.max_list (SimWindow.win_counts PARSE_WINDOW ts).
Proof. exact SimWindow.window_ten_strong. Qed.
Print Assumptions C14_window.

(** the hypotheses are satisfiable and the run returns: a six-line trace with a burst and delay 3 *)
Example C14_nonvacuous :
  let tr := [(0, true); (0, true); (5, false); (5, true); (1000000000, false); (1000000007, true)]%Z in
  let c := mkcfg [] 0 0 stdclock in
  exists out, sim_advanced 200 c c (fun _ => 0) (parse_trace tr 3) 3 None (mksimargs 0 0 false false false) = Ok out
              /\ length out = 23%nat.
Proof. eexists. split; vm_compute; reflexivity. Qed.
