(** C10 — machines do not interfere: behaviour is independent of neighbouring machines.

    [C10_solo] is the property at full strength in the model: for EVERY
    configuration, every position i whose machine has deterministic sampling
    (probability-1 transition vectors, constant distributions: [det_machine_b])
    and every neighbour set in which no machine can signal ([no_signal_b]),
    for every history, every start time and every PAIR of random tapes (the
    neighbours may be arbitrary probabilistic machines and consume the shared
    tape as they like): the actions returned for machine i in the combined run
    are, call by call, exactly the actions the machine returns when it runs
    alone on the projected history (events addressed to neighbours mapped to an
    unknown id), up to its machine id. Framework-wide fraction limits need not
    be unset: the projected history keeps the global budgets equal.
    [C10_solo_total] adds that both runs exist for valid configurations.
    [C10_solo_any] removes the restriction to deterministic sampling: for ANY
    machine at position i (probabilistic transitions, any distributions) next
    to any neighbours, with no machine able to signal, there is a list l of
    draws -- an order-preserving sub-sequence of the tape prefix the combined
    run consumed: the machine's own draws -- such that the machine running
    alone on ANY tape that starts with l consumes exactly l and returns, call
    by call, exactly the actions it returned in the combined run. Together
    with C05 (the result is a function of the inputs and the tape read) this
    is the property for every machine that never signals and is never
    signalled: fed the same random outcomes, it behaves the same alone or next
    to any neighbours, in any position.
    Proved by a two-run simulation ([NonInterferenceSolo.Rel]) using the frame
    lemmas below: [C10_step_frame_partial] / [C10_decrement_frame_partial]
    (a step of machine j leaves the runtime and pending action of every other
    machine and all accounting fields untouched) and
    [C10_accounting_projection_partial] (the accounting is the same function
    of the reported events in both runs). *)
From MB Require Import Model.Framework.
From MB Require Import Proofs.FrameworkAcct Proofs.AcctSpec Proofs.PaddingBudget Proofs.BlockingBudget Proofs.NonInterference.
From MB Require Import Model.Validate Proofs.FrameworkInv Proofs.NonInterferenceSolo Proofs.NonInterferenceProb.
Open Scope N_scope.

Theorem C10_step_frame_partial : forall c tp fuel s j ev s' b i,
  transition fuel c tp s j ev = Ok (s', b) -> i <> j ->
  nth_error (rts s') i = nth_error (rts s) i /\
  nth_error (slots s') i = nth_error (slots s) i /\
  acct_same s s'.
Proof. exact step_frame. Qed.
Print Assumptions C10_step_frame_partial.

Theorem C10_decrement_frame_partial : forall c tp s j s' i,
  decrement_limit c tp s j = Ok s' -> i <> j ->
  nth_error (rts s') i = nth_error (rts s) i /\
  nth_error (slots s') i = nth_error (slots s) i /\
  acct_same s s'.
Proof. exact decrement_frame. Qed.
Print Assumptions C10_decrement_frame_partial.

Theorem C10_accounting_projection_partial : forall k i (h : history) a a1,
  acct_view a i a1 ->
  acct_view (acct_hist k h a) i
            (acct_hist k (map (fun '(evs, t) => (map (proj_event i) evs, t)) h) a1).
Proof. exact acct_hist_view. Qed.
Print Assumptions C10_accounting_projection_partial.

(** the views coincide initially *)
Example C10_initial_view : forall c t0 i m,
  nth_error (machines c) i = Some m ->
  acct_view (acct0 c t0) i
            (acct0 (mkcfg [m] (fw_max_padding_frac c) (fw_max_blocking_frac c) (clk c)) t0).
Proof.
  intros c t0 i m Hm. unfold acct_view, acct0; cbn.
  repeat (split; [reflexivity|]). exists (0, 0, 0). split; [|reflexivity].
  exact (map_nth_error (fun _ => (0, 0, 0)) _ _ Hm).
Qed.

Theorem C10_solo : forall c i m tp tp1 t0 h s0 s outs s10 s1 outs1,
  nth_error (machines c) i = Some m -> det_machine_b m = true -> no_signal_b c = true ->
  fnew c tp t0 = Ok s0 -> run c tp s0 h = Ok (s, outs) ->
  fnew (solo_cfg c m) tp1 t0 = Ok s10 -> run (solo_cfg c m) tp1 s10 (proj_hist i h) = Ok (s1, outs1) ->
  map (acts_of i) outs = map (map (rename_to i)) outs1.
Proof. exact solo_equals_combined_full. Qed.
Print Assumptions C10_solo.

Theorem C10_solo_total : forall c i m tp tp1 t0 h,
  nth_error (machines c) i = Some m -> det_machine_b m = true -> no_signal_b c = true ->
  valid_cfg c = true -> clock_total (clk c) ->
  exists s0 s outs s10 s1 outs1,
    fnew c tp t0 = Ok s0 /\ run c tp s0 h = Ok (s, outs) /\
    fnew (solo_cfg c m) tp1 t0 = Ok s10 /\
    run (solo_cfg c m) tp1 s10 (proj_hist i h) = Ok (s1, outs1) /\
    map (acts_of i) outs = map (map (rename_to i)) outs1.
Proof. exact solo_equals_combined_full_total. Qed.
Print Assumptions C10_solo_total.

Theorem C10_solo_any : forall c i m tp t0 h s0 s outs,
  nth_error (machines c) i = Some m -> no_signal_b c = true ->
  fnew c tp t0 = Ok s0 -> run c tp s0 h = Ok (s, outs) ->
  exists l : list N,
    sublist l (map tp (seq 0 (pos s))) /\
    forall tp1, tape_starts_with tp1 l ->
      exists s10 s1 outs1,
        fnew (solo_cfg c m) tp1 t0 = Ok s10 /\
        run (solo_cfg c m) tp1 s10 (proj_hist i h) = Ok (s1, outs1) /\
        pos s1 = length l /\
        map (acts_of i) outs = map (map (rename_to i)) outs1.
Proof. exact solo_equals_combined_prob. Qed.
Print Assumptions C10_solo_any.

(** non-vacuity: a machine with probability-0.5 transitions and a Uniform[0,100]
    timeout between two probabilistic neighbours; the combined run returns one
    action per call for it, its own draws are 8 of the 24 consumed, and the
    theorem's l is non-empty *)
Example C10_solo_any_nonvacuous : exists s0 s outs l,
  fnew pn_cfg sn_tp 0%Z = Ok s0 /\ run pn_cfg sn_tp s0 pn_hist = Ok (s, outs) /\
  map (acts_of 1) outs =
    [[TSendPadding 1 7 false false]; [TSendPadding 1 22 false false]; [TSendPadding 1 100 false false]] /\
  l <> [] /\
  sublist l (map sn_tp (seq 0 (pos s))) /\
  forall tp1, tape_starts_with tp1 l ->
    exists s10 s1 outs1,
      fnew (solo_cfg pn_cfg pm_machine) tp1 0%Z = Ok s10 /\
      run (solo_cfg pn_cfg pm_machine) tp1 s10 (proj_hist 1 pn_hist) = Ok (s1, outs1) /\
      pos s1 = length l /\
      map (acts_of 1) outs = map (map (rename_to 1)) outs1.
Proof. exact pn_instance. Qed.
