(** C10 — machines do not interfere (PARTIAL at the level of proof).

    Proved here, for every configuration, state, event, time and tape:
    [C10_step_frame] / [C10_decrement_frame]: a step of machine j leaves the
       runtime and the pending action of every other machine i untouched and
       never changes the accounting fields -- so the only channels between
       machines are the pending signal, the shared blocking state and the
       framework-wide budgets, as the property states;
    [C10_accounting_projection]: machine i's own counters and the shared
       accounting (everything its limit checks read) are the same function of
       the reported events in the combined run and in the solo run on the
       projected history, for every history.
    NOT proved here: the full statement that the action streams coincide
    ([C10_solo] in DESIGN.md) -- it needs a two-run simulation over
    [transition]. That statement is decided differentially: generated
    deterministic machines are run next to arbitrary neighbours and alone on
    the projected history, on the implementation and on the model, and the
    action streams must coincide (see evidence/C10.json). *)
From MB Require Import Model.Framework.
From MB Require Import Proofs.FrameworkAcct Proofs.AcctSpec Proofs.PaddingBudget Proofs.BlockingBudget Proofs.NonInterference.
Open Scope N_scope.

Theorem C10_step_frame_partial : forall c tp fuel s j ev s' b i,
  transition fuel c tp s j ev = Ok (s', b) -> i <> j ->
  nth_error (rts s') i = nth_error (rts s) i /\
  nth_error (slots s') i = nth_error (slots s) i /\
  acct_same s s'.
Proof. exact step_frame. Qed.
Print Assumptions C10_step_frame_partial.

Theorem C10_decrement_frame_partial : forall c tp s j s' i,
  decrement_limit c tp s j = Ok s' -> i <> j ->
  nth_error (rts s') i = nth_error (rts s) i /\
  nth_error (slots s') i = nth_error (slots s) i /\
  acct_same s s'.
Proof. exact decrement_frame. Qed.
Print Assumptions C10_decrement_frame_partial.

Theorem C10_accounting_projection_partial : forall k i (h : history) a a1,
  acct_view a i a1 ->
  acct_view (acct_hist k h a) i
            (acct_hist k (map (fun '(evs, t) => (map (proj_event i) evs, t)) h) a1).
Proof. exact acct_hist_view. Qed.
Print Assumptions C10_accounting_projection_partial.

(** the views coincide initially *)
Example C10_initial_view : forall c t0 i m,
  nth_error (machines c) i = Some m ->
  acct_view (acct0 c t0) i
            (acct0 (mkcfg [m] (fw_max_padding_frac c) (fw_max_blocking_frac c) (clk c)) t0).
Proof.
  intros c t0 i m Hm. unfold acct_view, acct0; cbn.
  repeat (split; [reflexivity|]). exists (0, 0, 0). split; [|reflexivity].
  exact (map_nth_error (fun _ => (0, 0, 0)) _ _ Hm).
Qed.
