(** C15 — the simulator conserves packets and respects network causality.

    For every machine set on either side, every initial queue holding only
    base events (what parse_trace builds), delay, pps limit, tape and
    arguments that record all events, whenever the simulation returns:
    - [C15_causality]: for every side X, packet kind k (normal / padding) and
      time T, the TunnelRecv events of side X up to T are at most the
      TunnelSent events of the other side, same kind, sent at least one
      network delay before T. For such threshold constraints this counting
      condition is equivalent (Hall's condition on an interval order) to an
      injective matching of every TunnelRecv to a distinct earlier TunnelSent
      of the other side and same kind at least one delay before;
    - [C15_matching]: the literal form, derived from the counting condition by
      a purely combinatorial lemma ([SimMatching.dominated_matching], whose
      converse [prefix_dominated] is proved too): there is an injective
      assignment g of the TunnelRecv events of side X (kind k) to TunnelSent
      events of the other side of the same kind, each sent at least one network
      delay before the receive it is matched with;
    - [C15_conservation]: each side's NormalSent events are at most its share
      of the input, its normal TunnelSent at most those, the peer's normal
      TunnelRecv at most those, the peer's NormalRecv at most those: normal
      packets are never created or duplicated;
    - [C15_complete]: when the run ends because all normal packets were
      processed, each side sent exactly its share and the peer received
      exactly that many;
    - [C15_sorted]: the returned trace is ordered by time.
    (Without integration delays: the model has none.) *)
From MB Require Import Model.Framework Model.Sim.
From MB Require Proofs.SimBasics Proofs.SimConserve Proofs.SimMatching.
Import ListNotations SimConserve.
Open Scope N_scope.

Theorem C15_causality : forall fuel cc sc tp sq delay pps args out,
  init_simq sq -> full_args args ->
  sim_advanced fuel cc sc tp sq delay pps args = Ok out ->
  forall X k T,
    (cnt (fun e => is_tr X k e && upto T e) out
     <= cnt (fun e => is_ts (negb X) k e && sent_by delay T e) out)%nat.
Proof. exact tunnel_causality. Qed.
Print Assumptions C15_causality.


Theorem C15_matching : forall fuel cc sc tp sq delay pps args out,
  init_simq sq -> full_args args ->
  sim_advanced fuel cc sc tp sq delay pps args = Ok out ->
  forall X k,
    let recvs := filter (is_tr X k) out in
    let sents := filter (is_ts (negb X) k) out in
    exists g : nat -> nat,
      (forall i, (i < length recvs)%nat -> (g i < length sents)%nat) /\
      (forall i j, (i < length recvs)%nat -> (j < length recvs)%nat -> i <> j -> g i <> g j) /\
      (forall i er, nth_error recvs i = Some er ->
         exists es, nth_error sents (g i) = Some es /\
                    In er out /\ is_tr X k er = true /\
                    In es out /\ is_ts (negb X) k es = true /\
                    (se_time es + Z.of_N delay <= se_time er)%Z).
Proof. exact SimMatching.tunnel_matching_events. Qed.
Print Assumptions C15_matching.

Theorem C15_conservation : forall fuel cc sc tp sq delay pps args out,
  init_simq sq -> full_args args ->
  sim_advanced fuel cc sc tp sq delay pps args = Ok out ->
  forall X,
    (cnt (is_ns X) out <= length (q_base (if X then sq_c sq else sq_s sq)))%nat /\
    (cnt (is_ts X false) out <= cnt (is_ns X) out)%nat /\
    (cnt (is_tr (negb X) false) out <= cnt (is_ts X false) out)%nat /\
    (cnt (is_nr (negb X)) out <= cnt (is_tr (negb X) false) out)%nat.
Proof. exact normal_conservation. Qed.
Print Assumptions C15_conservation.

(** [sim_loop_r] is [sim_loop] returning also why it stopped ([sim_loop_r_agrees]) *)
Theorem C15_complete : forall fuel cc sc tp sq delay pps args t0 cfw sfw net out why,
  init_simq sq -> full_args args ->
  sq_first_time sq = Some t0 ->
  fnew_at cc tp t0 0 = Ok cfw -> fnew_at sc tp t0 (Framework.pos cfw) = Ok sfw ->
  netb_new delay pps (sq_pps sq) = Ok net ->
  sim_loop_r fuel cc sc tp args
    (mksim sq (new_side cc cfw) (new_side sc sfw) net (Framework.pos sfw)) t0 [] 0 = Ok (out, why) ->
  why = StopNormal ->
  sim_advanced fuel cc sc tp sq delay pps args = Ok (sort_time out) /\
  forall X,
    cnt (is_ts X false) (sort_time out) = length (q_base (if X then sq_c sq else sq_s sq)) /\
    cnt (is_tr (negb X) false) (sort_time out) = length (q_base (if X then sq_c sq else sq_s sq)).
Proof. exact normal_complete_advanced. Qed.
Print Assumptions C15_complete.

Theorem C15_sorted : forall fuel cc sc tp sq delay pps args out,
  sim_advanced fuel cc sc tp sq delay pps args = Ok out -> Sorted.Sorted SimBasics.time_le out.
Proof. exact SimBasics.sim_advanced_sorted. Qed.
Print Assumptions C15_sorted.

(** the hypothesis on the queue holds for every parsed trace *)
Lemma C15_parsed_queue : forall tr delay, init_simq (parse_trace tr delay).
Proof. exact parse_trace_init. Qed.
