(** C20 — the C API returns exactly the framework's actions and never writes
    past num_machines (PARTIAL: deallocation by maybenot_stop and the absence
    of undefined behaviour in the unsafe blocks beyond the index arithmetic
    are runtime properties outside the model).

    [C20_on_events]   with non-null arguments maybenot_on_events writes, in
                      order, exactly [map convert_action] of what
                      Framework::trigger_events returns for the converted
                      events, reports their number, and that number never
                      exceeds num_machines (so the zip with the caller's
                      buffer never truncates and never writes past it).
    [C20_fields]      convert_action preserves kind, machine, bypass, replace
                      and timer; every duration of us microseconds is split
                      into (us / 10^6 s, (us mod 10^6) * 1000 ns).
    [C20_null]        any null argument yields NullPointer and no write.
    [C20_start]       the result code of maybenot_start: NullPointer iff out is
                      null; Ok iff out is non-null, the string is UTF-8, every
                      line parses and both fractions are in [0,1] -- exactly the
                      Rust API's acceptance. *)
From MB Require Import Model.Framework Model.Validate Model.FFI.
From MB Require Import Proofs.FrameworkInv Proofs.FFIProofs.
Open Scope N_scope.

Theorem C20_on_events : forall c tp s cevs t code s' out,
  Inv c s ->
  ffi_on_events c tp false false false false s cevs t = Ok (code, s', out) ->
  exists evs acts,
    convert_events cevs = Some evs /\
    trigger_events c tp s evs t = Ok (s', acts) /\
    code = RES_OK /\ out = map convert_action acts /\
    (length out <= length (machines c))%nat.
Proof. exact on_events_exact. Qed.
Print Assumptions C20_on_events.

Theorem C20_fields : forall a,
  match a, convert_action a with
  | TCancel m t, [k; m'; _; _; _; _; _; _; tm] => k = 0 /\ m' = m /\ tm = c_timer t
  | TSendPadding m _ by_ rp, [k; m'; _; _; r; b; _; _; _] =>
      k = 1 /\ m' = m /\ r = (if rp then 1 else 0) /\ b = (if by_ then 1 else 0)
  | TBlockOutgoing m _ _ by_ rp, [k; m'; _; _; r; b; _; _; _] =>
      k = 2 /\ m' = m /\ r = (if rp then 1 else 0) /\ b = (if by_ then 1 else 0)
  | TUpdateTimer m _ rp, [k; m'; _; _; r; _; _; _; _] => k = 3 /\ m' = m /\ r = (if rp then 1 else 0)
  | _, _ => False
  end.
Proof. exact convert_action_fields. Qed.
Print Assumptions C20_fields.

Theorem C20_duration_split : forall us,
  let '(s, n) := split_micros us in
  s * 1000000 + n / 1000 = us /\ n < 1000000000 /\ n mod 1000 = 0.
Proof. exact split_micros_spec. Qed.
Print Assumptions C20_duration_split.

Theorem C20_null : forall c tp a b d e s cevs t,
  a || b || d || e = true ->
  ffi_on_events c tp a b d e s cevs t = Ok (RES_NULL, s, []).
Proof. exact on_events_null. Qed.
Print Assumptions C20_null.

Theorem C20_start : forall out_null utf8_ok lines_ok pad blk,
  let code := ffi_start_code out_null utf8_ok lines_ok pad blk in
  (code = RES_NULL <-> out_null = true) /\
  (code = RES_OK <-> out_null = false /\ utf8_ok = true /\ forallb (fun b => b) lines_ok = true /\
                     in_unit (f64_of_bits pad) && in_unit (f64_of_bits blk) = true).
Proof. exact start_code_spec. Qed.
Print Assumptions C20_start.
