(** C12 — validation is sound: accepted machines are well-formed on every
    path.  [WF_machine] (Proofs/ValidateSound.v) is stated over real numbers,
    independently of the code: fractions are reals in [0,1]; at least one and
    at most STATE_MAX states; every transition target an existing state or a
    pseudo-state, without duplicates; every probability a real in (0,1]; every
    per-event sum (accumulated in f32, as the sampler does) in (0,1]; every
    distribution within its documented parameter domain. NaN satisfies none
    of these. *)
From Coq Require Import Reals.
From Flocq Require Import Core.Core IEEE754.BinarySingleNaN.
From MB Require Import Model.Framework Model.Validate.
From MB Require Import Proofs.FrameworkInv Proofs.FrameworkTotal Proofs.ValidateSound.
Open Scope N_scope.

Theorem C12_sound : forall m, validate_machine m = true -> WF_machine m.
Proof. exact validate_sound. Qed.
Print Assumptions C12_sound.

(** NaN is never accepted where a fraction or a probability is required *)
Theorem C12_nan_rejected : forall (f : F64) (p : F32),
  (in_unit f = true -> is_nan f = false) /\
  (fgt32 p f32_zero && fle32 p f32_one = true -> is_nan p = false).
Proof.
  intros f p. split; intros H.
  - destruct (in_unit_closed f H) as [Hf _]. destruct f; try discriminate Hf; reflexivity.
  - destruct (prob_halfopen p H) as [Hf _]. destruct p; try discriminate Hf; reflexivity.
Qed.
Print Assumptions C12_nan_rejected.

(** Framework::new applies the same judgement to every machine, and a
    framework built from accepted machines with fractions in [0,1] never
    fails *)
Theorem C12_framework_new : forall c tp t0,
  valid_cfg c = true ->
  (forall m, In m (machines c) -> WF_machine m) /\
  unit_closed (f64_of_bits (fw_max_padding_frac c)) /\
  unit_closed (f64_of_bits (fw_max_blocking_frac c)) /\
  exists s, fnew c tp t0 = Ok s /\ Inv c s.
Proof.
  intros c tp t0 H. pose proof H as H'. unfold valid_cfg in H'.
  apply andb_prop in H'. destruct H' as [H' Hms]. apply andb_prop in H'. destruct H' as [Hp Hb].
  split; [intros m Hm; apply validate_sound; rewrite forallb_forall in Hms; auto|].
  split; [apply in_unit_closed; exact Hp|]. split; [apply in_unit_closed; exact Hb|].
  apply fnew_total. apply valid_cfg_nonempty. exact H.
Qed.
Print Assumptions C12_framework_new.

(** non-vacuity: NaN fraction and NaN probability are rejected, 0.5 accepted *)
Example C12_examples :
  in_unit (f64_of_bits 9221120237041090560) = false /\          (* NaN *)
  in_unit (f64_of_bits 4602678819172646912) = true /\           (* 0.5 *)
  validate_vector 1 [(0, 2143289344)] [] f32_zero = false /\    (* probability NaN *)
  validate_vector 1 [(0, 1065353216)] [] f32_zero = true.       (* probability 1.0 *)
Proof. vm_compute. repeat split. Qed.
