(** C05 — actions are a deterministic function of the inputs, matching the
    stated operational semantics. The executable model (Model/Framework.v) is
    the formal statement of that semantics; the theorems below state its
    structure. The tie to the code is the whole-state differential. *)
From MB Require Import Model.Framework Proofs.FrameworkStructure.

(** a batch is processed event by event, in order, followed by exactly one
    signal round; the returned actions are the filled slots in machine order *)
Theorem C05_batch_fold : forall c tp s evs t,
  trigger_events c tp s evs t =
  (s1 <- foldM (process_event c tp) evs (begin_call s t) ;;
   s2 <- signal_round c tp s1 ;;
   Ok (s2, collect_actions (slots s2))).
Proof. exact trigger_events_unfold. Qed.
Print Assumptions C05_batch_fold.

(** processing a batch ev1 ++ ev2 is processing ev1, then ev2, on the state
    left by ev1 (events in order, no look-ahead) *)
Theorem C05_events_in_order : forall c tp evs1 evs2 s,
  foldM (process_event c tp) (evs1 ++ evs2) s =
  (s1 <- foldM (process_event c tp) evs1 s ;; foldM (process_event c tp) evs2 s1).
Proof. exact foldM_app_process. Qed.
Print Assumptions C05_events_in_order.

(** a global event is delivered to the machines in index order, machine i
    being fully processed (including nested internal events) before i+1 *)
Theorem C05_machines_in_order : forall c tp ev k from s,
  trans_all c tp ev (S k) from s =
  ('(s1, _) <- transition FUEL c tp s from ev ;; trans_all c tp ev k (S from) s1).
Proof. exact trans_all_unfold. Qed.
Print Assumptions C05_machines_in_order.

(** two instances (or an instance and its clone) fed identically stay equal *)
Theorem C05_clone : forall c tp s1 s2 h,
  s1 = s2 -> run c tp s1 h = run c tp s2 h.
Proof. exact run_clone. Qed.
Print Assumptions C05_clone.


(** ** nothing but the inputs and the consumed part of the random stream influences the result

    The random stream is the oracle tape; [pos] is the next position to be
    read. A call reads the tape only between [pos s] and [pos s'], in order
    ([C05_pos_mono]), and its result -- new state and actions -- is the same
    for every tape that agrees on that segment ([C05_tape_local]); a whole
    life from Framework::new depends on the tape only through the prefix it
    consumed ([C05_life]); and even failing outcomes are unaffected by
    anything the tape holds before the current position ([C05_tape_suffix]).
    The model has no other input: no wall clock, no global state. *)
From MB Require Proofs.TapeLocal.

Theorem C05_pos_mono : forall c tp s evs t s' acts,
  trigger_events c tp s evs t = Ok (s', acts) -> (pos s <= pos s')%nat.
Proof. exact TapeLocal.trigger_events_pos_mono. Qed.

Theorem C05_tape_local : forall c tp tp' s evs t s' acts,
  trigger_events c tp s evs t = Ok (s', acts) ->
  TapeLocal.agree tp tp' (pos s) (pos s') ->
  trigger_events c tp' s evs t = Ok (s', acts).
Proof. exact TapeLocal.trigger_events_tape_local. Qed.
Print Assumptions C05_tape_local.

Theorem C05_life : forall c tp tp' t0 h s0 s' outs,
  fnew c tp t0 = Ok s0 -> run c tp s0 h = Ok (s', outs) -> TapeLocal.agree tp tp' 0 (pos s') ->
  fnew c tp' t0 = Ok s0 /\ run c tp' s0 h = Ok (s', outs).
Proof. exact TapeLocal.life_tape_local. Qed.
Print Assumptions C05_life.

Theorem C05_tape_suffix : forall c tp tp' s evs t,
  TapeLocal.agree_from tp tp' (pos s) -> trigger_events c tp' s evs t = trigger_events c tp s evs t.
Proof. exact TapeLocal.trigger_events_tape_suffix. Qed.
Print Assumptions C05_tape_suffix.
