(** Non-vacuity of the whole-run simulator theorems (C15-C18): a concrete run,
    evaluated inside Coq, that returns and contains the events the theorems
    speak about. Client machines: a blocker (NormalSent -> BlockOutgoing after
    1 us for 100 us, fail-closed), a padder (BlockingBegin -> SendPadding with
    bypass after 5 us), a timer (NormalSent -> UpdateTimer 2 us). Trace: the
    client sends at 0 and at 50 us. *)
From MB Require Import Model.Framework Model.Sim.
From MB Require Proofs.SimHistory Proofs.SimConserve.
Import ListNotations.
Open Scope N_scope.

Definition cd (bits : N) : dist := mkdist (Uniform bits bits) 0 0.
Definition d1 := cd 4607182418800017408.     (* 1.0 *)
Definition d2 := cd 4611686018427387904.     (* 2.0 *)
Definition d5 := cd 4617315517961601024.     (* 5.0 *)
Definition d100 := cd 4636737291354636288.   (* 100.0 *)

Definition on (ev : event) (target : N) : list (option (list trans)) :=
  map (fun i => if Nat.eqb i (event_idx ev) then Some [(target, 1065353216)] else None) (seq 0 13).
Definition none13 : list (option (list trans)) := map (fun _ => None) (seq 0 13).

Definition two (ev : event) (a : action) : machine :=
  mkmachine 18446744073709551615 0 18446744073709551615 0
    [mkstate None None None (on ev 1); mkstate (Some a) None None none13].

Definition ex_cfg : cfg :=
  mkcfg [two NormalSent (BlockOutgoing false false d1 d100 None);
         two BlockingBegin (SendPadding true false d5 None);
         two NormalSent (UpdateTimer false d2 None)]
        4607182418800017408 4607182418800017408 stdclock.
Definition ex_none : cfg := mkcfg [] 0 0 stdclock.
Definition ex_args : simargs := mksimargs 0 0 false false false.
Definition ex_run := sim_advanced 200 ex_cfg ex_none (fun _ => 0) (parse_trace [(0, true); (50000, true)]%Z 1000) 1000 None ex_args.

Definition has (p : sev -> bool) (o : outcome (list sev)) : bool :=
  match o with Ok l => existsb p l | _ => false end.
Definition is_kind (k : trigger_event -> bool) (e : sev) := k (se_ev e).

Example sim_run_returns : exists out, ex_run = Ok out /\ length out = 16%nat.
Proof. eexists. split; vm_compute; reflexivity. Qed.

Example sim_run_has_blocking_padding_timer :
  has (is_kind (fun e => match e with TEBlockingBegin 0 => true | _ => false end)) ex_run = true /\
  has (is_kind (fun e => match e with TEBlockingEnd => true | _ => false end)) ex_run = true /\
  has (is_kind (fun e => match e with TEPaddingSent 1 => true | _ => false end)) ex_run = true /\
  has (is_kind (fun e => match e with TETimerBegin 2 => true | _ => false end)) ex_run = true /\
  has (is_kind (fun e => match e with TETimerEnd 2 => true | _ => false end)) ex_run = true /\
  (* the padding's TunnelSent during the fail-closed block carries the bypass flag but is held: it leaves
     only at the expiry; the second normal packet is held as well *)
  has (fun e => is_tunnel_sent (se_ev e) && se_pad e) ex_run = true.
Proof. vm_compute. repeat split. Qed.

Example sim_args_full : SimHistory.full_args ex_args /\ SimConserve.full_args ex_args.
Proof. split; split; reflexivity. Qed.
