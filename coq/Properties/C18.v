(** C18 — the simulator runs each machine's internal timer per the UpdateTimer contract.

    - [C18_update]: after the simulator has applied the actions returned at
      time t, each machine's internal timer is the result of folding the
      contract over them: UpdateTimer sets it to t + duration when replace is
      set, when no timer is running, or when that expiry is later than the
      running one, and leaves it otherwise; Cancel of the internal timer (or
      of all timers) clears it; actions for other machines do not touch it;
    - [C18_begins]: the events queued while applying the actions are exactly
      one TimerBegin (for that machine, at time t) per UpdateTimer that set
      or changed the timer, in action order, and nothing else;
    - [C18_end]: when an internal timer fires it is a timer whose expiry is
      exactly the firing time; the event is TimerEnd for that machine at that
      time; the timer is cleared (once) and nothing else changes;
    - [C18_only_by_firing]: pick_next never alters a timer except by firing it
      (so a cancelled or superseded expiry can no longer fire);
    - [C18_earliest], [C18_not_past]: the firing time is the earliest pending
      expiry, and no event of any returned trace is later than a timer still
      pending after it.
    - [C18_trace]: the property at the level of whole runs. For every run on
      a parsed trace that records all events, the returned trace is the event
      column of a history H (each processed event with the actions returned for
      it) such that every TimerBegin for machine m follows an UpdateTimer for m
      returned on that side at that same instant, and every TimerEnd for m is
      reported exactly at issue time + duration of an earlier UpdateTimer for m
      on that side, every later timer action for m before it (an UpdateTimer or
      a Cancel of the internal timer) having been issued no earlier than that
      expiry, or being a non-replacing update that did not reach beyond it
      (never for a cancelled or superseded timer).
    - [C18_live]: the converse at the level of whole runs, for configurations
      in which no BlockOutgoing action allows bypass. With the machine's timer
      REPLAYED from the history by the contract ([SimTimerLive.treplay]: an
      UpdateTimer sets it if replace, none running, or a later expiry; a
      Cancel of the internal timer or of all timers, and a reported TimerEnd,
      clear it): (a) whenever an UpdateTimer sets or changes the timer and
      simulated time moves on, a TimerBegin for that machine at that instant
      is reported in between; (b) whenever the replayed timer has expiry e and
      simulated time moves past e, a TimerEnd at exactly e is reported in
      between, or a timer action for that machine (an update or a cancel) was
      returned no later than e; (c) two TimerEnd of a machine have an
      UpdateTimer for it between them (at most once per timer). Plus the
      stronger form of (a) that judges the timer after the event of the record
      itself (a zero-duration update returned for the machine's own TimerEnd).
      [C18_live_partial] is the same for EVERY configuration under the
      run-level premise that no returned action is a bypass-allowing block.
      With bypassable blocking the statements with this literal replay are
      REFUTED ([C18_literal_replay_refuted], a real run): behind bypassable
      blocking a due bypass packet can be released in the very instant a timer
      fired, after the firing and before the queued TimerEnd; an UpdateTimer
      returned for that packet re-arms the timer, and the TimerEnd of the
      PREVIOUS timer is reported after the re-arm in that same instant, so a
      replay that lets any TimerEnd clear the timer loses the new one. Every
      TimerEnd there is still the expiry of a timer set by the rule
      ([C18_trace]); the failure is one of attribution within an instant, not
      a timer ending at a wrong time.
    - [C18_live_gen]: the converse for EVERY run on a parsed trace (no
      hypothesis on blocking), with the attribution-aware replay
      [SimTimerLiveGen.treplay']: a reported TimerEnd at time t clears the
      replayed timer only if the replayed expiry is t; a TimerEnd reported
      while the replay holds another expiry is the end of the PREVIOUS timer
      (it fired before a re-arm of that same instant) and leaves it. Then
      (a), (a+) an UpdateTimer that sets or changes the timer is followed by a
      TimerBegin at that instant (the one excluded corner: a zero-duration,
      non-replacing update at an instant at which a TimerEnd of that machine
      was already reported while the replay says not running); (b) a replayed
      expiry that simulated time moves past is followed by a TimerEnd exactly
      there, unless a timer action for that machine came first; (c) every
      TimerEnd is attributed to an earlier UpdateTimer of that machine and
      side with exactly that expiry, by a STRICTLY INCREASING assignment:
      reported once per timer, in order.
    (Step level: [C18_begins] with [C18_not_past].) *)
From MB Require Import Model.Framework Model.Sim.
From MB Require Import Proofs.SimReach.
From MB Require Proofs.SimBlocking Proofs.SimTimers Proofs.SimTrace Proofs.SimHistory Proofs.SimTimerTrace Proofs.SimTimerLive Proofs.SimTimerLiveGen.
Import ListNotations SimTimers.
Open Scope N_scope.

Theorem C18_update : forall acts sd sq nowt ic sd' sq',
  apply_actions acts sd sq nowt ic = Ok (sd', sq') ->
  length (s_timers sd') = length (s_timers sd) /\
  (forall mi cur, nth_error (s_timers sd) mi = Some cur ->
                  nth_error (s_timers sd') mi = Some (timer_after acts nowt mi cur)).
Proof.
  intros acts sd sq nowt ic sd' sq' H.
  destruct (apply_actions_spec _ _ _ _ _ _ _ H) as (_ & H2 & _ & H4 & _). auto.
Qed.
Print Assumptions C18_update.

Theorem C18_begins : forall acts sd sq nowt ic sd' sq',
  apply_actions acts sd sq nowt ic = Ok (sd', sq') ->
  sq' = fold_left sq_push (timer_begins acts nowt ic (s_timers sd)) sq.
Proof.
  intros acts sd sq nowt ic sd' sq' H.
  destruct (apply_actions_spec _ _ _ _ _ _ _ H) as (_ & _ & _ & _ & H5 & _). exact H5.
Qed.
Print Assumptions C18_begins.

Theorem C18_end : forall c s target c' s' e,
  do_internal_timer c s target = Ok (c', s', e) ->
  exists (is_client : bool) (mi : nat),
    let sd := if is_client then c else s in
    let sd' := if is_client then c' else s' in
    nth_error (s_timers sd) mi = Some (Some target) /\
    s_timers sd' = upd (s_timers sd) mi None /\
    (if is_client then s' = s else c' = c) /\
    s_sched sd' = s_sched sd /\ s_fw sd' = s_fw sd /\ s_buntil sd' = s_buntil sd /\ s_bbypass sd' = s_bbypass sd /\
    e = mksev (TETimerEnd (N.of_nat mi)) target is_client false false false.
Proof. exact do_internal_timer_spec. Qed.
Print Assumptions C18_end.

Theorem C18_only_by_firing : forall fuel st nowt r st',
  pick_next fuel st nowt = Ok (r, st') ->
  (forall mi x, nth_error (s_timers (m_c st')) mi = Some (Some x) -> nth_error (s_timers (m_c st)) mi = Some (Some x)) /\
  (forall mi x, nth_error (s_timers (m_s st')) mi = Some (Some x) -> nth_error (s_timers (m_s st)) mi = Some (Some x)).
Proof.
  intros fuel st nowt r st' H. destruct (pick_next_slots _ _ _ _ _ H) as (_ & _ & H3 & H4). auto.
Qed.

Theorem C18_earliest : forall tc ts nowt it, peek_timers tc ts nowt = it ->
  it <= DMAX /\
  (it < DMAX -> In (nowt + Z.of_N it)%Z (timer_times tc ++ timer_times ts)) /\
  (forall t, In t (timer_times tc ++ timer_times ts) -> (nowt <= t)%Z -> it <= since t nowt).
Proof. exact peek_timers_spec. Qed.

Theorem C18_not_past : forall cc sc tp fuel sq delay pps args out,
  SimBlocking.sq_inv sq ->
  sim_advanced fuel cc sc tp sq delay pps args = Ok out ->
  forall e, In e out ->
  exists st nowt st1 st3,
    iter cc sc tp st nowt e st1 st3 /\
    forall t, In t (pending st1) -> (nowt <= t)%Z -> (se_time e <= t)%Z.
Proof. exact SimTrace.not_past_trace. Qed.
Print Assumptions C18_not_past.

Theorem C18_trace : forall fuel cc sc tp tr delay pps args out,
  SimHistory.full_args args ->
  sim_advanced fuel cc sc tp (parse_trace tr delay) delay pps args = Ok out ->
  exists H : list SimHistory.hrec, out = map SimHistory.h_ev H /\
    (forall k rk m, nth_error H k = Some rk -> se_ev (SimHistory.h_ev rk) = TETimerBegin m ->
       exists j rj dur rp, (j < k)%nat /\ nth_error H j = Some rj /\
         se_client (SimHistory.h_ev rj) = se_client (SimHistory.h_ev rk) /\
         In (TUpdateTimer m dur rp) (SimHistory.h_acts rj) /\
         se_time (SimHistory.h_ev rj) = se_time (SimHistory.h_ev rk)) /\
    (forall k rk m, nth_error H k = Some rk -> se_ev (SimHistory.h_ev rk) = TETimerEnd m ->
       exists j rj dur rp, (j < k)%nat /\ nth_error H j = Some rj /\
         se_client (SimHistory.h_ev rj) = se_client (SimHistory.h_ev rk) /\
         In (TUpdateTimer m dur rp) (SimHistory.h_acts rj) /\
         se_time (SimHistory.h_ev rk) = (se_time (SimHistory.h_ev rj) + Z.of_N dur)%Z /\
         (forall j' rj' a', (j < j' < k)%nat -> nth_error H j' = Some rj' ->
            se_client (SimHistory.h_ev rj') = se_client (SimHistory.h_ev rk) ->
            In a' (SimHistory.h_acts rj') -> SimTimerTrace.is_timer_for m a' = true ->
            (se_time (SimHistory.h_ev rk) <= se_time (SimHistory.h_ev rj'))%Z \/
            (exists d', a' = TUpdateTimer m d' false /\
                        (se_time (SimHistory.h_ev rj') + Z.of_N d' <= se_time (SimHistory.h_ev rk))%Z))).
Proof.
  intros fuel cc sc tp tr delay pps args out Hf Hrun.
  destruct (SimHistory.sim_advanced_history _ _ _ _ _ _ _ _ _ Hf Hrun) as (st0 & t0 & H & Hi & Hl & ->).
  exists H. split; [reflexivity|]. split.
  - exact (SimTimerTrace.timer_begin_sound_parsed fuel cc sc tp args st0 t0 H tr delay delay pps Hi Hl).
  - exact (SimTimerTrace.timer_end_sound_parsed fuel cc sc tp args st0 t0 H tr delay delay pps Hi Hl).
Qed.
Print Assumptions C18_trace.

Theorem C18_live : forall fuel cc sc tp tr delay pps args out,
  SimTimerLive.cfg_no_bypass_block cc -> SimTimerLive.cfg_no_bypass_block sc -> SimHistory.full_args args ->
  sim_advanced fuel cc sc tp (parse_trace tr delay) delay pps args = Ok out ->
  exists H : list SimHistory.hrec, out = map SimHistory.h_ev H /\
    SimTimerLive.live_statements H /\ SimTimerLive.live_begin_strong H.
Proof. exact SimTimerLive.timers_live. Qed.
Print Assumptions C18_live.

Theorem C18_live_partial : forall fuel cc sc tp tr delay pps args out,
  SimHistory.full_args args ->
  sim_advanced fuel cc sc tp (parse_trace tr delay) delay pps args = Ok out ->
  exists H : list SimHistory.hrec, out = map SimHistory.h_ev H /\
    (SimTimerLive.no_bypass_block H -> SimTimerLive.live_statements H /\ SimTimerLive.live_begin_strong H).
Proof. exact SimTimerLive.timers_live_partial. Qed.
Print Assumptions C18_live_partial.

(** what the three statements are (pinned here so that they cannot be weakened silently) *)
Lemma C18_live_statements_unfold : forall H, SimTimerLive.live_statements H <->
  (forall j rj m dur rp k' rk', nth_error H j = Some rj -> In (TUpdateTimer m dur rp) (SimHistory.h_acts rj) ->
     let X := se_client (SimHistory.h_ev rj) in let t := se_time (SimHistory.h_ev rj) in
     (rp = true \/ SimTimerLive.treplay X m H j = None \/
      (exists u, SimTimerLive.treplay X m H j = Some u /\ (u < t + Z.of_N dur)%Z)) ->
     (j < k')%nat -> nth_error H k' = Some rk' -> (t < se_time (SimHistory.h_ev rk'))%Z ->
     exists k rk, (j < k < k')%nat /\ nth_error H k = Some rk /\ se_ev (SimHistory.h_ev rk) = TETimerBegin m /\
                  se_client (SimHistory.h_ev rk) = X /\ se_time (SimHistory.h_ev rk) = t) /\
  (forall j m e k' rk' X, (j <= length H)%nat -> SimTimerLive.treplay X m H j = Some e ->
     (j <= k')%nat -> nth_error H k' = Some rk' -> (e < se_time (SimHistory.h_ev rk'))%Z ->
     (exists k rk, (j <= k < k')%nat /\ nth_error H k = Some rk /\ se_ev (SimHistory.h_ev rk) = TETimerEnd m /\
                   se_client (SimHistory.h_ev rk) = X /\ se_time (SimHistory.h_ev rk) = e) \/
     (exists j' rj' a', (j <= j' < k')%nat /\ nth_error H j' = Some rj' /\ se_client (SimHistory.h_ev rj') = X /\
                   In a' (SimHistory.h_acts rj') /\ SimTimerTrace.is_timer_for m a' = true /\
                   (se_time (SimHistory.h_ev rj') <= e)%Z)) /\
  (forall k1 k2 r1 r2 m, (k1 < k2)%nat -> nth_error H k1 = Some r1 -> nth_error H k2 = Some r2 ->
     se_ev (SimHistory.h_ev r1) = TETimerEnd m -> se_ev (SimHistory.h_ev r2) = TETimerEnd m ->
     se_client (SimHistory.h_ev r1) = se_client (SimHistory.h_ev r2) ->
     exists j rj dur rp, (k1 <= j < k2)%nat /\ nth_error H j = Some rj /\
        se_client (SimHistory.h_ev rj) = se_client (SimHistory.h_ev r1) /\
        In (TUpdateTimer m dur rp) (SimHistory.h_acts rj)).
Proof. intros H. reflexivity. Qed.

(** with bypassable blocking the literal replay is refuted by a real run on a parsed trace *)
Lemma C18_literal_replay_refuted :
  exists cc sc tp tr delay pps args (H : list SimHistory.hrec),
    SimHistory.full_args args /\
    sim_advanced 300 cc sc tp (parse_trace tr delay) delay pps args = Ok (map SimHistory.h_ev H) /\
    ~ SimTimerLive.no_bypass_block H /\ ~ SimTimerLive.live_statements H.
Proof.
  destruct SimTimerLive.lvA_run as (A & B & _).
  do 8 eexists. split; [exact A|]. split; [exact B|].
  split; [exact SimTimerLive.lvA_bypass|exact SimTimerLive.timers_live_counterexample].
Qed.

Theorem C18_live_gen : forall fuel cc sc tp tr delay pps args out,
  SimHistory.full_args args ->
  sim_advanced fuel cc sc tp (parse_trace tr delay) delay pps args = Ok out ->
  exists H : list SimHistory.hrec, out = map SimHistory.h_ev H /\ SimTimerLiveGen.live_gen H.
Proof. exact SimTimerLiveGen.timers_live_gen. Qed.
Print Assumptions C18_live_gen.

(** the four statements, pinned *)
Lemma C18_live_gen_unfold : forall H, SimTimerLiveGen.live_gen H <->
  (forall j rj m dur rp k' rk',
     nth_error H j = Some rj -> In (TUpdateTimer m dur rp) (SimHistory.h_acts rj) ->
     let X := se_client (SimHistory.h_ev rj) in let t := se_time (SimHistory.h_ev rj) in
     (rp = true \/
      (SimTimerLiveGen.treplay' X m H j = None /\ (0 < dur \/ ~ SimTimerLiveGen.stale_before H j X m t)) \/
      (exists u, SimTimerLiveGen.treplay' X m H j = Some u /\ (u < t + Z.of_N dur)%Z)) ->
     (j < k')%nat -> nth_error H k' = Some rk' -> (t < se_time (SimHistory.h_ev rk'))%Z ->
     exists k rk, (j < k < k')%nat /\ nth_error H k = Some rk /\ se_ev (SimHistory.h_ev rk) = TETimerBegin m /\
                  se_client (SimHistory.h_ev rk) = X /\ se_time (SimHistory.h_ev rk) = t) /\
  (forall j rj m dur rp k' rk',
     nth_error H j = Some rj -> In (TUpdateTimer m dur rp) (SimHistory.h_acts rj) ->
     let X := se_client (SimHistory.h_ev rj) in let t := se_time (SimHistory.h_ev rj) in
     let cur := SimTimerLiveGen.after_event' (se_ev (SimHistory.h_ev rj)) m t (SimTimerLiveGen.treplay' X m H j) in
     (rp = true \/
      (cur = None /\ (0 < dur \/ ~ SimTimerLiveGen.stale_before H (S j) X m t)) \/
      (exists u, cur = Some u /\ (u < t + Z.of_N dur)%Z)) ->
     (j < k')%nat -> nth_error H k' = Some rk' -> (t < se_time (SimHistory.h_ev rk'))%Z ->
     exists k rk, (j < k < k')%nat /\ nth_error H k = Some rk /\ se_ev (SimHistory.h_ev rk) = TETimerBegin m /\
                  se_client (SimHistory.h_ev rk) = X /\ se_time (SimHistory.h_ev rk) = t) /\
  (forall j m e k' rk' X,
     (j <= length H)%nat -> SimTimerLiveGen.treplay' X m H j = Some e ->
     (j <= k')%nat -> nth_error H k' = Some rk' -> (e < se_time (SimHistory.h_ev rk'))%Z ->
     (exists k rk, (j <= k < k')%nat /\ nth_error H k = Some rk /\ se_ev (SimHistory.h_ev rk) = TETimerEnd m /\
                   se_client (SimHistory.h_ev rk) = X /\ se_time (SimHistory.h_ev rk) = e) \/
     (exists j' rj' a', (j <= j' < k')%nat /\ nth_error H j' = Some rj' /\ se_client (SimHistory.h_ev rj') = X /\
                   In a' (SimHistory.h_acts rj') /\ SimTimerTrace.is_timer_for m a' = true /\
                   (se_time (SimHistory.h_ev rj') <= e)%Z)) /\
  (forall X m, exists A : nat -> nat,
     (forall k rk, nth_error H k = Some rk -> se_ev (SimHistory.h_ev rk) = TETimerEnd m ->
        se_client (SimHistory.h_ev rk) = X ->
        (A k < k)%nat /\
        exists rj dur rp, nth_error H (A k) = Some rj /\ se_client (SimHistory.h_ev rj) = X /\
          In (TUpdateTimer m dur rp) (SimHistory.h_acts rj) /\
          se_time (SimHistory.h_ev rk) = (se_time (SimHistory.h_ev rj) + Z.of_N dur)%Z) /\
     (forall k1 k2 r1 r2, (k1 < k2)%nat -> nth_error H k1 = Some r1 -> nth_error H k2 = Some r2 ->
        se_ev (SimHistory.h_ev r1) = TETimerEnd m -> se_client (SimHistory.h_ev r1) = X ->
        se_ev (SimHistory.h_ev r2) = TETimerEnd m -> se_client (SimHistory.h_ev r2) = X -> (A k1 < A k2)%nat)).
Proof. intros H. reflexivity. Qed.
