(** C08 — counters saturate and raise CounterZero exactly on reaching zero
    from non-zero.

    [C08_update]     the functional specification of one counter update: both
                     counters change by their operation with the value 1, a
                     sampled value, or the OTHER counter's value from before
                     the transition; CounterZero is raised exactly when a
                     counter goes from non-zero to zero and that counter of
                     that machine has not yet raised one in this call; it is
                     delivered before the entered state's action may be
                     scheduled, and [allow] tells the caller whether the
                     CounterZero transition already scheduled an action (which
                     then takes precedence).
    [C08_saturating] the arithmetic never leaves [0, 2^64-1]: increments
                     saturate at the maximum, decrements at zero.
    [C08_once]       in any call, the number of CounterZero events raised for
                     machine i plus its still unset zeroed-once flags is at most
                     two: every CounterZero consumes a flag, so at most one per
                     counter per machine per call (the flags are per machine). *)
From MB Require Import Model.Framework.
From MB Require Import Proofs.FrameworkInv Proofs.Limits Proofs.Counters.
From MB Require Proofs.FrameworkCorollaries.
Open Scope N_scope.

Theorem C08_update : forall trans c tp s mi s' al ch r m st,
  nth_error (rts s) mi = Some r -> nth_error (machines c) mi = Some m ->
  nthN (states m) (cur r) = Some st ->
  update_counter trans c tp s mi = Ok (s', al, ch) ->
  let '(va, p1) := match sctr_a st with Some cn => ctr_change tp (pos s) cn (cb r) | None => (0, pos s) end in
  let '(vb, p2) := match sctr_b st with Some cn => ctr_change tp p1 cn (ca r) | None => (0, p1) end in
  let a' := ctr_new (sctr_a st) (ca r) va in
  let b' := ctr_new (sctr_b st) (cb r) vb in
  let zA := ctr_zeroed (sctr_a st) (ca r) a' (za r) in
  let zB := ctr_zeroed (sctr_b st) (cb r) b' (zb r) in
  let r1 := mkmrt (cur r) (lim r) (psent r) (nsent r) (bdur r) a' b' (za r || zA) (zb r || zB) in
  let s1 := set_pos (set_rt s mi r1) p2 in
  if zA || zB then
    exists s2, trans (add_log s1 (LOG_CZERO, N.of_nat mi, 0)) mi CounterZero = Ok (s2, ch) /\ s' = s2 /\
      al = match nth_error (slots s2) mi with Some None => true | _ => false end
  else s' = s1 /\ al = true /\ ch = false.
Proof. exact update_counter_spec. Qed.
Print Assumptions C08_update.

Theorem C08_saturating : forall op old chg,
  old <= U64_MAX -> chg <= U64_MAX ->
  apply_op op old chg <= U64_MAX /\
  apply_op op old chg =
  match op with
  | Increment => if old + chg <=? U64_MAX then old + chg else U64_MAX
  | Decrement => if chg <=? old then old - chg else 0
  | CSet => chg
  end.
Proof. intros; split; [apply apply_op_u64; assumption|apply apply_op_spec]. Qed.
Print Assumptions C08_saturating.

Theorem C08_once : forall c tp i s evs t s' acts,
  trigger_events c tp s evs t = Ok (s', acts) ->
  czeros i (flog s') + zc s' i <= 2.
Proof. exact call_czeros. Qed.
Print Assumptions C08_once.

(** non-vacuity of the copy rule: counter B copies A's value from before the
    update while A is being set *)
Example C08_copy_uses_old_value :
  ctr_new (Some (mkcounter CSet None true)) 5 7 = 7 /\
  ctr_zeroed (Some (mkcounter Decrement None false)) 1 0 false = true /\
  ctr_zeroed (Some (mkcounter Decrement None false)) 1 0 true = false /\
  ctr_zeroed (Some (mkcounter Decrement None false)) 0 0 false = false.
Proof. repeat split. Qed.

(** every call of every history from [fnew] (the log [flog] is the log of that call alone) *)
Theorem C08_once_history : forall c tp t0 s0 h s outs k evs t,
  fnew c tp t0 = Ok s0 -> run c tp s0 h = Ok (s, outs) -> nth_error h k = Some (evs, t) ->
  exists sb sa acts, run c tp s0 (firstn k h) = Ok (sb, firstn k outs) /\
    trigger_events c tp sb evs t = Ok (sa, acts) /\ nth_error outs k = Some acts /\
    forall i, czeros i (flog sa) + zc sa i <= 2.
Proof. exact FrameworkCorollaries.czero_every_call_nth. Qed.
Print Assumptions C08_once_history.
