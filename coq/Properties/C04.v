(** C04 — output contract: at most one well-formed action per machine per
    call; END is absorbing.  Holds for every configuration, state, batch,
    time value and random tape (so for every oracle value of every
    distribution, NaN and infinities included). *)
From Coq Require Import Sorting.Sorted.
From MB Require Import Model.Framework Model.Validate.
From MB Require Import Proofs.FrameworkStructure Proofs.FrameworkInv Proofs.FrameworkTotal Proofs.FrameworkSlots.
Open Scope N_scope.

(** (a)-(c): the returned actions name pairwise distinct existing machines in
    increasing index order; the action for machine i has the kind and flags of
    the action of one of machine i's states *)
Theorem C04_contract : forall c tp s evs t s' acts,
  Inv c s ->
  trigger_events c tp s evs t = Ok (s', acts) ->
  (length acts <= length (machines c))%nat /\
  (length (machines c) = 0%nat -> acts = []) /\
  NoDup (map taction_machine acts) /\
  forall a, In a acts ->
    taction_machine a < N.of_nat (length (machines c)) /\
    exists m st, nth_error (machines c) (N.to_nat (taction_machine a)) = Some m /\
                 In st (states m) /\ action_shape (saction st) a.
Proof.
  intros c tp s evs t s' acts HI H.
  destruct (output_contract c tp s evs t s' acts H) as (H1 & H2 & H3).
  assert (Hlen : length (slots s') = length (machines c)).
  { destruct (trigger_events_G c tp (fun a b => length (slots b) = length (slots a)))
      with (s := s) (evs := evs) (t := t) (s' := s') (acts := acts) as [HG _];
      try exact H; intros; try reflexivity; try congruence.
    - eapply (transition_R c tp (fun _ a b => length (slots b) = length (slots a))); eauto;
        intros; try reflexivity; try congruence. cbn. apply ListFacts.upd_length.
    - eapply (decrement_limit_R c tp (fun _ a b => length (slots b) = length (slots a))); eauto;
        intros; try reflexivity; try congruence. cbn. apply ListFacts.upd_length.
    - rewrite HG. cbn. rewrite map_length. apply (inv_slots _ _ HI). }
  rewrite Hlen in *.
  split; [exact H1|]. split; [intros Hz; rewrite Hz in H1; destruct acts; [reflexivity|cbn in H1; lia]|].
  split; [apply StronglySorted_lt_NoDup; exact H2|].
  intros a Ha. destruct (H3 a Ha) as (Hlt & _ & Hok). split; [exact Hlt|].
  destruct Hok as (_ & _ & m & st & Hm & Hst & Hsh). eauto.
Qed.
Print Assumptions C04_contract.

(** (d): with the microsecond clock, every timeout and duration is at most
    24 h = 86_400_000_000 us, whatever the sampler returned *)
Definition ta_le_day (a : taction) : Prop :=
  match a with
  | TCancel _ _ => True
  | TSendPadding _ t _ _ => t <= DAY_US
  | TBlockOutgoing _ t d _ _ => t <= DAY_US /\ d <= DAY_US
  | TUpdateTimer _ d _ => d <= DAY_US
  end.

Theorem C04_one_day : forall c tp s evs t s' acts,
  clk c = vclock ->
  trigger_events c tp s evs t = Ok (s', acts) ->
  forall a, In a acts -> ta_le_day a.
Proof.
  intros c tp s evs t s' acts Hc H a Ha.
  destruct (output_contract c tp s evs t s' acts H) as (_ & _ & H3).
  destruct (H3 a Ha) as (_ & _ & (_ & Hd & _)).
  destruct a as [m tm|m tm b r|m tm d b r|m d r]; cbn [ta_le_day ta_durations] in *.
  - exact I.
  - eapply day_sample_vclock_le; eauto.
  - destruct Hd as [Hd1 Hd2]. split; eapply day_sample_vclock_le; eauto.
  - eapply day_sample_vclock_le; eauto.
Qed.
Print Assumptions C04_one_day.

(** (e): a machine in its end state stays there and yields no action *)
Theorem C04_end_absorbing_call : forall c tp s evs t s' acts i r,
  Inv c s ->
  nth_error (rts s) i = Some r -> cur r = STATE_END ->
  trigger_events c tp s evs t = Ok (s', acts) ->
  (exists r', nth_error (rts s') i = Some r' /\ cur r' = STATE_END) /\
  forall a, In a acts -> taction_machine a <> N.of_nat i.
Proof.
  intros c tp s evs t s' acts i r HI Hr Hc H.
  assert (Hl : (i < length (slots s))%nat).
  { rewrite (inv_slots _ _ HI), <- (inv_rts _ _ HI). apply nth_error_Some. congruence. }
  destruct (trigger_events_end c tp i s evs t s' acts r Hr Hc Hl H) as [HE Hs].
  split; [exact HE|].
  intros a Ha Hm. destruct (output_contract c tp s evs t s' acts H) as (_ & _ & H3).
  destruct (H3 a Ha) as (_ & Hn & _). rewrite Hm, Nat2N.id in Hn. congruence.
Qed.
Print Assumptions C04_end_absorbing_call.

(** ... hence in every later call of any history *)
Theorem C04_end_absorbing : forall c tp h s s' outs i r,
  valid_cfg c = true -> clock_total (clk c) -> Inv c s ->
  nth_error (rts s) i = Some r -> cur r = STATE_END ->
  run c tp s h = Ok (s', outs) ->
  forall acts a, In acts outs -> In a acts -> taction_machine a <> N.of_nat i.
Proof.
  intros c tp h; induction h as [|[evs t] h IH]; intros s s' outs i r Hv Hk HI Hr Hc H acts a Hacts Ha;
    cbn [run] in H.
  - inversion H; subst. inversion Hacts.
  - destruct (trigger_events c tp s evs t) as [[s1 acts1]| |] eqn:E1; cbn [bind] in H; try discriminate.
    destruct (run c tp s1 h) as [[s2 rest]| |] eqn:E2; cbn [bind] in H; try discriminate.
    inversion H; subst.
    destruct (C04_end_absorbing_call c tp s evs t s1 acts1 i r HI Hr Hc E1) as [(r1 & Hr1 & Hc1) Hno].
    destruct Hacts as [<-|Hin]; [exact (Hno a Ha)|].
    assert (HI1 : Inv c s1).
    { destruct (trigger_events_total c tp (valid_cfg_machines_ok c Hv) Hk s evs t HI) as (sx & ax & Ex & HIx & _).
      rewrite E1 in Ex. inversion Ex; subst. exact HIx. }
    exact (IH s1 s' rest i r1 Hv Hk HI1 Hr1 Hc1 E2 acts a Hin Ha).
Qed.
Print Assumptions C04_end_absorbing.
