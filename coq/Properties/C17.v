(** C17 — the simulator executes action timers exactly as scheduled by the framework.

    - [C17_slot]: after the simulator has applied the actions a framework
      returned at time t, each machine's action-timer slot holds the LAST
      SendPadding/BlockOutgoing action returned for that machine with due time
      t + timeout, or nothing if a Cancel of the action timer (or of all
      timers) came after it, and is unchanged if no action named the machine
      (a newer action or a Cancel supersedes the pending one);
    - [C17_fire]: when a scheduled action fires, it is a slot entry whose due
      time is exactly the firing time; the PaddingSent / BlockingBegin event
      carries that time, that machine and the action's flags; the slot is
      cleared (it fires once) and nothing else changes;
    - [C17_only_by_firing]: pick_next never alters a slot except by firing it;
    - [C17_earliest]: the firing time is the earliest pending due time;
    - [C17_not_past]: for every event of every returned trace, no action timer
      (or internal timer) that is still pending after the event was picked
      and was not already overdue is earlier than the event: an action that
      is not superseded fires before simulated time moves past it.
    PARTIAL: these are contracts of each step of every run (the last one for
    every event of every trace); the single trace-level sentence "every
    PaddingSent is caused by the most recent action" is decided on generated
    runs by the monitor, which replays the actions through fresh frameworks. *)
From MB Require Import Model.Framework Model.Sim.
From MB Require Import Proofs.SimReach.
From MB Require Proofs.SimBlocking Proofs.SimTimers Proofs.SimTrace.
Import ListNotations SimTimers.
Open Scope N_scope.

Theorem C17_slot : forall acts sd sq nowt ic sd' sq',
  apply_actions acts sd sq nowt ic = Ok (sd', sq') ->
  length (s_sched sd') = length (s_sched sd) /\
  (forall mi cur, nth_error (s_sched sd) mi = Some cur ->
                  nth_error (s_sched sd') mi = Some (sched_after acts nowt mi cur)) /\
  s_fw sd' = s_fw sd /\ s_buntil sd' = s_buntil sd /\ s_bbypass sd' = s_bbypass sd.
Proof.
  intros acts sd sq nowt ic sd' sq' H.
  destruct (apply_actions_spec _ _ _ _ _ _ _ H) as (H1 & _ & H3 & _ & _ & H6 & H7 & H8). auto.
Qed.
Print Assumptions C17_slot.

Theorem C17_fire : forall c s target c' s' e,
  do_scheduled_action c s target = Ok (c', s', e) ->
  exists (is_client : bool) (mi : nat) (a : taction),
    let sd := if is_client then c else s in
    let sd' := if is_client then c' else s' in
    nth_error (s_sched sd) mi = Some (Some (a, target)) /\
    s_sched sd' = upd (s_sched sd) mi None /\
    (if is_client then s' = s else c' = c) /\
    s_timers sd' = s_timers sd /\ s_fw sd' = s_fw sd /\
    se_time e = target /\ se_client e = is_client /\
    match a with
    | TSendPadding m _ by_ rp => se_ev e = TEPaddingSent m /\ se_pad e = true /\ se_bypass e = by_ /\ se_replace e = rp
                                 /\ s_buntil sd' = s_buntil sd /\ s_bbypass sd' = s_bbypass sd
    | TBlockOutgoing m _ _ _ _ => se_ev e = TEBlockingBegin m /\ se_pad e = false
    | _ => False
    end.
Proof. exact do_scheduled_action_spec. Qed.
Print Assumptions C17_fire.

Theorem C17_only_by_firing : forall fuel st nowt r st',
  pick_next fuel st nowt = Ok (r, st') ->
  (forall mi x, nth_error (s_sched (m_c st')) mi = Some (Some x) -> nth_error (s_sched (m_c st)) mi = Some (Some x)) /\
  (forall mi x, nth_error (s_sched (m_s st')) mi = Some (Some x) -> nth_error (s_sched (m_s st)) mi = Some (Some x)).
Proof.
  intros fuel st nowt r st' H. destruct (pick_next_slots _ _ _ _ _ H) as (H1 & H2 & _). auto.
Qed.

Theorem C17_earliest : forall sc ss nowt sa, peek_sched sc ss nowt = sa ->
  sa <= DMAX /\
  (sa < DMAX -> In (nowt + Z.of_N sa)%Z (due_times sc ++ due_times ss)) /\
  (forall t, In t (due_times sc ++ due_times ss) -> (nowt <= t)%Z -> sa <= since t nowt).
Proof. exact peek_sched_spec. Qed.

Theorem C17_not_past : forall cc sc tp fuel sq delay pps args out,
  SimBlocking.sq_inv sq ->
  sim_advanced fuel cc sc tp sq delay pps args = Ok out ->
  forall e, In e out ->
  exists st nowt st1 st3,
    iter cc sc tp st nowt e st1 st3 /\
    forall t, In t (pending st1) -> (nowt <= t)%Z -> (se_time e <= t)%Z.
Proof. exact SimTrace.not_past_trace. Qed.
Print Assumptions C17_not_past.
