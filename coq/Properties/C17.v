(** C17 — the simulator executes action timers exactly as scheduled by the framework.

    - [C17_slot]: after the simulator has applied the actions a framework
      returned at time t, each machine's action-timer slot holds the LAST
      SendPadding/BlockOutgoing action returned for that machine with due time
      t + timeout, or nothing if a Cancel of the action timer (or of all
      timers) came after it, and is unchanged if no action named the machine
      (a newer action or a Cancel supersedes the pending one);
    - [C17_fire]: when a scheduled action fires, it is a slot entry whose due
      time is exactly the firing time; the PaddingSent / BlockingBegin event
      carries that time, that machine and the action's flags; the slot is
      cleared (it fires once) and nothing else changes;
    - [C17_only_by_firing]: pick_next never alters a slot except by firing it;
    - [C17_earliest]: the firing time is the earliest pending due time;
    - [C17_not_past]: for every event of every returned trace, no action timer
      (or internal timer) that is still pending after the event was picked
      and was not already overdue is earlier than the event: an action that
      is not superseded fires before simulated time moves past it.
    - [C17_trace]: the property at the level of whole runs. For every run on
      a parsed trace that records all events, the returned trace is the event
      column of a history H (each processed event with the actions its side's
      framework returned for it) such that every PaddingSent / BlockingBegin
      for machine m at position k is caused by an earlier record j of the same
      side containing a SendPadding / BlockOutgoing action a for m: it happens
      exactly at issue time + timeout, carries the action's flags, and every
      later action-timer action for m on that side before k (a newer action
      or a Cancel) was issued no earlier than the completion time, i.e. the
      action had not been superseded before it was due; and the assignment
      k |-> j is injective: every action fires at most once.
    - [C17_fires_when_due]: the converse at the level of whole runs, with the
      same history and cause assignment: an action (SendPadding or
      BlockOutgoing for machine m, returned in record j) whose due time
      (issue time + timeout) simulated time has moved past either FIRED --
      its completion is reported between, on that side, exactly at the due
      time, and is the one the cause assignment maps to j -- or was
      SUPERSEDED: a newer action-timer action for m (a SendPadding, a
      BlockOutgoing, a Cancel of the action timer or of all timers) was
      returned on that side no later than the due time. No due action is
      dropped silently. (Step level: [C17_not_past] with [C17_slot].) *)
From MB Require Import Model.Framework Model.Sim.
From MB Require Import Proofs.SimReach.
From MB Require Proofs.SimBlocking Proofs.SimTimers Proofs.SimTrace Proofs.SimHistory Proofs.SimActionTrace Proofs.SimActionLive.
Import ListNotations SimTimers.
Open Scope N_scope.

Theorem C17_slot : forall acts sd sq nowt ic sd' sq',
  apply_actions acts sd sq nowt ic = Ok (sd', sq') ->
  length (s_sched sd') = length (s_sched sd) /\
  (forall mi cur, nth_error (s_sched sd) mi = Some cur ->
                  nth_error (s_sched sd') mi = Some (sched_after acts nowt mi cur)) /\
  s_fw sd' = s_fw sd /\ s_buntil sd' = s_buntil sd /\ s_bbypass sd' = s_bbypass sd.
Proof.
  intros acts sd sq nowt ic sd' sq' H.
  destruct (apply_actions_spec _ _ _ _ _ _ _ H) as (H1 & _ & H3 & _ & _ & H6 & H7 & H8). auto.
Qed.
Print Assumptions C17_slot.

Theorem C17_fire : forall c s target c' s' e,
  do_scheduled_action c s target = Ok (c', s', e) ->
  exists (is_client : bool) (mi : nat) (a : taction),
    let sd := if is_client then c else s in
    let sd' := if is_client then c' else s' in
    nth_error (s_sched sd) mi = Some (Some (a, target)) /\
    s_sched sd' = upd (s_sched sd) mi None /\
    (if is_client then s' = s else c' = c) /\
    s_timers sd' = s_timers sd /\ s_fw sd' = s_fw sd /\
    se_time e = target /\ se_client e = is_client /\
    match a with
    | TSendPadding m _ by_ rp => se_ev e = TEPaddingSent m /\ se_pad e = true /\ se_bypass e = by_ /\ se_replace e = rp
                                 /\ s_buntil sd' = s_buntil sd /\ s_bbypass sd' = s_bbypass sd
    | TBlockOutgoing m _ _ _ _ => se_ev e = TEBlockingBegin m /\ se_pad e = false
    | _ => False
    end.
Proof. exact do_scheduled_action_spec. Qed.
Print Assumptions C17_fire.

Theorem C17_only_by_firing : forall fuel st nowt r st',
  pick_next fuel st nowt = Ok (r, st') ->
  (forall mi x, nth_error (s_sched (m_c st')) mi = Some (Some x) -> nth_error (s_sched (m_c st)) mi = Some (Some x)) /\
  (forall mi x, nth_error (s_sched (m_s st')) mi = Some (Some x) -> nth_error (s_sched (m_s st)) mi = Some (Some x)).
Proof.
  intros fuel st nowt r st' H. destruct (pick_next_slots _ _ _ _ _ H) as (H1 & H2 & _). auto.
Qed.

Theorem C17_earliest : forall sc ss nowt sa, peek_sched sc ss nowt = sa ->
  sa <= DMAX /\
  (sa < DMAX -> In (nowt + Z.of_N sa)%Z (due_times sc ++ due_times ss)) /\
  (forall t, In t (due_times sc ++ due_times ss) -> (nowt <= t)%Z -> sa <= since t nowt).
Proof. exact peek_sched_spec. Qed.

Theorem C17_not_past : forall cc sc tp fuel sq delay pps args out,
  SimBlocking.sq_inv sq ->
  sim_advanced fuel cc sc tp sq delay pps args = Ok out ->
  forall e, In e out ->
  exists st nowt st1 st3,
    iter cc sc tp st nowt e st1 st3 /\
    forall t, In t (pending st1) -> (nowt <= t)%Z -> (se_time e <= t)%Z.
Proof. exact SimTrace.not_past_trace. Qed.
Print Assumptions C17_not_past.

Theorem C17_trace : forall fuel cc sc tp tr delay pps args out,
  SimHistory.full_args args ->
  sim_advanced fuel cc sc tp (parse_trace tr delay) delay pps args = Ok out ->
  exists H : list SimHistory.hrec, out = map SimHistory.h_ev H /\
  exists f : nat -> nat,
    (forall k rk m, nth_error H k = Some rk ->
       (se_ev (SimHistory.h_ev rk) = TEPaddingSent m \/ se_ev (SimHistory.h_ev rk) = TEBlockingBegin m) ->
       SimActionTrace.caused_by H k rk m (f k)) /\
    (forall k1 k2 rk1 rk2 m, k1 <> k2 -> nth_error H k1 = Some rk1 -> nth_error H k2 = Some rk2 ->
       (se_ev (SimHistory.h_ev rk1) = TEPaddingSent m \/ se_ev (SimHistory.h_ev rk1) = TEBlockingBegin m) ->
       (se_ev (SimHistory.h_ev rk2) = TEPaddingSent m \/ se_ev (SimHistory.h_ev rk2) = TEBlockingBegin m) ->
       f k1 <> f k2).
Proof. exact SimActionTrace.action_completion_trace. Qed.
Print Assumptions C17_trace.

Theorem C17_fires_when_due : forall fuel cc sc tp tr delay pps args out,
  SimHistory.full_args args ->
  sim_advanced fuel cc sc tp (parse_trace tr delay) delay pps args = Ok out ->
  exists H : list SimHistory.hrec, out = map SimHistory.h_ev H /\
  exists f : nat -> nat,
    (forall k rk m, nth_error H k = Some rk ->
       (se_ev (SimHistory.h_ev rk) = TEPaddingSent m \/ se_ev (SimHistory.h_ev rk) = TEBlockingBegin m) ->
       SimActionTrace.caused_by H k rk m (f k)) /\
    forall j rj a m k' rk',
      nth_error H j = Some rj -> In a (SimHistory.h_acts rj) -> taction_machine a = m ->
      (exists tmo by_ rp, a = TSendPadding m tmo by_ rp) \/ (exists tmo dur by_ rp, a = TBlockOutgoing m tmo dur by_ rp) ->
      let due := (se_time (SimHistory.h_ev rj) + Z.of_N (SimActionTrace.timeout_of a))%Z in
      (j < k')%nat -> nth_error H k' = Some rk' -> (due < se_time (SimHistory.h_ev rk'))%Z ->
      (exists k rk, (j < k < k')%nat /\ nth_error H k = Some rk /\
                    se_client (SimHistory.h_ev rk) = se_client (SimHistory.h_ev rj) /\
                    SimActionTrace.completes a (SimHistory.h_ev rk) /\
                    se_time (SimHistory.h_ev rk) = due /\ f k = j) \/
      (exists j' rj' a', (j < j' < k')%nat /\ nth_error H j' = Some rj' /\
                    se_client (SimHistory.h_ev rj') = se_client (SimHistory.h_ev rj) /\
                    In a' (SimHistory.h_acts rj') /\
                    SimActionTrace.is_sched_for m a' = true /\ (se_time (SimHistory.h_ev rj') <= due)%Z).
Proof. exact SimActionLive.action_fires_when_due. Qed.
Print Assumptions C17_fires_when_due.
