(** C19 — seeded simulations are reproducible, total, and filters are pure projections.

    Reproducible: the model [sim_advanced] IS a function of (machines, queue,
    arguments, oracle tape); the tape is every RNG-derived draw of both
    frameworks in call order, and the correspondence check establishes on
    every run that the real simulator, run twice with one seed, consumes the
    same tape and returns the same trace as that function. What is proved here,
    for all machines, queues, delays, pps limits, tapes and arguments:
    - [C19_projection]: with no trace-length bound, the trace obtained with
      only_client_events and/or only_network_activity equals the filtered
      unfiltered trace (same stop iteration, Panic/OutOfFuel included);
    - [C19_no_assertion]: none of the simulator's internal consistency
      assertions fires and no index/unwrap fails: [sim_advanced] never
      returns Panic, for every non-empty queue, machines whose transition
      targets are in range, and a total clock;
    - [C19_time]: an event returned by pick_next is never earlier than the
      current time (the "time moves backwards" check is dead code), the
      returned trace is sorted, and the final sort_by is the identity;
    - [C19_bounds]: the configured trace-length and iteration bounds are
      respected, pick_next's recursion always ends, and with an iteration
      bound the main loop needs at most that many iterations.
    - [C19_projection_bounded]: with a trace-length bound M > 0 the filtered
      run returns exactly the first M elements (all, if fewer) of the filtered
      trace of the unfiltered run without a length bound (the filtered run
      stops when its own trace reaches M; up to there both go through the same
      states). Conditional on both runs returning.
    [C19_no_assertion] is for total clocks; for the real std clock
    [C19_std_clock] shows that the only possible panic is the Duration overflow
    inside an embedded framework beyond 2^64 s of accumulated blocking (known
    finding F6 of C01), never one of the simulator's assertions. *)
From MB Require Import Model.Framework Model.Sim.
From MB Require Import Proofs.FrameworkInv Proofs.FrameworkTotal.
From MB Require Proofs.SimBasics Proofs.SimTotal Proofs.SimTotalStd Proofs.SimProjectionBounded.
Import ListNotations.
Open Scope N_scope.

Theorem C19_projection : forall fuel cc sc tp sq delay pps args,
  a_max_trace args = 0 ->
  sim_advanced fuel cc sc tp sq delay pps args
  = SimBasics.omap (filter (SimBasics.keep args))
      (sim_advanced fuel cc sc tp sq delay pps (SimBasics.unfiltered args)).
Proof. exact SimBasics.sim_advanced_projection. Qed.
Print Assumptions C19_projection.


Theorem C19_projection_bounded : forall fuelF fuelU cc sc tp sq delay pps args outF outU,
  0 < a_max_trace args ->
  sim_advanced fuelF cc sc tp sq delay pps args = Ok outF ->
  sim_advanced fuelU cc sc tp sq delay pps (SimProjectionBounded.reference args) = Ok outU ->
  outF = firstn (N.to_nat (a_max_trace args)) (filter (SimBasics.keep args) outU).
Proof. exact SimProjectionBounded.sim_advanced_projection_bounded. Qed.
Print Assumptions C19_projection_bounded.

Theorem C19_no_assertion : forall fuel cc sc tp sq delay pps args k,
  SimTotal.cfg_ok cc -> SimTotal.cfg_ok sc -> SimTotal.wf_simq sq -> sq_first_time sq <> None ->
  sim_advanced fuel cc sc tp sq delay pps args <> Panic k.
Proof. exact SimTotal.sim_advanced_no_panic. Qed.
Print Assumptions C19_no_assertion.


(** with the real std clock: the only panic that can ever come out of a simulation is the Duration
    overflow inside an embedded framework (finding F6); no simulator assertion, unwrap or index fails *)
Theorem C19_std_clock : forall fuel cc sc tp sq delay pps args k,
  clk cc = stdclock -> clk sc = stdclock ->
  machines_ok cc -> nonempty_ok cc -> machines_ok sc -> nonempty_ok sc ->
  SimTotal.wf_simq sq -> sq_first_time sq <> None ->
  sim_advanced fuel cc sc tp sq delay pps args = Panic k -> k = P_DURATION.
Proof. exact SimTotalStd.sim_advanced_std. Qed.
Print Assumptions C19_std_clock.

(** the hypotheses are satisfiable: every parsed non-empty trace is a well-formed queue, and a
    configuration without machines over the harness clock is admissible *)
Lemma C19_queue_wf : forall tr delay, SimTotal.wf_simq (parse_trace tr delay).
Proof. exact SimTotal.parse_trace_wf. Qed.

Example C19_cfg_ok_nonvacuous : SimTotal.cfg_ok (mkcfg [] 0 0 vclock).
Proof.
  split; [|split].
  - intros m [].
  - intros m [].
  - exact vclock_total.
Qed.

Theorem C19_time :
  (forall fuel st nowt e st', pick_next fuel st nowt = Ok (Some e, st') -> (se_time e <? nowt)%Z = false) /\
  (forall fuel cc sc tp sq delay pps args out,
     sim_advanced fuel cc sc tp sq delay pps args = Ok out -> Sorted.Sorted SimBasics.time_le out) /\
  (forall fuel cc sc tp sq delay pps args out,
     sim_advanced fuel cc sc tp sq delay pps args = Ok out ->
     exists t0 cfw sfw net,
       sim_loop fuel cc sc tp args (mksim sq (new_side cc cfw) (new_side sc sfw) net (Framework.pos sfw)) t0 [] 0 = Ok out).
Proof.
  split; [exact SimBasics.sim_loop_time_check_dead|].
  split; [exact SimBasics.sim_advanced_sorted|exact SimBasics.sim_advanced_sort_is_id].
Qed.
Print Assumptions C19_time.

Theorem C19_bounds :
  (forall fuel cc sc tp sq delay pps args out,
     0 < a_max_trace args -> sim_advanced fuel cc sc tp sq delay pps args = Ok out ->
     N.of_nat (length out) <= a_max_trace args) /\
  (forall fuel cc sc tp sq delay pps args out,
     0 < a_max_iter args -> sim_advanced fuel cc sc tp sq delay pps args = Ok out ->
     N.of_nat (length out) <= a_max_iter args) /\
  (forall fuel st nowt,
     (length (n_aggq (m_net st)) + length (s_timers (m_c st)) + length (s_timers (m_s st))
      + length (s_sched (m_c st)) + length (s_sched (m_s st)) < fuel)%nat ->
     pick_next fuel st nowt <> OutOfFuel) /\
  (forall cc sc tp args fuel st nowt tr iters,
     clk cc = stdclock -> clk sc = stdclock ->
     0 < a_max_iter args -> iters < a_max_iter args ->
     (N.to_nat (a_max_iter args - iters) <= fuel)%nat ->
     sim_loop fuel cc sc tp args st nowt tr iters <> OutOfFuel).
Proof.
  split; [exact SimBasics.sim_advanced_trace_bound|].
  split; [exact SimBasics.sim_advanced_iter_bound|].
  split; [exact SimBasics.pick_next_fuel|exact SimBasics.sim_loop_fuel_stdclock].
Qed.
Print Assumptions C19_bounds.
