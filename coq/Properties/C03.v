(** C03 — blocking budgets.

    Whenever a single-event call returns BlockOutgoing for machine i then,
    with the blocked time recomputed from the BlockingBegin/BlockingEnd
    reports and the call timestamps alone (function [acct_hist]: a begin while
    active and an end while inactive are ignored, time running backwards
    yields zero elapsed time, an ongoing block counts up to now), at least one
    holds: the action has the replace flag and blocking is active; the blocked
    time is below the machine's allowed_blocked_microsec; or the blocked share
    of the time since start is below the machine's max_blocking_frac (if set)
    and the global share below the framework's (if set).

    [C03_budget] holds for every clock, the share being the clock's own f64
    quotient; [C03_budget_exact] restates it for the microsecond virtual clock
    with the exact rational blocked/elapsed (values below 2^53 us = 285 years;
    zero elapsed time with nothing blocked counts as below).
    [C03_budget_std] is the same statement for the crate's default clock
    (std::time, nanosecond ticks): there the code's share is the quotient of
    two as_secs_f64() values (two roundings per operand), so the exact
    rational share is shown to be below the limit times (1 + 2^-50)
    ([C03_share_std_tolerance], durations below 2^53 s). *)
From Coq Require Import Reals.
From Flocq Require Import Core.Core IEEE754.BinarySingleNaN.
From MB Require Import Model.Framework Model.Validate.
From MB Require Import Proofs.FrameworkAcct Proofs.AcctSpec Proofs.PaddingBudget Proofs.BlockingBudget.
From MB Require Import Model.Sim Proofs.BlockingBudgetStd.
Open Scope N_scope.

Theorem C03_budget : forall c tp t0 s0 h e t s' outs i tmo dur byp rep m,
  fnew c tp t0 = Ok s0 ->
  run c tp s0 (h ++ [([e], t)]) = Ok (s', outs) ->
  In (TBlockOutgoing i tmo dur byp rep) (last outs []) ->
  nth_error (machines c) (N.to_nat i) = Some m ->
  let k := clk c in
  let A := acct_hist k (h ++ [([e], t)]) (acct0 c t0) in
  exists ns ps bd, nth_error (a_m A) (N.to_nat i) = Some (ns, ps, bd) /\
    let blocked_i := with_ongoing k (a_bactive A) (a_now A) (a_bstart A) bd in
    let blocked_g := with_ongoing k (a_bactive A) (a_now A) (a_bstart A) (a_gblk A) in
    let elapsed := c_since k (a_now A) (a_start A) in
    (rep = true /\ a_bactive A = true) \/
    blocked_i < c_from_micros k (allowed_blocked_microsec m) \/
    (share_below k (f64_of_bits (max_blocking_frac m)) blocked_i elapsed /\
     share_below k (f64_of_bits (fw_max_blocking_frac c)) blocked_g elapsed).
Proof. exact blocking_budget_history. Qed.
Print Assumptions C03_budget.

Theorem C03_budget_exact : forall c tp t0 s0 h e t s' outs i tmo dur byp rep m,
  valid_cfg c = true -> clk c = vclock ->
  fnew c tp t0 = Ok s0 ->
  run c tp s0 (h ++ [([e], t)]) = Ok (s', outs) ->
  In (TBlockOutgoing i tmo dur byp rep) (last outs []) ->
  nth_error (machines c) (N.to_nat i) = Some m ->
  let A := acct_hist vclock (h ++ [([e], t)]) (acct0 c t0) in
  exists ns ps bd, nth_error (a_m A) (N.to_nat i) = Some (ns, ps, bd) /\
    let blocked_i := with_ongoing vclock (a_bactive A) (a_now A) (a_bstart A) bd in
    let blocked_g := with_ongoing vclock (a_bactive A) (a_now A) (a_bstart A) (a_gblk A) in
    let elapsed := Z.to_N (a_now A - a_start A) in
    blocked_i < 2 ^ 53 -> blocked_g < 2 ^ 53 -> elapsed < 2 ^ 53 ->
    (rep = true /\ a_bactive A = true) \/
    blocked_i < allowed_blocked_microsec m \/
    (share_below_exact (f64_of_bits (max_blocking_frac m)) blocked_i elapsed /\
     share_below_exact (f64_of_bits (fw_max_blocking_frac c)) blocked_g elapsed).
Proof. exact blocking_budget_history_vclock. Qed.
Print Assumptions C03_budget_exact.

(** blocked-time accounting is a function of the reports and timestamps only *)
Theorem C03_accounting : forall c tp h s s' outs,
  run c tp s h = Ok (s', outs) -> acct_of s' = acct_hist (clk c) h (acct_of s).
Proof. exact run_acct. Qed.
Print Assumptions C03_accounting.

(** the recount ignores time running backwards: elapsed and ongoing durations
    are saturating differences *)
Example C03_backwards_is_zero : c_since vclock 5 10 = 0.
Proof. reflexivity. Qed.

(** the std::time clock: the f64 quotient of two as_secs_f64() values is within
    a relative 2^-50 of the exact share *)
Theorem C03_share_std_tolerance : forall f d e,
  is_finite f = true -> (B2R f <= 1)%R ->
  d < 2 ^ 53 * NS -> e < 2 ^ 53 * NS ->
  share_below stdclock f d e ->
  fgt f f64_zero = false \/ (e = 0 /\ d = 0) \/
  (0 < e /\ (IZR (Z.of_N d) / IZR (Z.of_N e) < B2R f * (1 + / 2 ^ 50))%R).
Proof. exact share_below_std_tolerance. Qed.
Print Assumptions C03_share_std_tolerance.

Theorem C03_budget_std : forall c tp t0 s0 h e t s' outs i tmo dur byp rep m,
  valid_cfg c = true -> clk c = stdclock ->
  fnew c tp t0 = Ok s0 ->
  run c tp s0 (h ++ [([e], t)]) = Ok (s', outs) ->
  In (TBlockOutgoing i tmo dur byp rep) (last outs []) ->
  nth_error (machines c) (N.to_nat i) = Some m ->
  let A := acct_hist stdclock (h ++ [([e], t)]) (acct0 c t0) in
  exists ns ps bd, nth_error (a_m A) (N.to_nat i) = Some (ns, ps, bd) /\
    let blocked_i := with_ongoing stdclock (a_bactive A) (a_now A) (a_bstart A) bd in
    let blocked_g := with_ongoing stdclock (a_bactive A) (a_now A) (a_bstart A) (a_gblk A) in
    let elapsed := Z.to_N (a_now A - a_start A) in
    blocked_i < 2 ^ 53 * NS -> blocked_g < 2 ^ 53 * NS -> elapsed < 2 ^ 53 * NS ->
    (rep = true /\ a_bactive A = true) \/
    blocked_i < allowed_blocked_microsec m * 1000 \/
    (share_below_tol (f64_of_bits (max_blocking_frac m)) blocked_i elapsed /\
     share_below_tol (f64_of_bits (fw_max_blocking_frac c)) blocked_g elapsed).
Proof. exact blocking_budget_history_stdclock. Qed.
Print Assumptions C03_budget_std.

(** the premise of the tolerance theorem is met, and refused, by concrete durations *)
Example C03_std_share_nonvacuous :
  share_below stdclock f_half 1200000000 3700000000 /\ ~ share_below stdclock f_half 2000000000 3700000000.
Proof. split; [exact share_below_std_holds|exact share_below_std_fails]. Qed.
