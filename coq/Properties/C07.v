(** C07 — per-state limits cap how many actions complete during one stay.

    [C07_limit_gate]   a limited action (SendPadding, BlockOutgoing,
                       UpdateTimer) passes the limit check only with a
                       remaining limit > 0; in particular a sampled limit of
                       zero yields no action.
    [C07_stay]         over any call in which machine i does not change state
                       (no LOG_CHANGE entry for i in the ghost log), i stays in
                       its state (or ends) and its remaining limit is exactly
                       the old one minus the number of decrements logged for i,
                       floored at zero: self-transitions never refresh the
                       limit and steps of other machines never consume it.
    [C07_countdown]    one completion: the limit is decremented (floored at 0);
                       when it thereby is 0 and the state's action has a limit,
                       the pending action is withdrawn and LimitReached is
                       delivered at once, otherwise nothing else happens.
    [C07_refresh]      changing to a different state stores a freshly sampled
                       limit (u64::MAX when the state's action has none).
    [C07_others]       completions reported for another machine or an unknown
                       id leave machine i's state, limit and pending action
                       untouched. *)
From MB Require Import Model.Framework.
From MB Require Import Proofs.Tactics Proofs.ListFacts Proofs.FrameworkStructure Proofs.FrameworkInv
     Proofs.FrameworkTotal Proofs.FrameworkAcct Proofs.Limits.
Open Scope N_scope.

Theorem C07_limit_gate : forall c s r m st a,
  nthN (states m) (cur r) = Some st -> saction st = Some a -> limited_kind a = true ->
  below_action_limits c s r m = Ok true -> 0 < lim r.
Proof. exact limit_gate. Qed.
Print Assumptions C07_limit_gate.

Theorem C07_zero_no_action : forall c s r m st a b,
  nthN (states m) (cur r) = Some st -> saction st = Some a -> limited_kind a = true ->
  lim r = 0 -> below_action_limits c s r m = Ok b -> b = false.
Proof.
  intros c s r m st a b Hst Ha Hk Hl Hb. destruct b; [|reflexivity].
  pose proof (limit_gate c s r m st a Hst Ha Hk Hb). lia.
Qed.
Print Assumptions C07_zero_no_action.

Theorem C07_stay : forall c tp i s evs t s' acts,
  trigger_events c tp s evs t = Ok (s', acts) ->
  changes i (flog s') = 0 ->
  (cur_of s' i = cur_of s i \/ cur_of s' i = STATE_END) /\
  lim_of s' i = lim_of s i - decs i (flog s').
Proof. exact call_stay. Qed.
Print Assumptions C07_stay.

Corollary C07_no_refresh : forall c tp i s evs t s' acts,
  trigger_events c tp s evs t = Ok (s', acts) ->
  changes i (flog s') = 0 -> lim_of s' i <= lim_of s i.
Proof.
  intros c tp i s evs t s' acts H Hz. destruct (call_stay c tp i s evs t s' acts H Hz) as [_ ->]. lia.
Qed.
Print Assumptions C07_no_refresh.

Theorem C07_countdown : forall c tp s mi s' r,
  nth_error (rts s) mi = Some r ->
  decrement_limit c tp s mi = Ok s' ->
  let r1 := if 0 <? lim r then rt_set_lim r (lim r - 1) else r in
  let s1 := set_rt (add_log s (LOG_DEC, N.of_nat mi, 0)) mi r1 in
  lim r1 = lim r - 1 /\
  exists m st, nth_error (machines c) mi = Some m /\ nthN (states m) (cur r) = Some st /\
    match saction st with
    | Some a =>
        if (lim r1 =? 0) && action_has_limit a then
          exists b, transition FUEL c tp (add_log (set_slot s1 mi None) (LOG_LIMIT, N.of_nat mi, 0))
                               mi LimitReached = Ok (s', b)
        else s' = s1
    | None => s' = s1
    end.
Proof.
  intros c tp s mi s' r Hr H r1 s1. unfold decrement_limit in H.
  unfold get at 1 in H. cbn [rts add_log] in H. rewrite Hr in H. cbn [bind] in H.
  fold r1 in H. fold s1 in H.
  split; [subst r1; destruct (N.ltb_spec 0 (lim r)); cbn; lia|].
  mbind H as m Em. mbind H as st Est. apply get_ok in Em. apply getN_ok in Est.
  assert (Hc : cur r1 = cur r) by (subst r1; destruct (0 <? lim r); reflexivity).
  rewrite Hc in Est. exists m, st. split; [exact Em|]. split; [exact Est|].
  destruct (saction st) as [a|]; [|inversion H; reflexivity].
  destruct ((lim r1 =? 0) && action_has_limit a); [|inversion H; reflexivity].
  mbind H as [s2 b] E2. inversion H; subst. exists b. reflexivity.
Qed.
Print Assumptions C07_countdown.

Theorem C07_refresh : forall mi s r ns l p,
  nth_error (rts s) mi = Some r ->
  let s' := set_pos (set_rt (add_log s (LOG_CHANGE, N.of_nat mi, ns)) mi (rt_set_cur r ns l)) p in
  lim_of s' mi = l /\ cur_of s' mi = ns.
Proof.
  intros mi s r ns l p Hr s'. unfold lim_of, cur_of; cbn.
  rewrite nth_error_upd_eq by (apply nth_error_Some; congruence). auto.
Qed.
Print Assumptions C07_refresh.

Theorem C07_others : forall c tp s e s' i,
  process_event c tp s e = Ok s' ->
  (match e with
   | TEPaddingSent j | TETimerBegin j | TETimerEnd j => j <> N.of_nat i
   | _ => False
   end) ->
  nth_error (rts s') i = nth_error (rts s) i /\ nth_error (slots s') i = nth_error (slots s) i.
Proof.
  intros c tp s e s' i H He.
  assert (Htd : forall s0 mi ev dec s1, mi <> i -> trans_dec c tp s0 mi ev dec = Ok s1 ->
             nth_error (rts s1) i = nth_error (rts s0) i /\ nth_error (slots s1) i = nth_error (slots s0) i).
  { intros s0 mi ev dec s1 Hne Ht. unfold trans_dec in Ht.
    mbind Ht as [s2 chg] E. mbind Ht as r Er.
    pose proof (transition_others _ _ _ _ _ _ _ _ E) as [_ O1].
    pose proof (transition_slots_others _ _ _ _ _ _ _ _ E) as [_ S1].
    destruct (negb chg && negb (cur r =? STATE_END) && dec).
    - pose proof (decrement_limit_others _ _ _ _ _ Ht) as [_ O2].
      pose proof (decrement_limit_slots_others _ _ _ _ _ Ht) as [_ S2].
      rewrite O2, O1, S2, S1 by auto. auto.
    - inversion Ht; subst. rewrite O1, S1 by auto. auto. }
  unfold process_event in H. destruct e as [ | | | |j| |j| |j|j]; try contradiction.
  - destruct (N.leb_spec (N.of_nat (nmach s)) j); [inversion H; subst; auto|].
    mbind H as r Er.
    assert (Hne : N.to_nat j <> i) by (intros <-; apply He; rewrite N2Nat.id; reflexivity).
    destruct (Htd _ _ _ _ _ Hne H) as [A B]. rewrite A, B. cbn.
    rewrite nth_error_upd_neq by exact Hne. auto.
  - destruct (N.leb_spec (N.of_nat (nmach s)) j); [inversion H; subst; auto|].
    assert (Hne : N.to_nat j <> i) by (intros <-; apply He; rewrite N2Nat.id; reflexivity).
    exact (Htd _ _ _ _ _ Hne H).
  - destruct (N.leb_spec (N.of_nat (nmach s)) j); [inversion H; subst; auto|].
    assert (Hne : N.to_nat j <> i) by (intros <-; apply He; rewrite N2Nat.id; reflexivity).
    mbind H as [s1 b] E. inversion H; subst.
    pose proof (transition_others _ _ _ _ _ _ _ _ E) as [_ O1].
    pose proof (transition_slots_others _ _ _ _ _ _ _ _ E) as [_ S1].
    rewrite O1, S1 by auto. auto.
Qed.
Print Assumptions C07_others.
