(** C06 — transitions follow the declared probabilities over the whole RNG
    output space.

    The uniform draw is r = k / 2^23 for the 2^23 equally likely values k of
    the top 23 bits of one 32-bit word (checked exhaustively against rand 0.8
    on every run). With the f32 partial sums S_1, S_2, ... of the declared
    probabilities accumulated in the code's order:
    [C06_thresholds]  for EVERY k and every validated vector, target j is
                      chosen exactly when thr S_(j-1) <= k < thr S_j (first
                      threshold exceeding k), thr S = ceil (S * 2^23) computed
                      exactly from the float; no transition iff k is at or
                      beyond the last threshold. Hence target j is chosen on
                      exactly thr S_j - thr S_(j-1) of the 2^23 draws: its
                      declared probability up to the resolution of the draw and
                      of the f32 accumulation.
    [C06_threshold_exact] thr S is the exact ceiling: k/2^23 < S <-> k < thr S.
    [C06_share]       for every validated vector (any number of targets) the
                      number of draws selecting entry j, thr S_j - thr S_(j-1),
                      differs from p_j * 2^23 by less than 2: the declared
                      probability up to the resolution of the draw (only the
                      single f32 addition S_(j-1) + p_j contributes a rounding
                      error, so the bound does not grow with the vector);
    [C06_draws]       and that count is literally the set of draws selecting
                      the entry's target: an interval inside [0, 2^23).
    [C06_one]         a probability-1 transition is always taken.
    [C06_none]        no declared transitions: no move and no draw consumed.
    [C06_dispatch]    the framework acts on the sampled target and on nothing
                      else: one step of a live machine is EXACTLY, by cases on
                      the outcome of the draw, (none) only the tape position,
                      the step counter and the log change -- runtimes, action
                      slots, accounting and pending signal are untouched
                      ([C06_no_target_frame]); (END) the machine's state becomes
                      STATE_END, nothing else; (SIGNAL) the pending signal is
                      joined with this machine, its state is unchanged;
                      (regular target) entering that state: limit sampling on a
                      change of state, counter update, action scheduling. *)
From Coq Require Import Reals.
From Flocq Require Import Core.Core IEEE754.BinarySingleNaN.
From MB Require Import Model.Framework Model.Validate.
From MB Require Import Model.Thresholds Proofs.SampleState.
From MB Require Proofs.SampleShare Proofs.FrameworkCorollaries.
Open Scope Z_scope.

Theorem C06_thresholds : forall n v (k : N),
  validate_vector n v [] f32_zero = true -> (k < 2 ^ 24)%N ->
  pick_trans v f32_zero (f32_of_k k) =
  pick_int (map fst v) (map thr (sums v f32_zero)) (Z.of_N k).
Proof. exact sample_state_thresholds. Qed.
Print Assumptions C06_thresholds.

Theorem C06_threshold_exact : forall (k : N) (s : F32),
  (k < 2 ^ 24)%N -> is_finite s = true ->
  flt32 (f32_of_k k) s = (Z.of_N k <? thr s).
Proof. exact flt32_thr. Qed.
Print Assumptions C06_threshold_exact.

Theorem C06_draw_exact : forall k : N, (k < 2 ^ 24)%N ->
  B2R (f32_of_k k) = (IZR (Z.of_N k) * / IZR (2 ^ 23))%R /\ is_finite (f32_of_k k) = true.
Proof. exact f32_of_k_exact. Qed.
Print Assumptions C06_draw_exact.


Theorem C06_share : forall n v, validate_vector n v [] f32_zero = true ->
  forall j t p, nth_error v j = Some (t, p) ->
    let ss := f32_zero :: sums v f32_zero in
    forall s_prev s_next, nth_error ss j = Some s_prev -> nth_error ss (S j) = Some s_next ->
    (Rabs (IZR (SampleShare.count_between s_prev s_next) - B2R (f32_of_bits p) * IZR (2 ^ 23)) < 2)%R.
Proof. exact SampleShare.share_vector. Qed.
Print Assumptions C06_share.

Theorem C06_draws : forall n v, validate_vector n v [] f32_zero = true ->
  forall j t p, nth_error v j = Some (t, p) ->
    let ss := f32_zero :: sums v f32_zero in
    forall s_prev s_next, nth_error ss j = Some s_prev -> nth_error ss (S j) = Some s_next ->
    forall k : N, (k < 2 ^ 24)%N ->
      (pick_trans v f32_zero (f32_of_k k) = Some t <-> thr s_prev <= Z.of_N k < thr s_next).
Proof. exact SampleShare.share_draws. Qed.
Print Assumptions C06_draws.

Theorem C06_one : forall t (k : N), (k < 2 ^ 23)%N ->
  pick_trans [(t, 1065353216%N)] f32_zero (f32_of_k k) = Some t.
Proof. exact prob_one_always. Qed.
Print Assumptions C06_one.

Theorem C06_none : forall tp p st ev,
  nth_error (strans st) (event_idx ev) = Some None ->
  sample_state tp p st ev = (None, p).
Proof. intros tp p st ev H. unfold sample_state. rewrite H. reflexivity. Qed.
Print Assumptions C06_none.

(** non-vacuity: 0.5, 0.25, 0.25 -> thresholds 2^22, 3*2^21, 2^23 *)
Example C06_example :
  map thr (sums [(0%N, 1056964608%N); (1%N, 1048576000%N); (2%N, 1048576000%N)] f32_zero)
  = [4194304; 6291456; 8388608].
Proof. vm_compute. reflexivity. Qed.

Theorem C06_dispatch : forall fuel c tp s mi ev r m st o p',
  nth_error (rts s) mi = Some r -> cur r <> STATE_END ->
  nth_error (machines c) mi = Some m -> nthN (states m) (cur r) = Some st ->
  sample_state tp (pos s) st ev = (o, p') ->
  transition (S fuel) c tp s mi ev = FrameworkCorollaries.dispatch fuel c tp s mi ev r m o p'.
Proof. exact FrameworkCorollaries.transition_dispatch. Qed.
Print Assumptions C06_dispatch.

(** the four cases of [dispatch], pinned *)
Lemma C06_dispatch_cases : forall fuel c tp s mi ev r m o p',
  FrameworkCorollaries.dispatch fuel c tp s mi ev r m o p' =
  match o with
  | None => Ok (FrameworkCorollaries.trans_drawn s mi ev p', false)
  | Some ns =>
      if (ns =? STATE_END)%N then
        Ok (set_rt (FrameworkCorollaries.trans_next s mi ev p' ns) mi (rt_set_cur r STATE_END (lim r)), true)
      else if (ns =? STATE_SIGNAL)%N then
        Ok (set_sigp (add_log (FrameworkCorollaries.trans_next s mi ev p' ns) (LOG_SIGSET, N.of_nat mi, 0%N))
                     (Some (sig_join (sigp s) mi)), false)
      else FrameworkCorollaries.trans_regular fuel c tp (FrameworkCorollaries.trans_next s mi ev p' ns) mi r m ns
  end.
Proof. reflexivity. Qed.

Theorem C06_no_target_frame : forall fuel c tp s mi ev r m st p',
  nth_error (rts s) mi = Some r -> cur r <> STATE_END ->
  nth_error (machines c) mi = Some m -> nthN (states m) (cur r) = Some st ->
  sample_state tp (pos s) st ev = (None, p') ->
  exists s1, transition (S fuel) c tp s mi ev = Ok (s1, false) /\
    (now s1 = now s /\ fstart s1 = fstart s /\ rts s1 = rts s /\ slots s1 = slots s /\
     gnorm s1 = gnorm s /\ gpad s1 = gpad s /\ gblk s1 = gblk s /\ bstart s1 = bstart s /\
     bactive s1 = bactive s /\ sigp s1 = sigp s) /\
    pos s1 = p' /\ (p' = pos s \/ p' = S (pos s)) /\
    (nsteps s1 = nsteps s + 1)%N /\
    flog s1 = (LOG_TRANS, N.of_nat mi, N.of_nat (event_idx ev)) :: flog s.
Proof. exact FrameworkCorollaries.transition_none_frame. Qed.
Print Assumptions C06_no_target_frame.
