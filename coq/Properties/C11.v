(** C11 — machine strings round-trip exactly and hostile strings are rejected
    safely (PARTIAL: zlib, SHA-256 and the allocator are oracles).

    [C11_base64_roundtrip]   decode (encode bs) = bs for all byte strings
                             (RFC 4648 with padding, the decoder being as
                             strict as the base64 crate's STANDARD engine).
    [C11_bincode_roundtrip]  de (ser m) = m for every machine whose fields fit
                             their Rust types (varint integers, raw
                             little-endian float bits, Option, Vec, the 13-slot
                             array, enums) and trailing bytes are rejected.
    [C11_roundtrip]          with the recorded contract of flate2 (compressed
                             data are bytes, a stream is never empty, one
                             bounded read of a payload that fits returns it
                             whole): for every validated machine whose encoding
                             fits 1 MiB, from_str (serialize m) = m -- so the
                             re-serialized string, hence the name, is identical
                             and the machine drives a framework identically.
    [C11_reject_or_valid]    for EVERY string and EVERY behaviour of zlib,
                             from_str returns an error or a machine that passed
                             validation.
    [C11_v1_never_panics]    the legacy v1 parser (parse_v1 on the decompressed
    [C11_v1_valid]           payload, modelled slice by slice with explicit
                             out-of-range and overflow panics) cannot panic on
                             ANY byte string, and whatever it returns passed
                             validation.
    Not proved here (named in DESIGN.md): panic-freedom and memory use inside
    flate2/bincode/base64/hex (oracles), and the hex/zlib front of the v1
    entry point. *)
From MB Require Import Model.Framework Model.Validate Model.MachineString.
From MB Require Import Model.Codec.Base64 Model.Codec.Bincode.
From MB Require Model.Codec.V1 Proofs.Codec.V1Proofs.
From MB Require Import Proofs.Codec.Base64Proofs Proofs.Codec.BincodeProofs Proofs.MachineStringProofs.
Open Scope N_scope.

Theorem C11_base64_roundtrip : forall bs,
  Forall (fun b => b < 256) bs -> b64_decode (b64_encode bs) = Some bs.
Proof. exact b64_roundtrip. Qed.
Print Assumptions C11_base64_roundtrip.

Theorem C11_bincode_roundtrip : forall m, wf_machine m -> de_machine (ser_machine m) = Some m.
Proof. exact bincode_roundtrip. Qed.
Print Assumptions C11_bincode_roundtrip.

Theorem C11_bincode_trailing_rejected : forall m b rest,
  wf_machine m -> de_machine (ser_machine m ++ b :: rest) = None.
Proof. exact bincode_trailing_rejected. Qed.
Print Assumptions C11_bincode_trailing_rejected.

Theorem C11_roundtrip :
  forall (deflate : list N -> list N) (inflate : list N -> N -> option (list N)),
  (forall b, Forall (fun x => x < 256) (deflate b)) ->
  (forall b, deflate b <> []) ->
  (forall b n, N.of_nat (length b) <= n -> inflate (deflate b) n = Some b) ->
  forall m, wf_machine m -> validate_machine m = true ->
  N.of_nat (length (ser_machine m)) <= MAX_DECOMPRESSED_SIZE ->
  from_str inflate (serialize deflate m) = Some m.
Proof. exact from_str_serialize. Qed.
Print Assumptions C11_roundtrip.

Theorem C11_reject_or_valid : forall inflate s m,
  from_str inflate s = Some m -> validate_machine m = true.
Proof. exact from_str_valid. Qed.
Print Assumptions C11_reject_or_valid.

Theorem C11_v1_never_panics : forall bytes, (forall b, In b bytes -> b < 256) ->
  forall k, V1.parse_v1 bytes <> Panic k.
Proof. exact V1Proofs.parse_v1_never_panics. Qed.
Print Assumptions C11_v1_never_panics.

Theorem C11_v1_valid : forall bytes m, V1.parse_v1 bytes = Ok (Some m) -> validate_machine m = true.
Proof. exact V1Proofs.parse_v1_valid. Qed.
Print Assumptions C11_v1_valid.
