(** C09 — signals reach every other machine exactly once and never the lone
    signaller.

    The ghost log of a call (mirrored by the verif hook and compared with the
    implementation's on every correspondence run) records which machines
    transitioned to the signal pseudo-state ([sigsets]) and to whom a Signal
    was delivered ([delivers]). For every configuration, state without a
    pending signal, batch, time and tape:
    - nobody signals: nothing is delivered;
    - all signal transitions of the events phase come from one machine a
      (however many times): every other machine index receives exactly one
      Signal, in index order, and a receives one -- after them -- iff some
      machine answered by signalling during that round; otherwise none;
    - two or more distinct machines signal: every machine index receives
      exactly one;
    - no machine index receives more than one Signal in a call, and no
      pending signal survives the call.
    (Delivery to a machine that has ended is a no-op transition.) *)
From MB Require Import Model.Framework.
From MB Require Import Proofs.Tactics Proofs.ListFacts Proofs.FrameworkStructure Proofs.Signals.
From MB Require Proofs.FrameworkCorollaries.
Open Scope N_scope.

(** the deliveries of a call, oldest first *)
Definition deliveries (s : fstate) : list N := rev (delivers (flog s)).

Theorem C09_call : forall c tp s evs t s' acts,
  sigp s = None ->
  trigger_events c tp s evs t = Ok (s', acts) ->
  sigp s' = None /\
  exists ev_log, (* the log of the events phase *)
    match join_all None (sigsets ev_log) with
    | None => deliveries s' = []
    | Some SigAll => deliveries s' = targets None (length (rts s)) 0
    | Some (SigAllExcept a) =>
        exists answered : bool,
          deliveries s' = targets (Some a) (length (rts s)) 0 ++ (if answered then [N.of_nat a] else [])
    end.
Proof.
  unfold trigger_events, deliveries; intros c tp s evs t s' acts Hs H.
  mbind H as s1 E1. mbind H as s2 E2. inversion H; subst. clear H.
  destruct (events_sig_rel _ _ _ _ _ E1) as (ev & Le & De & Se).
  cbn [flog begin_call sigp] in Le, Se. rewrite app_nil_r in Le. rewrite Hs in Se.
  destruct (signal_round_spec _ _ _ _ E2) as (Hn & new & Ln & Hc).
  split; [exact Hn|]. exists ev. rewrite <- Se.
  assert (Hlen : nmach s1 = length (rts s)).
  { unfold nmach.
    assert (G : forall a b, foldM (process_event c tp) evs a = Ok b -> length (rts b) = length (rts a)).
    { apply (events_G c tp (fun a b => length (rts b) = length (rts a))); intros; cbn;
        rewrite ?ListFacts.upd_length; try reflexivity; try congruence.
      - eapply (transition_R c tp (fun _ a b => length (rts b) = length (rts a))); eauto;
          intros; cbn; rewrite ?ListFacts.upd_length; try reflexivity; congruence.
      - eapply (decrement_limit_R c tp (fun _ a b => length (rts b) = length (rts a))); eauto;
          intros; cbn; rewrite ?ListFacts.upd_length; try reflexivity; congruence. }
    rewrite (G _ _ E1). cbn. apply map_length. }
  rewrite Ln, Le, delivers_app, De, app_nil_r.
  destruct (sigp s1) as [[|a]|].
  - rewrite Hc, Hlen. reflexivity.
  - destruct Hc as (r1 & r2 & -> & D1 & D2). rewrite Hlen in D1.
    exists (match join_all None (sigsets r1) with Some _ => true | None => false end).
    rewrite delivers_app, rev_app_distr, D1, D2. reflexivity.
  - subst new. reflexivity.
Qed.
Print Assumptions C09_call.

(** what the summary of the signallers means *)
Theorem C09_signallers : forall l,
  match join_all None l with
  | None => l = []
  | Some (SigAllExcept a) => l <> [] /\ Forall (fun x => N.to_nat x = a) l
  | Some SigAll => exists x y, In x l /\ In y l /\ N.to_nat x <> N.to_nat y
  end.
Proof. exact join_all_None. Qed.
Print Assumptions C09_signallers.

(** the delivery list names every non-excluded machine index exactly once *)
Theorem C09_targets : forall excluded k x,
  In x (targets excluded k 0) <-> exists j, x = N.of_nat j /\ (j < k)%nat /\ excluded <> Some j.
Proof.
  intros excluded k x. rewrite targets_spec. split; intros (j & A & B & C); exists j; repeat split; auto; lia.
Qed.
Print Assumptions C09_targets.

Theorem C09_at_most_one : forall c tp s evs t s' acts,
  sigp s = None ->
  trigger_events c tp s evs t = Ok (s', acts) -> NoDup (deliveries s').
Proof.
  intros c tp s evs t s' acts Hs H.
  destruct (C09_call c tp s evs t s' acts Hs H) as (_ & ev & Hc).
  destruct (join_all None (sigsets ev)) as [[|a]|].
  - rewrite Hc. apply targets_NoDup.
  - destruct Hc as (ans & ->). destruct ans; [|rewrite app_nil_r; apply targets_NoDup].
    apply NoDup_app_one; [apply targets_NoDup|].
    rewrite targets_spec. intros (j & Hj & _ & Hne). apply Nat2N.inj in Hj. subst j. congruence.
  - rewrite Hc. constructor.
Qed.
Print Assumptions C09_at_most_one.

(** every call of every history from [fnew]: no signal is pending before it, and the statement of
    [C09_call] holds for it ([FrameworkCorollaries.call_signals] is that conclusion, verbatim) *)
Theorem C09_history : forall c tp t0 s0 h s outs k evs t,
  fnew c tp t0 = Ok s0 -> run c tp s0 h = Ok (s, outs) -> nth_error h k = Some (evs, t) ->
  exists sb sa acts, run c tp s0 (firstn k h) = Ok (sb, firstn k outs) /\
    trigger_events c tp sb evs t = Ok (sa, acts) /\ nth_error outs k = Some acts /\
    sigp sb = None /\ FrameworkCorollaries.call_signals sb sa.
Proof. exact FrameworkCorollaries.signals_every_call_nth. Qed.
Print Assumptions C09_history.

Lemma C09_call_signals_unfold : forall s s', FrameworkCorollaries.call_signals s s' <->
  (sigp s' = None /\
   exists ev_log,
    match join_all None (sigsets ev_log) with
    | None => deliveries s' = []
    | Some SigAll => deliveries s' = targets None (length (rts s)) 0
    | Some (SigAllExcept a) =>
        exists answered : bool,
          deliveries s' = targets (Some a) (length (rts s)) 0 ++ (if answered then [N.of_nat a] else [])
    end).
Proof. intros s s'. reflexivity. Qed.
