(** C01 — the framework is total, with linear work per call.

    For every configuration accepted by validation, every state satisfying the
    framework invariant (in particular every state reachable from
    [Framework::new]), every batch of events (any machine ids), every time
    value and every random tape: [trigger_events] returns normally (no panic
    outcome, recursion fuel never exhausted), re-establishes the invariant,
    and enters [transition] at most (events+1)*(machines+1) + 2*machines times.

    Guards, stated: the clock's duration addition must not overflow
    ([clock_total]; true for the saturating virtual clock, false for
    std::time::Duration beyond 2^64 s -- known finding F6); packet counters
    are modelled as unbounded naturals (a u64 overflow needs 2^64 reported
    packets). *)
From MB Require Import Model.Framework Model.Validate.
From MB Require Import Proofs.FrameworkInv Proofs.FrameworkTotal.
Open Scope N_scope.

Theorem C01_new_ok : forall c tp t0,
  valid_cfg c = true -> exists s, fnew c tp t0 = Ok s /\ Inv c s.
Proof. intros c tp t0 H. apply fnew_total. apply valid_cfg_nonempty. exact H. Qed.
Print Assumptions C01_new_ok.

Theorem C01_total : forall c tp s evs t,
  valid_cfg c = true -> clock_total (clk c) -> Inv c s ->
  exists s' acts,
    trigger_events c tp s evs t = Ok (s', acts) /\ Inv c s' /\ sigp s' = None /\
    nsteps s' <= (N.of_nat (length evs) + 1) * (N.of_nat (length (machines c)) + 1)
                 + 2 * N.of_nat (length (machines c)).
Proof.
  intros c tp s evs t H Hc HI.
  exact (trigger_events_total c tp (valid_cfg_machines_ok c H) Hc s evs t HI).
Qed.
Print Assumptions C01_total.

Theorem C01_history : forall c tp t0 h,
  valid_cfg c = true -> clock_total (clk c) ->
  exists s0 s' outs,
    fnew c tp t0 = Ok s0 /\ run c tp s0 h = Ok (s', outs) /\ length outs = length h.
Proof.
  intros c tp t0 h H Hc.
  destruct (C01_new_ok c tp t0 H) as (s0 & Hn & HI).
  destruct (run_total c tp h s0 (valid_cfg_machines_ok c H) Hc HI) as (s' & outs & Hr & _ & Hl).
  exists s0, s', outs. auto.
Qed.
Print Assumptions C01_history.

Theorem C01_vclock_total : clock_total vclock.
Proof. exact vclock_total. Qed.
Print Assumptions C01_vclock_total.

(** non-vacuity: a concrete validated configuration (a padding machine with a
    limit, a counter and a signalling transition) *)
Definition ex_dist (v : N) : dist := mkdist (Uniform v v) 0 0.
Definition ex_one : N := 4607182418800017408.   (* 1.0 as f64 bits *)
Definition ex_p1 : N := 1065353216.             (* 1.0 as f32 bits *)
Definition ex_state0 : state :=
  mkstate (Some (SendPadding false false (ex_dist ex_one) (Some (ex_dist ex_one))))
          (Some (mkcounter Increment None false)) None
          [None; None; None; Some [(1, ex_p1)]; Some [(0, ex_p1)]; None; None; None;
           Some [(STATE_END, ex_p1)]; None; None; None; None].
Definition ex_state1 : state :=
  mkstate None (Some (mkcounter Decrement None false)) None
          [Some [(STATE_SIGNAL, ex_p1)]; None; None; Some [(0, ex_p1)]; None; None; None; None;
           None; Some [(0, ex_p1)]; None; None; Some [(0, ex_p1)]].
Definition ex_machine : machine := mkmachine 1 ex_one 0 0 [ex_state0; ex_state1].
Definition ex_cfg : cfg := mkcfg [ex_machine; ex_machine] 0 0 vclock.

Example C01_premises_satisfiable :
  valid_cfg ex_cfg = true /\ clock_total (clk ex_cfg) /\
  exists s, fnew ex_cfg (fun _ => 0) 0 = Ok s.
Proof.
  split; [vm_compute; reflexivity|]. split; [exact vclock_total|].
  destruct (C01_new_ok ex_cfg (fun _ => 0) 0%Z) as (s & Hs & _); [vm_compute; reflexivity|eauto].
Qed.

(** ** the std::time clock (known finding F6 made precise)

    [Framework<_, _, std::time::Instant>] adds Durations with `+=`; that addition
    overflows (and panics) once the accumulated blocked time exceeds
    Duration::MAX (2^64 s). [C01_std_only_duration] shows this is the ONLY way a
    call can fail with the std clock: for every valid configuration, state,
    batch, time and tape the call returns (with the invariant, no pending signal
    and the same step bound), or it panics with exactly that overflow -- never
    an index, unwrap or fuel failure. [stdclock_not_total] is the witness that
    the overflow exists. *)
From MB Require Import Model.Sim.
From MB Require Proofs.FrameworkTotalStd.

Theorem C01_std_only_duration : forall c tp s evs t,
  valid_cfg c = true -> clk c = stdclock -> Inv c s ->
  (exists s' acts, trigger_events c tp s evs t = Ok (s', acts) /\ Inv c s' /\ sigp s' = None)
  \/ trigger_events c tp s evs t = Panic P_DURATION.
Proof.
  intros c tp s evs t H Hk HI.
  exact (FrameworkTotalStd.trigger_events_total_std c tp s evs t (valid_cfg_machines_ok c H) Hk HI).
Qed.
Print Assumptions C01_std_only_duration.

Theorem C01_std_history : forall c tp h s,
  valid_cfg c = true -> clk c = stdclock -> Inv c s ->
  (exists s' outs, run c tp s h = Ok (s', outs) /\ Inv c s' /\ length outs = length h)
  \/ run c tp s h = Panic P_DURATION.
Proof.
  intros c tp h s H Hk HI.
  apply FrameworkTotalStd.run_total_dur; [exact (valid_cfg_machines_ok c H)| |exact HI].
  rewrite Hk. exact FrameworkTotalStd.stdclock_dur.
Qed.

Lemma C01_std_overflow_exists : ~ clock_total stdclock.
Proof. exact FrameworkTotalStd.stdclock_not_total. Qed.
