(** C13 — sampling a validated distribution returns a value in range (PARTIAL:
    the ten rand_distr samplers are third-party code outside the model; their
    RESULT is universally quantified here, their termination is not proved).

    [C13_range]       for every raw sampler value (NaN, +-inf included), every
                      start and max: Dist::sample returns a non-NaN,
                      non-negative value that is at most max when max > 0.
    [C13_consumers]   timeouts and durations are at most 24 h; limits and
                      counter values are within u64.
    [C13_unwrap]      for a validated Dist every rand_distr constructor called
                      by dist_sample succeeds (the unwraps cannot panic).
    [C13_uniform_pre] gen_range's assertions (low < high, finite range) hold
                      whenever the constant fast path is not taken.
    [C13_uniform_progress] the Uniform rejection loop accepts the draw 0, so it
                      terminates on every stream that is not stuck at the top
                      of the range.
    Not provable here: that the loops inside rand_distr's Binomial, Poisson,
    Gamma, Beta and ziggurat samplers return promptly. The correspondence run
    exercises them under scripted RNG prefixes in watchdog-supervised workers;
    the Binomial BINV hang it found is a recorded known finding. *)
From Flocq Require Import Core.Core IEEE754.BinarySingleNaN.
From MB Require Import Model.Framework Model.Validate.
From MB Require Import Proofs.DistRange.
Open Scope N_scope.

Theorem C13_range : forall tp p d,
  let v := fst (dist_sample_clamped tp p d) in
  nonneg v /\
  (fgt (f64_of_bits (dmax d)) f64_zero = true -> Bltb (f64_of_bits (dmax d)) v = false).
Proof. exact sample_range. Qed.
Print Assumptions C13_range.

Theorem C13_consumers : forall tp p d a cn,
  fst (sample_day_clamped tp p d) <= DAY_US /\
  fst (sample_limit tp p a) <= U64_MAX /\
  fst (sample_value tp p cn) <= U64_MAX.
Proof. exact consumers_in_range. Qed.
Print Assumptions C13_consumers.

Theorem C13_unwrap : forall d, validate_dist d = true -> ctor_ok d = true.
Proof. exact validated_ctor_ok. Qed.
Print Assumptions C13_unwrap.

Theorem C13_uniform_pre : forall d lo hi,
  validate_dist d = true -> dtype d = Uniform lo hi ->
  feq (f64_of_bits lo) (f64_of_bits hi) = false ->
  flt (f64_of_bits lo) (f64_of_bits hi) = true /\ is_finite (fsub (f64_of_bits hi) (f64_of_bits lo)) = true.
Proof. exact uniform_pre. Qed.
Print Assumptions C13_uniform_pre.

Theorem C13_uniform_progress_partial : forall low high : F64,
  is_finite low = true -> flt low high = true -> is_finite (fsub high low) = true ->
  exists r, uniform_try low high f64_zero = Some r.
Proof. exact uniform_accepts_zero. Qed.
Print Assumptions C13_uniform_progress_partial.

(** non-vacuity: NaN raw value with NaN start and max clamps to 0; +inf with max 7 clamps to 7 *)
Example C13_examples :
  let nan := 9221120237041090560 in let inf := 9218868437227405312 in let seven := 4619567317775286272 in
  f64_round_u64 (fst (dist_sample_clamped (fun _ => nan) 0 (mkdist (Normal 0 0) nan nan))) = 0 /\
  f64_round_u64 (fst (dist_sample_clamped (fun _ => inf) 0 (mkdist (Normal 0 0) 0 seven))) = 7.
Proof. vm_compute. split; reflexivity. Qed.
