(** C02 — padding budgets.

    Whenever a call reporting a single event returns SendPadding for machine
    i, then -- counting every NormalSent and PaddingSent report of the whole
    history including that event -- either machine i has had fewer paddings
    reported than its allowed_padding_packets, or its own padding fraction is
    below its max_padding_frac (if set) and the framework-wide fraction is
    below the framework's (if set). "Below" is the exact rational inequality
    p/t < f against the exact value of the f64 limit; a fraction over zero
    packets counts as below; a limit that is not > 0 is "unset".

    Quantifies over every validated configuration, every earlier history of
    calls (earlier calls may be batches), every event, time value and random
    tape. Guard: fewer than 2^53 packets reported (u64->f64 conversion exact). *)
From Coq Require Import Reals.
From Flocq Require Import Core.Core IEEE754.BinarySingleNaN.
From MB Require Import Model.Framework Model.Validate.
From MB Require Import Proofs.FloatFacts Proofs.FrameworkAcct Proofs.AcctSpec Proofs.PaddingBudget.
Open Scope N_scope.

Check frac_below :
  F64 -> N -> N -> Prop.
(* frac_below f p t := fgt f 0 = false \/ t = 0 \/ (p / t < B2R f)%R *)

Theorem C02_budget : forall c tp t0 s0 h e t s' outs i tmo byp rep m,
  valid_cfg c = true ->
  fnew c tp t0 = Ok s0 ->
  run c tp s0 (h ++ [([e], t)]) = Ok (s', outs) ->
  In (TSendPadding i tmo byp rep) (last outs []) ->
  nth_error (machines c) (N.to_nat i) = Some m ->
  let evs := all_events h ++ [e] in
  count_normal evs + count_pad evs < 2 ^ 53 ->
  count_pad_for i evs < allowed_padding_packets m \/
  (frac_below (f64_of_bits (max_padding_frac m)) (count_pad_for i evs)
              (count_normal evs + count_pad_for i evs) /\
   frac_below (f64_of_bits (fw_max_padding_frac c)) (count_pad evs)
              (count_pad evs + count_normal evs)).
Proof. exact padding_budget_history. Qed.
Print Assumptions C02_budget.

(** the counters the framework keeps are exactly the recount of the reports:
    accounting is a function of events and timestamps only *)
Theorem C02_accounting : forall c tp s evs t s' acts,
  trigger_events c tp s evs t = Ok (s', acts) ->
  acct_of s' = acct_call (clk c) evs t (acct_of s).
Proof. exact trigger_events_acct. Qed.
Print Assumptions C02_accounting.

(** the limit test itself: not exceeded, as computed in f64, implies the exact
    rational inequality *)
Theorem C02_fraction_exact : forall f p t,
  is_finite f = true -> p <= t -> t < 2 ^ 53 ->
  frac_exceeded f p t = false -> frac_below f p t.
Proof. exact not_exceeded_below. Qed.
Print Assumptions C02_fraction_exact.
