(** Prelude: outcome monad, list-as-array helpers, u64 helpers. *)
From Coq Require Export List NArith ZArith Bool Lia.
Export ListNotations.
Open Scope N_scope.

(** Outcome of a modelled Rust function: normal return, a panic (with the
    kind of the panicking site) or exhaustion of the recursion fuel. *)
Inductive outcome (A : Type) : Type :=
| Ok (a : A)
| Panic (k : N)
| OutOfFuel.
Arguments Ok {A} a.
Arguments Panic {A} k.
Arguments OutOfFuel {A}.

(** panic kinds *)
Definition P_INDEX : N := 1.   (* slice index out of bounds *)
Definition P_DURATION : N := 2. (* overflow when adding durations *)
Definition P_UNWRAP : N := 3.

Definition bind {A B} (o : outcome A) (f : A -> outcome B) : outcome B :=
  match o with
  | Ok a => f a
  | Panic k => Panic k
  | OutOfFuel => OutOfFuel
  end.

Notation "x <- e ;; f" := (bind e (fun x => f))
  (at level 61, e at next level, right associativity).
Notation "' p <- e ;; f" := (bind e (fun p => f))
  (at level 61, p pattern, e at next level, right associativity).

Definition is_ok {A} (o : outcome A) : bool :=
  match o with Ok _ => true | _ => false end.

Definition U64_MAX : N := 18446744073709551615.
Definition sat_add (a b : N) : N := N.min (a + b) U64_MAX.
Definition sat_sub (a b : N) : N := a - b. (* N subtraction truncates at 0 *)

(** list update at index *)
Fixpoint upd {A} (l : list A) (i : nat) (x : A) : list A :=
  match l, i with
  | [], _ => []
  | _ :: t, O => x :: t
  | h :: t, S i' => h :: upd t i' x
  end.

Definition get {A} (l : list A) (i : nat) : outcome A :=
  match nth_error l i with
  | Some x => Ok x
  | None => Panic P_INDEX
  end.

(** lookup by an N index without ever building a large unary number *)
Fixpoint nthN {A} (l : list A) (i : N) : option A :=
  match l with
  | [] => None
  | x :: t => if i =? 0 then Some x else nthN t (N.pred i)
  end.

Definition getN {A} (l : list A) (i : N) : outcome A :=
  match nthN l i with
  | Some x => Ok x
  | None => Panic P_INDEX
  end.

Fixpoint foldM {A B} (f : A -> B -> outcome A) (l : list B) (a : A) : outcome A :=
  match l with
  | [] => Ok a
  | b :: t => a' <- f a b ;; foldM f t a'
  end.
