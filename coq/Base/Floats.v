(** IEEE-754 binary32 / binary64 arithmetic as used by the Rust code, on top
    of Flocq's executable [BinarySingleNaN] formalisation. Floats enter the
    model as raw bit patterns (N) and are decoded here. *)
From Coq Require Import ZArith NArith Bool Lia.
From Flocq Require Import Core.Core IEEE754.BinarySingleNaN.
From Flocq Require IEEE754.Binary IEEE754.Bits.
Open Scope Z_scope.

Definition prec64 := 53.
Definition emax64 := 1024.
Definition prec32 := 24.
Definition emax32 := 128.
#[global] Instance Hprec64 : Prec_gt_0 prec64. Proof. unfold Prec_gt_0, prec64; lia. Qed.
#[global] Instance Hemax64 : Prec_lt_emax prec64 emax64. Proof. unfold Prec_lt_emax, prec64, emax64; lia. Qed.
#[global] Instance Hprec32 : Prec_gt_0 prec32. Proof. unfold Prec_gt_0, prec32; lia. Qed.
#[global] Instance Hemax32 : Prec_lt_emax prec32 emax32. Proof. unfold Prec_lt_emax, prec32, emax32; lia. Qed.

Definition F64 := binary_float prec64 emax64.
Definition F32 := binary_float prec32 emax32.

(** decoding of bit patterns (u64 / u32 as N) *)
Definition f64_of_bits (b : N) : F64 :=
  Binary.B2BSN prec64 emax64 (Bits.b64_of_bits (Z.of_N b)).
Definition f32_of_bits (b : N) : F32 :=
  Binary.B2BSN prec32 emax32 (Bits.b32_of_bits (Z.of_N b)).

(** [u64 as f64] (round to nearest even) *)
Definition f64_of_N (n : N) : F64 :=
  binary_normalize prec64 emax64 _ _ mode_NE (Z.of_N n) 0 false.

(** the f32 value k / 2^23 (exact for k < 2^24) *)
Definition f32_of_k (k : N) : F32 :=
  binary_normalize prec32 emax32 _ _ mode_NE (Z.of_N k) (-23) false.

Definition f64_zero : F64 := B754_zero false.
Definition f32_zero : F32 := B754_zero false.

Definition fadd (x y : F64) : F64 := Bplus mode_NE x y.
Definition fdiv (x y : F64) : F64 := Bdiv mode_NE x y.
Definition fadd32 (x y : F32) : F32 := Bplus mode_NE x y.

(** Rust comparison operators: all false when an operand is NaN *)
Definition flt (x y : F64) : bool := Bltb x y.
Definition fle (x y : F64) : bool := Bleb x y.
Definition fgt (x y : F64) : bool := Bltb y x.
Definition fge (x y : F64) : bool := Bleb y x.
Definition feq (x y : F64) : bool := Beqb x y.
Definition flt32 (x y : F32) : bool := Bltb x y.
Definition fle32 (x y : F32) : bool := Bleb x y.
Definition fgt32 (x y : F32) : bool := Bltb y x.

(** [f64::max] / [f64::min]: a NaN operand is ignored *)
Definition fmax (x y : F64) : F64 :=
  if is_nan x then y else if is_nan y then x else if Bltb x y then y else x.
Definition fmin (x y : F64) : F64 :=
  if is_nan x then y else if is_nan y then x else if Bltb y x then y else x.

Definition U64MAXZ : Z := 18446744073709551615.

(** [x.round() as u64]: round half away from zero, then a saturating cast
    (NaN and negative values give 0). *)
Definition f64_round_u64 (x : F64) : N :=
  match x with
  | B754_nan => 0%N
  | B754_zero _ => 0%N
  | B754_infinity s => if s then 0%N else Z.to_N U64MAXZ
  | B754_finite s m e _ =>
      if s then 0%N else
      let v :=
        if 0 <=? e then Z.pos m * 2 ^ e
        else
          let d := 2 ^ (- e) in
          let q := Z.pos m / d in
          let r := Z.pos m mod d in
          if d <=? 2 * r then q + 1 else q in
      Z.to_N (Z.min v U64MAXZ)
  end.

(** [x as u64]: truncation, saturating *)
Definition f64_trunc_u64 (x : F64) : N :=
  match x with
  | B754_nan => 0%N
  | B754_zero _ => 0%N
  | B754_infinity s => if s then 0%N else Z.to_N U64MAXZ
  | B754_finite s m e _ =>
      if s then 0%N else
      let v := if 0 <=? e then Z.pos m * 2 ^ e else Z.pos m / 2 ^ (- e) in
      Z.to_N (Z.min v U64MAXZ)
  end.

(** one day in microseconds, the clamp for sampled timeouts and durations *)
Definition DAY_US : N := 86400000000%N.
Definition f64_day : F64 := f64_of_N DAY_US.
