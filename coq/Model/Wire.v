(** Exchange format between the Rust harness and the model (DESIGN.md
    appendix B): a case is a flat list of naturals; the result is a list of
    lines of naturals. The parser is Gallina so that the extracted run and the
    in-Coq [vm_compute] run share it. *)
From MB Require Import Model.Framework Model.Validate Model.Thresholds Model.FFI Model.Sim.
From MB Require Model.Codec.Base64 Model.Codec.Bincode Model.Codec.V1.
Open Scope N_scope.

Definition parser (A : Type) := list N -> option (A * list N).

Definition pret {A} (a : A) : parser A := fun l => Some (a, l).
Definition pbind {A B} (p : parser A) (f : A -> parser B) : parser B :=
  fun l => match p l with Some (a, l') => f a l' | None => None end.
Notation "x <~ e ;; f" := (pbind e (fun x => f))
  (at level 61, e at next level, right associativity).

Definition pnum : parser N := fun l => match l with x :: t => Some (x, t) | [] => None end.
Definition pbool : parser bool := x <~ pnum ;; pret (negb (x =? 0)).
Definition pfail {A} : parser A := fun _ => None.

Fixpoint prep {A} (n : nat) (p : parser A) : parser (list A) :=
  match n with
  | O => pret []
  | S n' => x <~ p ;; xs <~ prep n' p ;; pret (x :: xs)
  end.

Definition plist {A} (p : parser A) : parser (list A) :=
  n <~ pnum ;; prep (N.to_nat n) p.

Definition popt {A} (p : parser A) : parser (option A) :=
  t <~ pnum ;; if t =? 0 then pret None else x <~ p ;; pret (Some x).

Definition pdist : parser dist :=
  k <~ pnum ;; a <~ pnum ;; b <~ pnum ;; c <~ pnum ;; st <~ pnum ;; mx <~ pnum ;;
  let mk t := pret (mkdist t st mx) in
  match k with
  | 0 => mk (Uniform a b)
  | 1 => mk (Normal a b)
  | 2 => mk (SkewNormal a b c)
  | 3 => mk (LogNormal a b)
  | 4 => mk (Binomial a b)
  | 5 => mk (Geometric a)
  | 6 => mk (Pareto a b)
  | 7 => mk (Poisson a)
  | 8 => mk (Weibull a b)
  | 9 => mk (Gamma a b)
  | 10 => mk (Beta a b)
  | _ => pfail
  end.

Definition ptimer : parser timer :=
  t <~ pnum ;;
  match t with 0 => pret TAction | 1 => pret TInternal | 2 => pret TAll | _ => pfail end.

Definition paction : parser (option action) :=
  k <~ pnum ;;
  match k with
  | 0 => pret None
  | 1 => t <~ ptimer ;; pret (Some (Cancel t))
  | 2 => by_ <~ pbool ;; rp <~ pbool ;; t <~ pdist ;; l <~ popt pdist ;;
         pret (Some (SendPadding by_ rp t l))
  | 3 => by_ <~ pbool ;; rp <~ pbool ;; t <~ pdist ;; d <~ pdist ;; l <~ popt pdist ;;
         pret (Some (BlockOutgoing by_ rp t d l))
  | 4 => rp <~ pbool ;; d <~ pdist ;; l <~ popt pdist ;; pret (Some (UpdateTimer rp d l))
  | _ => pfail
  end.

Definition pcounter : parser (option counter) :=
  popt (o <~ pnum ;; d <~ popt pdist ;; cp <~ pbool ;;
        match o with
        | 0 => pret (mkcounter Increment d cp)
        | 1 => pret (mkcounter Decrement d cp)
        | 2 => pret (mkcounter CSet d cp)
        | _ => pfail
        end).

Definition ptrans : parser trans := t <~ pnum ;; p <~ pnum ;; pret (t, p).

Definition pstate : parser state :=
  a <~ paction ;; c1 <~ pcounter ;; c2 <~ pcounter ;;
  tv <~ prep EVENT_NUM (popt (plist ptrans)) ;;
  pret (mkstate a c1 c2 tv).

Definition pmachine : parser machine :=
  ap <~ pnum ;; pf <~ pnum ;; ab <~ pnum ;; bf <~ pnum ;; sts <~ plist pstate ;;
  pret (mkmachine ap pf ab bf sts).

Definition pevent : parser trigger_event :=
  k <~ pnum ;; m <~ pnum ;;
  match k with
  | 0 => pret TENormalRecv | 1 => pret TEPaddingRecv | 2 => pret TETunnelRecv
  | 3 => pret TENormalSent | 4 => pret (TEPaddingSent m) | 5 => pret TETunnelSent
  | 6 => pret (TEBlockingBegin m) | 7 => pret TEBlockingEnd
  | 8 => pret (TETimerBegin m) | 9 => pret (TETimerEnd m)
  | _ => pfail
  end.

Definition pcall : parser (list trigger_event * Z) :=
  t <~ pnum ;; evs <~ plist pevent ;; pret (evs, Z.of_N t).

Record fcase := mkfcase {
  fc_cfg : cfg;
  fc_t0 : Z;
  fc_hist : list (list trigger_event * Z);
  fc_tape : list N
}.

Definition pcfg : parser cfg :=
  pf <~ pnum ;; bf <~ pnum ;; ms <~ plist pmachine ;; pret (mkcfg ms pf bf vclock).

Definition pfcase : parser fcase :=
  c <~ pcfg ;; t0 <~ pnum ;; h <~ plist pcall ;; tp <~ plist pnum ;;
  pret (mkfcase c (Z.of_N t0) h tp).

(** ** Canonical output *)
Definition N_of_bool (b : bool) : N := if b then 1 else 0.

Definition out_timer (t : timer) : N := match t with TAction => 0 | TInternal => 1 | TAll => 2 end.

Definition out_action (a : taction) : list N :=
  match a with
  | TCancel m t => [0; m; out_timer t; 0; 0; 0]
  | TSendPadding m t by_ rp => [1; m; t; 0; N_of_bool by_; N_of_bool rp]
  | TBlockOutgoing m t d by_ rp => [2; m; t; d; N_of_bool by_; N_of_bool rp]
  | TUpdateTimer m d rp => [3; m; 0; d; 0; N_of_bool rp]
  end.

Definition out_rt (r : mrt) (slot : option taction) : list N :=
  [cur r; lim r; psent r; nsent r; bdur r; ca r; cb r; N_of_bool (za r); N_of_bool (zb r);
   match slot with Some _ => 1 | None => 0 end].

Fixpoint out_rts (rs : list mrt) (sl : list (option taction)) : list N :=
  match rs, sl with
  | r :: rs', a :: sl' => out_rt r a ++ out_rts rs' sl'
  | r :: rs', [] => out_rt r None ++ out_rts rs' []
  | [], _ => []
  end.

Definition out_sig (g : option sigtarget) : N :=
  match g with None => 0 | Some SigAll => 1 | Some (SigAllExcept x) => 2 + N.of_nat x end.

Definition out_state (s : fstate) : list N :=
  [nsteps s; N.of_nat (pos s); gnorm s; gpad s; gblk s; N_of_bool (bactive s);
   Z.to_N (bstart s); out_sig (sigp s); N.of_nat (length (rts s))]
  ++ out_rts (rts s) (slots s).

Definition out_log (l : list (N * N * N)) : list N :=
  N.of_nat (length l) :: flat_map (fun '(a, b, c) => [a; b; c]) (rev l).

Definition out_actions (l : list taction) : list N :=
  N.of_nat (length l) :: flat_map out_action l.

Definition out_fail {A} (o : outcome A) : list N :=
  match o with Ok _ => [0] | Panic k => [1; k] | OutOfFuel => [2] end.

Definition tape_of_list (l : list N) : tape := fun i => nth i l 0.

Fixpoint run_calls (c : cfg) (tp : tape) (s : fstate) (h : list (list trigger_event * Z))
  : list (list N) :=
  match h with
  | [] => []
  | (evs, t) :: h' =>
      match trigger_events c tp s evs t with
      | Ok (s', acts) =>
          ([0] ++ out_state s' ++ out_actions acts ++ out_log (flog s')) :: run_calls c tp s' h'
      | o => [out_fail o]
      end
  end.

Definition run_fcase (fc : fcase) : list (list N) :=
  let tp := tape_of_list (fc_tape fc) in
  match fnew (fc_cfg fc) tp (fc_t0 fc) with
  | Ok s => ([0] ++ out_state s) :: run_calls (fc_cfg fc) tp s (fc_hist fc)
  | o => [out_fail o]
  end.

(** validation case: fractions and one machine; the four columns are
    Machine::validate, Framework::new (this machine, these fractions),
    Machine::from_str (serialize m) and Machine::new *)
Definition run_vcase (l : list N) : list (list N) :=
  match (pf <~ pnum ;; bf <~ pnum ;; m <~ pmachine ;; pret (pf, bf, m)) l with
  | Some ((pf, bf, m), []) =>
      let v := validate_machine m in
      let u := in_unit (f64_of_bits pf) && in_unit (f64_of_bits bf) in
      [[N_of_bool v; N_of_bool (v && u); N_of_bool v; N_of_bool v]]
  | _ => [[99]]
  end.

(** sampling case: a distribution and a list of raw sampler results; per raw
    value the three integer readings of Dist::sample: as a timeout/duration
    (min(1 day).round()), as a limit (round()), as a counter value (trunc) *)
Definition run_scase (l : list N) : list (list N) :=
  match (d <~ pdist ;; raws <~ plist pnum ;; pret (d, raws)) l with
  | Some ((d, raws), []) =>
      [N_of_bool (validate_dist d) ::
       flat_map (fun raw =>
                   let v := fst (dist_sample_clamped (fun _ => raw) 0 d) in
                   [f64_round_u64 (fmin v f64_day); f64_round_u64 v; f64_trunc_u64 v]) raws]
  | _ => [[99]]
  end.

(** transition-vector case: number of states and one vector; output: the
    validation verdict and, per target, the number of draws k in [0, 2^23)
    that select this or an earlier target (clipped running maximum of the
    integer thresholds) *)
Fixpoint cumulative (th : list Z) (acc : Z) : list N :=
  match th with
  | [] => []
  | x :: t => let a := Z.max acc (Z.min (Z.max x 0) 8388608) in Z.to_N a :: cumulative t a
  end.

Definition run_tcase (l : list N) : list (list N) :=
  match (n <~ pnum ;; v <~ plist ptrans ;; pret (n, v)) l with
  | Some ((n, v), []) =>
      if validate_vector n v [] f32_zero then [1%N :: cumulative (map thr (sums v f32_zero)) 0]
      else [[0%N]]
  | _ => [[99]]
  end.

(** codec cases *)
Definition run_ser (l : list N) : list (list N) :=         (* machine -> bincode bytes *)
  match pmachine l with
  | Some (m, []) => [N_of_bool (Bincode.wf_machineb m) :: Bincode.ser_machine m]
  | _ => [[99]]
  end.
Definition run_b64enc (l : list N) : list (list N) := [Base64.b64_encode l].
Definition run_b64dec (l : list N) : list (list N) :=
  match Base64.b64_decode l with Some bs => [1 :: bs] | None => [[0]] end.
Definition run_de (l : list N) : list (list N) :=          (* bytes -> machine, re-encoded *)
  match Bincode.de_machine l with
  | Some m => [1 :: N_of_bool (validate_machine m) :: Bincode.ser_machine m]
  | None => [[0]]
  end.

(** FFI case: like a framework case, events given as (type, machine) pairs;
    per call the result code, the number of actions written and their C
    encodings; then the start code for the given flags *)
Definition pcevent : parser (N * N) := ty <~ pnum ;; m <~ pnum ;; pret (ty, m).
Definition pccall : parser (list (N * N) * Z) := t <~ pnum ;; evs <~ plist pcevent ;; pret (evs, Z.of_N t).

Fixpoint run_ccalls (c : cfg) (tp : tape) (s : fstate) (h : list (list (N * N) * Z)) : list (list N) :=
  match h with
  | [] => []
  | (evs, t) :: h' =>
      match ffi_on_events c tp false false false false s evs t with
      | Ok (code, s', out) => (code :: N.of_nat (length out) :: concat out) :: run_ccalls c tp s' h'
      | o => [out_fail o]
      end
  end.

Definition run_ffi (l : list N) : list (list N) :=
  match (c <~ pcfg ;; t0 <~ pnum ;; h <~ plist pccall ;; tp <~ plist pnum ;;
         flags <~ plist pnum ;; pret (c, t0, h, tp, flags)) l with
  | Some ((c, t0, h, tp, flags), []) =>
      let tape := tape_of_list tp in
      let start :=
        match flags with
        | out_null :: utf8 :: lines =>
            [ffi_start_code (negb (out_null =? 0)) (negb (utf8 =? 0)) (map (fun x => negb (x =? 0)) lines)
                            (fw_max_padding_frac c) (fw_max_blocking_frac c)]
        | _ => [99]
        end in
      match fnew c tape (Z.of_N t0) with
      | Ok s => start :: [N.of_nat (length (machines c))] :: run_ccalls c tape s h
      | o => [start; out_fail o]
      end
  | _ => [[99]]
  end.

(** simulator case *)
Definition TIME_BIAS : Z := 1000000000000000.

Definition pcfg_std : parser cfg :=
  pf <~ pnum ;; bf <~ pnum ;; ms <~ plist pmachine ;; pret (mkcfg ms pf bf stdclock).

Definition pqev : parser (Z * bool) := t <~ pnum ;; c <~ pbool ;; pret ((Z.of_N t - TIME_BIAS)%Z, c).

Definition out_sev (e : sev) : list N :=
  let '(k, m) := match se_ev e with
                 | TENormalRecv => (0, 0) | TEPaddingRecv => (1, 0) | TETunnelRecv => (2, 0)
                 | TENormalSent => (3, 0) | TEPaddingSent m => (4, m) | TETunnelSent => (5, 0)
                 | TEBlockingBegin m => (6, m) | TEBlockingEnd => (7, 0)
                 | TETimerBegin m => (8, m) | TETimerEnd m => (9, m)
                 end in
  [Z.to_N (se_time e + TIME_BIAS); N_of_bool (se_client e); k; m; N_of_bool (se_pad e);
   N_of_bool (se_bypass e); N_of_bool (se_replace e)].

(** The case carries the trace lines (time, is_send) in file order. When the
    harness built the queue with parse_trace ([parsed] = Some real_pps) the
    model parses too and reports its own pps on a line [2; pps] (the harness
    prints the real queue's value); otherwise the lines are pushed as they
    are (client sends at t, server sends at t - delay) with no pps limit. *)
Definition run_sim (l : list N) : list (list N) :=
  match (cc <~ pcfg_std ;; sc <~ pcfg_std ;; delay <~ pnum ;; pps <~ popt pnum ;; parsed <~ pbool ;;
         mt <~ pnum ;; mi <~ pnum ;; cont <~ pbool ;; oc <~ pbool ;; on <~ pbool ;;
         q <~ plist pqev ;; tp <~ plist pnum ;;
         pret (cc, sc, delay, pps, parsed, mksimargs mt mi cont oc on, q, tp)) l with
  | Some ((cc, sc, delay, pps, parsed, args, q, tp), []) =>
      let sq0 := parse_trace q delay in
      let sq := if parsed then sq0 else mksimq (sq_c sq0) (sq_s sq0) None in
      let hdr := if parsed then [[2; match sq_pps sq with Some x => x | None => 0 end]] else [] in
      hdr ++
      match sim_advanced (N.to_nat 6000) cc sc (tape_of_list tp) sq delay pps args with
      | Ok tr => [0; N.of_nat (length tr)] :: map out_sev tr
      | o => [out_fail o]
      end
  | _ => [[99]]
  end.

(** framework case on the std::time clock (nanosecond ticks relative to the
    harness's base instant): same layout and output as tag 1 *)
Definition pfcase_std : parser fcase :=
  c <~ pcfg_std ;; t0 <~ pnum ;; h <~ plist pcall ;; tp <~ plist pnum ;;
  pret (mkfcase c (Z.of_N t0) h tp).

(** entry point: tag 1 = framework case, 2 = validation case, 3 = sampling
    case, 4 = transition-vector case, 5-8 = codec cases, 9 = FFI case,
    10 = simulator case, 11 = legacy v1 parser case, 12 = framework case on
    the std clock *)
Definition run_wire (l : list N) : list (list N) :=
  match l with
  | 1 :: rest =>
      match pfcase rest with
      | Some (fc, []) => run_fcase fc
      | _ => [[99]]    (* unparsable case *)
      end
  | 2 :: rest => run_vcase rest
  | 3 :: rest => run_scase rest
  | 4 :: rest => run_tcase rest
  | 5 :: rest => run_ser rest
  | 6 :: rest => run_b64enc rest
  | 7 :: rest => run_b64dec rest
  | 8 :: rest => run_de rest
  | 9 :: rest => run_ffi rest
  | 10 :: rest => run_sim rest
  | 11 :: rest => [V1.run_v1 rest]
  | 12 :: rest =>
      match pfcase_std rest with
      | Some (fc, []) => run_fcase fc
      | _ => [[99]]
      end
  | _ => [[98]]
  end.
