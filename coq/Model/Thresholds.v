(** Executable integer thresholds of State::sample_state (see Proofs/SampleState.v
    for their characterisation): thr S = ceil (S * 2^23). *)
From Flocq Require Import IEEE754.BinarySingleNaN.
From MB Require Import Model.Framework.
Open Scope Z_scope.

(** ** the integer threshold of a partial sum *)
Definition thr (s : F32) : Z :=
  match s with
  | B754_finite false m e _ =>
      let e' := e + 23 in
      if 0 <=? e' then Z.pos m * 2 ^ e'
      else (Z.pos m + 2 ^ (- e') - 1) / 2 ^ (- e')       (* ceiling division *)
  | B754_infinity false => 2 ^ 24
  | _ => 0
  end.


(** ** partial sums and the integer sampler *)
Fixpoint sums (v : list trans) (s : F32) : list F32 :=
  match v with
  | [] => []
  | (_, p) :: v' => let s' := fadd32 s (f32_of_bits p) in s' :: sums v' s'
  end.

Fixpoint pick_int (ts : list N) (th : list Z) (k : Z) : option N :=
  match ts, th with
  | t :: ts', x :: th' => if k <? x then Some t else pick_int ts' th' k
  | _, _ => None
  end.

