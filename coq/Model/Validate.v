(** Model of the validation code: Dist::validate (dist.rs, including the
    parameter checks of the rand_distr 0.4.3 constructors it calls),
    Action::validate, Counter::validate, State::validate, Machine::validate and
    the fraction checks of Framework::new. *)
From MB Require Export Model.Framework.
From Flocq Require Import IEEE754.BinarySingleNaN.
Open Scope N_scope.

Definition fsub (x y : F64) : F64 := Bminus mode_NE x y.
Definition is_inf {p e} (x : binary_float p e) : bool :=
  match x with B754_infinity _ => true | _ => false end.

Definition f64_one : F64 := f64_of_bits 4607182418800017408.
Definition f32_one : F32 := f32_of_bits 1065353216.
Definition DIST_MIN_PROBABILITY : F64 := f64_of_bits 4472406533629990549.  (* 1e-9 *)
Definition POISSON_MAX_LAMBDA : F64 := f64_of_bits 5235141515912716385.    (* 1e42 *)

(** [(0.0..=1.0).contains(&x)] *)
Definition in_unit (x : F64) : bool := fle f64_zero x && fle x f64_one.

Definition too_small_probability (p : F64) : bool :=
  negb (feq p f64_zero) && flt p DIST_MIN_PROBABILITY.

Definition validate_dist (d : dist) : bool :=
  match dtype d with
  | Uniform lo hi =>
      let l := f64_of_bits lo in let h := f64_of_bits hi in
      negb (is_nan l || is_nan h) && negb (is_inf l || is_inf h) && negb (fgt l h)
      && negb (is_inf (fsub h l))
  | Normal _ sd => is_finite (f64_of_bits sd)
  | SkewNormal _ sc sh =>
      is_finite (f64_of_bits sc) && fgt (f64_of_bits sc) f64_zero && is_finite (f64_of_bits sh)
  | LogNormal _ sg => is_finite (f64_of_bits sg)
  | Binomial trials p =>
      let p := f64_of_bits p in
      negb (too_small_probability p) && (trials <=? 1000000000)
      && fge p f64_zero && fle p f64_one
  | Geometric p =>
      let p := f64_of_bits p in
      negb (too_small_probability p)
      && is_finite p && negb (flt p f64_zero) && negb (fgt p f64_one)
  | Pareto sc sh => fgt (f64_of_bits sc) f64_zero && fgt (f64_of_bits sh) f64_zero
  | Poisson l =>
      negb (fgt (f64_of_bits l) POISSON_MAX_LAMBDA) && fgt (f64_of_bits l) f64_zero
  | Weibull sc sh => fgt (f64_of_bits sc) f64_zero && fgt (f64_of_bits sh) f64_zero
  | Gamma sc sh => fgt (f64_of_bits sh) f64_zero && fgt (f64_of_bits sc) f64_zero
  | Beta a b => fgt (f64_of_bits a) f64_zero && fgt (f64_of_bits b) f64_zero
  end.

Definition validate_optdist (d : option dist) : bool :=
  match d with Some d => validate_dist d | None => true end.

Definition validate_action (a : action) : bool :=
  match a with
  | Cancel _ => true
  | SendPadding _ _ t l => validate_dist t && validate_optdist l
  | BlockOutgoing _ _ t d l => validate_dist t && validate_dist d && validate_optdist l
  | UpdateTimer _ d l => validate_dist d && validate_optdist l
  end.

Definition validate_counter (c : counter) : bool := validate_optdist (cdist c).

Definition target_ok (num_states t : N) : bool :=
  (t <? num_states) || (t =? STATE_END) || (t =? STATE_SIGNAL).

(** one transition vector: targets in range, no duplicates, every
    probability in (0,1], f32 sum in (0,1] *)
Fixpoint validate_vector (num_states : N) (v : list trans) (seen : list N) (sum : F32) : bool :=
  match v with
  | [] => fgt32 sum f32_zero && fle32 sum f32_one
  | (t, p) :: v' =>
      let pf := f32_of_bits p in
      target_ok num_states t
      && negb (existsb (N.eqb t) seen)
      && (fgt32 pf f32_zero && fle32 pf f32_one)
      && validate_vector num_states v' (t :: seen) (fadd32 sum pf)
  end.

Definition validate_state (num_states : N) (st : state) : bool :=
  forallb (fun ov => match ov with
                     | Some v => validate_vector num_states v [] f32_zero
                     | None => true
                     end) (strans st)
  && match saction st with Some a => validate_action a | None => true end
  && match sctr_a st with Some c => validate_counter c | None => true end
  && match sctr_b st with Some c => validate_counter c | None => true end.

Definition validate_machine (m : machine) : bool :=
  in_unit (f64_of_bits (max_padding_frac m))
  && in_unit (f64_of_bits (max_blocking_frac m))
  && let n := N.of_nat (length (states m)) in
     (0 <? n) && (n <=? STATE_MAX)
     && forallb (validate_state n) (states m).

Definition valid_cfg (c : cfg) : bool :=
  in_unit (f64_of_bits (fw_max_padding_frac c))
  && in_unit (f64_of_bits (fw_max_blocking_frac c))
  && forallb validate_machine (machines c).
