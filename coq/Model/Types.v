(** Data types of the maybenot crate (machine.rs, state.rs, action.rs,
    counter.rs, dist.rs, event.rs). Floats are raw bit patterns. *)
From MB Require Export Base.Prelude.
Open Scope N_scope.

(** constants.rs *)
Definition STATE_END : N := 4294967295.          (* u32::MAX *)
Definition STATE_SIGNAL : N := 4294967294.
Definition STATE_MAX : N := 4294967293.
Definition STATE_LIMIT_MAX : N := U64_MAX.
Definition EVENT_NUM : nat := 13.

(** dist.rs: parameters are f64 bit patterns, [trials] is a u64 *)
Inductive disttype :=
| Uniform (low high : N)
| Normal (mean stdev : N)
| SkewNormal (location scale shape : N)
| LogNormal (mu sigma : N)
| Binomial (trials : N) (probability : N)
| Geometric (probability : N)
| Pareto (scale shape : N)
| Poisson (lambda : N)
| Weibull (scale shape : N)
| Gamma (scale shape : N)
| Beta (alpha beta : N).

Record dist := mkdist { dtype : disttype; dstart : N; dmax : N }.

Inductive timer := TAction | TInternal | TAll.

Inductive action :=
| Cancel (t : timer)
| SendPadding (bypass replace : bool) (timeout : dist) (limit : option dist)
| BlockOutgoing (bypass replace : bool) (timeout duration : dist) (limit : option dist)
| UpdateTimer (replace : bool) (duration : dist) (limit : option dist).

Inductive operation := Increment | Decrement | CSet.

Record counter := mkcounter { cop : operation; cdist : option dist; ccopy : bool }.

(** event.rs: the 13 events, in declaration order *)
Inductive event :=
| NormalRecv | PaddingRecv | TunnelRecv | NormalSent | PaddingSent | TunnelSent
| BlockingBegin | BlockingEnd | LimitReached | CounterZero | TimerBegin | TimerEnd
| Signal.

Definition event_idx (e : event) : nat :=
  match e with
  | NormalRecv => 0 | PaddingRecv => 1 | TunnelRecv => 2 | NormalSent => 3
  | PaddingSent => 4 | TunnelSent => 5 | BlockingBegin => 6 | BlockingEnd => 7
  | LimitReached => 8 | CounterZero => 9 | TimerBegin => 10 | TimerEnd => 11
  | Signal => 12
  end%nat.

(** the 10 trigger events reported by the integrator *)
Inductive trigger_event :=
| TENormalRecv | TEPaddingRecv | TETunnelRecv | TENormalSent
| TEPaddingSent (m : N) | TETunnelSent | TEBlockingBegin (m : N) | TEBlockingEnd
| TETimerBegin (m : N) | TETimerEnd (m : N).

(** state.rs: a transition is (target state, f32 probability bits) *)
Definition trans := (N * N)%type.

Record state := mkstate {
  saction : option action;
  sctr_a : option counter;
  sctr_b : option counter;
  strans : list (option (list trans))    (* EVENT_NUM entries *)
}.

Record machine := mkmachine {
  allowed_padding_packets : N;
  max_padding_frac : N;          (* f64 bits *)
  allowed_blocked_microsec : N;
  max_blocking_frac : N;         (* f64 bits *)
  states : list state
}.

(** action.rs: actions returned to the integrator; durations in clock ticks *)
Inductive taction :=
| TCancel (m : N) (t : timer)
| TSendPadding (m : N) (timeout : N) (bypass replace : bool)
| TBlockOutgoing (m : N) (timeout duration : N) (bypass replace : bool)
| TUpdateTimer (m : N) (duration : N) (replace : bool).

Definition taction_machine (a : taction) : N :=
  match a with
  | TCancel m _ | TSendPadding m _ _ _ | TBlockOutgoing m _ _ _ _ | TUpdateTimer m _ _ => m
  end.

Definition action_has_limit (a : action) : bool :=
  match a with
  | SendPadding _ _ _ (Some _) | BlockOutgoing _ _ _ _ (Some _) | UpdateTimer _ _ (Some _) => true
  | _ => false
  end.
