(** bincode 1.3.3 encoding of [Machine] with [DefaultOptions]
    (VarintEncoding, little endian, RejectTrailing) for the serde-derived
    types of the maybenot crate.

    Bytes are [N] (< 256).  Encoders produce [list N]; decoders are parsers
    [list N -> option (A * list N)] returning the value and the unconsumed
    input.  The 1 MiB byte limit of [with_limit] is not modelled in the
    decoder; [ser_size] gives the size of the encoding.

    What is modelled (see bincode-1.3.3/src/config/int.rs, src/de/mod.rs,
    src/ser/mod.rs and the serde derive conventions):
    - u16/u32/u64/usize (including enum variant indices, which are u32, and
      sequence lengths, which are u64): varint.  v < 251: the byte v;
      v < 2^16: 251 then u16 LE; v < 2^32: 252 then u32 LE; otherwise 253
      then u64 LE.  [deserialize_varint] accepts any marker 251/252/253
      followed by the literal (it does NOT reject non-minimal encodings),
      rejects 254 (u128) and 255 (extension point); u32 values are then
      range checked ([cast_u64_to_u32]); usize is 64 bit so its cast never
      fails.
    - f64 / f32: 8 / 4 bytes little endian of the bit pattern.
    - bool: one byte 0/1, other values rejected (InvalidBoolEncoding).
    - Option: one byte tag 0/1, other values rejected (InvalidTagEncoding),
      then the payload.
    - struct / tuple / tuple struct / fixed-size array: the fields / elements
      in order, no length prefix.
    - Vec: varint u64 length, then the elements.
    - enum: varint u32 variant index (declaration order; an index that is
      not a variant is rejected by the derived visitor), then the fields of
      the variant in declaration order. *)
From MB Require Import Base.Prelude Model.Types.
Open Scope N_scope.

(** * Parsers *)

Definition parser (A : Type) : Type := list N -> option (A * list N).

Definition pret {A} (a : A) : parser A := fun bs => Some (a, bs).

Definition pfail {A} : parser A := fun _ => None.

Definition pbind {A B} (p : parser A) (f : A -> parser B) : parser B :=
  fun bs =>
    match p bs with
    | Some (a, r) => f a r
    | None => None
    end.

Notation "x <~ e ;; f" := (pbind e (fun x => f))
  (at level 61, e at next level, right associativity).

(** * Fixed-width little endian literals *)

Fixpoint ser_le (n : nat) (v : N) : list N :=
  match n with
  | O => []
  | S n' => (v mod 256) :: ser_le n' (v / 256)
  end.

Fixpoint de_le (n : nat) : parser N :=
  fun bs =>
    match n with
    | O => Some (0, bs)
    | S n' =>
        match bs with
        | [] => None     (* unexpected end of input *)
        | b :: t =>
            match de_le n' t with
            | Some (v, r) => Some (b + 256 * v, r)
            | None => None
            end
        end
    end.

Definition TWO16 : N := 65536.
Definition TWO32 : N := 4294967296.
Definition TWO64 : N := 18446744073709551616.

(** * Varint *)

Definition ser_varint (v : N) : list N :=
  if v <? 251 then [v]
  else if v <? TWO16 then 251 :: ser_le 2 v
  else if v <? TWO32 then 252 :: ser_le 4 v
  else 253 :: ser_le 8 v.

(** [VarintEncoding::deserialize_varint] *)
Definition de_varint : parser N :=
  fun bs =>
    match bs with
    | [] => None
    | b :: t =>
        if b <? 251 then Some (b, t)
        else if b =? 251 then de_le 2 t
        else if b =? 252 then de_le 4 t
        else if b =? 253 then de_le 8 t
        else None      (* 254: u128 range; 255: extension point *)
    end.

(** u64 and usize (64-bit target: [cast_u64_to_usize] never fails) *)
Definition ser_u64 (v : N) : list N := ser_varint v.
Definition de_u64 : parser N := de_varint.

(** u32: varint followed by [cast_u64_to_u32] *)
Definition ser_u32 (v : N) : list N := ser_varint v.
Definition de_u32 : parser N :=
  v <~ de_varint ;; if v <? TWO32 then pret v else pfail.

(** * Floats (bit patterns) *)

Definition ser_f64 (v : N) : list N := ser_le 8 v.
Definition de_f64 : parser N := de_le 8.
Definition ser_f32 (v : N) : list N := ser_le 4 v.
Definition de_f32 : parser N := de_le 4.

(** * bool, Option, sequences *)

Definition ser_bool (b : bool) : list N := if b then [1] else [0].

Definition de_bool : parser bool :=
  fun bs =>
    match bs with
    | [] => None
    | b :: t =>
        if b =? 0 then Some (false, t)
        else if b =? 1 then Some (true, t)
        else None
    end.

Definition ser_option {A} (f : A -> list N) (o : option A) : list N :=
  match o with
  | None => [0]
  | Some x => 1 :: f x
  end.

Definition de_option {A} (p : parser A) : parser (option A) :=
  fun bs =>
    match bs with
    | [] => None
    | b :: t =>
        if b =? 0 then Some (None, t)
        else if b =? 1 then
          match p t with
          | Some (x, r) => Some (Some x, r)
          | None => None
          end
        else None
    end.

(** elements in order, no length prefix (tuples, fixed-size arrays, and the
    body of a Vec) *)
Definition ser_seq {A} (f : A -> list N) (l : list A) : list N :=
  concat (map f l).

(** exactly [n] elements, [n] statically known *)
Fixpoint de_arr {A} (p : parser A) (n : nat) : parser (list A) :=
  fun bs =>
    match n with
    | O => Some ([], bs)
    | S n' =>
        match p bs with
        | Some (x, r) =>
            match de_arr p n' r with
            | Some (xs, r') => Some (x :: xs, r')
            | None => None
            end
        | None => None
        end
    end.

(** [n] elements where [n] was read from the input.  [fuel] bounds the
    number of elements; it is instantiated with the length of the remaining
    input, which is enough because every element type used here consumes at
    least one byte: if more than [length bs] elements are announced, the real
    decoder fails with an unexpected end of input, and so does this one. *)
Fixpoint de_rep {A} (p : parser A) (fuel : nat) (n : N) : parser (list A) :=
  fun bs =>
    if n =? 0 then Some ([], bs)
    else
      match fuel with
      | O => None
      | S fuel' =>
          match p bs with
          | Some (x, r) =>
              match de_rep p fuel' (N.pred n) r with
              | Some (xs, r') => Some (x :: xs, r')
              | None => None
              end
          | None => None
          end
      end.

Definition ser_vec {A} (f : A -> list N) (l : list A) : list N :=
  ser_u64 (N.of_nat (length l)) ++ ser_seq f l.

Definition de_vec {A} (p : parser A) : parser (list A) :=
  fun bs =>
    match de_u64 bs with
    | Some (n, r) => de_rep p (length r) n r
    | None => None
    end.

(** * dist.rs *)

Definition ser_disttype (d : disttype) : list N :=
  match d with
  | Uniform low high => ser_u32 0 ++ ser_f64 low ++ ser_f64 high
  | Normal mean stdev => ser_u32 1 ++ ser_f64 mean ++ ser_f64 stdev
  | SkewNormal location scale shape =>
      ser_u32 2 ++ ser_f64 location ++ ser_f64 scale ++ ser_f64 shape
  | LogNormal mu sigma => ser_u32 3 ++ ser_f64 mu ++ ser_f64 sigma
  | Binomial trials probability => ser_u32 4 ++ ser_u64 trials ++ ser_f64 probability
  | Geometric probability => ser_u32 5 ++ ser_f64 probability
  | Pareto scale shape => ser_u32 6 ++ ser_f64 scale ++ ser_f64 shape
  | Poisson lambda => ser_u32 7 ++ ser_f64 lambda
  | Weibull scale shape => ser_u32 8 ++ ser_f64 scale ++ ser_f64 shape
  | Gamma scale shape => ser_u32 9 ++ ser_f64 scale ++ ser_f64 shape
  | Beta alpha beta => ser_u32 10 ++ ser_f64 alpha ++ ser_f64 beta
  end.

Definition de_disttype : parser disttype :=
  idx <~ de_u32 ;;
  match idx with
  | 0 => a <~ de_f64 ;; b <~ de_f64 ;; pret (Uniform a b)
  | 1 => a <~ de_f64 ;; b <~ de_f64 ;; pret (Normal a b)
  | 2 => a <~ de_f64 ;; b <~ de_f64 ;; c <~ de_f64 ;; pret (SkewNormal a b c)
  | 3 => a <~ de_f64 ;; b <~ de_f64 ;; pret (LogNormal a b)
  | 4 => a <~ de_u64 ;; b <~ de_f64 ;; pret (Binomial a b)
  | 5 => a <~ de_f64 ;; pret (Geometric a)
  | 6 => a <~ de_f64 ;; b <~ de_f64 ;; pret (Pareto a b)
  | 7 => a <~ de_f64 ;; pret (Poisson a)
  | 8 => a <~ de_f64 ;; b <~ de_f64 ;; pret (Weibull a b)
  | 9 => a <~ de_f64 ;; b <~ de_f64 ;; pret (Gamma a b)
  | 10 => a <~ de_f64 ;; b <~ de_f64 ;; pret (Beta a b)
  | _ => pfail
  end.

(** [Dist { dist, start, max }] *)
Definition ser_dist (d : dist) : list N :=
  ser_disttype (dtype d) ++ ser_f64 (dstart d) ++ ser_f64 (dmax d).

Definition de_dist : parser dist :=
  t <~ de_disttype ;; s <~ de_f64 ;; m <~ de_f64 ;; pret (mkdist t s m).

(** * action.rs *)

Definition ser_timer (t : timer) : list N :=
  match t with
  | TAction => ser_u32 0
  | TInternal => ser_u32 1
  | TAll => ser_u32 2
  end.

Definition de_timer : parser timer :=
  idx <~ de_u32 ;;
  match idx with
  | 0 => pret TAction
  | 1 => pret TInternal
  | 2 => pret TAll
  | _ => pfail
  end.

Definition ser_action (a : action) : list N :=
  match a with
  | Cancel t => ser_u32 0 ++ ser_timer t
  | SendPadding bypass replace timeout limit =>
      ser_u32 1 ++ ser_bool bypass ++ ser_bool replace ++ ser_dist timeout
        ++ ser_option ser_dist limit
  | BlockOutgoing bypass replace timeout duration limit =>
      ser_u32 2 ++ ser_bool bypass ++ ser_bool replace ++ ser_dist timeout
        ++ ser_dist duration ++ ser_option ser_dist limit
  | UpdateTimer replace duration limit =>
      ser_u32 3 ++ ser_bool replace ++ ser_dist duration ++ ser_option ser_dist limit
  end.

Definition de_action : parser action :=
  idx <~ de_u32 ;;
  match idx with
  | 0 => t <~ de_timer ;; pret (Cancel t)
  | 1 =>
      bp <~ de_bool ;; rp <~ de_bool ;; t <~ de_dist ;; l <~ de_option de_dist ;;
      pret (SendPadding bp rp t l)
  | 2 =>
      bp <~ de_bool ;; rp <~ de_bool ;; t <~ de_dist ;; d <~ de_dist ;;
      l <~ de_option de_dist ;;
      pret (BlockOutgoing bp rp t d l)
  | 3 =>
      rp <~ de_bool ;; d <~ de_dist ;; l <~ de_option de_dist ;;
      pret (UpdateTimer rp d l)
  | _ => pfail
  end.

(** * counter.rs *)

Definition ser_operation (o : operation) : list N :=
  match o with
  | Increment => ser_u32 0
  | Decrement => ser_u32 1
  | CSet => ser_u32 2
  end.

Definition de_operation : parser operation :=
  idx <~ de_u32 ;;
  match idx with
  | 0 => pret Increment
  | 1 => pret Decrement
  | 2 => pret CSet
  | _ => pfail
  end.

(** [Counter { operation, dist, copy }] *)
Definition ser_counter (c : counter) : list N :=
  ser_operation (cop c) ++ ser_option ser_dist (cdist c) ++ ser_bool (ccopy c).

Definition de_counter : parser counter :=
  o <~ de_operation ;; d <~ de_option de_dist ;; c <~ de_bool ;;
  pret (mkcounter o d c).

(** * state.rs *)

(** [Trans(pub usize, pub f32)] *)
Definition ser_trans (t : trans) : list N :=
  ser_u64 (fst t) ++ ser_f32 (snd t).

Definition de_trans : parser trans :=
  s <~ de_u64 ;; p <~ de_f32 ;; pret (s, p).

(** [State { action, counter: (Option<Counter>, Option<Counter>),
            transitions: [Option<Vec<Trans>>; EVENT_NUM] }] *)
Definition ser_state (s : state) : list N :=
  ser_option ser_action (saction s)
    ++ ser_option ser_counter (sctr_a s)
    ++ ser_option ser_counter (sctr_b s)
    ++ ser_seq (ser_option (ser_vec ser_trans)) (strans s).

Definition de_state : parser state :=
  a <~ de_option de_action ;;
  ca <~ de_option de_counter ;;
  cb <~ de_option de_counter ;;
  tr <~ de_arr (de_option (de_vec de_trans)) EVENT_NUM ;;
  pret (mkstate a ca cb tr).

(** * machine.rs *)

(** [Machine { allowed_padding_packets, max_padding_frac,
              allowed_blocked_microsec, max_blocking_frac, states }] *)
Definition ser_machine (m : machine) : list N :=
  ser_u64 (allowed_padding_packets m)
    ++ ser_f64 (max_padding_frac m)
    ++ ser_u64 (allowed_blocked_microsec m)
    ++ ser_f64 (max_blocking_frac m)
    ++ ser_vec ser_state (states m).

Definition de_machine_p : parser machine :=
  app <~ de_u64 ;;
  mpf <~ de_f64 ;;
  abm <~ de_u64 ;;
  mbf <~ de_f64 ;;
  sts <~ de_vec de_state ;;
  pret (mkmachine app mpf abm mbf sts).

(** whole input, trailing bytes rejected *)
Definition de_machine (bs : list N) : option machine :=
  match de_machine_p bs with
  | Some (m, []) => Some m
  | _ => None
  end.

Definition ser_size (m : machine) : nat := length (ser_machine m).

(** * Well-formedness: every number fits its Rust type *)

Definition u64_ok (v : N) : Prop := v < TWO64.
Definition u32_ok (v : N) : Prop := v < TWO32.

Definition wf_option {A} (P : A -> Prop) (o : option A) : Prop :=
  match o with
  | None => True
  | Some x => P x
  end.

(** a Vec has at most usize::MAX elements *)
Definition len_ok {A} (l : list A) : Prop := u64_ok (N.of_nat (length l)).

Definition wf_disttype (d : disttype) : Prop :=
  match d with
  | Uniform a b | Normal a b | LogNormal a b | Binomial a b | Pareto a b
  | Weibull a b | Gamma a b | Beta a b => u64_ok a /\ u64_ok b
  | SkewNormal a b c => u64_ok a /\ u64_ok b /\ u64_ok c
  | Geometric a | Poisson a => u64_ok a
  end.

Definition wf_dist (d : dist) : Prop :=
  wf_disttype (dtype d) /\ u64_ok (dstart d) /\ u64_ok (dmax d).

Definition wf_action (a : action) : Prop :=
  match a with
  | Cancel _ => True
  | SendPadding _ _ t l => wf_dist t /\ wf_option wf_dist l
  | BlockOutgoing _ _ t d l => wf_dist t /\ wf_dist d /\ wf_option wf_dist l
  | UpdateTimer _ d l => wf_dist d /\ wf_option wf_dist l
  end.

Definition wf_counter (c : counter) : Prop := wf_option wf_dist (cdist c).

Definition wf_trans (t : trans) : Prop := u64_ok (fst t) /\ u32_ok (snd t).

Definition wf_transvec (l : list trans) : Prop := len_ok l /\ Forall wf_trans l.

Definition wf_state (s : state) : Prop :=
  wf_option wf_action (saction s)
  /\ wf_option wf_counter (sctr_a s)
  /\ wf_option wf_counter (sctr_b s)
  /\ length (strans s) = EVENT_NUM
  /\ Forall (wf_option wf_transvec) (strans s).

Definition wf_machine (m : machine) : Prop :=
  u64_ok (allowed_padding_packets m)
  /\ u64_ok (max_padding_frac m)
  /\ u64_ok (allowed_blocked_microsec m)
  /\ u64_ok (max_blocking_frac m)
  /\ len_ok (states m)
  /\ Forall wf_state (states m).

(** ** Boolean version, for closed machines ([vm_compute]) *)

Definition u64_okb (v : N) : bool := v <? TWO64.
Definition u32_okb (v : N) : bool := v <? TWO32.

Definition wf_optionb {A} (P : A -> bool) (o : option A) : bool :=
  match o with
  | None => true
  | Some x => P x
  end.

Definition len_okb {A} (l : list A) : bool := u64_okb (N.of_nat (length l)).

Definition wf_disttypeb (d : disttype) : bool :=
  match d with
  | Uniform a b | Normal a b | LogNormal a b | Binomial a b | Pareto a b
  | Weibull a b | Gamma a b | Beta a b => u64_okb a && u64_okb b
  | SkewNormal a b c => u64_okb a && (u64_okb b && u64_okb c)
  | Geometric a | Poisson a => u64_okb a
  end.

Definition wf_distb (d : dist) : bool :=
  wf_disttypeb (dtype d) && (u64_okb (dstart d) && u64_okb (dmax d)).

Definition wf_actionb (a : action) : bool :=
  match a with
  | Cancel _ => true
  | SendPadding _ _ t l => wf_distb t && wf_optionb wf_distb l
  | BlockOutgoing _ _ t d l => wf_distb t && (wf_distb d && wf_optionb wf_distb l)
  | UpdateTimer _ d l => wf_distb d && wf_optionb wf_distb l
  end.

Definition wf_counterb (c : counter) : bool := wf_optionb wf_distb (cdist c).

Definition wf_transb (t : trans) : bool := u64_okb (fst t) && u32_okb (snd t).

Definition wf_transvecb (l : list trans) : bool := len_okb l && forallb wf_transb l.

Definition wf_stateb (s : state) : bool :=
  wf_optionb wf_actionb (saction s)
  && (wf_optionb wf_counterb (sctr_a s)
  && (wf_optionb wf_counterb (sctr_b s)
  && (Nat.eqb (length (strans s)) EVENT_NUM
  && forallb (wf_optionb wf_transvecb) (strans s)))).

Definition wf_machineb (m : machine) : bool :=
  u64_okb (allowed_padding_packets m)
  && (u64_okb (max_padding_frac m)
  && (u64_okb (allowed_blocked_microsec m)
  && (u64_okb (max_blocking_frac m)
  && (len_okb (states m)
  && forallb wf_stateb (states m))))).

(** * Sanity checks *)

Example varint_250 : ser_varint 250 = [250].
Proof. vm_compute. reflexivity. Qed.

Example varint_251 : ser_varint 251 = [251; 251; 0].
Proof. vm_compute. reflexivity. Qed.

Example varint_65535 : ser_varint 65535 = [251; 255; 255].
Proof. vm_compute. reflexivity. Qed.

Example varint_65536 : ser_varint 65536 = [252; 0; 0; 1; 0].
Proof. vm_compute. reflexivity. Qed.

Example varint_2_32 : ser_varint 4294967296 = [253; 0; 0; 0; 0; 1; 0; 0; 0].
Proof. vm_compute. reflexivity. Qed.

Example varint_u64_max :
  ser_varint U64_MAX = [253; 255; 255; 255; 255; 255; 255; 255; 255].
Proof. vm_compute. reflexivity. Qed.

Example de_varint_251 : de_varint [251; 251; 0; 7] = Some (251, [7]).
Proof. vm_compute. reflexivity. Qed.

(* non-minimal encodings are accepted, as in bincode *)
Example de_varint_nonminimal : de_varint [251; 5; 0] = Some (5, []).
Proof. vm_compute. reflexivity. Qed.

Example de_varint_u128_marker : de_varint [254; 0; 0; 0; 0; 0; 0; 0; 0; 0; 0; 0; 0; 0; 0; 0; 0] = None.
Proof. vm_compute. reflexivity. Qed.

Example de_varint_ext_marker : de_varint [255; 0] = None.
Proof. vm_compute. reflexivity. Qed.

(* a variant index must fit in a u32 *)
Example de_u32_too_big : de_u32 [253; 0; 0; 0; 0; 1; 0; 0; 0] = None.
Proof. vm_compute. reflexivity. Qed.

Example de_bool_bad : de_bool [2] = None.
Proof. vm_compute. reflexivity. Qed.

(* f64 1.0 = 0x3FF0000000000000 *)
Example ser_f64_one : ser_f64 4607182418800017408 = [0; 0; 0; 0; 0; 0; 240; 63].
Proof. vm_compute. reflexivity. Qed.

(* a huge announced Vec length fails without looping *)
Example de_vec_huge :
  de_vec de_trans [253; 255; 255; 255; 255; 255; 255; 255; 255; 1; 0; 0; 128; 63] = None.
Proof. vm_compute. reflexivity. Qed.

Definition ex_dist : dist :=
  mkdist (Uniform 0 4621819117588971520) 0 0.   (* Uniform{0.0, 10.0} *)

Definition ex_state0 : state :=
  mkstate
    (Some (SendPadding false true ex_dist None))
    (Some (mkcounter Increment None false))
    None
    [Some [(1, 1065353216)]; None; None; Some [(0, 1056964608); (STATE_END, 1056964608)];
     None; None; None; None; None; None; None; None; None].

Definition ex_state1 : state :=
  mkstate
    (Some (BlockOutgoing true false ex_dist
             (mkdist (Binomial 1000 4602678819172646912) 4607182418800017408 0)
             (Some ex_dist)))
    None
    (Some (mkcounter CSet (Some ex_dist) true))
    [None; None; None; None; None; None; None; None; None; None; None; None;
     Some [(0, 1065353216)]].

Definition ex_machine : machine :=
  mkmachine 1000 4602678819172646912 0 0 [ex_state0; ex_state1].

Example ex_machine_wf : wf_machineb ex_machine = true.
Proof. vm_compute. reflexivity. Qed.

Example ex_machine_roundtrip : de_machine (ser_machine ex_machine) = Some ex_machine.
Proof. vm_compute. reflexivity. Qed.

Example ex_machine_trailing : de_machine (ser_machine ex_machine ++ [0]) = None.
Proof. vm_compute. reflexivity. Qed.

Example ex_machine_prefix :
  ser_machine (mkmachine 1000 4602678819172646912 0 0 []) =
  [251; 232; 3;  0; 0; 0; 0; 0; 0; 224; 63;  0;  0; 0; 0; 0; 0; 0; 0; 0;  0].
Proof. vm_compute. reflexivity. Qed.

(** The bytes produced by the real crate (bincode 1.3.3,
    [DefaultOptions::new().with_limit(1 << 20).serialize]) for the Rust value
    corresponding to [ex_machine] (obtained by running the Rust code). *)
Definition ex_machine_rust_bytes : list N :=
  [
   251; 232; 3; 0; 0; 0; 0; 0; 0; 224; 63; 0; 0; 0; 0; 0; 0; 0; 0; 0; 2; 1; 1; 0; 1; 0; 0;
   0; 0; 0; 0; 0; 0; 0; 0; 0; 0; 0; 0; 0; 36; 64; 0; 0; 0; 0; 0; 0; 0; 0; 0; 0; 0; 0; 0; 0;
   0; 0; 0; 1; 0; 0; 0; 0; 1; 1; 1; 0; 0; 128; 63; 0; 0; 1; 2; 0; 0; 0; 0; 63; 252; 255;
   255; 255; 255; 0; 0; 0; 63; 0; 0; 0; 0; 0; 0; 0; 0; 0; 1; 2; 1; 0; 0; 0; 0; 0; 0; 0; 0;
   0; 0; 0; 0; 0; 0; 0; 0; 36; 64; 0; 0; 0; 0; 0; 0; 0; 0; 0; 0; 0; 0; 0; 0; 0; 0; 4; 251;
   232; 3; 0; 0; 0; 0; 0; 0; 224; 63; 0; 0; 0; 0; 0; 0; 240; 63; 0; 0; 0; 0; 0; 0; 0; 0; 1;
   0; 0; 0; 0; 0; 0; 0; 0; 0; 0; 0; 0; 0; 0; 0; 36; 64; 0; 0; 0; 0; 0; 0; 0; 0; 0; 0; 0; 0;
   0; 0; 0; 0; 0; 1; 2; 1; 0; 0; 0; 0; 0; 0; 0; 0; 0; 0; 0; 0; 0; 0; 0; 36; 64; 0; 0; 0; 0;
   0; 0; 0; 0; 0; 0; 0; 0; 0; 0; 0; 0; 1; 0; 0; 0; 0; 0; 0; 0; 0; 0; 0; 0; 0; 1; 1; 0; 0; 0;
   128; 63].

Example ex_machine_matches_rust : ser_machine ex_machine = ex_machine_rust_bytes.
Proof. vm_compute. reflexivity. Qed.

Example ex_machine_size : ser_size ex_machine = 254%nat.
Proof. vm_compute. reflexivity. Qed.

(* observed on the real crate as well: non-minimal variant index accepted,
   unknown variant / bad Option tag rejected *)
Example de_timer_nonminimal : de_timer [251; 2; 0] = Some (TAll, []).
Proof. vm_compute. reflexivity. Qed.

Example de_timer_unknown : de_timer [3] = None.
Proof. vm_compute. reflexivity. Qed.

Example de_option_bad_tag : de_option de_bool [2; 1] = None.
Proof. vm_compute. reflexivity. Qed.
