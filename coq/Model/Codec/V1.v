(** The legacy "v1" machine format: model of [parse_v1] (and of [parse_state],
    [parse_dist], [buf_to_dist_type], [v1_events_iter]) in
    crates/maybenot/src/parsing.rs.

    [parse_v1_machine(s)] = hex decode, zlib inflate, check that the first two
    bytes are the little endian u16 1, then [parse_v1(payload)] on the bytes
    after the version.  This file models [parse_v1] on that payload: a list
    of bytes ([N], each < 256).

    Result convention ([outcome (option A)] models [Result<A, Error>]):
      [Ok (Some a)]  Rust [Ok(a)]
      [Ok None]      Rust [Err(_)]
      [Panic k]      the Rust code panics
    Every slicing [buf[a..b]], [buf[a..]], indexing [buf[i]] and every
    [LittleEndian::read_*] (which is [buf[..n]] followed by [from_le_bytes]) of
    the source is transliterated by an operation that returns [Panic P_INDEX]
    when out of range; no bound is assumed in the model, the bounds are proved
    in Proofs/Codec/V1Proofs.v.

    Arithmetic.  usize is 64 bit (as in Model/Codec/Bincode.v).  The
    computations whose operands come from the input ([num_states + 2],
    [.. * 8], [.. * (7 + 1)], [3 * 34 + 4 + ..], [expected_state_len *
    num_states]) are modelled with checked operations ([uadd], [umul]:
    [Panic P_OVERFLOW], the debug-build behaviour).  The cursor updates
    [r += 8], [r + SERIALIZED_DIST_SIZE], ... are plain additions: they
    are only evaluated with [r <= buf.len() <= isize::MAX] (the slice with
    the same bounds is taken first and would have panicked), so they cannot
    overflow a usize.

    Floats are raw bit patterns.  Three float operations occur in the parser:
    [v != 0.0] (decoded with [f64_of_bits], compared with [feq]),
    [param1 as u64] ([f64_trunc_u64]) and [v as f32] ([f64_to_f32_bits]
    below). *)
From MB Require Import Base.Prelude Base.Floats Model.Types Model.Validate Model.Codec.Bincode.
From Flocq Require Import IEEE754.BinarySingleNaN.
Open Scope N_scope.

(** * Result monad on top of the outcome monad *)

Definition rbind {A B} (o : outcome (option A)) (f : A -> outcome (option B))
  : outcome (option B) :=
  match o with
  | Ok (Some a) => f a
  | Ok None => Ok None          (* the [?] operator: propagate the error *)
  | Panic k => Panic k
  | OutOfFuel => OutOfFuel
  end.

Notation "x <-? e ;; f" := (rbind e (fun x => f))
  (at level 61, e at next level, right associativity).
Notation "' p <-? e ;; f" := (rbind e (fun p => f))
  (at level 61, p pattern, e at next level, right associativity).

Definition rok {A} (a : A) : outcome (option A) := Ok (Some a).
Definition rerr {A} : outcome (option A) := Ok None.

(** * Checked usize arithmetic *)

Definition P_OVERFLOW : N := 4.     (* "attempt to add/multiply with overflow" *)
Definition USIZE_MAX : N := 18446744073709551615.

Definition uadd (a b : N) : outcome N :=
  if a + b <=? USIZE_MAX then Ok (a + b) else Panic P_OVERFLOW.
Definition umul (a b : N) : outcome N :=
  if a * b <=? USIZE_MAX then Ok (a * b) else Panic P_OVERFLOW.

(** * Slices *)

Definition blen (buf : list N) : N := N.of_nat (length buf).

(** [&buf[a..b]]: panics when [a > b] ("slice index starts at .. but ends at
    ..") or [b > buf.len()] ("range end index .. out of range") *)
Definition slice (buf : list N) (a b : N) : outcome (list N) :=
  if (a <=? b) && (b <=? blen buf)
  then Ok (firstn (N.to_nat (b - a)) (skipn (N.to_nat a) buf))
  else Panic P_INDEX.

(** [&buf[a..]] *)
Definition slice_from (buf : list N) (a : N) : outcome (list N) :=
  if a <=? blen buf then Ok (skipn (N.to_nat a) buf) else Panic P_INDEX.

(** [buf[i]] *)
Definition index (buf : list N) (i : N) : outcome N := getN buf i.

(** value of a little endian byte string *)
Fixpoint le_val (bs : list N) : N :=
  match bs with
  | [] => 0
  | b :: t => b + 256 * le_val t
  end.

(** byteorder 1.x, [LittleEndian::read_u16/u64/f64(buf)]:
    [uN::from_le_bytes(buf[..n].try_into().unwrap())]; the [unwrap] cannot
    fail once [buf[..n]] has succeeded (the slice has length [n]).  f64 values
    stay bit patterns, so [read_f64] is [read_le 8] as well. *)
Definition read_le (n : N) (buf : list N) : outcome N :=
  s <- slice buf 0 n ;; Ok (le_val s).

(** * Float casts *)

(** [x as f32] for a finite, infinite or zero f64: round to nearest even,
    overflow to infinity, underflow to subnormals / signed zero *)
Definition f64_to_f32 (x : F64) : F32 :=
  match x with
  | B754_nan => B754_nan
  | B754_infinity s => B754_infinity s
  | B754_zero s => B754_zero s
  | B754_finite s m e _ =>
      binary_normalize prec32 emax32 Hprec32 Hemax32 mode_NE
        (if s then Zneg m else Zpos m) e s
  end.

Definition sign_bit32 (s : bool) : N := if s then 2147483648 else 0.

(** [f32::to_bits] of a non-NaN value (emin = 3 - 128 - 24 = -149; a normal
    number has its 24 bit mantissa [m >= 2^23] and biased exponent [e + 150]) *)
Definition f32_bits (x : F32) : N :=
  match x with
  | B754_zero s => sign_bit32 s
  | B754_infinity s => sign_bit32 s + 2139095040
  | B754_nan => 2143289344
  | B754_finite s m e _ =>
      if 8388608 <=? Npos m
      then sign_bit32 s + Z.to_N (e + 150)%Z * 8388608 + (Npos m - 8388608)
      else sign_bit32 s + Npos m
  end.

(** [(v as f32).to_bits()] from the bits of [v].  For a NaN the hardware
    conversion (cvtsd2ss / fcvt) keeps the sign, keeps the upper 23 bits of
    the payload and sets the quiet bit; this case is immaterial for accepted
    machines because [State::validate] rejects a NaN probability. *)
Definition f64_to_f32_bits (v : N) : N :=
  let x := f64_of_bits v in
  if is_nan x
  then sign_bit32 (negb (v / 9223372036854775808 mod 2 =? 0)) + 2139095040
       + N.lor ((v mod 4503599627370496) / 536870912) 4194304
  else f32_bits (f64_to_f32 x).

(** * parsing.rs *)

(** [const SERIALIZED_DIST_SIZE: usize = 2 + 8 * 4] *)
Definition SERIALIZED_DIST_SIZE : N := 34.

(** [v1_events_iter()] *)
Definition V1_EVENTS : list event :=
  [NormalRecv; PaddingRecv; NormalSent; PaddingSent; BlockingBegin; BlockingEnd;
   LimitReached].
Definition V1_EVENTS_LEN : N := 7.

(** [3 * SERIALIZED_DIST_SIZE + 4 + (num_states + 2) * 8 * (v1_events_iter().len() + 1)];
    [3 * 34], [.. + 4] and [7 + 1] are on constants *)
Definition state_len (num_states : N) : outcome N :=
  a <- uadd num_states 2 ;;
  b <- umul a 8 ;;
  c <- umul b (V1_EVENTS_LEN + 1) ;;
  uadd (3 * SERIALIZED_DIST_SIZE + 4) c.

(** [buf_to_dist_type(buf: u16, param1: f64, param2: f64) -> Option<DistType>] *)
Definition buf_to_dist_type (buf param1 param2 : N) : option disttype :=
  match buf with
  | 0 => None
  | 1 => Some (Uniform param1 param2)
  | 2 => Some (Normal param1 param2)
  | 3 => Some (LogNormal param1 param2)
  | 4 => Some (Binomial (f64_trunc_u64 (f64_of_bits param1)) param2)   (* [param1 as u64] *)
  | 5 => Some (Geometric 0)          (* [probability: 0.0] *)
  | 6 => Some (Pareto param1 param2)
  | 7 => Some (Poisson 0)            (* [lambda: 0.0] *)
  | 8 => Some (Weibull param1 param2)
  | 9 => Some (Gamma param1 param2)
  | 10 => Some (Beta param1 param2)
  | _ => None
  end.

(** [fn parse_dist(buf: Vec<u8>) -> Result<Option<Dist>, Error>] *)
Definition parse_dist (buf : list N) : outcome (option (option dist)) :=
  if blen buf <? SERIALIZED_DIST_SIZE then rerr else
  s <- slice buf 0 2 ;; type_buf <- read_le 2 s ;;
  s <- slice buf 2 10 ;; param1 <- read_le 8 s ;;
  s <- slice buf 10 18 ;; param2 <- read_le 8 s ;;
  let dist_type := buf_to_dist_type type_buf param1 param2 in
  s <- slice buf 18 26 ;; start <- read_le 8 s ;;
  s <- slice buf 26 34 ;; max <- read_le 8 s ;;
  match dist_type with
  | None => rok None
  | Some t => rok (Some (mkdist t start max))
  end.

(** the inner loop [for i in 0..num_states + 2] of [parse_state] for one
    event: [cnt] iterations remain, [i] is the loop variable, [r] the cursor,
    [acc] the vector [transitions[*event]] in reverse order.  Returns the new
    cursor and the vector. *)
Fixpoint trans_loop (buf : list N) (num_states : N) (cnt : nat) (i r : N)
    (acc : list trans) : outcome (option (N * list trans)) :=
  match cnt with
  | O => rok (r, rev acc)
  | S cnt' =>
      s <- slice buf r (r + 8) ;;
      v <- read_le 8 s ;;
      let r := r + 8 in
      if negb (feq (f64_of_bits v) f64_zero) then      (* [v != 0.0] *)
        match i ?= num_states with
        | Lt =>
            trans_loop buf num_states cnt' (i + 1) r ((i, f64_to_f32_bits v) :: acc)
        | Eq => rerr                (* "invalid state, not supported in v2" *)
        | Gt =>
            trans_loop buf num_states cnt' (i + 1) r ((STATE_END, f64_to_f32_bits v) :: acc)
        end
      else trans_loop buf num_states cnt' (i + 1) r acc
  end.

(** the outer loop [for event in v1_events_iter()]; [em] is the
    [EnumMap<Event, Vec<Trans>>] as a list of [EVENT_NUM] vectors indexed by
    [event_idx] *)
Fixpoint events_loop (buf : list N) (num_states : N) (evs : list event) (r : N)
    (em : list (list trans)) : outcome (option (list (list trans))) :=
  match evs with
  | [] => rok em
  | e :: evs' =>
      '(r', vec) <-? trans_loop buf num_states (N.to_nat (num_states + 2)) 0 r [] ;;
      events_loop buf num_states evs' r'
        (upd em (event_idx e) (nth (event_idx e) em [] ++ vec))
  end.

(** [State::new(t)] followed by [s.action = action] *)
Definition state_new (em : list (list trans)) (a : option action) : state :=
  mkstate a None None
    (map (fun v => match v with [] => None | _ => Some v end) em).

(** [pub fn parse_state(buf: Vec<u8>, num_states: usize) -> Result<State, Error>] *)
Definition parse_state (buf : list N) (num_states : N) : outcome (option state) :=
  need <- state_len num_states ;;
  if blen buf <? need then rerr else          (* "too small" *)
  let r := 0 in
  s <- slice buf r (r + SERIALIZED_DIST_SIZE) ;;
  duration <-? parse_dist s ;;
  let r := r + SERIALIZED_DIST_SIZE in
  s <- slice buf r (r + SERIALIZED_DIST_SIZE) ;;
  limit <-? parse_dist s ;;
  let r := r + SERIALIZED_DIST_SIZE in
  s <- slice buf r (r + SERIALIZED_DIST_SIZE) ;;
  timeout <-? parse_dist s ;;
  let r := r + SERIALIZED_DIST_SIZE in
  b <- index buf r ;;
  let action_is_block := b =? 1 in
  let r := r + 1 in
  b <- index buf r ;;
  let bypass := b =? 1 in
  let r := r + 1 in
  b <- index buf r ;;
  let replace := b =? 1 in
  let r := r + 1 in
  action <-?
    match timeout with
    | Some timeout =>
        if action_is_block then
          match duration with
          | None => rerr                      (* "missing duration" *)
          | Some duration =>
              rok (Some (BlockOutgoing bypass replace timeout duration limit))
          end
        else rok (Some (SendPadding bypass replace timeout limit))
    | None => rok None
    end ;;
  let r := r + 1 in                           (* limit_includes_nonpadding *)
  em <-? events_loop buf num_states V1_EVENTS r (repeat [] EVENT_NUM) ;;
  rok (state_new em action).

(** [Machine::new]: build, then [validate] *)
Definition machine_new (app mpf abm mbf : N) (sts : list state) : outcome (option machine) :=
  let m := mkmachine app mpf abm mbf sts in
  if validate_machine m then rok m else rerr.

(** [for _ in 0..num_states] of [parse_v1]; [acc] is [states] reversed *)
Fixpoint states_loop (buf : list N) (num_states esl : N) (cnt : nat) (r : N)
    (acc : list state) : outcome (option (list state)) :=
  match cnt with
  | O => rok (rev acc)
  | S cnt' =>
      s <- slice buf r (r + esl) ;;
      st <-? parse_state s num_states ;;
      states_loop buf num_states esl cnt' (r + esl) (st :: acc)
  end.

(** [fn parse_v1(buf: &[u8]) -> Result<Machine, Error>] *)
Definition parse_v1 (buf : list N) : outcome (option machine) :=
  if blen buf <? 4 * 8 + 1 + 2 then rerr else  (* "not enough data for version 1 machine" *)
  let r := 0 in
  s <- slice buf r (r + 8) ;; allowed_padding_packets <- read_le 8 s ;;
  let r := r + 8 in
  s <- slice buf r (r + 8) ;; max_padding_frac <- read_le 8 s ;;
  let r := r + 8 in
  s <- slice buf r (r + 8) ;; allowed_blocked_microsec <- read_le 8 s ;;
  let r := r + 8 in
  s <- slice buf r (r + 8) ;; max_blocking_frac <- read_le 8 s ;;
  let r := r + 8 in
  let r := r + 1 in                           (* include_small_packets *)
  s <- slice buf r (r + 2) ;; num_states <- read_le 2 s ;;
  let r := r + 2 in
  expected_state_len <- state_len num_states ;;
  rest <- slice_from buf r ;;
  total <- umul expected_state_len num_states ;;
  if negb (blen rest =? total) then rerr else  (* "expected {} bytes for {} states" *)
  states <-? states_loop buf num_states expected_state_len (N.to_nat num_states) r [] ;;
  machine_new allowed_padding_packets max_padding_frac allowed_blocked_microsec
    max_blocking_frac states.

(** * Correspondence harness entry *)

Definition run_v1 (bytes : list N) : list N :=
  match parse_v1 bytes with
  | Ok (Some m) => 1 :: ser_machine m
  | Ok None => [0]
  | _ => [9]
  end.
