(** Base64 (RFC 4648, standard alphabet, '=' padding) over byte lists.

    Bytes and ASCII codes are both [N]; a byte list is a [list N] whose
    elements are < 256.  [b64_decode] models the behaviour of the Rust crate
    base64 0.22 [BASE64_STANDARD.decode] (GeneralPurpose engine, alphabet
    STANDARD, config PAD: decode_allow_trailing_bits = false,
    decode_padding_mode = RequireCanonical), abstracting the error kind:

    - every quad but the last one must consist of four alphabet symbols
      ('=' is not in the decode table, so it is an invalid byte there);
    - the last 1-4 characters are handled as in [decode_suffix]: symbols
      followed by padding, no padding in the first two positions, no symbol
      after a padding character, at least two symbols, and
      (#symbols + #padding) mod 4 = 0 (canonical padding); since everything
      before the suffix is a multiple of four characters this forces the
      whole input length to be a multiple of four;
    - the bits of the last symbol that do not contribute to an output byte
      must be zero (InvalidLastSymbol otherwise);
    - the empty input decodes to the empty output. *)
From MB Require Import Base.Prelude.
Open Scope N_scope.

Definition B64_PAD : N := 61. (* '=' *)

(** 6-bit value -> ASCII code of the symbol *)
Definition b64_char (v : N) : N :=
  if v <? 26 then v + 65            (* 'A'..'Z' *)
  else if v <? 52 then v + 71       (* 'a'..'z' *)
  else if v <? 62 then v - 4        (* '0'..'9' *)
  else if v =? 62 then 43           (* '+' *)
  else 47.                          (* '/' *)

(** ASCII code -> 6-bit value; [None] models INVALID_VALUE in the decode table *)
Definition b64_val (c : N) : option N :=
  if (65 <=? c) && (c <=? 90) then Some (c - 65)
  else if (97 <=? c) && (c <=? 122) then Some (c - 71)
  else if (48 <=? c) && (c <=? 57) then Some (c + 4)
  else if c =? 43 then Some 62
  else if c =? 47 then Some 63
  else None.

Fixpoint b64_encode (l : list N) : list N :=
  match l with
  | [] => []
  | [a] =>
      [b64_char (a / 4); b64_char ((a mod 4) * 16); B64_PAD; B64_PAD]
  | [a; b] =>
      [b64_char (a / 4); b64_char ((a mod 4) * 16 + b / 16);
       b64_char ((b mod 16) * 4); B64_PAD]
  | a :: b :: c :: rest =>
      b64_char (a / 4) :: b64_char ((a mod 4) * 16 + b / 16)
        :: b64_char ((b mod 16) * 4 + c / 64) :: b64_char (c mod 64)
        :: b64_encode rest
  end.

(** a complete quad of four symbols -> three bytes *)
Definition b64_decode_quad (a b c d : N) : option (list N) :=
  match b64_val a, b64_val b, b64_val c, b64_val d with
  | Some va, Some vb, Some vc, Some vd =>
      Some [va * 4 + vb / 16; (vb mod 16) * 16 + vc / 4; (vc mod 4) * 64 + vd]
  | _, _, _, _ => None
  end.

(** the last quad (decode_suffix on exactly four characters) *)
Definition b64_decode_last (a b c d : N) : option (list N) :=
  if d =? B64_PAD then
    if c =? B64_PAD then
      (* "xy==": one byte, low 4 bits of y must be zero *)
      match b64_val a, b64_val b with
      | Some va, Some vb =>
          if vb mod 16 =? 0 then Some [va * 4 + vb / 16] else None
      | _, _ => None
      end
    else
      (* "xyz=": two bytes, low 2 bits of z must be zero *)
      match b64_val a, b64_val b, b64_val c with
      | Some va, Some vb, Some vc =>
          if vc mod 4 =? 0
          then Some [va * 4 + vb / 16; (vb mod 16) * 16 + vc / 4]
          else None
      | _, _, _ => None
      end
  else
    (* no padding at the end; a '=' in any other position is rejected because
       [b64_val B64_PAD = None] *)
    b64_decode_quad a b c d.

Fixpoint b64_decode (l : list N) : option (list N) :=
  match l with
  | [] => Some []
  | a :: b :: c :: d :: rest =>
      match rest with
      | [] => b64_decode_last a b c d
      | _ :: _ =>
          match b64_decode_quad a b c d, b64_decode rest with
          | Some x, Some y => Some (x ++ y)
          | _, _ => None
          end
      end
  | _ => None   (* 1-3 trailing characters: InvalidLength / InvalidPadding / InvalidByte *)
  end.

(** * Sanity checks *)

(* "foobar" -> "Zm9vYmFy" *)
Example b64_ex_foobar :
  b64_encode [102; 111; 111; 98; 97; 114] = [90; 109; 57; 118; 89; 109; 70; 121].
Proof. vm_compute. reflexivity. Qed.

(* "fooba" -> "Zm9vYmE=" *)
Example b64_ex_fooba :
  b64_encode [102; 111; 111; 98; 97] = [90; 109; 57; 118; 89; 109; 69; 61].
Proof. vm_compute. reflexivity. Qed.

(* "foob" -> "Zm9vYg==" *)
Example b64_ex_foob :
  b64_encode [102; 111; 111; 98] = [90; 109; 57; 118; 89; 103; 61; 61].
Proof. vm_compute. reflexivity. Qed.

Example b64_ex_empty : b64_encode [] = [] /\ b64_decode [] = Some [].
Proof. vm_compute. split; reflexivity. Qed.

(* 0xFB 0xFF 0xBF -> "+/+/" *)
Example b64_ex_sym : b64_encode [251; 255; 191] = [43; 47; 43; 47].
Proof. vm_compute. reflexivity. Qed.

Example b64_ex_dec_foobar :
  b64_decode [90; 109; 57; 118; 89; 109; 70; 121] = Some [102; 111; 111; 98; 97; 114].
Proof. vm_compute. reflexivity. Qed.

Example b64_ex_dec_foob :
  b64_decode [90; 109; 57; 118; 89; 103; 61; 61] = Some [102; 111; 111; 98].
Proof. vm_compute. reflexivity. Qed.

(* "Zm9vYg" : missing padding is rejected (RequireCanonical) *)
Example b64_ex_rej_nopad : b64_decode [90; 109; 57; 118; 89; 103] = None.
Proof. vm_compute. reflexivity. Qed.

(* "Zm9vYh==" : non-zero trailing bits are rejected *)
Example b64_ex_rej_trailing_bits : b64_decode [90; 109; 57; 118; 89; 104; 61; 61] = None.
Proof. vm_compute. reflexivity. Qed.

(* "Zg==Zm9v" : padding in a non-final quad is rejected *)
Example b64_ex_rej_inner_pad : b64_decode [90; 103; 61; 61; 90; 109; 57; 118] = None.
Proof. vm_compute. reflexivity. Qed.

(* "Zm9v\n" : invalid character / wrong length *)
Example b64_ex_rej_newline : b64_decode [90; 109; 57; 118; 10] = None.
Proof. vm_compute. reflexivity. Qed.

(* "Zm=v" : symbol after padding *)
Example b64_ex_rej_pad_then_sym : b64_decode [90; 109; 61; 118] = None.
Proof. vm_compute. reflexivity. Qed.

(* "Zm9vYg=" : one padding character missing *)
Example b64_ex_rej_short_pad : b64_decode [90; 109; 57; 118; 89; 103; 61] = None.
Proof. vm_compute. reflexivity. Qed.

(* "Zm9vY===" : too much padding *)
Example b64_ex_rej_long_pad : b64_decode [90; 109; 57; 118; 89; 61; 61; 61] = None.
Proof. vm_compute. reflexivity. Qed.

(* "====" *)
Example b64_ex_rej_only_pad : b64_decode [61; 61; 61; 61] = None.
Proof. vm_compute. reflexivity. Qed.

(* "Zm9vYmF=" : non-zero trailing bits with one padding character *)
Example b64_ex_rej_trailing_bits2 : b64_decode [90; 109; 57; 118; 89; 109; 70; 61] = None.
Proof. vm_compute. reflexivity. Qed.
