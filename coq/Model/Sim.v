(** Executable model of crates/maybenot-simulator (lib.rs, queue.rs,
    queue_event.rs, queue_peek.rs, network.rs, delay.rs) WITHOUT integration
    delays (all reporting/action/trigger delays are zero: the six simulator
    properties exclude them). Instants are Z nanoseconds relative to the
    harness's base instant, durations are N nanoseconds; Duration::MAX is the
    sentinel [DMAX]. std::collections::BinaryHeap is modelled exactly (the pop
    order among equal keys is observable). The two frameworks are the
    framework model over the std clock, sharing one oracle tape in call order. *)
From MB Require Import Model.Framework.
From Flocq Require Import IEEE754.BinarySingleNaN.
Open Scope N_scope.

(** ** the std::time clock of the embedded frameworks (nanosecond ticks) *)
Definition NS : N := 1000000000.
Definition DMAX : N := 18446744073709551615 * 1000000000 + 999999999.
Definition as_secs_f64 (d : N) : F64 :=
  fadd (f64_of_N (d / NS)) (fdiv (f64_of_N (d mod NS)) (f64_of_N NS)).
Definition stdclock : clock := {|
  c_since := fun a b => Z.to_N (a - b);
  c_add := fun a b => if a + b <=? DMAX then Ok (a + b) else Panic P_DURATION;
  c_from_micros := fun u => u * 1000;
  c_div := fun a b => fdiv (as_secs_f64 a) (as_secs_f64 b)
|}.

(** ** binary heap, exactly as Rust's BinaryHeap (max-heap w.r.t. [le]) *)
Section Heap.
  Variable A : Type.
  Variable le : A -> A -> bool.      (* Rust's `a <= b` *)

  Fixpoint sift_up (fuel : nat) (h : list A) (start pos : nat) (elt : A) : list A :=
    match fuel with
    | O => upd h pos elt
    | S f =>
        if Nat.leb pos start then upd h pos elt
        else
          let parent := Nat.div (pos - 1) 2 in
          match nth_error h parent with
          | Some p => if le elt p then upd h pos elt
                      else sift_up f (upd h pos p) start parent elt
          | None => upd h pos elt
          end
    end.

  Definition heap_push (h : list A) (x : A) : list A :=
    sift_up (S (length h)) (h ++ [x]) 0 (length h) x.

  (** move the hole from [pos] down to a leaf, always following the greater
      child (the right one on ties), then sift the element back up *)
  Fixpoint sift_down (fuel : nat) (h : list A) (pos : nat) (elt : A) : list A * nat :=
    let endn := length h in
    let child := (2 * pos + 1)%nat in
    match fuel with
    | O => (h, pos)
    | S f =>
        if Nat.leb (child + 2) endn then        (* child <= end - 2 *)
          match nth_error h child, nth_error h (S child) with
          | Some a, Some b =>
              let c := if le a b then S child else child in
              match nth_error h c with
              | Some x => sift_down f (upd h pos x) c elt
              | None => (h, pos)
              end
          | _, _ => (h, pos)
          end
        else if Nat.eqb (S child) endn then      (* child == end - 1 *)
          match nth_error h child with
          | Some x => (upd h pos x, child)
          | None => (h, pos)
          end
        else (h, pos)
    end.

  Definition heap_pop (h : list A) : option (A * list A) :=
    match rev h with
    | [] => None
    | last :: _ =>
        let h' := removelast h in
        match h' with
        | [] => Some (last, [])
        | top :: _ =>
            let '(h2, hole) := sift_down (length h') (upd h' 0 last) 0 last in
            Some (top, sift_up (S (length h')) h2 0 hole last)
        end
    end.

  Definition heap_peek (h : list A) : option A := hd_error h.
End Heap.
Arguments heap_push {A}. Arguments heap_pop {A}. Arguments heap_peek {A}.

(** ** simulator events *)
Record sev := mksev {
  se_ev : trigger_event; se_time : Z; se_client : bool;
  se_pad : bool; se_bypass : bool; se_replace : bool
}.

Definition ev_idx (e : trigger_event) : N :=
  match e with
  | TETunnelSent => 0 | TENormalSent => 1 | TEPaddingSent _ => 2
  | TETunnelRecv => 3 | TENormalRecv => 4 | TEPaddingRecv => 5
  | TEBlockingBegin _ => 6 | TEBlockingEnd => 7 | TETimerBegin _ => 8 | TETimerEnd _ => 9
  end.

(** lexicographic comparison of (time, event number) *)
Definition key_cmp (t1 : Z) (i1 : N) (t2 : Z) (i2 : N) : comparison :=
  match Z.compare t1 t2 with Eq => N.compare i1 i2 | c => c end.

Definition sev_cmp (a b : sev) : comparison :=
  key_cmp (se_time a) (ev_idx (se_ev a)) (se_time b) (ev_idx (se_ev b)).

(** Rust's Ord for SimEvent is the reverse: a <= b iff key a >= key b *)
Definition sev_le (a b : sev) : bool := match sev_cmp a b with Lt => false | _ => true end.
Definition sev_gt (a b : sev) : bool := match sev_cmp a b with Lt => true | _ => false end.

(** Option<&SimEvent> comparison `n > first` (None is the least) *)
Definition opt_gt (n first : option sev) : bool :=
  match n, first with
  | Some a, Some b => sev_gt a b
  | Some _, None => true
  | None, _ => false
  end.

Inductive qid := QBlocking | QBypassable | QInternal | QBase.
Definition qid_eqb (a b : qid) : bool :=
  match a, b with
  | QBlocking, QBlocking | QBypassable, QBypassable | QInternal, QInternal | QBase, QBase => true
  | _, _ => false
  end.

Record evq := mkevq { q_base : list sev; q_blocking : list sev; q_bypass : list sev; q_internal : list sev }.
Definition evq_empty : evq := mkevq [] [] [] [].
Definition evq_len (q : evq) : nat :=
  (length (q_blocking q) + length (q_bypass q) + length (q_internal q) + length (q_base q))%nat.

Definition is_tunnel_sent (e : trigger_event) : bool := match e with TETunnelSent => true | _ => false end.
Definition is_tunnel_recv (e : trigger_event) : bool := match e with TETunnelRecv => true | _ => false end.

Definition evq_push (q : evq) (x : sev) : evq :=
  match se_ev x with
  | TETunnelSent =>
      if se_bypass x then mkevq (q_base q) (q_blocking q) (heap_push sev_le (q_bypass q) x) (q_internal q)
      else mkevq (q_base q) (heap_push sev_le (q_blocking q) x) (q_bypass q) (q_internal q)
  | TENormalSent => mkevq (heap_push sev_le (q_base q) x) (q_blocking q) (q_bypass q) (q_internal q)
  | _ => mkevq (q_base q) (q_blocking q) (q_bypass q) (heap_push sev_le (q_internal q) x)
  end.

Definition evq_no_normal (q : evq) : bool :=
  match q_base q with [] => true | _ => false end
  && forallb (fun e => negb (is_tunnel_sent (se_ev e)) && negb (se_pad e)) (q_blocking q)
  && forallb (fun e => negb (is_tunnel_sent (se_ev e)) && negb (se_pad e)) (q_bypass q)
  && forallb (fun e => negb (is_tunnel_recv (se_ev e)) && negb (se_pad e)) (q_internal q).

(** `before(a, b, delay)`: a (shifted by the network delay sum) is before or at b *)
Definition before (a b : option sev) (delay : N) : bool :=
  match a, b with
  | Some x, Some y =>
      match key_cmp (se_time x + Z.of_N delay) (ev_idx (se_ev x)) (se_time y) (ev_idx (se_ev y)) with
      | Gt => false | _ => true end
  | Some _, None => true
  | _, _ => false
  end.

(** `a.duration_since(b)` (saturating at zero; a Duration is at most Duration::MAX) *)
Definition since (a b : Z) : N := N.min DMAX (Z.to_N (a - b)).

Definition evq_peek (q : evq) (delay : N) (nowt : Z) : option sev * qid * N :=
  match evq_len q with
  | O => (None, QBlocking, 0)
  | _ =>
      let first := heap_peek (q_bypass q) in let qq := QBypassable in
      let n := heap_peek (q_blocking q) in
      let '(first, qq) := if opt_gt n first then (n, QBlocking) else (first, qq) in
      let n := heap_peek (q_internal q) in
      let '(first, qq) := if opt_gt n first then (n, QInternal) else (first, qq) in
      let n := heap_peek (q_base q) in
      if before n first delay then
        (n, QBase, match n with Some x => since (se_time x + Z.of_N delay) nowt | None => 0 end)
      else (first, qq, match first with Some x => since (se_time x) nowt | None => 0 end)
  end.

Definition set_time (x : sev) (t : Z) : sev :=
  mksev (se_ev x) t (se_client x) (se_pad x) (se_bypass x) (se_replace x).

Definition evq_pop (q : evq) (which : qid) (delay : N) : option (sev * evq) :=
  match which with
  | QBlocking => match heap_pop sev_le (q_blocking q) with
                 | Some (x, h) => Some (x, mkevq (q_base q) h (q_bypass q) (q_internal q)) | None => None end
  | QBypassable => match heap_pop sev_le (q_bypass q) with
                   | Some (x, h) => Some (x, mkevq (q_base q) (q_blocking q) h (q_internal q)) | None => None end
  | QInternal => match heap_pop sev_le (q_internal q) with
                 | Some (x, h) => Some (x, mkevq (q_base q) (q_blocking q) (q_bypass q) h) | None => None end
  | QBase => match heap_pop sev_le (q_base q) with
             | Some (x, h) => Some (set_time x (se_time x + Z.of_N delay),
                                    mkevq h (q_blocking q) (q_bypass q) (q_internal q))
             | None => None end
  end.

Definition evq_peek_non_blocking (q : evq) (delay : N) : option sev * qid :=
  let b := heap_peek (q_base q) in let i := heap_peek (q_internal q) in
  if before b i delay then (b, QBase) else (i, QInternal).

Record simq := mksimq { sq_c : evq; sq_s : evq; sq_pps : option N }.

Definition sq_side (sq : simq) (is_client : bool) : evq := if is_client then sq_c sq else sq_s sq.
Definition sq_set_side (sq : simq) (is_client : bool) (q : evq) : simq :=
  if is_client then mksimq q (sq_s sq) (sq_pps sq) else mksimq (sq_c sq) q (sq_pps sq).
Definition sq_len (sq : simq) : nat := (evq_len (sq_c sq) + evq_len (sq_s sq))%nat.
Definition sq_push (sq : simq) (x : sev) : simq :=
  sq_set_side sq (se_client x) (evq_push (sq_side sq (se_client x)) x).
Definition sq_no_normal (sq : simq) : bool := evq_no_normal (sq_c sq) && evq_no_normal (sq_s sq).

Definition sq_peek (sq : simq) (cd sd : N) (nowt : Z) : option sev * qid * N :=
  match sq_len sq with
  | O => (None, QBlocking, 0)
  | _ =>
      let '(c, cq, cdur) := evq_peek (sq_c sq) cd nowt in
      let '(s, sqq, sdur) := evq_peek (sq_s sq) sd nowt in
      match c, s with
      | Some _, None => (c, cq, cdur)
      | None, Some _ => (s, sqq, sdur)
      | None, None => (None, QBlocking, 0)
      | Some ce, Some se =>
          match (match N.compare cdur sdur with Eq => N.compare (ev_idx (se_ev ce)) (ev_idx (se_ev se)) | x => x end) with
          | Gt => (s, sqq, sdur)
          | _ => (c, cq, cdur)
          end
      end
  end.

Definition sq_pop (sq : simq) (which : qid) (is_client : bool) (delay : N) : option (sev * simq) :=
  match evq_pop (sq_side sq is_client) which delay with
  | Some (x, q) => Some (x, sq_set_side sq is_client q)
  | None => None
  end.

Definition sq_peek_blocking (sq : simq) (active_bypassable is_client : bool) : option sev * qid :=
  let q := sq_side sq is_client in
  if active_bypassable then (heap_peek (q_blocking q), QBlocking)
  else
    let b := heap_peek (q_blocking q) in let bb := heap_peek (q_bypass q) in
    if opt_gt b bb then (b, QBlocking) else (bb, QBypassable).

Definition sq_pop_blocking (sq : simq) (which : qid) (bypassable is_client : bool) (delay : N)
  : option (sev * simq) :=
  if bypassable then sq_pop sq QBlocking is_client 0     (* self.<side>.blocking.pop() *)
  else sq_pop sq which is_client delay.

Definition sq_peek_non_blocking (sq : simq) (bypassable is_client : bool) (delay : N) : option sev * qid :=
  let q := sq_side sq is_client in
  if bypassable then
    let bb := heap_peek (q_bypass q) in
    let '(n, nq) := evq_peek_non_blocking q delay in
    if opt_gt bb n then (bb, QBypassable) else (n, nq)
  else evq_peek_non_blocking q delay.

Definition sq_first_time (sq : simq) : option Z :=
  match heap_peek (q_base (sq_c sq)), heap_peek (q_base (sq_s sq)) with
  | Some c, Some s => Some (Z.min (se_time c) (se_time s))
  | Some c, None => Some (se_time c)
  | None, Some s => Some (se_time s)
  | None, None => None
  end.

(** ** network.rs *)
Record pend := mkpend { p_time : Z; p_delay : N; p_client : bool }.
Definition pend_le (a b : pend) : bool := (p_time b <=? p_time a)%Z.   (* reversed on time *)

Record netb := mknetb {
  n_cagg : N; n_sagg : N; n_aggq : list pend; n_delay : N;
  n_cwin : list Z; n_swin : list Z; n_added : N; n_limit : N
}.

Definition USIZE_MAX : N := 18446744073709551615.
Definition WINDOW : N := NS.   (* Duration::from_secs(1) *)

Definition netb_new (delay : N) (pps queue_pps : option N) : outcome netb :=
  let p := match pps with Some x => x | None => match queue_pps with Some y => y | None => USIZE_MAX end end in
  (* `window / pps.clamp(1, u32::MAX) as u32` *)
  let p32 := N.min (N.max p 1) 4294967295 in
  Ok (mknetb 0 0 [] delay [] [] (WINDOW / p32) p).

Fixpoint prune (win : N) (fuel : nat) (w : list Z) (nowt : Z) : list Z :=
  match fuel, w with
  | S f, oldest :: t => if win <? since nowt oldest then prune win f t nowt else w
  | _, _ => w
  end.

(** WindowCount::add for a window of width [win] *)
Definition window_add_w (win : N) (w : list Z) (nowt : Z) : list Z * N :=
  let w' := prune win (S (length w)) (w ++ [nowt]) nowt in (w', N.of_nat (length w')).

Definition window_add (w : list Z) (nowt : Z) : list Z * N := window_add_w WINDOW w nowt.

Definition net_sample (nb : netb) (nowt : Z) (is_client : bool) : netb * N * option N :=
  let '(w, count) := window_add (if is_client then n_cwin nb else n_swin nb) nowt in
  let nb' := if is_client
             then mknetb (n_cagg nb) (n_sagg nb) (n_aggq nb) (n_delay nb) w (n_swin nb) (n_added nb) (n_limit nb)
             else mknetb (n_cagg nb) (n_sagg nb) (n_aggq nb) (n_delay nb) (n_cwin nb) w (n_added nb) (n_limit nb) in
  let d := if n_limit nb <? count then n_added nb * ((count - n_limit nb) mod 4294967296) else 0 in
  if 0 <? d then (nb', d + n_delay nb, Some d) else (nb', n_delay nb, None).

Definition net_peek_agg (nb : netb) (nowt : Z) : N :=
  match heap_peek (n_aggq nb) with Some p => since (p_time p) nowt | None => DMAX end.

Definition net_set_aggq (nb : netb) (q : list pend) : netb :=
  mknetb (n_cagg nb) (n_sagg nb) q (n_delay nb) (n_cwin nb) (n_swin nb) (n_added nb) (n_limit nb).

Definition net_push_agg (nb : netb) (block : N) (nowt : Z) (client_expiry : bool) : netb :=
  let d := n_delay nb in
  let '(c, s) :=
    if client_expiry then ((if block <? 4 * d then 4 * d - block else 0), (if block <? 3 * d then 3 * d - block else 0))
    else ((if block <? d then d - block else 0), (if block <? 4 * d then 4 * d - block else 0)) in
  let q1 := heap_push pend_le (n_aggq nb) (mkpend (nowt + Z.of_N c) block true) in
  net_set_aggq nb (heap_push pend_le q1 (mkpend (nowt + Z.of_N s) block false)).

Definition net_pop_agg (nb : netb) : netb :=
  match heap_pop pend_le (n_aggq nb) with
  | Some (p, q) =>
      if p_client p
      then mknetb (n_cagg nb + p_delay p) (n_sagg nb) q (n_delay nb) (n_cwin nb) (n_swin nb) (n_added nb) (n_limit nb)
      else mknetb (n_cagg nb) (n_sagg nb + p_delay p) q (n_delay nb) (n_cwin nb) (n_swin nb) (n_added nb) (n_limit nb)
  | None => nb
  end.

(** ** parse_trace (lib.rs): a line "t,s" queues a client NormalSent at t, a
    line "t,r" a server NormalSent one network delay earlier; the queue's pps
    limit is ten times the largest number of packets of one direction seen in
    a 100 ms window (windows slide in FILE order). Times are relative to the
    parser's starting instant. *)
Definition PARSE_WINDOW : N := 100000000.

Fixpoint parse_lines (tr : list (Z * bool)) (delay : N) (q : simq) (sw rw : list Z) (smax rmax : N)
  : simq * N :=
  match tr with
  | [] => (q, N.max smax rmax * 10)
  | (t, true) :: rest =>
      let '(sw', m) := window_add_w PARSE_WINDOW sw t in
      parse_lines rest delay (sq_push q (mksev TENormalSent t true false false false)) sw' rw (N.max smax m) rmax
  | (t, false) :: rest =>
      let '(rw', m) := window_add_w PARSE_WINDOW rw t in
      parse_lines rest delay (sq_push q (mksev TENormalSent (t - Z.of_N delay) false false false false))
                  sw rw' smax (N.max rmax m)
  end.

Definition parse_trace (tr : list (Z * bool)) (delay : N) : simq :=
  let '(q, pps) := parse_lines tr delay (mksimq evq_empty evq_empty None) [] [] 0 0 in
  mksimq (sq_c q) (sq_s q) (Some pps).

(** ** delay.rs *)
Definition MS : N := 1000000.
Definition agg_delay_on_blocking_expire (sq : simq) (is_client : bool) (expire : Z) (head : sev) (agg : N)
  : option N :=
  let q := sq_side sq is_client in
  let buffer := (length (q_blocking q) + length (q_bypass q))%nat in
  let tail :=
    if Nat.ltb 2 buffer then
      fold_left (fun tl e => if (since (se_time e) (se_time head) <=? MS) && (tl <? se_time e)%Z then se_time e else tl)
                (q_blocking q ++ q_bypass q) (se_time head)
    else se_time head in
  if (expire =? tail)%Z then None
  else
    match heap_peek (q_base q) with
    | Some b => if since (se_time b + Z.of_N agg) (se_time head) <=? MS then None else Some (since expire tail)
    | None => Some (since expire tail)
    end.

Definition agg_delay_on_padding_bypass_replace (sq : simq) (is_client : bool) (nowt : Z) (head : sev) (agg : N)
  : option N :=
  let q := sq_side sq is_client in
  if existsb (fun e => since (se_time e) (se_time head) <=? 100 * MS) (q_blocking q ++ q_bypass q) then None
  else
    match heap_peek (q_base q) with
    | Some b => if since (se_time b + Z.of_N agg) (se_time head) <=? MS then None else Some (since nowt (se_time head))
    | None => Some (since nowt (se_time head))
    end.

Definition should_delayed_packet_prop_agg_delay (sq : simq) (is_client : bool) (pkt : sev) (agg : N) : bool :=
  let q := sq_side sq is_client in
  if existsb (fun e => since (se_time e) (se_time pkt) <=? 100 * MS) (q_blocking q ++ q_bypass q) then false
  else
    match heap_peek (q_base q) with
    | Some b => negb (since (se_time b + Z.of_N agg) (se_time pkt) <=? MS)
    | None => true
    end.

(** ** one side of the simulation *)
Record side := mkside {
  s_fw : fstate;
  s_sched : list (option (taction * Z));
  s_timers : list (option Z);
  s_buntil : option Z;
  s_bbypass : bool
}.

Definition side_set_fw (s : side) (f : fstate) : side := mkside f (s_sched s) (s_timers s) (s_buntil s) (s_bbypass s).
Definition side_set_sched (s : side) (x : list (option (taction * Z))) : side :=
  mkside (s_fw s) x (s_timers s) (s_buntil s) (s_bbypass s).
Definition side_set_timers (s : side) (x : list (option Z)) : side :=
  mkside (s_fw s) (s_sched s) x (s_buntil s) (s_bbypass s).
Definition side_set_block (s : side) (u : option Z) (b : bool) : side :=
  mkside (s_fw s) (s_sched s) (s_timers s) u b.

(** ** queue_peek.rs *)
Definition peek_sched (sc ss : list (option (taction * Z))) (nowt : Z) : N :=
  let f := fun (acc : N) (o : option (taction * Z)) =>
             match o with
             | Some (_, t) => if (nowt <=? t)%Z && (since t nowt <? acc) then since t nowt else acc
             | None => acc
             end in
  fold_left f ss (fold_left f sc DMAX).

Definition peek_timers (tc ts : list (option Z)) (nowt : Z) : N :=
  let f := fun (acc : N) (o : option Z) =>
             match o with
             | Some t => if (nowt <=? t)%Z && (since t nowt <? acc) then since t nowt else acc
             | None => acc
             end in
  fold_left f ts (fold_left f tc DMAX).

Definition peek_blocked_exp (bc bs : option Z) (nowt : Z) : N * bool :=
  match bc, bs with
  | Some c, Some s => if (c <? s)%Z then (since c nowt, true) else (since s nowt, false)
  | Some c, None => (since c nowt, true)
  | None, Some s => (since s nowt, false)
  | None, None => (DMAX, true)
  end.

Definition peek_queue_earliest_side (sq : simq) (buntil : option Z) (bbypass : bool) (nowt : Z)
           (delay : N) (is_client : bool) : N * qid * bool :=
  let '(pb, bq) := sq_peek_blocking sq bbypass is_client in
  let '(pn, nq) := sq_peek_non_blocking sq bbypass is_client delay in
  match pb, pn with
  | None, None => (DMAX, QBlocking, is_client)
  | None, Some n =>
      let nt := if qid_eqb nq QBase then (se_time n + Z.of_N delay)%Z else se_time n in
      (since nt nowt, nq, is_client)
  | Some b, None =>
      let bu := match buntil with Some u => u | None => nowt end in
      (since (Z.max (se_time b) bu) nowt, bq, is_client)
  | Some b, Some n =>
      let bu := match buntil with Some u => u | None => nowt end in
      let nt := if qid_eqb nq QBase then (se_time n + Z.of_N delay)%Z else se_time n in
      let bt := Z.max (se_time b) bu in
      let blocking_first := match Z.compare bt nt with
                            | Lt => true | Gt => false | Eq => negb (qid_eqb nq QBase) end in
      if blocking_first then (since bt nowt, bq, is_client) else (since nt nowt, nq, is_client)
  end.

Definition peek_queue (sq : simq) (c s : side) (cd sd : N) (earliest : N) (nowt : Z) : N * qid * bool :=
  match sq_len sq with
  | O => (DMAX, QBlocking, false)
  | _ =>
      let '(pk, q, dur) := sq_peek sq cd sd nowt in
      match pk with
      | None => (DMAX, QBlocking, false)      (* unreachable: the queue is not empty *)
      | Some p =>
          if earliest <? dur then (DMAX, QBlocking, false)
          else if negb (is_tunnel_sent (se_ev p)) then (dur, q, se_client p)
          else
            let cb := match s_buntil c with Some _ => true | None => false end in
            let sb := match s_buntil s with Some _ => true | None => false end in
            if negb cb && negb sb then (dur, q, se_client p)
            else if (se_client p && negb cb) || (negb (se_client p) && negb sb) then (dur, q, se_client p)
            else if (se_client p && cb && s_bbypass c && se_bypass p)
                    || (negb (se_client p) && sb && s_bbypass s && se_bypass p) then (dur, q, se_client p)
            else
              let '(c_d, c_q, c_b) := peek_queue_earliest_side sq (s_buntil c) (s_bbypass c) nowt cd true in
              let '(s_d, s_q, s_b) := peek_queue_earliest_side sq (s_buntil s) (s_bbypass s) nowt sd false in
              if c_d <=? s_d then (c_d, c_q, c_b) else (s_d, s_q, s_b)
      end
  end.

(** ** the simulation state *)
Record sim := mksim {
  m_sq : simq; m_c : side; m_s : side; m_net : netb; m_pos : nat
}.

Definition P_BUG : N := 10.   (* one of the simulator's "BUG:" assertions *)

(** find and clear the first timer equal to [target] *)
Fixpoint take_timer (l : list (option Z)) (target : Z) (i : nat) : option (nat * list (option Z)) :=
  match l with
  | [] => None
  | Some t :: r => if (t =? target)%Z then Some (i, None :: r)
                   else match take_timer r target (S i) with
                        | Some (j, r') => Some (j, Some t :: r') | None => None end
  | None :: r => match take_timer r target (S i) with
                 | Some (j, r') => Some (j, None :: r') | None => None end
  end.

Definition do_internal_timer (c s : side) (target : Z) : outcome (side * side * sev) :=
  match take_timer (s_timers c) target 0 with
  | Some (id, l) =>
      Ok (side_set_timers c l, s, mksev (TETimerEnd (N.of_nat id)) target true false false false)
  | None =>
      match take_timer (s_timers s) target 0 with
      | Some (id, l) =>
          Ok (c, side_set_timers s l, mksev (TETimerEnd (N.of_nat id)) target false false false false)
      | None => Panic P_BUG
      end
  end.

Fixpoint take_action (l : list (option (taction * Z))) (target : Z)
  : option (taction * Z * list (option (taction * Z))) :=
  match l with
  | [] => None
  | Some (a, t) :: r => if (t =? target)%Z then Some (a, t, None :: r)
                        else match take_action r target with
                             | Some (a', t', r') => Some (a', t', Some (a, t) :: r') | None => None end
  | None :: r => match take_action r target with
                 | Some (a', t', r') => Some (a', t', None :: r') | None => None end
  end.

(** act on one scheduled action of a side *)
Definition act_on (sd : side) (is_client : bool) (a : taction) (t : Z) : outcome (side * sev) :=
  match a with
  | TCancel _ _ => Panic P_BUG
  | TUpdateTimer _ _ _ => Panic P_BUG
  | TSendPadding m _ by_ rp => Ok (sd, mksev (TEPaddingSent m) t is_client true by_ rp)
  | TBlockOutgoing m _ dur by_ rp =>
      let block := (t + Z.of_N dur)%Z in
      let cur_until := match s_buntil sd with Some u => u | None => t end in
      (* extending keeps the conjunction of the bypass flags; starting or replacing sets it *)
      let by' := if rp then by_ else match s_buntil sd with None => by_ | Some _ => s_bbypass sd && by_ end in
      let sd' := if rp || (cur_until <? block)%Z then side_set_block sd (Some block) by' else sd in
      Ok (sd', mksev (TEBlockingBegin m) t is_client false (s_bbypass sd') false)
  end.

Definition do_scheduled_action (c s : side) (target : Z) : outcome (side * side * sev) :=
  match take_action (s_sched c) target with
  | Some (a, t, l) =>
      '(c', e) <- act_on (side_set_sched c l) true a t ;; Ok (c', s, e)
  | None =>
      match take_action (s_sched s) target with
      | Some (a, t, l) => '(s', e) <- act_on (side_set_sched s l) false a t ;; Ok (c, s', e)
      | None => Panic P_BUG
      end
  end.

(** ** pick_next *)
Fixpoint pick_next (fuel : nat) (st : sim) (nowt : Z) : outcome (option sev * sim) :=
  match fuel with
  | O => OutOfFuel
  | S fuel' =>
      let c := m_c st in let s := m_s st in let net := m_net st in let sq := m_sq st in
      let sa := peek_sched (s_sched c) (s_sched s) nowt in
      let it := peek_timers (s_timers c) (s_timers s) nowt in
      let '(b, b_is_client) := peek_blocked_exp (s_buntil c) (s_buntil s) nowt in
      let n := net_peek_agg net nowt in
      let '(q, which, q_is_client) :=
        peek_queue sq c s (n_cagg net) (n_sagg net) (N.min (N.min (N.min sa it) b) n) nowt in
      if (sa =? DMAX) && (it =? DMAX) && (b =? DMAX) && (n =? DMAX) && (q =? DMAX) then Ok (None, st)
      else if (n <=? sa) && (n <=? it) && (n <=? b) && (n <=? q) then
        pick_next fuel' (mksim sq c s (net_pop_agg net) (m_pos st)) nowt
      else if (b <=? sa) && (b <=? it) && (b <=? q) then
        (* blocking expiry *)
        let '(c', s') := if b_is_client then (side_set_block c None (s_bbypass c), s)
                         else (c, side_set_block s None (s_bbypass s)) in
        let expiry := (nowt + Z.of_N b)%Z in
        let net' :=
          match fst (sq_peek_blocking sq false b_is_client) with
          | Some ev =>
              if (se_time ev <? expiry)%Z then
                match agg_delay_on_blocking_expire sq b_is_client expiry ev
                        (if b_is_client then n_cagg net else n_sagg net) with
                | Some d => net_push_agg net d expiry b_is_client
                | None => net
                end
              else net
          | None => net
          end in
        Ok (Some (mksev TEBlockingEnd expiry b_is_client false false false),
            mksim sq c' s' net' (m_pos st))
      else if (q <=? sa) && (q <=? it) then
        match sq_pop sq which q_is_client (if q_is_client then n_cagg net else n_sagg net) with
        | Some (tmp, sq') =>
            let t := (nowt + Z.of_N q)%Z in
            let tmp' := if (se_time tmp <? t)%Z then set_time tmp t else tmp in
            Ok (Some tmp', mksim sq' c s net (m_pos st))
        | None => Panic P_UNWRAP
        end
      else if it <=? sa then
        (* nothing can happen before the expiry: pick again as of then *)
        '(c', s', e) <- do_internal_timer c s (nowt + Z.of_N it)%Z ;;
        pick_next fuel' (mksim (sq_push sq e) c' s' net (m_pos st)) (nowt + Z.of_N it)%Z
      else
        '(c', s', e) <- do_scheduled_action c s (nowt + Z.of_N sa)%Z ;;
        pick_next fuel' (mksim (sq_push sq e) c' s' net (m_pos st)) (nowt + Z.of_N sa)%Z
  end.

(** ** sim_network_stack *)
Definition sim_network_stack (next : sev) (sq : simq) (sender_bbypass : bool) (net : netb) (nowt : Z)
  : outcome (simq * netb * bool) :=
  let agg := if se_client next then n_cagg net else n_sagg net in
  match se_ev next with
  | TENormalSent =>
      Ok (sq_push sq (mksev TETunnelSent (se_time next) (se_client next) false false false), net, false)
  | TEPaddingSent _ =>
      let plain := sq_push sq (mksev TETunnelSent (se_time next) (se_client next) true
                                     (se_bypass next) (se_replace next)) in
      if se_replace next then
        match sq_peek_blocking sq sender_bbypass (se_client next) with
        | (Some queued, which) =>
            if Bool.eqb (se_client queued) (se_client next) && is_tunnel_sent (se_ev queued)
               && negb (se_pad queued) then
              if negb (se_bypass next) then Ok (sq, net, false)
              else
                match sq_pop_blocking sq which sender_bbypass (se_client next) agg with
                | Some (entry, sq') =>
                    let entry' := mksev (se_ev entry) (se_time entry) (se_client entry) (se_pad entry) true false in
                    let net' :=
                      match agg_delay_on_padding_bypass_replace sq' (se_client next) nowt entry' agg with
                      | Some d => net_push_agg net d nowt (se_client next)
                      | None => net
                      end in
                    Ok (sq_push sq' entry', net', false)
                | None => Panic P_UNWRAP
                end
            else Ok (plain, net, false)
        | (None, _) => Ok (plain, net, false)
        end
      else Ok (plain, net, false)
  | TETunnelSent =>
      let '(net1, network_delay, baseline) := net_sample net nowt (se_client next) in
      let net2 :=
        match baseline with
        | Some pps_delay =>
            if should_delayed_packet_prop_agg_delay sq (se_client next) next (n_cagg net1)
            then net_push_agg net1 pps_delay nowt (se_client next) else net1
        | None => net1
        end in
      if negb (se_pad next) then
        let reported := Z.max (se_time next + Z.of_N network_delay) nowt in
        Ok (sq_push sq (mksev TETunnelRecv reported (negb (se_client next)) false false false), net2, true)
      else
        let reported := (se_time next + Z.of_N network_delay)%Z in
        Ok (sq_push sq (mksev TETunnelRecv reported (negb (se_client next)) true false false), net2, true)
  | TETunnelRecv =>
      if se_pad next
      then Ok (sq_push sq (mksev TEPaddingRecv (se_time next) (se_client next) true false false), net, true)
      else Ok (sq_push sq (mksev TENormalRecv (se_time next) (se_client next) false false false), net, true)
  | _ => Ok (sq, net, false)
  end.

(** ** trigger_update *)
Fixpoint apply_actions (acts : list taction) (sd : side) (sq : simq) (nowt : Z) (is_client : bool)
  : outcome (side * simq) :=
  match acts with
  | [] => Ok (sd, sq)
  | a :: rest =>
      let mi := N.to_nat (taction_machine a) in
      '(sd', sq') <-
        match a with
        | TCancel _ tm =>
            _ <- get (s_sched sd) mi ;;
            Ok (match tm with
                | TAction => side_set_sched sd (upd (s_sched sd) mi None)
                | TInternal => side_set_timers sd (upd (s_timers sd) mi None)
                | TAll => side_set_timers (side_set_sched sd (upd (s_sched sd) mi None))
                                          (upd (s_timers sd) mi None)
                end, sq)
        | TSendPadding _ tmo _ _ | TBlockOutgoing _ tmo _ _ _ =>
            _ <- get (s_sched sd) mi ;;
            Ok (side_set_sched sd (upd (s_sched sd) mi (Some (a, (nowt + Z.of_N tmo)%Z))), sq)
        | TUpdateTimer m dur rp =>
            cur <- get (s_timers sd) mi ;;
            let current := match cur with Some t => t | None => nowt end in
            if rp || (match cur with None => true | Some _ => false end) || (current <? nowt + Z.of_N dur)%Z then
              Ok (side_set_timers sd (upd (s_timers sd) mi (Some (nowt + Z.of_N dur)%Z)),
                  sq_push sq (mksev (TETimerBegin m) nowt is_client false false false))
            else Ok (sd, sq)
        end ;;
      apply_actions rest sd' sq' nowt is_client
  end.

Definition trigger_update (cf : cfg) (tp : tape) (sd : side) (pos : nat) (next : sev) (nowt : Z)
           (sq : simq) (is_client : bool) : outcome (side * simq * nat) :=
  '(fw', acts) <- trigger_events cf tp (set_pos (s_fw sd) pos) [se_ev next] nowt ;;
  '(sd', sq') <- apply_actions acts (side_set_fw sd fw') sq nowt is_client ;;
  Ok (sd', sq', Framework.pos fw').

(** ** sim_advanced *)
Record simargs := mksimargs {
  a_max_trace : N; a_max_iter : N; a_continue : bool; a_only_client : bool; a_only_network : bool
}.

(** stable insertion by time (Vec::sort_by is a stable sort) *)
Fixpoint insert_time (x : sev) (l : list sev) : list sev :=
  match l with
  | [] => [x]
  | y :: t => if (se_time x <? se_time y)%Z then x :: l else y :: insert_time x t
  end.
Definition sort_time (l : list sev) : list sev := fold_left (fun acc x => insert_time x acc) l [].

Fixpoint sim_loop (fuel : nat) (ccfg scfg : cfg) (tp : tape) (args : simargs) (st : sim) (nowt : Z)
         (trace : list sev) (iters : N) : outcome (list sev) :=
  match fuel with
  | O => OutOfFuel
  | S fuel' =>
      '(nx, st1) <- pick_next (S (S (length (n_aggq (m_net st)) + length (s_timers (m_c st))
                                     + length (s_timers (m_s st)) + length (s_sched (m_c st))
                                     + length (s_sched (m_s st))))) st nowt ;;
      match nx with
      | None => Ok (rev trace)
      | Some next =>
          if (se_time next <? nowt)%Z then Panic P_BUG
          else
            let nowt' := se_time next in
            let sender_bb := if se_client next then s_bbypass (m_c st1) else s_bbypass (m_s st1) in
            '(sq2, net2, activity) <- sim_network_stack next (m_sq st1) sender_bb (m_net st1) nowt' ;;
            '(c3, s3, sq3, pos3) <-
              (if se_client next then
                 '(c', sq', p') <- trigger_update ccfg tp (m_c st1) (m_pos st1) next nowt' sq2 true ;;
                 Ok (c', m_s st1, sq', p')
               else
                 '(s', sq', p') <- trigger_update scfg tp (m_s st1) (m_pos st1) next nowt' sq2 false ;;
                 Ok (m_c st1, s', sq', p')) ;;
            let st3 := mksim sq3 c3 s3 net2 pos3 in
            let trace' := if (negb (a_only_network args) || activity)
                             && (negb (a_only_client args) || se_client next)
                          then next :: trace else trace in
            if (0 <? a_max_trace args) && (a_max_trace args <=? N.of_nat (length trace')) then Ok (rev trace')
            else
              let iters' := iters + 1 in
              if (0 <? a_max_iter args) && (a_max_iter args <=? iters') then Ok (rev trace')
              else if negb (a_continue args) && sq_no_normal sq3 then Ok (rev trace')
              else sim_loop fuel' ccfg scfg tp args st3 nowt' trace' iters'
      end
  end.

Definition new_side (cf : cfg) (fw : fstate) : side :=
  mkside fw (map (fun _ => None) (machines cf)) (map (fun _ => None) (machines cf)) None false.

(** Framework::new reading the shared tape from position [p] *)
Definition fnew_at (c : cfg) (tp : tape) (t0 : Z) (p : nat) : outcome fstate :=
  '(rs, p') <- init_rts tp p (machines c) ;;
  Ok (mkfstate t0 t0 rs (map (fun _ => None) (machines c)) 0 0 0 t0 false None p' 0 []).

Definition sim_advanced (fuel : nat) (ccfg scfg : cfg) (tp : tape) (sq : simq)
           (delay : N) (pps : option N) (args : simargs) : outcome (list sev) :=
  match sq_first_time sq with
  | None => Panic P_UNWRAP
  | Some t0 =>
      cfw <- fnew_at ccfg tp t0 0 ;;
      sfw <- fnew_at scfg tp t0 (Framework.pos cfw) ;;
      net <- netb_new delay pps (sq_pps sq) ;;
      tr <- sim_loop fuel ccfg scfg tp args
              (mksim sq (new_side ccfg cfw) (new_side scfg sfw) net (Framework.pos sfw)) t0 [] 0 ;;
      Ok (sort_time tr)
  end.
