(** Executable model of crates/maybenot/src/framework.rs (with the sampling
    glue of dist.rs, action.rs, counter.rs and state.rs).

    Conventions: see DESIGN.md section 2.1. Randomness is an oracle tape
    [tape : nat -> N] read at position [pos]; every call of
    [State::sample_state] on a present transition vector reads one entry (the
    23-bit value k, r = k / 2^23), every call of [Dist::dist_sample] reads one
    entry (the raw f64 bits returned by the sampler). Recursion
    transition -> update_counter -> transition is by explicit fuel. *)
From MB Require Export Base.Prelude Base.Floats Model.Types.
From Flocq Require Import IEEE754.BinarySingleNaN.
Open Scope N_scope.

(** ** Clock (time.rs): instants are Z ticks, durations are N ticks *)
Record clock := mkclock {
  c_since : Z -> Z -> N;                 (* saturating_duration_since *)
  c_add : N -> N -> outcome N;           (* Duration += *)
  c_from_micros : N -> N;
  c_div : N -> N -> F64                  (* div_duration_f64 *)
}.

(** the harness's virtual clock: u64 microsecond ticks, saturating add *)
Definition vclock : clock := {|
  c_since := fun a b => Z.to_N (a - b);
  c_add := fun a b => Ok (sat_add a b);
  c_from_micros := fun u => u;
  c_div := fun a b => fdiv (f64_of_N a) (f64_of_N b)
|}.

Record cfg := mkcfg {
  machines : list machine;
  fw_max_padding_frac : N;   (* f64 bits *)
  fw_max_blocking_frac : N;  (* f64 bits *)
  clk : clock
}.

Definition tape := nat -> N.

(** ** Runtime state *)
Record mrt := mkmrt {
  cur : N;        (* current_state *)
  lim : N;        (* state_limit *)
  psent : N;      (* padding_sent *)
  nsent : N;      (* normal_sent *)
  bdur : N;       (* blocking_duration *)
  ca : N;         (* counter_a *)
  cb : N;         (* counter_b *)
  za : bool;      (* counter_zeroed_once.0 of this machine *)
  zb : bool
}.

Inductive sigtarget := SigAll | SigAllExcept (m : nat).

(** log entries (ghost output, mirrored by the verif hook) *)
Definition LOG_TRANS : N := 0.
Definition LOG_NEXT : N := 1.
Definition LOG_DEC : N := 2.
Definition LOG_LIMIT : N := 3.
Definition LOG_SCHED : N := 4.
Definition LOG_SIGSET : N := 5.
Definition LOG_SIGDELIVER : N := 6.
Definition LOG_CZERO : N := 7.
Definition LOG_CHANGE : N := 8.

Record fstate := mkfstate {
  now : Z;
  fstart : Z;
  rts : list mrt;
  slots : list (option taction);
  gnorm : N;      (* normal_sent_packets *)
  gpad : N;       (* padding_sent_packets *)
  gblk : N;       (* blocking_duration *)
  bstart : Z;     (* blocking_started *)
  bactive : bool;
  sigp : option sigtarget;
  pos : nat;      (* tape read position *)
  nsteps : N;     (* entries into [transition] in the current call *)
  flog : list (N * N * N)   (* reversed log of the current call *)
}.

Definition set_rts (s : fstate) (r : list mrt) : fstate :=
  mkfstate (now s) (fstart s) r (slots s) (gnorm s) (gpad s) (gblk s) (bstart s)
           (bactive s) (sigp s) (pos s) (nsteps s) (flog s).
Definition set_slots (s : fstate) (a : list (option taction)) : fstate :=
  mkfstate (now s) (fstart s) (rts s) a (gnorm s) (gpad s) (gblk s) (bstart s)
           (bactive s) (sigp s) (pos s) (nsteps s) (flog s).
Definition set_sigp (s : fstate) (g : option sigtarget) : fstate :=
  mkfstate (now s) (fstart s) (rts s) (slots s) (gnorm s) (gpad s) (gblk s) (bstart s)
           (bactive s) g (pos s) (nsteps s) (flog s).
Definition set_pos (s : fstate) (p : nat) : fstate :=
  mkfstate (now s) (fstart s) (rts s) (slots s) (gnorm s) (gpad s) (gblk s) (bstart s)
           (bactive s) (sigp s) p (nsteps s) (flog s).
Definition add_log (s : fstate) (e : N * N * N) : fstate :=
  mkfstate (now s) (fstart s) (rts s) (slots s) (gnorm s) (gpad s) (gblk s) (bstart s)
           (bactive s) (sigp s) (pos s) (nsteps s) (e :: flog s).
Definition add_step (s : fstate) : fstate :=
  mkfstate (now s) (fstart s) (rts s) (slots s) (gnorm s) (gpad s) (gblk s) (bstart s)
           (bactive s) (sigp s) (pos s) (nsteps s + 1) (flog s).
Definition set_rt (s : fstate) (mi : nat) (r : mrt) : fstate :=
  set_rts s (upd (rts s) mi r).
Definition set_slot (s : fstate) (mi : nat) (a : option taction) : fstate :=
  set_slots s (upd (slots s) mi a).

Definition rt_set_cur (r : mrt) (c l : N) : mrt :=
  mkmrt c l (psent r) (nsent r) (bdur r) (ca r) (cb r) (za r) (zb r).
Definition rt_set_lim (r : mrt) (l : N) : mrt :=
  mkmrt (cur r) l (psent r) (nsent r) (bdur r) (ca r) (cb r) (za r) (zb r).
Definition rt_set_psent (r : mrt) (v : N) : mrt :=
  mkmrt (cur r) (lim r) v (nsent r) (bdur r) (ca r) (cb r) (za r) (zb r).
Definition rt_set_nsent (r : mrt) (v : N) : mrt :=
  mkmrt (cur r) (lim r) (psent r) v (bdur r) (ca r) (cb r) (za r) (zb r).
Definition rt_set_bdur (r : mrt) (v : N) : mrt :=
  mkmrt (cur r) (lim r) (psent r) (nsent r) v (ca r) (cb r) (za r) (zb r).
Definition rt_set_ca (r : mrt) (v : N) (z : bool) : mrt :=
  mkmrt (cur r) (lim r) (psent r) (nsent r) (bdur r) v (cb r) z (zb r).
Definition rt_set_cb (r : mrt) (v : N) (z : bool) : mrt :=
  mkmrt (cur r) (lim r) (psent r) (nsent r) (bdur r) (ca r) v (za r) z.
Definition rt_clear_z (r : mrt) : mrt :=
  mkmrt (cur r) (lim r) (psent r) (nsent r) (bdur r) (ca r) (cb r) false false.

(** ** Sampling (dist.rs, action.rs, counter.rs, state.rs) *)

(** [Dist::dist_sample]: the constant fast path of Uniform, otherwise the
    oracle value. One tape entry is read per call (the hook records every
    call). *)
Definition dist_sample (tp : tape) (p : nat) (d : dist) : F64 * nat :=
  let raw := f64_of_bits (tp p) in
  match dtype d with
  | Uniform low high =>
      let l := f64_of_bits low in
      if feq l (f64_of_bits high) then (l, S p) else (raw, S p)
  | _ => (raw, S p)
  end.

(** [Dist::sample] *)
Definition dist_sample_clamped (tp : tape) (p : nat) (d : dist) : F64 * nat :=
  let '(raw, p') := dist_sample tp p d in
  let r := fmax f64_zero (fadd raw (f64_of_bits (dstart d))) in
  let mx := f64_of_bits (dmax d) in
  if fgt mx f64_zero then (fmin r mx, p') else (r, p').

(** [Action::sample_timeout] / [sample_duration]: min(1 day).round() as u64 *)
Definition sample_day_clamped (tp : tape) (p : nat) (d : dist) : N * nat :=
  let '(v, p') := dist_sample_clamped tp p d in
  (f64_round_u64 (fmin v f64_day), p').

(** [Action::sample_limit] *)
Definition sample_limit (tp : tape) (p : nat) (a : action) : N * nat :=
  match a with
  | SendPadding _ _ _ (Some l) | BlockOutgoing _ _ _ _ (Some l) | UpdateTimer _ _ (Some l) =>
      let '(v, p') := dist_sample_clamped tp p l in (f64_round_u64 v, p')
  | _ => (STATE_LIMIT_MAX, p)
  end.

(** [Counter::sample_value] *)
Definition sample_value (tp : tape) (p : nat) (c : counter) : N * nat :=
  match cdist c with
  | None => (1, p)
  | Some d => let '(v, p') := dist_sample_clamped tp p d in (f64_trunc_u64 v, p')
  end.

(** [State::sample_state]: cumulative f32 sums against r = k / 2^23 *)
Fixpoint pick_trans (v : list trans) (sum r : F32) : option N :=
  match v with
  | [] => None
  | (t, p) :: v' =>
      let sum' := fadd32 sum (f32_of_bits p) in
      if flt32 r sum' then Some t else pick_trans v' sum' r
  end.

Definition sample_state (tp : tape) (p : nat) (st : state) (ev : event) : option N * nat :=
  match nth_error (strans st) (event_idx ev) with
  | Some (Some v) => (pick_trans v f32_zero (f32_of_k (tp p mod 8388608)), S p)   (* the draw is 23 bits: `next_u32() >> 9` *)
  | _ => (None, p)
  end.

(** ** Limits *)

Definition below_limit_padding (c : cfg) (s : fstate) (r : mrt) (m : machine) : bool :=
  if psent r <? allowed_padding_packets m then 0 <? lim r
  else
    let mf := f64_of_bits (max_padding_frac m) in
    let total := nsent r + psent r in
    if fgt mf f64_zero && (0 <? total)
       && fge (fdiv (f64_of_N (psent r)) (f64_of_N total)) mf then false
    else
      let gf := f64_of_bits (fw_max_padding_frac c) in
      let gtotal := gpad s + gnorm s in
      if fgt gf f64_zero && (0 <? gtotal)
         && fge (fdiv (f64_of_N (gpad s)) (f64_of_N gtotal)) gf then false
      else 0 <? lim r.

Definition below_limit_blocking (c : cfg) (s : fstate) (r : mrt) (m : machine)
           (replace : bool) : outcome bool :=
  if replace && bactive s then Ok (0 <? lim r)
  else
    let ongoing := c_since (clk c) (now s) (bstart s) in
    m_dur <- (if bactive s then c_add (clk c) (bdur r) ongoing else Ok (bdur r)) ;;
    g_dur <- (if bactive s then c_add (clk c) (gblk s) ongoing else Ok (gblk s)) ;;
    if m_dur <? c_from_micros (clk c) (allowed_blocked_microsec m) then Ok (0 <? lim r)
    else
      let mf := f64_of_bits (max_blocking_frac m) in
      (* machine_start = framework_start *)
      let elapsed := c_since (clk c) (now s) (fstart s) in
      if fgt mf f64_zero && fge (c_div (clk c) m_dur elapsed) mf then Ok false
      else
        let gf := f64_of_bits (fw_max_blocking_frac c) in
        if fgt gf f64_zero && fge (c_div (clk c) g_dur elapsed) gf then Ok false
        else Ok (0 <? lim r).

Definition below_action_limits (c : cfg) (s : fstate) (r : mrt) (m : machine)
  : outcome bool :=
  st <- getN (states m) (cur r) ;;
  match saction st with
  | None => Ok false
  | Some (BlockOutgoing _ replace _ _ _) => below_limit_blocking c s r m replace
  | Some (SendPadding _ _ _ _) => Ok (below_limit_padding c s r m)
  | Some (UpdateTimer _ _ _) => Ok (0 <? lim r)
  | Some (Cancel _) => Ok true
  end.

(** ** schedule_action *)
Definition schedule_action (c : cfg) (tp : tape) (s : fstate) (mi : nat) (stidx : N)
  : outcome fstate :=
  let s := add_log s (LOG_SCHED, N.of_nat mi, stidx) in
  m <- get (machines c) mi ;;
  st <- getN (states m) stidx ;;
  _ <- get (slots s) mi ;;
  let fm := c_from_micros (clk c) in
  match saction st with
  | None => Ok (set_slot s mi None)
  | Some (Cancel t) => Ok (set_slot s mi (Some (TCancel (N.of_nat mi) t)))
  | Some (SendPadding bypass replace timeout _) =>
      let '(t, p) := sample_day_clamped tp (pos s) timeout in
      Ok (set_slot (set_pos s p) mi (Some (TSendPadding (N.of_nat mi) (fm t) bypass replace)))
  | Some (BlockOutgoing bypass replace timeout duration _) =>
      let '(t, p) := sample_day_clamped tp (pos s) timeout in
      let '(d, p) := sample_day_clamped tp p duration in
      Ok (set_slot (set_pos s p) mi
            (Some (TBlockOutgoing (N.of_nat mi) (fm t) (fm d) bypass replace)))
  | Some (UpdateTimer replace duration _) =>
      let '(d, p) := sample_day_clamped tp (pos s) duration in
      Ok (set_slot (set_pos s p) mi (Some (TUpdateTimer (N.of_nat mi) (fm d) replace)))
  end.

(** ** update_counter, parametrised by the recursive call to [transition] *)
Definition apply_op (op : operation) (old change : N) : N :=
  match op with
  | Increment => sat_add old change
  | Decrement => sat_sub old change
  | CSet => change
  end.

Definition update_counter
           (trans : fstate -> nat -> event -> outcome (fstate * bool))
           (c : cfg) (tp : tape) (s : fstate) (mi : nat)
  : outcome (fstate * bool * bool) :=
  m <- get (machines c) mi ;;
  r <- get (rts s) mi ;;
  st <- getN (states m) (cur r) ;;
  let old_a := ca r in
  let old_b := cb r in
  (* counter A *)
  let '(r, p, zeroed_a) :=
    match sctr_a st with
    | None => (r, pos s, false)
    | Some cn =>
        let '(change, p) := if ccopy cn then (old_b, pos s) else sample_value tp (pos s) cn in
        let v := apply_op (cop cn) (ca r) change in
        if negb (old_a =? 0) && (v =? 0) && negb (za r)
        then (rt_set_ca r v true, p, true)
        else (rt_set_ca r v (za r), p, false)
    end in
  (* counter B *)
  let '(r, p, zeroed_b) :=
    match sctr_b st with
    | None => (r, p, false)
    | Some cn =>
        let '(change, p) := if ccopy cn then (old_a, p) else sample_value tp p cn in
        let v := apply_op (cop cn) (cb r) change in
        if negb (old_b =? 0) && (v =? 0) && negb (zb r)
        then (rt_set_cb r v true, p, true)
        else (rt_set_cb r v (zb r), p, false)
    end in
  let s := set_pos (set_rt s mi r) p in
  if zeroed_a || zeroed_b then
    let s := add_log s (LOG_CZERO, N.of_nat mi, 0) in
    '(s, changed) <- trans s mi CounterZero ;;
    slot <- get (slots s) mi ;;
    Ok (s, match slot with None => true | Some _ => false end, changed)
  else Ok (s, true, false).

(** a machine signals: the lone signaller is excluded, two distinct
    signallers reach everybody *)
Definition sig_join (old : option sigtarget) (mi : nat) : sigtarget :=
  match old with
  | None => SigAllExcept mi
  | Some (SigAllExcept x) => if Nat.eqb x mi then SigAllExcept mi else SigAll
  | Some SigAll => SigAll
  end.

(** ** transition *)
Fixpoint transition (fuel : nat) (c : cfg) (tp : tape) (s : fstate) (mi : nat) (ev : event)
  : outcome (fstate * bool) :=
  match fuel with
  | O => OutOfFuel
  | S fuel' =>
      let s := add_step (add_log s (LOG_TRANS, N.of_nat mi, N.of_nat (event_idx ev))) in
      r <- get (rts s) mi ;;
      if cur r =? STATE_END then Ok (s, false)
      else
        m <- get (machines c) mi ;;
        st <- getN (states m) (cur r) ;;
        let '(nxt, p) := sample_state tp (pos s) st ev in
        let s := set_pos s p in
        match nxt with
        | None => Ok (s, false)
        | Some ns =>
            let s := add_log s (LOG_NEXT, N.of_nat mi, ns) in
            if ns =? STATE_END then
              Ok (set_rt s mi (rt_set_cur r STATE_END (lim r)), true)
            else if ns =? STATE_SIGNAL then
              Ok (set_sigp (add_log s (LOG_SIGSET, N.of_nat mi, 0)) (Some (sig_join (sigp s) mi)), false)
            else
              let curr := cur r in
              s <- (if negb (curr =? ns) then
                      nst <- getN (states m) ns ;;
                      let '(l, p) := match saction nst with
                                     | Some a => sample_limit tp (pos s) a
                                     | None => (STATE_LIMIT_MAX, pos s)
                                     end in
                      Ok (set_pos (set_rt (add_log s (LOG_CHANGE, N.of_nat mi, ns)) mi
                                          (rt_set_cur r ns l)) p)
                    else Ok s) ;;
              r1 <- get (rts s) mi ;;
              below <- below_action_limits c s r1 m ;;
              '(s, allow, changed) <- update_counter (transition fuel' c tp) c tp s mi ;;
              s <- (if allow && below then schedule_action c tp s mi ns else Ok s) ;;
              r2 <- get (rts s) mi ;;
              Ok (s, negb ((curr =? cur r2) && negb changed))
        end
  end.

(** fuel: 1 for the outer call + at most 2 nested CounterZero transitions
    (one per zeroed-once flag of the machine); theorem C01 shows it is never
    exhausted. *)
Definition FUEL : nat := 4.

(** ** decrement_limit *)
Definition decrement_limit (c : cfg) (tp : tape) (s : fstate) (mi : nat) : outcome fstate :=
  let s := add_log s (LOG_DEC, N.of_nat mi, 0) in
  r <- get (rts s) mi ;;
  let r := if 0 <? lim r then rt_set_lim r (lim r - 1) else r in
  let s := set_rt s mi r in
  m <- get (machines c) mi ;;
  st <- getN (states m) (cur r) ;;
  match saction st with
  | Some a =>
      if (lim r =? 0) && action_has_limit a then
        let s := set_slot s mi None in
        let s := add_log s (LOG_LIMIT, N.of_nat mi, 0) in
        '(s, _) <- transition FUEL c tp s mi LimitReached ;;
        Ok s
      else Ok s
  | None => Ok s
  end.

(** ** process_event *)

(** transition every machine mi in [from, from+k) on [ev] *)
Fixpoint trans_all (c : cfg) (tp : tape) (ev : event) (k : nat) (from : nat) (s : fstate)
  : outcome fstate :=
  match k with
  | O => Ok s
  | S k' =>
      '(s, _) <- transition FUEL c tp s from ev ;;
      trans_all c tp ev k' (S from) s
  end.

Definition nmach (s : fstate) : nat := length (rts s).

Definition set_gnorm (s : fstate) (v : N) : fstate :=
  mkfstate (now s) (fstart s) (rts s) (slots s) v (gpad s) (gblk s) (bstart s)
           (bactive s) (sigp s) (pos s) (nsteps s) (flog s).
Definition set_gpad (s : fstate) (v : N) : fstate :=
  mkfstate (now s) (fstart s) (rts s) (slots s) (gnorm s) v (gblk s) (bstart s)
           (bactive s) (sigp s) (pos s) (nsteps s) (flog s).
Definition set_blocking (s : fstate) (g : N) (st : Z) (a : bool) : fstate :=
  mkfstate (now s) (fstart s) (rts s) (slots s) (gnorm s) (gpad s) g st
           a (sigp s) (pos s) (nsteps s) (flog s).

(** completion of machine [mi]'s action: transition, then decrement the limit
    if the state did not change and the machine is not ended *)
Definition trans_dec (c : cfg) (tp : tape) (s : fstate) (mi : nat) (ev : event) (dec : bool)
  : outcome fstate :=
  '(s, changed) <- transition FUEL c tp s mi ev ;;
  r <- get (rts s) mi ;;
  if negb changed && negb (cur r =? STATE_END) && dec then decrement_limit c tp s mi
  else Ok s.

Fixpoint blocking_begin_all (c : cfg) (tp : tape) (target : N) (k from : nat) (s : fstate)
  : outcome fstate :=
  match k with
  | O => Ok s
  | S k' =>
      s <- trans_dec c tp s from BlockingBegin (N.of_nat from =? target) ;;
      blocking_begin_all c tp target k' (S from) s
  end.

Fixpoint normal_sent_all (c : cfg) (tp : tape) (k from : nat) (s : fstate) : outcome fstate :=
  match k with
  | O => Ok s
  | S k' =>
      r <- get (rts s) from ;;
      let s := set_rt s from (rt_set_nsent r (nsent r + 1)) in
      '(s, _) <- transition FUEL c tp s from NormalSent ;;
      normal_sent_all c tp k' (S from) s
  end.

Fixpoint blocking_end_all (c : cfg) (tp : tape) (blocked : N) (k from : nat) (s : fstate)
  : outcome fstate :=
  match k with
  | O => Ok s
  | S k' =>
      r <- get (rts s) from ;;
      s <- (if negb (blocked =? 0) then
              d <- c_add (clk c) (bdur r) blocked ;;
              Ok (set_rt s from (rt_set_bdur r d))
            else Ok s) ;;
      '(s, _) <- transition FUEL c tp s from BlockingEnd ;;
      blocking_end_all c tp blocked k' (S from) s
  end.

Definition process_event (c : cfg) (tp : tape) (s : fstate) (e : trigger_event)
  : outcome fstate :=
  let n := nmach s in
  match e with
  | TENormalRecv => trans_all c tp NormalRecv n 0 s
  | TEPaddingRecv => trans_all c tp PaddingRecv n 0 s
  | TETunnelRecv => trans_all c tp TunnelRecv n 0 s
  | TENormalSent => normal_sent_all c tp n 0 (set_gnorm s (gnorm s + 1))
  | TEPaddingSent m =>
      let s := set_gpad s (gpad s + 1) in
      if N.of_nat n <=? m then Ok s
      else
        let mi := N.to_nat m in
        r <- get (rts s) mi ;;
        let s := set_rt s mi (rt_set_psent r (psent r + 1)) in
        trans_dec c tp s mi PaddingSent true
  | TETunnelSent => trans_all c tp TunnelSent n 0 s
  | TEBlockingBegin m =>
      let s := if bactive s then s else set_blocking s (gblk s) (now s) true in
      blocking_begin_all c tp m n 0 s
  | TEBlockingEnd =>
      '(s, blocked) <- (if bactive s then
                          let b := c_since (clk c) (now s) (bstart s) in
                          g <- c_add (clk c) (gblk s) b ;;
                          Ok (set_blocking s g (bstart s) false, b)
                        else Ok (s, 0)) ;;
      blocking_end_all c tp blocked n 0 s
  | TETimerBegin m =>
      if N.of_nat n <=? m then Ok s
      else trans_dec c tp s (N.to_nat m) TimerBegin true
  | TETimerEnd m =>
      if N.of_nat n <=? m then Ok s
      else '(s, _) <- transition FUEL c tp s (N.to_nat m) TimerEnd ;; Ok s
  end.

(** ** signal round *)
Fixpoint signal_all (c : cfg) (tp : tape) (excluded : option nat) (k from : nat) (s : fstate)
  : outcome fstate :=
  match k with
  | O => Ok s
  | S k' =>
      s <- (if match excluded with Some x => Nat.eqb x from | None => false end then Ok s
            else
              let s := add_log s (LOG_SIGDELIVER, N.of_nat from, 0) in
              '(s, _) <- transition FUEL c tp s from Signal ;; Ok s) ;;
      signal_all c tp excluded k' (S from) s
  end.

Definition signal_round (c : cfg) (tp : tape) (s : fstate) : outcome fstate :=
  match sigp s with
  | None => Ok s
  | Some g =>
      let s := set_sigp s None in
      let excluded := match g with SigAll => None | SigAllExcept x => Some x end in
      s <- signal_all c tp excluded (nmach s) 0 s ;;
      s <- (match sigp s, excluded with
            | Some _, Some x =>
                let s := set_sigp s None in
                let s := add_log s (LOG_SIGDELIVER, N.of_nat x, 0) in
                '(s, _) <- transition FUEL c tp s x Signal ;; Ok s
            | _, _ => Ok s
            end) ;;
      Ok (set_sigp s None)
  end.

(** ** trigger_events *)
Definition collect_actions (sl : list (option taction)) : list taction :=
  flat_map (fun o => match o with Some a => [a] | None => [] end) sl.

Definition begin_call (s : fstate) (t : Z) : fstate :=
  mkfstate t (fstart s) (map rt_clear_z (rts s)) (map (fun _ => None) (slots s))
           (gnorm s) (gpad s) (gblk s) (bstart s) (bactive s) (sigp s) (pos s) 0 [].

Definition trigger_events (c : cfg) (tp : tape) (s : fstate) (evs : list trigger_event) (t : Z)
  : outcome (fstate * list taction) :=
  let s := begin_call s t in
  s <- foldM (process_event c tp) evs s ;;
  s <- signal_round c tp s ;;
  Ok (s, collect_actions (slots s)).

(** ** Framework::new (validation is in Model/Validate.v; here: the initial
    state and the limit sampled for state 0 of every machine) *)
Fixpoint init_rts (tp : tape) (p : nat) (ms : list machine) : outcome (list mrt * nat) :=
  match ms with
  | [] => Ok ([], p)
  | m :: ms' =>
      st0 <- get (states m) 0 ;;
      let '(l, p') := match saction st0 with
                      | Some a => sample_limit tp p a
                      | None => (0, p)
                      end in
      '(rs, p'') <- init_rts tp p' ms' ;;
      Ok (mkmrt 0 l 0 0 0 0 0 false false :: rs, p'')
  end.

Definition fnew (c : cfg) (tp : tape) (t0 : Z) : outcome fstate :=
  '(rs, p) <- init_rts tp 0 (machines c) ;;
  Ok (mkfstate t0 t0 rs (map (fun _ => None) (machines c)) 0 0 0 t0 false None p 0 []).

(** a whole history of calls *)
Fixpoint run (c : cfg) (tp : tape) (s : fstate) (h : list (list trigger_event * Z))
  : outcome (fstate * list (list taction)) :=
  match h with
  | [] => Ok (s, [])
  | (evs, t) :: h' =>
      '(s, acts) <- trigger_events c tp s evs t ;;
      '(s, rest) <- run c tp s h' ;;
      Ok (s, acts :: rest)
  end.
