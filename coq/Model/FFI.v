(** Model of crates/maybenot-ffi: conversion of events and actions, the
    zip of the returned actions with the caller's buffer of num_machines
    slots, and the result codes of maybenot_start / maybenot_on_events.
    The clock is std::time (durations built by Duration::from_micros), the RNG
    the OS-seeded ChaCha -- both irrelevant for the deterministic machines the
    property quantifies over; here the framework is the model's, with
    durations in microseconds. *)
From MB Require Import Model.Framework Model.Validate.
Open Scope N_scope.

(** MaybenotDuration {secs, nanos} of Duration::from_micros(us) *)
Definition split_micros (us : N) : N * N := (us / 1000000, (us mod 1000000) * 1000).

Definition c_timer (t : timer) : N := match t with TAction => 0 | TInternal => 1 | TAll => 2 end.

(** a MaybenotAction flattened: [tag; machine; timeout.secs; timeout.nanos;
    replace; bypass; duration.secs; duration.nanos; timer] (unused fields 0) *)
Definition convert_action (a : taction) : list N :=
  match a with
  | TCancel m t => [0; m; 0; 0; 0; 0; 0; 0; c_timer t]
  | TSendPadding m tm by_ rp =>
      let '(s, n) := split_micros tm in [1; m; s; n; (if rp then 1 else 0); (if by_ then 1 else 0); 0; 0; 0]
  | TBlockOutgoing m tm d by_ rp =>
      let '(s, n) := split_micros tm in let '(ds, dn) := split_micros d in
      [2; m; s; n; (if rp then 1 else 0); (if by_ then 1 else 0); ds; dn; 0]
  | TUpdateTimer m d rp =>
      let '(ds, dn) := split_micros d in [3; m; 0; 0; (if rp then 1 else 0); 0; ds; dn; 0]
  end.

(** MaybenotEvent {event_type, machine}; a discriminant outside 0..9 is
    outside the C API's contract *)
Definition convert_event (ev : N * N) : option trigger_event :=
  let '(ty, m) := ev in
  match ty with
  | 0 => Some TENormalRecv | 1 => Some TEPaddingRecv | 2 => Some TETunnelRecv
  | 3 => Some TENormalSent | 4 => Some (TEPaddingSent m) | 5 => Some TETunnelSent
  | 6 => Some (TEBlockingBegin m) | 7 => Some TEBlockingEnd
  | 8 => Some (TETimerBegin m) | 9 => Some (TETimerEnd m)
  | _ => None
  end.

Fixpoint convert_events (l : list (N * N)) : option (list trigger_event) :=
  match l with
  | [] => Some []
  | e :: t => match convert_event e, convert_events t with
              | Some x, Some xs => Some (x :: xs)
              | _, _ => None
              end
  end.

(** result codes *)
Definition RES_OK : N := 0.
Definition RES_NOT_UTF8 : N := 1.
Definition RES_INVALID_MACHINE : N := 2.
Definition RES_START_FRAMEWORK : N := 3.
Definition RES_NULL : N := 4.

(** maybenot_on_events: null checks, then the actions are written in order
    into the first slots of a buffer of num_machines slots *)
Definition ffi_on_events (c : cfg) (tp : tape) (this_null events_null actions_null count_null : bool)
           (s : fstate) (cevs : list (N * N)) (t : Z)
  : outcome (N * fstate * list (list N)) :=
  if this_null || events_null || actions_null || count_null then Ok (RES_NULL, s, [])
  else
    match convert_events cevs with
    | None => Panic 7   (* invalid discriminant: undefined behaviour, outside the contract *)
    | Some evs =>
        '(s', acts) <- trigger_events c tp s evs t ;;
        Ok (RES_OK, s', firstn (length (machines c)) (map convert_action acts))
    end.

(** maybenot_start, given whether the out pointer is null, the string is
    UTF-8, each line parses (Machine::from_str), and the fractions *)
Definition ffi_start_code (out_null utf8_ok : bool) (lines_ok : list bool) (pad blk : N) : N :=
  if out_null then RES_NULL
  else if negb utf8_ok then RES_NOT_UTF8
  else if negb (forallb (fun b => b) lines_ok) then RES_INVALID_MACHINE
  else if negb (in_unit (f64_of_bits pad) && in_unit (f64_of_bits blk)) then RES_START_FRAMEWORK
  else RES_OK.
