(** Machine::serialize and FromStr for Machine (machine.rs): the pipeline
    version prefix "02" ++ base64 (zlib (bincode machine)). zlib (flate2) is an
    oracle: [deflate] and the bounded single read [inflate] are section
    variables with a recorded contract. *)
From MB Require Import Model.Framework Model.Validate.
From MB Require Model.Codec.Base64 Model.Codec.Bincode.
Open Scope N_scope.

Definition MAX_DECOMPRESSED_SIZE : N := 1048576.

Section Pipeline.
  (** zlib compression at level best *)
  Variable deflate : list N -> list N.
  (** one [read] into a buffer of the given size: the decompressed bytes (at
      most that many), or an error *)
  Variable inflate : list N -> N -> option (list N).

  Definition serialize (m : machine) : list N :=
    [48; 50] ++ Base64.b64_encode (deflate (Bincode.ser_machine m)).

  Definition from_str (s : list N) : option machine :=
    if (length s <? 3)%nat then None
    else if negb (forallb (fun ch => ch <? 128) s) then None
    else
      match s with
      | a :: b :: rest =>
          if (a =? 48) && (b =? 50) then
            match Base64.b64_decode rest with
            | None => None
            | Some compressed =>
                match inflate compressed MAX_DECOMPRESSED_SIZE with
                | None => None
                | Some bytes =>
                    match Bincode.de_machine bytes with
                    | None => None
                    | Some m => if validate_machine m then Some m else None
                    end
                end
            end
          else None
      | _ => None
      end.
End Pipeline.
