(** OCaml extraction of the executable model. Only [ExtrOcamlBasic]
    (bool/option/list/prod/unit/sumbool mapped to OCaml's); all numbers stay
    the inductive [positive]/[N]/[Z]/[nat]. *)
From Coq Require Import Extraction ExtrOcamlBasic.
From MB Require Import Model.Wire.
Extraction Language OCaml.
Extraction "Extract/vmodel.ml" run_wire.
