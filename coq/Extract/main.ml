(* Driver: one case per input line, tokens are hexadecimal naturals.
   Builds Coq [N] values bit by bit, calls the extracted [run_wire], prints
   each result line as "<caseidx> <hex tokens>". *)
open Vmodel

let n_of_hex (s : string) : n =
  (* positive built from most significant bit down *)
  let acc = ref None in
  String.iter (fun ch ->
    let d = match ch with
      | '0'..'9' -> Char.code ch - 48
      | 'a'..'f' -> Char.code ch - 87
      | 'A'..'F' -> Char.code ch - 55
      | _ -> failwith ("bad hex digit in " ^ s) in
    for i = 3 downto 0 do
      let bit = (d lsr i) land 1 = 1 in
      acc := (match !acc with
        | None -> if bit then Some XH else None
        | Some p -> Some (if bit then XI p else XO p))
    done) s;
  match !acc with None -> N0 | Some p -> Npos p

let hex_of_n (x : n) : string =
  match x with
  | N0 -> "0"
  | Npos p ->
    (* collect bits least significant first *)
    let rec bits p acc = match p with
      | XH -> true :: acc
      | XO q -> bits q (false :: acc)
      | XI q -> bits q (true :: acc) in
    (* bits returns most significant first after accumulation *)
    let msb_first = bits p [] in
    let lsb_first = List.rev msb_first in
    let buf = Buffer.create 16 in
    let rec digits l acc = match l with
      | [] -> acc
      | _ ->
        let take l = match l with [] -> (false, []) | b :: t -> (b, t) in
        let (b0, l) = take l in let (b1, l) = take l in
        let (b2, l) = take l in let (b3, l) = take l in
        let v = (if b0 then 1 else 0) + (if b1 then 2 else 0)
              + (if b2 then 4 else 0) + (if b3 then 8 else 0) in
        digits l ("0123456789abcdef".[v] :: acc) in
    List.iter (Buffer.add_char buf) (digits lsb_first []);
    Buffer.contents buf

let () =
  (* optional argument: the index of the first case (for sharded runs) *)
  let idx = ref (if Array.length Sys.argv > 1 then int_of_string Sys.argv.(1) else 0) in
  (try
    while true do
      let line = input_line stdin in
      let toks = List.filter (fun s -> s <> "") (String.split_on_char ' ' line) in
      if toks <> [] then begin
        let case = List.map n_of_hex toks in
        let res = run_wire case in
        List.iter (fun l ->
          print_string (string_of_int !idx);
          List.iter (fun x -> print_char ' '; print_string (hex_of_n x)) l;
          print_newline ()) res;
        incr idx
      end
    done
  with End_of_file -> ())
